(* Proofs for C08 (Model/Framing.v against Spec/FramingSpec.v).

   Layers:
     1. list facts (newline-free strings, IndexByte / LastIndexByte, slices, unlines / join);
     2. the abstract machine: state = (complete lines of the open segment, partial line),
        fed byte by byte - [feed (a ++ b) = feed a then b] holds by construction;
     3. refinement: under the representation invariant [Abs] every operation of the model
        (offsets, slices, block-wise loop with fuel, relocation) is the abstract operation
        followed by checkOverflow; no operation panics or runs out of fuel;
     4. the abstract machine against the line-based specification (split_lines / group);
     5. the length bound that keeps checkOverflow silent;
     6. the property theorems. *)
From SV Require Import Model.Common Model.Framing Spec.FramingSpec Proofs.CommonFacts.
From Coq Require Import Lia ZifyBool ZifyN ZifyNat.
Ltac Zify.zify_post_hook ::= Z.div_mod_to_equations.
Open Scope nat_scope.

(* ================= 1. list facts ================= *)

Lemma nonl_nil : nonl [].
Proof. intros H. inversion H. Qed.

Lemma nonl_cons : forall c l, nonl (c :: l) <-> c <> NL /\ nonl l.
Proof.
  unfold nonl. intros c l. split.
  - intros H. split; intro H'; apply H; [left; congruence | right; assumption].
  - intros [H1 H2] [H|H]; [congruence | contradiction].
Qed.

Lemma nonl_app : forall a b, nonl (a ++ b) <-> nonl a /\ nonl b.
Proof.
  unfold nonl. intros a b. rewrite in_app_iff. tauto.
Qed.

Lemma eqb_NL_false : forall c, c <> NL -> N.eqb c NL = false.
Proof. intros c H. apply N.eqb_neq. assumption. Qed.

Lemma index_byte_nonl : forall s, nonl s -> index_byte NL s = None.
Proof.
  induction s as [|c s IH]; intros H; [reflexivity|].
  apply nonl_cons in H. destruct H as [Hc Hs]. cbn [index_byte].
  rewrite (eqb_NL_false _ Hc), (IH Hs). reflexivity.
Qed.

Lemma index_byte_line : forall l r, nonl l -> index_byte NL (l ++ NL :: r) = Some (length l).
Proof.
  induction l as [|c l IH]; intros r H.
  - cbn. reflexivity.
  - apply nonl_cons in H. destruct H as [Hc Hl]. cbn [app index_byte length].
    rewrite (eqb_NL_false _ Hc), (IH r Hl). reflexivity.
Qed.

Lemma index_byte_split : forall s,
  match index_byte NL s with
  | None => nonl s
  | Some i => exists l r : bytes, s = l ++ NL :: r /\ length l = i /\ nonl l
  end.
Proof.
  induction s as [|c s IH]; [exact nonl_nil|].
  cbn [index_byte]. destruct (N.eqb c NL) eqn:E.
  - apply N.eqb_eq in E. subst c. exists [], s. repeat split. exact nonl_nil.
  - apply N.eqb_neq in E. destruct (index_byte NL s) as [i|].
    + destruct IH as (l & r & Hs & Hl & Hn). cbn [option_map].
      exists (c :: l), r. subst s. repeat split; [cbn; lia|].
      apply nonl_cons. split; assumption.
    + cbn [option_map]. apply nonl_cons. split; assumption.
Qed.

Lemma last_index_byte_nonl : forall s, nonl s -> last_index_byte NL s = None.
Proof.
  induction s as [|c s IH]; intros H; [reflexivity|].
  apply nonl_cons in H. destruct H as [Hc Hs]. cbn [last_index_byte].
  rewrite (IH Hs), (eqb_NL_false _ Hc). reflexivity.
Qed.

Lemma last_index_byte_app : forall x p, nonl p -> last_index_byte NL (x ++ NL :: p) = Some (length x).
Proof.
  induction x as [|c x IH]; intros p H.
  - cbn [app last_index_byte length]. rewrite (last_index_byte_nonl _ H). rewrite N.eqb_refl. reflexivity.
  - cbn [app last_index_byte length]. rewrite (IH p H). reflexivity.
Qed.

(* slices *)
Lemma slice_mid : forall a b c : bytes, slice (a ++ b ++ c) (length a) (length a + length b) = Some b.
Proof.
  intros a b c. unfold slice.
  assert (H1 : Nat.leb (length a) (length a + length b) = true) by (apply Nat.leb_le; lia).
  assert (H2 : Nat.leb (length a + length b) (length (a ++ b ++ c)) = true)
    by (apply Nat.leb_le; rewrite !app_length; lia).
  rewrite H1, H2. cbn [andb]. f_equal.
  rewrite skipn_app, skipn_all, Nat.sub_diag. cbn [skipn app].
  replace (length a + length b - length a) with (length b) by lia.
  rewrite firstn_app, firstn_all, Nat.sub_diag. cbn [firstn]. apply app_nil_r.
Qed.

Lemma oslice_mid : forall site (a b c : bytes) i j,
  i = length a -> j = length a + length b -> oslice site (a ++ b ++ c) i j = Ok b.
Proof. intros. subst. unfold oslice. rewrite slice_mid. reflexivity. Qed.

Lemma oslice_tail : forall site (a b : bytes) i j,
  i = length a -> j = length (a ++ b) -> oslice site (a ++ b) i j = Ok b.
Proof.
  intros site a b i j Hi Hj. rewrite <- (app_nil_r b) at 1.
  apply oslice_mid; [assumption|]. rewrite Hj, app_length. reflexivity.
Qed.

Lemma oslice_head : forall site (a b : bytes) j,
  j = length a -> oslice site (a ++ b) 0 j = Ok a.
Proof.
  intros site a b j Hj. change (a ++ b) with ([] ++ a ++ b).
  apply oslice_mid; [reflexivity|]. cbn. assumption.
Qed.

(* unlines / join *)
Lemma unlines_app : forall a b, unlines (a ++ b) = unlines a ++ unlines b.
Proof. intros. unfold unlines. apply flat_map_app. Qed.

Lemma unlines_cons : forall l ls, unlines (l :: ls) = l ++ NL :: unlines ls.
Proof. intros. unfold unlines. cbn [flat_map]. rewrite <- app_assoc. reflexivity. Qed.

Lemma unlines_one : forall l, unlines [l] = l ++ [NL].
Proof. intros. rewrite unlines_cons. reflexivity. Qed.

Lemma join_cons2 : forall (x y : bytes) l, join NL (x :: y :: l) = x ++ NL :: join NL (y :: l).
Proof. reflexivity. Qed.

Lemma unlines_join : forall dl, dl <> [] -> unlines dl = join NL dl ++ [NL].
Proof.
  induction dl as [|l dl IH]; intros H; [congruence|].
  destruct dl as [|l2 dl].
  - rewrite unlines_one. reflexivity.
  - rewrite unlines_cons, IH by discriminate. rewrite join_cons2.
    rewrite <- app_assoc. reflexivity.
Qed.

Lemma join_snoc : forall dl p, join NL (dl ++ [p]) = unlines dl ++ p.
Proof.
  induction dl as [|l dl IH]; intros p; [reflexivity|].
  rewrite unlines_cons. cbn [app]. destruct dl as [|l2 dl].
  - cbn. rewrite <- app_assoc. reflexivity.
  - change ((l2 :: dl) ++ [p]) with (l2 :: (dl ++ [p])) in *.
    rewrite join_cons2. change (l2 :: dl ++ [p]) with ((l2 :: dl) ++ [p]). rewrite IH.
    rewrite <- app_assoc. reflexivity.
Qed.

Lemma unlines_nil_iff : forall dl, unlines dl = [] <-> dl = [].
Proof.
  intros dl. split; [|intros ->; reflexivity].
  destruct dl as [|l dl]; [reflexivity|]. rewrite unlines_cons. intros H.
  destruct l; discriminate.
Qed.

Lemma unlines_length_pos : forall dl, dl <> [] -> 0 < length (unlines dl).
Proof.
  intros [|l dl] H; [congruence|]. rewrite unlines_cons, app_length. cbn. lia.
Qed.

(* ================= 2. the abstract machine ================= *)
Section Machine.
Variable test : bytes -> bool.

(* a complete line [p] arrives while [dl] are the lines of the open segment *)
Definition close (dl : list bytes) (p : bytes) : list bytes * list bytes :=
  match dl with
  | [] => ([], [p])
  | _ :: _ => if is_start test p then ([join NL dl], [p]) else ([], dl ++ [p])
  end.

Fixpoint feed (dl : list bytes) (p : bytes) (s : bytes) : list bytes * list bytes * bytes :=
  match s with
  | [] => ([], dl, p)
  | c :: s' =>
    if N.eqb c NL then
      let '(o, dl1) := close dl p in
      let '(o2, dl2, p2) := feed dl1 [] s' in (o ++ o2, dl2, p2)
    else feed dl (p ++ [c]) s'
  end.

Lemma feed_app : forall a b dl p,
  feed dl p (a ++ b) =
  let '(o1, dl1, p1) := feed dl p a in
  let '(o2, dl2, p2) := feed dl1 p1 b in (o1 ++ o2, dl2, p2).
Proof.
  induction a as [|c a IH]; intros b dl p.
  - cbn [app feed]. destruct (feed dl p b) as [[o2 dl2] p2]. reflexivity.
  - cbn [app feed]. destruct (N.eqb c NL).
    + destruct (close dl p) as [o dl1]. rewrite IH.
      destruct (feed dl1 [] a) as [[o1 dl1'] p1].
      destruct (feed dl1' p1 b) as [[o2 dl2] p2]. rewrite app_assoc. reflexivity.
    + apply IH.
Qed.

Lemma feed_nonl : forall t dl p, nonl t -> feed dl p t = ([], dl, p ++ t).
Proof.
  induction t as [|c t IH]; intros dl p H.
  - cbn. rewrite app_nil_r. reflexivity.
  - apply nonl_cons in H. destruct H as [Hc Ht]. cbn [feed].
    rewrite (eqb_NL_false _ Hc), (IH _ _ Ht), <- app_assoc. reflexivity.
Qed.

Lemma feed_NL : forall s dl p,
  feed dl p (NL :: s) =
  let '(o, dl1) := close dl p in
  let '(o2, dl2, p2) := feed dl1 [] s in (o ++ o2, dl2, p2).
Proof. intros. cbn [feed]. rewrite N.eqb_refl. reflexivity. Qed.

Lemma feed_line : forall l s dl p, nonl l ->
  feed dl p (l ++ NL :: s) =
  let '(o, dl1) := close dl (p ++ l) in
  let '(o2, dl2, p2) := feed dl1 [] s in (o ++ o2, dl2, p2).
Proof.
  intros l s dl p H. rewrite feed_app, (feed_nonl _ _ _ H), feed_NL.
  destruct (close dl (p ++ l)) as [o dl1]. destruct (feed dl1 [] s) as [[o2 dl2] p2]. reflexivity.
Qed.

Lemma feed_partial : forall p s dl, nonl p -> feed dl [] (p ++ s) = feed dl p s.
Proof.
  intros p s dl H. rewrite feed_app, (feed_nonl _ _ _ H). cbn [app].
  destruct (feed dl p s) as [[o2 dl2] p2]. reflexivity.
Qed.

Lemma close_wf : forall dl p, Forall nonl dl -> nonl p -> Forall nonl (snd (close dl p)).
Proof.
  intros dl p Hd Hp. unfold close. destruct dl as [|d dl]; [repeat constructor; assumption|].
  destruct (is_start test p); cbn [snd].
  - repeat constructor; assumption.
  - apply Forall_app. split; [assumption|repeat constructor; assumption].
Qed.

Lemma close_nonempty : forall dl p, snd (close dl p) <> [].
Proof.
  intros dl p. unfold close. destruct dl as [|d dl]; [discriminate|].
  destruct (is_start test p); cbn [snd]; [discriminate|]. intros H. apply app_eq_nil in H. destruct H; discriminate.
Qed.

Lemma feed_wf : forall s dl p o dl' p', Forall nonl dl -> nonl p ->
  feed dl p s = (o, dl', p') -> Forall nonl dl' /\ nonl p'.
Proof.
  induction s as [|c s IH]; intros dl p o dl' p' Hd Hp E.
  - cbn in E. inversion E; subst. split; assumption.
  - cbn [feed] in E. destruct (N.eqb c NL) eqn:Ec.
    + pose proof (close_wf dl p Hd Hp) as Hw. destruct (close dl p) as [o1 dl1]. cbn [snd] in Hw.
      destruct (feed dl1 [] s) as [[o2 dl2] p2] eqn:E2. inversion E; subst.
      eapply IH; [exact Hw | exact nonl_nil | exact E2].
    + apply N.eqb_neq in Ec. eapply IH; [exact Hd | | exact E].
      apply nonl_app. split; [assumption|]. apply nonl_cons. split; [assumption|exact nonl_nil].
Qed.

(* ================= 3. refinement ================= *)

(* representation invariant: buffer = complete lines of the open segment ++ partial line,
   offsetSearch = start of the partial line *)
Definition Abs (st : mlr) (dl : list bytes) (p : bytes) : Prop :=
  m_buf st = unlines dl ++ p /\ m_search st = length (unlines dl) /\ nonl p /\ Forall nonl dl.

Ltac norm_app := repeat (rewrite ?unlines_app, ?unlines_cons, <- ?app_assoc; cbn [app unlines flat_map]).

Ltac len := repeat (rewrite ?app_length, ?unlines_app, ?unlines_cons; cbn [length unlines flat_map app]); try lia.
Ltac fin H :=
  match type of H with _ = ?R =>
    match goal with |- _ = ?R' =>
      replace R' with R;
      [ rewrite <- H; f_equal; try (norm_app; reflexivity); len
      | rewrite <- ?app_assoc; reflexivity ]
    end
  end.
Ltac dfeed E := match type of E with context [feed ?a ?b ?c] => destruct (feed a b c) as [[o2 dl2] p2] eqn:E2 end.
Lemma pb_loop_spec : forall fuel pre dl rest out o dl' p',
  Forall nonl dl -> (dl = [] -> pre = []) -> length rest < fuel ->
  feed dl [] rest = (o, dl', p') ->
  exists pre',
    pre ++ unlines dl ++ rest = pre' ++ unlines dl' ++ p' /\
    (dl' = [] -> pre' = []) /\
    pb_loop test fuel (pre ++ unlines dl ++ rest) (length pre) (length pre + length (unlines dl)) out
      = Ok (length pre', length pre' + length (unlines dl'), out ++ o).
Proof.
  induction fuel as [|fuel IH]; intros pre dl rest out o dl' p' Hd Hpre Hfuel E; [lia|].
  cbn [pb_loop].
  assert (Hrest : oslice 1 (pre ++ unlines dl ++ rest) (length pre + length (unlines dl))
                    (length (pre ++ unlines dl ++ rest)) = Ok rest).
  { rewrite app_assoc. apply oslice_tail; [rewrite app_length; reflexivity|reflexivity]. }
  rewrite Hrest. cbn [bindo].
  pose proof (index_byte_split rest) as Hs.
  destruct (index_byte NL rest) as [rel|].
  - destruct Hs as (l & r & -> & Hlen & Hnl).
    rewrite (feed_line l r dl [] Hnl) in E. cbn [app] in E.
    assert (Hr : length r < fuel) by (rewrite app_length in Hfuel; cbn in Hfuel; lia).
    destruct dl as [|d dl0].
    + (* first line of the buffer: never tested *)
      rewrite (Hpre eq_refl) in *. cbn [close] in E.
      dfeed E. injection E as <- <- <-.
      cbn [length unlines flat_map app Nat.add Nat.ltb Nat.leb andb].
      destruct (IH [] [l] r out o2 dl2 p2) as (pre' & Heq & Hn & Hrun);
        [repeat constructor; assumption | reflexivity | assumption | assumption |].
      exists pre'. split; [|split; [assumption|]].
      * rewrite <- Heq. norm_app. reflexivity.
      * fin Hrun.
    + set (dl := d :: dl0) in *.
      assert (Hpos : 0 < length (unlines dl)) by (apply unlines_length_pos; discriminate).
      assert (Hc1 : (0 <? length pre + length (unlines dl)) = true) by (apply Nat.ltb_lt; lia).
      rewrite Hc1. cbn [andb].
      destruct l as [|c l0].
      * (* empty line: appended untested *)
        cbn [length] in Hlen. subst rel. cbn [Nat.add].
        rewrite Nat.ltb_irrefl.
        assert (Hcl : close dl [] = ([], dl ++ [[]])) by reflexivity.
        rewrite Hcl in E. dfeed E.
        injection E as <- <- <-.
        destruct (IH pre (dl ++ [[]]) r out o2 dl2 p2) as (pre' & Heq & Hn & Hrun);
          [apply Forall_app; split; [assumption|repeat constructor; exact nonl_nil]
          | intros H; apply app_eq_nil in H; destruct H; discriminate | assumption | assumption |].
        exists pre'. split; [|split; [assumption|]].
        -- rewrite <- Heq. norm_app. reflexivity.
        -- fin Hrun.
      * set (l := c :: l0) in *.
        assert (Hc2 : (length pre + length (unlines dl) <? rel + (length pre + length (unlines dl))) = true).
        { apply Nat.ltb_lt. subst rel. cbn [length l]. unfold l. cbn [length]. lia. }
        rewrite Hc2.
        assert (Hline : oslice 2 (pre ++ unlines dl ++ l ++ NL :: r) (length pre + length (unlines dl))
                          (rel + (length pre + length (unlines dl))) = Ok l).
        { replace (pre ++ unlines dl ++ l ++ NL :: r) with ((pre ++ unlines dl) ++ l ++ NL :: r)
            by (rewrite <- app_assoc; reflexivity).
          apply oslice_mid; rewrite app_length; lia. }
        rewrite Hline. cbn [bindo].
        assert (Hst : is_start test l = test l) by reflexivity.
        unfold close in E. fold dl in E. unfold dl at 1 in E. rewrite Hst in E.
        destruct (test l) eqn:Et.
        -- (* a record start: the open segment is consumed *)
           assert (Hprev : oslice 3 (pre ++ unlines dl ++ l ++ NL :: r) (length pre)
                             (length pre + length (unlines dl) - 1) = Ok (join NL dl)).
           { rewrite (unlines_join dl) by discriminate. rewrite <- app_assoc.
             apply oslice_mid; [reflexivity|]. rewrite app_length. cbn [length]. lia. }
           rewrite Hprev. cbn [bindo].
           dfeed E. injection E as <- <- <-.
           destruct (IH (pre ++ unlines dl) [l] r (out ++ [join NL dl]) o2 dl2 p2) as (pre' & Heq & Hn & Hrun);
             [repeat constructor; assumption | discriminate | assumption | assumption |].
           exists pre'. split; [|split; [assumption|]].
           ++ rewrite <- Heq. norm_app. reflexivity.
           ++ fin Hrun.
        -- dfeed E. injection E as <- <- <-.
           destruct (IH pre (dl ++ [l]) r out o2 dl2 p2) as (pre' & Heq & Hn & Hrun);
             [apply Forall_app; split; [assumption|repeat constructor; assumption]
             | intros H; apply app_eq_nil in H; destruct H; discriminate | assumption | assumption |].
           exists pre'. split; [|split; [assumption|]].
           ++ rewrite <- Heq. norm_app. reflexivity.
           ++ fin Hrun.
  - rewrite (feed_nonl _ _ _ Hs) in E. injection E as <- <- <-. cbn [app].
    exists pre. split; [reflexivity|]. split; [assumption|]. rewrite app_nil_r. reflexivity.
Qed.

Definition same_params (st st' : mlr) : Prop := m_cap st' = m_cap st /\ m_limit st' = m_limit st.

Lemma same_params_refl : forall st, same_params st st.
Proof. intros. split; reflexivity. Qed.

Lemma same_params_trans : forall a b c, same_params a b -> same_params b c -> same_params a c.
Proof. unfold same_params. intros a b c [H1 H2] [H3 H4]. split; congruence. Qed.

Lemma same_params_set_buf : forall st b s, same_params st (set_buf st b s).
Proof. intros. split; reflexivity. Qed.

Lemma Abs_empty : forall st s, s = 0 -> Abs (set_buf st [] s) [] [].
Proof. intros st s ->. repeat split; try exact nonl_nil. constructor. Qed.

(* never full: room for a record of the soft limit, or nothing buffered *)
Definition roomy (st : mlr) : Prop :=
  m_limit st <= m_cap st - length (m_buf st) \/ m_buf st = [].

Definition inv (st : mlr) : Prop :=
  (exists dl p, Abs st dl p) /\ length (m_buf st) <= m_cap st /\ roomy st.

Lemma check_overflow_quiet : forall st,
  m_limit st <= m_cap st - length (m_buf st) -> check_overflow test st = Ok (st, []).
Proof.
  intros st H. unfold check_overflow. apply Nat.leb_le in H. rewrite H. reflexivity.
Qed.

Lemma check_overflow_inv : forall st dl p,
  Abs st dl p -> length (m_buf st) <= m_cap st ->
  exists st' o, check_overflow test st = Ok (st', o) /\ inv st' /\ same_params st st'.
Proof.
  intros st dl p HA Hcap. unfold check_overflow.
  destruct (m_limit st <=? m_cap st - length (m_buf st)) eqn:El.
  - apply Nat.leb_le in El. exists st, []. split; [reflexivity|]. split; [|apply same_params_refl].
    split; [exists dl, p; assumption|]. split; [assumption|left; assumption].
  - assert (Hreset : forall o : list bytes, exists st' o', @Ok (mlr * list bytes) (set_buf st [] 0, o) = Ok (st', o') /\ inv st' /\ same_params st st').
    { intros o. exists (set_buf st [] 0), o. split; [reflexivity|]. split; [|apply same_params_set_buf].
      split; [exists [], []; apply Abs_empty; reflexivity|]. cbn. split; [lia|right; reflexivity]. }
    destruct HA as (Hb & Hs & Hp & Hd).
    destruct (0 <? m_search st) eqn:E0.
    + apply Nat.ltb_lt in E0.
      assert (Hdl : dl <> []) by (intros ->; cbn in Hs; lia).
      rewrite Hb, Hs.
      rewrite (oslice_tail 5 (unlines dl) p) by reflexivity. cbn [bindo].
      destruct (test p).
      * rewrite (unlines_join dl Hdl), <- app_assoc.
        rewrite (oslice_head 6 (join NL dl)) by (rewrite app_length; cbn; lia). cbn [bindo].
        destruct (test (join NL dl)); apply Hreset.
      * destruct (test (unlines dl ++ p)); apply Hreset.
    + destruct (test (m_buf st)); apply Hreset.
Qed.

Lemma process_buffer_abs : forall st dl p new o dl' p',
  Abs st dl p -> feed dl p new = (o, dl', p') ->
  exists st1, Abs st1 dl' p' /\ same_params st st1 /\
    length (m_buf st1) <= length (m_buf st) + length new /\
    process_buffer test st (m_buf st ++ new) =
      (r2 <-- check_overflow test st1 ;; let '(st2, o2) := r2 in Ok (st2, o ++ o2)).
Proof.
  intros st dl p new o dl' p' (Hb & Hs & Hp & Hd) E.
  rewrite <- (feed_partial p new dl Hp) in E.
  destruct (pb_loop_spec (S (length (m_buf st ++ new))) [] dl (p ++ new) [] o dl' p' Hd (fun _ => eq_refl))
    as (pre' & Heq & Hn & Hrun); [| exact E |].
  { rewrite Hb, <- app_assoc, !app_length. lia. }
  destruct (feed_wf _ _ _ _ _ _ Hd nonl_nil E) as [Hd' Hp'].
  cbn [app length Nat.add] in Heq, Hrun.
  exists (set_buf st (unlines dl' ++ p') (length (unlines dl'))).
  split; [repeat split; assumption|]. split; [apply same_params_set_buf|].
  split.
  { cbn [m_buf set_buf]. pose proof (f_equal (@length N) Heq) as HL. rewrite Hb. rewrite !app_length in *. lia. }
  unfold process_buffer. rewrite Hs. rewrite Hb in Hrun |- *. rewrite <- app_assoc in Hrun |- *. rewrite Hrun. cbn [bindo app].
  destruct (0 <? length pre') eqn:E0.
  - rewrite Heq. rewrite (oslice_tail 4 pre' (unlines dl' ++ p')) by reflexivity. cbn [bindo].
    replace (length pre' + length (unlines dl') - length pre') with (length (unlines dl')) by lia.
    reflexivity.
  - apply Nat.ltb_ge in E0. assert (pre' = []) by (destruct pre'; [reflexivity|cbn in E0; lia]). subst pre'.
    cbn [app length Nat.add] in *. rewrite Heq. cbn [bindo]. reflexivity.
Qed.

Lemma process_buffer_inv : forall st dl p new,
  Abs st dl p -> length (m_buf st) + length new <= m_cap st ->
  exists st' o, process_buffer test st (m_buf st ++ new) = Ok (st', o) /\ inv st' /\ same_params st st'.
Proof.
  intros st dl p new HA Hcap.
  destruct (feed dl p new) as [[o dl'] p'] eqn:E.
  destruct (process_buffer_abs st dl p new o dl' p' HA E) as (st1 & HA1 & Hsp & Hlen & Hrun).
  destruct (check_overflow_inv st1 dl' p' HA1) as (st2 & o2 & Hc & Hinv & Hsp2).
  { destruct Hsp as [-> _]. lia. }
  exists st2, (o ++ o2). rewrite Hrun, Hc. cbn [bindo]. split; [reflexivity|]. split; [assumption|].
  eapply same_params_trans; eassumption.
Qed.

(* ---- every operation keeps the invariant, never panics, never spins (for ALL inputs) ---- *)

Lemma read_once_inv : forall st frag,
  inv st ->
  exists st' o rest, read_once test st frag = Ok (st', o, rest) /\ inv st' /\ same_params st st' /\
    (frag <> [] -> 0 < m_cap st - length (m_buf st) -> length rest < length frag).
Proof.
  intros st frag ((dl & p & HA) & Hcap & Hroomy). unfold read_once.
  assert (Hc : (m_cap st <? length (m_buf st)) = false) by (apply Nat.ltb_ge; assumption).
  rewrite Hc.
  destruct (0 <? Nat.min (length frag) (m_cap st - length (m_buf st))) eqn:En.
  - apply Nat.ltb_lt in En.
    destruct (process_buffer_inv st dl p (firstn (Nat.min (length frag) (m_cap st - length (m_buf st))) frag) HA)
      as (st' & o & Hrun & Hinv & Hsp).
    { rewrite firstn_length. lia. }
    rewrite Hrun. cbn [bindo]. eexists st', o, _. split; [reflexivity|]. split; [assumption|]. split; [assumption|].
    intros _ _. rewrite skipn_length. lia.
  - apply Nat.ltb_ge in En. exists st, [], frag. split; [reflexivity|].
    split; [split; [exists dl, p; assumption|split; assumption]|]. split; [apply same_params_refl|].
    intros Hf Hr. destruct frag; [congruence|]. cbn [length] in En. lia.
Qed.

Lemma roomy_room : forall st, roomy st -> 1 <= m_limit st -> 1 <= m_cap st -> 0 < m_cap st - length (m_buf st).
Proof. intros st [H|H] Hl Hc; [lia|]. rewrite H. cbn. lia. Qed.

Lemma read_frag_inv : forall fuel st frag out,
  1 <= m_limit st -> 1 <= m_cap st -> inv st -> length frag <= fuel ->
  exists st' o, read_frag test fuel st frag out = Ok (st', out ++ o) /\ inv st' /\ same_params st st'.
Proof.
  induction fuel as [|fuel IH]; intros st frag out Hl Hc Hinv Hf.
  - destruct frag; [|cbn in Hf; lia]. exists st, []. rewrite app_nil_r. split; [reflexivity|].
    split; [assumption|apply same_params_refl].
  - destruct frag as [|c frag0].
    + exists st, []. rewrite app_nil_r. split; [reflexivity|]. split; [assumption|apply same_params_refl].
    + cbn [read_frag].
      destruct (read_once_inv st (c :: frag0) Hinv) as (st1 & o1 & rest & Hrun & Hinv1 & [Hc1 Hl1] & Hprog).
      rewrite Hrun. cbn [bindo].
      assert (Hrest : length rest < length (c :: frag0)).
      { apply Hprog; [discriminate|]. destruct Hinv as (_ & _ & Hr). apply roomy_room; assumption. }
      destruct (IH st1 rest (out ++ o1)) as (st2 & o2 & Hrun2 & Hinv2 & Hsp2);
        [lia | lia | assumption | cbn [length] in *; lia |].
      exists st2, (o1 ++ o2). rewrite Hrun2, app_assoc. split; [reflexivity|]. split; [assumption|].
      eapply same_params_trans; [split; eassumption|assumption].
Qed.

Lemma flush_abs : forall st dl p,
  Abs st dl p ->
  flush test st =
    match dl with
    | [] => Ok (st, [])
    | _ :: _ => Ok (set_buf st p 0,
                    if (0 <? length (join NL dl)) && test (join NL dl) then [join NL dl] else [])
    end.
Proof.
  intros st dl p (Hb & Hs & Hp & Hd). unfold flush. rewrite Hb.
  destruct dl as [|d dl0].
  - cbn [unlines flat_map app]. rewrite (last_index_byte_nonl _ Hp). reflexivity.
  - set (dl := d :: dl0) in *.
    rewrite (unlines_join dl) by discriminate. rewrite <- app_assoc. cbn [app].
    rewrite (last_index_byte_app _ _ Hp).
    rewrite (oslice_head 7 (join NL dl)) by reflexivity. cbn [bindo].
    replace (join NL dl ++ NL :: p) with ((join NL dl ++ [NL]) ++ p) by (rewrite <- app_assoc; reflexivity).
    rewrite (oslice_tail 8 (join NL dl ++ [NL]) p);
      [| rewrite app_length; cbn; lia | reflexivity].
    cbn [bindo]. reflexivity.
Qed.

Lemma flush_inv : forall st, inv st ->
  exists st' o, flush test st = Ok (st', o) /\ inv st' /\ same_params st st'.
Proof.
  intros st ((dl & p & HA) & Hcap & Hroomy).
  rewrite (flush_abs st dl p HA). destruct HA as (Hb & Hs & Hp & Hd).
  destruct dl as [|d dl0].
  - exists st, []. split; [reflexivity|]. split; [|apply same_params_refl].
    split; [exists [], p; repeat split; assumption|split; assumption].
  - eexists _, _. split; [reflexivity|]. split; [|apply same_params_set_buf].
    assert (Hlen : length p <= length (m_buf st)) by (rewrite Hb, app_length; lia).
    split; [exists [], p; repeat split; [assumption|constructor]|].
    cbn [m_buf m_cap m_limit set_buf]. split; [lia|].
    unfold roomy in *. cbn [m_buf m_cap m_limit set_buf].
    destruct Hroomy as [H|H]; [left; lia|].
    right. rewrite H in Hlen. destruct p; [reflexivity|cbn in Hlen; lia].
Qed.

Lemma last_snoc : forall (x : bytes) c, nth_error (x ++ [c]) (length (x ++ [c]) - 1) = Some c.
Proof.
  intros x c. rewrite app_length. cbn [length]. replace (length x + 1 - 1) with (length x) by lia.
  rewrite nth_error_app2 by lia. rewrite Nat.sub_diag. reflexivity.
Qed.

(* FlushAll: the record is the buffer without one trailing newline *)
Definition last_segment (dl : list bytes) (p : bytes) : bytes :=
  match p with
  | [] => join NL dl
  | _ :: _ => join NL (dl ++ [p])
  end.

Lemma flush_all_abs : forall st dl p,
  Abs st dl p ->
  flush_all test st =
    Ok (set_buf st [] 0,
        match dl, p with
        | [], [] => []
        | _, _ => if test (last_segment dl p) then [last_segment dl p] else []
        end).
Proof.
  intros st dl p (Hb & Hs & Hp & Hd). unfold flush_all. rewrite Hb.
  destruct p as [|c p0] using rev_ind.
  - rewrite app_nil_r. destruct dl as [|d dl0]; [reflexivity|].
    set (dl := d :: dl0) in *. cbn [last_segment].
    assert (Hpos : (0 <? length (unlines dl)) = true) by (apply Nat.ltb_lt, unlines_length_pos; discriminate).
    rewrite Hpos. rewrite (unlines_join dl) by discriminate.
    unfold oidx. rewrite last_snoc. cbn [bindo]. rewrite N.eqb_refl.
    rewrite (oslice_head 10 (join NL dl)) by (rewrite app_length; cbn; lia).
    cbn [bindo]. unfold dl. reflexivity.
  - clear IHp0. assert (Hc : c <> NL).
    { apply nonl_app in Hp. destruct Hp as [_ Hp]. apply nonl_cons in Hp. tauto. }
    rewrite app_assoc.
    assert (Hpos : (0 <? length ((unlines dl ++ p0) ++ [c])) = true)
      by (apply Nat.ltb_lt; rewrite app_length; cbn; lia).
    rewrite Hpos. unfold oidx. rewrite last_snoc. cbn [bindo]. rewrite (eqb_NL_false _ Hc). cbn [bindo].
    assert (Hseg : last_segment dl (p0 ++ [c]) = (unlines dl ++ p0) ++ [c]).
    { unfold last_segment. destruct (p0 ++ [c]) eqn:E; [destruct p0; discriminate|].
      rewrite <- E, join_snoc, app_assoc. reflexivity. }
    rewrite Hseg.
    destruct dl; destruct (p0 ++ [c]) eqn:E; try (destruct p0; discriminate); reflexivity.
Qed.

Lemma flush_all_inv : forall st, inv st ->
  exists st' o, flush_all test st = Ok (st', o) /\ inv st' /\ same_params st st'.
Proof.
  intros st ((dl & p & HA) & Hcap & Hroomy).
  rewrite (flush_all_abs st dl p HA). eexists _, _. split; [reflexivity|]. split; [|apply same_params_set_buf].
  split; [exists [], []; apply Abs_empty; reflexivity|]. cbn. split; [lia|right; reflexivity].
Qed.

Lemma run_op_inv : forall st o,
  1 <= m_limit st -> 1 <= m_cap st -> inv st ->
  exists st' out, run_op test st o = Ok (st', out) /\ inv st' /\ same_params st st'.
Proof.
  intros st [frag| |] Hl Hc Hinv; cbn [run_op].
  - unfold read. destruct (read_frag_inv (length frag) st frag [] Hl Hc Hinv (le_n _)) as (st' & o & H & Hi & Hs).
    exists st', o. cbn [app] in H. split; [assumption|]. split; assumption.
  - apply flush_inv; assumption.
  - apply flush_all_inv; assumption.
Qed.

Lemma run_ops_inv : forall ops st out,
  1 <= m_limit st -> 1 <= m_cap st -> inv st ->
  exists st' o, run_ops test ops st out = Ok (st', out ++ o) /\ inv st' /\ same_params st st'.
Proof.
  induction ops as [|op ops IH]; intros st out Hl Hc Hinv.
  - exists st, []. rewrite app_nil_r. split; [reflexivity|]. split; [assumption|apply same_params_refl].
  - cbn [run_ops]. destruct (run_op_inv st op Hl Hc Hinv) as (st1 & o1 & Hrun & Hinv1 & [Hc1 Hl1]).
    rewrite Hrun. cbn [bindo].
    destruct (IH st1 (out ++ o1)) as (st2 & o2 & Hrun2 & Hinv2 & Hsp2); [lia|lia|assumption|].
    exists st2, (o1 ++ o2). rewrite Hrun2, app_assoc. split; [reflexivity|]. split; [assumption|].
    eapply same_params_trans; [split; eassumption|assumption].
Qed.

Lemma inv_new : forall min_buf limit, inv (new_mlr min_buf limit).
Proof.
  intros. split; [exists [], []; repeat split; [exact nonl_nil|constructor]|].
  cbn. split; [lia|right; reflexivity].
Qed.

(* ================= 4. the abstract machine against the line-based specification ================= *)

Lemma split_lines_nonl : forall t, nonl t -> split_lines t = ([], t).
Proof.
  induction t as [|c t IH]; intros H; [reflexivity|].
  apply nonl_cons in H. destruct H as [Hc Ht]. cbn [split_lines]. rewrite (IH Ht), (eqb_NL_false _ Hc). reflexivity.
Qed.

Lemma split_lines_line : forall l s, nonl l ->
  split_lines (l ++ NL :: s) = (l :: fst (split_lines s), snd (split_lines s)).
Proof.
  induction l as [|c l IH]; intros s H.
  - cbn [app split_lines]. destruct (split_lines s). rewrite N.eqb_refl. reflexivity.
  - apply nonl_cons in H. destruct H as [Hc Hl]. cbn [app split_lines]. rewrite (IH s Hl), (eqb_NL_false _ Hc).
    reflexivity.
Qed.

Lemma split_lines_decomp : forall s ls t, split_lines s = (ls, t) ->
  s = unlines ls ++ t /\ Forall nonl ls /\ nonl t.
Proof.
  induction s as [|c s IH]; intros ls t E.
  - cbn in E. injection E as <- <-. repeat split; [constructor|exact nonl_nil].
  - cbn [split_lines] in E. destruct (split_lines s) as [ls0 t0]. destruct (IH ls0 t0 eq_refl) as (Hs & Hl & Ht).
    destruct (N.eqb c NL) eqn:Ec.
    + apply N.eqb_eq in Ec. subst c. injection E as <- <-. rewrite unlines_cons. cbn [app].
      split; [f_equal; assumption|]. split; [constructor; [exact nonl_nil|assumption]|assumption].
    + apply N.eqb_neq in Ec. destruct ls0 as [|l ls'].
      * injection E as <- <-. cbn [unlines flat_map app] in *. split; [f_equal; assumption|].
        split; [constructor|]. apply nonl_cons. split; assumption.
      * injection E as <- <-. rewrite unlines_cons in *. cbn [app]. split; [f_equal; assumption|].
        inversion Hl; subst. split; [|assumption]. constructor; [|assumption]. apply nonl_cons. split; assumption.
Qed.

Fixpoint feed_lines (dl : list bytes) (ls : list bytes) : list bytes * list bytes :=
  match ls with
  | [] => ([], dl)
  | l :: ls' =>
    let '(o, dl1) := close dl l in
    let '(o2, dl2) := feed_lines dl1 ls' in (o ++ o2, dl2)
  end.

Lemma feed_unlines : forall ls t dl, Forall nonl ls -> nonl t ->
  feed dl [] (unlines ls ++ t) = let '(o, dl') := feed_lines dl ls in (o, dl', t).
Proof.
  induction ls as [|l ls IH]; intros t dl Hl Ht.
  - cbn [unlines flat_map app feed_lines]. rewrite (feed_nonl _ _ _ Ht). reflexivity.
  - inversion Hl as [|? ? Hl1 Hl2]; subst. rewrite unlines_cons, <- app_assoc. cbn [app].
    rewrite (feed_line l _ dl [] Hl1). cbn [app feed_lines].
    destruct (close dl l) as [o dl1]. rewrite (IH t dl1 Hl2 Ht).
    destruct (feed_lines dl1 ls) as [o2 dl2]. reflexivity.
Qed.

Lemma feed_lines_nonempty : forall ls dl o dl', dl <> [] -> feed_lines dl ls = (o, dl') -> dl' <> [].
Proof.
  induction ls as [|l ls IH]; intros dl o dl' Hd E.
  - cbn in E. injection E as <- <-. assumption.
  - cbn [feed_lines] in E. pose proof (close_nonempty dl l) as Hc. destruct (close dl l) as [o1 dl1].
    destruct (feed_lines dl1 ls) as [o2 dl2] eqn:E2. injection E as <- <-. eapply IH; [exact Hc|exact E2].
Qed.

Lemma group_feed_lines : forall ls cur tail, cur <> [] ->
  group test cur ls tail = let '(o, dl') := feed_lines cur ls in o ++ [last_segment dl' tail].
Proof.
  induction ls as [|l ls IH]; intros cur tail Hc.
  - cbn [group feed_lines app]. unfold last_segment. destruct tail; reflexivity.
  - cbn [group feed_lines]. unfold close. destruct cur as [|c0 cur0]; [congruence|].
    destruct (is_start test l).
    + rewrite IH by discriminate. destruct (feed_lines [l] ls) as [o2 dl2]. reflexivity.
    + rewrite IH by (intros H; apply app_eq_nil in H; destruct H; discriminate).
      destruct (feed_lines ((c0 :: cur0) ++ [l]) ls) as [o2 dl2]. reflexivity.
Qed.

(* the segment still open in a machine state *)
Definition seg_state (dl : list bytes) (p : bytes) : list bytes :=
  match dl, p with
  | [], [] => []
  | _, _ => [last_segment dl p]
  end.

Lemma segments_feed : forall x o dl p, feed [] [] x = (o, dl, p) -> segments test x = o ++ seg_state dl p.
Proof.
  intros x o dl p E. unfold segments.
  destruct (split_lines x) as [ls t] eqn:Es. destruct (split_lines_decomp x ls t Es) as (Hx & Hl & Ht).
  rewrite Hx, (feed_unlines ls t [] Hl Ht) in E.
  destruct ls as [|l ls'].
  - cbn [feed_lines] in E. injection E as <- <- <-. cbn [app seg_state]. destruct t; reflexivity.
  - cbn [feed_lines close] in E. rewrite (group_feed_lines ls' [l] t) by discriminate.
    destruct (feed_lines [l] ls') as [o2 dl2] eqn:E2. injection E as <- <- <-. cbn [app].
    assert (Hne : dl2 <> []) by (eapply feed_lines_nonempty; [|exact E2]; discriminate).
    unfold seg_state. destruct dl2; [congruence|]. destruct t; reflexivity.
Qed.

Lemma feed_dl_nonempty : forall s dl p o dl' p', dl <> [] -> feed dl p s = (o, dl', p') -> dl' <> [].
Proof.
  induction s as [|c s IH]; intros dl p o dl' p' Hd E.
  - cbn in E. injection E as <- <- <-. assumption.
  - cbn [feed] in E. destruct (N.eqb c NL).
    + pose proof (close_nonempty dl p) as Hc. destruct (close dl p) as [o1 dl1].
      destruct (feed dl1 [] s) as [[o2 dl2] p2] eqn:E2. injection E as <- <- <-. eapply IH; [exact Hc|exact E2].
    + eapply IH; [exact Hd|exact E].
Qed.

Lemma feed_dl_empty : forall s p o p', feed [] p s = (o, [], p') -> o = [].
Proof.
  induction s as [|c s IH]; intros p o p' E.
  - cbn in E. injection E as <- <-. reflexivity.
  - cbn [feed] in E. destruct (N.eqb c NL).
    + cbn [close] in E. destruct (feed [p] [] s) as [[o2 dl2] p2] eqn:E2.
      assert (dl2 <> []) by (eapply feed_dl_nonempty; [|exact E2]; discriminate).
      injection E as <- Hd <-. congruence.
    + eapply IH. exact E.
Qed.

Lemma close_last_snoc : forall o x, close_last test (o ++ [x]) = o ++ (if test x then [x] else []).
Proof.
  induction o as [|y o IH]; intros x; [reflexivity|].
  cbn [app]. destruct (o ++ [x]) as [|z r] eqn:E; [destruct o; discriminate|].
  change (close_last test (y :: z :: r)) with (y :: close_last test (z :: r)). rewrite <- E, IH. reflexivity.
Qed.

Lemma frame_feed : forall x o dl p, feed [] [] x = (o, dl, p) ->
  frame test x = o ++ match dl, p with
                      | [], [] => []
                      | _, _ => if test (last_segment dl p) then [last_segment dl p] else []
                      end.
Proof.
  intros x o dl p E. unfold frame. rewrite (segments_feed x o dl p E). unfold seg_state.
  destruct dl as [|d dl0].
  - rewrite (feed_dl_empty _ _ _ _ E). destruct p; [reflexivity|]. apply (close_last_snoc []).
  - destruct p; apply close_last_snoc.
Qed.

Lemma closed_segments_feed : forall x o dl p, feed [] [] x = (o, dl, p) -> closed_segments test x = o.
Proof.
  intros x o dl p E. unfold closed_segments. rewrite (segments_feed x o dl p E). unfold seg_state.
  destruct dl as [|d dl0].
  - rewrite (feed_dl_empty _ _ _ _ E). destruct p; reflexivity.
  - destruct p; apply removelast_last.
Qed.

(* what a Flush delivers *)
Lemma flush_feed : forall carry o dl p ls t,
  feed [] [] carry = (o, dl, p) -> split_lines carry = (ls, t) ->
  t = p /\
  frame test (unlines ls) = o ++ match dl with
                                 | [] => []
                                 | _ :: _ => if test (join NL dl) then [join NL dl] else []
                                 end.
Proof.
  intros carry o dl p ls t E Es. destruct (split_lines_decomp carry ls t Es) as (Hx & Hl & Ht).
  rewrite Hx, (feed_unlines ls t [] Hl Ht) in E.
  destruct (feed_lines [] ls) as [o' dl'] eqn:El. injection E as <- <- <-. split; [reflexivity|].
  assert (E0 : feed [] [] (unlines ls) = (o', dl', [])).
  { rewrite <- (app_nil_r (unlines ls)), (feed_unlines ls [] [] Hl nonl_nil), El. reflexivity. }
  rewrite (frame_feed _ _ _ _ E0). destruct dl'; reflexivity.
Qed.

(* ================= 5. the length bound ================= *)

Definition future_segs (dl : list bytes) (p : bytes) (y : bytes) : list bytes :=
  let '(o, dl', p') := feed dl p y in o ++ seg_state dl' p'.

Lemma future_segs_cons_other : forall c y dl p, c <> NL -> future_segs dl p (c :: y) = future_segs dl (p ++ [c]) y.
Proof. intros. unfold future_segs. cbn [feed]. rewrite eqb_NL_false by assumption. reflexivity. Qed.

Lemma future_segs_cons_NL : forall y dl p,
  future_segs dl p (NL :: y) = fst (close dl p) ++ future_segs (snd (close dl p)) [] y.
Proof.
  intros. unfold future_segs. rewrite feed_NL. destruct (close dl p) as [o dl1]. cbn [fst snd].
  destruct (feed dl1 [] y) as [[o2 dl2] p2]. rewrite app_assoc. reflexivity.
Qed.

Lemma join_length_snoc : forall dl p, dl <> [] -> length (join NL dl) <= length (join NL (dl ++ [p])).
Proof.
  intros dl p H. rewrite join_snoc, (unlines_join dl H), !app_length. lia.
Qed.

(* the head of the open segment only grows until it is closed *)
Lemma open_segment_le : forall y dl p m, dl <> [] ->
  Forall (fun r => length r <= m) (future_segs dl p y) -> length (join NL dl) <= m.
Proof.
  induction y as [|c y IH]; intros dl p m Hd HF.
  - unfold future_segs in HF. cbn [feed app] in HF. unfold seg_state in HF.
    destruct dl as [|d dl0]; [congruence|]. set (dl := d :: dl0) in *.
    assert (Hl : length (last_segment dl p) <= m) by (destruct p; inversion HF; assumption).
    unfold last_segment in Hl. destruct p; [assumption|].
    pose proof (join_length_snoc dl (n :: p) Hd). lia.
  - destruct (N.eq_dec c NL) as [->|Hc].
    + rewrite future_segs_cons_NL in HF. unfold close in HF. destruct dl as [|d dl0]; [congruence|].
      destruct (is_start test p); cbn [fst snd app] in HF.
      * inversion HF; assumption.
      * pose proof (IH ((d :: dl0) ++ [p]) [] m) as H. 
        assert (Hne : (d :: dl0) ++ [p] <> []) by discriminate.
        specialize (H Hne HF). pose proof (join_length_snoc (d :: dl0) p Hd). lia.
    + rewrite future_segs_cons_other in HF by assumption. eapply IH; eassumption.
Qed.

Lemma buffer_bound : forall y dl p m,
  Forall (fun r => length r <= m) (future_segs dl p y) -> length (unlines dl ++ p) <= 2 * m + 1.
Proof.
  induction y as [|c y IH]; intros dl p m HF.
  - unfold future_segs in HF. cbn [feed app] in HF. unfold seg_state in HF.
    destruct dl as [|d dl0].
    + destruct p; [cbn; lia|]. inversion HF as [|? ? Hl _]; subst. unfold last_segment in Hl.
      cbn [app join] in Hl. cbn [unlines flat_map app]. lia.
    + set (dl := d :: dl0) in *.
      assert (Hl : length (last_segment dl p) <= m) by (destruct p; inversion HF; assumption).
      unfold last_segment in Hl. destruct p.
      * rewrite app_nil_r, (unlines_join dl) by discriminate. rewrite app_length. cbn [length]. lia.
      * rewrite join_snoc in Hl. lia.
  - destruct (N.eq_dec c NL) as [->|Hc].
    + rewrite future_segs_cons_NL in HF. unfold close in HF. destruct dl as [|d dl0].
      * cbn [fst snd app] in HF. specialize (IH [p] [] m HF).
        rewrite unlines_cons, !app_length in IH. cbn [unlines flat_map app length] in *. lia.
      * destruct (is_start test p) eqn:Es; cbn [fst snd app] in HF.
        -- apply Forall_cons_iff in HF. destruct HF as [Hj HF'].
           assert (Hp : length (join NL [p]) <= m) by (eapply open_segment_le; [discriminate|exact HF']).
           cbn [join] in Hp. rewrite (unlines_join (d :: dl0)) by discriminate.
           rewrite !app_length. cbn [length]. lia.
        -- specialize (IH ((d :: dl0) ++ [p]) [] m HF).
           rewrite unlines_app, unlines_one in IH.
           rewrite !app_length in *. cbn [length] in *. lia.
    + rewrite future_segs_cons_other in HF by assumption. specialize (IH dl (p ++ [c]) m HF).
      rewrite !app_length in *. cbn [length] in *. lia.
Qed.

Lemma prefix_state_bound : forall x y b o dl p,
  seg_bound test b (x ++ y) -> feed [] [] x = (o, dl, p) -> length (unlines dl ++ p) <= 2 * b + 1.
Proof.
  intros x y b o dl p HB E. apply (buffer_bound y). unfold seg_bound in HB.
  destruct (feed dl p y) as [[o2 dl2] p2] eqn:E2.
  assert (Exy : feed [] [] (x ++ y) = (o ++ o2, dl2, p2)) by (rewrite feed_app, E, E2; reflexivity).
  rewrite (segments_feed _ _ _ _ Exy), <- app_assoc in HB. apply Forall_app in HB. destruct HB as [_ HB].
  unfold future_segs. rewrite E2. exact HB.
Qed.

(* ================= 6. scripts ================= *)

(* a read during which checkOverflow stays silent is the abstract feed *)
Lemma read_frag_quiet : forall fuel st frag out dl p o dl' p',
  1 <= m_limit st -> Abs st dl p ->
  (forall f1 f2 o1 dl1 p1, frag = f1 ++ f2 -> feed dl p f1 = (o1, dl1, p1) ->
     length (unlines dl1 ++ p1) + m_limit st <= m_cap st) ->
  length frag <= fuel ->
  feed dl p frag = (o, dl', p') ->
  exists st', read_frag test fuel st frag out = Ok (st', out ++ o) /\ Abs st' dl' p' /\ same_params st st'.
Proof.
  induction fuel as [|fuel IH]; intros st frag out dl p o dl' p' Hl HA Hq Hf E.
  - destruct frag; [|cbn in Hf; lia]. cbn in E. injection E as <- <- <-.
    exists st. rewrite app_nil_r. split; [reflexivity|]. split; [assumption|apply same_params_refl].
  - destruct frag as [|c frag0].
    + cbn in E. injection E as <- <- <-.
      exists st. rewrite app_nil_r. split; [reflexivity|]. split; [assumption|apply same_params_refl].
    + set (frag := c :: frag0) in *. cbn [read_frag]. fold frag.
      pose proof (Hq [] frag [] dl p eq_refl eq_refl) as H0.
      destruct HA as (Hb & Hs & Hp & Hd). rewrite <- Hb in H0.
      unfold read_once.
      assert (Hc : (m_cap st <? length (m_buf st)) = false) by (apply Nat.ltb_ge; lia).
      rewrite Hc.
      set (n := Nat.min (length frag) (m_cap st - length (m_buf st))).
      assert (Hn : 0 < n) by (unfold n, frag; cbn [length]; lia).
      assert (En : (0 <? n) = true) by (apply Nat.ltb_lt; assumption). rewrite En.
      destruct (feed dl p (firstn n frag)) as [[o1 dl1] p1] eqn:E1.
      destruct (process_buffer_abs st dl p (firstn n frag) o1 dl1 p1 (conj Hb (conj Hs (conj Hp Hd))) E1)
        as (st1 & HA1 & [Hc1 Hl1] & Hlen & Hrun).
      rewrite Hrun.
      assert (Hquiet : length (unlines dl1 ++ p1) + m_limit st <= m_cap st).
      { apply (Hq (firstn n frag) (skipn n frag) o1 dl1 p1); [symmetry; apply firstn_skipn|assumption]. }
      destruct HA1 as (Hb1 & HA1').
      rewrite check_overflow_quiet by (rewrite Hb1, Hc1, Hl1; lia).
      cbn [bindo]. rewrite app_nil_r.
      destruct (feed dl1 p1 (skipn n frag)) as [[o2 dl2] p2] eqn:E2.
      assert (Eall : feed dl p frag = (o1 ++ o2, dl2, p2)).
      { rewrite <- (firstn_skipn n frag), feed_app, E1, E2. reflexivity. }
      rewrite Eall in E. injection E as <- <- <-.
      destruct (IH st1 (skipn n frag) (out ++ o1) dl1 p1 o2 dl2 p2) as (st2 & Hrun2 & HA2 & Hsp2).
      * lia.
      * split; assumption.
      * intros f1 f2 o1' dl1' p1' Hsplit E'. rewrite Hc1, Hl1.
        apply (Hq (firstn n frag ++ f1) f2 (o1 ++ o1') dl1' p1').
        -- rewrite <- app_assoc, <- Hsplit. symmetry. apply firstn_skipn.
        -- rewrite feed_app, E1, E'. reflexivity.
      * rewrite skipn_length. unfold frag in *. cbn [length] in *. lia.
      * assumption.
      * exists st2. rewrite Hrun2, app_assoc. split; [reflexivity|]. split; [assumption|].
        eapply same_params_trans; [split; eassumption|assumption].
Qed.

Lemma bounded_ops_future : forall ops b carry, bounded_ops test b carry ops -> prefix_bounded test b carry.
Proof.
  induction ops as [|[f| |] ops IH]; intros b carry H; cbn [bounded_ops] in H.
  - assumption.
  - destruct (IH _ _ H) as [z Hz]. exists (f ++ z). rewrite app_assoc. assumption.
  - tauto.
  - tauto.
Qed.

Lemma flush_ok_tail : forall o ops, flush_ok test (o :: ops) -> flush_ok test ops.
Proof. intros o ops [H|H]; [left; assumption|right]. inversion H; assumption. Qed.

Lemma run_ops_spec_gen : forall ops st carry out0 oc dl p b,
  flush_ok test ops -> 1 <= m_limit st -> 2 * b + 1 + m_limit st <= m_cap st ->
  feed [] [] carry = (oc, dl, p) -> Abs st dl p ->
  bounded_ops test b carry ops ->
  exists st', run_ops test ops st (out0 ++ oc) = Ok (st', out0 ++ spec_ops test carry ops) /\
              same_params st st'.
Proof.
  induction ops as [|op ops IH]; intros st carry out0 oc dl p b Hnil Hl Hcap E HA HB.
  - cbn [run_ops spec_ops]. rewrite (closed_segments_feed _ _ _ _ E). exists st. split; [reflexivity|apply same_params_refl].
  - cbn [run_ops]. pose proof (flush_ok_tail _ _ Hnil) as Hnil'.
    destruct op as [f| |]; cbn [run_op spec_ops bounded_ops] in *.
    + (* Read *)
      destruct (bounded_ops_future _ _ _ HB) as [z Hz].
      destruct (feed dl p f) as [[o1 dl1] p1] eqn:E1.
      unfold read.
      destruct (read_frag_quiet (length f) st f [] dl p o1 dl1 p1 Hl HA) as (st1 & Hrun & HA1 & [Hc1 Hl1]);
        [ | apply le_n | assumption | ].
      { intros f1 f2 o' dl' p' Hsplit E'.
        assert (Ex : feed [] [] (carry ++ f1) = (oc ++ o', dl', p')) by (rewrite feed_app, E, E'; reflexivity).
        assert (Hz' : seg_bound test b ((carry ++ f1) ++ (f2 ++ z))).
        { rewrite <- app_assoc, (app_assoc f1 f2 z), <- Hsplit, app_assoc. exact Hz. }
        pose proof (prefix_state_bound (carry ++ f1) (f2 ++ z) b (oc ++ o') dl' p' Hz' Ex) as Hbound.
        lia. }
      rewrite Hrun. cbn [bindo app].
      assert (Ecarry : feed [] [] (carry ++ f) = (oc ++ o1, dl1, p1)) by (rewrite feed_app, E, E1; reflexivity).
      destruct (IH st1 (carry ++ f) out0 (oc ++ o1) dl1 p1 b Hnil') as (st2 & Hrun2 & Hsp2);
        [lia | lia | assumption | assumption | assumption |].
      exists st2. rewrite <- app_assoc, Hrun2. split; [reflexivity|].
      eapply same_params_trans; [split; eassumption|assumption].
    + (* Flush *)
      destruct HB as [HB1 HB2].
      assert (Hnil0 : test [] = false).
      { destruct Hnil as [H|H]; [assumption|]. inversion H; congruence. }
      destruct (split_lines carry) as [ls t] eqn:Es. cbn [snd] in HB2.
      destruct (flush_feed carry oc dl p ls t E Es) as [-> Hframe].
      rewrite (flush_abs st dl p HA). rewrite Hframe.
      destruct HA as (Hb & Hs & Hp & Hd).
      assert (Et : feed [] [] p = ([], [], p)) by (rewrite (feed_nonl _ _ _ Hp); reflexivity).
      destruct dl as [|d dl0].
      * cbn [bindo]. rewrite !app_nil_r.
        destruct (IH st p (out0 ++ oc) [] [] p b Hnil' Hl Hcap Et) as (st2 & Hrun2 & Hsp2);
          [repeat split; assumption | assumption |].
        rewrite app_nil_r in Hrun2. exists st2. rewrite Hrun2, <- app_assoc. split; [reflexivity|assumption].
      * cbn [bindo]. set (dl := d :: dl0) in *.
        set (fo := if (0 <? length (join NL dl)) && test (join NL dl) then [join NL dl] else []).
        assert (Hfo : fo = if test (join NL dl) then [join NL dl] else []).
        { unfold fo. destruct (join NL dl) eqn:Ej; [cbn [length Nat.ltb Nat.leb andb]; rewrite Hnil0; reflexivity|].
          reflexivity. }
        destruct (IH (set_buf st p 0) p ((out0 ++ oc) ++ fo) [] [] p b Hnil' Hl Hcap Et) as (st2 & Hrun2 & Hsp2);
          [repeat split; [assumption|constructor] | assumption |].
        rewrite app_nil_r in Hrun2. exists st2. rewrite Hrun2, Hfo, <- !app_assoc. split; [reflexivity|].
        eapply same_params_trans; [apply same_params_set_buf|exact Hsp2].
    + (* FlushAll *)
      destruct HB as [HB1 HB2].
      rewrite (flush_all_abs st dl p HA). cbn [bindo]. rewrite (frame_feed _ _ _ _ E).
      set (fo := match dl, p with [], [] => [] | _, _ => if test (last_segment dl p) then [last_segment dl p] else [] end).
      assert (E0 : feed [] [] [] = ([], [], [])) by reflexivity.
      destruct (IH (set_buf st [] 0) [] ((out0 ++ oc) ++ fo) [] [] [] b Hnil' Hl Hcap E0) as (st2 & Hrun2 & Hsp2);
        [apply Abs_empty; reflexivity | assumption |].
      rewrite app_nil_r in Hrun2. exists st2. rewrite Hrun2, <- !app_assoc. split; [reflexivity|].
      eapply same_params_trans; [apply same_params_set_buf|exact Hsp2].
Qed.
End Machine.

(* ================= 7. the property lemmas ================= *)

Lemma new_mlr_cap : forall min_buf limit, m_cap (new_mlr min_buf limit) = Nat.max min_buf (limit * 3).
Proof. reflexivity. Qed.

(* every script: the model is the specification *)
Lemma script_lemma : forall test min_buf limit b ops,
  flush_ok test ops -> 1 <= limit -> 2 * b + 1 + limit <= Nat.max min_buf (limit * 3) ->
  bounded_ops test b [] ops ->
  exists st', run_ops test ops (new_mlr min_buf limit) [] = Ok (st', spec_ops test [] ops).
Proof.
  intros test min_buf limit b ops Hf Hl Hc HB.
  destruct (run_ops_spec_gen test ops (new_mlr min_buf limit) [] [] [] [] [] b Hf Hl Hc eq_refl) as (st' & Hrun & _).
  - repeat split; [exact nonl_nil|constructor].
  - assumption.
  - exists st'. exact Hrun.
Qed.

Lemma spec_ops_reads : forall test fs carry rest,
  spec_ops test carry (map OpRead fs ++ rest) = spec_ops test (carry ++ concat fs) rest.
Proof.
  induction fs as [|f fs IH]; intros carry rest; cbn [map app concat spec_ops].
  - rewrite app_nil_r. reflexivity.
  - rewrite IH, <- app_assoc. reflexivity.
Qed.

Lemma bounded_ops_reads : forall test b fs carry rest,
  bounded_ops test b carry (map OpRead fs ++ rest) <-> bounded_ops test b (carry ++ concat fs) rest.
Proof.
  induction fs as [|f fs IH]; intros carry rest; cbn [map app concat bounded_ops].
  - rewrite app_nil_r. tauto.
  - rewrite IH, <- app_assoc. tauto.
Qed.

Lemma seg_bound_nil : forall test b, seg_bound test b [].
Proof. intros. unfold seg_bound. cbn. constructor. Qed.

Lemma seg_bound_prefix_bounded : forall test b x, seg_bound test b x -> prefix_bounded test b x.
Proof. intros test b x H. exists []. rewrite app_nil_r. assumption. Qed.

Lemma no_flush_reads : forall fs, no_flush (map OpRead fs ++ [OpFlushAll]).
Proof.
  intros fs. apply Forall_app. split.
  - apply Forall_forall. intros o Ho. apply in_map_iff in Ho. destruct Ho as (f & <- & _). discriminate.
  - repeat constructor. discriminate.
Qed.

(* 1. fragmentation independence: for ALL streams (terminated or not), ALL fragmentations *)
Lemma frag_independent_lemma : forall test min_buf limit b fs,
  1 <= limit -> 2 * b + 1 + limit <= Nat.max min_buf (limit * 3) ->
  seg_bound test b (concat fs) ->
  exists st', run_ops test (map OpRead fs ++ [OpFlushAll]) (new_mlr min_buf limit) [] =
              Ok (st', frame test (concat fs)).
Proof.
  intros test min_buf limit b fs Hl Hc HB.
  destruct (script_lemma test min_buf limit b (map OpRead fs ++ [OpFlushAll])) as (st' & Hrun); try assumption.
  - right. apply no_flush_reads.
  - apply bounded_ops_reads. cbn [app bounded_ops]. split; apply seg_bound_prefix_bounded; [assumption|apply seg_bound_nil].
  - exists st'. rewrite Hrun, spec_ops_reads. cbn [app spec_ops]. unfold closed_segments. cbn. rewrite app_nil_r. reflexivity.
Qed.

(* two fragmentations of one stream *)
Lemma frag_pair_lemma : forall test min_buf limit b fs1 fs2,
  1 <= limit -> 2 * b + 1 + limit <= Nat.max min_buf (limit * 3) ->
  concat fs1 = concat fs2 -> seg_bound test b (concat fs1) ->
  exists st1 st2 out,
    run_ops test (map OpRead fs1 ++ [OpFlushAll]) (new_mlr min_buf limit) [] = Ok (st1, out) /\
    run_ops test (map OpRead fs2 ++ [OpFlushAll]) (new_mlr min_buf limit) [] = Ok (st2, out).
Proof.
  intros test min_buf limit b fs1 fs2 Hl Hc Heq HB.
  destruct (frag_independent_lemma test min_buf limit b fs1 Hl Hc HB) as (st1 & H1).
  rewrite Heq in HB. destruct (frag_independent_lemma test min_buf limit b fs2 Hl Hc HB) as (st2 & H2).
  exists st1, st2, (frame test (concat fs1)). split; [assumption|]. rewrite Heq. assumption.
Qed.

(* 2. streams of single-line records: any reads, any flushes *)
Lemma split_lines_unlines_app : forall la y, Forall nonl la ->
  split_lines (unlines la ++ y) = (la ++ fst (split_lines y), snd (split_lines y)).
Proof.
  induction la as [|l la IH]; intros y H.
  - cbn [unlines flat_map app]. destruct (split_lines y); reflexivity.
  - inversion H; subst. rewrite unlines_cons, <- app_assoc. cbn [app].
    rewrite split_lines_line by assumption. rewrite IH by assumption. reflexivity.
Qed.

Lemma valid_lines_nonl : forall test b ls, Forall (valid_line test b) ls -> Forall nonl ls.
Proof. intros test b ls H. eapply Forall_impl; [|exact H]. intros l (_ & Hn & _). exact Hn. Qed.

Lemma group_valid_lines : forall test b ls x, Forall (valid_line test b) ls -> group test [x] ls [] = x :: ls.
Proof.
  induction ls as [|l ls IH]; intros x H; [reflexivity|].
  inversion H as [|? ? (Hne & _ & Ht & _) Hls]; subst. cbn [group].
  assert (Hs : is_start test l = true) by (unfold is_start; destruct l; [congruence|assumption]).
  rewrite Hs, IH by assumption. reflexivity.
Qed.

Lemma segments_valid_lines : forall test b ls, Forall (valid_line test b) ls -> segments test (unlines ls) = ls.
Proof.
  intros test b ls H. unfold segments.
  rewrite <- (app_nil_r (unlines ls)), split_lines_unlines_app by (eapply valid_lines_nonl; eassumption).
  cbn [split_lines fst snd]. rewrite app_nil_r. destruct ls as [|l ls]; [reflexivity|].
  inversion H; subst. eapply group_valid_lines; eassumption.
Qed.

Lemma close_last_valid : forall test b ls, Forall (valid_line test b) ls -> close_last test ls = ls.
Proof.
  induction ls as [|l ls IH]; intros H; [reflexivity|].
  inversion H as [|? ? (_ & _ & Ht & _) Hls]; subst. destruct ls as [|l2 ls].
  - cbn. rewrite Ht. reflexivity.
  - change (close_last test (l :: l2 :: ls)) with (l :: close_last test (l2 :: ls)). rewrite IH by assumption. reflexivity.
Qed.

Lemma frame_valid_lines : forall test b ls, Forall (valid_line test b) ls -> frame test (unlines ls) = ls.
Proof. intros. unfold frame. erewrite segments_valid_lines by eassumption. eapply close_last_valid; eassumption. Qed.

Lemma seg_bound_valid_lines : forall test b ls, Forall (valid_line test b) ls -> seg_bound test b (unlines ls).
Proof.
  intros test b ls H. unfold seg_bound. erewrite segments_valid_lines by eassumption.
  eapply Forall_impl; [|exact H]. intros l (_ & _ & _ & Hl). exact Hl.
Qed.

Lemma spec_valid_lines : forall test b ops carry ls,
  no_flush_all ops -> Forall (valid_line test b) ls -> carry ++ ops_text ops = unlines ls ->
  spec_ops test carry (ops ++ [OpFlushAll]) = ls /\ bounded_ops test b carry (ops ++ [OpFlushAll]).
Proof.
  induction ops as [|op ops IH]; intros carry ls Hnf Hv Htext.
  - cbn [ops_text] in Htext. rewrite app_nil_r in Htext. subst carry.
    cbn [app spec_ops bounded_ops]. unfold closed_segments. cbn [segments split_lines removelast].
    rewrite app_nil_r. split; [eapply frame_valid_lines; eassumption|].
    split; apply seg_bound_prefix_bounded; [eapply seg_bound_valid_lines; eassumption|apply seg_bound_nil].
  - inversion Hnf as [|? ? Hop Hnf']; subst. destruct op as [f| |]; [| |congruence].
    + cbn [ops_text] in Htext. cbn [app spec_ops bounded_ops]. apply IH; [assumption|assumption|].
      rewrite <- app_assoc. assumption.
    + cbn [ops_text] in Htext. cbn [app spec_ops bounded_ops].
      destruct (split_lines carry) as [la t] eqn:Es.
      destruct (split_lines_decomp carry la t Es) as (Hc & Hla & Ht). cbn [snd].
      assert (Hsplit : split_lines (unlines ls) = (la ++ fst (split_lines (t ++ ops_text ops)), snd (split_lines (t ++ ops_text ops)))).
      { rewrite <- Htext, Hc, <- app_assoc. apply split_lines_unlines_app. assumption. }
      assert (Hfull : split_lines (unlines ls) = (ls, [])).
      { rewrite <- (app_nil_r (unlines ls)), split_lines_unlines_app by (eapply valid_lines_nonl; eassumption).
        cbn [split_lines fst snd]. rewrite app_nil_r. reflexivity. }
      rewrite Hfull in Hsplit. destruct (split_lines (t ++ ops_text ops)) as [lb t2] eqn:Eb.
      cbn [fst snd] in Hsplit. injection Hsplit as Hls Ht2. subst t2.
      destruct (split_lines_decomp _ _ _ Eb) as (Hb & _ & _). rewrite app_nil_r in Hb.
      rewrite Hls in Hv. apply Forall_app in Hv. destruct Hv as [Hva Hvb].
      destruct (IH t lb Hnf' Hvb Hb) as [Hspec Hbound].
      rewrite Hspec, (frame_valid_lines test b la Hva). split; [symmetry; assumption|].
      split; [|assumption]. exists (ops_text ops). rewrite Htext. eapply seg_bound_valid_lines.
      rewrite Hls. apply Forall_app. split; assumption.
Qed.

Lemma single_line_lemma : forall test min_buf limit b ls ops,
  test [] = false -> 1 <= limit -> 2 * b + 1 + limit <= Nat.max min_buf (limit * 3) ->
  Forall (valid_line test b) ls -> no_flush_all ops -> ops_text ops = unlines ls ->
  exists st', run_ops test (ops ++ [OpFlushAll]) (new_mlr min_buf limit) [] = Ok (st', ls).
Proof.
  intros test min_buf limit b ls ops Hnil Hl Hc Hv Hnf Htext.
  destruct (spec_valid_lines test b ops [] ls Hnf Hv Htext) as [Hspec Hbound].
  destruct (script_lemma test min_buf limit b (ops ++ [OpFlushAll])) as (st' & Hrun); try assumption.
  - left. assumption.
  - exists st'. rewrite Hrun, Hspec. reflexivity.
Qed.

(* 3. continuation lines *)
Lemma open_segment_prefix : forall test y dl p, dl <> [] ->
  exists more rest, future_segs test dl p y = (join NL dl ++ more) :: rest.
Proof.
  induction y as [|c y IH]; intros dl p Hd.
  - unfold future_segs. cbn [feed app]. unfold seg_state. destruct dl as [|d dl0]; [congruence|].
    set (dl := d :: dl0) in *.
    assert (H : exists more, last_segment dl p = join NL dl ++ more).
    { unfold last_segment. destruct p as [|c p]; [exists []; rewrite app_nil_r; reflexivity|].
      exists (NL :: c :: p). rewrite join_snoc, (unlines_join dl Hd), <- app_assoc. reflexivity. }
    destruct H as [more Hm]. exists more, []. destruct p; rewrite <- Hm; reflexivity.
  - destruct (N.eq_dec c NL) as [->|Hc].
    + rewrite future_segs_cons_NL. unfold close. destruct dl as [|d dl0]; [congruence|].
      destruct (is_start test p); cbn [fst snd].
      * exists [], (future_segs test [p] [] y). rewrite app_nil_r. reflexivity.
      * cbn [app]. change (d :: dl0 ++ [p]) with ((d :: dl0) ++ [p]).
        destruct (IH ((d :: dl0) ++ [p]) []) as (more & rest & H); [discriminate|].
        exists (NL :: p ++ more), rest. rewrite H, join_snoc, (unlines_join (d :: dl0) Hd), <- !app_assoc. reflexivity.
    + rewrite future_segs_cons_other by assumption. apply IH. assumption.
Qed.

Lemma feed_ends_NL : forall test x dl p o dl' p',
  feed test dl p (x ++ [NL]) = (o, dl', p') -> p' = [].
Proof.
  intros test x dl p o dl' p' E. rewrite feed_app in E.
  destruct (feed test dl p x) as [[o1 dl1] p1]. rewrite feed_NL in E.
  destruct (close test dl1 p1) as [o2 dl2]. cbn [feed] in E. injection E as _ _ <-. reflexivity.
Qed.

Lemma continuation_spec_lemma : forall test x l c y,
  (x = [] \/ exists x', x = x' ++ [NL]) ->
  nonl l -> is_start test l = true -> nonl c -> is_start test c = false ->
  exists more, In (l ++ NL :: c ++ more) (segments test (x ++ l ++ NL :: c ++ NL :: y)).
Proof.
  intros test x l c y Hx Hl Hsl Hc Hsc.
  destruct (feed test [] [] x) as [[ox dlx] px] eqn:Ex.
  assert (Hpx : px = []).
  { destruct Hx as [->|[x' ->]]; [cbn in Ex; injection Ex as _ _ <-; reflexivity|].
    eapply feed_ends_NL. exact Ex. }
  subst px.
  destruct (feed test [l; c] [] y) as [[o3 dl3] p3] eqn:E3.
  assert (Eall : exists o1, feed test [] [] (x ++ l ++ NL :: c ++ NL :: y) = (ox ++ o1 ++ o3, dl3, p3)).
  { rewrite feed_app, Ex. rewrite (feed_line test l _ dlx [] Hl). cbn [app].
    assert (Hcl : exists o1, close test dlx l = (o1, [l])).
    { unfold close. destruct dlx; [exists []; reflexivity|]. rewrite Hsl. eexists; reflexivity. }
    destruct Hcl as [o1 Hcl]. rewrite Hcl. rewrite (feed_line test c _ [l] [] Hc). cbn [app close].
    rewrite Hsc. cbn [app]. rewrite E3. exists o1. reflexivity. }
  destruct Eall as [o1 Eall]. rewrite (segments_feed test _ _ _ _ Eall).
  destruct (open_segment_prefix test y [l; c] []) as (more & rest & Hf); [discriminate|].
  unfold future_segs in Hf. rewrite E3 in Hf. exists more.
  rewrite <- !app_assoc. apply in_or_app. right. apply in_or_app. right.
  rewrite Hf. left. cbn [join]. rewrite <- app_assoc. reflexivity.
Qed.

Lemma close_last_keeps : forall test segs r, In r segs -> test r = true -> In r (close_last test segs).
Proof.
  induction segs as [|x segs IH]; intros r Hin Ht; [contradiction|].
  destruct segs as [|x2 segs].
  - destruct Hin as [->|[]]. cbn. rewrite Ht. left. reflexivity.
  - change (close_last test (x :: x2 :: segs)) with (x :: close_last test (x2 :: segs)).
    destruct Hin as [->|Hin]; [left; reflexivity|right; apply IH; assumption].
Qed.

Lemma continuation_attached_lemma : forall test min_buf limit b fs x l c y,
  1 <= limit -> 2 * b + 1 + limit <= Nat.max min_buf (limit * 3) ->
  (forall a z, test a = true -> test (a ++ z) = true) ->
  concat fs = x ++ l ++ NL :: c ++ NL :: y ->
  seg_bound test b (concat fs) ->
  (x = [] \/ exists x', x = x' ++ [NL]) ->
  nonl l -> is_start test l = true -> nonl c -> is_start test c = false ->
  exists st' out more,
    run_ops test (map OpRead fs ++ [OpFlushAll]) (new_mlr min_buf limit) [] = Ok (st', out) /\
    In (l ++ NL :: c ++ more) out.
Proof.
  intros test min_buf limit b fs x l c y Hlim Hcap Hpre Hs HB Hx Hl Hsl Hc Hsc.
  destruct (frag_independent_lemma test min_buf limit b fs Hlim Hcap HB) as (st' & Hrun).
  destruct (continuation_spec_lemma test x l c y Hx Hl Hsl Hc Hsc) as (more & Hin).
  exists st', (frame test (concat fs)), more. split; [assumption|].
  rewrite Hs. unfold frame. apply close_last_keeps; [assumption|].
  apply Hpre. unfold is_start in Hsl. destruct l; [discriminate|assumption].
Qed.

(* 4. never full, never panics, never spins: ALL scripts, ALL streams *)
Lemma total_lemma : forall test min_buf limit ops,
  1 <= limit ->
  exists st' out, run_ops test ops (new_mlr min_buf limit) [] = Ok (st', out) /\
    length (m_buf st') <= m_cap st' /\
    (m_limit st' <= m_cap st' - length (m_buf st') \/ m_buf st' = []) /\
    m_cap st' = Nat.max min_buf (limit * 3) /\ m_limit st' = limit.
Proof.
  intros test min_buf limit ops Hl.
  destruct (run_ops_inv test ops (new_mlr min_buf limit) []) as (st' & o & Hrun & (_ & Hcap & Hroomy) & [Hc Hlim]).
  - assumption.
  - cbn. lia.
  - apply inv_new.
  - exists st', o. split; [exact Hrun|]. split; [assumption|]. split; [exact Hroomy|]. split; assumption.
Qed.

(* a read never needs more Read() calls than it has bytes (each call takes at least one) *)

(* the traced run used by the correspondence check is the same run *)
Lemma run_ops_tr_lemma : forall test ops st out tr,
  forget_trace (run_ops_tr test ops st out tr) = run_ops test ops st out.
Proof.
  induction ops as [|o ops IH]; intros st out tr; [reflexivity|].
  cbn [run_ops_tr run_ops]. destruct (run_op test st o) as [[st' o']| |]; cbn [bindo]; [apply IH|reflexivity|reflexivity].
Qed.

(* runConnection: a connection without timeouts and deadline renewals *)
Lemma conn_ops_data : forall fs, conn_ops (map (fun f => EvData f false) fs) = map OpRead fs ++ [OpFlushAll].
Proof. induction fs as [|f fs IH]; [reflexivity|]. cbn [map conn_ops app]. rewrite IH. reflexivity. Qed.

Lemma conn_frag_independent_lemma : forall test min_buf limit b fs,
  1 <= limit -> 2 * b + 1 + limit <= Nat.max min_buf (limit * 3) ->
  seg_bound test b (concat fs) ->
  exists st', run_ops test (conn_ops (map (fun f => EvData f false) fs)) (new_mlr min_buf limit) [] =
              Ok (st', frame test (concat fs)).
Proof. intros. rewrite conn_ops_data. eapply frag_independent_lemma; eassumption. Qed.

(* every script runConnection can produce ends with FlushAll and has no FlushAll before *)
Lemma conn_ops_shape : forall evs, exists ops, conn_ops evs = ops ++ [OpFlushAll] /\ no_flush_all ops.
Proof.
  induction evs as [|[f r| |] evs (ops & IH & Hn)].
  - exists []. split; [reflexivity|constructor].
  - cbn [conn_ops]. rewrite IH. destruct r.
    + exists (OpRead f :: OpFlush :: ops). split; [reflexivity|]. repeat constructor; try discriminate. assumption.
    + exists (OpRead f :: ops). split; [reflexivity|]. constructor; [discriminate|assumption].
  - cbn [conn_ops]. rewrite IH. exists (OpFlush :: ops). split; [reflexivity|]. constructor; [discriminate|assumption].
  - exists []. split; [reflexivity|constructor].
Qed.

(* ================= 8. TestRecordStart ================= *)

Lemma digit_not_gt : forall c, is_digit c = true -> N.eqb c 62 = false.
Proof. intros c H. unfold is_digit in H. lia. Qed.

Lemma trs_short : forall s, length s < 32 -> test_record_start s = Ok false.
Proof. intros s H. unfold test_record_start. apply Nat.ltb_lt in H. rewrite H. reflexivity. Qed.

Ltac trs_cases :=
  repeat match goal with
         | |- context [if ?b then _ else _] => let E := fresh "E" in destruct b eqn:E; cbn [negb bindo]
         end.

Lemma trs_total_lemma : forall s, exists b, test_record_start s = Ok b.
Proof.
  intros s. destruct (Nat.ltb (length s) 32) eqn:El.
  - exists false. apply trs_short. apply Nat.ltb_lt. assumption.
  - unfold test_record_start. rewrite El.
    destruct s as [|c0 [|c1 [|c2 [|c3 [|c4 [|c5 [|c6 rest]]]]]]]; try (cbn in El; discriminate El).
    cbn [oidx nth_error bindo trs_loop trs_tail Nat.add]. trs_cases; eexists; reflexivity.
Qed.

Lemma trs_shape_lemma : forall s, test_record_start s = Ok true <-> start_shape s.
Proof.
  intros s. split.
  - intros H. destruct (Nat.ltb (length s) 32) eqn:El.
    + rewrite trs_short in H by (apply Nat.ltb_lt; assumption). discriminate.
    + assert (H32 : 32 <= length s) by (apply Nat.ltb_ge; assumption).
      unfold test_record_start in H. rewrite El in H.
      destruct s as [|c0 [|c1 [|c2 [|c3 [|c4 [|c5 [|c6 rest]]]]]]]; try (cbn in El; discriminate El).
      split; [assumption|]. revert H.
      cbn [oidx nth_error bindo trs_loop trs_tail Nat.add]. trs_cases; intros H; try discriminate H;
        injection H as H;
        rewrite ?negb_false_iff, ?negb_true_iff in *;
        repeat match goal with E : N.eqb _ _ = true |- _ => apply N.eqb_eq in E; subst end.
      * exists [c1], (c5 :: c6 :: rest).
        split; [reflexivity|]. split; [cbn; lia|]. repeat constructor; assumption.
      * exists [c1; c2], (c6 :: rest).
        split; [reflexivity|]. split; [cbn; lia|]. repeat constructor; assumption.
      * exists [c1; c2; c3], rest.
        split; [reflexivity|]. split; [cbn; lia|]. repeat constructor; assumption.
  - intros (H32 & ds & rest & Hs & Hlen & Hd).
    assert (El : Nat.ltb (length s) 32 = false) by (apply Nat.ltb_ge; assumption).
    unfold test_record_start. rewrite El. subst s.
    destruct ds as [|d1 [|d2 [|d3 [|d4 ds]]]]; cbn [length] in Hlen; try lia.
    + inversion Hd as [|? ? H1 _]; subst.
      cbn [app oidx nth_error bindo trs_loop trs_tail Nat.add N.eqb Pos.eqb negb]. rewrite H1. reflexivity.
    + inversion Hd as [|? ? H1 Hd2]; subst. inversion Hd2 as [|? ? H2 _]; subst.
      cbn [app oidx nth_error bindo trs_loop trs_tail Nat.add N.eqb Pos.eqb negb].
      rewrite H1, (digit_not_gt _ H2), H2. reflexivity.
    + inversion Hd as [|? ? H1 Hd2]; subst. inversion Hd2 as [|? ? H2 Hd3]; subst. inversion Hd3 as [|? ? H3 _]; subst.
      cbn [app oidx nth_error bindo trs_loop trs_tail Nat.add N.eqb Pos.eqb negb].
      rewrite H1, (digit_not_gt _ H2), H2, (digit_not_gt _ H3), H3. reflexivity.
Qed.

Lemma trs_spec_lemma : forall s, trs s = true <-> start_shape s.
Proof.
  intros s. rewrite <- trs_shape_lemma. unfold trs. destruct (trs_total_lemma s) as [b ->].
  split; [intros ->; reflexivity|intros H; injection H; trivial].
Qed.

Lemma trs_nil : trs [] = false.
Proof. reflexivity. Qed.

Lemma trs_prefix_lemma : forall a z, trs a = true -> trs (a ++ z) = true.
Proof.
  intros a z H. apply trs_spec_lemma in H. apply trs_spec_lemma.
  destruct H as (H32 & ds & rest & -> & Hlen & Hd). split.
  - rewrite app_length. lia.
  - exists ds, (rest ++ z). split; [|split; assumption].
    cbn [app]. rewrite <- app_assoc. reflexivity.
Qed.

Lemma gt_prefix_lemma : forall a z, gt_test a = true -> gt_test (a ++ z) = true.
Proof. intros [|c a] z H; [discriminate|exact H]. Qed.

(* ================= 9. witnesses and the example ================= *)

Lemma seg_bound_dec : forall test b s,
  forallb (fun r => length r <=? b) (segments test s) = true -> seg_bound test b s.
Proof.
  intros test b s H. unfold seg_bound. apply Forall_forall. intros r Hr.
  rewrite forallb_forall in H. apply Nat.leb_le. apply H. assumption.
Qed.

(* ">a" NL "b" NL ">c" NL with the '>' tester *)
Definition ex_f1 : bytes := [62;97;10]%N.
Definition ex_f2 : bytes := [98;10;62;99;10]%N.

(* a flush between a record and its continuation line detaches the line *)
Lemma flush_splits_lemma :
  exists min_buf limit b f1 f2,
    1 <= limit /\ 2 * b + 1 + limit <= Nat.max min_buf (limit * 3) /\ seg_bound gt_test b (f1 ++ f2) /\
    exists st out,
      run_ops gt_test [OpRead f1; OpFlush; OpRead f2; OpFlushAll] (new_mlr min_buf limit) [] = Ok (st, out) /\
      out <> frame gt_test (f1 ++ f2).
Proof.
  exists 32, 8, 8, ex_f1, ex_f2. split; [lia|]. split; [cbn; lia|]. split; [apply seg_bound_dec; reflexivity|].
  eexists _, _. split; [vm_compute; reflexivity|]. vm_compute. discriminate.
Qed.

(* with the smallest buffer the constructor allows (3 * limit) records of exactly [limit] bytes
   overflow: the bound 2*b+1+limit <= cap of the theorems cannot be dropped *)
Definition ex_g1 : bytes := [62;97;10;62;98]%N.
Definition ex_g2 : bytes := [10;62;99;10]%N.

Lemma cap3_boundary_lemma :
  exists min_buf limit fs,
    1 <= limit /\ Nat.max min_buf (limit * 3) = limit * 3 /\ seg_bound gt_test limit (concat fs) /\
    exists st out,
      run_ops gt_test (map OpRead fs ++ [OpFlushAll]) (new_mlr min_buf limit) [] = Ok (st, out) /\
      out <> frame gt_test (concat fs).
Proof.
  exists 0, 2, [ex_g1; ex_g2]. split; [lia|]. split; [reflexivity|]. split; [apply seg_bound_dec; reflexivity|].
  eexists _, _. split; [vm_compute; reflexivity|]. vm_compute. discriminate.
Qed.

(* a segment above the bound: the records depend on the fragmentation (the soft limit at work) *)
Definition ex_big : bytes := [62;97;98;99;100;101;102;103;104;105;106;107;108;109;110;111;112;10;62;120;10]%N.

Lemma oversize_lemma :
  exists min_buf limit fs1 fs2,
    1 <= limit /\ concat fs1 = concat fs2 /\
    exists st1 out1 st2 out2,
      run_ops gt_test (map OpRead fs1 ++ [OpFlushAll]) (new_mlr min_buf limit) [] = Ok (st1, out1) /\
      run_ops gt_test (map OpRead fs2 ++ [OpFlushAll]) (new_mlr min_buf limit) [] = Ok (st2, out2) /\
      out1 <> out2.
Proof.
  exists 0, 2, [ex_big], [firstn 5 ex_big; skipn 5 ex_big]. split; [lia|]. split; [reflexivity|].
  eexists _, _, _, _. split; [vm_compute; reflexivity|]. split; [vm_compute; reflexivity|]. discriminate.
Qed.

(* the example: two syslog records, the first with a continuation line, production ratio 4:1 *)
Definition ex_r1 : bytes := [60;49;51;62;49;32;50;48;49;57;45;48;56;45;49;53;84;49;53;58;53;48;58;52;54;43;48;51;58;48;48;32;104;32;97;32;49;32;102;32;45;32;70;105;114;115;116]%N.
Definition ex_c1 : bytes := [32;32;83;101;99;111;110;100;32;108;105;110;101]%N.
Definition ex_r2 : bytes := [60;49;54;51;62;49;32;50;48;49;57;45;48;56;45;49;53;84;49;53;58;53;49;58;52;54;43;48;51;58;48;48;32;104;32;97;32;50;32;102;32;45;32;78;101;120;116]%N.
Definition ex_stream : bytes := ex_r1 ++ NL :: ex_c1 ++ NL :: ex_r2 ++ [NL].
(* cut inside the header, just before a newline, just after a newline, inside the relocated tail *)
Definition ex_frags : list bytes :=
  [firstn 3 ex_stream; firstn 44 (skipn 3 ex_stream); firstn 1 (skipn 47 ex_stream);
   firstn 20 (skipn 48 ex_stream); []; skipn 68 ex_stream].

Lemma example_lemma :
  concat ex_frags = ex_stream /\ seg_bound trs 64 ex_stream /\ 2 * 64 + 1 + 64 <= Nat.max 256 (64 * 3) /\
  frame trs ex_stream = [ex_r1 ++ NL :: ex_c1; ex_r2] /\
  exists st, run_ops trs (map OpRead ex_frags ++ [OpFlushAll]) (new_mlr 256 64) [] =
             Ok (st, [ex_r1 ++ NL :: ex_c1; ex_r2]).
Proof.
  split; [vm_compute; reflexivity|]. split; [apply seg_bound_dec; vm_compute; reflexivity|].
  split; [cbn; lia|]. split; [vm_compute; reflexivity|]. eexists. vm_compute. reflexivity.
Qed.

(* ================= 10. NetConnWrapper: deadline renewals ================= *)
Open Scope Z_scope.

Lemma ncw_read_zero : forall d now, 0 < d ->
  ncw_read (wrap_net_conn d) now = ({| w_min := d; w_max := d * 2; w_deadline := Some (now + d * 2) |}, true).
Proof. intros d now H. unfold ncw_read, wrap_net_conn. cbn [w_min w_max w_deadline]. destruct (0 <? d) eqn:E; [reflexivity|lia]. Qed.

(* after a renewal at time t0 no Read within the next readTimeout renews the deadline again,
   so runConnection calls no Flush for a deadline update during that time *)
Lemma ncw_quiet_lemma : forall gaps w t0 now,
  0 < w_min w -> w_max w = w_min w * 2 -> w_deadline w = Some (t0 + w_max w) ->
  t0 <= now -> Forall (fun g => 0 <= g) gaps -> now + fold_right Z.add 0 gaps <= t0 + w_min w ->
  ncw_run w now gaps = map (fun _ => false) gaps.
Proof.
  induction gaps as [|g gaps IH]; intros w t0 now Hmin Hmax Hd Hnow Hg Hsum; [reflexivity|].
  inversion Hg as [|? ? Hg0 Hg']; subst. cbn [fold_right] in Hsum.
  assert (Hrest : 0 <= fold_right Z.add 0 gaps).
  { clear - Hg'. induction gaps as [|x gaps IHg]; [cbn; lia|]. inversion Hg'; subst. cbn [fold_right]. specialize (IHg H2). lia. }
  cbn [ncw_run map]. unfold ncw_read. rewrite Hd.
  destruct (0 <? w_min w) eqn:E0; [|lia].
  destruct (t0 + w_max w - (now + g) <? w_min w) eqn:E1; [lia|].
  f_equal. apply (IH w t0 (now + g)); try assumption; lia.
Qed.
Close Scope Z_scope.

(* ================= 11. continuation lines in scripts with flushes ================= *)

Ltac lnorm := repeat (first [rewrite <- app_assoc | progress (cbn [app])]); try reflexivity.

(* the text carried after a prefix of a script, and what the flushes of that prefix deliver *)
Fixpoint carry_after (carry : bytes) (ops : list op) : bytes :=
  match ops with
  | [] => carry
  | OpRead f :: ops' => carry_after (carry ++ f) ops'
  | OpFlush :: ops' => carry_after (snd (split_lines carry)) ops'
  | OpFlushAll :: ops' => carry_after [] ops'
  end.

Fixpoint cuts_out (test : bytes -> bool) (carry : bytes) (ops : list op) : list bytes :=
  match ops with
  | [] => []
  | OpRead f :: ops' => cuts_out test (carry ++ f) ops'
  | OpFlush :: ops' => frame test (unlines (fst (split_lines carry))) ++ cuts_out test (snd (split_lines carry)) ops'
  | OpFlushAll :: ops' => frame test carry ++ cuts_out test [] ops'
  end.

Lemma spec_ops_app : forall test ops1 ops2 carry,
  spec_ops test carry (ops1 ++ ops2) = cuts_out test carry ops1 ++ spec_ops test (carry_after carry ops1) ops2.
Proof.
  induction ops1 as [|[f| |] ops1 IH]; intros ops2 carry; cbn [app spec_ops cuts_out carry_after].
  - reflexivity.
  - apply IH.
  - destruct (split_lines carry) as [ls t]. cbn [fst snd]. rewrite IH, app_assoc. reflexivity.
  - rewrite IH, app_assoc. reflexivity.
Qed.

Definition ends_NL (x : bytes) : Prop := x = [] \/ exists x', x = x' ++ [NL].

Lemma ends_NL_app : forall a b, ends_NL a -> ends_NL b -> ends_NL (a ++ b).
Proof.
  intros a b Ha [->|[b' ->]]; [rewrite app_nil_r; assumption|].
  right. exists (a ++ b'). rewrite app_assoc. reflexivity.
Qed.

Lemma ends_NL_unlines : forall ls, ends_NL (unlines ls).
Proof.
  induction ls as [|l ls IH] using rev_ind; [left; reflexivity|].
  right. exists (unlines ls ++ l). rewrite unlines_app, unlines_one, app_assoc. reflexivity.
Qed.

(* the carried text is the end of the text received, cut at a line boundary *)
Lemma carry_after_suffix : forall ops carry, no_flush_all ops ->
  exists pre, carry ++ ops_text ops = pre ++ carry_after carry ops /\ ends_NL pre.
Proof.
  induction ops as [|[f| |] ops IH]; intros carry Hn; cbn [ops_text carry_after].
  - exists []. split; [rewrite app_nil_r; reflexivity|left; reflexivity].
  - inversion Hn; subst. destruct (IH (carry ++ f)) as (pre & Hp & He); [assumption|].
    exists pre. rewrite <- Hp, <- app_assoc. split; [reflexivity|assumption].
  - inversion Hn; subst. destruct (split_lines carry) as [ls t] eqn:Es.
    destruct (split_lines_decomp _ _ _ Es) as (Hc & _ & _). cbn [snd].
    destruct (IH t) as (pre & Hp & He); [assumption|].
    exists (unlines ls ++ pre). rewrite Hc, <- !app_assoc, Hp. split; [reflexivity|].
    apply ends_NL_app; [apply ends_NL_unlines|assumption].
  - inversion Hn; subst. congruence.
Qed.

(* a newline-terminated prefix of x ++ l (l without newline) lies within x *)
Lemma ends_NL_prefix_split : forall pre ca x l,
  pre ++ ca = x ++ l -> ends_NL pre -> nonl l -> exists x', x = pre ++ x' /\ ca = x' ++ l.
Proof.
  intros pre ca x l H He Hl. apply app_eq_app in H. destruct H as [m [[Hpre Hl']|[Hx Hca]]].
  - (* pre = x ++ m, l = m ++ ca *)
    destruct He as [->|[p' Hp]].
    + symmetry in Hpre. apply app_eq_nil in Hpre. destruct Hpre as [-> ->]. exists []. split; [reflexivity|symmetry; exact Hl'].
    + destruct m as [|c m] using rev_ind.
      * rewrite app_nil_r in Hpre. subst x. exists []. rewrite app_nil_r. split; [reflexivity|symmetry; exact Hl'].
      * exfalso. rewrite Hpre, app_assoc in Hp. apply app_inj_tail in Hp. destruct Hp as [_ ->].
        apply Hl. rewrite Hl'. apply in_or_app. left. apply in_or_app. right. left. reflexivity.
  - exists m. split; assumption.
Qed.

Lemma ends_NL_suffix : forall pre x', ends_NL (pre ++ x') -> ends_NL pre -> ends_NL x'.
Proof.
  intros pre x' [H|[y H]] Hp.
  - apply app_eq_nil in H. destruct H as [_ ->]. left. reflexivity.
  - destruct x' as [|c x'] using rev_ind; [left; reflexivity|].
    rewrite app_assoc in H. apply app_inj_tail in H. destruct H as [_ ->]. right. exists x'. reflexivity.
Qed.

Section Attach.
Variable test : bytes -> bool.
Hypothesis test_head : forall a z, test a = true -> test (a ++ z) = true.

Lemma frame_has_record : forall x l c y,
  ends_NL x -> nonl l -> is_start test l = true -> nonl c -> is_start test c = false ->
  exists more, In (l ++ NL :: c ++ more) (frame test (x ++ l ++ NL :: c ++ NL :: y)).
Proof.
  intros x l c y Hx Hl Hsl Hc Hsc.
  destruct (continuation_spec_lemma test x l c y Hx Hl Hsl Hc Hsc) as (more & Hin).
  exists more. unfold frame. apply close_last_keeps; [assumption|].
  apply test_head. unfold is_start in Hsl. destruct l; [discriminate|assumption].
Qed.

(* once the two lines are in the carried text, the next cut (or the close) delivers them together *)
Lemma spec_ops_delivers : forall ops x l c y,
  ends_NL x -> nonl l -> is_start test l = true -> nonl c -> is_start test c = false ->
  exists more, In (l ++ NL :: c ++ more) (spec_ops test (x ++ l ++ NL :: c ++ NL :: y) (ops ++ [OpFlushAll])).
Proof.
  induction ops as [|[f| |] ops IH]; intros x l c y Hx Hl Hsl Hc Hsc; cbn [app spec_ops].
  - destruct (frame_has_record x l c y Hx Hl Hsl Hc Hsc) as (more & Hin).
    exists more. apply in_or_app. left. assumption.
  - replace ((x ++ l ++ NL :: c ++ NL :: y) ++ f) with (x ++ l ++ NL :: c ++ NL :: (y ++ f)).
    + apply IH; assumption.
    + lnorm.
  - destruct (split_lines (x ++ l ++ NL :: c ++ NL :: y)) as [ls t] eqn:Es.
    destruct (split_lines_decomp _ _ _ Es) as (Hd & _ & Ht).
    (* the part before the cut still contains both lines *)
    assert (Hcut : exists y', unlines ls = x ++ l ++ NL :: c ++ NL :: y').
    { replace (x ++ l ++ NL :: c ++ NL :: y) with ((x ++ l ++ NL :: c ++ [NL]) ++ y) in Hd
        by lnorm.
      symmetry in Hd. destruct (ends_NL_prefix_split (x ++ l ++ NL :: c ++ [NL]) y (unlines ls) t) as (y' & Hy & _).
      - symmetry. exact Hd.
      - right. exists (x ++ l ++ NL :: c). lnorm.
      - assumption.
      - exists y'. rewrite Hy. lnorm. }
    destruct Hcut as [y' Hy']. rewrite Hy'.
    destruct (frame_has_record x l c y' Hx Hl Hsl Hc Hsc) as (more & Hin).
    exists more. apply in_or_app. left. assumption.
  - destruct (frame_has_record x l c y Hx Hl Hsl Hc Hsc) as (more & Hin).
    exists more. apply in_or_app. left. assumption.
Qed.

Lemma continuation_flushes_spec : forall ops1 fs ops2 x l1 l2 c z,
  no_flush_all ops1 -> ops_text ops1 = x ++ l1 -> ends_NL x ->
  concat fs = l2 ++ NL :: c ++ NL :: z ->
  nonl (l1 ++ l2) -> is_start test (l1 ++ l2) = true -> nonl c -> is_start test c = false ->
  exists more, In ((l1 ++ l2) ++ NL :: c ++ more)
                  (spec_ops test [] (ops1 ++ map OpRead fs ++ ops2 ++ [OpFlushAll])).
Proof.
  intros ops1 fs ops2 x l1 l2 c z Hn Ht Hx Hfs Hl Hsl Hc Hsc.
  rewrite spec_ops_app, spec_ops_reads.
  destruct (carry_after_suffix ops1 [] Hn) as (pre & Hp & He). cbn [app] in Hp. rewrite Ht in Hp.
  assert (Hl1 : nonl l1) by (apply nonl_app in Hl; tauto).
  destruct (ends_NL_prefix_split pre (carry_after [] ops1) x l1 (eq_sym Hp) He Hl1) as (x' & Hx' & Hca).
  assert (Hx'e : ends_NL x') by (eapply ends_NL_suffix; [rewrite <- Hx'; exact Hx|exact He]).
  rewrite Hca, Hfs.
  replace ((x' ++ l1) ++ l2 ++ NL :: c ++ NL :: z) with (x' ++ (l1 ++ l2) ++ NL :: c ++ NL :: z)
    by lnorm.
  destruct (spec_ops_delivers ops2 x' (l1 ++ l2) c z Hx'e Hl Hsl Hc Hsc) as (more & Hin).
  exists more. apply in_or_app. right. assumption.
Qed.
End Attach.

Lemma continuation_flushes_lemma : forall test min_buf limit b ops1 fs ops2 x l1 l2 c z,
  test [] = false -> (forall a y, test a = true -> test (a ++ y) = true) ->
  1 <= limit -> 2 * b + 1 + limit <= Nat.max min_buf (limit * 3) ->
  bounded_ops test b [] (ops1 ++ map OpRead fs ++ ops2 ++ [OpFlushAll]) ->
  no_flush_all ops1 -> ops_text ops1 = x ++ l1 -> (x = [] \/ exists x', x = x' ++ [NL]) ->
  concat fs = l2 ++ NL :: c ++ NL :: z ->
  nonl (l1 ++ l2) -> is_start test (l1 ++ l2) = true -> nonl c -> is_start test c = false ->
  exists st' out more,
    run_ops test (ops1 ++ map OpRead fs ++ ops2 ++ [OpFlushAll]) (new_mlr min_buf limit) [] = Ok (st', out) /\
    In ((l1 ++ l2) ++ NL :: c ++ more) out.
Proof.
  intros test min_buf limit b ops1 fs ops2 x l1 l2 c z Hnil Hhead Hlim Hcap HB Hn Ht Hx Hfs Hl Hsl Hc Hsc.
  destruct (script_lemma test min_buf limit b _ (or_introl Hnil) Hlim Hcap HB) as (st' & Hrun).
  destruct (continuation_flushes_spec test Hhead ops1 fs ops2 x l1 l2 c z Hn Ht Hx Hfs Hl Hsl Hc Hsc) as (more & Hin).
  eexists st', _, more. split; [exact Hrun|exact Hin].
Qed.

(* ================= 12. flushes only shorten: a bound on the unflushed stream suffices ================= *)

Section Shorten.
Variable test : bytes -> bool.
Variable b : nat.
Notation small := (Forall (fun r : bytes => length r <= b)).

Lemma join_app_le : forall dl x : list bytes, x <> [] -> length (join NL x) <= length (join NL (dl ++ x)).
Proof.
  intros dl x Hx. destruct x as [|x0 x] using rev_ind; [congruence|]. clear IHx.
  rewrite app_assoc, !join_snoc, unlines_app, !app_length. lia.
Qed.

Lemma last_segment_app_le : forall dl x p, x <> [] -> length (last_segment x p) <= length (last_segment (dl ++ x) p).
Proof.
  intros dl x p Hx. unfold last_segment. destruct p.
  - apply join_app_le. assumption.
  - rewrite <- app_assoc. apply join_app_le. intros H. apply app_eq_nil in H. destruct H; discriminate.
Qed.

Lemma seg_state_nonempty : forall x p, x <> [] -> seg_state x p = [last_segment x p].
Proof. intros [|x0 x] p H; [congruence|]. destruct p; reflexivity. Qed.

(* the same lines with some older lines in front: every future segment is at least as long *)
Lemma shorten_open : forall v dl x p, x <> [] ->
  small (future_segs test (dl ++ x) p v) -> small (future_segs test x p v).
Proof.
  induction v as [|c v IH]; intros dl x p Hx H.
  - unfold future_segs in *. cbn [feed app] in *.
    rewrite seg_state_nonempty in * by (try assumption; intros E; apply app_eq_nil in E; destruct E; congruence).
    apply Forall_cons_iff in H. destruct H as [Hl _]. constructor; [|constructor].
    pose proof (last_segment_app_le dl x p Hx). lia.
  - destruct (N.eq_dec c NL) as [->|Hc].
    + rewrite future_segs_cons_NL in *. unfold close in *.
      destruct x as [|x0 x]; [congruence|]. destruct (dl ++ x0 :: x) as [|d0 dlx] eqn:Ed.
      { apply app_eq_nil in Ed. destruct Ed; discriminate. }
      rewrite <- Ed in *. clear Ed d0 dlx.
      destruct (is_start test p); cbn [fst snd app] in *.
      * apply Forall_cons_iff in H. destruct H as [H1 H2]. constructor; [|assumption].
        pose proof (join_app_le dl (x0 :: x) Hx). lia.
      * change (x0 :: x ++ [p]) with ((x0 :: x) ++ [p]). apply (IH dl); [discriminate|].
        rewrite app_assoc. assumption.
    + rewrite future_segs_cons_other in * by assumption. apply (IH dl); assumption.
Qed.

Lemma shorten_fresh : forall v dl p, small (future_segs test dl p v) -> small (future_segs test [] p v).
Proof.
  induction v as [|c v IH]; intros dl p H.
  - destruct dl as [|d dl]; [assumption|].
    unfold future_segs in *. cbn [feed app] in *. unfold seg_state in *. destruct p as [|c p]; [constructor|].
    apply Forall_cons_iff in H. destruct H as [Hl _]. constructor; [|constructor].
    pose proof (join_app_le (d :: dl) [c :: p] ltac:(discriminate)) as Hle.
    unfold last_segment in Hl |- *. change (join NL ([] ++ [c :: p])) with (join NL [c :: p]).
    eapply Nat.le_trans; [exact Hle|exact Hl].
  - destruct (N.eq_dec c NL) as [->|Hc].
    + destruct dl as [|d dl]; [assumption|].
      rewrite future_segs_cons_NL in *. unfold close in *.
      destruct (is_start test p); cbn [fst snd app] in *.
      * apply Forall_cons_iff in H. tauto.
      * change (d :: dl ++ [p]) with ((d :: dl) ++ [p]) in H. apply (shorten_open v (d :: dl) [p] []); [discriminate|assumption].
    + rewrite future_segs_cons_other in * by assumption. apply (IH dl). assumption.
Qed.

(* dropping a newline-terminated prefix of the stream keeps the bound *)
Lemma seg_bound_drop_prefix : forall pre v, ends_NL pre -> seg_bound test b (pre ++ v) -> seg_bound test b v.
Proof.
  intros pre v He H. unfold seg_bound in *.
  destruct (feed test [] [] pre) as [[o dl] p] eqn:E.
  assert (Hp : p = []).
  { destruct He as [->|[x' ->]]; [cbn in E; injection E as _ _ <-; reflexivity|]. eapply feed_ends_NL. exact E. }
  subst p.
  destruct (feed test dl [] v) as [[o2 dl2] p2] eqn:E2.
  assert (Exy : feed test [] [] (pre ++ v) = (o ++ o2, dl2, p2)) by (rewrite feed_app, E, E2; reflexivity).
  rewrite (segments_feed test _ _ _ _ Exy), <- app_assoc in H. apply Forall_app in H. destruct H as [_ H].
  assert (H1 : small (future_segs test dl [] v)) by (unfold future_segs; rewrite E2; exact H).
  apply shorten_fresh in H1. unfold future_segs in H1.
  destruct (feed test [] [] v) as [[o3 dl3] p3] eqn:E3. rewrite (segments_feed test _ _ _ _ E3). exact H1.
Qed.

Lemma bounded_ops_of_stream : forall ops pre carry,
  no_flush_all ops -> ends_NL pre -> seg_bound test b (pre ++ carry ++ ops_text ops) ->
  bounded_ops test b carry (ops ++ [OpFlushAll]).
Proof.
  induction ops as [|[f| |] ops IH]; intros pre carry Hn He H; cbn [app bounded_ops ops_text] in *.
  - rewrite app_nil_r in H. split.
    + exists []. rewrite app_nil_r. eapply seg_bound_drop_prefix; eassumption.
    + exists []. apply seg_bound_nil.
  - inversion Hn; subst. apply (IH pre); [assumption|assumption|]. rewrite <- app_assoc. assumption.
  - inversion Hn; subst. split.
    + exists (ops_text ops). eapply seg_bound_drop_prefix; eassumption.
    + destruct (split_lines carry) as [ls t] eqn:Es. destruct (split_lines_decomp _ _ _ Es) as (Hc & _ & _).
      cbn [snd]. apply (IH (pre ++ unlines ls)); [assumption|apply ends_NL_app; [assumption|apply ends_NL_unlines]|].
      rewrite Hc in H. rewrite <- !app_assoc in *. assumption.
  - inversion Hn; subst. congruence.
Qed.
End Shorten.

(* theorem 2 with the simple side condition: the segments of the stream as a whole are bounded *)
Lemma script_stream_lemma : forall test min_buf limit b ops,
  test [] = false -> 1 <= limit -> 2 * b + 1 + limit <= Nat.max min_buf (limit * 3) ->
  no_flush_all ops -> seg_bound test b (ops_text ops) ->
  exists st', run_ops test (ops ++ [OpFlushAll]) (new_mlr min_buf limit) [] =
              Ok (st', spec_ops test [] (ops ++ [OpFlushAll])).
Proof.
  intros test min_buf limit b ops Hnil Hl Hc Hn HB.
  apply (script_lemma test min_buf limit b); try assumption; [left; assumption|].
  apply (bounded_ops_of_stream test b ops [] []); [assumption|left; reflexivity|exact HB].
Qed.

Lemma continuation_flushes_stream_lemma : forall test min_buf limit b ops1 fs ops2 x l1 l2 c z,
  test [] = false -> (forall a y, test a = true -> test (a ++ y) = true) ->
  1 <= limit -> 2 * b + 1 + limit <= Nat.max min_buf (limit * 3) ->
  no_flush_all ops1 -> no_flush_all ops2 ->
  seg_bound test b (ops_text (ops1 ++ map OpRead fs ++ ops2)) ->
  ops_text ops1 = x ++ l1 -> (x = [] \/ exists x', x = x' ++ [NL]) ->
  concat fs = l2 ++ NL :: c ++ NL :: z ->
  nonl (l1 ++ l2) -> is_start test (l1 ++ l2) = true -> nonl c -> is_start test c = false ->
  exists st' out more,
    run_ops test (ops1 ++ map OpRead fs ++ ops2 ++ [OpFlushAll]) (new_mlr min_buf limit) [] = Ok (st', out) /\
    In ((l1 ++ l2) ++ NL :: c ++ more) out.
Proof.
  intros test min_buf limit b ops1 fs ops2 x l1 l2 c z Hnil Hhead Hlim Hcap Hn1 Hn2 HB.
  apply continuation_flushes_lemma with (b := b); try assumption.
  replace (ops1 ++ map OpRead fs ++ ops2 ++ [OpFlushAll]) with ((ops1 ++ map OpRead fs ++ ops2) ++ [OpFlushAll])
    by (rewrite <- !app_assoc; reflexivity).
  apply (bounded_ops_of_stream test b _ [] []); [|left; reflexivity|exact HB].
  apply Forall_app. split; [assumption|]. apply Forall_app. split; [|assumption].
  apply Forall_forall. intros o Ho. apply in_map_iff in Ho. destruct Ho as (f & <- & _). discriminate.
Qed.

(* the hypotheses of the theorems with flushes are satisfiable: the example stream, a flush
   after the first three bytes (inside the first header), the two lines of the first record
   and the head of the second in three reads, a flush, the rest *)
Lemma nonl_dec : forall l, forallb (fun c => negb (N.eqb c NL)) l = true -> nonl l.
Proof.
  intros l H Hin. rewrite forallb_forall in H. specialize (H NL Hin). rewrite N.eqb_refl in H. discriminate.
Qed.

Definition ex_ops1 : list op := [OpRead (firstn 3 ex_stream); OpFlush].
Definition ex_fs : list bytes := [firstn 20 (skipn 3 ex_stream); firstn 30 (skipn 23 ex_stream); firstn 18 (skipn 53 ex_stream)].
Definition ex_ops2 : list op := [OpFlush; OpRead (skipn 71 ex_stream)].

Lemma example_flush_lemma :
  trs [] = false /\ no_flush_all ex_ops1 /\ no_flush_all ex_ops2 /\
  seg_bound trs 64 (ops_text (ex_ops1 ++ map OpRead ex_fs ++ ex_ops2)) /\
  ops_text ex_ops1 = [] ++ firstn 3 ex_r1 /\
  concat ex_fs = skipn 3 ex_r1 ++ NL :: ex_c1 ++ NL :: firstn 9 ex_r2 /\
  nonl (firstn 3 ex_r1 ++ skipn 3 ex_r1) /\ is_start trs (firstn 3 ex_r1 ++ skipn 3 ex_r1) = true /\
  nonl ex_c1 /\ is_start trs ex_c1 = false /\
  exists st, run_ops trs (ex_ops1 ++ map OpRead ex_fs ++ ex_ops2 ++ [OpFlushAll]) (new_mlr 256 64) [] =
             Ok (st, [ex_r1 ++ NL :: ex_c1; ex_r2]).
Proof.
  split; [reflexivity|]. split; [repeat constructor; discriminate|]. split; [repeat constructor; discriminate|].
  split; [apply seg_bound_dec; vm_compute; reflexivity|]. split; [vm_compute; reflexivity|].
  split; [vm_compute; reflexivity|]. split; [apply nonl_dec; vm_compute; reflexivity|].
  split; [vm_compute; reflexivity|]. split; [apply nonl_dec; vm_compute; reflexivity|].
  split; [vm_compute; reflexivity|]. eexists. vm_compute. reflexivity.
Qed.

(* ================= 13. fragmentation independence between flush ticks ================= *)

Lemma ops_text_reads : forall fs rest, ops_text (map OpRead fs ++ rest) = concat fs ++ ops_text rest.
Proof.
  induction fs as [|f fs IH]; intros rest; [reflexivity|].
  cbn [map app ops_text concat]. rewrite IH, app_assoc. reflexivity.
Qed.

Lemma ops_text_script_of : forall fss rest, ops_text (script_of fss ++ rest) = concat (map (@concat N) fss) ++ ops_text rest.
Proof.
  induction fss as [|fs fss IH]; intros rest; [reflexivity|].
  unfold script_of in *. cbn [flat_map map concat]. rewrite <- !app_assoc, ops_text_reads. cbn [app ops_text].
  rewrite IH, app_assoc. reflexivity.
Qed.

Lemma no_flush_all_script_of : forall fss last, no_flush_all (script_of fss ++ map OpRead last).
Proof.
  intros fss last. apply Forall_app. split.
  - unfold script_of. apply Forall_forall. intros o Ho. apply in_flat_map in Ho. destruct Ho as (fs & _ & Ho).
    apply in_app_or in Ho. destruct Ho as [Ho|[<-|[]]]; [|discriminate].
    apply in_map_iff in Ho. destruct Ho as (f & <- & _). discriminate.
  - apply Forall_forall. intros o Ho. apply in_map_iff in Ho. destruct Ho as (f & <- & _). discriminate.
Qed.

Lemma spec_ops_script_of : forall test fss1 fss2 rest carry,
  map (@concat N) fss1 = map (@concat N) fss2 ->
  spec_ops test carry (script_of fss1 ++ rest) = spec_ops test carry (script_of fss2 ++ rest).
Proof.
  induction fss1 as [|fs1 fss1 IH]; intros fss2 rest carry H; destruct fss2 as [|fs2 fss2]; try discriminate; [reflexivity|].
  cbn [map] in H. injection H as Hc Ht. unfold script_of in *. cbn [flat_map].
  rewrite <- !app_assoc, !spec_ops_reads, Hc. cbn [app spec_ops].
  destruct (split_lines (carry ++ concat fs2)) as [ls t]. f_equal. apply IH. assumption.
Qed.

(* same text between the same flush ticks, any two ways of cutting it into reads: same records *)
Lemma frag_independent_ticks_lemma : forall test min_buf limit b fss1 fss2 last1 last2,
  test [] = false -> 1 <= limit -> 2 * b + 1 + limit <= Nat.max min_buf (limit * 3) ->
  map (@concat N) fss1 = map (@concat N) fss2 -> concat last1 = concat last2 ->
  seg_bound test b (concat (map (@concat N) fss1) ++ concat last1) ->
  exists st1 st2 out,
    run_ops test (script_of fss1 ++ map OpRead last1 ++ [OpFlushAll]) (new_mlr min_buf limit) [] = Ok (st1, out) /\
    run_ops test (script_of fss2 ++ map OpRead last2 ++ [OpFlushAll]) (new_mlr min_buf limit) [] = Ok (st2, out).
Proof.
  intros test min_buf limit b fss1 fss2 last1 last2 Hnil Hl Hc Hf Hlast HB.
  assert (HB1 : seg_bound test b (ops_text (script_of fss1 ++ map OpRead last1))).
  { rewrite ops_text_script_of, <- (app_nil_r (map OpRead last1)), ops_text_reads. cbn [ops_text]. rewrite app_nil_r. exact HB. }
  assert (HB2 : seg_bound test b (ops_text (script_of fss2 ++ map OpRead last2))).
  { rewrite ops_text_script_of, <- (app_nil_r (map OpRead last2)), ops_text_reads. cbn [ops_text]. rewrite app_nil_r, <- Hf, <- Hlast. exact HB. }
  destruct (script_stream_lemma test min_buf limit b _ Hnil Hl Hc (no_flush_all_script_of fss1 last1) HB1) as (st1 & H1).
  destruct (script_stream_lemma test min_buf limit b _ Hnil Hl Hc (no_flush_all_script_of fss2 last2) HB2) as (st2 & H2).
  rewrite <- app_assoc in H1, H2.
  exists st1, st2, (spec_ops test [] (script_of fss1 ++ map OpRead last1 ++ [OpFlushAll])).
  split; [exact H1|]. rewrite H2. f_equal. f_equal.
  rewrite (spec_ops_script_of test fss2 fss1) by (symmetry; assumption).
  rewrite (spec_ops_app test (script_of fss1) (map OpRead last2 ++ [OpFlushAll])), (spec_ops_app test (script_of fss1) (map OpRead last1 ++ [OpFlushAll])).
  f_equal. rewrite !spec_ops_reads, Hlast. reflexivity.
Qed.

(* ================= 14. every event sequence runConnection can see ================= *)

Lemma ops_text_app : forall a b, ops_text (a ++ b) = ops_text a ++ ops_text b.
Proof.
  induction a as [|[f| |] a IH]; intros b; cbn [app ops_text]; [reflexivity| |apply IH|apply IH].
  rewrite IH, app_assoc. reflexivity.
Qed.

Lemma conn_characterisation_lemma : forall test min_buf limit b evs,
  test [] = false -> 1 <= limit -> 2 * b + 1 + limit <= Nat.max min_buf (limit * 3) ->
  seg_bound test b (ops_text (conn_ops evs)) ->
  exists st', run_ops test (conn_ops evs) (new_mlr min_buf limit) [] =
              Ok (st', spec_ops test [] (conn_ops evs)).
Proof.
  intros test min_buf limit b evs Hnil Hl Hc HB.
  destruct (conn_ops_shape evs) as (ops & Heq & Hn). rewrite Heq in *.
  rewrite ops_text_app in HB. cbn [ops_text] in HB. rewrite app_nil_r in HB.
  apply (script_stream_lemma test min_buf limit b); assumption.
Qed.

Lemma conn_single_line_lemma : forall test min_buf limit b ls evs,
  test [] = false -> 1 <= limit -> 2 * b + 1 + limit <= Nat.max min_buf (limit * 3) ->
  Forall (valid_line test b) ls -> ops_text (conn_ops evs) = unlines ls ->
  exists st', run_ops test (conn_ops evs) (new_mlr min_buf limit) [] = Ok (st', ls).
Proof.
  intros test min_buf limit b ls evs Hnil Hl Hc Hv Ht.
  destruct (conn_ops_shape evs) as (ops & Heq & Hn). rewrite Heq in *.
  rewrite ops_text_app in Ht. cbn [ops_text] in Ht. rewrite app_nil_r in Ht.
  apply (single_line_lemma test min_buf limit b); assumption.
Qed.
