(* C15: the rune-level clean-up loop (Model/TfUtf8Dec.v): the decoder yields scalar values in shortest form,
   RuneError only for EF BF BD among the well-formed sequences; the loop with Go's test is to_valid_utf8;
   the clean-up keeps every well-formed sequence wherever it stands and only deletes bytes; the variant
   that tests the rune value alone deletes U+FFFD. *)
From SV Require Import Model.Common Model.TfUtf8 Model.TfUtf8Dec Spec.TfUtf8Spec Spec.TfUtf8DecSpec
     Proofs.TfUtf8Proofs.
From Coq Require Import Lia ZifyBool ZifyN ZifyNat.
Ltac Zify.zify_post_hook ::= Z.div_mod_to_equations.
Open Scope N_scope.

(* ---------- utf8.DecodeRune with its value ---------- *)

Lemma decode_rune_seq_size : forall q t, utf8_seq q -> snd (decode_rune (q ++ t)) = length q.
Proof.
  intros q t H. unfold decode_rune. rewrite (rune_width_seq q t H).
  destruct H; reflexivity.
Qed.

(* among the well-formed sequences only EF BF BD decodes to RuneError *)
Lemma decode_rune_error_iff : forall q t, utf8_seq q ->
  (fst (decode_rune (q ++ t)) = rune_error <-> q = [239; 191; 189]).
Proof.
  intros q t H. unfold decode_rune, rune_error. rewrite (rune_width_seq q t H).
  destruct H; unfold cont in *; cbn [app length fst]; split; intros He;
    try (inversion He; subst; reflexivity); try (exfalso; lia); try congruence.
  assert (b0 = 239 /\ b1 = 191 /\ b2 = 189) as (-> & -> & ->) by lia. reflexivity.
Qed.

(* the decoded value is a Unicode scalar value in its shortest form *)
Lemma decode_rune_scalar : forall q t, utf8_seq q ->
  scalar_value (fst (decode_rune (q ++ t))) /\ shortest_form (fst (decode_rune (q ++ t))) (length q).
Proof.
  intros q t H. unfold decode_rune, scalar_value, shortest_form. rewrite (rune_width_seq q t H).
  destruct H; unfold cont in *; cbn [app length fst]; lia.
Qed.

Lemma decode_rune_valid : forall s w, rune_width s = Some w ->
  snd (decode_rune s) = w /\ skip_go (fst (decode_rune s)) w = false.
Proof.
  intros s w H. destruct (rune_width_sound _ _ H) as [Hq Hw].
  rewrite <- (firstn_skipn w s). set (q := firstn w s) in *.
  assert (Hl : length q = w) by (unfold q; rewrite firstn_length; lia).
  rewrite (decode_rune_seq_size q _ Hq). split; [assumption|].
  unfold skip_go. destruct (fst (decode_rune (q ++ skipn w s)) =? rune_error) eqn:E; [|reflexivity].
  apply N.eqb_eq in E. apply (decode_rune_error_iff q _ Hq) in E. rewrite E in Hl. subst w. reflexivity.
Qed.

Lemma decode_rune_invalid : forall b t, rune_width (b :: t) = None -> decode_rune (b :: t) = (rune_error, 1%nat).
Proof. intros b t H. unfold decode_rune. rewrite H. reflexivity. Qed.

(* ---------- the loop with Go's test is strings.ToValidUTF8(s, "") as modelled in TfUtf8.v ---------- *)

Lemma to_valid_loop_go : forall f s, (length s <= f)%nat -> to_valid_loop skip_go f s = to_valid_utf8 s.
Proof.
  induction f as [|f IH]; intros s Hl.
  - destruct s; [reflexivity|cbn in Hl; lia].
  - destruct s as [|b t]; [reflexivity|].
    cbn [to_valid_loop]. unfold to_valid_utf8.
    destruct (rune_width (b :: t)) as [w|] eqn:E.
    + destruct (decode_rune_valid _ _ E) as [Hs Hk]. destruct (rune_width_sound _ _ E) as [_ Hw].
      destruct (decode_rune (b :: t)) as [r size]. cbn [fst snd] in *. subst size.
      replace (Nat.max 1 w) with w by lia. rewrite Hk.
      rewrite (to_valid_step_valid _ _ E). f_equal.
      apply IH. rewrite skipn_length. cbn [length] in *. lia.
    + rewrite (decode_rune_invalid _ _ E). cbn [Nat.max skip_go]. 
      replace (skip_go rune_error 1) with true by reflexivity.
      rewrite (to_valid_step_invalid _ _ E). cbn [skipn app]. apply IH. cbn in Hl. lia.
Qed.

Lemma to_valid_by_go : forall s, to_valid_by skip_go s = to_valid_utf8 s.
Proof. intros s. apply to_valid_loop_go. lia. Qed.

Lemma clean_utf8_by_go : forall s, clean_utf8_by skip_go s = clean_utf8 s.
Proof. intros s. unfold clean_utf8_by, clean_utf8. destruct s; [reflexivity|]. rewrite to_valid_by_go. reflexivity. Qed.

(* ---------- the clean-up resynchronises at every byte that cannot continue a sequence ---------- *)

Lemma seq_starts_fresh : forall q t, utf8_seq q -> starts_fresh (q ++ t).
Proof.
  intros q t H c y' He. unfold cont in *. destruct H; cbn in He; inversion He; subst; lia.
Qed.

Lemma nil_starts_fresh : starts_fresh [].
Proof. intros c y' H. discriminate. Qed.

(* a well-formed sequence that starts inside x (x non-empty) cannot reach over a fresh start *)
Lemma seq_prefix_bound : forall s t x y, utf8_seq s -> s ++ t = x ++ y -> x <> [] -> starts_fresh y ->
  (length s <= length x)%nat.
Proof.
  intros s t x y Hs Heq Hx Hy. unfold starts_fresh, cont in *.
  destruct Hs; unfold cont in *; destruct x as [|x0 [|x1 [|x2 [|x3 x]]]]; try congruence; cbn [length]; try lia;
    cbn [app] in Heq; inversion Heq; subst; exfalso; refine (Hy _ _ eq_refl _); lia.
Qed.

Lemma rune_width_app_fresh : forall x y, x <> [] -> starts_fresh y -> rune_width (x ++ y) = rune_width x.
Proof.
  intros x y Hx Hy. destruct (rune_width (x ++ y)) as [w|] eqn:E1.
  - destruct (rune_width_sound _ _ E1) as [Hq Hw].
    pose proof (seq_prefix_bound _ (skipn w (x ++ y)) x y Hq (firstn_skipn w (x ++ y)) Hx Hy) as Hb.
    rewrite firstn_length in Hb.
    assert (Hwx : (w <= length x)%nat) by lia.
    rewrite firstn_app in Hq. replace (w - length x)%nat with O in Hq by lia. rewrite firstn_O, app_nil_r in Hq.
    rewrite <- (firstn_skipn w x). rewrite (rune_width_seq _ _ Hq). rewrite firstn_length. f_equal. lia.
  - destruct (rune_width x) as [w|] eqn:E2; [|reflexivity].
    destruct (rune_width_sound _ _ E2) as [Hq Hw].
    rewrite <- (firstn_skipn w x), <- app_assoc in E1. rewrite (rune_width_seq _ _ Hq) in E1. discriminate.
Qed.

Lemma to_valid_app_fresh : forall a y, starts_fresh y -> to_valid_utf8 (a ++ y) = to_valid_utf8 a ++ to_valid_utf8 y.
Proof.
  intros a y Hy. remember (length a) as n eqn:Hn. revert a Hn.
  induction n as [n IH] using lt_wf_ind. intros a Hn.
  destruct a as [|b t]; [reflexivity|].
  assert (Hne : b :: t <> []) by discriminate.
  pose proof (rune_width_app_fresh (b :: t) y Hne Hy) as Hrw.
  unfold to_valid_utf8 in *.
  destruct (rune_width (b :: t)) as [w|] eqn:E.
  - destruct (rune_width_sound _ _ E) as [_ Hw].
    rewrite (to_valid_step_valid _ _ Hrw), (to_valid_step_valid _ _ E).
    rewrite firstn_app, skipn_app. replace (w - length (b :: t))%nat with O by lia.
    rewrite firstn_O, app_nil_r. cbn [skipn]. rewrite <- app_assoc. f_equal.
    apply (IH (length (skipn w (b :: t)))); [|reflexivity]. rewrite skipn_length. subst n. lia.
  - cbn [app] in *. rewrite (to_valid_step_invalid _ _ Hrw), (to_valid_step_invalid _ _ E).
    apply (IH (length t)); [subst n; cbn; lia|reflexivity].
Qed.

(* every well-formed sequence is kept, wherever it stands and whatever surrounds it *)
Lemma to_valid_keeps_rune : forall a q b, utf8_seq q ->
  to_valid_utf8 (a ++ q ++ b) = to_valid_utf8 a ++ q ++ to_valid_utf8 b.
Proof.
  intros a q b Hq. rewrite (to_valid_app_fresh a (q ++ b) (seq_starts_fresh q b Hq)).
  rewrite (to_valid_seq_app q b Hq). reflexivity.
Qed.

(* ---------- bytes are only deleted ---------- *)

Lemma subseq_refl : forall s, subseq s s.
Proof. induction s; constructor; assumption. Qed.

Lemma subseq_app : forall a a' b b', subseq a' a -> subseq b' b -> subseq (a' ++ b') (a ++ b).
Proof. intros a a' b b' Ha Hb. induction Ha; cbn [app]; [assumption|constructor; assumption|constructor; assumption]. Qed.

Lemma subseq_length : forall r s, subseq r s -> (length r <= length s)%nat.
Proof. induction 1; cbn [length]; lia. Qed.

Lemma subseq_firstn_skipn : forall e s x, subseq x (skipn e s) -> subseq (firstn e s ++ x) s.
Proof.
  intros e s x H. pose proof (subseq_app (firstn e s) (firstn e s) (skipn e s) x (subseq_refl _) H) as K.
  rewrite firstn_skipn in K. exact K.
Qed.

Lemma to_valid_k_subseq : forall s k, subseq (to_valid_k k s) s.
Proof.
  induction s as [|b t IH]; intros k; [constructor|].
  cbn [to_valid_k]. destruct k as [|k]; [destruct (rune_width (b :: t))|]; constructor; apply IH.
Qed.

Lemma to_valid_subseq : forall s, subseq (to_valid_utf8 s) s.
Proof. intros s. apply to_valid_k_subseq. Qed.

(* ---------- CleanUTF8 ---------- *)

Lemma clean_utf8_subseq : forall s r, clean_utf8 s = Ok r -> subseq r s.
Proof.
  intros s r H. rewrite clean_utf8_eq in H. inversion H; subst.
  apply subseq_firstn_skipn, to_valid_subseq.
Qed.

(* nothing is removed when the part after the last ASCII byte is well formed *)
Lemma clean_utf8_valid_tail_id : forall s, valid_utf8 (skipn (find_last_end_of_ascii s) s) -> clean_utf8 s = Ok s.
Proof. intros s H. rewrite clean_utf8_eq, (to_valid_id _ H), firstn_skipn. reflexivity. Qed.

Lemma clean_utf8_valid_id : forall s, valid_utf8 s -> clean_utf8 s = Ok s.
Proof. intros s H. apply clean_utf8_valid_tail_id, valid_after_last_ascii, H. Qed.

(* every well-formed sequence of the input is in the output, between what is left of its two sides *)
Lemma clean_utf8_keeps_rune : forall a q b r, utf8_seq q -> clean_utf8 (a ++ q ++ b) = Ok r ->
  exists a' b', r = a' ++ q ++ b' /\ subseq a' a /\ subseq b' b.
Proof.
  intros a q b r Hq H. rewrite clean_utf8_eq in H. inversion H; subst r; clear H.
  set (e := find_last_end_of_ascii (a ++ q ++ b)).
  assert (He : (e <= length a)%nat /\ Forall (fun c => 128 <= c) q \/ (length a + length q <= e)%nat).
  { unfold e. rewrite flea_app, flea_app.
    destruct (find_last_end_of_ascii b) as [|n] eqn:Eb.
    - destruct (seq_high_or_single q Hq) as [(c & -> & Hc)|Hh].
      + right. cbn [find_last_end_of_ascii length]. destruct (c <=? 127) eqn:E; [lia|lia].
      + left. rewrite (flea_high q Hh). split; [apply flea_le|assumption].
    - right. replace (length q + S n)%nat with (S (length q + n)) by lia. lia. }
  destruct He as [[Hle Hh]|Hge].
  - exists (firstn e a ++ to_valid_utf8 (skipn e a)), (to_valid_utf8 b).
    rewrite firstn_app, skipn_app. replace (e - length a)%nat with O by lia. cbn [firstn skipn].
    rewrite app_nil_r, to_valid_keeps_rune by assumption. rewrite <- !app_assoc.
    split; [reflexivity|]. split; [|apply to_valid_subseq].
    apply subseq_firstn_skipn, to_valid_subseq.
  - set (j := (e - (length a + length q))%nat).
    exists a, (firstn j b ++ to_valid_utf8 (skipn j b)).
    rewrite (app_assoc a q b). rewrite firstn_app, skipn_app, app_length.
    rewrite firstn_all2, skipn_all2 by (rewrite app_length; lia). fold j. cbn [app].
    rewrite <- !app_assoc. split; [reflexivity|]. split; [apply subseq_refl|].
    apply subseq_firstn_skipn, to_valid_subseq.
Qed.

(* ---------- the variant that tests only the rune value (seeded change C15/6) ---------- *)

(* a valid string (one U+FFFD) that the variant does not leave alone, whereas CleanUTF8 does *)
Lemma clean_rune_only_refuted :
  exists s, valid_utf8 s /\ clean_utf8 s = Ok s /\ clean_utf8_by skip_rune_only s <> Ok s.
Proof.
  exists [239; 191; 189].
  assert (Hv : valid_utf8 [239; 191; 189]).
  { change [239; 191; 189] with ([239; 191; 189] ++ []). constructor; [|constructor].
    apply U3b; unfold cont; lia. }
  split; [exact Hv|]. split; [apply clean_utf8_valid_id; exact Hv|].
  vm_compute. discriminate.
Qed.

(* the example of the truncate contract: "12<U+FFFD>世界World" cut at 8 bytes keeps the U+FFFD with CleanUTF8
   and loses it with the variant *)
Lemma truncate_rune_only_example :
  let v := [49; 50; 239; 191; 189; 228; 184; 150; 231; 149; 140; 87; 111; 114; 108; 100] in
  clean_utf8 (firstn 8 v) = Ok [49; 50; 239; 191; 189; 228; 184; 150] /\
  clean_utf8_by skip_rune_only (firstn 8 v) = Ok [49; 50; 228; 184; 150].
Proof. vm_compute. split; reflexivity. Qed.

(* the three facts about CleanUTF8 together *)
Lemma clean_utf8_keeps_all : forall s r, clean_utf8 s = Ok r ->
  subseq r s /\
  (valid_utf8 (skipn (find_last_end_of_ascii s) s) -> r = s) /\
  (forall a q b, s = a ++ q ++ b -> utf8_seq q -> exists a' b', r = a' ++ q ++ b' /\ subseq a' a /\ subseq b' b).
Proof.
  intros s r H. split; [apply clean_utf8_subseq; exact H|]. split.
  - intros Hv. rewrite (clean_utf8_valid_tail_id s Hv) in H. inversion H. reflexivity.
  - intros a q b -> Hq. apply clean_utf8_keeps_rune; assumption.
Qed.
