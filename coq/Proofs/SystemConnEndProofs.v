(* Proofs about Model/SystemConnEnd.v: the code-order ending of a connection (FlushAll; Flush; Close) composes to
   the atomic [EConnEnd] of Model/System.v, hence every run of the agent whose connections end by the faithful
   programs — on the peer path or closed by the stop request while still open — is a run of Model/System.v and has
   conservation, empty batches at Stopped and at-least-once; the variants that skip or misplace an operation on the
   stop path lose records (witness runs), and they are indistinguishable from the faithful agent on runs in which
   no connection is open at the stop. *)
From Coq Require Import List Arith Bool Lia PeanoNat NArith.
From SV Require Import Model.Common Model.System Model.SystemAccept Model.SystemConnEnd
  Proofs.SystemLists Proofs.SystemProofs Proofs.SystemAlo.
Import ListNotations.
Open Scope nat_scope.

(* ---------- list facts ---------- *)

Lemma filter_idem : forall A (f : A -> bool) l, filter f (filter f l) = filter f l.
Proof.
  induction l as [|x l IH]; cbn; [reflexivity|]. destruct (f x) eqn:E; cbn; rewrite ?E, IH; reflexivity.
Qed.

Lemma filter_neg_pos : forall A (f : A -> bool) l, filter (fun x => negb (f x)) (filter f l) = [].
Proof.
  induction l as [|x l IH]; cbn; [reflexivity|]. destruct (f x) eqn:E; cbn; rewrite ?E; cbn; exact IH.
Qed.

Lemma filter_pos_neg : forall A (f : A -> bool) l, filter f (filter (fun x => negb (f x)) l) = [].
Proof.
  induction l as [|x l IH]; cbn; [reflexivity|]. destruct (f x) eqn:E; cbn; rewrite ?E; cbn; exact IH.
Qed.

Lemma filter_neg_idem : forall A (f : A -> bool) l,
  filter (fun x => negb (f x)) (filter (fun x => negb (f x)) l) = filter (fun x => negb (f x)) l.
Proof. intros. apply (filter_idem _ (fun x => negb (f x))). Qed.

Lemma add_pipe_present : forall p l, In p l -> add_pipe p l = l.
Proof.
  intros p l H. unfold add_pipe. destruct (existsb (Nat.eqb p) l) eqn:E; [reflexivity|].
  exfalso. assert (X : existsb (Nat.eqb p) l = true); [|congruence].
  apply existsb_exists. exists p. split; [assumption|apply Nat.eqb_refl].
Qed.

Lemma add_pipe_list_present : forall ps l, (forall p, In p ps -> In p l) -> add_pipe_list ps l = l.
Proof.
  induction ps as [|p ps IH]; intros l H; [reflexivity|]. unfold add_pipe_list in *. cbn.
  rewrite add_pipe_present by (apply H; left; reflexivity). apply IH. intros q Hq. apply H. right. assumption.
Qed.

Lemma add_pipes_app : forall a b l, add_pipes (a ++ b) l = add_pipes b (add_pipes a l).
Proof. intros. unfold add_pipes, add_pipe_list. rewrite map_app, fold_left_app. reflexivity. Qed.

Lemma add_pipes_present : forall a l, (forall t, In t a -> In (t_pipe t) l) -> add_pipes a l = l.
Proof.
  intros a l H. unfold add_pipes. apply add_pipe_list_present. intros p Hp.
  apply in_map_iff in Hp. destruct Hp as [t [<- Ht]]. auto.
Qed.

(* ---------- the three operations in filter form ---------- *)

Definition offc (k : nat) (t : tok) : bool := negb (on_conn k t).

Lemma op_flush_all_eq : forall k s,
  op_flush_all k s =
  set_in s (open_conns s) (ingested s) (filter (offc k) (conn_buf s)) (sink_batch s ++ filter (on_conn k) (conn_buf s))
         (key_buf s) (chans s) (pipes s) (lost s).
Proof. intros. unfold op_flush_all. rewrite partition_as_filter. reflexivity. Qed.

Lemma op_flush_eq : forall k s,
  op_flush k s =
  set_in s (open_conns s) (ingested s) (conn_buf s) (filter (offc k) (sink_batch s))
         (key_buf s ++ filter (on_conn k) (sink_batch s)) (chans s)
         (add_pipes (filter (on_conn k) (sink_batch s)) (pipes s)) (lost s).
Proof. intros. unfold op_flush. rewrite partition_as_filter. reflexivity. Qed.

Lemma op_close_eq : forall k s,
  op_close k s =
  set_in s (remove_nat k (open_conns s)) (ingested s) (filter (offc k) (conn_buf s)) (filter (offc k) (sink_batch s))
         (filter (offc k) (key_buf s)) (chans s ++ singleton_batches (filter (on_conn k) (key_buf s))) (pipes s) (lost s).
Proof. intros. unfold op_close. rewrite !partition_as_filter. reflexivity. Qed.

(* the state that [step s (EConnEnd k)] produces *)
Definition conn_end_state (k : nat) (s : state) : state :=
  let moved := filter (on_conn k) (key_buf s) ++ filter (on_conn k) (sink_batch s) ++ filter (on_conn k) (conn_buf s) in
  set_in s (remove_nat k (open_conns s)) (ingested s) (filter (offc k) (conn_buf s)) (filter (offc k) (sink_batch s))
         (filter (offc k) (key_buf s)) (chans s ++ singleton_batches moved) (add_pipes moved (pipes s)) (lost s).

Lemma step_conn_end : forall k s, mem_nat k (open_conns s) = true -> step s (EConnEnd k) = Some (conn_end_state k s).
Proof.
  intros k s H. cbn [step]. rewrite H. rewrite !partition_as_filter. reflexivity.
Qed.

(* REFINEMENT: FlushAll; Flush; Close in this order is the atomic ending of Model/System.v.  The only hypothesis
   is an invariant of every reachable state (aux, field aB1): the pipelines of the records in the per-key buffers
   exist already (they are created by sendBuffer, not by Close). *)
(* the faithful program in closed form *)
Definition faithful_end_raw (k : nat) (s : state) : state :=
  set_in s (remove_nat k (open_conns s)) (ingested s) (filter (offc k) (conn_buf s)) (filter (offc k) (sink_batch s))
         (filter (offc k) (key_buf s))
         (chans s ++ singleton_batches (filter (on_conn k) (key_buf s) ++ filter (on_conn k) (sink_batch s)
                                        ++ filter (on_conn k) (conn_buf s)))
         (add_pipes (filter (on_conn k) (sink_batch s) ++ filter (on_conn k) (conn_buf s)) (pipes s)) (lost s).

Lemma faithful_end_closed_form : forall k s, run_end faithful_prog k s = faithful_end_raw k s.
Proof.
  intros k s. unfold run_end, faithful_prog. cbn [fold_left run_op].
  rewrite op_close_eq, op_flush_eq, op_flush_all_eq. unfold faithful_end_raw, set_in.
  cbn [phase open_conns ingested conn_buf sink_batch key_buf chans hand cur lastid pipes pph cph queue fhand window
       leftovers unacked files acked dropped filtered lost received].
  unfold offc.
  rewrite !filter_app.
  rewrite !filter_idem, !filter_neg_pos, ?filter_neg_idem, !app_nil_r.
  reflexivity.
Qed.

Lemma faithful_end_state : forall k s,
  (forall t, In t (key_buf s) -> In (t_pipe t) (pipes s)) ->
  run_end faithful_prog k s = conn_end_state k s.
Proof.
  intros k s HB. rewrite faithful_end_closed_form. unfold faithful_end_raw, conn_end_state.
  rewrite (add_pipes_app (filter (on_conn k) (key_buf s))).
  rewrite (add_pipes_present (filter (on_conn k) (key_buf s)) (pipes s))
    by (intros t Ht; apply filter_In in Ht; apply HB; tauto).
  reflexivity.
Qed.

Lemma faithful_end_refines : forall k s,
  (forall t, In t (key_buf s) -> In (t_pipe t) (pipes s)) ->
  mem_nat k (open_conns s) = true ->
  step s (EConnEnd k) = Some (run_end faithful_prog k s).
Proof. intros k s HB HM. rewrite faithful_end_state by assumption. apply step_conn_end. assumption. Qed.

(* LOCAL statement, for EVERY state (no reachability needed): after the faithful ending of connection k nothing of k
   is left in the line reader, the batch or the per-key buffers; everything k held there is in the pipeline
   channels (downstream); nothing of another connection has moved. *)
Lemma faithful_end_local : forall k s,
  let s' := run_end faithful_prog k s in
  (forall t, on_conn k t = true -> ~ In t (conn_buf s') /\ ~ In t (sink_batch s') /\ ~ In t (key_buf s')) /\
  (forall t, on_conn k t = true -> In t (conn_buf s ++ sink_batch s ++ key_buf s) -> In t (toks_of_batches (chans s'))) /\
  (forall t, on_conn k t = false ->
     (In t (conn_buf s') <-> In t (conn_buf s)) /\ (In t (sink_batch s') <-> In t (sink_batch s)) /\
     (In t (key_buf s') <-> In t (key_buf s))) /\
  (forall t, In t (toks_of_batches (chans s)) -> In t (toks_of_batches (chans s'))).
Proof.
  intros k s. cbv zeta. rewrite faithful_end_closed_form. unfold faithful_end_raw, set_in.
  cbn [phase open_conns ingested conn_buf sink_batch key_buf chans hand cur lastid pipes pph cph queue fhand window
       leftovers unacked files acked dropped filtered lost received].
  unfold offc.
  rewrite toks_of_batches_app, singleton_batches_toks.
  split; [|split; [|split]].
  - intros t Ht.
    assert (N : forall l, ~ In t (filter (fun x => negb (on_conn k x)) l)).
    { intros l Hin. apply filter_In in Hin. destruct Hin as [_ Hin]. rewrite Ht in Hin. discriminate. }
    repeat split; apply N.
  - intros t Ht Hin. rewrite !in_app_iff in *. right. rewrite !filter_In. tauto.
  - intros t Ht.
    assert (N : forall l, In t (filter (fun x => negb (on_conn k x)) l) <-> In t l).
    { intros l. rewrite filter_In, Ht. cbn. tauto. }
    repeat split; apply N.
  - intros t Ht. rewrite in_app_iff. left. assumption.
Qed.

(* ---------- runs of the faithful agent are runs of Model/System.v ---------- *)

Lemma vstep_faithful_step : forall s ve s',
  aux s -> vstep faithful s ve = Some s' -> step s (erase ve) = Some s'.
Proof.
  intros s ve s' Ha H. destruct ve as [e|k]; cbn [vstep erase] in *.
  - destruct e; try exact H.
    destruct (mem_nat k (open_conns s)) eqn:M; [|discriminate].
    inversion H; subst. cbn [peer_path faithful]. apply faithful_end_refines; [apply (aB1 _ Ha)|assumption].
  - destruct (mem_nat k (open_conns s)) eqn:M; [|discriminate]. cbn [andb] in H.
    destruct (gphase_eqb (phase s) Stopping); [|discriminate].
    inversion H; subst. cbn [stop_path faithful]. apply faithful_end_refines; [apply (aB1 _ Ha)|assumption].
Qed.

Lemma vsteps_faithful_steps : forall ves s s',
  aux s -> vsteps faithful s ves = Some s' -> steps s (map erase ves) = Some s'.
Proof.
  induction ves as [|ve ves IH]; intros s s' Ha H; cbn in *; [assumption|].
  destruct (vstep faithful s ve) as [s1|] eqn:E; [|discriminate].
  rewrite (vstep_faithful_step _ _ _ Ha E). apply IH; [|assumption].
  eapply aux_step; [exact Ha|]. eapply vstep_faithful_step; eassumption.
Qed.

(* ... and every run of Model/System.v is a run of the faithful agent (all its connection endings on the peer path) *)
Lemma steps_vsteps_faithful : forall es s s',
  aux s -> steps s es = Some s' -> vsteps faithful s (map VE es) = Some s'.
Proof.
  induction es as [|e es IH]; intros s s' Ha H; [cbn in *; assumption|].
  cbn [steps] in H. cbn [map vsteps].
  destruct (step s e) as [s1|] eqn:E; [|discriminate].
  assert (V : vstep faithful s (VE e) = Some s1).
  { destruct e; try exact E. cbn [vstep]. cbn [step] in E.
    destruct (mem_nat k (open_conns s)) eqn:M; [|discriminate].
    cbn [peer_path faithful]. rewrite <- (faithful_end_refines k s (aB1 _ Ha) M). cbn [step]. rewrite M. exact E. }
  rewrite V. apply IH; [eapply aux_step; eauto|assumption].
Qed.

(* the theorems of the property, for the agent with the code-order endings *)

Lemma conn_end_conservation : forall ves s, vsteps faithful init ves = Some s ->
  (forall t, In t (ingested s) -> In t (anywhere s)) /\
  (forall t, In t (anywhere s) -> In t (ingested s)) /\
  (forall t, In t (ingested s) -> t_keep t = true -> In t (live s)).
Proof. intros ves s H. eapply conservation_lemma. apply vsteps_faithful_steps; [apply aux_init|eassumption]. Qed.

Lemma nil_of_no_elements : forall A (l : list A), (forall x, ~ In x l) -> l = [].
Proof. intros A [|x l] H; [reflexivity|]. exfalso. apply (H x). left. reflexivity. Qed.

(* at every Stopped state the line readers, the batches and the per-key buffers of ALL connections are empty *)
Lemma conn_end_stopped_batches_empty : forall ves s, vsteps faithful init ves = Some s -> phase s = Stopped ->
  conn_buf s = [] /\ sink_batch s = [] /\ key_buf s = [] /\ open_conns s = [].
Proof.
  intros ves s H HP. pose proof (vsteps_faithful_steps _ _ _ aux_init H) as R.
  pose proof (stopped_quiescent _ _ R HP) as Q.
  pose proof (aux_steps _ _ _ aux_init R) as Ha.
  assert (T : forall t, ~ In t (transit s)) by exact Q.
  unfold transit in T.
  repeat split.
  - apply nil_of_no_elements. intros t Ht. apply (T t). rewrite !in_app_iff. tauto.
  - apply nil_of_no_elements. intros t Ht. apply (T t). rewrite !in_app_iff. tauto.
  - apply nil_of_no_elements. intros t Ht. apply (T t). rewrite !in_app_iff. tauto.
  - apply (aD _ Ha). right. assumption.
Qed.

Lemma conn_end_at_least_once : forall ves s,
  vsteps faithful init ves = Some s -> vno_timeout ves = true -> phase s = Stopped ->
  forall t, In t (ingested s) -> t_keep t = true ->
    In t (toks_of_chunks (acked s)) \/ In t (toks_of_chunks (files s)) \/ In t (toks_of_chunks (dropped s)).
Proof.
  intros ves s H N HP. eapply at_least_once_lemma; [|exact N|exact HP].
  apply vsteps_faithful_steps; [apply aux_init|assumption].
Qed.

(* ---------- the variants ---------- *)

(* a variant whose PEER path is the faithful program behaves like Model/System.v on every run in which no
   connection is closed by the stop request — which is why scenarios whose connections have all been closed (or
   flushed) before the stop cannot see the seeded change *)
Lemma peer_faithful_blind : forall v, peer_path v = faithful_prog ->
  forall ves s s', aux s -> no_stop_end ves = true -> vsteps v s ves = Some s' -> steps s (map erase ves) = Some s'.
Proof.
  intros v HP. induction ves as [|ve ves IH]; intros s s' Ha N H; cbn in *; [assumption|].
  apply andb_true_iff in N. destruct N as [N1 N2].
  destruct (vstep v s ve) as [s1|] eqn:E; [|discriminate].
  assert (S1 : step s (erase ve) = Some s1).
  { destruct ve as [e|k]; [|discriminate N1]. cbn [erase]. cbn [vstep] in E.
    destruct e; try exact E.
    destruct (mem_nat k (open_conns s)) eqn:M; [|discriminate].
    inversion E; subst. rewrite HP. apply faithful_end_refines; [apply (aB1 _ Ha)|assumption]. }
  rewrite S1. apply IH; [eapply aux_step; eauto|assumption|assumption].
Qed.

Definition witness_tok : tok := mkTok 0 0 1 true 7%N.

(* one record read on a connection that is still open when the agent is stopped; nothing else happens *)
Definition witness_run : list vevent :=
  [VE (EConnOpen 0); VE (EIngest witness_tok); VE EStopReq; VConnEndStop 0; VE EInputsStopped; VE EStopped].

(* two records: the first one is already in the batch (the line reader has seen the start of the second) *)
Definition witness_run2 : list vevent :=
  [VE (EConnOpen 0); VE (EIngest witness_tok); VE (EIngest (mkTok 0 1 1 true 8%N)); VE (EFrame 0);
   VE EStopReq; VConnEndStop 0; VE EInputsStopped; VE EStopped].

Definition loses (v : end_variant) (ves : list vevent) : Prop :=
  exists s t, vsteps v init ves = Some s /\ vno_timeout ves = true /\ phase s = Stopped /\
              In t (ingested s) /\ t_keep t = true /\ ~ In t (safe s) /\ ~ In t (anywhere s).

Lemma not_in_by_compute : forall t l, in_toks t l = false -> ~ In t l.
Proof.
  intros t l H Hin. unfold in_toks in H.
  assert (X : existsb (tok_eqb t) l = true); [|congruence].
  apply existsb_exists. exists t. split; [assumption|apply tok_eqb_eq; reflexivity].
Qed.

(* the seeded change (no final Flush on the stop path): the record is read, never handed on, nowhere afterwards *)
Lemma no_flush_on_stop_loses : loses no_flush_on_stop witness_run.
Proof.
  destruct (vsteps no_flush_on_stop init witness_run) as [s0|] eqn:E; [|vm_compute in E; discriminate].
  assert (E' := E). vm_compute in E'. inversion E'. subst s0. clear E'.
  match goal with |- loses _ _ => unfold loses end.
  eexists. exists witness_tok.
  split; [exact E|].
  split; [vm_compute; reflexivity|].
  split; [reflexivity|].
  split; [left; reflexivity|].
  split; [reflexivity|].
  split; apply not_in_by_compute; vm_compute; reflexivity.
Qed.

Lemma no_flush_on_stop_loses_batched : loses no_flush_on_stop witness_run2.
Proof.
  destruct (vsteps no_flush_on_stop init witness_run2) as [s0|] eqn:E; [|vm_compute in E; discriminate].
  assert (E' := E). vm_compute in E'. inversion E'. subst s0. clear E'.
  unfold loses. eexists. exists witness_tok.
  split; [exact E|].
  split; [vm_compute; reflexivity|].
  split; [reflexivity|].
  split; [right; left; reflexivity|].
  split; [reflexivity|].
  split; apply not_in_by_compute; vm_compute; reflexivity.
Qed.

Lemma no_flush_all_on_stop_loses : loses no_flush_all_on_stop witness_run.
Proof.
  destruct (vsteps no_flush_all_on_stop init witness_run) as [s0|] eqn:E; [|vm_compute in E; discriminate].
  assert (E' := E). vm_compute in E'. inversion E'. subst s0. clear E'.
  unfold loses. eexists. exists witness_tok.
  split; [exact E|].
  split; [vm_compute; reflexivity|].
  split; [reflexivity|].
  split; [left; reflexivity|].
  split; [reflexivity|].
  split; apply not_in_by_compute; vm_compute; reflexivity.
Qed.

Lemma flush_before_flush_all_loses : loses flush_before_flush_all witness_run.
Proof.
  destruct (vsteps flush_before_flush_all init witness_run) as [s0|] eqn:E; [|vm_compute in E; discriminate].
  assert (E' := E). vm_compute in E'. inversion E'. subst s0. clear E'.
  unfold loses. eexists. exists witness_tok.
  split; [exact E|].
  split; [vm_compute; reflexivity|].
  split; [reflexivity|].
  split; [left; reflexivity|].
  split; [reflexivity|].
  split; apply not_in_by_compute; vm_compute; reflexivity.
Qed.

(* the faithful agent on the same events: the final Flush has created the record's pipeline, so [EStopped] is
   refused until that pipeline has shut down; with the pipeline's shutdown events the run is accepted and the record
   is in a queue file *)
Definition witness_run_faithful : list vevent :=
  [VE (EConnOpen 0); VE (EIngest witness_tok); VE EStopReq; VConnEndStop 0; VE EInputsStopped;
   VE (EWorkerTake 1); VE (EWorkerStep 1); VE (EWorkerStop 1 1 AMem); VE (EDestroy 1); VE (EFeederBreak 1);
   VE (ESave 1 WQueue true); VE (EClientStop 1); VE (EClientDone 1); VE (EFeederEnd 1); VE EStopped].

Lemma faithful_witness : vsteps faithful init witness_run = None /\
  exists s, vsteps faithful init witness_run_faithful = Some s /\ phase s = Stopped /\
            In witness_tok (toks_of_chunks (files s)).
Proof.
  split; [vm_compute; reflexivity|].
  destruct (vsteps faithful init witness_run_faithful) as [s0|] eqn:E; [|vm_compute in E; discriminate].
  assert (E' := E). vm_compute in E'. inversion E'. subst s0. clear E'.
  eexists. split; [exact E|]. split; [reflexivity|]. cbn. left. reflexivity.
Qed.

(* ---------- the executable scenario runner (kind 3) is a run of the agent ---------- *)

Lemma try_ev_sound : forall v s0 acc mk,
  vsteps v s0 (rev (snd acc)) = Some (fst acc) ->
  vsteps v s0 (rev (snd (try_ev v acc mk))) = Some (fst (try_ev v acc mk)).
Proof.
  intros v s0 [s l] mk H. unfold try_ev. cbn [fst snd] in *.
  destruct (is_flush_timeout (erase (mk s))); [assumption|].
  destruct (vstep v s (mk s)) as [s'|] eqn:E; cbn [fst snd]; [|assumption].
  cbn [rev]. clear -H E. revert s0 H. induction (rev l) as [|x r IH]; intros s0 H; cbn in *.
  - inversion H; subst. rewrite E. reflexivity.
  - destruct (vstep v s0 x) as [s1|]; [|discriminate]. apply IH. assumption.
Qed.

Lemma try_all_sound : forall v s0 mks acc,
  vsteps v s0 (rev (snd acc)) = Some (fst acc) ->
  vsteps v s0 (rev (snd (try_all v acc mks))) = Some (fst (try_all v acc mks)).
Proof.
  intros v s0. induction mks as [|mk mks IH]; intros acc H; cbn; [assumption|].
  apply IH. apply try_ev_sound. assumption.
Qed.

Lemma drain_sound : forall v s0 fuel acc,
  vsteps v s0 (rev (snd acc)) = Some (fst acc) ->
  vsteps v s0 (rev (snd (drain v fuel acc))) = Some (fst (drain v fuel acc)).
Proof.
  intros v s0. induction fuel as [|f IH]; intros acc H; cbn [drain]; [assumption|].
  pose proof (try_all_sound v s0 (drain_candidates (fst acc)) acc H) as H1.
  destruct (Nat.eqb _ _); [assumption|]. apply IH. assumption.
Qed.

Lemma run_stop_scenario_sound : forall v c,
  vsteps v init (rev (snd (run_stop_scenario v c))) = Some (fst (run_stop_scenario v c)).
Proof.
  intros. unfold run_stop_scenario. apply drain_sound. apply try_all_sound. reflexivity.
Qed.

Definition ev_ok (ve : vevent) : bool := negb (is_flush_timeout (erase ve)).

Lemma vno_timeout_forallb : forall l, vno_timeout l = forallb ev_ok l.
Proof.
  unfold vno_timeout, no_timeout. induction l as [|x l IH]; cbn; [reflexivity|]. rewrite IH. reflexivity.
Qed.

Lemma try_ev_ok : forall v acc mk, forallb ev_ok (snd acc) = true -> forallb ev_ok (snd (try_ev v acc mk)) = true.
Proof.
  intros v [s l] mk H. unfold try_ev. cbn [fst snd] in *.
  destruct (is_flush_timeout (erase (mk s))) eqn:T; [assumption|].
  destruct (vstep v s (mk s)); cbn [snd]; [|assumption].
  cbn [forallb]. unfold ev_ok at 1. rewrite T, H. reflexivity.
Qed.

Lemma try_all_ok : forall v mks acc, forallb ev_ok (snd acc) = true -> forallb ev_ok (snd (try_all v acc mks)) = true.
Proof.
  intros v. induction mks as [|mk mks IH]; intros acc H; cbn; [assumption|]. apply IH. apply try_ev_ok. assumption.
Qed.

Lemma drain_ok : forall v fuel acc, forallb ev_ok (snd acc) = true -> forallb ev_ok (snd (drain v fuel acc)) = true.
Proof.
  intros v. induction fuel as [|f IH]; intros acc H; cbn [drain]; [assumption|].
  pose proof (try_all_ok v (drain_candidates (fst acc)) acc H) as H1.
  destruct (Nat.eqb _ _); [assumption|]. apply IH. assumption.
Qed.

Lemma run_stop_scenario_no_timeout : forall v c, vno_timeout (rev (snd (run_stop_scenario v c))) = true.
Proof.
  intros. rewrite vno_timeout_forallb. apply forallb_forall. intros x Hx. apply in_rev in Hx.
  assert (A : forallb ev_ok (snd (run_stop_scenario v c)) = true).
  { unfold run_stop_scenario. apply drain_ok. apply try_all_ok. reflexivity. }
  rewrite forallb_forall in A. apply A. assumption.
Qed.

(* whatever the case line: if the model's scenario run reaches Stopped, every kept record it has read is in an
   acknowledged chunk, a queue file or a counted-dropped chunk — the prediction printed for kind 3 is a consequence
   of the theorem, not a separate computation to be trusted *)
Lemma stop_scenario_alo : forall c,
  let s := fst (run_stop_scenario faithful c) in
  phase s = Stopped ->
  forall t, In t (ingested s) -> t_keep t = true ->
    In t (toks_of_chunks (acked s)) \/ In t (toks_of_chunks (files s)) \/ In t (toks_of_chunks (dropped s)).
Proof.
  intros c s HP. eapply conn_end_at_least_once; [apply run_stop_scenario_sound|apply run_stop_scenario_no_timeout|exact HP].
Qed.
