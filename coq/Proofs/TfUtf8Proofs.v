(* C15: facts about the UTF-8 clean-up used by truncate (Model/TfUtf8.v) against the grammar
   of Spec/TfUtf8Spec.v. *)
From SV Require Import Model.Common Model.TfUtf8 Spec.TfUtf8Spec.
From Coq Require Import Lia ZifyBool ZifyN ZifyNat.
Ltac Zify.zify_post_hook ::= Z.div_mod_to_equations.
Open Scope N_scope.

Lemma in_rng_true : forall lo hi b, in_rng lo hi b = true <-> lo <= b <= hi.
Proof. intros. unfold in_rng. lia. Qed.

Lemma in_rng_false : forall lo hi b, in_rng lo hi b = false <-> ~ (lo <= b <= hi).
Proof. intros. unfold in_rng. lia. Qed.

Ltac rng :=
  repeat match goal with
  | H : in_rng _ _ _ = true |- _ => apply in_rng_true in H
  | H : in_rng _ _ _ = false |- _ => apply in_rng_false in H
  | H : (_ && _)%bool = true |- _ => apply andb_true_iff in H; destruct H
  | H : (_ || _)%bool = true |- _ => apply orb_true_iff in H
  end.

(* ---------- the decoder accepts exactly the grammar ---------- *)

Lemma rune_width_seq : forall s t, utf8_seq s -> rune_width (s ++ t) = Some (length s).
Proof.
  intros s t H. unfold cont in *.
  destruct H; unfold rune_width, seq_tail, conts, cont in *; cbn [app length];
  repeat match goal with
  | |- context [?a <? ?b] => let E := fresh in destruct (a <? b) eqn:E; [try lia|]
  | |- context [?a =? ?b] => let E := fresh in destruct (a =? b) eqn:E; try lia
  | |- context [in_rng ?a ?b ?c] => let E := fresh in destruct (in_rng a b c) eqn:E; rng; try lia; cbn [andb orb]
  end; try reflexivity; try lia.
Qed.

Lemma rune_width_sound : forall x w, rune_width x = Some w ->
  utf8_seq (firstn w x) /\ (1 <= w <= length x)%nat.
Proof.
  intros x w H. destruct x as [|b0 t]; [discriminate|].
  unfold rune_width in H.
  destruct (b0 <? 128) eqn:E0.
  { inversion H; subst. cbn. split; [constructor; lia | lia]. }
  destruct (in_rng 194 223 b0) eqn:E1.
  { unfold seq_tail in H. destruct t as [|b1 t]; [discriminate|].
    destruct (in_rng 128 191 b1 && conts 0 t)%bool eqn:E; [|discriminate].
    inversion H; subst. rng. cbn. split; [constructor; unfold cont; lia | lia]. }
  destruct (b0 =? 224) eqn:E2.
  { unfold seq_tail, conts in H. destruct t as [|b1 [|b2 t]]; try discriminate;
      try (rewrite andb_false_r in H; discriminate).
    destruct (in_rng 160 191 b1 && (in_rng 128 191 b2 && true))%bool eqn:E; [|discriminate].
    inversion H; subst. rng. assert (b0 = 224) by lia. subst. cbn. split; [constructor; unfold cont; lia | lia]. }
  destruct (in_rng 225 236 b0 || in_rng 238 239 b0)%bool eqn:E3.
  { unfold seq_tail, conts in H. destruct t as [|b1 [|b2 t]]; try discriminate;
      try (rewrite andb_false_r in H; discriminate).
    destruct (in_rng 128 191 b1 && (in_rng 128 191 b2 && true))%bool eqn:E; [|discriminate].
    inversion H; subst. rng. cbn. split; [|lia].
    apply U3b; unfold cont; try lia. destruct E3; rng; lia. }
  destruct (b0 =? 237) eqn:E4.
  { unfold seq_tail, conts in H. destruct t as [|b1 [|b2 t]]; try discriminate;
      try (rewrite andb_false_r in H; discriminate).
    destruct (in_rng 128 159 b1 && (in_rng 128 191 b2 && true))%bool eqn:E; [|discriminate].
    inversion H; subst. rng. assert (b0 = 237) by lia. subst. cbn. split; [constructor; unfold cont; lia | lia]. }
  destruct (b0 =? 240) eqn:E5.
  { unfold seq_tail, conts in H. destruct t as [|b1 [|b2 [|b3 t]]]; try discriminate;
      try (rewrite ?andb_false_r in H; discriminate).
    destruct (in_rng 144 191 b1 && (in_rng 128 191 b2 && (in_rng 128 191 b3 && true)))%bool eqn:E; [|discriminate].
    inversion H; subst. rng. assert (b0 = 240) by lia. subst. cbn. split; [constructor; unfold cont; lia | lia]. }
  destruct (in_rng 241 243 b0) eqn:E6.
  { unfold seq_tail, conts in H. destruct t as [|b1 [|b2 [|b3 t]]]; try discriminate;
      try (rewrite ?andb_false_r in H; discriminate).
    destruct (in_rng 128 191 b1 && (in_rng 128 191 b2 && (in_rng 128 191 b3 && true)))%bool eqn:E; [|discriminate].
    inversion H; subst. rng. cbn. split; [constructor; unfold cont; lia | lia]. }
  destruct (b0 =? 244) eqn:E7; [|discriminate].
  { unfold seq_tail, conts in H. destruct t as [|b1 [|b2 [|b3 t]]]; try discriminate;
      try (rewrite ?andb_false_r in H; discriminate).
    destruct (in_rng 128 143 b1 && (in_rng 128 191 b2 && (in_rng 128 191 b3 && true)))%bool eqn:E; [|discriminate].
    inversion H; subst. rng. assert (b0 = 244) by lia. subst. cbn. split; [constructor; unfold cont; lia | lia]. }
Qed.

(* ---------- strings.ToValidUTF8(s, "") ---------- *)

Lemma to_valid_k_split : forall k s, (k <= length s)%nat ->
  to_valid_k k s = firstn k s ++ to_valid_k 0 (skipn k s).
Proof.
  induction k as [|k IH]; intros s Hk.
  - reflexivity.
  - destruct s as [|b t]; [cbn in Hk; lia|].
    cbn [to_valid_k firstn skipn app]. f_equal. apply IH. cbn in Hk. lia.
Qed.

Lemma to_valid_step_valid : forall s w, rune_width s = Some w ->
  to_valid_k 0 s = firstn w s ++ to_valid_k 0 (skipn w s).
Proof.
  intros s w H. pose proof (rune_width_sound _ _ H) as [_ Hw].
  destruct s as [|b t]; [discriminate|].
  cbn [to_valid_k]. rewrite H. destruct w as [|w]; [lia|].
  cbn [firstn skipn app Nat.sub]. rewrite Nat.sub_0_r. f_equal.
  apply to_valid_k_split. cbn in Hw. lia.
Qed.

Lemma to_valid_step_invalid : forall b t, rune_width (b :: t) = None ->
  to_valid_k 0 (b :: t) = to_valid_k 0 t.
Proof. intros b t H. cbn [to_valid_k]. rewrite H. reflexivity. Qed.

Lemma to_valid_seq_app : forall s t, utf8_seq s -> to_valid_utf8 (s ++ t) = s ++ to_valid_utf8 t.
Proof.
  intros s t H. unfold to_valid_utf8.
  rewrite (to_valid_step_valid _ _ (rune_width_seq s t H)).
  rewrite firstn_app, Nat.sub_diag, firstn_all, firstn_O, app_nil_r.
  rewrite skipn_app, Nat.sub_diag, skipn_all. reflexivity.
Qed.

Lemma to_valid_valid_app : forall w t, valid_utf8 w -> to_valid_utf8 (w ++ t) = w ++ to_valid_utf8 t.
Proof.
  intros w t H. induction H as [|s u Hs Hu IH]; [reflexivity|].
  rewrite <- !app_assoc. rewrite to_valid_seq_app by assumption. rewrite IH. reflexivity.
Qed.

(* a valid string is left alone *)
Lemma to_valid_id : forall w, valid_utf8 w -> to_valid_utf8 w = w.
Proof.
  intros w H. rewrite <- (app_nil_r w) at 1. rewrite to_valid_valid_app by assumption.
  unfold to_valid_utf8. cbn. apply app_nil_r.
Qed.

(* the result is always valid *)
Lemma to_valid_is_valid : forall s, valid_utf8 (to_valid_utf8 s).
Proof.
  intros s. remember (length s) as n eqn:Hn. revert s Hn.
  induction n as [n IH] using lt_wf_ind. intros s Hn.
  destruct s as [|b t]; [constructor|].
  unfold to_valid_utf8 in *.
  destruct (rune_width (b :: t)) as [w|] eqn:E.
  - rewrite (to_valid_step_valid _ _ E).
    destruct (rune_width_sound _ _ E) as [Hseq Hw].
    constructor; [assumption|].
    apply (IH (length (skipn w (b :: t)))); [|reflexivity].
    rewrite skipn_length. subst n. lia.
  - rewrite (to_valid_step_invalid _ _ E). apply (IH (length t)); [subst n; cbn; lia | reflexivity].
Qed.

(* the result is a subsequence: bytes are only deleted, and never more than were there *)
Lemma to_valid_k_length : forall s k, (length (to_valid_k k s) <= length s)%nat.
Proof.
  induction s as [|b t IH]; intros k; [cbn; lia|].
  cbn [to_valid_k]. destruct k as [|k].
  - destruct (rune_width (b :: t)); cbn [length]; [specialize (IH (n - 1)%nat) | specialize (IH 0%nat)]; lia.
  - cbn [length]. specialize (IH k). lia.
Qed.

Lemma to_valid_length : forall s, (length (to_valid_utf8 s) <= length s)%nat.
Proof. intros. apply to_valid_k_length. Qed.

(* ---------- an incomplete trailing sequence is dropped entirely ---------- *)

Ltac split_tests :=
  repeat match goal with
  | |- context [?a <? ?b] => let E := fresh in destruct (a <? b) eqn:E; try lia
  | |- context [?a =? ?b] => let E := fresh in destruct (a =? b) eqn:E; try lia
  | |- context [in_rng ?a ?b ?c] => let E := fresh in destruct (in_rng a b c) eqn:E; rng; try lia; cbn [andb orb]
  end.

Lemma incomplete_all_high : forall r, incomplete_seq r -> Forall (fun b => 128 <= b) r.
Proof.
  intros r [Hne (s & x & Hs & Heq & Hx)]. unfold cont in *.
  destruct Hs; destruct r as [|r0 [|r1 [|r2 [|r3 r]]]]; cbn in Heq; try congruence;
    inversion Heq; subst; try (exfalso; apply Hx; reflexivity);
    repeat constructor; try lia;
    try (destruct x; cbn in *; congruence).
  all: try match goal with H : [] = _ ++ _ |- _ => symmetry in H; apply app_eq_nil in H; destruct H; congruence end.
  all: unfold cont in *; lia.
Qed.

Lemma incomplete_dropped : forall r, incomplete_seq r -> to_valid_utf8 r = [].
Proof.
  intros r [Hne (s & x & Hs & Heq & Hx)]. unfold cont in *.
  destruct Hs; destruct r as [|r0 [|r1 [|r2 [|r3 r]]]]; cbn in Heq; try congruence;
    inversion Heq; subst; try (exfalso; apply Hx; reflexivity);
    try match goal with H : [] = _ ++ _ |- _ => symmetry in H; apply app_eq_nil in H; destruct H; congruence end;
    unfold cont in *; unfold to_valid_utf8, to_valid_k, rune_width, seq_tail, conts; split_tests; reflexivity.
Qed.

(* ---------- findLastEndOfASCII and CleanUTF8 ---------- *)

Lemma flea_le : forall s, (find_last_end_of_ascii s <= length s)%nat.
Proof.
  induction s as [|b t IH]; cbn [find_last_end_of_ascii length]; [lia|].
  destruct (find_last_end_of_ascii t); [destruct (b <=? 127); lia | lia].
Qed.

Lemma flea_app : forall a b,
  find_last_end_of_ascii (a ++ b) =
  match find_last_end_of_ascii b with
  | O => find_last_end_of_ascii a
  | S n => (length a + S n)%nat
  end.
Proof.
  induction a as [|x a IH]; intros b; cbn [app find_last_end_of_ascii length].
  - destruct (find_last_end_of_ascii b); reflexivity.
  - rewrite IH. destruct (find_last_end_of_ascii b); [reflexivity|]. rewrite Nat.add_succ_r. cbn. rewrite Nat.add_succ_r. reflexivity.
Qed.

Lemma flea_high : forall s, Forall (fun b => 128 <= b) s -> find_last_end_of_ascii s = O.
Proof.
  induction 1 as [|b t Hb Ht IH]; [reflexivity|].
  cbn [find_last_end_of_ascii]. rewrite IH. destruct (b <=? 127) eqn:E; [lia|reflexivity].
Qed.

(* everything after the position is non-ASCII *)
Lemma flea_tail_high : forall s, Forall (fun b => 128 <= b) (skipn (find_last_end_of_ascii s) s).
Proof.
  induction s as [|b t IH]; [constructor|].
  cbn [find_last_end_of_ascii]. destruct (find_last_end_of_ascii t) as [|n] eqn:E.
  - destruct (b <=? 127) eqn:Eb; cbn [skipn]; [exact IH|]. constructor; [lia|exact IH].
  - cbn [skipn]. exact IH.
Qed.

(* and the byte just before it (if any) is ASCII *)
Lemma flea_prev_ascii : forall s n, find_last_end_of_ascii s = S n ->
  exists b, nth_error s n = Some b /\ b <= 127.
Proof.
  induction s as [|b t IH]; intros n H; [discriminate|].
  cbn [find_last_end_of_ascii] in H. destruct (find_last_end_of_ascii t) as [|m] eqn:E.
  - destruct (b <=? 127) eqn:Eb; [|discriminate]. inversion H; subst. exists b. split; [reflexivity|lia].
  - inversion H; subst. destruct (IH m eq_refl) as (c & Hc & Hle). exists c. split; assumption.
Qed.

Lemma clean_utf8_eq : forall s,
  clean_utf8 s = Ok (firstn (find_last_end_of_ascii s) s ++ to_valid_utf8 (skipn (find_last_end_of_ascii s) s)).
Proof.
  intros s. destruct s as [|b t]; [reflexivity|].
  unfold clean_utf8. set (x := b :: t). set (e := find_last_end_of_ascii x).
  unfold overwrite_n_truncate. pose proof (flea_le x) as Hle. fold e in Hle.
  destruct (e <=? length x)%nat eqn:E; [|lia].
  f_equal. f_equal. apply firstn_all2.
  pose proof (to_valid_length (skipn e x)) as Hl. rewrite skipn_length in Hl. exact Hl.
Qed.

Lemma clean_utf8_never_panics : forall s, exists r, clean_utf8 s = Ok r.
Proof. intros s. eexists. apply clean_utf8_eq. Qed.

Lemma clean_utf8_length : forall s r, clean_utf8 s = Ok r -> (length r <= length s)%nat.
Proof.
  intros s r H. rewrite clean_utf8_eq in H. inversion H; subst.
  rewrite app_length. pose proof (to_valid_length (skipn (find_last_end_of_ascii s) s)) as Hl.
  rewrite skipn_length in Hl. rewrite firstn_length. pose proof (flea_le s). lia.
Qed.

(* the trailing non-ASCII run of the result is well-formed, the part before it is untouched *)
Lemma clean_utf8_shape : forall s r, clean_utf8 s = Ok r ->
  exists head tail, r = head ++ tail /\ is_prefix_of head s /\ valid_utf8 tail /\
                    Forall (fun b => 128 <= b) tail /\
                    (head = [] \/ exists h b, head = h ++ [b] /\ b <= 127).
Proof.
  intros s r H. rewrite clean_utf8_eq in H. inversion H; subst. clear H.
  set (e := find_last_end_of_ascii s).
  exists (firstn e s), (to_valid_utf8 (skipn e s)). split; [reflexivity|]. split.
  { exists (skipn e s). symmetry. apply firstn_skipn. }
  split; [apply to_valid_is_valid|]. split.
  { pose proof (flea_tail_high s) as Hh. fold e in Hh. revert Hh. generalize (skipn e s). intros l Hl.
    unfold to_valid_utf8. generalize 0%nat. induction Hl as [|b t Hb Ht IH]; intros k; [constructor|].
    cbn [to_valid_k]. destruct k; [destruct (rune_width (b :: t))|]; try (constructor; [assumption|]); apply IH. }
  destruct e as [|n] eqn:E; [left; reflexivity|right].
  destruct (flea_prev_ascii s n E) as (b & Hb & Hle).
  exists (firstn n s), b. split; [|assumption].
  clear -Hb. revert s Hb. induction n as [|n IH]; intros [|x s] Hb; cbn in *; try discriminate.
  - inversion Hb; reflexivity.
  - f_equal. apply IH. assumption.
Qed.

(* the ASCII-delimited suffix of a valid string is valid *)
Lemma seq_high_or_single : forall s, utf8_seq s -> (exists b, s = [b] /\ b <= 127) \/ Forall (fun b => 128 <= b) s.
Proof.
  intros s H. unfold cont in *. destruct H; [left; eexists; split; [reflexivity|assumption]|..];
    right; repeat constructor; unfold cont in *; lia.
Qed.

Lemma valid_after_last_ascii : forall w, valid_utf8 w -> valid_utf8 (skipn (find_last_end_of_ascii w) w).
Proof.
  intros w H. induction H as [|s t Hs Ht IH]; [constructor|].
  rewrite flea_app. destruct (find_last_end_of_ascii t) as [|n] eqn:E.
  - destruct (seq_high_or_single s Hs) as [(b & -> & Hb)|Hh].
    + cbn [find_last_end_of_ascii]. destruct (b <=? 127) eqn:Eb; [|lia]. cbn [app skipn]. exact Ht.
    + rewrite (flea_high s Hh). cbn [skipn]. constructor; assumption.
  - rewrite skipn_app. rewrite skipn_all2 by lia. cbn [app].
    replace (length s + S n - length s)%nat with (S n) by lia. exact IH.
Qed.

(* CleanUTF8 of (valid prefix ++ incomplete trailing sequence) is the valid prefix *)
Lemma clean_valid_incomplete : forall w r, valid_utf8 w -> (r = [] \/ incomplete_seq r) ->
  clean_utf8 (w ++ r) = Ok w.
Proof.
  intros w r Hw Hr. rewrite clean_utf8_eq. f_equal.
  assert (Hh : Forall (fun b => 128 <= b) r).
  { destruct Hr as [->|Hr]; [constructor|apply incomplete_all_high; assumption]. }
  assert (Hd : to_valid_utf8 r = []).
  { destruct Hr as [->|Hr]; [reflexivity|apply incomplete_dropped; assumption]. }
  rewrite flea_app, (flea_high r Hh).
  pose proof (flea_le w) as Hle.
  rewrite firstn_app, skipn_app.
  replace (find_last_end_of_ascii w - length w)%nat with O by lia. cbn [firstn skipn]. rewrite app_nil_r.
  rewrite to_valid_valid_app by (apply valid_after_last_ascii; assumption).
  rewrite Hd, app_nil_r. apply firstn_skipn.
Qed.

(* cutting a valid string anywhere leaves complete sequences and at most one incomplete one *)
Lemma valid_cut : forall v, valid_utf8 v -> forall n,
  exists w r, firstn n v = w ++ r /\ valid_utf8 w /\ (r = [] \/ incomplete_seq r) /\ (length r <= 3)%nat.
Proof.
  intros v H. induction H as [|s t Hs Ht IH]; intros n.
  - exists [], []. rewrite firstn_nil. repeat split; [constructor|left; reflexivity|cbn; lia].
  - destruct (Nat.le_gt_cases (length s) n) as [Hge|Hlt].
    + destruct (IH (n - length s)%nat) as (w & r & Heq & Hw & Hr & Hl).
      exists (s ++ w), r. rewrite firstn_app, Heq, firstn_all2 by lia. rewrite app_assoc.
      repeat split; [constructor; assumption|assumption|assumption].
    + exists [], (firstn n s). rewrite firstn_app. replace (n - length s)%nat with O by lia.
      rewrite firstn_O, app_nil_r. split; [reflexivity|]. split; [constructor|].
      assert (Hls : (length s <= 4)%nat) by (destruct Hs; cbn; lia).
      split; [|rewrite firstn_length; lia].
      destruct n as [|n]; [left; reflexivity|right].
      split; [destruct s; cbn in *; [lia|discriminate]|].
      exists s, (skipn (S n) s). split; [assumption|]. split; [symmetry; apply firstn_skipn|].
      intro Hc. apply (f_equal (@length N)) in Hc. rewrite skipn_length in Hc. cbn in Hc. lia.
Qed.

(* ---------- the cut is the longest well-formed prefix that fits ---------- *)

Lemma valid_cancel : forall w x, valid_utf8 w -> valid_utf8 (w ++ x) -> valid_utf8 x.
Proof.
  intros w x Hw Hwx. pose proof (to_valid_id _ Hwx) as H1.
  rewrite to_valid_valid_app in H1 by assumption. apply app_inv_head in H1.
  rewrite <- H1. apply to_valid_is_valid.
Qed.

Lemma incomplete_prefix : forall r r', incomplete_seq r -> r' <> [] -> is_prefix_of r' r -> incomplete_seq r'.
Proof.
  intros r r' [Hne (s & x & Hs & Heq & Hx)] Hne' [y Hy]. split; [assumption|].
  exists s, (y ++ x). split; [assumption|]. split.
  - rewrite Heq, Hy, <- app_assoc. reflexivity.
  - intro Hc. apply app_eq_nil in Hc. destruct Hc as [_ Hc]. contradiction.
Qed.

Lemma incomplete_not_valid : forall r, incomplete_seq r -> ~ valid_utf8 r.
Proof.
  intros r Hr Hv. pose proof (incomplete_dropped r Hr) as Hd. rewrite (to_valid_id r Hv) in Hd.
  destruct Hr as [Hne _]. contradiction.
Qed.

(* among the prefixes of (w ++ r) with w well formed and r an incomplete sequence, none longer than w is well formed *)
Lemma longest_valid_prefix : forall w r q, valid_utf8 w -> (r = [] \/ incomplete_seq r) ->
  is_prefix_of q (w ++ r) -> valid_utf8 q -> (length q <= length w)%nat.
Proof.
  intros w r q Hw Hr [y Hy] Hq.
  destruct (Nat.le_gt_cases (length q) (length w)) as [|Hgt]; [assumption|exfalso].
  (* q = w ++ r' with r' a non-empty prefix of r *)
  assert (Hq' : q = w ++ firstn (length q - length w) r).
  { assert (H1 : firstn (length q) (w ++ r) = q) by (rewrite Hy, firstn_app, Nat.sub_diag, firstn_all, firstn_O, app_nil_r; reflexivity).
    rewrite firstn_app in H1. rewrite firstn_all2 in H1 by lia. symmetry. exact H1. }
  set (r' := firstn (length q - length w) r) in *.
  assert (Hr'ne : r' <> []).
  { intro Hc. rewrite Hc, app_nil_r in Hq'. subst q. lia. }
  destruct Hr as [->|Hr]; [unfold r' in Hr'ne; rewrite firstn_nil in Hr'ne; congruence|].
  assert (Hinc : incomplete_seq r').
  { apply (incomplete_prefix r r' Hr Hr'ne). exists (skipn (length q - length w) r). symmetry. apply firstn_skipn. }
  apply (incomplete_not_valid r' Hinc). apply (valid_cancel w r' Hw). rewrite <- Hq'. assumption.
Qed.
