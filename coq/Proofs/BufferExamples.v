(* Concrete runs: non-vacuity examples and witnesses for Props/C03.v and Props/C04.v.
   These are evaluations (vm_compute) of the executable model on literals. *)
From SV Require Import Model.Common Model.FileWrite Model.Buffer Model.SpillFaults Spec.BufferSpec
     Proofs.CommonFacts Proofs.FileWriteProofs Proofs.BufferInv Proofs.BufferProofs Proofs.BufferTheorems.
From Coq Require Import Lia Sorting.Sorted.

Definition n_a : name := [97; 46; 102; 102].   (* "a.ff" *)
Definition n_b : name := [98; 46; 102; 102].   (* "b.ff" *)
Definition n_c : name := [99; 46; 102; 102].   (* "c.ff" *)
Definition n_d : name := [100; 46; 102; 102].  (* "d.ff" *)
Definition n_e : name := [101; 46; 102; 102].  (* "e.ff" *)

Lemma dir_sorted_nil' : dir_sorted [].
Proof. constructor. Qed.

Lemma replay_reachable : forall (ops : list rop) s h,
  replay match_ff 4096 0 ops None (init []) 0 = inl (s, h) -> reachable match_ff 4096 s.
Proof.
  intros ops s h H. destruct (accept_sound_lemma match_ff 4096 _ _ _ _ _ _ _ H) as (evs & Hr & _).
  exists [], evs. split; [apply dir_sorted_nil'|exact Hr].
Qed.

(* ---- C03: a generation with all three outcomes ----
   window of 2, queue of 1, 11 bytes of disk: a (3 bytes) goes to the window and is confirmed; b is taken and
   handed back at shutdown (saved: 5 bytes); c (6 bytes) is spilled at once; d and e find the queue full or the
   space limit reached: dropped and counted; at shutdown c is already on disk *)
Definition ex_ops : list event :=
  [ERestart 1 2 11%Z true; ERegister;
   EAccept n_a [1; 2; 3] ws_ok; EAccept n_b [4; 5; 6; 7; 8] ws_ok; EAccept n_c [9; 9; 9; 9; 9; 9] ws_ok;
   EAccept n_d [7] ws_ok; EAccept n_e [8; 8] ws_ok;
   EConsTake; EConsumed 0; EConsTake; EDestroy; ELeftover 0 ws_ok; EConsFinish].

Definition ex_final : option state :=
  match replay match_ff 4096 0 (map ROp ex_ops) None (init []) 0 with inl (s, _) => Some s | inr _ => None end.

Lemma ex_conservation :
  exists s, ex_final = Some s /\ reachable match_ff 4096 s /\ settled s /\
    g_confirmed (st_gh s) = [n_a] /\ g_retained (st_gh s) = [n_b; n_c] /\ g_dropped (st_gh s) = [n_d; n_e] /\
    st_dir s = [(n_b, EFile [4; 5; 6; 7; 8]); (n_c, EFile [9; 9; 9; 9; 9; 9])] /\
    map c_id (taken (st_gh s)) = [n_a; n_b].
Proof.
  destruct (replay match_ff 4096 0 (map ROp ex_ops) None (init []) 0) as [[s h]|i] eqn:E.
  - exists s. split; [unfold ex_final; rewrite E; reflexivity|]. split; [eapply replay_reachable; exact E|].
    vm_compute in E. inversion E; subst s h. vm_compute. repeat split; reflexivity.
  - vm_compute in E. discriminate.
Qed.

(* ---- C03: loaded chunks are not bounded by the window ----
   window of 4; the feeder goroutine does not get to run; six chunks are accepted: all six sit loaded in the queue *)
Definition starved_run : list event :=
  [ERestart 8 4 1000%Z true;
   EAccept n_a [1] ws_ok; EAccept n_b [2] ws_ok; EAccept n_c [3] ws_ok; EAccept n_d [4] ws_ok;
   EAccept [101; 46; 102; 102] [5] ws_ok; EAccept [102; 46; 102; 102] [6] ws_ok].

Lemma ex_memory_witness :
  exists s, run match_ff 4096 (init []) starved_run = Some s /\ st_M s = 4%nat /\ st_win s = [] /\
            loaded_in_buffer s = 6%nat.
Proof. eexists. split; [vm_compute; reflexivity|]. vm_compute. repeat split; reflexivity. Qed.

(* ---- C04: a write that stops after k bytes, at every kind of fault, 3-chunk queue ---- *)

(* killed after 2 of 5 bytes of the middle chunk: after the restart a and nothing else is offered, the
   leftover b.ff.tmp is not recovered; nothing under the name b.ff *)
Definition crash_ops : list event :=
  [ERestart 4 1 1000%Z true; EAccept n_a [1; 2; 3] ws_ok; EAccept n_b [4; 5; 6; 7; 8] (ws_killed 2 2);
   ERestart 4 1 1000%Z true; ERegister; EConsTake; EConsumed 0].

Lemma ex_crash_mid_write :
  exists s h, replay match_ff 4096 0 (map ROp crash_ops) None (init []) 0 = inl (s, h) /\
    dir_get (st_dir s) n_b = None /\ dir_get (st_dir s) (tmp_name n_b) = Some (EFile [4; 5]) /\
    map (fun c => (c_id c, c_data c)) (g_offered (st_gh s)) = [(n_a, Some [1; 2; 3])] /\
    st_queue s = [] /\ st_fpc s = FRecv.
Proof. eexists. eexists. split; [vm_compute; reflexivity|]. vm_compute. repeat split; reflexivity. Qed.

(* short write of 2 of 5 bytes without an error from write(2): reported as an error by WriteFileAt, the chunk is
   dropped and counted, the others go on *)
Definition short_ops : list event :=
  [ERestart 4 1 1000%Z true; ERegister; EAccept n_a [1; 2; 3] ws_ok; EAccept n_b [4; 5; 6; 7; 8] (ws_short 2);
   EAccept n_c [9] ws_ok; EConsTake; EConsumed 0; EConsTake; EConsumed 0].

Lemma ex_short_write :
  exists s h, replay match_ff 4096 0 (map ROp short_ops) None (init []) 0 = inl (s, h) /\
    g_dropped (st_gh s) = [n_b] /\ m_dropped (st_met s) = 1%Z /\ m_ioerr (st_met s) = 1%Z /\
    map (fun c => (c_id c, c_data c)) (taken (st_gh s)) = [(n_a, Some [1; 2; 3]); (n_c, Some [9])] /\
    dir_get (st_dir s) n_b = None /\ dir_get (st_dir s) (tmp_name n_b) = None.
Proof. eexists. eexists. split; [vm_compute; reflexivity|]. vm_compute. repeat split; reflexivity. Qed.

(* a damaged file among the recovered ones: an empty file, a directory and a leftover temporary file do not
   keep the good chunks from being delivered *)
Definition damaged_ops : list event :=
  [ETamper n_a (Some (EFile [1; 2])); ETamper n_b (Some (EFile [])); ETamper n_c (Some EDir);
   ETamper (tmp_name n_c) (Some (EFile [7; 7])); ETamper n_d (Some (EFile [8]));
   ERestart 8 2 1000%Z true; ERegister; EConsTake; EConsumed 0; EConsTake; EConsumed 0].

Lemma ex_damaged_recovery :
  exists s h, replay match_ff 4096 0 (map ROp damaged_ops) None (init []) 0 = inl (s, h) /\
    map (fun c => (c_id c, c_data c)) (taken (st_gh s)) = [(n_a, Some [1; 2]); (n_d, Some [8])] /\
    g_dropped (st_gh s) = [n_b; n_c] /\ m_dropped (st_met s) = 2%Z /\ st_queue s = [].
Proof. eexists. eexists. split; [vm_compute; reflexivity|]. vm_compute. repeat split; reflexivity. Qed.

(* the matcher must reject the temporary names: with a matcher that accepts everything (as the one used by the
   package's own unit tests) the leftover of a crash is recovered and a truncated chunk is offered *)
Definition match_all (n : name) : bool := match n with [] => false | _ => true end.

Lemma ex_permissive_matcher :
  exists s h, replay match_all 4096 0 (map ROp crash_ops) None (init []) 0 = inl (s, h) /\
    map (fun c => (c_id c, c_data c)) (g_offered (st_gh s)) = [(n_a, Some [1; 2; 3]); (tmp_name n_b, Some [4; 5])] /\
    In (n_b, [4; 5; 6; 7; 8]) (st_ever s).
Proof. eexists. eexists. split; [vm_compute; reflexivity|]. vm_compute. split; [reflexivity|]. right. left. reflexivity. Qed.

(* ---- C03: the feeder held at its first load (FIFO), loaded chunks pile up in the queue, then shutdown ----
   "0.ff" is the FIFO; chunks are accepted while the window is empty (all loaded) until the queue of 3 overflows;
   after the release the FIFO chunk is dropped as empty; at Destroy the chunk in the feeder's hand, the queue and
   the window are saved *)
Definition n_0 : name := [48; 46; 102; 102].   (* "0.ff" *)
Definition held_ops : list rop :=
  [RHold n_0 3 2 1000%Z; ROp (EAccept n_a [1] ws_ok); ROp (EAccept n_b [2; 2] ws_ok); ROp (EAccept n_c [3; 3; 3] ws_ok);
   ROp (EAccept n_d [4] ws_ok); RRelease; ROp EDestroy].

Lemma ex_held_feeder :
  exists s h, replay match_ff 4096 0 held_ops None (init []) 0 = inl (s, h) /\ st_fpc s = FStopped /\
    g_dropped (st_gh s) = [n_d; n_0] /\ g_retained (st_gh s) = [n_c; n_a; n_b] /\
    st_dir s = [(n_a, EFile [1]); (n_b, EFile [2; 2]); (n_c, EFile [3; 3; 3])].
Proof. eexists. eexists. split; [vm_compute; reflexivity|]. vm_compute. repeat split; reflexivity. Qed.
