(* C02 — safety invariants of the client LTS, proved by induction over arbitrary event lists:
   structure of the control state, confirm-after-ack, conservation of chunks. *)
From SV Require Import Model.Common Model.Client Proofs.ClientBase.
From Coq Require Import Lia Permutation.

Definition between (p : mpc) : bool :=
  match p with MStart | MConnecting | MRetryWait | MFinal | MDone => true | _ => false end.

Definition ackd (k : nat) (c : chunk) (acks : list (nat * ackres * chunk)) : Prop :=
  exists a nx, In (k, a, nx) acks /\ (a = AId c \/ (a = AEmpty /\ nx = c)).

Record inv1 (s : state) : Prop := {
  i_between : between (pc s) = true -> cur s = None /\ last s = None;
  i_insess : between (pc s) = false -> exists ss, cur s = Some ss;
  i_last : match pc s with
           | MSend _ c | MEnqueue _ c => last s = Some c
           | MResend | MInput | MSoftWait _ => last s = None
           | _ => True end;
  i_lo : match pc s with
         | MInput | MSend FInput _ | MEnqueue FInput _ | MSoftWait _ | MHardWait false _ => lo s = []
         | _ => True end;
  i_sess : forall ss, cur s = Some ss ->
     (s_ended ss = true -> s_unacked ss = Some (s_pending ss) /\ s_apc ss = AEnded) /\
     (s_apc ss = AEnded -> s_ended ss = true) /\
     (match s_apc ss with AReading c | AAcked c => In c (s_pending ss) | _ => True end) /\
     (forall c, In c (s_achan ss ++ s_pending ss) -> In (s_id ss, c) (h_sent s)) /\
     (match pc s with MEnqueue _ c => In (s_id ss, c) (h_sent s) | _ => True end) /\
     (match s_apc ss with AAcked c => ackd (s_id ss) c (h_acks s) | _ => True end);
  i_consumed : forall c, In c (h_consumed s) -> exists k, In (k, c) (h_sent s) /\ ackd k c (h_acks s)
}.

Lemma inv1_init : inv1 init.
Proof. constructor; simpl; intros; try tauto; try discriminate. Qed.


Ltac boolprep :=
  repeat match goal with
  | H : _ && _ = true |- _ => apply andb_prop in H; destruct H
  | H : Nat.eqb _ _ = true |- _ => apply Nat.eqb_eq in H
  | H : N.eqb _ _ = true |- _ => apply N.eqb_eq in H
  | H : mem _ _ = true |- _ => apply mem_In in H
  | H : mem _ _ = false |- _ => apply mem_false in H
  end; subst.

Ltac st_simpl :=
  cbn [pc cur last lo inq h_sent h_acks h_consumed h_handed h_taken h_offered h_finished h_los
       st_main st_sess st_env st_misc st_inq st_opener st_hist h_add_sent h_add_ack h_add_consumed
       h_add_handed h_set_finished h_add_los collect_hard collect_soft after_session between
       s_id s_creq s_achan s_aclosed s_abort s_ended s_unacked s_pending s_apc
       sess_creq sess_set_achan sess_soft sess_abort sess_acker sess_end new_sess] in *.

Ltac use_eqs :=
  repeat match goal with
  | H : pc ?s = _ |- _ => progress rewrite H in *
  | H : cur ?s = Some ?x, H2 : forall ss, cur ?s = Some ss -> _ |- _ => specialize (H2 _ H)
  | H : cur ?s = _ |- _ => progress rewrite H in *
  | H : s_apc ?s = _ |- _ => progress rewrite H in *
  | H : s_achan ?s = _ |- _ => progress rewrite H in *
  | H : lo ?s = _ |- _ => progress rewrite H in *
  | H : inq ?s = _ |- _ => progress rewrite H in *
  end.

Lemma consumed_mono : forall (X : list chunk) (S S' : list (nat * chunk)) (A A' : list (nat * ackres * chunk)),
  (forall c, In c X -> exists k, In (k, c) S /\ ackd k c A) ->
  incl S S' -> (forall k c, ackd k c A -> ackd k c A') ->
  forall c, In c X -> exists k, In (k, c) S' /\ ackd k c A'.
Proof. intros X S S' A A' H HS HA c Hc. destruct (H c Hc) as (k & H1 & H2). exists k. split; auto. Qed.

Lemma ackd_mono : forall k c x l, ackd k c l -> ackd k c (x :: l).
Proof. intros k c x l (a & nx & H & H'). exists a, nx. split; [right; exact H|exact H']. Qed.

Lemma ackd_here_id : forall k c nx l, ackd k c ((k, AId c, nx) :: l).
Proof. intros. exists (AId c), nx. split; [left; reflexivity|left; reflexivity]. Qed.

Lemma ackd_here_empty : forall k c l, ackd k c ((k, AEmpty, c) :: l).
Proof. intros. exists AEmpty, c. split; [left; reflexivity|right; split; reflexivity]. Qed.

Ltac sess_intro :=
  match goal with
  | |- forall ss, Some _ = Some ss -> _ => let E := fresh in intros ? E; inversion E; subst; clear E; st_simpl
  | _ => idtac
  end.

Ltac fin0 :=
  solve [ intuition (try congruence; try discriminate;
                     eauto 6 using ackd_mono, ackd_here_id, ackd_here_empty, in_cons, in_eq, in_or_app) ].
Ltac inprep :=
  repeat (rewrite in_app_iff in * || rewrite padd_In in * || rewrite pdel_In in *); simpl In in *.
Ltac fin :=
  first
  [ fin0
  | solve [ eapply consumed_mono; [eassumption | intros ? ?; simpl; auto | intros; eauto using ackd_mono] ]
  | solve [ repeat (split; intros); inprep; fin0 ] ].

Lemma inv1_step : forall P s e s', inv1 s -> step P s e = Some s' -> inv1 s'.
Proof.
  intros P s e s' Hi Hs.
  destruct e; step_inv Hs.
  all: destruct Hi as [Hb Hin Hl Hlo Hss Hc].
  all: boolprep; constructor; st_simpl; use_eqs; st_simpl; sess_intro; use_eqs.
  all: try fin.
  all: try (destruct p; st_simpl; fin).
  all: try (intros c' [<-|Hc']; [|solve [eauto]];
            match goal with H : cur _ = Some ?x |- _ => exists (s_id x) end;
            solve [intuition eauto using in_or_app]).
Qed.

Lemma inv1_reach : forall P s, reach P s -> inv1 s.
Proof. intros P. apply reach_ind; [exact inv1_init|]. intros s e s' _ Hi Hs. eapply inv1_step; eauto. Qed.


Local Open Scope nat_scope.
(* ---------- counting ---------- *)
Definition cnt (x : chunk) (l : list chunk) : nat := count_occ N.eq_dec l x.
Definition one (c x : chunk) : nat := if N.eq_dec c x then 1 else 0.

Lemma cnt_app : forall x l m, cnt x (l ++ m) = cnt x l + cnt x m.
Proof. intros. apply count_occ_app. Qed.
Lemma cnt_cons : forall x c l, cnt x (c :: l) = one c x + cnt x l.
Proof. intros. unfold cnt, one. simpl. destruct (N.eq_dec c x); reflexivity. Qed.
Lemma cnt_nil : forall x, cnt x [] = 0.
Proof. reflexivity. Qed.
Lemma perm_cnt : forall l m, Permutation l m <-> forall x, cnt x l = cnt x m.
Proof. intros. apply (Permutation_count_occ N.eq_dec). Qed.
Lemma nodup_cnt : forall l, NoDup l <-> forall x, cnt x l <= 1.
Proof. intros. apply (NoDup_count_occ N.eq_dec). Qed.
Lemma cnt_In : forall x l, In x l <-> cnt x l > 0.
Proof. intros. apply (count_occ_In N.eq_dec). Qed.

Lemma cnt_padd : forall x c l, cnt c l = 0 -> cnt x (padd c l) = one c x + cnt x l.
Proof.
  intros x c l H. unfold padd. destruct (mem c l) eqn:E.
  - apply mem_In in E. apply cnt_In in E. lia.
  - apply cnt_cons.
Qed.

Lemma cnt_pdel : forall x c l, cnt x (pdel c l) = if N.eq_dec c x then 0 else cnt x l.
Proof.
  intros x c l. unfold cnt, pdel. induction l as [|a l IH]; simpl.
  - destruct (N.eq_dec c x); reflexivity.
  - destruct (N.eqb_spec c a); simpl.
    + subst a. rewrite IH. destruct (N.eq_dec c x); reflexivity.
    + rewrite IH. destruct (N.eq_dec a x); destruct (N.eq_dec c x); try reflexivity. congruence.
Qed.

Lemma cnt_rev : forall x l, cnt x (rev l) = cnt x l.
Proof. intros. apply perm_cnt. symmetry. apply Permutation_rev. Qed.

Lemma cnt_new_leftovers : forall l, (forall x, cnt x l <= 1) -> forall x, cnt x (new_leftovers l) = cnt x l.
Proof. intros l H. apply perm_cnt. apply new_leftovers_perm. apply nodup_cnt. exact H. Qed.

Lemma one_le : forall c x, one c x <= 1.
Proof. intros. unfold one. destruct (N.eq_dec c x); lia. Qed.
Lemma one_refl : forall c, one c c = 1.
Proof. intros. unfold one. destruct (N.eq_dec c c); congruence. Qed.

(* ---------- the conservation invariant ---------- *)

Definition conserved (s : state) : Prop :=
  forall x, cnt x (h_taken s) = cnt x (h_consumed s) + cnt x (h_handed s) + cnt x (holdings s).

Record inv2 (s : state) : Prop := {
  j_offered : h_offered s = rev (inq s) ++ h_taken s;
  j_fin : (h_finished s = true -> pc s = MDone) /\ (pc s = MDone -> lo s = []);
  j_cons : NoDup (h_offered s) -> conserved s
}.

Lemma inv2_init : inv2 init.
Proof. constructor; simpl; intros; try split; intros; try discriminate; try reflexivity. Qed.

Ltac hold_simpl := unfold conserved, holdings, sess_holdings, merged in *; st_simpl.

Lemma taken_nodup : forall s, h_offered s = rev (inq s) ++ h_taken s -> NoDup (h_offered s) ->
  forall x, cnt x (h_taken s) <= 1.
Proof.
  intros s Ho Hn x. rewrite Ho in Hn. pose proof (proj1 (nodup_cnt _) Hn x) as H. rewrite cnt_app in H. lia.
Qed.

Ltac use_eqs2 :=
  repeat match goal with
  | H : pc ?s = _ |- _ => progress rewrite H in *
  | H : cur ?s = Some ?x, H2 : forall ss, cur ?s = Some ss -> _ |- _ => specialize (H2 _ H)
  | H : cur ?s = _ |- _ => progress rewrite H in *
  | H : s_apc ?s = _ |- _ => progress rewrite H in *
  | H : s_achan ?s = _ |- _ => progress rewrite H in *
  | H : s_unacked ?s = _ |- _ => progress rewrite H in *
  | H : lo ?s = _ |- _ => progress rewrite H in *
  | H : inq ?s = _ |- _ => progress rewrite H in *
  | H : last ?s = _ |- _ => progress rewrite H in *
  end.

Ltac cnt_norm := repeat (rewrite cnt_app in * || rewrite cnt_cons in * || rewrite cnt_nil in * || rewrite one_refl in * ).

Lemma inv2_step : forall P s e s', inv1 s -> inv2 s -> e <> EBugTimeout -> step P s e = Some s' -> inv2 s'.
Proof.
  intros P s e s' Hi Hj Hne Hs.
  destruct e; try congruence; step_inv Hs.
  all: try assumption.
  all: destruct Hj as [Jo Jf Jc].
  all: destruct Hi as [Hb Hin Hl Hlo Hss Hc]; clear Hc.
  all: assert (Ht : NoDup (h_offered s) -> forall x, cnt x (h_taken s) <= 1) by (apply taken_nodup; exact Jo).
  all: boolprep; constructor; st_simpl; use_eqs2; st_simpl.
  all: try solve [intuition (try congruence; try discriminate)].
  all: try solve [rewrite Jo; simpl; rewrite ?rev_app_distr; simpl; rewrite <- ?app_assoc; reflexivity].
  all: try solve [destruct p; st_simpl; intuition (try congruence; try discriminate)].
  all: try (intro Hnd;
            assert (Hnd0 : NoDup (h_offered s)) by (first [exact Hnd | inversion Hnd; assumption]);
            specialize (Ht Hnd0); specialize (Jc Hnd0);
            hold_simpl; use_eqs2; st_simpl; try (destruct Hb as [Hb1 Hb2]; [reflexivity|]); use_eqs2; st_simpl;
            try match goal with
                | |- context [match cur ?s with _ => _ end] => destruct (cur s) eqn:?
                | H : context [match cur ?s with _ => _ end] |- _ => destruct (cur s) eqn:?
                end; cbn [opt_list] in *;
            try solve [intro x; specialize (Jc x); cnt_norm; lia]).
  - (* EConsumed *)
    destruct Hss as (_ & _ & Hin' & _). apply cnt_In in Hin'.
    intro x. pose proof (Jc x) as J. pose proof (Ht x) as T. cnt_norm. rewrite cnt_pdel.
    unfold one in *. destruct (N.eq_dec c0 x); [subst x|]; lia.
  - (* ECollected *)
    destruct Hss as (Hend & _).
    match goal with H : s_ended _ = true |- _ => destruct (Hend H) as [Hu _] end.
    inversion Hu; subst l.
    intro x. cnt_norm. rewrite cnt_new_leftovers.
    + specialize (Jc x). destruct prev; [|rewrite Hlo in Jc]; cnt_norm; lia.
    + intro y. specialize (Jc y). specialize (Ht y). destruct prev; [|rewrite Hlo in Jc]; cnt_norm; lia.
  - (* EAckerTake *)
    intro x. pose proof (Jc x) as J. cnt_norm. rewrite cnt_padd; [lia|].
    specialize (Jc c0). specialize (Ht c0). cnt_norm. lia.
Qed.

(* runs inside the connection contract: the acknowledger always ends within the wait of collectLeftovers
   (Close makes pending operations return, callbacks return), i.e. the "BUG: timeout" branch is not taken *)
Definition contract (tr : list event) : Prop := ~ In EBugTimeout tr.

Lemma inv2_reach : forall P tr s, reach_by P tr s -> contract tr -> inv2 s.
Proof.
  intros P tr s Hr. revert tr s Hr.
  apply (reach_by_ind P (fun tr s => contract tr -> inv2 s)).
  - intros _. exact inv2_init.
  - intros tr s e s' Hr IH Hs Hc.
    assert (contract tr /\ e <> EBugTimeout) as [Hc1 Hc2].
    { unfold contract in *. split; intro H; apply Hc; apply in_or_app; [left; exact H|right; left; auto]. }
    eapply inv2_step; eauto. eapply inv1_reach. exists tr. exact Hr.
Qed.

Lemma resolved_exactly_once_lemma : forall P tr s,
  reach_by P tr s -> contract tr -> NoDup (h_offered s) ->
  Permutation (h_taken s) (h_consumed s ++ h_handed s ++ holdings s) /\
  (h_finished s = true -> holdings s = []).
Proof.
  intros P tr s Hr Hc Hn. pose proof (inv2_reach P tr s Hr Hc) as [Jo [Jf1 Jf2] Jc].
  split.
  - apply perm_cnt. intro x. rewrite (Jc Hn x). rewrite !cnt_app. lia.
  - intro Hf. pose proof (Jf1 Hf) as Hpc. pose proof (Jf2 Hpc) as Hlo.
    assert (Hi : inv1 s) by (eapply inv1_reach; exists tr; exact Hr).
    destruct (i_between s Hi) as [Hcur Hlast]; [rewrite Hpc; reflexivity|].
    unfold holdings. rewrite Hlo, Hcur, Hlast. reflexivity.
Qed.
