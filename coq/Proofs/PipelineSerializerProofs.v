(* C07: the repaired SerializeRecord never panics and always emits the complete event.
   maxEncodedLength is an upper bound of the length of C10's [encode_spec]; with a buffer longer than the event
   C10's [encode_buf_spec_lemma] applies - nothing about the encoder is proved again. *)
From SV Require Import Model.Common Model.Msgpack Model.Unescape Model.Serializer Model.PipelineSerializer
     Spec.MsgpackSpec Spec.SerializerSpec Proofs.CommonFacts Proofs.MsgpackProofs Proofs.UnescapeProofs
     Proofs.SerializerProofs.
From Coq Require Import Lia ZifyBool ZifyN ZifyNat.
Ltac Zify.zify_post_hook ::= Z.div_mod_to_equations.
Open Scope nat_scope.

Lemma rw_header_length_le : forall m a, length (rw_header m a) <= 5.
Proof. intros. rewrite rw_header_length. destruct (N.of_nat m <? 65536)%N; lia. Qed.

Lemma map_header_length_le : forall c n, length (map_header c n) <= 3.
Proof. intros. rewrite map_header_length. destruct (N.of_nat c <? 16)%N; lia. Qed.

Section Bound.
  Variables (schema : list bytes) (cfg : ser_config) (rec : record).
  Hypothesis Hlen : length schema <= length (r_fields rec).
  Hypothesis Hver : chains_ok schema cfg.

  (* one visible value: header (at most 5 bytes) + at most what MaxFieldLength reports / the value *)
  Lemma value_bound : forall n v rwopt,
    match lookup_rewrite (c_rewrite cfg) n with
    | None => Ok None
    | Some chain => new_rewriters schema chain
    end = Ok rwopt ->
    exists k, match rwopt with
              | Some head => max_field_length head v rec
              | None => Ok (length v)
              end = Ok k /\ length (enc_value schema cfg rec n v) <= 5 + k.
  Proof.
    intros n v rwopt Hrw. unfold enc_value. rewrite chain_of_lookup.
    destruct (lookup_rewrite (c_rewrite cfg) n) as [[|rc ch]|] eqn:EL.
    - cbn [new_rewriters] in Hrw. inversion Hrw; subst. exists (length v). split; [reflexivity|apply enc_str_length_le].
    - destruct (verified_rewriters_spec schema (rc :: ch) ltac:(discriminate) (Hver _ _ EL)) as (rw & Hnew & M).
      rewrite Hnew in Hrw. inversion Hrw; subst.
      destruct (M rec v Hlen) as [Mmax _]. exists (rewrite_max schema (r_fields rec) (rc :: ch) v).
      split; [exact Mmax|]. rewrite app_length.
      pose proof (rw_header_length_le (rewrite_max schema (r_fields rec) (rc :: ch) v)
                    (length (rewrite_spec schema (r_fields rec) (r_unescaped rec) (rc :: ch) v))).
      pose proof (rewrite_spec_le_max schema (r_fields rec) (r_unescaped rec) (rc :: ch) v). lia.
    - inversion Hrw; subst. exists (length v). split; [reflexivity|apply enc_str_length_le].
  Qed.

  Lemma max_fields_len_bound : forall names fields rws acc,
    length fields = length names ->
    build_rewriters schema cfg names = Ok rws ->
    exists m, max_fields_len (map (mask_of cfg) names) (map enc_str names) rws fields rec acc = Ok m /\
              acc + length (flat_map (field_bytes schema cfg rec) (combine names fields)) <= m.
  Proof.
    induction names as [|n names IH]; intros fields rws acc Hl Hb.
    - destruct fields; [|discriminate]. cbn. exists acc. split; [reflexivity|lia].
    - destruct fields as [|v fields]; [discriminate|]. cbn [length] in Hl.
      cbn [build_rewriters] in Hb.
      destruct (match lookup_rewrite (c_rewrite cfg) n with
                | Some chain => new_rewriters schema chain
                | None => Ok None
                end) as [rwopt| |] eqn:Erw; cbn [obind] in Hb; try discriminate.
      destruct (build_rewriters schema cfg names) as [rws'| |] eqn:Eb; cbn [obind] in Hb; try discriminate.
      inversion Hb; subst rws. clear Hb.
      cbn [combine flat_map map max_fields_len].
      rewrite field_bytes_pair. rewrite mask_of_hidden.
      destruct (is_hidden cfg n || is_nil v) eqn:Emask.
      + cbn [app]. apply IH; [lia|reflexivity].
      + destruct (value_bound n v rwopt) as (k & Hk & Hle).
        { destruct (lookup_rewrite (c_rewrite cfg) n); exact Erw. }
        rewrite Hk. cbn [obind].
        destruct (IH fields rws' (acc + length (enc_str n) + 5 + k) ltac:(lia) eq_refl) as (m & Hm & Hmle).
        exists m. split; [exact Hm|]. rewrite !app_length. lia.
  Qed.

End Bound.

Lemma max_env_len_bound : forall schema names locs fields acc,
    length schema <= length fields ->
    locate_all schema names = Ok locs ->
    exists m, max_env_len locs (map enc_str names) fields acc = Ok m /\
              acc + length (flat_map (env_bytes schema fields) names) <= m.
  Proof.
    intros schema names. induction names as [|n names IH]; intros locs fields acc Hf Hloc.
    - cbn [locate_all] in Hloc. inversion Hloc; subst. cbn. exists acc. split; [reflexivity|lia].
    - cbn [locate_all] in Hloc. destruct (index_of schema n) as [loc|] eqn:Eloc; [|discriminate].
      destruct (locate_all schema names) as [locs'| |] eqn:El; cbn [obind] in Hloc; try discriminate.
      inversion Hloc; subst locs. clear Hloc.
      cbn [flat_map map max_env_len].
      rewrite (get_field_value schema fields n loc Eloc Hf). cbn [obind].
      destruct (IH locs' fields (acc + length (enc_str n) + 5 + length (field_value schema fields n)) Hf eq_refl)
        as (m & Hm & Hmle).
      exists m. split; [exact Hm|]. unfold env_bytes at 1. rewrite !app_length.
      pose proof (enc_str_length_le (field_value schema fields n)). lia.
  Qed.

(* maxEncodedLength never panics and bounds the event *)
Lemma max_encoded_length_bound : forall schema cfg rec B ser,
  chains_ok schema cfg ->
  length schema <= length (r_fields rec) ->
  new_serializer schema cfg B = Ok ser ->
  exists m, max_encoded_length ser rec = Ok m /\ length (encode_spec schema cfg rec) <= m.
Proof.
  intros schema cfg rec B ser V L Hnew.
  destruct (new_serializer_inv _ _ _ _ Hnew) as (Hm & Hk & Hek & Hloc & Hrw & Hb).
  unfold max_encoded_length. rewrite Hm, Hk, Hek. rewrite map_length.
  replace (length schema <=? length (r_fields rec)) with true by lia. cbn [obind].
  set (fields := firstn (length schema) (r_fields rec)).
  assert (Hfl : length fields = length schema) by (subst fields; rewrite firstn_length; lia).
  destruct (max_fields_len_bound schema cfg rec L V schema fields (s_rewriters ser) fixed_overhead Hfl Hrw)
    as (m1 & Hm1 & Hle1).
  rewrite Hm1. cbn [obind].
  destruct (max_env_len_bound schema (c_env cfg) (s_env_locs ser) fields m1 ltac:(lia) Hloc) as (m2 & Hm2 & Hle2).
  exists m2. split; [exact Hm2|].
  unfold encode_spec. rewrite enc_fields_as_loop, enc_env_as_loop. fold fields.
  rewrite !app_length.
  pose proof (map_header_length_le (length schema + 1) (1 + length (visible schema cfg rec))).
  pose proof (map_header_length_le (length (c_env cfg)) (length (c_env cfg))).
  assert (length (event_time_bytes rec) = 8) by reflexivity.
  assert (length (enc_str str_environment) = 12) by reflexivity.
  unfold fixed_overhead in Hle1. cbn [length]. lia.
Qed.

Lemma new_serializer_buflen : forall schema cfg B ser n,
  new_serializer schema cfg B = Ok ser -> new_serializer schema cfg n = Ok (with_buflen ser n).
Proof.
  intros schema cfg B ser n H. unfold new_serializer in *.
  destruct (locate_all schema (c_env cfg)) as [locs| |]; cbn [obind] in *; try discriminate.
  destruct (build_rewriters schema cfg schema) as [rws| |]; cbn [obind] in *; try discriminate.
  destruct (serialize_strings schema) as [keys| |]; cbn [obind] in *; try discriminate.
  destruct (serialize_strings (c_env cfg)) as [ek| |]; cbn [obind] in *; try discriminate.
  inversion H; subst. reflexivity.
Qed.

(* the repaired SerializeRecord: for EVERY record, no panic, and the stream is the complete event *)
Theorem serialize_fixed_total : forall schema cfg rec B ser,
  chains_ok schema cfg ->
  length schema <= length (r_fields rec) ->
  new_serializer schema cfg B = Ok ser ->
  serialize_record_fixed true ser rec = Ok (encode_spec schema cfg rec).
Proof.
  intros schema cfg rec B ser V L Hnew. unfold serialize_record_fixed.
  destruct (max_encoded_length_bound schema cfg rec B ser V L Hnew) as (m & Hm & Hle).
  rewrite Hm. cbn [obind].
  destruct (new_serializer_inv _ _ _ _ Hnew) as (_ & _ & _ & _ & _ & Hb).
  destruct (s_buflen ser <=? m) eqn:E.
  - apply (encode_buf_spec_lemma schema cfg rec (S m) _ V L (new_serializer_buflen _ _ _ _ (S m) Hnew)). lia.
  - apply (encode_buf_spec_lemma schema cfg rec B ser V L Hnew). apply Nat.leb_gt in E. lia.
Qed.

(* the event is never empty (it starts with the array header), so the stream is never the "dropped" one *)
Lemma encode_spec_nonempty : forall schema cfg rec, encode_spec schema cfg rec <> [].
Proof. intros. unfold encode_spec. discriminate. Qed.
