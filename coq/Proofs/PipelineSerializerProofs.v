(* C07: the repaired SerializeRecord never panics and always emits the complete event.
   maxEncodedLength is an upper bound of the length of C10's [encode_spec]; with a buffer longer than the event
   C10's [serialize_on_spec] applies.  Since C10 follows fix 413c995 itself, the bound and the totality are C10's
   lemmas ([max_encoded_length_bound], [encode_buf_spec_lemma] in Proofs/SerializerProofs.v); the names C07 uses
   are kept here. *)
From SV Require Import Model.Common Model.Msgpack Model.Unescape Model.Serializer Model.PipelineSerializer
     Spec.MsgpackSpec Spec.SerializerSpec Proofs.CommonFacts Proofs.MsgpackProofs Proofs.UnescapeProofs
     Proofs.SerializerProofs.
From Coq Require Import Lia ZifyBool ZifyN ZifyNat.
Ltac Zify.zify_post_hook ::= Z.div_mod_to_equations.
Open Scope nat_scope.

(* maxEncodedLength never panics and bounds the event *)
Lemma max_encoded_length_bound : forall schema cfg rec B ser,
  chains_ok schema cfg ->
  length schema <= length (r_fields rec) ->
  new_serializer schema cfg B = Ok ser ->
  exists m, PipelineSerializer.max_encoded_length ser rec = Ok m /\ length (encode_spec schema cfg rec) <= m.
Proof. exact SerializerProofs.max_encoded_length_bound. Qed.

Lemma new_serializer_buflen : forall schema cfg B ser n,
  new_serializer schema cfg B = Ok ser -> new_serializer schema cfg n = Ok (with_buflen ser n).
Proof.
  intros schema cfg B ser n H. unfold new_serializer in *.
  destruct (locate_all schema (c_env cfg)) as [locs| |]; cbn [obind] in *; try discriminate.
  destruct (build_rewriters schema cfg schema) as [rws| |]; cbn [obind] in *; try discriminate.
  destruct (serialize_strings schema) as [keys| |]; cbn [obind] in *; try discriminate.
  destruct (serialize_strings (c_env cfg)) as [ek| |]; cbn [obind] in *; try discriminate.
  inversion H; subst. reflexivity.
Qed.

(* the repaired SerializeRecord: for EVERY record, no panic, and the stream is the complete event *)
Theorem serialize_fixed_total : forall schema cfg rec B ser,
  chains_ok schema cfg ->
  length schema <= length (r_fields rec) ->
  new_serializer schema cfg B = Ok ser ->
  serialize_record_fixed true ser rec = Ok (encode_spec schema cfg rec).
Proof.
  intros schema cfg rec B ser V L Hnew. unfold serialize_record_fixed.
  exact (encode_buf_spec_lemma schema cfg rec B ser V L Hnew).
Qed.

(* the event is never empty (it starts with the array header), so the stream is never the "dropped" one *)
Lemma encode_spec_nonempty : forall schema cfg rec, encode_spec schema cfg rec <> [].
Proof. intros. unfold encode_spec. discriminate. Qed.
