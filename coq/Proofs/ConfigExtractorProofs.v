(* Facts about Model/ConfigExtractor.v: building an extractor never panics; an extractor
   accepted with the bounded rule never indexes the nil table, whatever the text. *)
From SV Require Import Model.Common Model.ConfigTemplate Model.ConfigExtractor Model.Config Spec.ConfigSpec
  Proofs.CommonFacts Proofs.ConfigTemplateProofs.
From Coq Require Import Lia ZifyBool ZifyN ZifyNat.
Ltac Zify.zify_post_hook ::= Z.div_mod_to_equations.
Open Scope nat_scope.

(* ---------- construction ---------- *)
Lemma np_split_pattern : forall p, np (split_pattern p).
Proof.
  intro p. unfold split_pattern.
  destruct (find_first_unescaped p ch_star 0); [reflexivity|].
  destruct (find_first_unescaped p ch_lbracket 0); [|reflexivity].
  destruct (find_first_unescaped _ ch_rbracket 0); reflexivity.
Qed.

Lemma np_fill_loop : forall e first prev lo rs acc, np (fill_loop e first prev lo rs acc).
Proof.
  induction e as [|c r IH]; intros; simpl; [reflexivity|].
  destruct (c =? ch_minus)%N.
  - destruct rs; [reflexivity|]. destruct (negb first && _); apply IH.
  - destruct rs; apply IH.
Qed.

Lemma np_fill_valid_chars : forall w, np (fill_valid_chars w).
Proof.
  intro w. unfold fill_valid_chars. destruct (unescape_run _) as [|c r]; [reflexivity|].
  destruct (c =? ch_caret)%N; (apply np_bind; [apply np_fill_loop|intros; reflexivity]).
Qed.

Lemma np_new_string_extractor : forall b pos parts maxr, np (new_string_extractor b pos parts maxr).
Proof.
  intros b pos [[l w] r] maxr. unfold new_string_extractor.
  apply np_bind.
  - destruct w as [|c w']; [reflexivity|]. destruct (bytes_eqb _ _); [reflexivity|].
    destruct (_ || _ || _); [reflexivity|]. apply np_bind; [apply np_fill_valid_chars|intros; reflexivity].
  - intros t _. destruct (b && _); reflexivity.
Qed.

Lemma np_new_string_extractor_simple : forall b pos pattern maxr, np (new_string_extractor_simple b pos pattern maxr).
Proof.
  intros. unfold new_string_extractor_simple. apply np_bind; [apply np_split_pattern|intros; apply np_new_string_extractor].
Qed.

Lemma new_string_extractor_safe : forall pos parts maxr ex,
  new_string_extractor true pos parts maxr = Ok ex -> (0 <= maxr)%Z -> extractor_safe ex = true.
Proof.
  intros pos [[l w] r] maxr ex H Hm. unfold new_string_extractor in H.
  inv_bind H. simpl in H.
  destruct a as [tb|]; destruct pos; destruct l; destruct r; simpl in H; try discriminate;
    inversion H; subst; unfold extractor_safe; simpl; lia.
Qed.

Lemma new_string_extractor_simple_safe : forall pos pattern maxr ex,
  new_string_extractor_simple true pos pattern maxr = Ok ex -> (0 <= maxr)%Z -> extractor_safe ex = true.
Proof.
  intros pos pattern maxr ex H Hm. unfold new_string_extractor_simple in H. inv_bind H.
  eapply new_string_extractor_safe; eassumption.
Qed.

(* the unbounded rule is all that separates the original from the fixed constructor *)
Lemma new_string_extractor_relax : forall pos parts maxr ex,
  new_string_extractor true pos parts maxr = Ok ex -> new_string_extractor false pos parts maxr = Ok ex.
Proof.
  intros pos [[l w] r] maxr ex H. unfold new_string_extractor in *.
  destruct (match w with [] => _ | _ => _ end) as [t|e|s]; simpl in *; try discriminate.
  destruct (match t with None => _ | _ => _ end); simpl in *; [discriminate|assumption].
Qed.

(* ---------- run time ---------- *)
Lemma match_from_start_some : forall s tb pos, exists n, match_from_start s (Some tb) pos = Ok n.
Proof.
  induction s as [|c r IH]; intros tb pos; simpl; [eauto|].
  destruct (table_get tb c); [apply IH|eauto].
Qed.

Lemma match_from_end_some : forall s tb, exists n, match_from_end s (Some tb) = Ok n.
Proof.
  intros s tb. unfold match_from_end. destruct (match_from_start_some (rev s) tb 0) as [n Hn]. rewrite Hn. simpl. eauto.
Qed.

Lemma window_start_ok : forall s maxr, (0 <= maxr)%Z -> exists w, window_start s maxr = Ok w.
Proof.
  intros s maxr H. unfold window_start. destruct (Z.of_nat (length s) >? maxr)%Z eqn:E; [|eauto].
  apply slice_z_ok; lia.
Qed.

Lemma start_go_ok : forall text rbound maxr t s, (0 <= maxr)%Z ->
  (t = None -> rbound <> []) -> exists r, start_go text rbound maxr t s = Ok r.
Proof.
  intros text rbound maxr t s Hm Ht. unfold start_go.
  assert (Hfast : exists b, (match s, t with c :: _, Some tb => Ok (negb (table_get tb c)) | _, _ => Ok false end) = @Ok bool b).
  { destruct s; destruct t; eauto. }
  destruct Hfast as [b Hb]. rewrite Hb. simpl. destruct b; [eauto|].
  destruct rbound as [|rc rr].
  - destruct t as [tb|]; [|exfalso; apply Ht; reflexivity].
    destruct (match_from_start_some s tb 0) as [n Hn]. rewrite Hn. simpl. destruct (Nat.eqb n 0); eauto.
  - destruct (window_start_ok s maxr Hm) as [w Hw]. rewrite Hw. simpl.
    destruct (index_of w (rc :: rr) 0) as [iend|]; [|eauto].
    destruct t as [tb|].
    + destruct (match_from_start_some (firstn iend s) tb 0) as [n Hn]. rewrite Hn. simpl.
      destruct (negb _); eauto.
    + simpl. eauto.
Qed.

Lemma end_go_ok : forall text lbound maxr t s, (0 <= maxr)%Z ->
  (t = None -> lbound <> []) -> exists r, end_go text lbound maxr t s = Ok r.
Proof.
  intros text lbound maxr t s Hm Ht. unfold end_go.
  assert (Hfast : exists b, (match rev s, t with c :: _, Some tb => Ok (negb (table_get tb c)) | _, _ => Ok false end) = @Ok bool b).
  { destruct (rev s); destruct t; eauto. }
  destruct Hfast as [b Hb]. rewrite Hb. simpl. destruct b; [eauto|].
  destruct lbound as [|lc lr].
  - destruct t as [tb|]; [|exfalso; apply Ht; reflexivity].
    destruct (match_from_end_some s tb) as [n Hn]. rewrite Hn. simpl. destruct (Nat.eqb n (length s)); eauto.
  - assert (Hfound : exists fo, (if (Z.of_nat (length s) >? maxr)%Z
                                 then let* win := slice_z s (Z.of_nat (length s) - maxr)%Z (Z.of_nat (length s)) in
                                      Ok (option_map (fun i => i + Z.to_nat (Z.of_nat (length s) - maxr)%Z) (last_index_of win (lc :: lr) 0))
                                 else Ok (last_index_of s (lc :: lr) 0)) = @Ok (option nat) fo).
    { destruct (Z.of_nat (length s) >? maxr)%Z eqn:E; [|eauto].
      destruct (slice_z_ok s (Z.of_nat (length s) - maxr)%Z (Z.of_nat (length s))) as [w Hw]; try lia.
      rewrite Hw. simpl. eauto. }
    destruct Hfound as [fo Hfo]. cbv zeta. rewrite Hfo. cbn [obind].
    destruct fo as [iend|]; [|eauto].
    destruct t as [tb|].
    + destruct (match_from_end_some (skipn (iend + length (lc :: lr)) s) tb) as [n Hn]. rewrite Hn. cbn [obind].
      destruct (negb _); eauto.
    + cbn [obind]. eauto.
Qed.

Theorem extract_total : forall ex text, extractor_safe ex = true -> exists r, extract ex text = Ok r.
Proof.
  intros [pos lb rb maxr t] text H. unfold extractor_safe in H. simpl in H.
  apply andb_true_iff in H. destruct H as [Hm Hb]. apply Z.leb_le in Hm.
  unfold extract. simpl. destruct pos.
  - unfold extract_at_start.
    assert (Ht : t = None -> rb <> []). { intros E. subst. destruct rb; [discriminate|discriminate]. }
    destruct lb as [|lc lr]; [apply start_go_ok; assumption|].
    destruct (is_prefix _ _); [apply start_go_ok; assumption|eauto].
  - unfold extract_at_end.
    assert (Ht : t = None -> lb <> []). { intros E. subst. destruct lb; [discriminate|discriminate]. }
    destruct rb as [|rc rr]; [apply end_go_ok; assumption|].
    destruct (has_suffix _ _); [apply end_go_ok; assumption|eauto].
Qed.

(* a pattern accepted by the fixed verification is valid in the sense of the specification *)
Theorem special_pattern_valid_of_ok : forall pos pattern maxr0 ex0,
  new_string_extractor_simple true pos pattern maxr0 = Ok ex0 -> special_pattern_valid pos pattern.
Proof.
  intros pos pattern maxr0 ex0 H maxr Hm.
  unfold new_string_extractor_simple in *. inv_bind H.
  destruct a as [[l w] r]. rewrite Ha. simpl.
  (* the range does not influence acceptance *)
  unfold new_string_extractor in *.
  destruct (match w with [] => _ | _ => _ end) as [t|e|s]; simpl in *; try discriminate.
  destruct (match t with None => _ | _ => _ end) eqn:Eu; simpl in *; [discriminate|].
  eexists. split; [reflexivity|]. intro text.
  destruct (extract_total {| ex_pos := pos; ex_left := l; ex_right := r; ex_max := maxr; ex_table := t |} text) as [res Hres].
  - unfold extractor_safe. simpl. apply andb_true_iff. split; [lia|].
    destruct t; destruct pos; destruct l; destruct r; simpl in *; try reflexivity; discriminate.
  - rewrite Hres. reflexivity.
Qed.
