(* C15: programs built by the loader (Model/Transforms.v: verify + new_tf) start with every
   drop node in its invariant — so the sampling bound holds for every accepted configuration. *)
From SV Require Import Model.Common Model.TfUtf8 Model.TfUnescape Model.Template Model.Extractor
     Model.TinyRegex Model.Transforms Proofs.PatternProofs Proofs.TransformsProofs.
From Coq Require Import Lia ZifyBool ZifyN ZifyNat.
Ltac Zify.zify_post_hook ::= Z.div_mod_to_equations.
Open Scope N_scope.

(* induction over configurations (nested lists) *)
Section CfgInd.
Variable P : cfg -> Prop.
Hypothesis HAdd : forall fs, P (CAddFields fs).
Hypothesis HDel : forall ks, P (CDelFields ks).
Hypothesis HMap : forall k m d, P (CMapValue k m d).
Hypothesis HIf : forall m th, Forall P th -> P (CIf m th).
Hypothesis HSwitch : forall cs, Forall (fun mc => Forall P (snd mc)) cs -> P (CSwitch cs).
Hypothesis HBlock : forall b, Forall P b -> P (CBlock b).
Hypothesis HDrop : forall m pct label, P (CDrop m pct label).
Hypothesis HEx : forall h k p n d, P (CExtractSp h k p n d).
Hypothesis HTr : forall k n s, P (CTruncate k n s).
Hypothesis HUn : forall k, P (CUnescape k).
Hypothesis HRe : forall k p r, P (CReplace k p r).
Hypothesis HExRe : forall k p, P (CExtractRe k p).

Fixpoint cfg_ind2 (c : cfg) : P c :=
  let all := fix go (l : list cfg) : Forall P l :=
    match l with [] => Forall_nil P | x :: l' => Forall_cons x (cfg_ind2 x) (go l') end in
  match c with
  | CAddFields fs => HAdd fs
  | CDelFields ks => HDel ks
  | CMapValue k m d => HMap k m d
  | CIf m th => HIf m th (all th)
  | CSwitch cs =>
    HSwitch cs ((fix go (l : list (matcher_cfg * list cfg)) : Forall (fun mc => Forall P (snd mc)) l :=
                   match l with
                   | [] => Forall_nil _
                   | mc :: l' => Forall_cons mc (all (snd mc)) (go l')
                   end) cs)
  | CBlock b => HBlock b (all b)
  | CDrop m pct label => HDrop m pct label
  | CExtractSp h k p n d => HEx h k p n d
  | CTruncate k n s => HTr k n s
  | CUnescape k => HUn k
  | CReplace k p r => HRe k p r
  | CExtractRe k p => HExRe k p
  end.
End CfgInd.

Section Load.
Variable O : oracles.
Variable schema : list bytes.

(* the local list functions of verify / new_tf are verify_all / new_all *)
Lemma verify_list_eq : forall l,
  (fix vl (l : list cfg) : outcome unit :=
     match l with [] => Ok tt | x :: l' => _ <-- verify O schema x ;; vl l' end) l = verify_all O schema l.
Proof. induction l as [|x l IH]; [reflexivity|]. cbn [verify_all]. rewrite <- IH. reflexivity. Qed.

Lemma new_list_eq : forall l,
  (fix nl (l : list cfg) : outcome tfs :=
     match l with [] => Ok TNil | x :: l' => t <-- new_tf O schema x ;; ts <-- nl l' ;; Ok (TCons t ts) end) l
  = new_all O schema l.
Proof. induction l as [|x l IH]; [reflexivity|]. cbn [new_all]. rewrite <- IH. reflexivity. Qed.

Lemma vguard_ok : forall b k, vguard b k = Ok tt -> b = true /\ k = Ok tt.
Proof. intros [|] k H; [split; [reflexivity|exact H]|discriminate]. Qed.

Definition good (c : cfg) : Prop :=
  forall t, verify O schema c = Ok tt -> new_tf O schema c = Ok t -> dinv_tf t.

Lemma good_all : forall l, Forall good l -> forall ts,
  verify_all O schema l = Ok tt -> new_all O schema l = Ok ts -> dinv_tfs ts.
Proof.
  induction 1 as [|x l Hx Hl IH]; intros ts Hv Hn.
  - inversion Hn; subst. exact I.
  - cbn [verify_all new_all] in Hv, Hn.
    destruct (verify O schema x) as [[]| |] eqn:Ev; try discriminate. cbn [obind] in Hv.
    destruct (new_tf O schema x) as [t| |] eqn:En; try discriminate. cbn [obind] in Hn.
    destruct (new_all O schema l) as [ts'| |] eqn:El; try discriminate. cbn [obind] in Hn.
    inversion Hn; subst. split; [apply Hx; assumption|apply IH; [assumption|reflexivity]].
Qed.

Lemma all_good : forall c, good c.
Proof.
  apply cfg_ind2; unfold good.
  - intros fs t _ H. cbn [new_tf] in H. destruct (new_addfields schema (sort_pairs fs)); inversion H; exact I.
  - intros ks t _ H. cbn [new_tf] in H. destruct (new_locs schema ks); inversion H; exact I.
  - intros k m d t _ H. cbn [new_tf] in H. destruct (must_loc schema k); inversion H; exact I.
  - intros m th IH t Hv Hn. cbn [verify new_tf] in Hv, Hn. rewrite verify_list_eq in Hv. rewrite new_list_eq in Hn.
    apply vguard_ok in Hv. destruct Hv as [_ Hv]. apply vguard_ok in Hv. destruct Hv as [_ Hv].
    apply vguard_ok in Hv. destruct Hv as [_ Hv].
    destruct (new_matcher O schema m); try discriminate. cbn [obind] in Hn.
    destruct (new_all O schema th) as [ts| |] eqn:E; try discriminate. inversion Hn; subst.
    cbn. eapply good_all; eassumption.
  - intros cs IH t Hv Hn. cbn [verify new_tf] in Hv, Hn.
    apply vguard_ok in Hv. destruct Hv as [_ Hv].
    match type of Hn with (obind ?X _) = _ => destruct X as [ks| |] eqn:Ek; try discriminate end.
    inversion Hn; subst. cbn. clear Hn.
    revert ks Hv Ek. induction IH as [|[m th] cs Hth Hcs IHcs]; intros ks Hv Ek.
    + inversion Ek; subst. exact I.
    + rewrite verify_list_eq in Hv. rewrite new_list_eq in Ek.
      match type of Hv with (obind ?X _) = _ => destruct X as [[]| |] eqn:Ev; try discriminate end.
      cbn [obind] in Hv.
      apply vguard_ok in Ev. destruct Ev as [_ Ev]. apply vguard_ok in Ev. destruct Ev as [_ Ev].
      apply vguard_ok in Ev. destruct Ev as [_ Ev].
      destruct (new_matcher O schema m); try discriminate. cbn [obind] in Ek.
      destruct (new_all O schema th) as [ts| |] eqn:E; try discriminate. cbn [obind] in Ek.
      match type of Ek with (obind ?X _) = _ => destruct X as [ks'| |] eqn:Ek'; try discriminate end.
      inversion Ek; subst. split; [eapply good_all; eassumption|]. apply IHcs; [assumption|reflexivity].
  - intros b IH t Hv Hn. cbn [verify new_tf] in Hv, Hn. rewrite verify_list_eq in Hv. rewrite new_list_eq in Hn.
    apply vguard_ok in Hv. destruct Hv as [_ Hv].
    destruct (new_all O schema b) as [ts| |] eqn:E; try discriminate. inversion Hn; subst.
    cbn. eapply good_all; eassumption.
  - intros m pct label t Hv Hn. cbn [verify new_tf] in Hv, Hn.
    apply vguard_ok in Hv. destruct Hv as [_ Hv]. apply vguard_ok in Hv. destruct Hv as [_ Hv].
    apply vguard_ok in Hv. destruct Hv as [Hp _].
    destruct (new_matcher O schema m); try discriminate. inversion Hn; subst.
    apply drop_fresh_lemma. lia.
  - intros h k p n d t _ H. cbn [new_tf] in H.
    destruct (new_string_extractor_simple h p (zval n)); try discriminate.
    destruct (must_loc schema k); try discriminate. destruct (must_loc schema d); inversion H; exact I.
  - intros k n s t _ H. cbn [new_tf] in H. destruct (must_loc schema k); inversion H; exact I.
  - intros k t _ H. cbn [new_tf] in H. destruct (must_loc schema k); inversion H; exact I.
  - intros k p r t _ H. cbn [new_tf] in H. destruct (must_loc schema k); try discriminate. cbn [obind] in H.
    destruct (o_re_compiles O p); inversion H; exact I.
  - intros k p t _ H. cbn [new_tf] in H. destruct (o_re_compiles O p); try discriminate.
    destruct (new_subexp_locs schema (o_re_names O p)); try discriminate. cbn [obind] in H.
    destruct (must_loc schema k); inversion H; exact I.
Qed.

(* every configuration the loader accepts starts within the sampling invariant ... *)
Lemma load_dinv : forall l ts, load O schema l = LOk ts -> dinv_tfs ts.
Proof.
  intros l ts H. unfold load in H. destruct (negb (forallb (unmarshals O) l)); [discriminate|].
  destruct (verify_all O schema l) as [[]| |] eqn:Ev; try discriminate.
  destruct (new_all O schema l) as [ts'| |] eqn:En; try discriminate. inversion H; subst.
  eapply good_all; try eassumption. apply Forall_forall. intros c _. apply all_good.
Qed.

(* ... and stays within it for every stream of records *)
Lemma load_drop_invariant : forall l ts cs rs, load O schema l = LOk ts ->
  Forall dinv_tfs (run_states O ts cs rs).
Proof. intros. apply dinv_stream. eapply load_dinv. eassumption. Qed.

(* ---------- accepted configurations build well-formed programs: they never panic ---------- *)

(* what is assumed of Go's regexp: FindStringSubmatchIndex returns one pair per subexpression
   (SubexpNames), each either negative or a range inside the value *)
Definition oracle_sane : Prop :=
  forall pat v idx, o_re_find O pat v = Some idx ->
    length idx = length (o_re_names O pat) /\
    Forall (fun ab => (fst ab < 0 \/ snd ab < 0)%Z \/ (0 <= fst ab <= snd ab /\ snd ab <= Z.of_nat (length v))%Z) idx.

Lemma new_subexp_locs_length : forall names locs, new_subexp_locs schema names = Ok locs -> length locs = length names.
Proof.
  induction names as [|n names IH]; intros locs H; cbn [new_subexp_locs] in H.
  - inversion H; reflexivity.
  - destruct n as [|c n'].
    + destruct (new_subexp_locs schema names) as [ls| |]; try discriminate. inversion H; subst. cbn. f_equal. apply IH. reflexivity.
    + destruct (must_loc schema (c :: n')); try discriminate. cbn [obind] in H.
      destruct (new_subexp_locs schema names) as [ls| |]; try discriminate. inversion H; subst. cbn. f_equal. apply IH. reflexivity.
Qed.

Definition good_wf (c : cfg) : Prop :=
  forall t, verify O schema c = Ok tt -> new_tf O schema c = Ok t -> wf_tf O t.

Lemma good_wf_all : forall l, Forall good_wf l -> forall ts,
  verify_all O schema l = Ok tt -> new_all O schema l = Ok ts -> wf_tfs O ts.
Proof.
  induction 1 as [|x l Hx Hl IH]; intros ts Hv Hn.
  - inversion Hn; subst. exact I.
  - cbn [verify_all new_all] in Hv, Hn.
    destruct (verify O schema x) as [[]| |] eqn:Ev; try discriminate. cbn [obind] in Hv.
    destruct (new_tf O schema x) as [t| |] eqn:En; try discriminate. cbn [obind] in Hn.
    destruct (new_all O schema l) as [ts'| |] eqn:El; try discriminate. cbn [obind] in Hn.
    inversion Hn; subst. split; [apply Hx; assumption|apply IH; [assumption|reflexivity]].
Qed.

Lemma all_good_wf : oracle_sane -> forall c, good_wf c.
Proof.
  intros Hsane. apply cfg_ind2; unfold good_wf.
  - intros fs t _ H. cbn [new_tf] in H. destruct (new_addfields schema (sort_pairs fs)); inversion H; exact I.
  - intros ks t _ H. cbn [new_tf] in H. destruct (new_locs schema ks); inversion H; exact I.
  - intros k m d t _ H. cbn [new_tf] in H. destruct (must_loc schema k); inversion H; exact I.
  - intros m th IH t Hv Hn. cbn [verify new_tf] in Hv, Hn. rewrite verify_list_eq in Hv. rewrite new_list_eq in Hn.
    apply vguard_ok in Hv. destruct Hv as [_ Hv]. apply vguard_ok in Hv. destruct Hv as [_ Hv].
    apply vguard_ok in Hv. destruct Hv as [_ Hv].
    destruct (new_matcher O schema m); try discriminate. cbn [obind] in Hn.
    destruct (new_all O schema th) as [ts| |] eqn:E; try discriminate. inversion Hn; subst.
    cbn. eapply good_wf_all; eassumption.
  - intros cs IH t Hv Hn. cbn [verify new_tf] in Hv, Hn.
    apply vguard_ok in Hv. destruct Hv as [_ Hv].
    match type of Hn with (obind ?X _) = _ => destruct X as [ks| |] eqn:Ek; try discriminate end.
    inversion Hn; subst. cbn. clear Hn.
    revert ks Hv Ek. induction IH as [|[m th] cs Hth Hcs IHcs]; intros ks Hv Ek.
    + inversion Ek; subst. exact I.
    + rewrite verify_list_eq in Hv. rewrite new_list_eq in Ek.
      match type of Hv with (obind ?X _) = _ => destruct X as [[]| |] eqn:Ev; try discriminate end.
      cbn [obind] in Hv.
      apply vguard_ok in Ev. destruct Ev as [_ Ev]. apply vguard_ok in Ev. destruct Ev as [_ Ev].
      apply vguard_ok in Ev. destruct Ev as [_ Ev].
      destruct (new_matcher O schema m); try discriminate. cbn [obind] in Ek.
      destruct (new_all O schema th) as [ts| |] eqn:E; try discriminate. cbn [obind] in Ek.
      match type of Ek with (obind ?X _) = _ => destruct X as [ks'| |] eqn:Ek'; try discriminate end.
      inversion Ek; subst. split; [eapply good_wf_all; eassumption|]. apply IHcs; [assumption|reflexivity].
  - intros b IH t Hv Hn. cbn [verify new_tf] in Hv, Hn. rewrite verify_list_eq in Hv. rewrite new_list_eq in Hn.
    apply vguard_ok in Hv. destruct Hv as [_ Hv].
    destruct (new_all O schema b) as [ts| |] eqn:E; try discriminate. inversion Hn; subst.
    cbn. eapply good_wf_all; eassumption.
  - intros m pct label t _ Hn. cbn [new_tf] in Hn. destruct (new_matcher O schema m); inversion Hn; exact I.
  - intros h k p n d t Hv H. cbn [verify new_tf] in Hv, H.
    apply vguard_ok in Hv. destruct Hv as [_ Hv]. apply vguard_ok in Hv. destruct Hv as [_ Hv].
    destruct (new_string_extractor_simple h p (zval n)) as [ex| |] eqn:Eex; try discriminate.
    apply vguard_ok in Hv. destruct Hv as [Hpos _].
    destruct (must_loc schema k); try discriminate. cbn [obind] in H.
    destruct (must_loc schema d); inversion H; subst. cbn.
    destruct (new_string_extractor_simple_wf _ _ _ _ Eex) as [Hmax Hb]. split; [rewrite Hmax; lia|exact Hb].
  - intros k n s t Hv H. cbn [verify new_tf] in Hv, H.
    apply vguard_ok in Hv. destruct Hv as [_ Hv]. apply vguard_ok in Hv. destruct Hv as [Hpos _].
    destruct (must_loc schema k); inversion H; subst. cbn. lia.
  - intros k t _ H. cbn [new_tf] in H. destruct (must_loc schema k); inversion H; exact I.
  - intros k p r t _ H. cbn [new_tf] in H. destruct (must_loc schema k); try discriminate. cbn [obind] in H.
    destruct (o_re_compiles O p); inversion H; exact I.
  - intros k p t _ H. cbn [new_tf] in H. destruct (o_re_compiles O p); try discriminate.
    destruct (new_subexp_locs schema (o_re_names O p)) as [locs| |] eqn:El; try discriminate. cbn [obind] in H.
    destruct (must_loc schema k); inversion H; subst. cbn.
    intros v idx Hf. destruct (Hsane _ _ _ Hf) as [Hlen Hall]. split; [|exact Hall].
    rewrite Hlen. symmetry. apply new_subexp_locs_length. assumption.
Qed.

Lemma load_wf : oracle_sane -> forall l ts, load O schema l = LOk ts -> wf_tfs O ts.
Proof.
  intros Hsane l ts H. unfold load in H. destruct (negb (forallb (unmarshals O) l)); [discriminate|].
  destruct (verify_all O schema l) as [[]| |] eqn:Ev; try discriminate.
  destruct (new_all O schema l) as [ts'| |] eqn:En; try discriminate. inversion H; subst.
  eapply good_wf_all; try eassumption. apply Forall_forall. intros c _. apply all_good_wf. assumption.
Qed.

(* every configuration the loader accepts runs every stream of records without a panic *)
Lemma load_no_panic : oracle_sane -> forall l ts cs rs, load O schema l = LOk ts ->
  Forall (fun x => x <> RPanic) (fst (run_records O ts cs rs)) /\
  length (fst (run_records O ts cs rs)) = length rs.
Proof. intros Hsane l ts cs rs H. apply run_records_no_panic. eapply load_wf; eassumption. Qed.

End Load.
