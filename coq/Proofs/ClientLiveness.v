(* C02 — progress: what a healthy environment achieves from a session boundary, and the liveness gap after
   an ACK with an unknown id (finding "wrong id then idle"). *)
From SV Require Import Model.Common Model.Client Spec.ClientSpec
     Proofs.ClientBase Proofs.ClientSafety Proofs.ClientHistory Proofs.ClientOrder.
From Coq Require Import Lia Permutation.
Local Open Scope nat_scope.

Definition round (k : nat) (f : from) (c : chunk) : list event :=
  [match f with FResend => EResendTake c | FInput => ETake c end;
   ESendRet k c ROk; EEnqueue; EAckerTake c; EAckRet k (AId c); EConsumed c].

(* a session with an idle acknowledger and nothing in flight *)
Definition quiet (s : state) (k : nat) : Prop :=
  exists ss, cur s = Some ss /\ s_id ss = k /\ s_achan ss = [] /\ s_pending ss = [] /\ s_apc ss = AIdle /\ last s = None.

Lemma round_resend : forall P s k c rest,
  1 <= p_cap P -> pc s = MResend -> lo s = c :: rest -> quiet s k ->
  exists s', run P s (round k FResend c) = Some s' /\ pc s' = MResend /\ lo s' = rest /\ quiet s' k /\
             inq s' = inq s /\ stop_sig s' = stop_sig s /\ h_consumed s' = c :: h_consumed s /\
             h_taken s' = h_taken s /\ h_handed s' = h_handed s.
Proof.
  intros P s k c rest Hcap Hpc Hlo (ss & Hcur & Hid & Hach & Hpen & Hapc & Hlast).
  destruct ss as [id creq achan aclosed abort ended unacked pending apc]. simpl in *. subst.
  destruct (p_cap P) as [|cap'] eqn:Ecap; [lia|].
  unfold round, padd, pdel.
  repeat (cbn; rewrite ?Hpc, ?Hlo, ?Hcur, ?N.eqb_refl, ?Nat.eqb_refl).
  eexists. split; [reflexivity|]. cbn.
  repeat split; try reflexivity.
  eexists. repeat split; reflexivity.
Qed.

Lemma round_input : forall P s k c rest,
  1 <= p_cap P -> pc s = MInput -> inq s = c :: rest -> quiet s k ->
  exists s', run P s (round k FInput c) = Some s' /\ pc s' = MInput /\ inq s' = rest /\ quiet s' k /\
             lo s' = lo s /\ stop_sig s' = stop_sig s /\ h_consumed s' = c :: h_consumed s /\
             h_taken s' = c :: h_taken s /\ h_handed s' = h_handed s.
Proof.
  intros P s k c rest Hcap Hpc Hlo (ss & Hcur & Hid & Hach & Hpen & Hapc & Hlast).
  destruct ss as [id creq achan aclosed abort ended unacked pending apc]. simpl in *. subst.
  destruct (p_cap P) as [|cap'] eqn:Ecap; [lia|].
  unfold round, padd, pdel.
  repeat (cbn; rewrite ?Hpc, ?Hlo, ?Hcur, ?N.eqb_refl, ?Nat.eqb_refl).
  eexists. split; [reflexivity|]. cbn.
  repeat split; try reflexivity.
  eexists. repeat split; reflexivity.
Qed.

Lemma rounds_resend : forall P k L s,
  1 <= p_cap P -> pc s = MResend -> lo s = L -> quiet s k ->
  exists s', run P s (flat_map (round k FResend) L) = Some s' /\ pc s' = MResend /\ lo s' = [] /\ quiet s' k /\
             inq s' = inq s /\ stop_sig s' = stop_sig s /\ h_consumed s' = rev L ++ h_consumed s /\
             h_taken s' = h_taken s /\ h_handed s' = h_handed s.
Proof.
  intros P k L. induction L as [|c L IH]; intros s Hcap Hpc Hlo Hq.
  - exists s. simpl. repeat split; auto.
  - destruct (round_resend P s k c L Hcap Hpc Hlo Hq) as (s1 & R1 & P1 & L1 & Q1 & I1 & S1 & C1 & T1 & H1).
    destruct (IH s1 Hcap P1 L1 Q1) as (s2 & R2 & P2 & L2 & Q2 & I2 & S2 & C2 & T2 & H2).
    exists s2. cbn [flat_map]. rewrite run_app, R1, R2.
    repeat split; try congruence. rewrite C2, C1. simpl. rewrite <- app_assoc. reflexivity.
Qed.

Lemma rounds_input : forall P k Q s,
  1 <= p_cap P -> pc s = MInput -> inq s = Q -> quiet s k ->
  exists s', run P s (flat_map (round k FInput) Q) = Some s' /\ pc s' = MInput /\ inq s' = [] /\ quiet s' k /\
             lo s' = lo s /\ stop_sig s' = stop_sig s /\ h_consumed s' = rev Q ++ h_consumed s /\
             h_taken s' = rev Q ++ h_taken s /\ h_handed s' = h_handed s.
Proof.
  intros P k Q. induction Q as [|c Q IH]; intros s Hcap Hpc Hq Hqt.
  - exists s. simpl. repeat split; auto.
  - destruct (round_input P s k c Q Hcap Hpc Hq Hqt) as (s1 & R1 & P1 & L1 & Q1 & I1 & S1 & C1 & T1 & H1).
    destruct (IH s1 Hcap P1 L1 Q1) as (s2 & R2 & P2 & L2 & Q2 & I2 & S2 & C2 & T2 & H2).
    exists s2. cbn [flat_map]. rewrite run_app, R1, R2.
    repeat split; try congruence.
    + rewrite C2, C1. simpl. rewrite <- app_assoc. reflexivity.
    + rewrite T2, T1. simpl. rewrite <- app_assoc. reflexivity.
Qed.

(* the healthy continuation from a session boundary: connect, re-send the leftovers, send the queue;
   every send succeeds and every ack read returns the id of the chunk just sent *)
Definition healthy (k : nat) (L Q : list chunk) : list event :=
  [EMainSpawn; EConnStart k; EConnRet k true; EMainConn]
  ++ flat_map (round k FResend) L ++ [EResendDone] ++ flat_map (round k FInput) Q.

Lemma healthy_length : forall k L Q, length (healthy k L Q) = 5 + 6 * (length L + length Q).
Proof.
  intros. unfold healthy. rewrite !app_length.
  assert (H : forall f l, length (flat_map (round k f) l) = 6 * length l).
  { intros f l. induction l as [|c l IH]; [reflexivity|]. cbn [flat_map]. rewrite app_length, IH. simpl. lia. }
  rewrite !H. simpl. lia.
Qed.

Lemma progress_lemma : forall P s,
  1 <= p_cap P -> pc s = MStart -> stop_sig s = false ->
  exists s', run P s (healthy (S (nconn s)) (lo s) (inq s)) = Some s' /\
             h_consumed s' = rev (inq s) ++ rev (lo s) ++ h_consumed s /\
             h_handed s' = h_handed s /\
             lo s' = [] /\ inq s' = [] /\ last s' = None /\
             (exists ss, cur s' = Some ss /\ sess_holdings ss = []).
Proof.
  intros P s Hcap Hpc Hstop. unfold healthy.
  set (k := S (nconn s)).
  (* the four connection events *)
  assert (exists s1, run P s [EMainSpawn; EConnStart k; EConnRet k true; EMainConn] = Some s1 /\
                     pc s1 = MResend /\ lo s1 = lo s /\ quiet s1 k /\ inq s1 = inq s /\ stop_sig s1 = false /\
                     h_consumed s1 = h_consumed s /\ h_handed s1 = h_handed s) as (s1 & R1 & P1 & L1 & Q1 & I1 & S1 & C1 & H1).
  { subst k. repeat (cbn; rewrite ?Hpc, ?Nat.eqb_refl). eexists. split; [reflexivity|]. cbn.
    repeat split; auto; try (eexists; repeat split; reflexivity). }
  destruct (rounds_resend P k (lo s) s1 Hcap P1 L1 Q1) as (s2 & R2 & P2 & L2 & Q2 & I2 & S2 & C2 & T2 & H2).
  assert (exists s3, run P s2 [EResendDone] = Some s3 /\ pc s3 = MInput /\ lo s3 = [] /\ quiet s3 k /\ inq s3 = inq s2 /\
                     h_consumed s3 = h_consumed s2 /\ h_handed s3 = h_handed s2) as (s3 & R3 & P3 & L3 & Q3 & I3 & C3 & H3).
  { cbn. rewrite P2, L2, S2, S1. eexists. split; [reflexivity|]. cbn. repeat split; auto;
    try (destruct Q2 as (ss & ? & ? & ? & ? & ? & ?); exists ss; repeat split; auto). }
  destruct (rounds_input P k (inq s) s3 Hcap P3 ltac:(congruence) Q3) as (s4 & R4 & P4 & L4 & Q4 & I4 & S4 & C4 & T4 & H4).
  exists s4. rewrite run_app, R1, run_app, R2, run_app, R3, R4.
  split; [reflexivity|]. split; [rewrite C4, C3, C2, C1; reflexivity|].
  split; [congruence|]. split; [congruence|]. split; [exact L4|].
  destruct Q4 as (ss & E1 & E2 & E3 & E4 & E5 & E6). split; [exact E6|].
  exists ss. split; [exact E1|]. unfold sess_holdings. rewrite E3, E4. reflexivity.
Qed.

(* events of a running client with a well-behaved upstream that knows nothing about chunk c any more: no stop,
   no reconnect request, no failure, no ACK for c (it is not transmitted again), c is not offered again *)
Definition healthy_ev (c : chunk) (e : event) : Prop :=
  match e with
  | EStop | EInClose | EReconnReq => False
  | EOffer d => d <> c
  | ESendRet _ _ RErr | EPingRet _ RErr | EAckRet _ AErr => False
  | EAckRet _ (AId i) => i <> c
  | _ => True
  end.

Record stuck (c : chunk) (s : state) : Prop := {
  sk_pc : in_process_input (pc s) = true;
  sk_stop : stop_sig s = false;
  sk_inc : in_closed s = false;
  sk_sig : sig_flight s = 0 /\ sig_pend s = 0;
  sk_inq : ~ In c (inq s);
  sk_last : last s <> Some c;
  sk_lastpc : match pc s with MSend _ d | MEnqueue _ d => last s = Some d | _ => True end;
  sk_sess : exists ss, cur s = Some ss /\ In c (s_pending ss) /\ ~ In c (s_achan ss) /\
              s_aclosed ss = false /\ s_abort ss = false /\ s_ended ss = false /\
              s_apc ss <> AAcked c /\ s_apc ss <> AReading c /\ s_apc ss <> AEnded
}.

Lemma stuck_step : forall P c s e s',
  p_maxage P = false -> p_fix P = false -> stuck c s -> healthy_ev c e -> step P s e = Some s' ->
  stuck c s' /\ e <> EConsumed c /\ (forall k r, e <> ESendRet k c r).
Proof.
  intros P c s e s' Hage Hfix [Kpc Kstop Kinc [Ksf Ksp] Kinq Klast Klpc (ss & Kcur & Kpen & Kach & Kacl & Kabt & Kend & Ka1 & Ka2 & Ka3)] Hh Hs.
  destruct e; simpl in Hh; try contradiction; step_inv Hs.
  all: boolprep; try congruence.
  all: try (match goal with H : pc _ = _ |- _ => rewrite H in Kpc end; simpl in Kpc; try discriminate Kpc).
  all: try (rewrite Kcur in *; some_inv).
  all: split; [|split; [try discriminate|try discriminate]].
  all: try (constructor; st_simpl; use_eqs2; st_simpl; auto).
  all: try solve [intuition congruence].
  all: try solve [eexists; split; [reflexivity|]; st_simpl; inprep; intuition congruence].
  all: try solve [inprep; intuition congruence].
  all: try solve [intro E; inversion E; subst; apply Kinq; left; reflexivity].
  all: try solve [simpl in Kpc; discriminate Kpc].
  all: try solve [intro E; inversion E; subst; apply Kinq; rewrite Heql; left; reflexivity].
Qed.

(* finding "wrong id then idle" of the ORIGINAL code (p_fix = false), as a theorem: once a chunk sits in the pending map of an acknowledger that has gone
   back to waiting for the next chunk, then - without a max session age - no continuation in which the client
   keeps running and the upstream behaves ever confirms it or transmits it again *)
Lemma stuck_forever : forall P c tr s s',
  p_maxage P = false -> p_fix P = false -> stuck c s -> Forall (healthy_ev c) tr -> run P s tr = Some s' ->
  stuck c s' /\ ~ In (EConsumed c) tr /\ (forall k r, ~ In (ESendRet k c r) tr).
Proof.
  intros P c tr. induction tr as [|e tr IH]; intros s s' Hage Hfix Hst Hf Hr.
  - simpl in Hr. inversion Hr; subst. split; [exact Hst|]. split; [intros []|intros k r []].
  - inversion Hf as [|? ? He Hf']; subst. simpl in Hr.
    destruct (step P s e) as [s1|] eqn:E; [|discriminate Hr].
    destruct (stuck_step P c s e s1 Hage Hfix Hst He E) as (Hst1 & Hn1 & Hn2).
    destruct (IH s1 s' Hage Hfix Hst1 Hf' Hr) as (Hst' & Hc & Hs).
    split; [exact Hst'|]. split.
    + intros [H|H]; [congruence|contradiction].
    + intros k r [H|H]; [exact (Hn2 k r H)|exact (Hs k r H)].
Qed.

(* such a state is reachable: chunk 1 is sent, the upstream answers with an unknown id *)
Definition stuck_run : list event :=
  [EOffer 1%N; EMainSpawn; EConnStart 1; EConnRet 1 true; EMainConn; EResendDone; ETake 1%N;
   ESendRet 1 1%N ROk; EEnqueue; EAckerTake 1%N; EAckRet 1 (AId 999999%N)].

Lemma stuck_reachable : forall P, 1 <= p_cap P -> p_fix P = false -> exists s, reach_by P stuck_run s /\ stuck 1%N s.
Proof.
  intros [[|cap'] age fx] Hcap Hfix; [simpl in Hcap; lia|]. simpl in Hfix. subst fx.
  unfold reach_by.
  destruct (run (mkParams (S cap') age false) init stuck_run) as [s|] eqn:E; [|vm_compute in E; discriminate E].
  exists s. split; [reflexivity|].
  vm_compute in E. inversion E; subst s. clear E.
  constructor; simpl; auto; try discriminate; try tauto.
  eexists. split; [reflexivity|]. simpl. repeat split; auto; try discriminate; tauto.
Qed.

(* ---------- runs that show which hypotheses of the conservation theorem are needed ---------- *)

Definition P0 : params := mkParams 10 false true.

(* outside the connection contract: the ack read never returns although the connection was closed; after
   IntermediateChannelTimeout collectLeftovers gives up ("BUG: timeout waiting for acknowledger to hard stop"),
   session.unacked is nil and the chunk in the acknowledger's pending map is neither confirmed nor handed back *)
Definition acker_stuck_run : list event :=
  [EOffer 1%N; EMainSpawn; EConnStart 1; EConnRet 1 true; EMainConn; EResendDone; ETake 1%N;
   ESendRet 1 1%N ROk; EEnqueue; EAckerTake 1%N; EStop; EInClose; EInClosedSeen; EBugTimeout; EFinished].

Lemma acker_stuck_lemma :
  exists tr s, reach_by P0 tr s /\ distinct_input tr /\ finished_in tr = true /\
               exists c, In c (taken_of tr) /\ ~ In c (consumed_of tr) /\ ~ In c (handed_of tr).
Proof.
  destruct (run P0 init acker_stuck_run) as [s|] eqn:E; [|vm_compute in E; discriminate E].
  exists acker_stuck_run, s. split; [exact E|]. split; [repeat constructor; intros []|].
  split; [reflexivity|]. exists 1%N. simpl. tauto.
Qed.

(* with two chunks of the same id the pending map (keyed by id) and the de-duplication of the leftovers keep one *)
Definition dup_id_run : list event :=
  [EOffer 5%N; EOffer 5%N; EMainSpawn; EConnStart 1; EConnRet 1 true; EMainConn; EResendDone;
   ETake 5%N; ESendRet 1 5%N ROk; EEnqueue; ETake 5%N; ESendRet 1 5%N ROk; EEnqueue;
   EAckerTake 5%N; EStop; EInClose; EAckRet 1 AErr;
   EInClosedSeen; ECollected; ELeftover 5%N; EFinished].

Lemma dup_id_lemma :
  exists tr s, reach_by P0 tr s /\ in_contract tr /\ finished_in tr = true /\
               ~ Permutation (taken_of tr) (consumed_of tr ++ handed_of tr).
Proof.
  destruct (run P0 init dup_id_run) as [s|] eqn:E; [|vm_compute in E; discriminate E].
  exists dup_id_run, s. split; [exact E|]. split.
  - unfold in_contract, dup_id_run. simpl. intuition discriminate.
  - split; [reflexivity|]. simpl. intro H. apply Permutation_length in H. discriminate H.
Qed.

Lemma stuck_holds : forall c s, stuck c s -> In c (holdings s).
Proof.
  intros c s [_ _ _ _ _ _ _ (ss & Hc & Hp & _)]. unfold holdings, sess_holdings. rewrite Hc.
  apply in_or_app. right. apply in_or_app. right. apply in_or_app. right. exact Hp.
Qed.

Lemma liveness_gap_lemma :
  forall P : params, 1 <= p_cap P -> p_maxage P = false -> p_fix P = false ->
  exists tr0 s c, reach_by P tr0 s /\ In c (taken_of tr0) /\ ~ In c (consumed_of tr0) /\
    forall tr s', Forall (healthy_ev c) tr -> run P s tr = Some s' ->
                  ~ In (EConsumed c) tr /\ (forall k r, ~ In (ESendRet k c r) tr) /\ In c (holdings s').
Proof.
  intros P Hcap Hage Hfix. destruct (stuck_reachable P Hcap Hfix) as (s & Hr & Hst).
  exists stuck_run, s, 1%N. split; [exact Hr|]. split; [simpl; auto|]. split; [simpl; tauto|].
  intros tr s' Hf Hrun. destruct (stuck_forever P 1%N tr s s' Hage Hfix Hst Hf Hrun) as (H1 & H2 & H3).
  split; [exact H2|]. split; [exact H3|]. apply stuck_holds. exact H1.
Qed.
