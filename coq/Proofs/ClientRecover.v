(* C02 — the repaired client (p_fix = true) can always recover, with or without a max session age: from any
   reachable state of a running client a healthy continuation gets every chunk ever taken reported delivered
   (scheduler + lexicographic measure). *)
From SV Require Import Model.Common Model.Client Spec.ClientSpec
     Proofs.ClientBase Proofs.ClientSafety Proofs.ClientHistory Proofs.ClientOrder Proofs.ClientTheorems Proofs.ClientLiveness Proofs.ClientFixed.
From Coq Require Import Lia Permutation Wf_nat.
Local Open Scope nat_scope.

Definition stopping (s : state) : bool := stop_sig s || in_closed s.

Record inv6 (s : state) : Prop := {
  n_none : match pc s with
           | MHardWait _ PNone | MSoftWait PNone | MFinal | MDone => stopping s = true
           | _ => True end;
  n_abort : forall ss, cur s = Some ss -> hard_collecting (pc s) = true -> s_abort ss = true;
  n_opener : pc s = MConnecting -> opener s <> ONone
}.

Lemma inv6_reach : forall P s, reach P s -> inv6 s.
Proof.
  intros P. apply (reach_ind P inv6).
  - constructor; simpl; intros; try discriminate; auto.
  - intros s e s' _ [N1 N2 N3] Hs. destruct e; step_inv Hs.
    all: try (constructor; assumption).
    all: constructor; unfold stopping in *; st_simpl; cbn [stop_sig in_closed st_env st_main st_sess st_misc st_inq st_opener st_hist collect_hard collect_soft] in *; use_eqs2; st_simpl.
    all: try solve [intros; try discriminate; auto].
    all: try solve [intros ? E; inversion E; subst; st_simpl; intros; try discriminate; auto].
    all: try solve [destruct (pc s) as [| | | | | |p0|v0 p0| | |]; try destruct p0; auto; rewrite ?N1; auto; apply orb_true_r].
    all: try solve [destruct p; st_simpl; auto; try (intros; discriminate)].
    all: try solve [repeat match goal with H : stop_sig _ = true |- _ => rewrite H | H : in_closed _ = true |- _ => rewrite H end;
                    simpl; auto using orb_true_r].
    all: try assumption.
    all: try solve [rewrite Heqb in N1; exact N1].
Qed.



(* events of a continuation in which the client keeps running and the upstream behaves: no stop, no reconnect
   request, nothing new offered, every connect succeeds, every ack read returns an id, and a send / ping / ack read
   fails ONLY on a connection whose Close the client itself has executed ([closed]: the connections closed so far) *)
Definition is_closed (closed : list nat) (k : nat) : bool := existsb (Nat.eqb k) closed.

Definition healthy_at (closed : list nat) (e : event) : bool :=
  match e with
  | EOffer _ | EStop | EInClose | EReconnReq | EBugTimeout | ELeftover _ | EFinished => false
  | EConnRet _ ok => ok
  | ESendRet k _ r | EPingRet k r => match r with ROk => true | RErr => is_closed closed k end
  | EAckRet k a => match a with AId _ => true | AEmpty => false | AErr => is_closed closed k end
  | _ => true
  end.

Fixpoint healthy_from (closed : list nat) (tr : list event) : bool :=
  match tr with
  | [] => true
  | e :: r => healthy_at closed e && healthy_from (closed ++ closes_of [e]) r
  end.

(* the stricter, state-free notion used by the scripts of ClientLiveness: no failure at all *)
Definition healthy_cont (e : event) : bool :=
  match e with
  | EOffer _ | EStop | EInClose | EReconnReq | EBugTimeout | ELeftover _ | EFinished => false
  | EConnRet _ ok => ok
  | ESendRet _ _ r | EPingRet _ r => match r with ROk => true | RErr => false end
  | EAckRet _ a => match a with AId _ => true | _ => false end
  | _ => true
  end.

Lemma healthy_cont_at : forall cl e, healthy_cont e = true -> healthy_at cl e = true.
Proof. intros cl e H. destruct e; try exact H; simpl in *; try (destruct r; [reflexivity|discriminate]). destruct a; try discriminate; reflexivity. Qed.

Lemma healthy_cont_from : forall tr cl, forallb healthy_cont tr = true -> healthy_from cl tr = true.
Proof.
  induction tr as [|e tr IH]; intros cl H; [reflexivity|]. simpl in H. apply andb_prop in H. destruct H as [H1 H2].
  cbn [healthy_from]. rewrite (healthy_cont_at cl e H1). apply IH. exact H2.
Qed.

Lemma healthy_from_app : forall a b cl,
  healthy_from cl (a ++ b) = healthy_from cl a && healthy_from (cl ++ closes_of a) b.
Proof.
  induction a as [|e a IH]; intros b cl.
  - simpl. rewrite app_nil_r. reflexivity.
  - cbn [app healthy_from]. rewrite IH, <- andb_assoc. f_equal. f_equal.
    rewrite <- app_assoc. f_equal. destruct e; reflexivity.
Qed.

Definition rank (s : state) : nat :=
  match pc s with
  | MStart | MFinal | MDone => 0
  | MRetryWait => 1
  | MHardWait _ _ => 2
  | MSoftWait _ => 3
  | MInput => 4
  | MEnqueue FInput _ => 5
  | MSend FInput _ => 6
  | MResend => 7 + 3 * length (lo s)
  | MEnqueue FResend _ => 8 + 3 * length (lo s)
  | MSend FResend _ => 9 + 3 * length (lo s)
  | MConnecting => match opener s with OResult _ => 10 | ODialing => 11 | _ => 12 end + 3 * length (lo s)
  end.

Definition arank (s : state) : nat :=
  match cur s with
  | Some ss => if s_ended ss then 0
               else 1 + 3 * length (s_achan ss) + match s_apc ss with AReading _ => 2 | AAcked _ => 1 | _ => 0 end
  | None => 0
  end.

Definition crank (s : state) : nat := length (close_pend s).

Definition closer (s s' : state) : Prop :=
  rank s' < rank s \/ (rank s' = rank s /\ arank s' < arank s) \/
  (rank s' = rank s /\ arank s' = arank s /\ crank s' < crank s).

(* the acknowledger can always make a step towards being idle, drained or ended *)
Lemma acker_step : forall P s ss,
  reach P s -> cur s = Some ss -> s_ended ss = false ->
  (s_apc ss = AIdle -> s_achan ss <> [] \/ s_abort ss = true) ->
  exists e s', healthy_cont e = true /\ step P s e = Some s' /\ rank s' = rank s /\ arank s' < arank s.
Proof.
  intros P s ss Hr Hcur Hend Hidle.
  pose proof (inv1_reach P s Hr) as Hi. destruct (i_sess s Hi ss Hcur) as (He1 & He2 & Hpend & _).
  destruct (s_apc ss) as [|nx|d|] eqn:Hapc.
  - destruct (s_achan ss) as [|d rest] eqn:Hach.
    + destruct (Hidle eq_refl) as [H|Habort]; [congruence|].
      exists EAckerAbort. eexists. split; [reflexivity|]. split.
      { unfold step. rewrite Hcur, Hapc, Habort. reflexivity. }
      unfold rank, arank. st_simpl. rewrite Hcur, Hend, Hach, Hapc. st_simpl. split; [reflexivity|]. simpl. lia.
    + exists (EAckerTake d). eexists. split; [reflexivity|]. split.
      { unfold step. rewrite Hcur, Hapc, Hach, N.eqb_refl. reflexivity. }
      unfold rank, arank. st_simpl. rewrite Hcur, Hend, Hach, Hapc. st_simpl. split; [reflexivity|]. simpl. lia.
  - exists (EAckRet (s_id ss) (AId nx)). eexists. split; [reflexivity|]. split.
    { unfold step. rewrite Hcur, Hapc, Nat.eqb_refl. apply mem_In in Hpend. rewrite Hpend. reflexivity. }
    unfold rank, arank. st_simpl. rewrite Hcur, Hend, Hapc. st_simpl. split; [reflexivity|]. lia.
  - exists (EConsumed d). eexists. split; [reflexivity|]. split.
    { unfold step. rewrite Hcur, Hapc, N.eqb_refl. reflexivity. }
    unfold rank, arank. st_simpl. rewrite Hcur, Hend, Hapc. st_simpl. split; [reflexivity|]. lia.
  - rewrite (He2 eq_refl) in Hend. discriminate.
Qed.

(* the states the scheduler drives towards: a session boundary, or processInput with a drained, idle acknowledger *)
Definition settled (s : state) : bool :=
  match pc s with
  | MStart => true
  | MInput => match cur s with
              | Some ss => negb (s_ended ss) && match s_achan ss, s_apc ss with [], AIdle => true | _, _ => false end
              | None => false
              end
  | _ => false
  end.

Lemma filter_len_le : forall (f : nat -> bool) l, length (filter f l) <= length l.
Proof. intros f l. induction l as [|a l IH]; simpl; [lia|]. destruct (f a); simpl; lia. Qed.

Lemma filter_shorter : forall k l, In k l -> length (filter (fun x => negb (Nat.eqb k x)) l) < length l.
Proof.
  intros k l. induction l as [|a l IH]; intros H; [contradiction|]. simpl.
  destruct (Nat.eqb_spec k a); simpl.
  - pose proof (filter_len_le (fun x => negb (Nat.eqb k x)) l). lia.
  - destruct H as [H|H]; [congruence|]. specialize (IH H). lia.
Qed.

Lemma is_closed_In : forall cl k, In k cl -> is_closed cl k = true.
Proof. intros cl k H. unfold is_closed. apply existsb_exists. exists k. split; [exact H|apply Nat.eqb_refl]. Qed.

Lemma one_step : forall P tr0 s,
  reach_by P tr0 s -> stopping s = false -> 1 <= p_cap P -> settled s = false ->
  exists e s', healthy_at (closes_of tr0) e = true /\ step P s e = Some s' /\ closer s s'.
Proof.
  intros P tr0 s Hrb Hlive Hcap Hset.
  assert (Hr : reach P s) by (exists tr0; exact Hrb).
  pose proof (inv1_reach P s Hr) as Hi. pose proof (inv6_reach P s Hr) as [N1 N2 N3].
  assert (Hstop : stop_sig s = false) by (unfold stopping in Hlive; destruct (stop_sig s); [discriminate|reflexivity]).
  assert (Hinc : in_closed s = false) by (unfold stopping in Hlive; destruct (stop_sig s); destruct (in_closed s); try discriminate; reflexivity).
  assert (Hsess : between (pc s) = false -> exists ss, cur s = Some ss) by (apply (i_insess s Hi)).
  unfold settled in Hset.
  destruct (pc s) as [| | |f c|f c| |p|prev p| | |] eqn:Epc; try discriminate Hset.
  - (* MConnecting *)
    destruct (opener s) as [| | |ok] eqn:Eop; [exfalso; apply N3; auto| | |].
    + exists (EConnStart (S (nconn s))). eexists. split; [reflexivity|]. split.
      { unfold step. rewrite Eop, Nat.eqb_refl. reflexivity. }
      left. unfold rank. st_simpl. cbn [opener st_opener]. rewrite Epc, Eop. lia.
    + exists (EConnRet (nconn s) true). eexists. split; [reflexivity|]. split.
      { unfold step. rewrite Eop, Nat.eqb_refl. reflexivity. }
      left. unfold rank. st_simpl. cbn [opener st_opener]. rewrite Epc, Eop. lia.
    + exists EMainConn. destruct ok.
      * eexists. split; [reflexivity|]. split; [unfold step; rewrite Epc, Eop; reflexivity|].
        left. unfold rank. st_simpl. rewrite Epc, Eop. lia.
      * eexists. split; [reflexivity|]. split; [unfold step; rewrite Epc, Eop; reflexivity|].
        left. unfold rank. st_simpl. rewrite Epc, Eop. lia.
  - (* MResend *)
    destruct (lo s) as [|c rest] eqn:Elo.
    + exists EResendDone. eexists. split; [reflexivity|]. split; [unfold step; rewrite Epc, Elo, Hstop; reflexivity|].
      left. unfold rank. st_simpl. rewrite Epc, Elo. simpl. lia.
    + exists (EResendTake c). eexists. split; [reflexivity|]. split; [unfold step; rewrite Epc, Elo, N.eqb_refl; reflexivity|].
      left. unfold rank. st_simpl. rewrite Epc, Elo. simpl. lia.
  - (* MSend *)
    destruct (Hsess ltac:(reflexivity)) as (ss & Hcur).
    exists (ESendRet (s_id ss) c ROk). eexists. split; [reflexivity|]. split.
    { unfold step. rewrite Epc, Hcur, Nat.eqb_refl, N.eqb_refl. reflexivity. }
    left. unfold rank. st_simpl. rewrite Epc. destruct f; lia.
  - (* MEnqueue *)
    destruct (Hsess ltac:(reflexivity)) as (ss & Hcur).
    destruct (s_ended ss) eqn:Eend.
    + exists EEnqEnded. eexists. split; [reflexivity|]. split; [unfold step; rewrite Epc, Hcur, Eend; reflexivity|].
      left. unfold rank. st_simpl. rewrite Epc. destruct f; lia.
    + destruct (Nat.ltb (length (s_achan ss)) (p_cap P)) eqn:Eroom.
      * exists EEnqueue. eexists. split; [reflexivity|]. split; [unfold step; rewrite Epc, Hcur, Eroom; reflexivity|].
        left. unfold rank. st_simpl. rewrite Epc. destruct f; st_simpl; lia.
      * assert (Hne : s_achan ss <> []).
        { intro E. rewrite E in Eroom. simpl in Eroom. apply Nat.ltb_ge in Eroom. lia. }
        destruct (acker_step P s ss Hr Hcur Eend ltac:(auto)) as (e & s' & H1 & H2 & H3 & H4).
        exists e, s'. split; [apply healthy_cont_at; exact H1|]. split; [exact H2|]. right. left. auto.
  - (* MInput, not settled: the acknowledger has work to do, or it has ended (it closed the connection: the next
       ping fails once Close has been executed) *)
    destruct (Hsess ltac:(reflexivity)) as (ss & Hcur). rewrite Hcur in Hset.
    destruct (s_ended ss) eqn:Eend.
    + destruct (signals_once_lemma P s ss Hr Hcur) as (Hsig & _). rewrite Epc in Hsig. destruct (Hsig eq_refl) as [Hacl Habt].
      destruct (ended_why P s Hr ss Hcur Eend) as [Hq|[Hq|Hq]]; try congruence.
      destruct (close_tracked_reach P tr0 s Hrb ss Hcur Hq) as [Hp|Hc].
      * exists (EClose (s_id ss)).
        destruct (close_pend s) as [|k' rest] eqn:Ecp; [contradiction|].
        destruct (Nat.eqb (s_id ss) k') eqn:Ek.
        { eexists. split; [reflexivity|]. split; [unfold step; rewrite Ecp, Ek; reflexivity|].
          right. right. unfold rank, arank, crank. st_simpl. cbn [close_pend opener st_misc]. rewrite Ecp. simpl. auto. }
        { assert (Hin : In (s_id ss) rest).
          { destruct Hp as [Hp|Hp]; [subst k'; rewrite Nat.eqb_refl in Ek; discriminate|exact Hp]. }
          assert (Hex : existsb (Nat.eqb (s_id ss)) rest = true).
          { apply existsb_exists. exists (s_id ss). split; [exact Hin|apply Nat.eqb_refl]. }
          eexists. split; [reflexivity|]. split; [unfold step; rewrite Ecp, Ek, Hex; reflexivity|].
          right. right. unfold rank, arank, crank. st_simpl. cbn [close_pend opener st_misc]. rewrite Ecp.
          pose proof (filter_shorter (s_id ss) rest Hin). simpl. repeat split; auto. lia. }
      * exists (EPingRet (s_id ss) RErr). eexists. split; [apply is_closed_In; exact Hc|]. split.
        { unfold step. rewrite Epc, Hcur, Nat.eqb_refl. reflexivity. }
        left. unfold rank. st_simpl. rewrite Epc. lia.
    + destruct (acker_step P s ss Hr Hcur Eend) as (e & s' & H1 & H2 & H3 & H4).
      { intros Ha. left. intro Hn. rewrite Ha, Hn in Hset. discriminate Hset. }
      exists e, s'. split; [apply healthy_cont_at; exact H1|]. split; [exact H2|]. right. left. auto.
  - (* MSoftWait *)
    destruct (Hsess ltac:(reflexivity)) as (ss & Hcur).
    exists ESoftDone. eexists. split; [reflexivity|]. split; [unfold step; rewrite Epc, Hcur; reflexivity|].
    left. unfold rank. st_simpl. rewrite Epc. lia.
  - (* MHardWait *)
    destruct (Hsess ltac:(reflexivity)) as (ss & Hcur).
    destruct (s_ended ss) eqn:Eend.
    + destruct (i_sess s Hi ss Hcur) as (He1 & _). destruct (He1 Eend) as [Hun _].
      exists ECollected. eexists. split; [reflexivity|]. split; [unfold step; rewrite Epc, Hcur, Eend, Hun; reflexivity|].
      left. unfold rank. st_simpl. rewrite Epc.
      destruct p; st_simpl; lia.
    + destruct (acker_step P s ss Hr Hcur Eend) as (e & s' & H1 & H2 & H3 & H4).
      { intros _. right. apply N2; [exact Hcur|reflexivity]. }
      exists e, s'. split; [apply healthy_cont_at; exact H1|]. split; [exact H2|]. right. left. auto.
  - (* MRetryWait *)
    exists ERetryTimeout. eexists. split; [reflexivity|]. split; [unfold step; rewrite Epc; reflexivity|].
    left. unfold rank. st_simpl. rewrite Epc. lia.
  - (* MFinal *) rewrite N1 in Hlive. discriminate.
  - (* MDone *) rewrite N1 in Hlive. discriminate.
Qed.

Lemma healthy_keeps_running : forall P cl s e s',
  healthy_at cl e = true -> step P s e = Some s' -> stop_sig s' = stop_sig s /\ in_closed s' = in_closed s /\ inq s' = inq s \/
  (exists c, e = ETake c /\ stop_sig s' = stop_sig s /\ in_closed s' = in_closed s).
Proof.
  intros P cl s e s' Hh Hs. destruct e; try discriminate Hh; step_inv Hs;
    cbn [stop_sig in_closed inq st_env st_main st_sess st_misc st_inq st_opener st_hist collect_hard collect_soft
         h_add_sent h_add_ack h_add_consumed h_add_handed h_set_finished h_add_los]; auto.
  all: try (right; eexists; split; [reflexivity|auto]).
Qed.

Lemma healthy_stopping : forall P cl s e s',
  healthy_at cl e = true -> step P s e = Some s' -> stopping s' = stopping s.
Proof.
  intros P cl s e s' Hh Hs. unfold stopping.
  destruct (healthy_keeps_running P cl s e s' Hh Hs) as [(H1 & H2 & _)|(c & _ & H1 & H2)]; rewrite H1, H2; reflexivity.
Qed.

Lemma to_settled : forall P, 1 <= p_cap P ->
  forall n m l tr0 s, rank s = n -> arank s = m -> crank s = l -> reach_by P tr0 s -> stopping s = false ->
  exists tr s', run P s tr = Some s' /\ healthy_from (closes_of tr0) tr = true /\ settled s' = true.
Proof.
  intros P Hcap n. induction n as [n IHn] using lt_wf_ind.
  intros m. induction m as [m IHm] using lt_wf_ind.
  intros l. induction l as [l IHl] using lt_wf_ind.
  intros tr0 s Hn Hm Hl Hr Hlive.
  destruct (settled s) eqn:Eset.
  1: { exists [], s. auto. }
  destruct (one_step P tr0 s Hr Hlive Hcap Eset) as (e & s1 & He & Hs & Hc).
  assert (Hr1 : reach_by P (tr0 ++ [e]) s1) by (unfold reach_by in *; rewrite run_snoc, Hr; exact Hs).
  assert (Hl1 : stopping s1 = false) by (rewrite (healthy_stopping P _ s e s1 He Hs); exact Hlive).
  assert (exists tr s', run P s1 tr = Some s' /\ healthy_from (closes_of (tr0 ++ [e])) tr = true /\ settled s' = true)
    as (tr & s' & R & F & Pc).
  { destruct Hc as [Hlt|[[Heq Hlt]|(Heq1 & Heq2 & Hlt)]].
    - exact (IHn (rank s1) ltac:(lia) (arank s1) (crank s1) _ s1 eq_refl eq_refl eq_refl Hr1 Hl1).
    - exact (IHm (arank s1) ltac:(lia) (crank s1) _ s1 ltac:(lia) eq_refl eq_refl Hr1 Hl1).
    - exact (IHl (crank s1) ltac:(lia) _ s1 ltac:(lia) ltac:(lia) eq_refl Hr1 Hl1). }
  exists (e :: tr), s'. cbn [run healthy_from]. rewrite Hs, He. rewrite closes_of_app in F. auto.
Qed.

Lemma healthy_run_stopping : forall P tr cl s s',
  healthy_from cl tr = true -> run P s tr = Some s' -> stopping s' = stopping s.
Proof.
  intros P tr. induction tr as [|e tr IH]; intros cl s s' Hf Hr; simpl in *.
  - inversion Hr; reflexivity.
  - apply andb_prop in Hf. destruct Hf as [He Hf]. destruct (step P s e) as [s1|] eqn:E; [|discriminate Hr].
    rewrite (IH _ s1 s' Hf Hr). eapply healthy_stopping; eauto.
Qed.

Lemma healthy_script_healthy : forall k L Q, forallb healthy_cont (healthy k L Q) = true.
Proof.
  intros. unfold healthy. rewrite !forallb_app.
  assert (H : forall f l, forallb healthy_cont (flat_map (round k f) l) = true).
  { intros f l. induction l as [|c l IH]; [reflexivity|]. cbn [flat_map]. rewrite forallb_app, IH.
    destruct f; reflexivity. }
  rewrite !H. reflexivity.
Qed.

Lemma rounds_healthy : forall k f l, forallb healthy_cont (flat_map (round k f) l) = true.
Proof.
  intros k f l. induction l as [|c l IH]; [reflexivity|]. cbn [flat_map]. rewrite forallb_app, IH.
  destruct f; reflexivity.
Qed.

Lemma healthy_no_offer : forall tr cl, healthy_from cl tr = true -> offered_of tr = [] /\ ~ In EBugTimeout tr /\ handed_of tr = [].
Proof.
  induction tr as [|e tr IH]; intros cl Hf; [simpl; auto|].
  cbn [healthy_from] in Hf. apply andb_prop in Hf. destruct Hf as [He Hf]. destruct (IH _ Hf) as (I1 & I2 & I3).
  destruct e; try discriminate He; simpl; (split; [exact I1|split; [|exact I3]]);
    intros [H|H]; try discriminate H; auto.
Qed.

Lemma offered_of_app : forall a b, offered_of (a ++ b) = offered_of a ++ offered_of b.
Proof. induction a as [|e a IH]; intros b; [reflexivity|]. destruct e; simpl; rewrite ?IH; reflexivity. Qed.
Lemma handed_of_app : forall a b, handed_of (a ++ b) = handed_of a ++ handed_of b.
Proof. induction a as [|e a IH]; intros b; [reflexivity|]. destruct e; simpl; rewrite ?IH; reflexivity. Qed.

(* from a settled state the healthy script (a fresh session, or the rest of the queue on the running one) leaves
   nothing held and nothing queued *)
Lemma settled_finish : forall P s, p_fix P = true -> 1 <= p_cap P -> reach P s -> stopping s = false -> settled s = true ->
  exists tr s', run P s tr = Some s' /\ forallb healthy_cont tr = true /\ holdings s' = [] /\ inq s' = [].
Proof.
  intros P s Hfix Hcap Hr Hlive Hset. unfold settled in Hset.
  assert (Hstop : stop_sig s = false) by (unfold stopping in Hlive; destruct (stop_sig s); [discriminate|reflexivity]).
  destruct (pc s) eqn:Epc; try discriminate Hset.
  - destruct (progress_lemma P s Hcap Epc Hstop) as (s2 & R2 & _ & _ & L2 & Q2 & La2 & (ss2 & C2 & Hh2)).
    eexists. exists s2. split; [exact R2|]. split; [apply healthy_script_healthy|].
    split; [unfold holdings; rewrite L2, La2, C2, Hh2; reflexivity|exact Q2].
  - destruct (cur s) as [ss|] eqn:Hcur; [|discriminate Hset].
    apply andb_prop in Hset. destruct Hset as [Hend Hq].
    destruct (s_achan ss) eqn:Hach; [|discriminate Hq]. destruct (s_apc ss) eqn:Hapc; try discriminate Hq.
    pose proof (pend_shape_reach P s Hfix Hr ss Hcur) as Hps. unfold pend_shape in Hps. rewrite Hapc in Hps.
    pose proof (inv1_reach P s Hr) as Hi. pose proof (i_last s Hi) as Hl. pose proof (i_lo s Hi) as Hlo. rewrite Epc in Hl, Hlo.
    assert (Hqt : quiet s (s_id ss)) by (exists ss; repeat split; auto).
    destruct (rounds_input P (s_id ss) (inq s) s Hcap Epc eq_refl Hqt) as (s2 & R2 & P2 & I2 & Q2 & L2 & _).
    eexists. exists s2. split; [exact R2|]. split; [apply rounds_healthy|]. split; [|exact I2].
    destruct Q2 as (ss2 & C2 & _ & A2 & Pn2 & _ & La2).
    unfold holdings, sess_holdings. rewrite L2, Hlo, La2, C2, A2, Pn2. reflexivity.
Qed.

(* For the repaired client, with or without a max session age: from ANY reachable state of a client that has not
   been asked to stop there is a continuation in which it keeps running and the upstream behaves, after which every
   chunk ever taken from the queue has been reported delivered, nothing is held, nothing was handed back and the
   queue is empty. *)
Lemma recoverable_lemma : forall P tr0 s,
  1 <= p_cap P -> p_fix P = true ->
  reach_by P tr0 s -> in_contract tr0 -> distinct_input tr0 -> stop_sig s = false -> in_closed s = false ->
  exists tr s', run P s tr = Some s' /\ healthy_from (closes_of tr0) tr = true /\
                holdings s' = [] /\ inq s' = [] /\
                Permutation (taken_of (tr0 ++ tr)) (consumed_of (tr0 ++ tr)) /\ handed_of (tr0 ++ tr) = [].
Proof.
  intros P tr0 s Hcap Hfix Hr0 Hc0 Hd0 Hstop Hinc.
  assert (Hlive : stopping s = false) by (unfold stopping; rewrite Hstop, Hinc; reflexivity).
  destruct (to_settled P Hcap (rank s) (arank s) (crank s) tr0 s eq_refl eq_refl eq_refl Hr0 Hlive) as (tr1 & s1 & R1 & F1 & P1).
  assert (Hl1 : stopping s1 = false) by (rewrite (healthy_run_stopping P tr1 _ s s1 F1 R1); exact Hlive).
  assert (Hreach1 : reach P s1) by (exists (tr0 ++ tr1); unfold reach_by in *; rewrite run_app, Hr0; exact R1).
  destruct (settled_finish P s1 Hfix Hcap Hreach1 Hl1 P1) as (tr2 & s2 & R2 & F2 & Hhold & Q2).
  exists (tr1 ++ tr2), s2.
  assert (Hrun : run P s (tr1 ++ tr2) = Some s2) by (rewrite run_app, R1; exact R2).
  assert (Hf : healthy_from (closes_of tr0) (tr1 ++ tr2) = true).
  { rewrite healthy_from_app, F1. apply healthy_cont_from. exact F2. }
  split; [exact Hrun|]. split; [exact Hf|].
  split; [exact Hhold|]. split; [exact Q2|].
  assert (Hr2 : reach_by P (tr0 ++ tr1 ++ tr2) s2).
  { unfold reach_by in *. rewrite run_app, Hr0. exact Hrun. }
  destruct (healthy_no_offer _ _ Hf) as (Ho & Hb & Hh).
  assert (Hc2 : in_contract (tr0 ++ tr1 ++ tr2)).
  { unfold in_contract in *. intro H. apply in_app_or in H. destruct H; auto. }
  assert (Hd2 : distinct_input (tr0 ++ tr1 ++ tr2)).
  { unfold distinct_input in *. rewrite offered_of_app, Ho, app_nil_r. exact Hd0. }
  destruct (resolved_lemma P _ s2 Hr2 Hc2 Hd2) as [Hperm _].
  assert (Hhand : handed_of (tr0 ++ tr1 ++ tr2) = []).
  { destruct (handed_of (tr0 ++ tr1 ++ tr2)) eqn:E; [reflexivity|]. exfalso.
    pose proof (hist_reach P _ s2 Hr2) as Hhist.
    assert (Hne : h_handed s2 <> []).
    { rewrite (hs_handed _ _ Hhist), E. simpl. intro H. apply app_eq_nil in H. destruct H; discriminate. }
    assert (Hreach2 : reach P s2) by (exists (tr0 ++ tr1 ++ tr2); exact Hr2).
    assert (Hl2 : stopping s2 = false) by (rewrite (healthy_run_stopping P _ _ s s2 Hf Hrun); exact Hlive).
    pose proof (inv6_reach P s2 Hreach2) as [N1 _ _].
    destruct (handed_only_at_end P s2 Hreach2 Hne) as [Hp|Hp]; rewrite Hp in N1; congruence. }
  split; [|exact Hhand].
  rewrite Hhold, Hhand in Hperm. simpl in Hperm. rewrite ?app_nil_r in Hperm. exact Hperm.
Qed.

(* ... and no healthy continuation can lead the repaired client into a state from which that is no longer possible
   (the negation of the liveness gap of the original code): after ANY healthy continuation a healthy completion exists *)
Lemma never_stuck_lemma : forall P tr0 s tr1 s1,
  1 <= p_cap P -> p_fix P = true ->
  reach_by P tr0 s -> in_contract tr0 -> distinct_input tr0 -> stop_sig s = false -> in_closed s = false ->
  healthy_from (closes_of tr0) tr1 = true -> run P s tr1 = Some s1 ->
  exists tr2 s2, run P s1 tr2 = Some s2 /\ healthy_from (closes_of (tr0 ++ tr1)) tr2 = true /\
                 holdings s2 = [] /\ inq s2 = [] /\
                 Permutation (taken_of (tr0 ++ tr1 ++ tr2)) (consumed_of (tr0 ++ tr1 ++ tr2)) /\
                 handed_of (tr0 ++ tr1 ++ tr2) = [].
Proof.
  intros P tr0 s tr1 s1 Hcap Hfix Hr0 Hc0 Hd0 Hstop Hinc Hf1 R1.
  assert (Hlive : stopping s = false) by (unfold stopping; rewrite Hstop, Hinc; reflexivity).
  assert (Hl1 : stopping s1 = false) by (rewrite (healthy_run_stopping P tr1 _ s s1 Hf1 R1); exact Hlive).
  unfold stopping in Hl1. apply orb_false_elim in Hl1. destruct Hl1 as [Hs1 Hi1].
  destruct (healthy_no_offer _ _ Hf1) as (Ho & Hb & _).
  assert (Hr1 : reach_by P (tr0 ++ tr1) s1) by (unfold reach_by in *; rewrite run_app, Hr0; exact R1).
  assert (Hc1 : in_contract (tr0 ++ tr1)).
  { unfold in_contract in *. intro H. apply in_app_or in H. destruct H; auto. }
  assert (Hd1 : distinct_input (tr0 ++ tr1)).
  { unfold distinct_input in *. rewrite offered_of_app, Ho, app_nil_r. exact Hd0. }
  destruct (recoverable_lemma P (tr0 ++ tr1) s1 Hcap Hfix Hr1 Hc1 Hd1 Hs1 Hi1) as (tr2 & s2 & H).
  exists tr2, s2. rewrite <- !app_assoc in H. exact H.
Qed.
