(* C02 — with a max session age the client can always recover: from any reachable state of a running client a
   healthy continuation gets every chunk ever taken reported delivered (scheduler + lexicographic measure). *)
From SV Require Import Model.Common Model.Client Spec.ClientSpec
     Proofs.ClientBase Proofs.ClientSafety Proofs.ClientHistory Proofs.ClientOrder Proofs.ClientTheorems Proofs.ClientLiveness.
From Coq Require Import Lia Permutation Wf_nat.
Local Open Scope nat_scope.

Definition stopping (s : state) : bool := stop_sig s || in_closed s.

Record inv6 (s : state) : Prop := {
  n_none : match pc s with
           | MHardWait _ PNone | MSoftWait PNone | MFinal | MDone => stopping s = true
           | _ => True end;
  n_abort : forall ss, cur s = Some ss -> hard_collecting (pc s) = true -> s_abort ss = true;
  n_opener : pc s = MConnecting -> opener s <> ONone
}.

Lemma inv6_reach : forall P s, reach P s -> inv6 s.
Proof.
  intros P. apply (reach_ind P inv6).
  - constructor; simpl; intros; try discriminate; auto.
  - intros s e s' _ [N1 N2 N3] Hs. destruct e; step_inv Hs.
    all: try (constructor; assumption).
    all: constructor; unfold stopping in *; st_simpl; cbn [stop_sig in_closed st_env st_main st_sess st_misc st_inq st_opener st_hist collect_hard collect_soft] in *; use_eqs2; st_simpl.
    all: try solve [intros; try discriminate; auto].
    all: try solve [intros ? E; inversion E; subst; st_simpl; intros; try discriminate; auto].
    all: try solve [destruct (pc s) as [| | | | | |p0|v0 p0| | |]; try destruct p0; auto; rewrite ?N1; auto; apply orb_true_r].
    all: try solve [destruct p; st_simpl; auto; try (intros; discriminate)].
    all: try solve [repeat match goal with H : stop_sig _ = true |- _ => rewrite H | H : in_closed _ = true |- _ => rewrite H end;
                    simpl; auto using orb_true_r].
    all: try assumption.
    all: try solve [rewrite Heqb in N1; exact N1].
Qed.


(* events of a continuation in which the client keeps running and the upstream behaves: no stop, no reconnect
   request, nothing new offered, every connect / send / ping succeeds, every ack read returns an id *)
Definition healthy_cont (e : event) : bool :=
  match e with
  | EOffer _ | EStop | EInClose | EReconnReq | EBugTimeout | ELeftover _ | EFinished => false
  | EConnRet _ ok => ok
  | ESendRet _ _ r | EPingRet _ r => match r with ROk => true | RErr => false end
  | EAckRet _ a => match a with AId _ => true | _ => false end
  | _ => true
  end.

Definition rank (s : state) : nat :=
  match pc s with
  | MStart | MFinal | MDone => 0
  | MRetryWait => 1
  | MHardWait _ _ => 2
  | MSoftWait _ => 3
  | MInput => 4
  | MEnqueue FInput _ => 5
  | MSend FInput _ => 6
  | MResend => 7 + 3 * length (lo s)
  | MEnqueue FResend _ => 8 + 3 * length (lo s)
  | MSend FResend _ => 9 + 3 * length (lo s)
  | MConnecting => match opener s with OResult _ => 10 | ODialing => 11 | _ => 12 end + 3 * length (lo s)
  end.

Definition arank (s : state) : nat :=
  match cur s with
  | Some ss => if s_ended ss then 0
               else 1 + 3 * length (s_achan ss) + match s_apc ss with AReading _ => 2 | AAcked _ => 1 | _ => 0 end
  | None => 0
  end.

Definition closer (s s' : state) : Prop := rank s' < rank s \/ (rank s' = rank s /\ arank s' < arank s).

(* the acknowledger can always make a step towards being idle, drained or ended *)
Lemma acker_step : forall P s ss,
  reach P s -> cur s = Some ss -> s_ended ss = false ->
  (s_apc ss = AIdle -> s_achan ss <> [] \/ s_abort ss = true) ->
  exists e s', healthy_cont e = true /\ step P s e = Some s' /\ rank s' = rank s /\ arank s' < arank s.
Proof.
  intros P s ss Hr Hcur Hend Hidle.
  pose proof (inv1_reach P s Hr) as Hi. destruct (i_sess s Hi ss Hcur) as (He1 & He2 & Hpend & _).
  destruct (s_apc ss) as [|nx|d|] eqn:Hapc.
  - destruct (s_achan ss) as [|d rest] eqn:Hach.
    + destruct (Hidle eq_refl) as [H|Habort]; [congruence|].
      exists EAckerAbort. eexists. split; [reflexivity|]. split.
      { unfold step. rewrite Hcur, Hapc, Habort. reflexivity. }
      unfold rank, arank. st_simpl. rewrite Hcur, Hend, Hach, Hapc. st_simpl. split; [reflexivity|]. simpl. lia.
    + exists (EAckerTake d). eexists. split; [reflexivity|]. split.
      { unfold step. rewrite Hcur, Hapc, Hach, N.eqb_refl. reflexivity. }
      unfold rank, arank. st_simpl. rewrite Hcur, Hend, Hach, Hapc. st_simpl. split; [reflexivity|]. simpl. lia.
  - exists (EAckRet (s_id ss) (AId nx)). eexists. split; [reflexivity|]. split.
    { unfold step. rewrite Hcur, Hapc, Nat.eqb_refl. apply mem_In in Hpend. rewrite Hpend. reflexivity. }
    unfold rank, arank. st_simpl. rewrite Hcur, Hend, Hapc. st_simpl. split; [reflexivity|]. lia.
  - exists (EConsumed d). eexists. split; [reflexivity|]. split.
    { unfold step. rewrite Hcur, Hapc, N.eqb_refl. reflexivity. }
    unfold rank, arank. st_simpl. rewrite Hcur, Hend, Hapc. st_simpl. split; [reflexivity|]. lia.
  - rewrite (He2 eq_refl) in Hend. discriminate.
Qed.

Lemma one_step : forall P s,
  reach P s -> stopping s = false -> p_maxage P = true -> 1 <= p_cap P -> pc s <> MStart ->
  exists e s', healthy_cont e = true /\ step P s e = Some s' /\ closer s s'.
Proof.
  intros P s Hr Hlive Hage Hcap Hpc.
  pose proof (inv1_reach P s Hr) as Hi. pose proof (inv6_reach P s Hr) as [N1 N2 N3].
  assert (Hstop : stop_sig s = false) by (unfold stopping in Hlive; destruct (stop_sig s); [discriminate|reflexivity]).
  assert (Hinc : in_closed s = false) by (unfold stopping in Hlive; destruct (stop_sig s); destruct (in_closed s); try discriminate; reflexivity).
  assert (Hsess : between (pc s) = false -> exists ss, cur s = Some ss) by (apply (i_insess s Hi)).
  destruct (pc s) as [| | |f c|f c| |p|prev p| | |] eqn:Epc; try congruence.
  - (* MConnecting *)
    destruct (opener s) as [| | |ok] eqn:Eop; [exfalso; apply N3; auto| | |].
    + exists (EConnStart (S (nconn s))). eexists. split; [reflexivity|]. split.
      { unfold step. rewrite Eop, Nat.eqb_refl. reflexivity. }
      left. unfold rank. st_simpl. cbn [opener st_opener]. rewrite Epc, Eop. lia.
    + exists (EConnRet (nconn s) true). eexists. split; [reflexivity|]. split.
      { unfold step. rewrite Eop, Nat.eqb_refl. reflexivity. }
      left. unfold rank. st_simpl. cbn [opener st_opener]. rewrite Epc, Eop. lia.
    + exists EMainConn. destruct ok.
      * eexists. split; [reflexivity|]. split; [unfold step; rewrite Epc, Eop; reflexivity|].
        left. unfold rank. st_simpl. rewrite Epc, Eop. lia.
      * eexists. split; [reflexivity|]. split; [unfold step; rewrite Epc, Eop; reflexivity|].
        left. unfold rank. st_simpl. rewrite Epc, Eop. lia.
  - (* MResend *)
    destruct (lo s) as [|c rest] eqn:Elo.
    + exists EResendDone. eexists. split; [reflexivity|]. split; [unfold step; rewrite Epc, Elo, Hstop; reflexivity|].
      left. unfold rank. st_simpl. rewrite Epc, Elo. simpl. lia.
    + exists (EResendTake c). eexists. split; [reflexivity|]. split; [unfold step; rewrite Epc, Elo, N.eqb_refl; reflexivity|].
      left. unfold rank. st_simpl. rewrite Epc, Elo. simpl. lia.
  - (* MSend *)
    destruct (Hsess ltac:(reflexivity)) as (ss & Hcur).
    exists (ESendRet (s_id ss) c ROk). eexists. split; [reflexivity|]. split.
    { unfold step. rewrite Epc, Hcur, Nat.eqb_refl, N.eqb_refl. reflexivity. }
    left. unfold rank. st_simpl. rewrite Epc. destruct f; lia.
  - (* MEnqueue *)
    destruct (Hsess ltac:(reflexivity)) as (ss & Hcur).
    destruct (s_ended ss) eqn:Eend.
    + exists EEnqEnded. eexists. split; [reflexivity|]. split; [unfold step; rewrite Epc, Hcur, Eend; reflexivity|].
      left. unfold rank. st_simpl. rewrite Epc. destruct f; lia.
    + destruct (Nat.ltb (length (s_achan ss)) (p_cap P)) eqn:Eroom.
      * exists EEnqueue. eexists. split; [reflexivity|]. split; [unfold step; rewrite Epc, Hcur, Eroom; reflexivity|].
        left. unfold rank. st_simpl. rewrite Epc. destruct f; st_simpl; lia.
      * assert (Hne : s_achan ss <> []).
        { intro E. rewrite E in Eroom. simpl in Eroom. apply Nat.ltb_ge in Eroom. lia. }
        destruct (acker_step P s ss Hr Hcur Eend ltac:(auto)) as (e & s' & H1 & H2 & H3 & H4).
        exists e, s'. split; [exact H1|]. split; [exact H2|]. right. auto.
  - (* MInput *)
    destruct (Hsess ltac:(reflexivity)) as (ss & Hcur).
    exists EMaxAge. eexists. split; [reflexivity|]. split; [unfold step; rewrite Epc, Hcur, Hage; reflexivity|].
    left. unfold rank. st_simpl. rewrite Epc. lia.
  - (* MSoftWait *)
    destruct (Hsess ltac:(reflexivity)) as (ss & Hcur).
    exists ESoftDone. eexists. split; [reflexivity|]. split; [unfold step; rewrite Epc, Hcur; reflexivity|].
    left. unfold rank. st_simpl. rewrite Epc. lia.
  - (* MHardWait *)
    destruct (Hsess ltac:(reflexivity)) as (ss & Hcur).
    destruct (s_ended ss) eqn:Eend.
    + destruct (i_sess s Hi ss Hcur) as (He1 & _). destruct (He1 Eend) as [Hun _].
      exists ECollected. eexists. split; [reflexivity|]. split; [unfold step; rewrite Epc, Hcur, Eend, Hun; reflexivity|].
      left. unfold rank. st_simpl. rewrite Epc.
      destruct p; st_simpl; lia.
    + destruct (acker_step P s ss Hr Hcur Eend) as (e & s' & H1 & H2 & H3 & H4).
      { intros _. right. apply N2; [exact Hcur|reflexivity]. }
      exists e, s'. split; [exact H1|]. split; [exact H2|]. right. auto.
  - (* MRetryWait *)
    exists ERetryTimeout. eexists. split; [reflexivity|]. split; [unfold step; rewrite Epc; reflexivity|].
    left. unfold rank. st_simpl. rewrite Epc. lia.
Qed.

Lemma healthy_keeps_running : forall P s e s',
  healthy_cont e = true -> step P s e = Some s' -> stop_sig s' = stop_sig s /\ in_closed s' = in_closed s /\ inq s' = inq s \/
  (exists c, e = ETake c /\ stop_sig s' = stop_sig s /\ in_closed s' = in_closed s).
Proof.
  intros P s e s' Hh Hs. destruct e; try discriminate Hh; step_inv Hs;
    cbn [stop_sig in_closed inq st_env st_main st_sess st_misc st_inq st_opener st_hist collect_hard collect_soft
         h_add_sent h_add_ack h_add_consumed h_add_handed h_set_finished h_add_los]; auto.
  all: try (destruct r; discriminate Hh).
  all: try (right; eexists; split; [reflexivity|auto]).
Qed.

Lemma healthy_stopping : forall P s e s',
  healthy_cont e = true -> step P s e = Some s' -> stopping s' = stopping s.
Proof.
  intros P s e s' Hh Hs. unfold stopping.
  destruct (healthy_keeps_running P s e s' Hh Hs) as [(H1 & H2 & _)|(c & _ & H1 & H2)]; rewrite H1, H2; reflexivity.
Qed.

Lemma to_boundary : forall P, p_maxage P = true -> 1 <= p_cap P ->
  forall n m s, rank s = n -> arank s = m -> reach P s -> stopping s = false ->
  exists tr s', run P s tr = Some s' /\ forallb healthy_cont tr = true /\ pc s' = MStart.
Proof.
  intros P Hage Hcap n. induction n as [n IHn] using lt_wf_ind.
  intros m. induction m as [m IHm] using lt_wf_ind.
  intros s Hn Hm Hr Hlive.
  destruct (pc s) eqn:Epc.
  1: { exists [], s. auto. }
  all: destruct (one_step P s Hr Hlive Hage Hcap ltac:(congruence)) as (e & s1 & He & Hs & Hc).
  all: assert (Hr1 : reach P s1) by (eapply reach_step; eauto).
  all: assert (Hl1 : stopping s1 = false) by (rewrite (healthy_stopping P s e s1 He Hs); exact Hlive).
  all: destruct Hc as [Hlt|[Heq Hlt]];
       [destruct (IHn (rank s1) ltac:(lia) (arank s1) s1 eq_refl eq_refl Hr1 Hl1) as (tr & s' & R & F & Pc)
       |destruct (IHm (arank s1) ltac:(lia) s1 ltac:(lia) eq_refl Hr1 Hl1) as (tr & s' & R & F & Pc)].
  all: exists (e :: tr), s'; simpl; rewrite Hs, He; auto.
Qed.

Lemma healthy_run_stopping : forall P tr s s',
  forallb healthy_cont tr = true -> run P s tr = Some s' -> stopping s' = stopping s.
Proof.
  intros P tr. induction tr as [|e tr IH]; intros s s' Hf Hr; simpl in *.
  - inversion Hr; reflexivity.
  - apply andb_prop in Hf. destruct Hf as [He Hf]. destruct (step P s e) as [s1|] eqn:E; [|discriminate Hr].
    rewrite (IH s1 s' Hf Hr). eapply healthy_stopping; eauto.
Qed.

Lemma healthy_script_healthy : forall k L Q, forallb healthy_cont (healthy k L Q) = true.
Proof.
  intros. unfold healthy. rewrite !forallb_app.
  assert (H : forall f l, forallb healthy_cont (flat_map (round k f) l) = true).
  { intros f l. induction l as [|c l IH]; [reflexivity|]. cbn [flat_map]. rewrite forallb_app, IH.
    destruct f; reflexivity. }
  rewrite !H. reflexivity.
Qed.

Lemma healthy_no_offer : forall tr, forallb healthy_cont tr = true -> offered_of tr = [] /\ ~ In EBugTimeout tr /\ handed_of tr = [].
Proof.
  induction tr as [|e tr IH]; intros Hf; [simpl; auto|].
  simpl in Hf. apply andb_prop in Hf. destruct Hf as [He Hf]. destruct (IH Hf) as (I1 & I2 & I3).
  destruct e; try discriminate He; simpl; (split; [exact I1|split; [|exact I3]]);
    intros [H|H]; try discriminate H; auto.
Qed.

Lemma offered_of_app : forall a b, offered_of (a ++ b) = offered_of a ++ offered_of b.
Proof. induction a as [|e a IH]; intros b; [reflexivity|]. destruct e; simpl; rewrite ?IH; reflexivity. Qed.
Lemma handed_of_app : forall a b, handed_of (a ++ b) = handed_of a ++ handed_of b.
Proof. induction a as [|e a IH]; intros b; [reflexivity|]. destruct e; simpl; rewrite ?IH; reflexivity. Qed.

(* With a max session age: from ANY reachable state of a client that has not been asked to stop there is a
   continuation in which it keeps running and the upstream behaves, after which every chunk ever taken from the
   queue - including the ones stuck behind an unknown-id ACK - has been reported delivered, nothing is held,
   nothing was handed back and the queue is empty. *)
Lemma recoverable_lemma : forall P tr0 s,
  1 <= p_cap P -> p_maxage P = true ->
  reach_by P tr0 s -> in_contract tr0 -> distinct_input tr0 -> stop_sig s = false -> in_closed s = false ->
  exists tr s', run P s tr = Some s' /\ forallb healthy_cont tr = true /\
                holdings s' = [] /\ inq s' = [] /\
                Permutation (taken_of (tr0 ++ tr)) (consumed_of (tr0 ++ tr)) /\ handed_of (tr0 ++ tr) = [].
Proof.
  intros P tr0 s Hcap Hage Hr0 Hc0 Hd0 Hstop Hinc.
  assert (Hlive : stopping s = false) by (unfold stopping; rewrite Hstop, Hinc; reflexivity).
  destruct (to_boundary P Hage Hcap (rank s) (arank s) s eq_refl eq_refl (ex_intro _ tr0 Hr0) Hlive) as (tr1 & s1 & R1 & F1 & P1).
  assert (Hl1 : stopping s1 = false) by (rewrite (healthy_run_stopping P tr1 s s1 F1 R1); exact Hlive).
  assert (Hs1 : stop_sig s1 = false) by (unfold stopping in Hl1; destruct (stop_sig s1); [discriminate|reflexivity]).
  destruct (progress_lemma P s1 Hcap P1 Hs1) as (s2 & R2 & _ & _ & L2 & Q2 & La2 & (ss2 & C2 & Hh2)).
  set (tr2 := healthy (S (nconn s1)) (lo s1) (inq s1)) in *.
  exists (tr1 ++ tr2), s2.
  assert (Hrun : run P s (tr1 ++ tr2) = Some s2) by (rewrite run_app, R1; exact R2).
  assert (Hf : forallb healthy_cont (tr1 ++ tr2) = true) by (rewrite forallb_app, F1; apply healthy_script_healthy).
  split; [exact Hrun|]. split; [exact Hf|].
  assert (Hhold : holdings s2 = []) by (unfold holdings; rewrite L2, La2, C2, Hh2; reflexivity).
  split; [exact Hhold|]. split; [exact Q2|].
  assert (Hr2 : reach_by P (tr0 ++ tr1 ++ tr2) s2).
  { unfold reach_by in *. rewrite run_app, Hr0. exact Hrun. }
  destruct (healthy_no_offer _ Hf) as (Ho & Hb & Hh).
  assert (Hc2 : in_contract (tr0 ++ tr1 ++ tr2)).
  { unfold in_contract in *. intro H. apply in_app_or in H. destruct H; auto. }
  assert (Hd2 : distinct_input (tr0 ++ tr1 ++ tr2)).
  { unfold distinct_input in *. rewrite offered_of_app, Ho, app_nil_r. exact Hd0. }
  destruct (resolved_lemma P _ s2 Hr2 Hc2 Hd2) as [Hperm _].
  assert (Hhand : handed_of (tr0 ++ tr1 ++ tr2) = []).
  { destruct (handed_of (tr0 ++ tr1 ++ tr2)) eqn:E; [reflexivity|]. exfalso.
    pose proof (hist_reach P _ s2 Hr2) as Hhist.
    assert (Hne : h_handed s2 <> []).
    { rewrite (hs_handed _ _ Hhist), E. simpl. intro H. apply app_eq_nil in H. destruct H; discriminate. }
    assert (Hreach2 : reach P s2) by (exists (tr0 ++ tr1 ++ tr2); exact Hr2).
    destruct (handed_only_at_end P s2 Hreach2 Hne) as [Hp|Hp];
      destruct (i_between s2 (inv1_reach P s2 Hreach2)) as [Hcn _]; try (rewrite Hp; reflexivity); congruence. }
  split; [|exact Hhand].
  rewrite Hhold, Hhand in Hperm. simpl in Hperm. rewrite ?app_nil_r in Hperm. exact Hperm.
Qed.
