From SV Require Import Model.Common Model.ParseTime Spec.TimeSpec Proofs.CommonFacts.
From Coq Require Import Lia ZifyBool ZifyN ZifyNat.
Ltac Zify.zify_post_hook ::= Z.div_mod_to_equations.
Open Scope Z_scope.

(* ---------- digits ---------- *)
Lemma bsub0_digit : forall q, (q < 10)%N -> bsub0 (48 + q) = Z.of_N q.
Proof. intros q H. unfold bsub0. f_equal. lia. Qed.

Lemma bsub0_range : forall c, 0 <= bsub0 c <= 255.
Proof. intros c. unfold bsub0. lia. Qed.

Lemma atoi_d2 : forall x, (x <= 99)%N ->
  bsub0 (48 + x / 10) * 10 + bsub0 (48 + x mod 10) = Z.of_N x.
Proof. intros x H. rewrite !bsub0_digit by lia. lia. Qed.

Lemma atoi_d4 : forall x, (x <= 9999)%N ->
  bsub0 (48 + x / 1000) * 1000 + bsub0 (48 + (x / 100) mod 10) * 100 +
  bsub0 (48 + (x / 10) mod 10) * 10 + bsub0 (48 + x mod 10) = Z.of_N x.
Proof. intros x H. rewrite !bsub0_digit by lia. lia. Qed.

(* ---------- the shape of parse on a 19-byte head ---------- *)
Definition parse_tail (lo : Z) (secs : Z) (rest : bytes) : outcome (Z * Z) :=
  let (frac, tz) := split_frac_tz rest in
  nsec <- parse_fraction_nanos frac ;;
  off <- match tz with [] => Ok lo | _ => parse_tz tz end ;;
  Ok (secs - off, nsec).

Lemma parse_shape : forall lo y1 y2 y3 y4 m1 m2 d1 d2 h1 h2 i1 i2 s1 s2 rest,
  parse_rfc3339 lo (y1 :: y2 :: y3 :: y4 :: 45%N :: m1 :: m2 :: 45%N :: d1 :: d2 :: 84%N ::
                    h1 :: h2 :: 58%N :: i1 :: i2 :: 58%N :: s1 :: s2 :: rest) =
  parse_tail lo (go_date_unix (bsub0 y1 * 1000 + bsub0 y2 * 100 + bsub0 y3 * 10 + bsub0 y4)
                              (bsub0 m1 * 10 + bsub0 m2) (bsub0 d1 * 10 + bsub0 d2)
                              (bsub0 h1 * 10 + bsub0 h2) (bsub0 i1 * 10 + bsub0 i2) (bsub0 s1 * 10 + bsub0 s2)) rest.
Proof.
  intros. unfold parse_rfc3339, parse_tail.
  cbn [length Nat.ltb Nat.leb idx nth_error bind atoi2 atoi4 Nat.add skipn N.eqb Pos.eqb andb negb].
  destruct (split_frac_tz rest) as [f tz]. reflexivity.
Qed.

(* ---------- fraction ---------- *)
Lemma span_digits_app : forall f rest,
  Forall (fun d => (d < 10)%N) f ->
  (match rest with [] => True | c :: _ => is_digit c = false end) ->
  span_digits (map digit_char f ++ rest) = (map digit_char f, rest).
Proof.
  induction f as [|d f IH]; intros rest Hf Hr.
  - simpl. destruct rest as [|c r]; [reflexivity|]. simpl. rewrite Hr. reflexivity.
  - inversion Hf as [|? ? Hd Hf']; subst. simpl.
    rewrite is_digit_digit_char by assumption. rewrite IH by assumption. reflexivity.
Qed.

Lemma frac_loop_spec : forall n f acc,
  Forall (fun d => (d < 10)%N) f -> (length f <= n)%nat ->
  frac_loop n (map digit_char f) acc =
  fold_left (fun a d => a * 10 + Z.of_N d) f acc * 10 ^ (Z.of_nat n - Z.of_nat (length f)).
Proof.
  induction n as [|n IH]; intros f acc Hf Hl.
  - destruct f; simpl in *; [lia|lia].
  - destruct f as [|d f].
    + simpl map. cbn [frac_loop].
      pose proof (IH [] (acc * 10) ltac:(constructor) ltac:(simpl; lia)) as E. simpl map in E. rewrite E.
      simpl fold_left. simpl length.
      replace (Z.of_nat (S n) - Z.of_nat 0) with (Z.succ (Z.of_nat n - Z.of_nat 0)) by lia.
      rewrite Z.pow_succ_r by lia. lia.
    + inversion Hf as [|? ? Hd Hf']; subst. simpl map. cbn [frac_loop].
      unfold digit_char at 1. rewrite bsub0_digit by assumption.
      rewrite IH by (auto; simpl in Hl; lia). simpl fold_left. simpl length.
      f_equal. f_equal. lia.
Qed.

Lemma zone_head_not_digit : forall z,
  match render_zone z with [] => True | c :: _ => is_digit c = false end.
Proof. intros [|neg oh om colon]; simpl; [reflexivity|]. destruct neg; reflexivity. Qed.

Lemma zone_nonempty : forall z, render_zone z <> [].
Proof. intros [|neg oh om colon]; simpl; discriminate. Qed.

Lemma split_frac_render : forall f z,
  Forall (fun d => (d < 10)%N) f ->
  split_frac_tz (render_frac f ++ render_zone z) = (render_frac f, render_zone z).
Proof.
  intros f z Hf. destruct f as [|d f].
  - simpl. destruct z as [|neg oh om colon]; simpl; [reflexivity|]. destruct neg; reflexivity.
  - unfold render_frac. cbn [app]. unfold split_frac_tz.
    change (map digit_char (d :: f) ++ render_zone z) with (digit_char d :: (map digit_char f ++ render_zone z)).
    change (digit_char d :: (map digit_char f ++ render_zone z)) with (map digit_char (d :: f) ++ render_zone z).
    rewrite span_digits_app; [reflexivity|assumption|apply zone_head_not_digit].
Qed.

Lemma parse_fraction_render : forall f,
  Forall (fun d => (d < 10)%N) f -> (length f <= 9)%nat ->
  parse_fraction_nanos (render_frac f) = Ok (frac_nanos f).
Proof.
  intros f Hf Hl. destruct f as [|d f]; [reflexivity|].
  unfold render_frac, parse_fraction_nanos. cbn [map].
  change (digit_char d :: map digit_char f) with (map digit_char (d :: f)).
  rewrite frac_loop_spec by assumption. reflexivity.
Qed.

(* ---------- zone ---------- *)
Lemma getnum2_d2 : forall x, (x <= 99)%N ->
  getnum2 (48 + x / 10) (48 + x mod 10) = Some (Z.of_N x).
Proof.
  intros x H. unfold getnum2.
  replace (is_digit (48 + x / 10)) with true by (unfold is_digit; lia).
  replace (is_digit (48 + x mod 10)) with true by (unfold is_digit; lia).
  cbn [andb]. f_equal. lia.
Qed.

Lemma parse_tz_render : forall z, zone_ok z -> parse_tz (render_zone z) = Ok (zone_offset z).
Proof.
  intros [|neg oh om colon] Hz; [reflexivity|]. simpl in Hz. destruct Hz as [Hh Hm].
  assert (Hneq : forall q, (q < 10)%N -> ((48 + q =? 58)%N = false)) by (intros; lia).
  unfold render_zone, d2. destruct colon; cbn [app].
  - assert (Hc : has_colon ((if neg then 45%N else 43%N) :: (48 + oh / 10)%N :: (48 + oh mod 10)%N :: 58%N ::
                             (48 + om / 10)%N :: [(48 + om mod 10)%N]) = true).
    { unfold has_colon. cbn [existsb]. rewrite N.eqb_refl. rewrite !orb_true_r. reflexivity. }
    unfold parse_tz. rewrite Hc.
    destruct neg; cbn [N.eqb Pos.eqb]; rewrite !getnum2_d2 by lia; unfold tz_finish;
      (replace (Z.of_N oh >? 24) with false by lia); (replace (Z.of_N om >? 60) with false by lia);
      reflexivity.
  - assert (Hc : has_colon ((if neg then 45%N else 43%N) :: (48 + oh / 10)%N :: (48 + oh mod 10)%N ::
                             (48 + om / 10)%N :: [(48 + om mod 10)%N]) = false).
    { unfold has_colon. cbn [existsb]. rewrite !Hneq by lia. destruct neg; reflexivity. }
    unfold parse_tz. rewrite Hc.
    destruct neg; cbn [N.eqb Pos.eqb]; rewrite !getnum2_d2 by lia; unfold tz_finish;
      (replace (Z.of_N oh >? 24) with false by lia); (replace (Z.of_N om >? 60) with false by lia);
      reflexivity.
Qed.

(* ---------- calendar: the closed formula agrees with the plain sum, years 0..9999 ---------- *)
Definition dby (y : N) : Z := days_before_year (N.to_nat y).

Lemma dby_succ : forall y, dby (y + 1) = dby y + year_len y.
Proof.
  intros y. unfold dby. replace (N.to_nat (y + 1)) with (S (N.to_nat y)) by lia.
  cbn [days_before_year]. rewrite Nnat.N2Nat.id. reflexivity.
Qed.

Definition months : list N := [1;2;3;4;5;6;7;8;9;10;11;12]%N.

Definition check_months (y : N) (acc : Z) : bool :=
  forallb (fun m => days_from_civil (Z.of_N y) (Z.of_N m) 1 =?
                    acc + days_first_months y (N.to_nat m - 1) - 719528) months.

Fixpoint sweep (n : nat) (y : N) (acc : Z) : bool :=
  match n with
  | O => true
  | S n' => check_months y acc && sweep n' (y + 1)%N (acc + year_len y)
  end.

Lemma sweep_sound : forall n y, sweep n y (dby y) = true ->
  forall k, (k < n)%nat -> check_months (y + N.of_nat k) (dby (y + N.of_nat k)) = true.
Proof.
  induction n as [|n IH]; intros y H k Hk; [lia|].
  cbn [sweep] in H. apply andb_true_iff in H. destruct H as [H1 H2].
  destruct k as [|k].
  - replace (y + N.of_nat 0)%N with y by lia. exact H1.
  - rewrite <- dby_succ in H2. specialize (IH _ H2 k ltac:(lia)).
    replace (y + N.of_nat (S k))%N with (y + 1 + N.of_nat k)%N by lia. exact IH.
Qed.

Lemma sweep_10000 : sweep (N.to_nat 10000) 0 0 = true.
Proof. vm_compute. reflexivity. Qed.

Lemma dby_1970 : days_before_year 1970 = 719528.
Proof. vm_compute. reflexivity. Qed.

Lemma days_from_civil_spec : forall y m, (y <= 9999)%N -> (1 <= m <= 12)%N ->
  days_from_civil (Z.of_N y) (Z.of_N m) 1 = epoch_days y m 1.
Proof.
  intros y m Hy Hm.
  pose proof (sweep_sound (N.to_nat 10000) 0 sweep_10000 (N.to_nat y) ltac:(lia)) as H.
  replace (0 + N.of_nat (N.to_nat y))%N with y in H by lia.
  unfold check_months in H. rewrite forallb_forall in H.
  assert (Hin : In m months).
  { unfold months.
    assert (m = 1 \/ m = 2 \/ m = 3 \/ m = 4 \/ m = 5 \/ m = 6 \/ m = 7 \/ m = 8 \/ m = 9 \/ m = 10 \/ m = 11 \/ m = 12)%N as Hc by lia.
    simpl. intuition. }
  specialize (H m Hin). apply Z.eqb_eq in H. rewrite H.
  unfold epoch_days, dby. rewrite dby_1970. lia.
Qed.

(* ---------- go_date_unix on in-range components ---------- *)
Lemma days_from_civil_day : forall y m d, days_from_civil y m d = days_from_civil y m 1 + (d - 1).
Proof. intros. unfold days_from_civil. lia. Qed.

Lemma go_date_unix_valid : forall y m d h i s, (y <= 9999)%N -> (1 <= m <= 12)%N ->
  go_date_unix (Z.of_N y) (Z.of_N m) (Z.of_N d) h i s =
  epoch_days y m d * 86400 + h * 3600 + i * 60 + s.
Proof.
  intros y m d h i s Hy Hm. unfold go_date_unix.
  replace ((Z.of_N m - 1) / 12) with 0 by lia.
  replace ((Z.of_N m - 1) mod 12 + 1) with (Z.of_N m) by lia.
  replace (Z.of_N y + 0) with (Z.of_N y) by lia.
  rewrite days_from_civil_spec by assumption. unfold epoch_days. lia.
Qed.

(* ---------- C13 part 1: exactness ---------- *)
Lemma parse_render_exact_lemma : forall lo c, valid c -> parse_rfc3339 lo (render c) = Ok (instant c).
Proof.
  intros lo c (Hy & Hmo & Hd & Hh & Hmi & Hs & Hf & Hfl & Hz).
  unfold render, d4, d2. cbn [app].
  rewrite parse_shape. rewrite atoi_d4 by assumption.
  assert (Hdm : (days_in_month (yr c) (mo c) <= 31)%N).
  { unfold days_in_month. destruct (mo c) as [|p]; [lia|]. do 4 (try destruct p as [p|p|]; try lia); destruct (leap (yr c)); lia. }
  rewrite !atoi_d2 by lia.
  unfold parse_tail. rewrite split_frac_render by assumption.
  rewrite parse_fraction_render by assumption. cbn [bind].
  pose proof (zone_nonempty (zone c)) as Hne.
  destruct (render_zone (zone c)) as [|z0 zr] eqn:Ez; [congruence|].
  rewrite <- Ez. rewrite parse_tz_render by assumption. cbn [bind].
  rewrite go_date_unix_valid by assumption. reflexivity.
Qed.

(* ---------- C13 part 2: totality and the error path ---------- *)
Lemma idx_ok : forall t i, (i < length t)%nat -> exists c, idx t i = Ok c.
Proof.
  intros t i H. unfold idx. destruct (nth_error t i) eqn:E; [eauto|].
  apply nth_error_None in E. lia.
Qed.

Lemma parse_tz_no_panic : forall s, is_panic (parse_tz s) = false.
Proof.
  intros s. unfold parse_tz, tz_finish.
  repeat match goal with
         | |- context [match ?x with _ => _ end] => destruct x; try reflexivity
         end.
Qed.

Lemma parse_fraction_no_panic : forall f, is_panic (parse_fraction_nanos f) = false.
Proof. intros [|a [|b f]]; reflexivity. Qed.

Lemma parse_total_lemma : forall lo t, is_panic (parse_rfc3339 lo t) = false.
Proof.
  intros lo t. unfold parse_rfc3339.
  destruct (length t <? 19)%nat eqn:El; [reflexivity|].
  apply Nat.ltb_ge in El.
  do 19 (destruct t as [|? t]; [simpl in El; lia|]).
  cbn [idx nth_error bind atoi2 atoi4 Nat.add].
  match goal with |- context [negb ?b] => destruct (negb b); [reflexivity|] end.
  cbn [skipn]. destruct (split_frac_tz t) as [f tz].
  pose proof (parse_fraction_no_panic f) as Hf.
  destruct (parse_fraction_nanos f); try reflexivity; try discriminate.
  cbn [bind].
  destruct tz as [|z0 zr]; [reflexivity|].
  pose proof (parse_tz_no_panic (z0 :: zr)) as Hz.
  destruct (parse_tz (z0 :: zr)); try reflexivity; try discriminate.
Qed.

Definition shaped (t : bytes) : Prop :=
  (19 <= length t)%nat /\ nth_error t 4 = Some 45%N /\ nth_error t 7 = Some 45%N /\
  nth_error t 10 = Some 84%N /\ nth_error t 13 = Some 58%N /\ nth_error t 16 = Some 58%N.

Lemma unshaped_is_error_lemma : forall lo t, ~ shaped t -> exists e, parse_rfc3339 lo t = Err e.
Proof.
  intros lo t H. unfold parse_rfc3339.
  destruct (length t <? 19)%nat eqn:El; [eauto|].
  apply Nat.ltb_ge in El.
  do 19 (destruct t as [|? t]; [simpl in El; lia|]).
  cbn [idx nth_error bind].
  match goal with |- context [negb ?b] => destruct b eqn:Eb end; cbn [negb]; [|eauto].
  exfalso. apply H. unfold shaped. cbn [nth_error length].
  repeat (apply andb_true_iff in Eb; destruct Eb as [Eb ?]).
  repeat match goal with E : (_ =? _)%N = true |- _ => apply N.eqb_eq in E; subst end.
  repeat split; try reflexivity. lia.
Qed.

(* the transform: an unparsable value is counted once and leaves the timestamp alone;
   an empty value is skipped (field absent); nothing panics *)
Lemma transform_cases_lemma : forall lo v,
  match transform_parse_time lo v with
  | TpSkip => v = []
  | TpSet u n => parse_rfc3339 lo v = Ok (u, n)
  | TpError => v <> [] /\ exists e, parse_rfc3339 lo v = Err e
  | TpPanic _ => False
  end.
Proof.
  intros lo v. unfold transform_parse_time. destruct v as [|a v]; [reflexivity|].
  pose proof (parse_total_lemma lo (a :: v)) as Hp.
  destruct (parse_rfc3339 lo (a :: v)) as [[u n]|e|s]; simpl in Hp; try discriminate.
  - reflexivity.
  - split; [discriminate|eauto].
Qed.

(* non-vacuity: a concrete valid civil time and its rendering *)
Definition example_civil : civil :=
  {| yr := 2019; mo := 8; dy := 15; hh := 15; mi := 50; ss := 46;
     frac := [0;0;0;1;2;9]%N; zone := TzOff false 3 0 true |}.

Lemma example_valid : valid example_civil.
Proof.
  unfold valid, example_civil; simpl. repeat split; try lia.
  repeat constructor.
Qed.

Lemma example_value : parse_rfc3339 0 (render example_civil) = Ok (1565873446, 129000).
Proof. vm_compute. reflexivity. Qed.
