(* C06 - the orchestrator routes every record to the pipeline created for exactly its own key tuple;
   invariants of GlobalCachedMap / LocalCachedMap over arbitrary operation sequences. *)
From SV Require Import Model.Common Model.Routing Proofs.CommonFacts Proofs.MergedKeyProofs.
From Coq Require Import Lia ZifyBool ZifyN ZifyNat.
Ltac Zify.zify_post_hook ::= Z.div_mod_to_equations.
Open Scope N_scope.

(* ---------- association lists ---------- *)

Lemma lookup_In : forall m k i, lookup k m = Some i -> In (k, i) m.
Proof.
  induction m as [|[k' v] m IH]; intros k i H; cbn [lookup] in H; [discriminate|].
  destruct (bytes_eqb k k') eqn:E.
  - apply bytes_eqb_eq in E. subst. inversion H; subst. left. reflexivity.
  - right. apply IH. exact H.
Qed.

Lemma lookup_cons_eq : forall m k v, lookup k ((k, v) :: m) = Some v.
Proof. intros. cbn [lookup]. rewrite bytes_eqb_refl. reflexivity. Qed.

Lemma lookup_cons_ne : forall m k k' v, k <> k' -> lookup k ((k', v) :: m) = lookup k m.
Proof.
  intros m k k' v H. cbn [lookup]. destruct (bytes_eqb k k') eqn:E; [|reflexivity].
  apply bytes_eqb_eq in E. contradiction.
Qed.

(* ---------- the invariant ---------- *)

(* every entry of a map points to the pipeline whose keys merge to the entry's key *)
Definition map_ok (pipes : list pipeline) (m : amap) : Prop :=
  forall mk i, In (mk, i) m -> exists p, nth_error pipes i = Some p /\ mk = merged_key (p_keys p).

(* every pipeline was built from its own keys: id, tag, and the label values of its metric creator *)
Definition pipes_ok (parts : list tpart) (pipes : list pipeline) : Prop :=
  forall i p, nth_error pipes i = Some p ->
    p_id p = pipeline_id (p_keys p) /\ build_tag parts (p_keys p) = Ok (p_tag p) /\
    p_labels p = metric_label_values (p_keys p).

(* every pipeline is registered in the global map under its merged key *)
Definition complete (g : gstate) : Prop :=
  forall i p, nth_error (g_pipes g) i = Some p -> lookup (merged_key (p_keys p)) (g_map g) = Some i.

Record inv (parts : list tpart) (g : gstate) (lms : list amap) : Prop := {
  inv_global : map_ok (g_pipes g) (g_map g);
  inv_local : Forall (map_ok (g_pipes g)) lms;
  inv_pipes : pipes_ok parts (g_pipes g);
  inv_complete : complete g
}.

Lemma nth_error_app_l : forall (A : Type) (l ext : list A) i x, nth_error l i = Some x -> nth_error (l ++ ext) i = Some x.
Proof.
  intros A l ext i x H. rewrite nth_error_app1; [exact H|].
  apply nth_error_Some. rewrite H. discriminate.
Qed.

Lemma map_ok_ext : forall pipes ext m, map_ok pipes m -> map_ok (pipes ++ ext) m.
Proof.
  intros pipes ext m H mk i Hin. destruct (H mk i Hin) as [p [Hp Hk]].
  exists p. split; [apply nth_error_app_l; exact Hp|exact Hk].
Qed.

Lemma map_ok_nil : forall pipes, map_ok pipes [].
Proof. intros pipes mk i []. Qed.

Lemma inv_init : forall parts nsinks, inv parts g_init (repeat [] nsinks).
Proof.
  intros parts nsinks. constructor; cbn.
  - apply map_ok_nil.
  - induction nsinks; cbn; constructor; [apply map_ok_nil|assumption].
  - intros [|i] p H; discriminate.
  - intros [|i] p H; discriminate.
Qed.

(* a record with keys ks is served by pipeline number i *)
Definition served_by (parts : list tpart) (pipes : list pipeline) (ks : list bytes) (i : nat) : Prop :=
  exists p, nth_error pipes i = Some p /\ p_keys p = ks /\ p_id p = pipeline_id ks /\ build_tag parts ks = Ok (p_tag p) /\
            p_labels p = metric_label_values ks.

Lemma served_by_ext : forall parts pipes ext ks i, served_by parts pipes ks i -> served_by parts (pipes ++ ext) ks i.
Proof.
  intros parts pipes ext ks i [p [H1 H2]]. exists p. split; [apply nth_error_app_l; exact H1|exact H2].
Qed.

(* found under the merged key of ks => it is the pipeline of ks: this is where injectivity is used *)
Lemma map_ok_lookup : forall parts pipes m ks i,
  map_ok pipes m -> pipes_ok parts pipes -> lookup (merged_key ks) m = Some i -> served_by parts pipes ks i.
Proof.
  intros parts pipes m ks i Hm Hp Hl. apply lookup_In in Hl.
  destruct (Hm _ _ Hl) as [p [Hn Hk]]. apply merged_key_injective_lemma in Hk. subst ks.
  destruct (Hp _ _ Hn) as [Hid [Htag Hlab]]. exists p. auto.
Qed.

Lemma complete_unique : forall g i j p q,
  complete g -> nth_error (g_pipes g) i = Some p -> nth_error (g_pipes g) j = Some q -> p_keys p = p_keys q -> i = j.
Proof.
  intros g i j p q Hc Hi Hj Hk. pose proof (Hc _ _ Hi) as H1. pose proof (Hc _ _ Hj) as H2.
  rewrite Hk in H1. rewrite H1 in H2. inversion H2. reflexivity.
Qed.

(* ---------- GlobalCachedMap.getOrCreate ---------- *)

Lemma global_goc_spec : forall parts g ks g' i,
  map_ok (g_pipes g) (g_map g) -> pipes_ok parts (g_pipes g) -> complete g ->
  global_get_or_create parts g ks (merged_key ks) = Ok (g', i) ->
  (exists ext, g_pipes g' = g_pipes g ++ ext) /\
  map_ok (g_pipes g') (g_map g') /\ pipes_ok parts (g_pipes g') /\ complete g' /\
  served_by parts (g_pipes g') ks i.
Proof.
  intros parts g ks g' i Hm Hp Hc H. unfold global_get_or_create in H.
  destruct (lookup (merged_key ks) (g_map g)) as [j|] eqn:Hl.
  - inversion H; subst. split; [exists []; rewrite app_nil_r; reflexivity|].
    split; [assumption|]. split; [assumption|]. split; [assumption|]. eapply map_ok_lookup; eassumption.
  - unfold new_pipeline, obind in H. destruct (build_tag parts ks) as [tag| |] eqn:Htag; try discriminate.
    inversion H; subst; clear H. cbn [g_pipes g_map].
    set (p := {| p_keys := ks; p_id := pipeline_id ks; p_tag := tag; p_labels := metric_label_values ks |}).
    assert (Hnew : nth_error (g_pipes g ++ [p]) (length (g_pipes g)) = Some p).
    { rewrite nth_error_app2 by lia. rewrite Nat.sub_diag. reflexivity. }
    split; [exists [p]; reflexivity|]. split; [|split; [|split]].
    + intros mk i [Heq|Hin].
      * inversion Heq; subst. exists p. split; [exact Hnew|reflexivity].
      * exact (map_ok_ext _ _ _ Hm _ _ Hin).
    + intros i q Hq. destruct (Nat.lt_ge_cases i (length (g_pipes g))) as [Hlt|Hge].
      * rewrite nth_error_app1 in Hq by exact Hlt. exact (Hp _ _ Hq).
      * rewrite nth_error_app2 in Hq by exact Hge.
        destruct (i - length (g_pipes g))%nat as [|k]; cbn in Hq; [|destruct k; discriminate].
        inversion Hq; subst q. cbn. split; [reflexivity|split; [exact Htag|reflexivity]].
    + intros i q Hq. cbn [g_pipes g_map] in *. destruct (Nat.lt_ge_cases i (length (g_pipes g))) as [Hlt|Hge].
      * rewrite nth_error_app1 in Hq by exact Hlt. pose proof (Hc _ _ Hq) as Hq'.
        rewrite lookup_cons_ne; [exact Hq'|]. intros Heq. rewrite Heq in Hq'. rewrite Hl in Hq'. discriminate.
      * rewrite nth_error_app2 in Hq by exact Hge.
        destruct (i - length (g_pipes g))%nat as [|k] eqn:Hd; cbn in Hq; [|destruct k; discriminate].
        inversion Hq; subst q. cbn [p_keys p]. rewrite lookup_cons_eq. f_equal. lia.
    + exists p. split; [exact Hnew|]. cbn. auto 6.
Qed.

(* ---------- LocalCachedMap.GetOrCreate ---------- *)

Lemma local_goc_spec : forall parts g lm ks g' lm' i,
  map_ok (g_pipes g) (g_map g) -> map_ok (g_pipes g) lm -> pipes_ok parts (g_pipes g) -> complete g ->
  local_get_or_create parts g lm ks = Ok (g', lm', i) ->
  (exists ext, g_pipes g' = g_pipes g ++ ext) /\
  map_ok (g_pipes g') (g_map g') /\ map_ok (g_pipes g') lm' /\ pipes_ok parts (g_pipes g') /\ complete g' /\
  served_by parts (g_pipes g') ks i.
Proof.
  intros parts g lm ks g' lm' i Hm Hlm Hp Hc H. unfold local_get_or_create in H.
  destruct (lookup (merged_key ks) lm) as [j|] eqn:Hl.
  - inversion H; subst. split; [exists []; rewrite app_nil_r; reflexivity|].
    split; [assumption|]. split; [assumption|]. split; [assumption|]. split; [assumption|]. exact (map_ok_lookup _ _ _ _ _ Hlm Hp Hl).
  - unfold obind in H. destruct (global_get_or_create parts g ks (merged_key ks)) as [[g1 i1]| |] eqn:Hg; try discriminate.
    inversion H; subst; clear H.
    destruct (global_goc_spec _ _ _ _ _ Hm Hp Hc Hg) as [[ext Hext] [Hm' [Hp' [Hc' Hs]]]].
    split; [exists ext; exact Hext|]. split; [assumption|]. split; [|split; [assumption|split; assumption]].
    intros mk j [Heq|Hin].
    + inversion Heq; subst. destruct Hs as [p [Hn [Hk _]]]. exists p. split; [exact Hn|]. rewrite Hk. reflexivity.
    + rewrite Hext. exact (map_ok_ext _ _ _ Hlm _ _ Hin).
Qed.

(* ---------- sinks ---------- *)

Lemma Forall_set_nth : forall (A : Type) (P : A -> Prop) l i x, Forall P l -> P x -> Forall P (set_nth l i x).
Proof.
  induction l as [|y l IH]; intros i x Hl Hx; cbn [set_nth]; [constructor|].
  inversion Hl; subst. destruct i; constructor; auto.
Qed.

Lemma Forall_nth_default : forall (A : Type) (P : A -> Prop) l i d, Forall P l -> P d -> P (nth i l d).
Proof.
  induction l as [|y l IH]; intros i d Hl Hd; destruct i; cbn; auto; inversion Hl; subst; auto.
Qed.

Lemma step_spec : forall parts g lms o g' lms' i,
  inv parts g lms -> step parts g lms o = Ok (g', lms', i) ->
  inv parts g' lms' /\ (exists ext, g_pipes g' = g_pipes g ++ ext) /\ served_by parts (g_pipes g') (snd o) i.
Proof.
  intros parts g lms [si ks] g' lms' i [Hm Hl Hp Hc] H. unfold step, obind in H.
  destruct (local_get_or_create parts g (nth si lms []) ks) as [[[g1 lm1] i1]| |] eqn:Hg; try discriminate.
  inversion H; subst; clear H.
  assert (Hlm : map_ok (g_pipes g) (nth si lms [])) by (apply Forall_nth_default; [exact Hl|apply map_ok_nil]).
  destruct (local_goc_spec _ _ _ _ _ _ _ Hm Hlm Hp Hc Hg) as [[ext Hext] [Hm' [Hlm' [Hp' [Hc' Hs]]]]].
  split; [|split; [exists ext; exact Hext|exact Hs]].
  constructor; try assumption.
  apply Forall_set_nth; [|exact Hlm'].
  rewrite Hext. eapply Forall_impl; [|exact Hl]. intros m Hmm. apply map_ok_ext. exact Hmm.
Qed.

Lemma run_ops_spec : forall parts ops g lms g' lms' is,
  inv parts g lms -> run_ops parts g lms ops = Ok (g', lms', is) ->
  inv parts g' lms' /\ (exists ext, g_pipes g' = g_pipes g ++ ext) /\
  Forall2 (fun o i => served_by parts (g_pipes g') (snd o) i) ops is.
Proof.
  induction ops as [|o ops IH]; intros g lms g' lms' is Hinv H; cbn [run_ops] in H.
  - inversion H; subst. split; [exact Hinv|]. split; [exists []; rewrite app_nil_r; reflexivity|constructor].
  - unfold obind in H. destruct (step parts g lms o) as [[[g1 lms1] i1]| |] eqn:Hs; try discriminate.
    destruct (run_ops parts g1 lms1 ops) as [[[g2 lms2] is2]| |] eqn:Hr; try discriminate.
    inversion H; subst; clear H.
    destruct (step_spec _ _ _ _ _ _ _ Hinv Hs) as [Hinv1 [[ext1 Hext1] Hs1]].
    destruct (IH _ _ _ _ _ Hinv1 Hr) as [Hinv2 [[ext2 Hext2] Hall]].
    split; [exact Hinv2|]. split.
    + exists (ext1 ++ ext2). rewrite Hext2, Hext1, app_assoc. reflexivity.
    + constructor; [|exact Hall]. rewrite Hext2. apply served_by_ext. exact Hs1.
Qed.

(* ---------- NewOrchestrator with initial pipeline IDs ---------- *)

Lemma init_ids_spec : forall parts n ids g lm g' lm',
  inv parts g [lm] -> init_ids parts n g lm ids = Ok (g', lm') ->
  inv parts g' [lm'] /\ (exists ext, g_pipes g' = g_pipes g ++ ext) /\
  (* every listed id of the right arity has a pipeline for exactly the keys it splits into *)
  (forall id ks, In id ids -> recover_keys n id = Some ks -> exists i, served_by parts (g_pipes g') ks i).
Proof.
  induction ids as [|id ids IH]; intros g lm g' lm' Hinv H; cbn [init_ids] in H.
  - inversion H; subst. split; [exact Hinv|]. split; [exists []; rewrite app_nil_r; reflexivity|]. intros id ks [].
  - destruct (recover_keys n id) as [ks|] eqn:Hr.
    + unfold obind in H. destruct (local_get_or_create parts g lm ks) as [[[g1 lm1] i1]| |] eqn:Hg; try discriminate.
      destruct Hinv as [Hm Hl Hp Hc]. inversion Hl as [|? ? Hlm _]; subst.
      destruct (local_goc_spec _ _ _ _ _ _ _ Hm Hlm Hp Hc Hg) as [[ext Hext] [Hm' [Hlm' [Hp' [Hc' Hs]]]]].
      assert (Hinv1 : inv parts g1 [lm1]) by (constructor; auto).
      destruct (IH _ _ _ _ Hinv1 H) as [Hinv2 [[ext2 Hext2] Hall]].
      split; [exact Hinv2|]. split; [exists (ext ++ ext2); rewrite Hext2, Hext, app_assoc; reflexivity|].
      intros id' ks' [Heq|Hin] Hr'.
      * subst id'. rewrite Hr in Hr'. inversion Hr'; subst ks'. exists i1. rewrite Hext2. apply served_by_ext. exact Hs.
      * eapply Hall; eassumption.
    + destruct (IH _ _ _ _ Hinv H) as [Hinv2 [Hext2 Hall]].
      split; [exact Hinv2|]. split; [exact Hext2|].
      intros id' ks' [Heq|Hin] Hr'.
      * subst id'. rewrite Hr in Hr'. discriminate.
      * eapply Hall; eassumption.
Qed.

Lemma inv_sinks_fresh : forall parts g lm nsinks, inv parts g [lm] -> inv parts g (repeat [] nsinks).
Proof.
  intros parts g lm nsinks [Hm Hl Hp Hc]. constructor; try assumption.
  induction nsinks; cbn; constructor; [apply map_ok_nil|assumption].
Qed.

(* ---------- the routing theorem ---------- *)

Lemma routing_own_keys_lemma :
  forall parts n ids nsinks ops g0 g lms is,
    orch_init parts n ids = Ok g0 ->
    run_ops parts g0 (repeat [] nsinks) ops = Ok (g, lms, is) ->
    Forall2 (fun o i => served_by parts (g_pipes g) (snd o) i) ops is.
Proof.
  intros parts n ids nsinks ops g0 g lms is Hinit Hrun. unfold orch_init, obind in Hinit.
  destruct (init_ids parts n g_init [] ids) as [[g1 lm1]| |] eqn:Hi; try discriminate. inversion Hinit; subst g1; clear Hinit.
  assert (H0 : inv parts g_init [[]]) by exact (inv_init parts 1).
  destruct (init_ids_spec _ _ _ _ _ _ _ H0 Hi) as [Hinv1 _].
  apply inv_sinks_fresh with (nsinks := nsinks) in Hinv1.
  destruct (run_ops_spec _ _ _ _ _ _ _ Hinv1 Hrun) as [_ [_ Hall]]. exact Hall.
Qed.

Lemma Forall2_nth_error : forall (A B : Type) (R : A -> B -> Prop) l l' j a b,
  Forall2 R l l' -> nth_error l j = Some a -> nth_error l' j = Some b -> R a b.
Proof.
  intros A B R l l' j a b H. revert j. induction H as [|x y l l' Hxy _ IH]; intros [|j] Ha Hb; cbn in *; try discriminate.
  - inversion Ha; inversion Hb; subst. exact Hxy.
  - eapply IH; eassumption.
Qed.

(* two records reach the same pipeline exactly when their key tuples are equal *)
Lemma routing_injective_lemma :
  forall parts n ids nsinks ops g0 g lms is,
    orch_init parts n ids = Ok g0 ->
    run_ops parts g0 (repeat [] nsinks) ops = Ok (g, lms, is) ->
    forall j k o o' i i',
      nth_error ops j = Some o -> nth_error ops k = Some o' ->
      nth_error is j = Some i -> nth_error is k = Some i' ->
      (snd o = snd o' <-> i = i').
Proof.
  intros parts n ids nsinks ops g0 g lms is Hinit Hrun j k o o' i i' Hj Hk Hij Hik.
  pose proof (routing_own_keys_lemma _ _ _ _ _ _ _ _ _ Hinit Hrun) as Hall.
  pose proof (Forall2_nth_error _ _ _ _ _ _ _ _ Hall Hj Hij) as [p [Hp [Hpk _]]].
  pose proof (Forall2_nth_error _ _ _ _ _ _ _ _ Hall Hk Hik) as [q [Hq [Hqk _]]].
  unfold orch_init, obind in Hinit.
  destruct (init_ids parts n g_init [] ids) as [[g1 lm1]| |] eqn:Hi; try discriminate. inversion Hinit; subst g1; clear Hinit.
  destruct (init_ids_spec _ _ _ _ _ _ _ (inv_init parts 1) Hi) as [Hinv1 _].
  apply inv_sinks_fresh with (nsinks := nsinks) in Hinv1.
  destruct (run_ops_spec _ _ _ _ _ _ _ Hinv1 Hrun) as [[_ _ _ Hc] _].
  split.
  - intros Heq. eapply complete_unique; [exact Hc|exact Hp|exact Hq|]. rewrite Hpk, Hqk. exact Heq.
  - intros Heq. subst i'. rewrite Hp in Hq. inversion Hq; subst q. rewrite <- Hpk, <- Hqk. reflexivity.
Qed.

(* restart: every listed id that splits into n keys gets a pipeline for exactly these keys *)
Lemma orch_init_recovers_lemma :
  forall parts n ids g0, orch_init parts n ids = Ok g0 ->
    forall id ks, In id ids -> recover_keys n id = Some ks -> exists i, served_by parts (g_pipes g0) ks i.
Proof.
  intros parts n ids g0 Hinit. unfold orch_init, obind in Hinit.
  destruct (init_ids parts n g_init [] ids) as [[g1 lm1]| |] eqn:Hi; try discriminate. inversion Hinit; subst g1; clear Hinit.
  destruct (init_ids_spec _ _ _ _ _ _ _ (inv_init parts 1) Hi) as [_ [_ Hall]]. exact Hall.
Qed.

(* and conversely every pipeline that exists after the restart and the run was made for some recovered id or some record *)
(* ---------- metric key sets ---------- *)

Definition mset_ok (m : mstate) : Prop :=
  (forall mk i, In (mk, i) (m_map m) -> exists ks, nth_error (m_sets m) i = Some ks /\ mk = merged_key ks) /\
  (forall i ks, nth_error (m_sets m) i = Some ks -> lookup (merged_key ks) (m_map m) = Some i) /\
  (* the counters of every entry carry the label values made from the entry's own key values *)
  m_labels m = map metric_label_values (m_sets m).

Lemma mset_ok_init : mset_ok m_init.
Proof. split; [|split]; cbn; [intros mk i []|intros [|i] ks H; discriminate|reflexivity]. Qed.

Lemma metric_select_spec : forall m ks m' i,
  mset_ok m -> metric_select m ks = (m', i) ->
  mset_ok m' /\ (exists ext, m_sets m' = m_sets m ++ ext) /\ nth_error (m_sets m') i = Some ks.
Proof.
  intros m ks m' i [H1 [H2 H3]] H. unfold metric_select in H.
  destruct (lookup (merged_key ks) (m_map m)) as [j|] eqn:Hl.
  - inversion H; subst. split; [split; [|split]; assumption|]. split; [exists []; rewrite app_nil_r; reflexivity|].
    apply lookup_In in Hl. destruct (H1 _ _ Hl) as [ks' [Hn Hk]].
    apply merged_key_injective_lemma in Hk. subst. exact Hn.
  - inversion H; subst; clear H. cbn [m_sets m_map m_labels].
    assert (Hnew : nth_error (m_sets m ++ [ks]) (length (m_sets m)) = Some ks).
    { rewrite nth_error_app2 by lia. rewrite Nat.sub_diag. reflexivity. }
    split; [split; [|split]|split; [exists [ks]; reflexivity|exact Hnew]]; cycle 2.
    { cbn [m_sets m_labels]. rewrite H3, map_app. reflexivity. }
    + cbn [m_sets m_map]. intros mk i [Heq|Hin].
      * inversion Heq; subst. exists ks. auto.
      * destruct (H1 _ _ Hin) as [ks' [Hn Hk]]. exists ks'. split; [apply nth_error_app_l; exact Hn|exact Hk].
    + intros i ks' Hq. cbn [m_sets m_map] in *. destruct (Nat.lt_ge_cases i (length (m_sets m))) as [Hlt|Hge].
      * rewrite nth_error_app1 in Hq by exact Hlt. pose proof (H2 _ _ Hq) as Hq'.
        rewrite lookup_cons_ne; [exact Hq'|]. intros Heq. rewrite Heq in Hq'. rewrite Hl in Hq'. discriminate.
      * rewrite nth_error_app2 in Hq by exact Hge.
        destruct (i - length (m_sets m))%nat as [|k] eqn:Hd; cbn in Hq; [|destruct k; discriminate].
        inversion Hq; subst ks'. rewrite lookup_cons_eq. f_equal. lia.
Qed.

Lemma metric_run_spec : forall recs m m' is,
  mset_ok m -> metric_run m recs = (m', is) ->
  mset_ok m' /\ (exists ext, m_sets m' = m_sets m ++ ext) /\
  Forall2 (fun ks i => nth_error (m_sets m') i = Some ks) recs is.
Proof.
  induction recs as [|ks recs IH]; intros m m' is Hok H; cbn [metric_run] in H.
  - inversion H; subst. split; [exact Hok|]. split; [exists []; rewrite app_nil_r; reflexivity|constructor].
  - destruct (metric_select m ks) as [m1 i1] eqn:Hs. destruct (metric_run m1 recs) as [m2 is2] eqn:Hr.
    inversion H; subst; clear H.
    destruct (metric_select_spec _ _ _ _ Hok Hs) as [Hok1 [[ext1 Hext1] Hn1]].
    destruct (IH _ _ _ Hok1 Hr) as [Hok2 [[ext2 Hext2] Hall]].
    split; [exact Hok2|]. split; [exists (ext1 ++ ext2); rewrite Hext2, Hext1, app_assoc; reflexivity|].
    constructor; [|exact Hall]. rewrite Hext2. apply nth_error_app_l. exact Hn1.
Qed.

Lemma Forall2_weaken : forall (A B : Type) (R R' : A -> B -> Prop) l l',
  (forall a b, R a b -> R' a b) -> Forall2 R l l' -> Forall2 R' l l'.
Proof. intros A B R R' l l' HR H. induction H; constructor; auto. Qed.

Lemma mset_labels_nth : forall m i ks, mset_ok m -> nth_error (m_sets m) i = Some ks ->
  nth_error (m_labels m) i = Some (metric_label_values ks).
Proof. intros m i ks [_ [_ H3]] H. rewrite H3, nth_error_map, H. reflexivity. Qed.

(* each record is counted by the counter set (map entry) of exactly its own metric key tuple, whose counters carry
   the label values made from that tuple; two records share a counter set exactly when their tuples are equal *)
Lemma metric_own_keys_lemma : forall recs m is,
  metric_run m_init recs = (m, is) ->
  Forall2 (fun ks i => nth_error (m_sets m) i = Some ks /\
                       nth_error (m_labels m) i = Some (metric_label_values ks)) recs is /\
  (forall j k ks ks' i i', nth_error recs j = Some ks -> nth_error recs k = Some ks' ->
      nth_error is j = Some i -> nth_error is k = Some i' -> (ks = ks' <-> i = i')).
Proof.
  intros recs m is H. destruct (metric_run_spec _ _ _ _ mset_ok_init H) as [Hok [_ Hall]].
  pose proof Hok as [_ [Hc _]].
  split; [eapply Forall2_weaken; [|exact Hall]; intros ks i Hn; split; [exact Hn|exact (mset_labels_nth _ _ _ Hok Hn)]|].
  intros j k ks ks' i i' Hj Hk Hij Hik.
  pose proof (Forall2_nth_error _ _ _ _ _ _ _ _ Hall Hj Hij) as Hp.
  pose proof (Forall2_nth_error _ _ _ _ _ _ _ _ Hall Hk Hik) as Hq.
  split.
  - intros Heq. subst ks'. pose proof (Hc _ _ Hp) as H1. pose proof (Hc _ _ Hq) as H2. rewrite H1 in H2. inversion H2. reflexivity.
  - intros Heq. subst i'. rewrite Hp in Hq. inversion Hq. reflexivity.
Qed.
