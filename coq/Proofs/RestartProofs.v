(* C06 - queue directories on disk and the restart: the chunks spilled by the pipeline of a key tuple are
   found again by a pipeline of the same key tuple (for the ids the on-disk format can represent). *)
From SV Require Import Model.Common Model.Md5 Model.Routing Proofs.CommonFacts Proofs.MergedKeyProofs
  Proofs.RoutingProofs Proofs.QueueProofs Proofs.TagTemplateProofs.
From Coq Require Import Lia ZifyBool ZifyN ZifyNat.
Ltac Zify.zify_post_hook ::= Z.div_mod_to_equations.
Open Scope N_scope.

(* ---------- the partial theorem on ids and directories ---------- *)

Lemma id_dir_recovery_partial_lemma :
  forall (md5hex : bytes -> bytes), (forall s, length (md5hex s) = 32%nat) ->
  forall ks ks' : list bytes,
    length ks = length ks' -> ks <> ks' -> no_comma ks -> no_comma ks' ->
    pipeline_id ks <> pipeline_id ks' /\
    recover_keys (length ks) (pipeline_id ks) = Some ks /\
    (pipeline_id ks <> [] -> pipeline_id ks' <> [] ->
     (sanitize (pipeline_id ks) = sanitize (pipeline_id ks') ->
      tail8 (md5hex (pipeline_id ks)) <> tail8 (md5hex (pipeline_id ks'))) ->
     queue_dir_name md5hex (pipeline_id ks) <> queue_dir_name md5hex (pipeline_id ks')).
Proof.
  intros md5hex Hmd ks ks' Hl Hne Hc Hc'. split; [|split].
  - intros Heq. apply Hne. apply pipeline_id_injective_no_comma; assumption.
  - apply recover_keys_roundtrip; [|exact Hc]. intros ->. destruct ks'; [apply Hne; reflexivity|discriminate].
  - intros Hi Hi' Hh. apply queue_dir_injective; assumption.
Qed.

Lemma id_collision_comma_witness :
  exists ks ks' : list bytes, length ks = length ks' /\ ks <> ks' /\ pipeline_id ks = pipeline_id ks' /\
    queue_dir_name md5_hex (pipeline_id ks) = queue_dir_name md5_hex (pipeline_id ks').
Proof.
  exists [[97; 44; 98]; [99]], [[97]; [98; 44; 99]].
  split; [reflexivity|]. split; [discriminate|].
  assert (H : pipeline_id [[97; 44; 98]; [99]] = pipeline_id [[97]; [98; 44; 99]]) by reflexivity.
  split; [exact H|]. rewrite H. reflexivity.
Qed.

(* ---------- entries that are not directories are never listed ---------- *)

Lemma list_buffer_ids_no_dirs : forall es, (forall e, In e es -> is_dir_mode (fe_mode e) = false) -> list_buffer_ids es = [].
Proof.
  intros es H. destruct (list_buffer_ids es) as [|id l] eqn:E; [reflexivity|].
  assert (Hin : In id (list_buffer_ids es)) by (rewrite E; left; reflexivity).
  apply list_buffer_ids_spec in Hin. destruct Hin as [e [He [Hd _]]]. rewrite (H e He) in Hd. discriminate.
Qed.

Lemma land_lt_pow2 : forall a b n, a < 2 ^ n -> N.land a b < 2 ^ n.
Proof.
  intros a b n Ha. destruct (N.eq_dec (N.land a b) 0) as [->|Hz].
  - apply N.neq_0_lt_0. apply N.pow_nonzero. lia.
  - destruct (N.eq_dec a 0) as [->|Hza]; [rewrite N.land_0_l in Hz; contradiction|].
    apply N.log2_lt_pow2; [lia|].
    apply N.le_lt_trans with (N.log2 a).
    + pose proof (N.log2_land a b) as H. lia.
    + apply N.log2_lt_pow2; lia.
Qed.

Lemma perm_bound : forall base umask, base < 4096 -> N.land base (N.lxor umask 511) < 4096.
Proof. intros base umask H. change 4096 with (2 ^ 12) in *. apply land_lt_pow2. exact H. Qed.

Lemma empty_key_root_dir_witness :
  exists ks : list bytes, ks <> [] /\ queue_dir_name md5_hex (pipeline_id ks) = None /\
    forall umask r, list_buffer_ids
      (root_entries umask (store_chunk (fst (make_queue_dir md5_hex umask qroot_empty (pipeline_id ks))) QRoot r)) = [].
Proof.
  exists [[]]. split; [discriminate|]. split; [reflexivity|].
  intros umask r. apply list_buffer_ids_no_dirs. unfold root_entries.
  change (make_queue_dir md5_hex umask qroot_empty (pipeline_id [[]]))
    with ({| qr_id := Some []; qr_chunks := []; qr_dirs := [] |}, QRoot).
  cbn [fst store_chunk qr_id qr_chunks qr_dirs map app].
  intros e [<-|[<-|[]]]; cbn [fe_mode]; apply file_mode_any_perm; apply perm_bound; lia.
Qed.

Lemma Forall2_len : forall (A B : Type) (R : A -> B -> Prop) l l', Forall2 R l l' -> length l = length l'.
Proof. intros A B R l l' H. induction H; cbn; [reflexivity|f_equal; assumption]. Qed.

Lemma nth_error_lt : forall (A : Type) (l : list A) i x, nth_error l i = Some x -> (i < length l)%nat.
Proof. intros A l i x H. apply nth_error_Some. rewrite H. discriminate. Qed.

(* ---------- dedup keeps every element ---------- *)

Lemma existsb_bytes_eqb : forall x l, existsb (bytes_eqb x) l = true <-> In x l.
Proof.
  intros x l. rewrite existsb_exists. split.
  - intros [y [Hy He]]. apply bytes_eqb_eq in He. subst. exact Hy.
  - intros H. exists x. split; [exact H|apply bytes_eqb_refl].
Qed.

Lemma In_dedup : forall l seen x, In x l -> In x seen \/ In x (dedup seen l).
Proof.
  induction l as [|y l IH]; intros seen x Hin; [destruct Hin|]. cbn [dedup].
  destruct (existsb (bytes_eqb y) seen) eqn:E.
  - destruct Hin as [<-|Hin]; [left; apply existsb_bytes_eqb; exact E|apply IH; exact Hin].
  - destruct Hin as [<-|Hin]; [right; left; reflexivity|].
    destruct (IH (y :: seen) x Hin) as [[<-|Hs]|Hd]; [right; left; reflexivity|left; exact Hs|right; right; exact Hd].
Qed.

Lemma In_dedup_nil : forall l x, In x l -> In x (dedup [] l).
Proof. intros l x H. destruct (In_dedup l [] x H) as [[]|H']. exact H'. Qed.

(* ---------- no phantom pipelines: every pipeline was created for the keys of some record ---------- *)

Lemma local_goc_origin : forall parts g lm ks g' lm' i,
  local_get_or_create parts g lm ks = Ok (g', lm', i) ->
  forall p, In p (g_pipes g') -> In p (g_pipes g) \/ p_keys p = ks.
Proof.
  intros parts g lm ks g' lm' i H p Hp. unfold local_get_or_create in H.
  destruct (lookup (merged_key ks) lm); [inversion H; subst; left; exact Hp|].
  unfold obind, global_get_or_create in H.
  destruct (lookup (merged_key ks) (g_map g)); [inversion H; subst; left; exact Hp|].
  unfold new_pipeline, obind in H. destruct (build_tag parts ks); try discriminate.
  inversion H; subst; clear H. cbn [g_pipes] in Hp. apply in_app_or in Hp.
  destruct Hp as [Hp|[<-|[]]]; [left; exact Hp|right; reflexivity].
Qed.

Lemma run_ops_origin : forall parts ops g lms g' lms' is,
  run_ops parts g lms ops = Ok (g', lms', is) ->
  forall p, In p (g_pipes g') -> In p (g_pipes g) \/ exists o, In o ops /\ p_keys p = snd o.
Proof.
  induction ops as [|[si ks] ops IH]; intros g lms g' lms' is H p Hp; cbn [run_ops] in H.
  - inversion H; subst. left. exact Hp.
  - unfold obind, step in H. unfold obind in H.
    destruct (local_get_or_create parts g (nth si lms []) ks) as [[[g1 lm1] i1]| |] eqn:Hg; try discriminate.
    destruct (run_ops parts g1 (set_nth lms si lm1) ops) as [[[g2 lms2] is2]| |] eqn:Hr; try discriminate.
    inversion H; subst; clear H.
    destruct (IH _ _ _ _ _ Hr p Hp) as [H1|[o [Ho Hk]]].
    + destruct (local_goc_origin _ _ _ _ _ _ _ Hg p H1) as [H0|Hk]; [left; exact H0|].
      right. exists (si, ks). split; [left; reflexivity|exact Hk].
    + right. exists o. split; [right; exact Ho|exact Hk].
Qed.

(* ---------- directories ---------- *)

Lemma has_dir_true : forall nm ds, has_dir nm ds = true <-> exists d, In d ds /\ qd_name d = nm.
Proof.
  induction ds as [|d ds IH]; cbn [has_dir].
  - split; [discriminate|intros [d [[] _]]].
  - rewrite orb_true_iff, IH, bytes_eqb_eq. split.
    + intros [H|[d' [Hin Hn]]]; [exists d; split; [left; reflexivity|symmetry; exact H]|exists d'; split; [right; exact Hin|exact Hn]].
    + intros [d' [[<-|Hin] Hn]]; [left; symmetry; exact Hn|right; exists d'; split; assumption].
Qed.

Lemma has_dir_app : forall nm a b, has_dir nm (a ++ b) = (has_dir nm a || has_dir nm b)%bool.
Proof. induction a as [|d a IH]; intros b; cbn [has_dir app]; [reflexivity|]. rewrite IH, orb_assoc. reflexivity. Qed.

Lemma In_dedup_sub : forall l seen x, In x (dedup seen l) -> In x l.
Proof.
  induction l as [|y l IH]; intros seen x H; cbn [dedup] in H; [destruct H|].
  destruct (existsb (bytes_eqb y) seen).
  - right. eapply IH. exact H.
  - destruct H as [<-|H]; [left; reflexivity|right; eapply IH; exact H].
Qed.

(* every pipeline that exists after NewOrchestrator was made for the keys some listed id splits into *)
Lemma init_ids_origin : forall parts n ids g lm g' lm',
  init_ids parts n g lm ids = Ok (g', lm') ->
  forall p, In p (g_pipes g') -> In p (g_pipes g) \/ exists id, In id ids /\ recover_keys n id = Some (p_keys p).
Proof.
  induction ids as [|id ids IH]; intros g lm g' lm' H p Hp; cbn [init_ids] in H.
  - inversion H; subst. left. exact Hp.
  - destruct (recover_keys n id) as [ks|] eqn:Hr.
    + unfold obind in H. destruct (local_get_or_create parts g lm ks) as [[[g1 lm1] i1]| |] eqn:Hg; try discriminate.
      destruct (IH _ _ _ _ H p Hp) as [H1|[id' [Hin Hk]]].
      * destruct (local_goc_origin _ _ _ _ _ _ _ Hg p H1) as [H0|Hk]; [left; exact H0|].
        right. exists id. split; [left; reflexivity|]. rewrite Hk. exact Hr.
      * right. exists id'. split; [right; exact Hin|exact Hk].
    + destruct (IH _ _ _ _ H p Hp) as [H1|[id' [Hin Hk]]]; [left; exact H1|].
      right. exists id'. split; [right; exact Hin|exact Hk].
Qed.

Lemma orch_init_origin : forall parts n ids g0, orch_init parts n ids = Ok g0 ->
  forall p, In p (g_pipes g0) ->
    (exists id, In id ids /\ recover_keys n id = Some (p_keys p)) /\ p_id p = pipeline_id (p_keys p).
Proof.
  intros parts n ids g0 Hinit p Hp. unfold orch_init, obind in Hinit.
  destruct (init_ids parts n g_init [] ids) as [[g1 lm1]| |] eqn:Hi; try discriminate. inversion Hinit; subst g1; clear Hinit.
  split.
  - destruct (init_ids_origin _ _ _ _ _ _ _ Hi p Hp) as [[]|H]. exact H.
  - destruct (init_ids_spec _ _ _ _ _ _ _ (inv_init parts 1) Hi) as [[_ _ Hpok _] _].
    apply In_nth_error in Hp. destruct Hp as [i Hi']. exact (proj1 (Hpok _ _ Hi')).
Qed.

(* no phantom pipelines: after the restart and any run, every pipeline was made for the keys of a listed id or of a record *)
Lemma routing_no_phantom_lemma :
  forall parts n ids nsinks ops g0 g lms is,
    orch_init parts n ids = Ok g0 ->
    run_ops parts g0 (repeat [] nsinks) ops = Ok (g, lms, is) ->
    forall p, In p (g_pipes g) ->
      (exists id, In id ids /\ recover_keys n id = Some (p_keys p)) \/ (exists o, In o ops /\ p_keys p = snd o).
Proof.
  intros parts n ids nsinks ops g0 g lms is Hinit Hrun p Hp.
  destruct (run_ops_origin _ _ _ _ _ _ _ Hrun p Hp) as [H0|Ho]; [left|right; exact Ho].
  exact (proj1 (orch_init_origin _ _ _ _ Hinit p H0)).
Qed.

Section Restart.
  Variable md5hex : bytes -> bytes.
  Hypothesis md5hex_len : forall s, length (md5hex s) = 32%nat.

  Definition dir_of (id : bytes) : bytes := sanitize id ++ [46] ++ tail8 (md5hex id).

  Lemma dir_of_length : forall id, length (dir_of id) = (length id + 9)%nat.
  Proof. intros id. unfold dir_of. rewrite !app_length, sanitize_length, (tail8_length md5hex md5hex_len). cbn. lia. Qed.

  Lemma queue_dir_name_dir_of : forall id, id <> [] -> queue_dir_name md5hex id = Some (dir_of id).
  Proof. intros id H. apply queue_dir_name_some. exact H. Qed.

  Definition mk_dir (umask : N) (p : pipeline) : qdir :=
    {| qd_name := dir_of (p_id p); qd_perm := N.land 493 (N.lxor umask 511); qd_id := Some (p_id p); qd_chunks := [] |}.

  Definition dir_ok (p : pipeline) : Prop := p_id p <> [] /\ (length (dir_of (p_id p)) <= NAME_MAX)%nat.

  Lemma make_queue_dir_fresh : forall umask root p,
    dir_ok p -> has_dir (dir_of (p_id p)) (qr_dirs root) = false ->
    make_queue_dir md5hex umask root (p_id p) =
      ({| qr_id := qr_id root; qr_chunks := qr_chunks root; qr_dirs := qr_dirs root ++ [mk_dir umask p] |},
       QSub (dir_of (p_id p))).
  Proof.
    intros umask root p [Hid Hlen] Hfresh. unfold make_queue_dir.
    rewrite (queue_dir_name_dir_of _ Hid).
    replace (Nat.ltb NAME_MAX (length (dir_of (p_id p)))) with false by (symmetry; apply Nat.ltb_ge; exact Hlen).
    rewrite Hfresh. reflexivity.
  Qed.

  Lemma make_dirs_fresh : forall umask ps root,
    Forall dir_ok ps ->
    NoDup (map (fun p => dir_of (p_id p)) ps) ->
    (forall p, In p ps -> has_dir (dir_of (p_id p)) (qr_dirs root) = false) ->
    make_dirs md5hex umask root ps =
      ({| qr_id := qr_id root; qr_chunks := qr_chunks root; qr_dirs := qr_dirs root ++ map (mk_dir umask) ps |},
       map (fun p => QSub (dir_of (p_id p))) ps).
  Proof.
    induction ps as [|p ps IH]; intros root Hok Hnd Hfresh; cbn [make_dirs map].
    - rewrite app_nil_r. destruct root; reflexivity.
    - inversion Hok as [|? ? Hp Hps]; subst. inversion Hnd as [|? ? Hnotin Hnd']; subst.
      rewrite (make_queue_dir_fresh umask root p Hp (Hfresh p (or_introl eq_refl))).
      rewrite IH; [|exact Hps|exact Hnd'|].
      + cbn [qr_id qr_chunks qr_dirs]. rewrite <- app_assoc. reflexivity.
      + intros q Hq. cbn [qr_dirs]. rewrite has_dir_app, (Hfresh q (or_intror Hq)). cbn [has_dir orb].
        rewrite orb_false_r. destruct (bytes_eqb (dir_of (p_id q)) (qd_name (mk_dir umask p))) eqn:E; [|reflexivity].
        apply bytes_eqb_eq in E. cbn [mk_dir qd_name] in E. exfalso. apply Hnotin. rewrite <- E.
        apply in_map with (f := fun p => dir_of (p_id p)). exact Hq.
  Qed.

  (* ---------- storing chunks keeps names, ids and modes; chunk lists only grow ---------- *)

  Definition dir_le (d d' : qdir) : Prop :=
    qd_name d = qd_name d' /\ qd_id d = qd_id d' /\ qd_perm d = qd_perm d' /\ incl (qd_chunks d) (qd_chunks d').

  Definition dirs_le (ds ds' : list qdir) : Prop := Forall2 dir_le ds ds'.

  Lemma dir_le_refl : forall d, dir_le d d.
  Proof. intros d. repeat split. apply incl_refl. Qed.

  Lemma dirs_le_refl : forall ds, dirs_le ds ds.
  Proof. induction ds; constructor; [apply dir_le_refl|assumption]. Qed.

  Lemma dirs_le_trans : forall a b c, dirs_le a b -> dirs_le b c -> dirs_le a c.
  Proof.
    intros a b c H. revert c. induction H as [|x y a b Hxy _ IH]; intros c Hbc; inversion Hbc as [|? z ? c' Hyz Hbc']; subst; constructor.
    - destruct Hxy as [H1 [H2 [H3 H4]]]. destruct Hyz as [G1 [G2 [G3 G4]]].
      repeat split; try congruence. eapply incl_tran; eassumption.
    - apply IH. exact Hbc'.
  Qed.

  Lemma dirs_le_In : forall ds ds' d, dirs_le ds ds' -> In d ds -> exists d', In d' ds' /\ dir_le d d'.
  Proof.
    intros ds ds' d H. induction H as [|x y a b Hxy _ IH]; intros Hin; [destruct Hin|].
    destruct Hin as [<-|Hin]; [exists y; split; [left; reflexivity|exact Hxy]|].
    destruct (IH Hin) as [d' [H1 H2]]. exists d'. split; [right; exact H1|exact H2].
  Qed.

  Lemma dirs_le_In_rev : forall ds ds' d', dirs_le ds ds' -> In d' ds' -> exists d, In d ds /\ dir_le d d'.
  Proof.
    intros ds ds' d' H. induction H as [|x y a b Hxy _ IH]; intros Hin; [destruct Hin|].
    destruct Hin as [<-|Hin]; [exists x; split; [left; reflexivity|exact Hxy]|].
    destruct (IH Hin) as [d [H1 H2]]. exists d. split; [right; exact H1|exact H2].
  Qed.

  Lemma upd_dir_add_chunk : forall name r ds,
    let f := fun d => {| qd_name := qd_name d; qd_perm := qd_perm d; qd_id := qd_id d; qd_chunks := qd_chunks d ++ [r] |} in
    dirs_le ds (upd_dir name f ds) /\
    (has_dir name ds = true -> exists d, In d (upd_dir name f ds) /\ qd_name d = name /\ In r (qd_chunks d)).
  Proof.
    intros name r ds f. induction ds as [|d ds [IH1 IH2]]; cbn [upd_dir has_dir].
    - split; [constructor|discriminate].
    - destruct (bytes_eqb name (qd_name d)) eqn:E.
      + split.
        * constructor; [|apply dirs_le_refl]. unfold f, dir_le. cbn. repeat split. apply incl_appl. apply incl_refl.
        * intros _. exists (f d). split; [left; reflexivity|]. apply bytes_eqb_eq in E. unfold f. cbn.
          split; [symmetry; exact E|apply in_or_app; right; left; reflexivity].
      + split.
        * constructor; [apply dir_le_refl|exact IH1].
        * cbn [orb]. intros H. destruct (IH2 H) as [d' [H1 H2]]. exists d'. split; [right; exact H1|exact H2].
  Qed.

  Lemma store_chunk_spec : forall root ref r,
    dirs_le (qr_dirs root) (qr_dirs (store_chunk root ref r)) /\
    (forall name, ref = QSub name -> has_dir name (qr_dirs root) = true ->
       exists d, In d (qr_dirs (store_chunk root ref r)) /\ qd_name d = name /\ In r (qd_chunks d)).
  Proof.
    intros root ref r. destruct ref as [|name|]; cbn [store_chunk qr_dirs].
    - split; [apply dirs_le_refl|discriminate].
    - destruct (upd_dir_add_chunk name r (qr_dirs root)) as [H1 H2]. split; [exact H1|].
      intros name' Heq. inversion Heq; subst. exact H2.
    - split; [apply dirs_le_refl|discriminate].
  Qed.

  Lemma dirs_le_has_dir : forall ds ds' name, dirs_le ds ds' -> has_dir name ds = true -> has_dir name ds' = true.
  Proof.
    intros ds ds' name Hle H. apply has_dir_true in H. destruct H as [d [Hin Hn]].
    destruct (dirs_le_In _ _ _ Hle Hin) as [d' [Hin' [Hn' _]]]. apply has_dir_true. exists d'. split; [exact Hin'|congruence].
  Qed.

  Lemma store_chunks_spec : forall where_ root refs r0,
    dirs_le (qr_dirs root) (qr_dirs (store_chunks root refs where_ r0)) /\
    (forall k i name, nth_error where_ k = Some i -> nth i refs QNone = QSub name -> has_dir name (qr_dirs root) = true ->
       exists d, In d (qr_dirs (store_chunks root refs where_ r0)) /\ qd_name d = name /\ In (r0 + k)%nat (qd_chunks d)).
  Proof.
    induction where_ as [|pi rest IH]; intros root refs r0; cbn [store_chunks].
    - split; [apply dirs_le_refl|]. intros [|k] i name H; discriminate.
    - destruct (store_chunk_spec root (nth pi refs QNone) r0) as [S1 S2].
      destruct (IH (store_chunk root (nth pi refs QNone) r0) refs (S r0)) as [I1 I2].
      split; [eapply dirs_le_trans; eassumption|].
      intros [|k] i name Hk Hi Hd; cbn [nth_error] in Hk.
      + inversion Hk; subst i. destruct (S2 name Hi Hd) as [d [Hin [Hn Hr]]].
        destruct (dirs_le_In _ _ _ I1 Hin) as [d' [Hin' [Hn' [_ [_ Hc]]]]].
        exists d'. split; [exact Hin'|]. split; [congruence|]. rewrite Nat.add_0_r. apply Hc. exact Hr.
      + destruct (I2 k i name Hk Hi (dirs_le_has_dir _ _ _ S1 Hd)) as [d [Hin [Hn Hr]]].
        exists d. split; [exact Hin|]. split; [exact Hn|]. replace (r0 + S k)%nat with (S r0 + k)%nat by lia. exact Hr.
  Qed.

  (* ---------- NoDup from injectivity on positions ---------- *)

  Lemma NoDup_map_nth : forall (A B : Type) (f : A -> B) (l : list A),
    (forall i j a b, nth_error l i = Some a -> nth_error l j = Some b -> f a = f b -> i = j) -> NoDup (map f l).
  Proof.
    intros A B f l H. apply NoDup_nth_error. intros i j Hi Heq. rewrite map_length in Hi.
    rewrite !nth_error_map in Heq.
    destruct (nth_error l i) as [a|] eqn:Ea; [|apply nth_error_None in Ea; lia].
    destruct (nth_error l j) as [b|] eqn:Eb; [|discriminate].
    cbn in Heq. inversion Heq. eapply H; eassumption.
  Qed.

  (* ---------- the restart theorem ---------- *)

  (* what the on-disk format can represent: arity n, no "," in a value, non-empty id, directory name within NAME_MAX *)
  Definition storable (n : nat) (ks : list bytes) : Prop :=
    length ks = n /\ no_comma ks /\ pipeline_id ks <> [] /\ (length (pipeline_id ks) + 9 <= NAME_MAX)%nat.

  Lemma restart_reattaches_lemma :
    forall parts n umask nsinks ops g lms is root0 refs root g2,
      Forall (fun o => storable n (snd o)) ops ->
      (forall o o', In o ops -> In o' ops -> snd o <> snd o' ->
         sanitize (pipeline_id (snd o)) = sanitize (pipeline_id (snd o')) ->
         tail8 (md5hex (pipeline_id (snd o))) <> tail8 (md5hex (pipeline_id (snd o')))) ->
      run_ops parts g_init (repeat [] nsinks) ops = Ok (g, lms, is) ->
      make_dirs md5hex umask qroot_empty (g_pipes g) = (root0, refs) ->
      store_chunks root0 refs is O = root ->
      orch_init parts n (dedup [] (list_buffer_ids (root_entries umask root))) = Ok g2 ->
      forall r o, nth_error ops r = Some o ->
        exists d p i, In d (qr_dirs root) /\ In r (qd_chunks d) /\
                      nth_error (g_pipes g2) i = Some p /\ p_keys p = snd o /\
                      build_tag parts (snd o) = Ok (p_tag p) /\
                      queue_dir_name md5hex (p_id p) = Some (qd_name d) /\
                      (forall p', In p' (g_pipes g2) -> queue_dir_name md5hex (p_id p') = Some (qd_name d) -> p_keys p' = snd o).
  Proof.
    intros parts n umask nsinks ops g lms is root0 refs root g2 Hrecs Hmd5 Hrun Hdirs Hstore Hinit r [si ks] Hr.
    cbn [snd].
    (* phase A: routing *)
    destruct (run_ops_spec _ _ _ _ _ _ _ (inv_init parts nsinks) Hrun) as [[_ _ Hpok Hcomp] [_ Hall]].
    assert (Hrec_of : forall p, In p (g_pipes g) -> (exists o, In o ops /\ p_keys p = snd o) /\ p_id p = pipeline_id (p_keys p)).
    { intros p Hp. destruct (run_ops_origin _ _ _ _ _ _ _ Hrun p Hp) as [[]|Ho].
      split; [exact Ho|].
      apply In_nth_error in Hp. destruct Hp as [i Hi]. exact (proj1 (Hpok _ _ Hi)). }
    assert (Hprop : forall o, In o ops -> storable n (snd o)).
    { rewrite Forall_forall in Hrecs. exact Hrecs. }
    (* equal directories => equal key tuples, for tuples of the run *)
    assert (Hdirinj : forall o o', In o ops -> In o' ops ->
              dir_of (pipeline_id (snd o)) = dir_of (pipeline_id (snd o')) -> snd o = snd o').
    { intros o o' Ho Ho' Heq.
      destruct (Hprop _ Ho) as [_ [_ [Hne _]]]. destruct (Hprop _ Ho') as [_ [_ [Hne' _]]].
      destruct (list_eq_dec (list_eq_dec N.eq_dec) (snd o) (snd o')) as [E|E]; [exact E|exfalso].
      assert (Hq1 := queue_dir_name_dir_of _ Hne). assert (Hq2 := queue_dir_name_dir_of _ Hne'). rewrite <- Heq in Hq2.
      destruct (queue_dir_name_eq md5hex md5hex_len _ _ _ Hq1 Hq2) as [Hs Ht].
      exact (Hmd5 _ _ Ho Ho' E Hs Ht). }
    assert (Hok : Forall dir_ok (g_pipes g)).
    { apply Forall_forall. intros p Hp. destruct (Hrec_of p Hp) as [[o [Ho Hk]] Hid].
      destruct (Hprop _ Ho) as [_ [_ [Hne Hlen]]].
      unfold dir_ok. rewrite dir_of_length, Hid, Hk. split; [exact Hne|exact Hlen]. }
    assert (Hnd : NoDup (map (fun p => dir_of (p_id p)) (g_pipes g))).
    { apply NoDup_map_nth. intros i j a b Hi Hj Heq.
      eapply complete_unique; [exact Hcomp|exact Hi|exact Hj|].
      destruct (Hrec_of a (nth_error_In _ _ Hi)) as [[oa [Hoa Hka]] Hida].
      destruct (Hrec_of b (nth_error_In _ _ Hj)) as [[ob [Hob Hkb]] Hidb].
      rewrite Hida, Hidb, Hka, Hkb in Heq. rewrite Hka, Hkb. exact (Hdirinj _ _ Hoa Hob Heq). }
    rewrite make_dirs_fresh in Hdirs; [|exact Hok|exact Hnd|intros p _; reflexivity].
    inversion Hdirs; subst root0 refs; clear Hdirs. cbn [qroot_empty qr_dirs qr_id qr_chunks app] in *.
    (* the record's pipeline and directory *)
    destruct (nth_error is r) as [i|] eqn:Hi.
    2:{ exfalso. apply nth_error_None in Hi. apply Forall2_len in Hall. apply nth_error_lt in Hr. lia. }
    destruct (Forall2_nth_error _ _ _ _ _ _ _ _ Hall Hr Hi) as [p [Hp [Hpk [Hpid Hptag]]]]. cbn [snd] in *.
    assert (Hin_o : In (si, ks) ops) by exact (nth_error_In _ _ Hr).
    destruct (Hprop _ Hin_o) as [Hlen [Hnc [Hne Hnm]]]. cbn [snd] in *.
    set (root0 := {| qr_id := None; qr_chunks := []; qr_dirs := map (mk_dir umask) (g_pipes g) |}) in *.
    destruct (store_chunks_spec is root0 (map (fun p => QSub (dir_of (p_id p))) (g_pipes g)) O) as [Hle Hch].
    rewrite Hstore in Hle, Hch.
    assert (Href : nth i (map (fun p => QSub (dir_of (p_id p))) (g_pipes g)) QNone = QSub (dir_of (pipeline_id ks))).
    { erewrite nth_error_nth; [reflexivity|]. rewrite nth_error_map, Hp. cbn. rewrite Hpid. reflexivity. }
    assert (Hhas : has_dir (dir_of (pipeline_id ks)) (qr_dirs root0) = true).
    { apply has_dir_true. exists (mk_dir umask p). split; [|cbn; rewrite Hpid; reflexivity].
      cbn [root0 qr_dirs]. apply in_map. exact (nth_error_In _ _ Hp). }
    destruct (Hch r i _ Hi Href Hhas) as [d [Hd [Hdn Hdr]]]. cbn [Nat.add] in Hdr.
    (* every directory of the final root carries the id of the pipeline that created it *)
    assert (Hdir_id : forall d', In d' (qr_dirs root) ->
              exists q, In q (g_pipes g) /\ qd_name d' = dir_of (p_id q) /\ qd_id d' = Some (p_id q) /\
                        qd_perm d' = N.land 493 (N.lxor umask 511)).
    { intros d' Hd'. destruct (dirs_le_In_rev _ _ _ Hle Hd') as [d0 [Hd0 [Hn0 [Hid0 [Hp0 _]]]]].
      cbn [root0 qr_dirs] in Hd0. apply in_map_iff in Hd0. destruct Hd0 as [q [<- Hq]].
      cbn [mk_dir qd_name qd_id qd_perm] in *. exists q. repeat split; congruence. }
    destruct (Hdir_id d Hd) as [q [Hq [Hqn [Hqid Hqperm]]]].
    assert (Hqks : p_keys q = ks /\ p_id q = pipeline_id ks).
    { destruct (Hrec_of q Hq) as [[oq [Hoq Hkq]] Hidq].
      assert (E : snd oq = ks).
      { apply (Hdirinj oq (si, ks) Hoq Hin_o). cbn [snd]. rewrite <- Hkq, <- Hidq, <- Hqn. exact Hdn. }
      rewrite Hkq, E in *. split; [reflexivity|exact Hidq]. }
    destruct Hqks as [Hqk Hqpid]. rewrite Hqpid in Hqid.
    (* phase C: the directory is listed and its id splits back into ks *)
    assert (Hlisted : In (pipeline_id ks) (list_buffer_ids (root_entries umask root))).
    { apply list_buffer_ids_spec.
      exists {| fe_name := qd_name d; fe_mode := S_IFDIR + qd_perm d; fe_id := qd_id d; fe_chunks := length (qd_chunks d) |}.
      split.
      - unfold root_entries. apply in_or_app. left.
        apply in_map with (f := fun d => {| fe_name := qd_name d; fe_mode := S_IFDIR + qd_perm d; fe_id := qd_id d;
                                           fe_chunks := length (qd_chunks d) |}). exact Hd.
      - unfold live_queue. cbn [fe_mode fe_id fe_chunks]. split; [|split; [exact Hqid|split; [exact Hne|]]].
        + rewrite Hqperm. apply dir_mode_any_perm. apply perm_bound. lia.
        + destruct (qd_chunks d); [destruct Hdr|cbn; lia]. }
    apply In_dedup_nil in Hlisted.
    assert (Hrk : recover_keys n (pipeline_id ks) = Some ks).
    { rewrite <- Hlen. apply recover_keys_roundtrip; [|exact Hnc]. intros ->. apply Hne. reflexivity. }
    destruct (orch_init_recovers_lemma _ _ _ _ Hinit _ _ Hlisted Hrk) as [i2 [p2 [Hp2 [Hk2 [Hid2 [Htag2 _]]]]]].
    exists d, p2, i2. split; [exact Hd|]. split; [exact Hdr|]. split; [exact Hp2|]. split; [exact Hk2|]. split; [exact Htag2|].
    split; [rewrite Hid2, (queue_dir_name_dir_of _ Hne), Hdn; reflexivity|].
    (* exclusivity: any recovered pipeline attached to this directory has the same key tuple *)
    intros p' Hp' Hattach.
    destruct (orch_init_origin _ _ _ _ Hinit p' Hp') as [[id [Hid_in Hid_rk]] Hp'id].
    apply In_dedup_sub in Hid_in. apply list_buffer_ids_spec in Hid_in.
    destruct Hid_in as [e [He [Hedir [Heid [Hidne _]]]]].
    unfold root_entries in He. apply in_app_or in He. destruct He as [He|He].
    2:{ exfalso. apply in_app_or in He. destruct He as [He|He].
        - destruct (qr_id root); [|destruct He]. destruct He as [<-|[]]. cbn [fe_mode] in Hedir.
          rewrite file_mode_any_perm in Hedir by (apply perm_bound; lia). discriminate.
        - apply in_map_iff in He. destruct He as [rr [<- _]]. cbn [fe_mode] in Hedir.
          rewrite file_mode_any_perm in Hedir by (apply perm_bound; lia). discriminate. }
    apply in_map_iff in He. destruct He as [d' [<- Hd']]. cbn [fe_id] in Heid.
    destruct (Hdir_id d' Hd') as [q' [Hq' [_ [Hq'id _]]]]. rewrite Hq'id in Heid. inversion Heid as [Eid]. clear Heid.
    destruct (Hrec_of q' Hq') as [[oq' [Hoq' Hkq']] Hidq'].
    destruct (Hprop _ Hoq') as [Hlenq' _].
    (* id = id of q' = join of its keys; it splits back into exactly these keys *)
    assert (Hk' : p_keys p' = snd oq').
    { apply recover_keys_never_foreign. rewrite Hlenq', <- Hkq', <- Hidq', Eid. exact Hid_rk. }
    rewrite Hk'. apply (Hdirinj oq' (si, ks) Hoq' Hin_o). cbn [snd].
    assert (Hne' : pipeline_id (snd oq') <> []) by (destruct (Hprop _ Hoq') as [_ [_ [H _]]]; exact H).
    rewrite Hp'id, Hk', (queue_dir_name_dir_of _ Hne') in Hattach. inversion Hattach as [E]. rewrite E. exact Hdn.
  Qed.
End Restart.

(* ---------- a concrete run ---------- *)

Definition ex_names : list bytes := [[107; 48]; [107; 49]].                      (* k0, k1 *)
Definition ex_tmpl : bytes := [36; 107; 48; 45; 36; 107; 49].                     (* $k0-$k1 *)
Definition ex_abc : list bytes := [[97; 98]; [99]].                               (* ("ab","c") *)
Definition ex_a_bc : list bytes := [[97]; [98; 99]].                              (* ("a","bc") *)

Definition example_statement : Prop :=
  exists parts g lms root0 refs g2,
    parse_template ex_names ex_tmpl = Some parts /\
    merged_key ex_abc <> merged_key ex_a_bc /\
    run_ops parts g_init [[]; []] [(0%nat, ex_abc); (1%nat, ex_a_bc); (1%nat, ex_abc)] = Ok (g, lms, [0; 1; 0]%nat) /\
    map p_id (g_pipes g) = [[97; 98; 44; 99]; [97; 44; 98; 99]] /\
    map p_tag (g_pipes g) = [[97; 98; 45; 99]; [97; 45; 98; 99]] /\
    make_dirs md5_hex 18 qroot_empty (g_pipes g) = (root0, refs) /\
    map qd_name (qr_dirs root0) = [[97; 98; 44; 99; 46; 51; 54; 53; 52; 102; 49; 53; 99];      (* ab,c.3654f15c *)
                                   [97; 44; 98; 99; 46; 97; 52; 100; 57; 56; 54; 53; 100]] /\   (* a,bc.a4d9865d *)
    orch_init parts 2 (dedup [] (list_buffer_ids (root_entries 18 (store_chunks root0 refs [0; 1; 0]%nat O)))) = Ok g2 /\
    map p_keys (g_pipes g2) = [ex_a_bc; ex_abc].

Lemma example_proof : example_statement.
Proof.
  unfold example_statement.
  eexists. eexists. eexists. eexists. eexists. eexists.
  split; [vm_compute; reflexivity|].
  split; [vm_compute; discriminate|].
  split; [vm_compute; reflexivity|].
  split; [vm_compute; reflexivity|].
  split; [vm_compute; reflexivity|].
  split; [vm_compute; reflexivity|].
  split; [vm_compute; reflexivity|].
  split; [vm_compute; reflexivity|].
  vm_compute; reflexivity.
Qed.
