(* C17 - the invariant of the reloadable orchestrator (current code: NewSink creates the downstream
   sink under the read lock) and its preservation by every event, for runs in which client numbers
   are unique among open sinks ([guard]). *)
From SV Require Import Model.Common Model.Reload Spec.ReloadSpec Proofs.ReloadLists.
From Coq Require Import Arith Lia Permutation.
Local Open Scope nat_scope.

Definition in_lock (c : cthread) : bool :=
  match ct_pc c with PNewIn _ | PAccIn _ _ | PTickIn _ | PCloseIn _ => true | _ => false end.

Definition rl_post (r : rpc) : bool :=
  match r with RInClose _ | RInShutdown | RInComplete | RInNew _ => true | _ => false end.

Definition claimsP (c : cthread) : Prop := ct_h c = HOpen \/ exists g, ct_pc c = PNewIn g.

Definition sink_at (st : state) (s : nat) : option dsink := nth_error (st_sinks st) s.

Definition thr_ok (st : state) (c : cthread) : Prop :=
  match ct_h c, ct_pc c with
  | HNone, PIdle => True
  | HNone, PNewIn g => g = st_cur st /\ ct_num c < length (st_table st)
  | HOpen, PIdle => exists s, slot st (ct_num c) = Some s
  | HOpen, PAccIn s _ => slot st (ct_num c) = Some s
  | HOpen, PTickIn s => slot st (ct_num c) = Some s
  | HOpen, PCloseIn s => slot st (ct_num c) = Some s
  | HClosed, PIdle => True
  | _, _ => False
  end.

Definition phase_ok (st : state) : Prop :=
  match st_rl st with
  | RInClose j => forall i s d, i < j -> slot st i = Some s -> sink_at st s = Some d -> ds_closed d = true
  | RInShutdown => forall i s d, slot st i = Some s -> sink_at st s = Some d -> ds_closed d = true
  | RInComplete => forall i s d, slot st i = Some s -> sink_at st s = Some d -> ds_closed d = true
  | RInNew j => (exists s0, slot st j = Some s0) /\
                forall i s d, slot st i = Some s -> sink_at st s = Some d -> ds_closed d = negb (i <? j)
  | _ => True
  end.

Record INV (st : state) : Prop := mkINV {
  i_lock : st_readers st = count in_lock (st_thr st);
  i_wr : st_writer st = rl_post (st_rl st);
  i_wr0 : st_writer st = true -> st_readers st = 0;
  i_gen : gen_shut st (st_cur st) = false \/ st_rl st = RInComplete;
  i_sink : forall s d, sink_at st s = Some d ->
     (ds_closed d = true -> ds_pending d = []) /\
     (ds_closed d = false ->
        ds_gen d = st_cur st /\ gen_shut st (st_cur st) = false /\
        nth_error (st_table st) (ds_num d) = Some (Some s));
  i_tabv : forall n s, slot st n = Some s -> exists d, sink_at st s = Some d /\ ds_num d = n;
  i_tabo : st_writer st = false -> forall n s d, slot st n = Some s -> sink_at st s = Some d -> ds_closed d = false;
  i_own : forall n s, slot st n = Some s ->
     exists t c, get_thr st t = Some c /\ ct_num c = n /\ ct_h c = HOpen;
  i_thr : forall t c, get_thr st t = Some c -> thr_ok st c;
  i_uniq : forall t c t' c', get_thr st t = Some c -> get_thr st t' = Some c' ->
     claimsP c -> claimsP c' -> ct_num c = ct_num c' -> t = t';
  i_phase : phase_ok st;
  i_log : log_ok (st_log st)
}.

(* ---------- frame facts ---------- *)
Lemma slot_slot_of : forall st n, slot st n = slot_of (st_table st) n.
Proof. reflexivity. Qed.

Lemma slot_nth : forall st n s, slot st n = Some s <-> nth_error (st_table st) n = Some (Some s).
Proof.
  intros. unfold slot. destruct (nth_error (st_table st) n) as [[x|]|]; split; intro H; try discriminate; congruence.
Qed.

Lemma get_put : forall st t c t',
  get_thr (put_thr st t c) t' = if (t =? t') && (t <? length (st_thr st)) then Some c else get_thr st t'.
Proof. intros. unfold get_thr, put_thr. cbn. apply nth_error_upd. Qed.

Lemma get_put_same : forall st t c c0, get_thr st t = Some c0 -> get_thr (put_thr st t c) t = Some c.
Proof.
  intros. rewrite get_put. rewrite Nat.eqb_refl.
  apply nth_error_some_lt in H. apply Nat.ltb_lt in H. rewrite H. reflexivity.
Qed.

Lemma get_put_other : forall st t c t', t <> t' -> get_thr (put_thr st t c) t' = get_thr st t'.
Proof. intros. rewrite get_put. apply Nat.eqb_neq in H. rewrite H. reflexivity. Qed.

Lemma get_put_cases : forall st t c c0 t' c',
  get_thr st t = Some c0 -> get_thr (put_thr st t c) t' = Some c' ->
  (t' = t /\ c' = c) \/ (t' <> t /\ get_thr st t' = Some c').
Proof.
  intros st t c c0 t' c' H0 H. destruct (Nat.eq_dec t t') as [->|Hn].
  - rewrite (get_put_same _ _ _ _ H0) in H. inversion H. auto.
  - rewrite get_put_other in H by auto. right. split; auto.
Qed.

Lemma thr_ok_ext : forall st st' c,
  st_cur st' = st_cur st -> st_table st' = st_table st -> thr_ok st c -> thr_ok st' c.
Proof.
  intros st st' c Hc Ht H. unfold thr_ok, slot in *. rewrite Hc, Ht. exact H.
Qed.

Lemma claims_false_not : forall n c, claims n c = false -> ct_num c = n -> ~ claimsP c.
Proof.
  intros n c H Hn [Ho|[g Hg]]; unfold claims in H; rewrite Hn, Nat.eqb_refl in H; simpl in H.
  - rewrite Ho in H. discriminate.
  - rewrite Hg in H. destruct (ct_h c); discriminate.
Qed.

Lemma num_free_not : forall st n t c, num_free st n = true -> get_thr st t = Some c -> ct_num c = n -> ~ claimsP c.
Proof.
  intros st n t c H Ht Hn. unfold num_free in H.
  pose proof (forallb_nth _ _ _ _ _ H Ht) as H1. apply Bool.negb_true_iff in H1.
  eapply claims_false_not; eauto.
Qed.

Lemma log_ok_cons : forall o lg, obs_ok o -> log_ok lg -> log_ok (o :: lg).
Proof. intros. constructor; auto. Qed.

Lemma log_ok_app : forall l1 l2, log_ok l1 -> log_ok l2 -> log_ok (l1 ++ l2).
Proof. intros. apply Forall_app. split; auto. Qed.

Lemma log_ok_rev_map : forall A (f : A -> obs) l, (forall x, obs_ok (f x)) -> log_ok (rev (map f l)).
Proof.
  intros. unfold log_ok. apply Forall_rev. apply Forall_forall. intros o Ho.
  apply in_map_iff in Ho. destruct Ho as (x & <- & _). auto.
Qed.

(* ---------- the initial state ---------- *)
Lemma slot_init : forall nthr maxn n, slot (init nthr maxn) n = None.
Proof.
  intros. unfold slot, init. cbn. destruct (nth_error (repeat None maxn) n) as [o|] eqn:E; auto.
  apply nth_error_repeat in E. subst. reflexivity.
Qed.

Lemma count_repeat_false : forall A (f : A -> bool) x n, f x = false -> count f (repeat x n) = 0.
Proof. unfold count. induction n as [|n IH]; intros H; simpl; auto. rewrite H. auto. Qed.

Lemma inv_init : forall nthr maxn, INV (init nthr maxn).
Proof.
  intros. constructor.
  - cbn. symmetry. apply count_repeat_false. reflexivity.
  - reflexivity.
  - cbn. discriminate.
  - left. reflexivity.
  - intros s d H. unfold sink_at, init in H. cbn in H. destruct s; discriminate.
  - intros n s H. rewrite slot_init in H. discriminate.
  - intros _ n s d H. rewrite slot_init in H. discriminate.
  - intros n s H. rewrite slot_init in H. discriminate.
  - intros t c H. unfold get_thr, init in H. cbn in H. apply nth_error_repeat in H. subst. exact I.
  - intros t c t' c' H _ [Hc|[g Hc]] _ _; unfold get_thr, init in H; cbn in H;
      apply nth_error_repeat in H; subst; discriminate.
  - exact I.
  - constructor.
Qed.

(* ---------- preservation, event by event ---------- *)
Ltac inv_step H :=
  unfold step in H;
  repeat match type of H with
  | context [match get_thr ?st ?t with _ => _ end] =>
      let E := fresh "Ht" in destruct (get_thr st t) as [[? [] []]|] eqn:E; try discriminate H
  | context [if st_writer ?st then _ else _] =>
      let E := fresh "Hw" in destruct (st_writer st) eqn:E; try discriminate H
  end.

Lemma put_thr_proj : forall st t c,
  st_cur (put_thr st t c) = st_cur st /\ st_shut (put_thr st t c) = st_shut st /\
  st_sinks (put_thr st t c) = st_sinks st /\ st_table (put_thr st t c) = st_table st /\
  st_readers (put_thr st t c) = st_readers st /\ st_writer (put_thr st t c) = st_writer st /\
  st_rl (put_thr st t c) = st_rl st /\ st_log (put_thr st t c) = st_log st.
Proof. intros. repeat split. Qed.

(* a state that differs from [st] only in the thread list and the reader count *)
Definition same_objects (st st' : state) : Prop :=
  st_cur st' = st_cur st /\ st_shut st' = st_shut st /\ st_sinks st' = st_sinks st /\
  st_table st' = st_table st /\ st_writer st' = st_writer st /\ st_rl st' = st_rl st /\
  st_log st' = st_log st.

Lemma same_objects_slot : forall st st' n, same_objects st st' -> slot st' n = slot st n.
Proof. intros st st' n (_ & _ & _ & Ht & _). unfold slot. rewrite Ht. reflexivity. Qed.

Lemma same_objects_sink : forall st st' s, same_objects st st' -> sink_at st' s = sink_at st s.
Proof. intros st st' s (_ & _ & Hs & _). unfold sink_at. rewrite Hs. reflexivity. Qed.

Lemma same_objects_gen : forall st st' g, same_objects st st' -> gen_shut st' g = gen_shut st g.
Proof. intros st st' g (_ & Hs & _). unfold gen_shut. rewrite Hs. reflexivity. Qed.

Lemma same_objects_phase : forall st st', same_objects st st' -> phase_ok st -> phase_ok st'.
Proof.
  intros st st' H P. pose proof H as (_ & _ & _ & Ht & _ & Hr & _). unfold phase_ok in *. rewrite Hr.
  destruct (st_rl st); auto.
  - intros i s d. rewrite (same_objects_slot _ _ _ H), (same_objects_sink _ _ _ H). apply P.
  - intros i s d. rewrite (same_objects_slot _ _ _ H), (same_objects_sink _ _ _ H). apply P.
  - intros i s d. rewrite (same_objects_slot _ _ _ H), (same_objects_sink _ _ _ H). apply P.
  - destruct P as [P1 P2]. split.
    + destruct P1 as [s0 P1]. exists s0. rewrite (same_objects_slot _ _ _ H). exact P1.
    + intros i s d. rewrite (same_objects_slot _ _ _ H), (same_objects_sink _ _ _ H). apply P2.
Qed.

(* everything of the invariant that does not talk about threads or the lock counters is inherited *)
Lemma inv_same_objects : forall st st',
  INV st -> same_objects st st' ->
  st_readers st' = count in_lock (st_thr st') ->
  (st_writer st = true -> st_readers st' = 0) ->
  (forall n s, slot st n = Some s -> exists t c, get_thr st' t = Some c /\ ct_num c = n /\ ct_h c = HOpen) ->
  (forall t c, get_thr st' t = Some c -> thr_ok st c) ->
  (forall t c t' c', get_thr st' t = Some c -> get_thr st' t' = Some c' ->
     claimsP c -> claimsP c' -> ct_num c = ct_num c' -> t = t') ->
  INV st'.
Proof.
  intros st st' I H Hl Hw0 Hown Hthr Huniq.
  pose proof H as (Hc & Hsh & Hsk & Htb & Hw & Hr & Hlg).
  constructor.
  - exact Hl.
  - rewrite Hw, Hr. apply I.
  - rewrite Hw. exact Hw0.
  - rewrite Hc, Hr, (same_objects_gen _ _ _ H). apply I.
  - intros s d. rewrite (same_objects_sink _ _ _ H), Hc, Htb, (same_objects_gen _ _ _ H). apply I.
  - intros n s. rewrite (same_objects_slot _ _ _ H). intros Hs. destruct (i_tabv _ I _ _ Hs) as (d & Hd & Hn).
    exists d. rewrite (same_objects_sink _ _ _ H). auto.
  - rewrite Hw. intros Hwf n s d. rewrite (same_objects_slot _ _ _ H), (same_objects_sink _ _ _ H). apply I; auto.
  - intros n s. rewrite (same_objects_slot _ _ _ H). apply Hown.
  - intros t c Ht. eapply thr_ok_ext; [exact Hc|exact Htb|]. eapply Hthr; eauto.
  - exact Huniq.
  - eapply same_objects_phase; eauto. apply I.
  - rewrite Hlg. apply I.
Qed.

Lemma readers_pos : forall st t c, INV st -> get_thr st t = Some c -> in_lock c = true ->
  1 <= st_readers st /\ st_writer st = false.
Proof.
  intros st t c I Ht Hl. assert (1 <= st_readers st).
  { rewrite (i_lock _ I). eapply count_pos; eauto. }
  split; auto. destruct (st_writer st) eqn:E; auto. pose proof (i_wr0 _ I E). lia.
Qed.

Lemma inv_new_begin : forall st t n st',
  INV st -> guard st (ENewBegin t n) = true -> step true st (ENewBegin t n) = Some st' -> INV st'.
Proof.
  intros st t n st' I G H. inv_step H. inversion H; subst st'; clear H.
  simpl in G. apply andb_true_iff in G. destruct G as [Gn Gf]. apply Nat.ltb_lt in Gn.
  set (c' := mkThr n HNone (PNewIn (st_cur st))).
  apply (inv_same_objects st); auto.
  - repeat split.
  - cbn. pose proof (count_upd _ in_lock (st_thr st) t _ c' Ht) as Hc. simpl in Hc.
    rewrite (i_lock _ I). unfold get_thr in Ht. lia.
  - intros Hw'. congruence.
  - intros n' s Hs. destruct (i_own _ I _ _ Hs) as (t0 & c0 & Ht0 & Hn0 & Hh0).
    exists t0, c0. split; auto. rewrite get_put_other; auto.
    intro; subst t0. rewrite Ht in Ht0. inversion Ht0; subst c0. discriminate.
  - intros t0 c0 Ht0. destruct (get_put_cases _ _ _ _ _ _ Ht Ht0) as [[-> ->]|[Hn Hold]].
    + unfold thr_ok, c'. simpl. split; auto.
    + eapply (i_thr _ I); eauto.
  - intros t1 c1 t2 c2 H1 H2 C1 C2 E.
    destruct (get_put_cases _ _ _ _ _ _ Ht H1) as [[-> ->]|[Hn1 Ho1]];
    destruct (get_put_cases _ _ _ _ _ _ Ht H2) as [[-> ->]|[Hn2 Ho2]]; auto.
    + exfalso. eapply (num_free_not st n t2 c2); eauto.
    + exfalso. eapply (num_free_not st n t1 c1); eauto.
    + eapply (i_uniq _ I); eauto.
Qed.

(* an open connection takes the read lock and enters a downstream call *)
Lemma inv_enter : forall st t n pc',
  INV st -> get_thr st t = Some (mkThr n HOpen PIdle) -> st_writer st = false ->
  in_lock (mkThr n HOpen pc') = true -> thr_ok st (mkThr n HOpen pc') ->
  INV (put_thr (set_readers st (S (st_readers st))) t (mkThr n HOpen pc')).
Proof.
  intros st t n pc' I Ht Hw Hin Hok.
  set (c' := mkThr n HOpen pc').
  set (st1 := set_readers st (S (st_readers st))).
  assert (Ht1 : get_thr st1 t = Some (mkThr n HOpen PIdle)) by exact Ht.
  apply (inv_same_objects st); auto.
  - repeat split.
  - cbn. pose proof (count_upd _ in_lock (st_thr st) t _ c' Ht) as Hc.
    fold c' in Hin. rewrite Hin in Hc. simpl in Hc. rewrite (i_lock _ I). lia.
  - intros Hw'. congruence.
  - intros n' s Hs. destruct (i_own _ I _ _ Hs) as (t0 & c0 & Ht0 & Hn0 & Hh0).
    destruct (Nat.eq_dec t t0) as [<-|Hne].
    + exists t, c'. rewrite (get_put_same _ _ _ _ Ht1). rewrite Ht in Ht0. inversion Ht0; subst c0. auto.
    + exists t0, c0. rewrite get_put_other; auto.
  - intros t0 c0 Ht0. destruct (get_put_cases _ _ _ _ _ _ Ht1 Ht0) as [[-> ->]|[Hn Hold]]; auto.
    eapply (i_thr _ I); eauto.
  - intros t1 c1 t2 c2 H1 H2 C1 C2 E.
    assert (Cold : claimsP (mkThr n HOpen PIdle)) by (left; reflexivity).
    destruct (get_put_cases _ _ _ _ _ _ Ht1 H1) as [[-> ->]|[Hn1 Ho1]];
    destruct (get_put_cases _ _ _ _ _ _ Ht1 H2) as [[-> ->]|[Hn2 Ho2]]; auto.
    + eapply (i_uniq _ I t _ t2 c2); eauto.
    + eapply (i_uniq _ I t1 c1 t _); eauto.
    + eapply (i_uniq _ I); eauto.
Qed.

Lemma open_idle_slot : forall st t n, INV st -> get_thr st t = Some (mkThr n HOpen PIdle) ->
  exists s, slot st n = Some s.
Proof. intros st t n I Ht. apply (i_thr _ I) in Ht. exact Ht. Qed.

Lemma inv_acc_begin : forall st t rs st',
  INV st -> step true st (EAccBegin t rs) = Some st' -> INV st'.
Proof.
  intros st t rs st' I H. inv_step H. destruct (open_idle_slot _ _ _ I Ht) as [s Hs].
  rewrite Hs in H. inversion H; subst st'. apply inv_enter; auto.
Qed.

Lemma inv_tick_begin : forall st t st',
  INV st -> step true st (ETickBegin t) = Some st' -> INV st'.
Proof.
  intros st t st' I H. inv_step H. destruct (open_idle_slot _ _ _ I Ht) as [s Hs].
  rewrite Hs in H. inversion H; subst st'. apply inv_enter; auto.
Qed.

Lemma inv_close_begin : forall st t st',
  INV st -> step true st (ECloseBegin t) = Some st' -> INV st'.
Proof.
  intros st t st' I H. inv_step H. destruct (open_idle_slot _ _ _ I Ht) as [s Hs].
  rewrite Hs in H. inversion H; subst st'. apply inv_enter; auto.
Qed.

(* ---------- leaving a downstream call ---------- *)
Lemma sink_at_upd : forall st s d' s',
  nth_error (upd (st_sinks st) s d') s' =
  if (s =? s') && (s <? length (st_sinks st)) then Some d' else sink_at st s'.
Proof. intros. apply nth_error_upd. Qed.

Lemma not_post_phase : forall st, st_writer st = false -> st_writer st = rl_post (st_rl st) ->
  forall st', st_rl st' = st_rl st -> phase_ok st'.
Proof.
  intros st Hw E st' Hr. unfold phase_ok. rewrite Hr. rewrite Hw in E.
  destruct (st_rl st); simpl in E; try discriminate; exact I.
Qed.

(* Accept / Tick of an open connection: sink s keeps generation, number and stays open; only its buffer
   and the log change *)
Lemma inv_exit_keep : forall st t n pc s d d' lg',
  INV st -> get_thr st t = Some (mkThr n HOpen pc) -> in_lock (mkThr n HOpen pc) = true ->
  slot st n = Some s -> sink_at st s = Some d ->
  ds_gen d' = ds_gen d -> ds_num d' = ds_num d -> ds_closed d' = false ->
  log_ok lg' ->
  INV (put_thr (set_readers (set_log (set_sinks st (upd (st_sinks st) s d')) (lg' ++ st_log st))
                            (pred (st_readers st))) t (mkThr n HOpen PIdle)).
Proof.
  intros st t n pc s d d' lg' I Ht Hin Hs Hd Eg En Ec Hlg.
  destruct (readers_pos _ _ _ I Ht Hin) as [Hr Hw].
  assert (Hdo : ds_closed d = false) by (eapply (i_tabo _ I Hw); eauto).
  set (st1 := set_readers (set_log (set_sinks st (upd (st_sinks st) s d')) (lg' ++ st_log st)) (pred (st_readers st))).
  assert (Ht1 : get_thr st1 t = Some (mkThr n HOpen pc)) by exact Ht.
  assert (Hslt : s < length (st_sinks st)) by (eapply nth_error_some_lt; exact Hd).
  assert (Hsk : forall s', sink_at (put_thr st1 t (mkThr n HOpen PIdle)) s' =
                           if s =? s' then Some d' else sink_at st s').
  { intros s'. unfold sink_at at 1. cbn. rewrite sink_at_upd. apply Nat.ltb_lt in Hslt. rewrite Hslt.
    rewrite andb_true_r. reflexivity. }
  constructor.
  - cbn. pose proof (count_upd _ in_lock (st_thr st) t _ (mkThr n HOpen PIdle) Ht) as Hc.
    rewrite Hin in Hc. simpl in Hc. rewrite (i_lock _ I) in *. lia.
  - cbn. apply I.
  - cbn. congruence.
  - cbn. apply I.
  - intros s' dd. rewrite Hsk. destruct (Nat.eqb_spec s s') as [<-|Hne]; intros Hdd.
    + inversion Hdd; subst dd. split; [congruence|]. intros _. rewrite Eg, En.
      destruct (i_sink _ I _ _ Hd) as [_ H2]. apply (H2 Hdo).
    + apply (i_sink _ I _ _ Hdd).
  - intros n' s' Hs'. change (slot st n' = Some s') in Hs'. rewrite Hsk.
    destruct (i_tabv _ I _ _ Hs') as (d0 & Hd0 & Hn0).
    destruct (Nat.eqb_spec s s') as [<-|Hne]; [|eauto].
    exists d'. split; auto. rewrite Hd in Hd0. inversion Hd0; subst d0. congruence.
  - intros _ n' s' dd Hs'. change (slot st n' = Some s') in Hs'. rewrite Hsk.
    destruct (Nat.eqb_spec s s'); intros Hdd.
    + inversion Hdd; subst; auto.
    + eapply (i_tabo _ I Hw); eauto.
  - intros n' s' Hs'. change (slot st n' = Some s') in Hs'.
    destruct (i_own _ I _ _ Hs') as (t0 & c0 & Ht0 & Hn0 & Hh0).
    destruct (Nat.eq_dec t t0) as [<-|Hne].
    + exists t, (mkThr n HOpen PIdle). rewrite (get_put_same _ _ _ _ Ht1).
      rewrite Ht in Ht0. inversion Ht0; subst c0. auto.
    + exists t0, c0. rewrite get_put_other; auto.
  - intros t0 c0 Ht0. destruct (get_put_cases _ _ _ _ _ _ Ht1 Ht0) as [[-> ->]|[Hn Hold]].
    + unfold thr_ok. simpl. exists s. exact Hs.
    + eapply thr_ok_ext with (st := st); try reflexivity. eapply (i_thr _ I); eauto.
  - intros t1 c1 t2 c2 H1 H2 C1 C2 E.
    assert (Cold : claimsP (mkThr n HOpen pc)) by (left; reflexivity).
    destruct (get_put_cases _ _ _ _ _ _ Ht1 H1) as [[-> ->]|[Hn1 Ho1]];
    destruct (get_put_cases _ _ _ _ _ _ Ht1 H2) as [[-> ->]|[Hn2 Ho2]]; auto.
    + eapply (i_uniq _ I t _ t2 c2); eauto.
    + eapply (i_uniq _ I t1 c1 t _); eauto.
    + eapply (i_uniq _ I); eauto.
  - eapply (not_post_phase st); auto. apply I.
  - cbn. apply log_ok_app; auto. apply I.
Qed.

Lemma open_sink_alive : forall st s d, INV st -> sink_at st s = Some d -> ds_closed d = false ->
  sink_alive st d = true /\ gen_shut st (ds_gen d) = false.
Proof.
  intros st s d I Hd Ho. destruct (i_sink _ I _ _ Hd) as [_ H2]. destruct (H2 Ho) as (Eg & Hg & _).
  unfold sink_alive. rewrite Ho, Eg, Hg. auto.
Qed.

Lemma in_call_sink : forall st t n pc s, INV st -> get_thr st t = Some (mkThr n HOpen pc) ->
  in_lock (mkThr n HOpen pc) = true -> slot st n = Some s ->
  exists d, sink_at st s = Some d /\ ds_closed d = false.
Proof.
  intros st t n pc s I Ht Hin Hs. destruct (readers_pos _ _ _ I Ht Hin) as [_ Hw].
  destruct (i_tabv _ I _ _ Hs) as (d & Hd & _). exists d. split; auto. eapply (i_tabo _ I Hw); eauto.
Qed.

Lemma inv_acc_end : forall st t st',
  INV st -> step true st (EAccEnd t) = Some st' -> INV st'.
Proof.
  intros st t st' I H. inv_step H. inversion H; subst st'; clear H.
  pose proof (i_thr _ I _ _ Ht) as Hs. unfold thr_ok in Hs; simpl in Hs.
  destruct (in_call_sink _ _ _ _ _ I Ht eq_refl Hs) as (d & Hd & Ho).
  destruct (open_sink_alive _ _ _ I Hd Ho) as [Hal _].
  unfold hand. unfold sink_at in Hd. rewrite Hd. rewrite Hal.
  eapply (inv_exit_keep st t _ _ _ d); eauto.
  apply log_ok_rev_map. intros r. reflexivity.
Qed.

Lemma inv_tick_end : forall st t st',
  INV st -> step true st (ETickEnd t) = Some st' -> INV st'.
Proof.
  intros st t st' I H. inv_step H. inversion H; subst st'; clear H.
  pose proof (i_thr _ I _ _ Ht) as Hs. unfold thr_ok in Hs; simpl in Hs.
  destruct (in_call_sink _ _ _ _ _ I Ht eq_refl Hs) as (d & Hd & Ho).
  destruct (open_sink_alive _ _ _ I Hd Ho) as [_ Hg].
  unfold flush. unfold sink_at in Hd. rewrite Hd. rewrite Hg, Ho.
  eapply (inv_exit_keep st t _ _ _ d); eauto.
  apply log_ok_rev_map. intros r. reflexivity.
Qed.

Lemma slot_upd_table : forall st tb n x n',
  st_table st = tb ->
  forall st', st_table st' = upd tb n x ->
  slot st' n' = if (n =? n') && (n <? length tb) then (match x with Some s => Some s | None => None end) else slot st n'.
Proof.
  intros st tb n x n' E st' E'. unfold slot. rewrite E', E, nth_error_upd.
  destruct ((n =? n') && (n <? length tb)); auto.
Qed.

Lemma inv_close_end : forall st t st',
  INV st -> step true st (ECloseEnd t) = Some st' -> INV st'.
Proof.
  intros st t st' I H. inv_step H. inversion H; subst st'; clear H.
  rename ct_num into n. rename s into s0.
  pose proof (i_thr _ I _ _ Ht) as Hs. unfold thr_ok in Hs; simpl in Hs.
  destruct (in_call_sink _ _ _ _ _ I Ht eq_refl Hs) as (d & Hd & Ho).
  destruct (open_sink_alive _ _ _ I Hd Ho) as [_ Hg].
  destruct (readers_pos _ _ _ I Ht eq_refl) as [Hr Hw].
  assert (Hnl : n < length (st_table st)) by (eapply slot_of_some_lt; exact Hs).
  unfold flush. pose proof Hd as Hd'. unfold sink_at in Hd'. rewrite Hd'. rewrite Hg. cbn [negb orb].
  replace (ds_closed d || true) with true by (destruct (ds_closed d); reflexivity).
  set (d' := mkSink (ds_gen d) (ds_num d) (ds_addr d) true []).
  set (lg' := rev (map (fun r : rec => ODeliver r s0 (ds_gen d) true) (ds_pending d))).
  cbn [st_table set_log set_sinks st_readers set_table].
  set (st2 := set_readers (set_table (set_log (set_sinks st (upd (st_sinks st) s0 d')) (lg' ++ st_log st))
                                     (upd (st_table st) n None)) (pred (st_readers st))).
  assert (Ht2 : get_thr st2 t = Some (mkThr n HOpen (PCloseIn s0))) by exact Ht.
  assert (Hslt : s0 < length (st_sinks st)) by (eapply nth_error_some_lt; exact Hd).
  set (cN := mkThr n HClosed PIdle).
  assert (Hsk : forall s', sink_at (put_thr st2 t cN) s' = if s0 =? s' then Some d' else sink_at st s').
  { intros s'. unfold sink_at at 1. cbn. rewrite sink_at_upd. apply Nat.ltb_lt in Hslt. rewrite Hslt.
    rewrite andb_true_r. reflexivity. }
  assert (Hsl : forall n', slot (put_thr st2 t cN) n' = if n =? n' then None else slot st n').
  { intros n'. rewrite (slot_upd_table st (st_table st) n None n' eq_refl) by reflexivity.
    apply Nat.ltb_lt in Hnl. rewrite Hnl, andb_true_r. reflexivity. }
  constructor.
  - cbn. pose proof (count_upd _ in_lock (st_thr st) t _ cN Ht) as Hc.
    simpl in Hc. rewrite (i_lock _ I) in *. lia.
  - cbn. apply I.
  - cbn. congruence.
  - cbn. apply I.
  - intros s' dd. rewrite Hsk. destruct (Nat.eqb_spec s0 s') as [<-|Hne]; intros Hdd.
    + inversion Hdd; subst dd. split; [reflexivity|discriminate].
    + destruct (i_sink _ I _ _ Hdd) as [H1 H2]. split; auto. intros Hoo. destruct (H2 Hoo) as (E1 & E2 & E3).
      split; auto. split; auto. cbn. rewrite nth_error_upd_neq; auto.
      intro En. rewrite <- En in E3. apply slot_nth in E3. rewrite E3 in Hs. inversion Hs. auto.
  - intros n' s'. rewrite Hsl. destruct (Nat.eqb_spec n n') as [<-|Hne]; [discriminate|].
    intros Hs'. destruct (i_tabv _ I _ _ Hs') as (d0 & Hd0 & Hn0). rewrite Hsk.
    destruct (Nat.eqb_spec s0 s') as [<-|Hne2]; eauto.
    exfalso. rewrite Hd in Hd0. inversion Hd0; subst d0. destruct (i_tabv _ I _ _ Hs) as (d1 & Hd1 & Hn1).
    rewrite Hd in Hd1. inversion Hd1; subst d1. congruence.
  - intros _ n' s' dd. rewrite Hsl. destruct (Nat.eqb_spec n n') as [<-|Hne]; [discriminate|].
    intros Hs'. rewrite Hsk. destruct (Nat.eqb_spec s0 s') as [<-|Hne2]; intros Hdd.
    + exfalso. destruct (i_tabv _ I _ _ Hs') as (d0 & Hd0 & Hn0). destruct (i_tabv _ I _ _ Hs) as (d1 & Hd1 & Hn1).
      congruence.
    + eapply (i_tabo _ I Hw); eauto.
  - intros n' s'. rewrite Hsl. destruct (Nat.eqb_spec n n') as [<-|Hne]; [discriminate|].
    intros Hs'. destruct (i_own _ I _ _ Hs') as (t0 & c0 & Ht0 & Hn0 & Hh0).
    exists t0, c0. split; auto. rewrite get_put_other; auto.
    intros <-. rewrite Ht in Ht0. inversion Ht0; subst c0. simpl in Hn0. auto.
  - intros t0 c0 Ht0. destruct (get_put_cases _ _ _ _ _ _ Ht2 Ht0) as [[-> ->]|[Hn Hold]].
    + exact Logic.I.
    + pose proof (i_thr _ I _ _ Hold) as Hok.
      assert (Hcl : claimsP c0 -> ct_num c0 <> n).
      { intros C E. apply Hn. eapply (i_uniq _ I t0 c0 t _ Hold Ht C); [left; reflexivity|exact E]. }
      unfold thr_ok in *. destruct c0 as [n0 h0 pc0]. simpl in *.
      destruct h0, pc0; auto;
        try (rewrite Hsl; destruct (Nat.eqb_spec n n0) as [<-|Hne0];
             [exfalso; apply Hcl; [left; reflexivity|reflexivity]|exact Hok]).
      destruct Hok as [Hok1 Hok2]. split; auto. cbn. rewrite upd_length. exact Hok2.
  - intros t1 c1 t2 c2 H1 H2 C1 C2 E.
    assert (NC : ~ claimsP cN) by (intros [X|[g X]]; discriminate).
    destruct (get_put_cases _ _ _ _ _ _ Ht2 H1) as [[-> ->]|[Hn1 Ho1]];
    destruct (get_put_cases _ _ _ _ _ _ Ht2 H2) as [[-> ->]|[Hn2 Ho2]]; auto; try contradiction.
    eapply (i_uniq _ I); eauto.
  - eapply (not_post_phase st); auto. apply I.
  - cbn. apply log_ok_app; [|apply I]. apply log_ok_rev_map. intros r. reflexivity.
Qed.

Lemma not_post_gen : forall st, INV st -> st_writer st = false -> gen_shut st (st_cur st) = false.
Proof.
  intros st I Hw. destruct (i_gen _ I) as [H|H]; auto.
  pose proof (i_wr _ I) as E. rewrite Hw, H in E. discriminate.
Qed.

Lemma inv_new_end : forall st t st',
  INV st -> step true st (ENewEnd t) = Some st' -> INV st'.
Proof.
  intros st t st' I H. inv_step H. rename ct_num into n.
  pose proof (i_thr _ I _ _ Ht) as Hok. unfold thr_ok in Hok; simpl in Hok. destruct Hok as [-> Hnl].
  destruct (readers_pos _ _ _ I Ht eq_refl) as [Hr Hw].
  unfold new_sink in H. cbn [st_readers set_sinks] in H. unfold store in H.
  cbn [st_table set_readers set_sinks] in H. pose proof Hnl as Hnl'. apply Nat.ltb_lt in Hnl'. rewrite Hnl' in H.
  inversion H; subst st'; clear H.
  set (s := length (st_sinks st)).
  set (dn := mkSink (st_cur st) n t false []).
  set (st2 := set_addrs (set_table (set_readers (set_sinks st (st_sinks st ++ [dn])) (pred (st_readers st)))
                                   (upd (st_table st) n (Some s))) (upd (st_addrs st) n t)).
  assert (Ht2 : get_thr st2 t = Some (mkThr n HNone (PNewIn (st_cur st)))) by exact Ht.
  set (cN := mkThr n HOpen PIdle).
  assert (Hsk : forall s', sink_at (put_thr st2 t cN) s' = nth_error (st_sinks st ++ [dn]) s') by reflexivity.
  assert (Hsl : forall n', slot (put_thr st2 t cN) n' = if n =? n' then Some s else slot st n').
  { intros n'. rewrite (slot_upd_table st (st_table st) n (Some s) n' eq_refl) by reflexivity.
    rewrite Hnl', andb_true_r. reflexivity. }
  assert (Hfree : forall s', slot st n = Some s' -> False).
  { intros s' Hs'. destruct (i_own _ I _ _ Hs') as (t0 & c0 & Ht0 & Hn0 & Hh0).
    assert (t0 = t).
    { eapply (i_uniq _ I t0 c0 t _ Ht0 Ht); [left; auto|right; eexists; reflexivity|exact Hn0]. }
    subst t0. rewrite Ht in Ht0. inversion Ht0; subst c0. discriminate. }
  constructor.
  - cbn. pose proof (count_upd _ in_lock (st_thr st) t _ cN Ht) as Hc.
    simpl in Hc. rewrite (i_lock _ I) in *. lia.
  - cbn. apply I.
  - cbn. congruence.
  - cbn. apply I.
  - intros s' dd. rewrite Hsk. intros Hdd. apply nth_error_app_inv in Hdd. destruct Hdd as [Hdd|[-> ->]].
    + destruct (i_sink _ I _ _ Hdd) as [H1 H2]. split; auto. intros Hoo. destruct (H2 Hoo) as (E1 & E2 & E3).
      split; auto. split; auto. cbn. rewrite nth_error_upd_neq; auto.
      intro En. rewrite <- En in E3. apply slot_nth in E3. eapply Hfree; eauto.
    + split; [discriminate|]. intros _. cbn. split; auto. split.
      * apply (not_post_gen _ I Hw).
      * apply nth_error_upd_eq. exact Hnl.
  - intros n' s'. rewrite Hsl, Hsk. destruct (Nat.eqb_spec n n') as [<-|Hne]; intros Hs'.
    + inversion Hs'; subst s'. exists dn. split; auto. apply nth_error_app_last.
    + destruct (i_tabv _ I _ _ Hs') as (d0 & Hd0 & Hn0). exists d0. split; auto. apply nth_error_app_old. exact Hd0.
  - intros _ n' s' dd. rewrite Hsl, Hsk. destruct (Nat.eqb_spec n n') as [<-|Hne]; intros Hs' Hdd.
    + inversion Hs'; subst s'. unfold s in Hdd. rewrite nth_error_app_last in Hdd. inversion Hdd; subst. reflexivity.
    + destruct (i_tabv _ I _ _ Hs') as (d0 & Hd0 & Hn0). rewrite (nth_error_app_old _ _ _ _ _ Hd0) in Hdd.
      inversion Hdd; subst dd. eapply (i_tabo _ I Hw); eauto.
  - intros n' s'. rewrite Hsl. destruct (Nat.eqb_spec n n') as [<-|Hne]; intros Hs'.
    + exists t, cN. rewrite (get_put_same _ _ _ _ Ht2). auto.
    + destruct (i_own _ I _ _ Hs') as (t0 & c0 & Ht0 & Hn0 & Hh0).
      exists t0, c0. split; auto. rewrite get_put_other; auto.
      intros <-. rewrite Ht in Ht0. inversion Ht0; subst c0. discriminate.
  - intros t0 c0 Ht0. destruct (get_put_cases _ _ _ _ _ _ Ht2 Ht0) as [[-> ->]|[Hn Hold]].
    + unfold thr_ok. simpl. exists s. rewrite Hsl, Nat.eqb_refl. reflexivity.
    + pose proof (i_thr _ I _ _ Hold) as Hok.
      assert (Hcl : claimsP c0 -> ct_num c0 <> n).
      { intros C E. apply Hn. eapply (i_uniq _ I t0 c0 t _ Hold Ht C); [right; eexists; reflexivity|exact E]. }
      unfold thr_ok in *. destruct c0 as [n0 h0 pc0]. simpl in *.
      destruct h0, pc0; auto;
        try (rewrite Hsl; destruct (Nat.eqb_spec n n0) as [<-|Hne0];
             [exfalso; apply Hcl; [left; reflexivity|reflexivity]|exact Hok]).
      destruct Hok as [Hok1 Hok2]. split; auto. cbn. rewrite upd_length. exact Hok2.
  - intros t1 c1 t2 c2 H1 H2 C1 C2 E.
    assert (Cold : claimsP (mkThr n HNone (PNewIn (st_cur st)))) by (right; eexists; reflexivity).
    destruct (get_put_cases _ _ _ _ _ _ Ht2 H1) as [[-> ->]|[Hn1 Ho1]];
    destruct (get_put_cases _ _ _ _ _ _ Ht2 H2) as [[-> ->]|[Hn2 Ho2]]; auto.
    + eapply (i_uniq _ I t _ t2 c2); eauto.
    + eapply (i_uniq _ I t1 c1 t _); eauto.
    + eapply (i_uniq _ I); eauto.
  - eapply (not_post_phase st); auto. apply I.
  - cbn. apply I.
Qed.

(* ---------- the reload goroutine ---------- *)
(* a state that differs from [st] only in st_rl, st_writer and the counters of reloads *)
Lemma inv_rl_change : forall st st',
  INV st ->
  st_cur st' = st_cur st -> st_shut st' = st_shut st -> st_sinks st' = st_sinks st ->
  st_table st' = st_table st -> st_readers st' = st_readers st -> st_thr st' = st_thr st ->
  st_log st' = st_log st ->
  st_writer st' = rl_post (st_rl st') ->
  (st_writer st' = true -> st_readers st = 0) ->
  (gen_shut st (st_cur st) = false \/ st_rl st' = RInComplete) ->
  (st_writer st' = false -> forall n s d, slot st n = Some s -> sink_at st s = Some d -> ds_closed d = false) ->
  phase_ok st' ->
  INV st'.
Proof.
  intros st st' I Hc Hsh Hsk Htb Hrd Hth Hlg Hwr Hw0 Hcomp Htabo Hph.
  assert (Hslot : forall n, slot st' n = slot st n) by (intros; unfold slot; rewrite Htb; reflexivity).
  assert (Hsink : forall s, sink_at st' s = sink_at st s) by (intros; unfold sink_at; rewrite Hsk; reflexivity).
  assert (Hgs : forall g, gen_shut st' g = gen_shut st g) by (intros; unfold gen_shut; rewrite Hsh; reflexivity).
  assert (Hget : forall t, get_thr st' t = get_thr st t) by (intros; unfold get_thr; rewrite Hth; reflexivity).
  constructor.
  - rewrite Hrd, Hth. apply I.
  - exact Hwr.
  - rewrite Hrd. exact Hw0.
  - rewrite Hc, Hgs. exact Hcomp.
  - intros s d. rewrite Hsink, Hc, Htb, Hgs. apply I.
  - intros n s. rewrite Hslot. intros Hs. destruct (i_tabv _ I _ _ Hs) as (d & Hd & Hn). exists d. rewrite Hsink. auto.
  - intros Hw n s d. rewrite Hslot, Hsink. apply Htabo. exact Hw.
  - intros n s. rewrite Hslot. intros Hs. destruct (i_own _ I _ _ Hs) as (t & c & Ht & Hx). exists t, c. rewrite Hget. auto.
  - intros t c. rewrite Hget. intros Ht. eapply thr_ok_ext; [exact Hc|exact Htb|]. eapply (i_thr _ I); eauto.
  - intros t c t' c'. rewrite !Hget. apply (i_uniq _ I).
  - exact Hph.
  - rewrite Hlg. apply I.
Qed.

Lemma nonpost_gen : forall st, INV st -> rl_post (st_rl st) = false -> gen_shut st (st_cur st) = false.
Proof.
  intros st I H. destruct (i_gen _ I) as [G|G]; auto. rewrite G in H. discriminate.
Qed.

Lemma inv_rl_begin : forall st st', INV st -> step true st ERlBegin = Some st' -> INV st'.
Proof.
  intros st st' I H. unfold step in H. destruct (st_rl st) eqn:Er; try discriminate. inversion H; subst st'; clear H.
  pose proof (i_wr _ I) as Hw. rewrite Er in Hw. simpl in Hw.
  apply (inv_rl_change st); try reflexivity; try exact I.
  - exact Hw.
  - cbn. intros X. congruence.
  - left. apply nonpost_gen; auto. rewrite Er. reflexivity.
  - cbn. intros _. apply (i_tabo _ I Hw).
Qed.

Lemma inv_rl_init : forall st ok st', INV st -> step true st (ERlInit ok) = Some st' -> INV st'.
Proof.
  intros st ok st' I H. unfold step in H. destruct (st_rl st) eqn:Er; try discriminate.
  pose proof (i_wr _ I) as Hw. rewrite Er in Hw. simpl in Hw.
  destruct ok; inversion H; subst st'; clear H.
  - apply (inv_rl_change st); try reflexivity; try exact I.
    + exact Hw.
    + cbn. intros X. congruence.
    + left. apply nonpost_gen; auto. rewrite Er. reflexivity.
    + cbn. intros _. apply (i_tabo _ I Hw).
  - apply (inv_rl_change st); try reflexivity; try exact I.
    + exact Hw.
    + cbn. intros X. congruence.
    + left. apply nonpost_gen; auto. rewrite Er. reflexivity.
    + cbn. intros _. apply (i_tabo _ I Hw).
Qed.

Lemma inv_rl_lock : forall st st', INV st -> step true st ERlLock = Some st' -> INV st'.
Proof.
  intros st st' I H. unfold step in H. destruct (st_rl st) eqn:Er; try discriminate.
  destruct (st_writer st) eqn:Hw; try discriminate. destruct (st_readers st) eqn:Hr; try discriminate.
  inversion H; subst st'; clear H.
  assert (Hpost : rl_post (after_close st 0) = true).
  { unfold after_close. destruct (next_slot (st_table st) 0); reflexivity. }
  apply (inv_rl_change st); try reflexivity; try exact I.
  - cbn [st_writer st_rl set_rl set_writer]. rewrite Hpost. reflexivity.
  - intros _. exact Hr.
  - left. apply nonpost_gen; auto. rewrite Er. reflexivity.
  - cbn [st_writer st_rl set_rl set_writer]. discriminate.
  - unfold phase_ok. cbn [st_rl set_rl]. unfold after_close.
    destruct (next_slot (st_table st) 0) as [j|] eqn:En.
    + intros i s d Hi Hs. exfalso. destruct (next_slot_some _ _ _ En) as (_ & _ & Hnone).
      change (slot_of (st_table st) i = Some s) in Hs. rewrite Hnone in Hs by lia. discriminate.
    + intros i s d Hs. exfalso. change (slot_of (st_table st) i = Some s) in Hs.
      rewrite (next_slot_none _ _ En) in Hs by lia. discriminate.
Qed.

Lemma no_inlock : forall st, INV st -> st_writer st = true ->
  forall t c, get_thr st t = Some c -> in_lock c = false.
Proof.
  intros st I Hw t c Ht. pose proof (i_wr0 _ I Hw) as H0. rewrite (i_lock _ I) in H0.
  eapply count_zero; eauto.
Qed.

(* a step of reload() under the write lock: threads untouched; the object part of the invariant is
   re-established by the caller *)
Lemma inv_wr_step : forall st st',
  INV st -> st_writer st = true ->
  st_thr st' = st_thr st -> st_readers st' = st_readers st ->
  st_writer st' = rl_post (st_rl st') ->
  (forall n, (exists s, slot st' n = Some s) <-> (exists s, slot st n = Some s)) ->
  (gen_shut st' (st_cur st') = false \/ st_rl st' = RInComplete) ->
  (forall s d, sink_at st' s = Some d ->
     (ds_closed d = true -> ds_pending d = []) /\
     (ds_closed d = false ->
        ds_gen d = st_cur st' /\ gen_shut st' (st_cur st') = false /\
        nth_error (st_table st') (ds_num d) = Some (Some s))) ->
  (forall n s, slot st' n = Some s -> exists d, sink_at st' s = Some d /\ ds_num d = n) ->
  (st_writer st' = false -> forall n s d, slot st' n = Some s -> sink_at st' s = Some d -> ds_closed d = false) ->
  phase_ok st' -> log_ok (st_log st') ->
  INV st'.
Proof.
  intros st st' I Hw Hth Hrd Hwr Hsl Hgen Hsink Htabv Htabo Hph Hlog.
  assert (Hget : forall t, get_thr st' t = get_thr st t) by (intros; unfold get_thr; rewrite Hth; reflexivity).
  constructor; auto.
  - rewrite Hrd, Hth. apply I.
  - intros _. rewrite Hrd. apply (i_wr0 _ I Hw).
  - intros n s Hs. assert (Hex : exists s, slot st n = Some s) by (apply Hsl; eauto).
    destruct Hex as [s0 Hs0]. destruct (i_own _ I _ _ Hs0) as (t & c & Ht & Hx). exists t, c. rewrite Hget. auto.
  - intros t c. rewrite Hget. intros Ht. pose proof (i_thr _ I _ _ Ht) as Hok.
    pose proof (no_inlock _ I Hw _ _ Ht) as Hnl.
    unfold thr_ok in *. destruct c as [n h pc]. simpl in *. unfold in_lock in Hnl. simpl in Hnl.
    destruct h, pc; auto; try discriminate. apply Hsl. exact Hok.
  - intros t c t' c'. rewrite !Hget. apply (i_uniq _ I).
Qed.

Lemma flush_log_ok : forall st s d cl,
  INV st -> sink_at st s = Some d -> log_ok (st_log (flush st s cl)).
Proof.
  intros st s d cl I Hd. unfold flush. unfold sink_at in Hd. rewrite Hd. cbn [st_log set_log].
  apply log_ok_app; [|apply I]. destruct (i_sink _ I _ _ Hd) as [H1 H2].
  destruct (ds_closed d) eqn:Ec.
  - rewrite (H1 eq_refl). simpl. constructor.
  - destruct (H2 eq_refl) as (Eg & Hg & _). rewrite Eg, Hg. apply log_ok_rev_map. intros r. reflexivity.
Qed.

Lemma flush_sink_at : forall st s d cl s',
  sink_at st s = Some d ->
  sink_at (flush st s cl) s' =
  if s =? s' then Some (mkSink (ds_gen d) (ds_num d) (ds_addr d) (ds_closed d || cl) []) else sink_at st s'.
Proof.
  intros st s d cl s' Hd. unfold flush. pose proof Hd as Hd'. unfold sink_at in Hd'. rewrite Hd'.
  unfold sink_at at 1. cbn [st_sinks set_log set_sinks]. rewrite sink_at_upd.
  assert (s < length (st_sinks st)) by (eapply nth_error_some_lt; eauto). apply Nat.ltb_lt in H. rewrite H, andb_true_r.
  reflexivity.
Qed.

Lemma flush_proj : forall st s cl,
  st_cur (flush st s cl) = st_cur st /\ st_shut (flush st s cl) = st_shut st /\
  st_table (flush st s cl) = st_table st /\ st_thr (flush st s cl) = st_thr st /\
  st_readers (flush st s cl) = st_readers st /\ st_writer (flush st s cl) = st_writer st /\
  st_rl (flush st s cl) = st_rl st.
Proof. intros. unfold flush. destruct (nth_error (st_sinks st) s); repeat split. Qed.

Lemma after_close_post : forall st i, rl_post (after_close st i) = true.
Proof. intros. unfold after_close. destruct (next_slot (st_table st) i); reflexivity. Qed.

Lemma after_close_not_complete : forall st i, after_close st i <> RInComplete.
Proof. intros. unfold after_close. destruct (next_slot (st_table st) i); discriminate. Qed.

(* the phase invariant after the sink in slot j has been dealt with *)
Lemma phase_after_close : forall st st1 j,
  st_table st1 = st_table st ->
  (forall i s d, i < S j -> slot st i = Some s -> sink_at st1 s = Some d -> ds_closed d = true) ->
  phase_ok (set_rl st1 (after_close st1 (S j))).
Proof.
  intros st st1 j Ht Hcl. unfold phase_ok. cbn [st_rl set_rl]. unfold after_close. rewrite Ht.
  assert (Hslot : forall i, slot (set_rl st1 (after_close st1 (S j))) i = slot st i).
  { intros. unfold slot. cbn. rewrite Ht. reflexivity. }
  destruct (next_slot (st_table st) (S j)) as [j'|] eqn:En.
  - intros i s d Hi. change (slot st1 i = Some s -> sink_at st1 s = Some d -> ds_closed d = true).
    unfold slot. rewrite Ht. fold (slot st i). intros Hs Hd.
    destruct (next_slot_some _ _ _ En) as (Hle & _ & Hnone).
    destruct (Nat.lt_ge_cases i (S j)) as [Hlt|Hge].
    + eapply Hcl; eauto.
    + exfalso. change (slot_of (st_table st) i = Some s) in Hs. rewrite Hnone in Hs by lia. discriminate.
  - intros i s d. change (slot st1 i = Some s -> sink_at st1 s = Some d -> ds_closed d = true).
    unfold slot. rewrite Ht. fold (slot st i). intros Hs Hd.
    destruct (Nat.lt_ge_cases i (S j)) as [Hlt|Hge].
    + eapply Hcl; eauto.
    + exfalso. change (slot_of (st_table st) i = Some s) in Hs.
      rewrite (next_slot_none _ _ En) in Hs by lia. discriminate.
Qed.

Lemma inv_rl_step_close : forall st j st',
  INV st -> st_rl st = RInClose j -> step true st ERlStep = Some st' -> INV st'.
Proof.
  intros st j st' I Er H. unfold step in H. rewrite Er in H. inversion H; subst st'; clear H.
  assert (Hw : st_writer st = true) by (rewrite (i_wr _ I), Er; reflexivity).
  pose proof (i_phase _ I) as Hph. unfold phase_ok in Hph. rewrite Er in Hph.
  destruct (slot st j) as [s|] eqn:Hsj.
  - destruct (i_tabv _ I _ _ Hsj) as (d & Hd & Hnd).
    destruct (flush_proj st s true) as (Pc & Psh & Ptb & Pth & Prd & Pw & Prl).
    assert (Hslot : forall n, slot (set_rl (flush st s true) (after_close (flush st s true) (S j))) n = slot st n).
    { intros. unfold slot. cbn [st_table set_rl]. rewrite Ptb. reflexivity. }
    assert (Hsk : forall s', sink_at (set_rl (flush st s true) (after_close (flush st s true) (S j))) s' =
                  if s =? s' then Some (mkSink (ds_gen d) (ds_num d) (ds_addr d) (ds_closed d || true) []) else sink_at st s').
    { intros. rewrite <- (flush_sink_at st s d true s' Hd). reflexivity. }
    apply (inv_wr_step st); auto.
    + cbn [st_writer set_rl st_rl]. rewrite Pw, Hw, after_close_post. reflexivity.
    + intros n. rewrite Hslot. tauto.
    + left. cbn [st_cur set_rl]. rewrite Pc. unfold gen_shut. cbn [st_shut set_rl]. rewrite Psh.
      destruct (i_gen _ I) as [G|G]; auto. rewrite Er in G. discriminate.
    + intros s' dd. rewrite Hsk. destruct (Nat.eqb_spec s s') as [<-|Hne]; intros Hdd.
      * inversion Hdd; subst dd. cbn. split; auto. rewrite orb_true_r. discriminate.
      * cbn [st_cur st_table set_rl]. rewrite Pc, Ptb. unfold gen_shut. cbn [st_shut set_rl]. rewrite Psh.
        apply (i_sink _ I _ _ Hdd).
    + intros n s'. rewrite Hslot. intros Hs'. destruct (i_tabv _ I _ _ Hs') as (d0 & Hd0 & Hn0). rewrite Hsk.
      destruct (Nat.eqb_spec s s') as [<-|Hne]; eauto.
      rewrite Hd in Hd0. inversion Hd0; subst d0. eexists; split; [reflexivity|]. exact Hn0.
    + cbn [st_writer set_rl]. rewrite Pw, Hw. discriminate.
    + apply (phase_after_close st); auto.
      intros i s' dd Hi Hs'. rewrite (flush_sink_at st s d true s' Hd). destruct (Nat.eqb_spec s s') as [<-|Hne]; intros Hdd.
      * inversion Hdd. cbn. apply orb_true_r.
      * destruct (Nat.eq_dec i j) as [->|Hij].
        -- rewrite Hsj in Hs'. inversion Hs'. contradiction.
        -- eapply Hph; eauto. lia.
    + cbn [st_log set_rl]. eapply flush_log_ok; eauto.
  - apply (inv_wr_step st); auto.
    + cbn [st_writer set_rl st_rl]. rewrite Hw, after_close_post. reflexivity.
    + intros n. tauto.
    + left. destruct (i_gen _ I) as [G|G]; auto. rewrite Er in G. discriminate.
    + apply (i_sink _ I).
    + apply (i_tabv _ I).
    + cbn [st_writer set_rl]. rewrite Hw. discriminate.
    + apply (phase_after_close st); auto.
      intros i s' dd Hi Hs' Hdd. destruct (Nat.eq_dec i j) as [->|Hij].
      * rewrite Hsj in Hs'. discriminate.
      * eapply Hph; eauto. lia.
    + apply I.
Qed.

Lemma all_closed_when_table_closed : forall st,
  INV st ->
  (forall i s d, slot st i = Some s -> sink_at st s = Some d -> ds_closed d = true) ->
  forall s d, sink_at st s = Some d -> ds_closed d = true.
Proof.
  intros st I Hall s d Hd. destruct (ds_closed d) eqn:Ec; auto.
  destruct (i_sink _ I _ _ Hd) as [_ H2]. destruct (H2 Ec) as (_ & _ & Ht).
  apply slot_nth in Ht. rewrite (Hall _ _ _ Ht Hd) in Ec. discriminate.
Qed.

Lemma inv_rl_step_shutdown : forall st st',
  INV st -> st_rl st = RInShutdown -> step true st ERlStep = Some st' -> INV st'.
Proof.
  intros st st' I Er H. unfold step in H. rewrite Er in H. inversion H; subst st'; clear H.
  assert (Hw : st_writer st = true) by (rewrite (i_wr _ I), Er; reflexivity).
  pose proof (i_phase _ I) as Hph. unfold phase_ok in Hph. rewrite Er in Hph.
  pose proof (all_closed_when_table_closed _ I Hph) as Hall.
  apply (inv_wr_step st); [exact I|exact Hw|reflexivity|reflexivity| | | | | | | | ].
  - cbn [st_writer st_rl set_rl set_shut]. rewrite Hw. reflexivity.
  - intros n. tauto.
  - right. reflexivity.
  - intros s d Hd. change (sink_at st s = Some d) in Hd. destruct (i_sink _ I _ _ Hd) as [H1 _]. split; auto.
    intros Ho. rewrite (Hall _ _ Hd) in Ho. discriminate.
  - apply (i_tabv _ I).
  - cbn [st_writer set_rl set_shut]. rewrite Hw. discriminate.
  - exact Hph.
  - apply I.
Qed.

Lemma inv_rl_step_complete : forall st st',
  INV st -> st_rl st = RInComplete -> step true st ERlStep = Some st' -> INV st'.
Proof.
  intros st st' I Er H. unfold step in H. rewrite Er in H. inversion H; subst st'; clear H.
  assert (Hw : st_writer st = true) by (rewrite (i_wr _ I), Er; reflexivity).
  pose proof (i_phase _ I) as Hph. unfold phase_ok in Hph. rewrite Er in Hph.
  pose proof (all_closed_when_table_closed _ I Hph) as Hall.
  set (st1 := set_cur (set_shut st (st_shut st ++ [false])) (length (st_shut st))).
  assert (Hg1 : gen_shut st1 (st_cur st1) = false).
  { unfold gen_shut, st1. cbn [st_shut st_cur set_cur set_shut]. apply nth_app_last. }
  unfold after_new. change (st_table st1) with (st_table st).
  destruct (next_slot (st_table st) 0) as [j|] eqn:En.
  - apply (inv_wr_step st); [exact I|exact Hw|reflexivity|reflexivity| | | | | | | | ].
    + cbn [st_writer st_rl set_rl]. unfold st1. cbn [st_writer set_cur set_shut]. rewrite Hw. reflexivity.
    + intros n. tauto.
    + left. exact Hg1.
    + intros s d Hd. change (sink_at st s = Some d) in Hd. destruct (i_sink _ I _ _ Hd) as [H1 _]. split; auto.
      intros Ho. rewrite (Hall _ _ Hd) in Ho. discriminate.
    + apply (i_tabv _ I).
    + cbn [st_writer set_rl]. unfold st1. cbn [st_writer set_cur set_shut]. rewrite Hw. discriminate.
    + unfold phase_ok. cbn [st_rl set_rl]. destruct (next_slot_some _ _ _ En) as (_ & (s0 & Hs0) & Hnone). split.
      * exists s0. exact Hs0.
      * intros i s d Hs Hd. change (slot st i = Some s) in Hs. change (sink_at st s = Some d) in Hd.
        rewrite (Hph _ _ _ Hs Hd). destruct (Nat.ltb_spec i j) as [Hlt|Hge]; auto.
        change (slot_of (st_table st) i = Some s) in Hs. rewrite Hnone in Hs by lia. discriminate.
    + apply I.
  - unfold finish_reload. apply (inv_wr_step st); [exact I|exact Hw|reflexivity|reflexivity| | | | | | | | ].
    + reflexivity.
    + intros n. tauto.
    + left. exact Hg1.
    + intros s d Hd. change (sink_at st s = Some d) in Hd. destruct (i_sink _ I _ _ Hd) as [H1 _]. split; auto.
      intros Ho. rewrite (Hall _ _ Hd) in Ho. discriminate.
    + apply (i_tabv _ I).
    + intros _ n s d Hs. change (slot_of (st_table st) n = Some s) in Hs.
      rewrite (next_slot_none _ _ En) in Hs by lia. discriminate.
    + exact Logic.I.
    + apply I.
Qed.

Lemma inv_rl_step_new : forall st j st',
  INV st -> st_rl st = RInNew j -> step true st ERlStep = Some st' -> INV st'.
Proof.
  intros st j st' I Er H. unfold step in H. rewrite Er in H. unfold new_sink in H. inversion H; subst st'; clear H.
  assert (Hw : st_writer st = true) by (rewrite (i_wr _ I), Er; reflexivity).
  pose proof (i_phase _ I) as Hph. unfold phase_ok in Hph. rewrite Er in Hph. destruct Hph as [[s0 Hs0] Hph].
  assert (Hjl : j < length (st_table st)) by (eapply slot_of_some_lt; exact Hs0).
  assert (Hg : gen_shut st (st_cur st) = false).
  { destruct (i_gen _ I) as [G|G]; auto. rewrite Er in G. discriminate. }
  set (s := length (st_sinks st)).
  set (dn := mkSink (st_cur st) j (nth j (st_addrs st) 0) false []).
  cbn [st_table set_sinks].
  set (st2 := set_table (set_sinks st (st_sinks st ++ [dn])) (upd (st_table st) j (Some s))).
  assert (Hsl2 : forall n, slot st2 n = if j =? n then Some s else slot st n).
  { intros n. rewrite (slot_upd_table st (st_table st) j (Some s) n eq_refl) by reflexivity.
    apply Nat.ltb_lt in Hjl. rewrite Hjl, andb_true_r. reflexivity. }
  assert (Hsk2 : forall s', sink_at st2 s' = nth_error (st_sinks st ++ [dn]) s') by reflexivity.
  assert (Hsinks : forall s' d, sink_at st2 s' = Some d ->
     (ds_closed d = true -> ds_pending d = []) /\
     (ds_closed d = false ->
        ds_gen d = st_cur st /\ gen_shut st (st_cur st) = false /\
        nth_error (st_table st2) (ds_num d) = Some (Some s'))).
  { intros s' dd. rewrite Hsk2. intros Hdd. apply nth_error_app_inv in Hdd. destruct Hdd as [Hdd|[-> ->]].
    - destruct (i_sink _ I _ _ Hdd) as [H1 H2]. split; auto. intros Hoo. destruct (H2 Hoo) as (E1 & E2 & E3).
      split; auto. split; auto. unfold st2. cbn [st_table set_table]. rewrite nth_error_upd_neq; auto.
      intro En. rewrite <- En in E3. apply slot_nth in E3. rewrite (Hph _ _ _ E3 Hdd) in Hoo.
      rewrite Nat.ltb_irrefl in Hoo. discriminate.
    - split; [discriminate|]. intros _. cbn. split; auto. split; auto. apply nth_error_upd_eq. exact Hjl. }
  assert (Htabv : forall n s', slot st2 n = Some s' -> exists d, sink_at st2 s' = Some d /\ ds_num d = n).
  { intros n s'. rewrite Hsl2, Hsk2. destruct (Nat.eqb_spec j n) as [<-|Hne]; intros Hs'.
    - inversion Hs'; subst s'. exists dn. split; auto. apply nth_error_app_last.
    - destruct (i_tabv _ I _ _ Hs') as (d0 & Hd0 & Hn0). exists d0. split; auto. apply nth_error_app_old. exact Hd0. }
  assert (Hcl : forall i s' d, slot st2 i = Some s' -> sink_at st2 s' = Some d -> ds_closed d = negb (i <? S j)).
  { intros i s' dd. rewrite Hsl2, Hsk2. destruct (Nat.eqb_spec j i) as [<-|Hne]; intros Hs' Hdd.
    - inversion Hs'; subst s'. unfold s in Hdd. rewrite nth_error_app_last in Hdd. inversion Hdd; subst dd.
      cbn [ds_closed dn]. destruct (Nat.ltb_spec j (S j)); [reflexivity|lia].
    - destruct (i_tabv _ I _ _ Hs') as (d0 & Hd0 & Hn0). rewrite (nth_error_app_old _ _ _ _ _ Hd0) in Hdd.
      inversion Hdd; subst dd. rewrite (Hph _ _ _ Hs' Hd0).
      destruct (Nat.ltb_spec i j), (Nat.ltb_spec i (S j)); auto; lia. }
  unfold after_new. change (st_table st2) with (upd (st_table st) j (Some s)).
  rewrite next_slot_upd by lia.
  destruct (next_slot (st_table st) (S j)) as [j'|] eqn:En.
  - apply (inv_wr_step st); [exact I|exact Hw|reflexivity|reflexivity| | | | | | | | ].
    + cbn [st_writer st_rl set_rl]. unfold st2. cbn [st_writer set_table set_sinks]. rewrite Hw. reflexivity.
    + intros n. change (slot (set_rl st2 (RInNew j')) n) with (slot st2 n). rewrite Hsl2.
      destruct (Nat.eqb_spec j n) as [<-|Hne]; [|tauto]. split; intros _; eauto.
    + left. exact Hg.
    + exact Hsinks.
    + exact Htabv.
    + cbn [st_writer set_rl]. unfold st2. cbn [st_writer set_table set_sinks]. rewrite Hw. discriminate.
    + unfold phase_ok. cbn [st_rl set_rl]. destruct (next_slot_some _ _ _ En) as (Hle & (s1 & Hs1) & Hnone). split.
      * exists s1. change (slot st2 j' = Some s1). rewrite Hsl2. destruct (Nat.eqb_spec j j'); [lia|]. exact Hs1.
      * intros i s' dd Hs' Hdd. change (slot st2 i = Some s') in Hs'. change (sink_at st2 s' = Some dd) in Hdd.
        rewrite (Hcl _ _ _ Hs' Hdd). destruct (Nat.ltb_spec i (S j)), (Nat.ltb_spec i j'); auto; try lia.
        exfalso. rewrite Hsl2 in Hs'. destruct (Nat.eqb_spec j i); [lia|].
        change (slot_of (st_table st) i = Some s') in Hs'. rewrite Hnone in Hs' by lia. discriminate.
    + apply I.
  - unfold finish_reload. apply (inv_wr_step st); [exact I|exact Hw|reflexivity|reflexivity| | | | | | | | ].
    + reflexivity.
    + intros n. match goal with |- context [slot ?X n] => change (slot X n) with (slot st2 n) end. rewrite Hsl2.
      destruct (Nat.eqb_spec j n) as [<-|Hne]; [|tauto]. split; intros _; eauto.
    + left. exact Hg.
    + exact Hsinks.
    + exact Htabv.
    + intros _ i s' dd Hs' Hdd. change (slot st2 i = Some s') in Hs'. change (sink_at st2 s' = Some dd) in Hdd.
      rewrite (Hcl _ _ _ Hs' Hdd). destruct (Nat.ltb_spec i (S j)); auto.
      exfalso. rewrite Hsl2 in Hs'. destruct (Nat.eqb_spec j i); [lia|].
      change (slot_of (st_table st) i = Some s') in Hs'. rewrite (next_slot_none _ _ En) in Hs' by lia. discriminate.
    + exact Logic.I.
    + apply I.
Qed.

Lemma inv_rl_step : forall st st', INV st -> step true st ERlStep = Some st' -> INV st'.
Proof.
  intros st st' I H. destruct (st_rl st) eqn:Er.
  - unfold step in H. rewrite Er in H. discriminate.
  - unfold step in H. rewrite Er in H. discriminate.
  - unfold step in H. rewrite Er in H. discriminate.
  - eapply inv_rl_step_close; eauto.
  - eapply inv_rl_step_shutdown; eauto.
  - eapply inv_rl_step_complete; eauto.
  - eapply inv_rl_step_new; eauto.
Qed.

(* ---------- every event ---------- *)
Theorem step_inv : forall st e st',
  INV st -> guard st e = true -> step true st e = Some st' -> INV st'.
Proof.
  intros st e st' I G H. destruct e.
  - eapply inv_new_begin; eauto.
  - unfold step in H. destruct (get_thr st t) as [[? [] []]|]; discriminate.
  - eapply inv_new_end; eauto.
  - eapply inv_acc_begin; eauto.
  - eapply inv_acc_end; eauto.
  - eapply inv_tick_begin; eauto.
  - eapply inv_tick_end; eauto.
  - eapply inv_close_begin; eauto.
  - eapply inv_close_end; eauto.
  - eapply inv_rl_begin; eauto.
  - eapply inv_rl_init; eauto.
  - eapply inv_rl_lock; eauto.
  - eapply inv_rl_step; eauto.
Qed.

Theorem grun_inv : forall evs st st',
  INV st -> grun true st evs = Some st' -> INV st'.
Proof.
  induction evs as [|e evs IH]; intros st st' I H; simpl in H.
  - inversion H; subst; auto.
  - destruct (guard st e) eqn:G; try discriminate. destruct (step true st e) as [st1|] eqn:S; try discriminate.
    eapply IH; [|exact H]. eapply step_inv; eauto.
Qed.
