(* Model/RewriterMem.v: a long-lived rewriter chain instance over a history of records whose fields alias a recycled
   buffer.
   - [history_own_values]: an instance whose inline nodes keep nothing (Direct = rinline.go) or only OWNED copies
     (CacheByValue) answers every call of every history exactly as the stateless value-level model does on the
     values the record has at that moment;
   - [history_spec]: hence, for a verified chain, every call returns rewrite_max / writes rewrite_spec of ITS record;
   - [cache_by_ref_refuted]: an instance that keeps the field string itself (a reference into the buffer) does not. *)
From SV Require Import Model.Common Model.Msgpack Model.Unescape Model.Serializer Model.RewriterMem
     Spec.MsgpackSpec Spec.SerializerSpec Proofs.CommonFacts Proofs.MsgpackProofs Proofs.SerializerProofs.
From Coq Require Import Lia ZifyBool ZifyN ZifyNat.
Ltac Zify.zify_post_hook ::= Z.div_mod_to_equations.
Open Scope N_scope.

(* ------------------------------------------------------------------ *)
(* copy of a concatenation = the copies of its parts, one behind the other *)

Lemma blit_nil : forall dst, blit dst [] = (dst, O).
Proof. destruct dst; reflexivity. Qed.

Lemma blit_app : forall a b dst,
  blit dst (a ++ b) =
  let (d1, e1) := blit dst a in
  match copy_at_opt d1 e1 b with Some (d2, e2) => (d2, (e1 + e2)%nat) | None => (d1, e1) end.
Proof.
  induction a as [|x a IH]; intros b dst.
  - cbn [app]. rewrite blit_nil. cbn [copy_at_opt]. destruct (blit dst b) as [d2 e2]. reflexivity.
  - destruct dst as [|h t].
    + cbn [app blit copy_at_opt]. destruct b; reflexivity.
    + cbn [app blit]. rewrite IH. destruct (blit t a) as [d1 e1]. cbn [copy_at_opt].
      destruct (copy_at_opt d1 e1 b) as [[d2 e2]|]; reflexivity.
Qed.

Lemma copy_at_opt_app : forall off a b buf,
  copy_at_opt buf off (a ++ b) =
  match copy_at_opt buf off a with
  | Some (d1, e1) =>
    match copy_at_opt d1 (off + e1) b with Some (d2, e2) => Some (d2, (e1 + e2)%nat) | None => Some (d1, e1) end
  | None => None
  end.
Proof.
  induction off as [|off IH]; intros a b buf.
  - cbn [copy_at_opt Nat.add]. rewrite blit_app. destruct (blit buf a) as [d1 e1].
    destruct (copy_at_opt d1 e1 b) as [[d2 e2]|]; reflexivity.
  - destruct buf as [|h t]; cbn [copy_at_opt]; [reflexivity|]. rewrite IH.
    destruct (copy_at_opt t off a) as [[d1 e1]|]; [|reflexivity].
    cbn [copy_at_opt Nat.add]. destruct (copy_at_opt d1 (off + e1) b) as [[d2 e2]|]; reflexivity.
Qed.

Lemma copy_at_opt_some : forall off buf src, (off <= length buf)%nat -> exists r, copy_at_opt buf off src = Some r.
Proof.
  induction off as [|off IH]; intros buf src H.
  - eexists. reflexivity.
  - destruct buf as [|h t]; cbn [length] in H; [lia|]. cbn [copy_at_opt].
    destruct (IH t src) as [[t' n] E]; [lia|]. rewrite E. eexists. reflexivity.
Qed.

Lemma copy3 : forall dst a b c,
  exists d1 e1 d2 e2 d3 e3,
    copy_at dst 0 a = Ok (d1, e1) /\ copy_at d1 e1 b = Ok (d2, e2) /\ copy_at d2 (e1 + e2) c = Ok (d3, e3) /\
    copy_at dst 0 (a ++ b ++ c) = Ok (d3, (e1 + e2 + e3)%nat).
Proof.
  intros dst a b c. unfold copy_at.
  destruct (copy_at_opt_some 0 dst a) as [[d1 e1] E1]; [lia|].
  pose proof (copy_at_opt_length _ _ _ _ _ E1) as (L1 & _ & B1).
  destruct (copy_at_opt_some e1 d1 b) as [[d2 e2] E2]; [lia|].
  pose proof (copy_at_opt_length _ _ _ _ _ E2) as (L2 & _ & B2).
  destruct (copy_at_opt_some (e1 + e2) d2 c) as [[d3 e3] E3]; [lia|].
  exists d1, e1, d2, e2, d3, e3.
  rewrite E1, E2, E3. repeat split; try reflexivity.
  rewrite copy_at_opt_app, E1. cbn [Nat.add]. rewrite copy_at_opt_app, E2, E3.
  rewrite Nat.add_assoc. reflexivity.
Qed.

(* ------------------------------------------------------------------ *)
(* instances that keep no reference into the buffer                    *)

Definition cache_wf (mode : inline_mode) (header : bytes) (st : option cache) : Prop :=
  match mode, st with
  | CacheByValue, Some c => k_prefix c = header ++ k_copy c ++ [32]
  | _, _ => True
  end.

Fixpoint wf (mode : inline_mode) (rw : rewriter_st) : Prop :=
  match rw with
  | SwInline h _ st nx => cache_wf mode h st /\ wf mode nx
  | _ => True
  end.

Lemma wf_instantiate : forall mode rw, wf mode (instantiate rw).
Proof. induction rw; cbn [instantiate wf]; auto. split; [destruct mode; exact I|assumption]. Qed.

Lemma erase_instantiate : forall rw, erase (instantiate rw) = rw.
Proof. induction rw; cbn [instantiate erase]; congruence. Qed.

Lemma prefix_of_own : forall mode st mem h r,
  mode <> CacheByRef -> cache_wf mode h st ->
  fst (prefix_of mode st mem h r) = h ++ deref mem r ++ [32] /\ cache_wf mode h (snd (prefix_of mode st mem h r)).
Proof.
  intros mode st mem h r Hm W. destruct mode; [| |contradiction].
  - cbn. split; [reflexivity|exact I].
  - unfold prefix_of. destruct st as [c|].
    + destruct (bytes_eqb (deref mem r) (k_copy c)) eqn:E.
      * apply bytes_eqb_eq in E. cbn [fst snd]. split; [|exact W]. cbn in W. rewrite W, E. reflexivity.
      * cbn. split; reflexivity.
    + cbn. split; reflexivity.
Qed.

Lemma get_ref_field : forall mem fields loc,
  get_field (map (deref mem) fields) loc =
  match get_ref fields loc with Ok r => Ok (deref mem r) | Err e => Err e | Panic s => Panic s end.
Proof.
  intros. unfold get_field, get_ref. rewrite nth_error_map. destruct (nth_error fields loc); reflexivity.
Qed.

Lemma obind_ok : forall A (o : outcome A), obind o (fun n => Ok n) = o.
Proof. destruct o; reflexivity. Qed.

Lemma max_st_sim : forall mode, mode <> CacheByRef -> forall value mem mr rw, wf mode rw ->
  fst (max_field_length_st mode rw value mem mr) = max_field_length (erase rw) value (load mem mr) /\
  wf mode (snd (max_field_length_st mode rw value mem mr)) /\
  erase (snd (max_field_length_st mode rw value mem mr)) = erase rw.
Proof.
  intros mode Hm value mem mr. induction rw as [| |h loc st nx IH]; intros W.
  - cbn. auto.
  - cbn. auto.
  - destruct W as [Wc Wn]. specialize (IH Wn). destruct IH as (I1 & I2 & I3).
    cbn [max_field_length_st erase max_field_length]. cbn [load r_fields]. rewrite get_ref_field.
    destruct (get_ref (mr_fields mr) loc) as [r|e|s]; cbn [obind fst snd wf erase]; [|auto|auto].
    fold (load mem mr).
    destruct (is_nil (deref mem r)) eqn:N.
    + destruct (max_field_length_st mode nx value mem mr) as [o nx'] eqn:EM. cbn [fst snd] in *.
      cbn [wf erase]. rewrite <- I1. repeat split; auto.
      * destruct o; reflexivity.
      * congruence.
    + pose proof (prefix_of_own mode st mem h r Hm Wc) as [P1 P2].
      destruct (prefix_of mode st mem h r) as [p st'] eqn:EP. cbn [fst snd] in P1, P2.
      destruct (max_field_length_st mode nx value mem mr) as [o nx'] eqn:EM. cbn [fst snd] in *.
      cbn [wf erase]. rewrite <- I1. repeat split; auto; [|congruence].
      destruct o; cbn [obind]; try reflexivity. subst p. rewrite !app_length. cbn [length]. f_equal. lia.
Qed.

Lemma write_st_sim : forall mode, mode <> CacheByRef -> forall value mem mr rw dst, wf mode rw ->
  fst (write_field_body_st mode rw value mem mr dst) = write_field_body (erase rw) value (load mem mr) dst /\
  wf mode (snd (write_field_body_st mode rw value mem mr dst)) /\
  erase (snd (write_field_body_st mode rw value mem mr dst)) = erase rw.
Proof.
  intros mode Hm value mem mr. induction rw as [| |h loc st nx IH]; intros dst W.
  - cbn [write_field_body_st fst snd erase wf]. auto.
  - cbn [write_field_body_st fst snd erase wf]. auto.
  - destruct W as [Wc Wn].
    cbn [write_field_body_st erase write_field_body]. cbn [load r_fields]. rewrite get_ref_field.
    destruct (get_ref (mr_fields mr) loc) as [r|e|s]; cbn [obind fst snd wf erase]; [|auto|auto].
    fold (load mem mr).
    destruct (is_nil (deref mem r)) eqn:N.
    + destruct (IH dst Wn) as (I1 & I2 & I3).
      destruct (write_field_body_st mode nx value mem mr dst) as [o nx'] eqn:EM. cbn [fst snd] in *.
      cbn [wf erase]. repeat split; auto. congruence.
    + pose proof (prefix_of_own mode st mem h r Hm Wc) as [P1 P2].
      destruct (prefix_of mode st mem h r) as [p st'] eqn:EP. cbn [fst snd] in P1, P2. subst p.
      destruct (copy3 dst h (deref mem r) [32]) as (d1 & e1 & d2 & e2 & d3 & e3 & C1 & C2 & C3 & C4).
      rewrite C4, C1. cbn [obind]. rewrite C2. cbn [obind]. rewrite C3. cbn [obind].
      destruct (window d3 (e1 + e2 + e3)) as [sub|e|s]; cbn [obind fst snd wf erase]; [|auto|auto].
      destruct (IH sub Wn) as (I1 & I2 & I3).
      destruct (write_field_body_st mode nx value mem mr sub) as [o nx'] eqn:EM. cbn [fst snd] in *.
      cbn [wf erase]. rewrite <- I1. split; [|split; [split; assumption|congruence]].
      destruct o as [[sub' n]|e|s]; reflexivity.
Qed.

Lemma run_call_sim : forall mode, mode <> CacheByRef -> forall rw c, wf mode rw ->
  fst (run_call mode rw c) = call_stateless (erase rw) c /\
  wf mode (snd (run_call mode rw c)) /\ erase (snd (run_call mode rw c)) = erase rw.
Proof.
  intros mode Hm rw c W. unfold run_call, call_stateless.
  set (value := deref (cl_mem c) (cl_value c)).
  destruct (max_st_sim mode Hm value (cl_mem c) (cl_rec c) rw W) as (_ & W1 & E1).
  destruct (max_field_length_st mode rw value (cl_mem c) (cl_rec c)) as [o0 rw1]. cbn [fst snd] in *.
  destruct (max_st_sim mode Hm value (cl_mem c) (cl_rec c) rw1 W1) as (M2 & W2 & E2).
  destruct (max_field_length_st mode rw1 value (cl_mem c) (cl_rec c)) as [m rw2]. cbn [fst snd] in *.
  destruct (write_st_sim mode Hm value (cl_mem c) (cl_rec c) rw2 (repeat 0 (cl_dstlen c)) W2) as (M3 & W3 & E3).
  destruct (write_field_body_st mode rw2 value (cl_mem c) (cl_rec c) (repeat 0 (cl_dstlen c))) as [w rw3].
  cbn [fst snd] in *. repeat split; [|assumption|congruence].
  rewrite M2, M3, E2, E1. reflexivity.
Qed.

(* for ALL histories: whatever the buffer held before, whatever records came before, the instance answers each call
   as the stateless model does on the values the record has at the moment of the call *)
Theorem history_own_values : forall mode, mode <> CacheByRef -> forall h rw, wf mode rw ->
  run_history mode rw h = map (call_stateless (erase rw)) h.
Proof.
  intros mode Hm. induction h as [|c h IH]; intros rw W; [reflexivity|].
  cbn [run_history map]. destruct (run_call_sim mode Hm rw c W) as (R & W' & E').
  destruct (run_call mode rw c) as [res rw']. cbn [fst snd] in *. rewrite (IH rw' W'), E', R. reflexivity.
Qed.

(* the result a call must have according to the documentation of the rewriters, computed from the values the
   record's fields have at the moment of the call *)
Definition call_spec (schema : list bytes) (ch : list rewriter_cfg) (c : call) : call_result :=
  let fields := map (deref (cl_mem c)) (mr_fields (cl_rec c)) in
  let value := deref (cl_mem c) (cl_value c) in
  let out := rewrite_spec schema fields (mr_unescaped (cl_rec c)) ch value in
  (Ok (rewrite_max schema fields ch value), Ok (out ++ repeat 0 (cl_dstlen c - length out), length out)).

Definition call_fits (schema : list bytes) (ch : list rewriter_cfg) (c : call) : Prop :=
  (length schema <= length (mr_fields (cl_rec c)))%nat /\
  (length (rewrite_spec schema (map (deref (cl_mem c)) (mr_fields (cl_rec c))) (mr_unescaped (cl_rec c)) ch
                        (deref (cl_mem c) (cl_value c))) <= cl_dstlen c)%nat.

Theorem history_spec : forall schema ch, ch <> [] -> verify_rewriters schema ch = true ->
  exists rw0, new_rewriters schema ch = Ok (Some rw0) /\
  forall mode, mode <> CacheByRef -> forall rw, erase rw = rw0 -> wf mode rw ->
  forall h, Forall (call_fits schema ch) h -> run_history mode rw h = map (call_spec schema ch) h.
Proof.
  intros schema ch Hne V. destruct (verified_rewriters_spec schema ch Hne V) as (rw0 & N & M).
  exists rw0. split; [exact N|]. intros mode Hm rw E W h F.
  rewrite (history_own_values mode Hm h rw W), E. apply map_ext_in. intros c Hin.
  rewrite Forall_forall in F. destruct (F c Hin) as [L Fit].
  unfold call_stateless, call_spec.
  destruct (M (load (cl_mem c) (cl_rec c)) (deref (cl_mem c) (cl_value c))) as [Mx Mw].
  { cbn [load r_fields]. rewrite map_length. exact L. }
  cbn [load r_fields r_unescaped] in *. rewrite Mx. f_equal.
  set (out := rewrite_spec schema (map (deref (cl_mem c)) (mr_fields (cl_rec c))) (mr_unescaped (cl_rec c)) ch
                           (deref (cl_mem c) (cl_value c))) in *.
  replace (cl_dstlen c) with (length out + (cl_dstlen c - length out))%nat at 1 by lia.
  rewrite repeat_app. apply Mw. apply repeat_length.
Qed.

(* ------------------------------------------------------------------ *)
(* the variant that keeps the field string (a reference into the recycled buffer) as cache key *)

Definition wit_schema : list bytes := [[99;108;115]; [109;115;103]].          (* "cls", "msg" *)
Definition wit_chain : list rewriter_cfg := [RcInline [99;108;115]; RcCopy].
Definition wit_rec : mrecord :=
  {| mr_fields := [ {| m_off := 0; m_len := 2 |}; {| m_off := 2; m_len := 2 |} ]; mr_unescaped := false |}.
Definition wit_call (mem : bytes) : call :=
  {| cl_mem := mem; cl_rec := wit_rec; cl_value := {| m_off := 2; m_len := 2 |}; cl_dstlen := 9 |}.
(* "AAhi" then, in the same buffer, "BBhi" *)
Definition wit_history : list call := [wit_call [65;65;104;105]; wit_call [66;66;104;105]].

Theorem cache_by_ref_refuted :
  exists rw0, new_rewriters wit_schema wit_chain = Ok (Some rw0) /\
    verify_rewriters wit_schema wit_chain = true /\ Forall (call_fits wit_schema wit_chain) wit_history /\
    run_history CacheByRef (instantiate rw0) wit_history <> map (call_spec wit_schema wit_chain) wit_history /\
    (* the second record is emitted with the FIRST record's value: "cls=AA hi" *)
    nth 1 (run_history CacheByRef (instantiate rw0) wit_history) (Panic 0, Panic 0)
    = (Ok 9%nat, Ok ([99;108;115;61;65;65;32;104;105], 9%nat)).
Proof.
  eexists. split; [vm_compute; reflexivity|]. split; [vm_compute; reflexivity|]. split.
  - repeat constructor; vm_compute; lia.
  - split; [vm_compute; discriminate|vm_compute; reflexivity].
Qed.

(* ... while the two other variants handle the same history (instance of the theorem; a test) *)
Example wit_history_direct_ok : forall rw0, new_rewriters wit_schema wit_chain = Ok (Some rw0) ->
  run_history Direct (instantiate rw0) wit_history = map (call_spec wit_schema wit_chain) wit_history /\
  run_history CacheByValue (instantiate rw0) wit_history = map (call_spec wit_schema wit_chain) wit_history.
Proof. intros rw0 H. vm_compute in H. inversion H; subst. split; vm_compute; reflexivity. Qed.
