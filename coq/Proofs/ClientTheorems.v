(* C02 — the property theorems about runs of the client LTS, stated on the events of the run. *)
From SV Require Import Model.Common Model.Client Spec.ClientSpec
     Proofs.ClientBase Proofs.ClientSafety Proofs.ClientHistory Proofs.ClientOrder.
From Coq Require Import Lia Permutation Sorted.

Lemma sent_of_In : forall tr k c, In (k, c) (sent_of tr) -> In (ESendRet k c ROk) tr.
Proof.
  induction tr as [|e tr IH]; intros k c H; simpl in H; [contradiction|].
  destruct e; try (right; apply IH; exact H).
  destruct r; [|right; apply IH; exact H].
  destruct H as [E|H]; [inversion E; subst; left; reflexivity|right; apply IH; exact H].
Qed.

(* 1. a chunk is reported delivered only after a successful ack read designating it, on a connection on which
      its transmission completed before *)
Lemma confirm_after_ack_lemma : forall P pre c post s,
  run P init (pre ++ EConsumed c :: post) = Some s ->
  exists k, In (ESendRet k c ROk) pre /\ designated pre k c.
Proof.
  intros P pre c post s Hr. rewrite run_app in Hr.
  destruct (run P init pre) as [s1|] eqn:E1; [|discriminate Hr].
  cbn [run] in Hr. destruct (step P s1 (EConsumed c)) as [s2|] eqn:E2; [|discriminate Hr]. clear Hr.
  assert (Hi : inv1 s1) by (eapply inv1_reach; exists pre; exact E1).
  pose proof (hist_reach P pre s1 E1) as Hh.
  step_inv E2. boolprep.
  destruct (i_sess s1 Hi _ Heqo) as (_ & _ & Hpend & Hsent & _ & Hack).
  rewrite Heqa in Hpend, Hack.
  exists (s_id s0). split.
  - apply sent_of_In. apply in_rev. rewrite <- (hs_sent _ _ Hh). apply Hsent. apply in_or_app. right. exact Hpend.
  - destruct Hack as (a & nx & Hin & Hd).
    destruct (hs_acks _ _ Hh _ _ _ Hin) as (p1 & p2 & Hp & Hl & _).
    exists p1, p2, a. split; [exact Hp|]. destruct Hd as [Hd|[Hd1 Hd2]]; [left; exact Hd|right; subst; auto].
Qed.

(* 2. conservation: inside the connection contract and with pairwise distinct ids, at every moment the chunks
      taken from the queue are exactly the delivered ones, the handed back ones and the client's holdings,
      each once; when the client has finished it holds nothing *)
Lemma resolved_lemma : forall P tr s,
  reach_by P tr s -> in_contract tr -> distinct_input tr ->
  Permutation (taken_of tr) (consumed_of tr ++ handed_of tr ++ holdings s) /\
  (finished_in tr = true -> holdings s = []).
Proof.
  intros P tr s Hr Hc Hd. pose proof (hist_reach P tr s Hr) as Hh.
  assert (Hn : NoDup (h_offered s)).
  { rewrite (hs_offered _ _ Hh). apply NoDup_rev. exact Hd. }
  destruct (resolved_exactly_once_lemma P tr s Hr Hc Hn) as [H1 H2].
  rewrite (hs_taken _ _ Hh), (hs_consumed _ _ Hh), (hs_handed _ _ Hh), (hs_finished _ _ Hh) in *.
  split; [|exact H2].
  rewrite (Permutation_rev (taken_of tr)). rewrite H1.
  apply Permutation_app; [symmetry; apply Permutation_rev|].
  apply Permutation_app; [symmetry; apply Permutation_rev|reflexivity].
Qed.

Lemma offered_split : forall P s, reach P s -> h_offered s = rev (inq s) ++ h_taken s.
Proof.
  intros P. apply (reach_ind P (fun s => h_offered s = rev (inq s) ++ h_taken s)); [reflexivity|].
  intros s e s' _ IH Hs. destruct e; step_inv Hs; boolprep; st_simpl; try assumption.
  all: try solve [rewrite IH, rev_app_distr; reflexivity].
  all: try solve [rewrite IH; simpl; rewrite <- app_assoc; reflexivity].
  all: try solve [destruct p; assumption].
  all: try solve [match goal with H : inq _ = _ |- _ => rewrite H end; assumption].
Qed.

Lemma nodup_app_r : forall (A : Type) (a b : list A), NoDup (a ++ b) -> NoDup b.
Proof. induction a as [|x a IH]; intros b H; [exact H|]. inversion H; subst. apply IH. assumption. Qed.

Lemma taken_sub_offered : forall P tr s, reach_by P tr s -> NoDup (offered_of tr) -> NoDup (taken_of tr).
Proof.
  intros P tr s Hr Hd. pose proof (hist_reach P tr s Hr) as Hh.
  assert (Ho : h_offered s = rev (inq s) ++ h_taken s) by (apply (offered_split P); exists tr; exact Hr).
  rewrite (hs_offered _ _ Hh), (hs_taken _ _ Hh) in Ho.
  apply NoDup_rev in Hd. rewrite Ho in Hd. apply nodup_app_r in Hd.
  apply NoDup_rev in Hd. rewrite rev_involutive in Hd. exact Hd.
Qed.

Lemma resolved_exactly_once_at_end : forall P tr s,
  reach_by P tr s -> in_contract tr -> distinct_input tr -> finished_in tr = true ->
  Permutation (taken_of tr) (consumed_of tr ++ handed_of tr) /\ NoDup (consumed_of tr ++ handed_of tr).
Proof.
  intros P tr s Hr Hc Hd Hf. destruct (resolved_lemma P tr s Hr Hc Hd) as [H1 H2].
  rewrite (H2 Hf), app_nil_r in H1. split; [exact H1|].
  eapply Permutation_NoDup; [exact H1|]. eapply taken_sub_offered; eauto.
Qed.

(* 3. order of transmissions *)
Lemma resend_order_lemma : forall P tr s k L,
  reach_by P tr s -> In (k, L) (h_los s) ->
  strictly_increasing L /\
  exists m news a b, sent_on k tr = firstn m L ++ news /\ (news <> [] -> firstn m L = L) /\
                     taken_of tr = a ++ news ++ b.
Proof.
  intros P tr s k L Hr Hin. destruct (k_form _ _ (inv3_reach P tr s Hr) k L Hin) as [H1 H2].
  split; [apply lt_sorted_increasing; exact H1|exact H2].
Qed.

(* at the start of every session the leftovers it re-sends first contain every chunk taken so far that is
   not yet confirmed *)
Lemma leftovers_complete_lemma : forall P pre s ss,
  reach_by P (pre ++ [EMainConn]) s -> in_contract pre -> distinct_input pre -> cur s = Some ss ->
  In (s_id ss, lo s) (h_los s) /\
  forall c, In c (taken_of pre) -> In c (consumed_of pre) \/ In c (lo s).
Proof.
  intros P pre s ss Hr Hc Hd Hcur. unfold reach_by in Hr. rewrite run_snoc in Hr.
  destruct (run P init pre) as [s1|] eqn:E1; [|discriminate Hr].
  assert (Hi : inv1 s1) by (eapply inv1_reach; exists pre; exact E1).
  destruct (resolved_lemma P pre s1 E1 Hc Hd) as [Hp _].
  assert (Hh : h_handed s1 <> [] -> pc s1 = MFinal \/ pc s1 = MDone).
  { apply (handed_only_at_end P). exists pre. exact E1. }
  pose proof (hist_reach P pre s1 E1) as Hhist.
  step_inv Hr; st_simpl;
    (destruct (i_between s1 Hi) as [Hc1 Hl1]; [rewrite Heqm; reflexivity|]); [|congruence].
  inversion Hcur; subst ss. st_simpl. split; [left; reflexivity|].
  assert (Hhand : handed_of pre = []).
  { destruct (handed_of pre) eqn:E; [reflexivity|]. exfalso.
    destruct Hh as [H|H]; try congruence. rewrite (hs_handed _ _ Hhist), E. simpl. intro H. apply app_eq_nil in H. destruct H; discriminate. }
  unfold holdings in Hp. rewrite Hc1, Hl1, Hhand in Hp. simpl in Hp. rewrite app_nil_r in Hp.
  intros c Hin. apply (Permutation_in _ Hp) in Hin. apply in_app_or in Hin. exact Hin.
Qed.

(* ---------- the channel operations of the client never hit a closed channel ---------- *)
Definition collecting (p : mpc) : bool := match p with MSoftWait _ | MHardWait _ _ => true | _ => false end.
Definition hard_collecting (p : mpc) : bool := match p with MHardWait _ _ => true | _ => false end.

(* ackerChan is closed and ackerAbort signalled only by collectLeftovers, which runs once per session *)
Lemma closed_only_collecting : forall P s, reach P s -> forall ss, cur s = Some ss ->
  (s_aclosed ss = true -> collecting (pc s) = true) /\ (s_abort ss = true -> hard_collecting (pc s) = true).
Proof.
  intros P. apply (reach_ind P (fun s => forall ss, cur s = Some ss ->
    (s_aclosed ss = true -> collecting (pc s) = true) /\ (s_abort ss = true -> hard_collecting (pc s) = true))).
  - simpl. discriminate.
  - intros s e s' _ IH Hs. destruct e; step_inv Hs; st_simpl; try assumption.
    all: intros ss0 E; try discriminate E; try (inversion E; subst; clear E); st_simpl.
    all: try (pose proof (IH _ eq_refl) as [I1 I2]).
    all: try (match goal with H : cur _ = Some ?x |- _ => pose proof (IH _ H) as [I3 I4] end).
    all: repeat match goal with H : pc _ = _ |- _ => progress rewrite H in * end.
    all: simpl in *; try solve [intuition (try discriminate; auto)].
    all: try solve [match goal with H : cur _ = Some ?x, H2 : cur _ = Some ?y |- _ => rewrite H in H2; inversion H2; subst; auto end].
    all: try solve [match goal with H : cur _ = Some ?y |- _ => apply IH; exact H end].
    all: try congruence.
Qed.

(* sendChunk never sends on a closed ackerChan: while main is at the select of sendChunk the channel is open *)
Lemma no_send_on_closed_lemma : forall P s f c ss,
  reach P s -> pc s = MEnqueue f c -> cur s = Some ss -> s_aclosed ss = false /\ s_abort ss = false.
Proof.
  intros P s f c ss Hr Hpc Hcur. destruct (closed_only_collecting P s Hr ss Hcur) as [H1 H2].
  rewrite Hpc in *. simpl in *.
  destruct (s_aclosed ss); [specialize (H1 eq_refl); discriminate|].
  destruct (s_abort ss); [specialize (H2 eq_refl); discriminate|]. auto.
Qed.


(* close(ackerChan), ackerAbort.Signal() and ackerEnded.Signal() are each executed at most once per session (a second
   close of a closed channel would panic): whenever the step that executes one of them is enabled, it has not been
   executed yet.  close(ackerChan) / ackerAbort.Signal() happen on entering collectLeftovers (from a pc that is not
   "collecting") and on leaving the soft wait; ackerEnded.Signal() when the acknowledger returns (apc <> AEnded). *)
Lemma signals_once_lemma : forall P s ss,
  reach P s -> cur s = Some ss ->
  (collecting (pc s) = false -> s_aclosed ss = false /\ s_abort ss = false) /\
  (hard_collecting (pc s) = false -> s_abort ss = false) /\
  (s_apc ss <> AEnded -> s_ended ss = false).
Proof.
  intros P s ss Hr Hcur. destruct (closed_only_collecting P s Hr ss Hcur) as [H1 H2].
  pose proof (inv1_reach P s Hr) as Hi. destruct (i_sess s Hi ss Hcur) as (He & _).
  repeat split.
  - destruct (s_aclosed ss); [rewrite (H1 eq_refl) in H; discriminate|reflexivity].
  - destruct (s_abort ss); [|reflexivity]. specialize (H2 eq_refl).
    destruct (pc s); simpl in *; discriminate.
  - intro H. destruct (s_abort ss); [rewrite (H2 eq_refl) in H; discriminate|reflexivity].
  - intro H. destruct (s_ended ss); [|reflexivity]. destruct (He eq_refl) as [_ Hx]. contradiction.
Qed.
