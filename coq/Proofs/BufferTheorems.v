(* The property-level lemmas for C03 and C04, derived from the invariant (Proofs/BufferProofs.v). *)
From SV Require Import Model.Common Model.FileWrite Model.Buffer Spec.BufferSpec
     Proofs.CommonFacts Proofs.FileWriteProofs Proofs.BufferInv Proofs.BufferProofs.
From Coq Require Import Lia ZifyBool ZifyN ZifyNat Sorting.Sorted.
Ltac Zify.zify_post_hook ::= Z.div_mod_to_equations.

Section Theorems.
Variable matchf : name -> bool.
Variable dirsize : Z.
Hypothesis Hmatch : matcher_ok matchf.

Notation reachable := (reachable matchf dirsize).
Notation step := (step matchf dirsize).
Notation run := (run matchf dirsize).

Lemma reachable_good : forall s, reachable s -> Good matchf dirsize s.
Proof.
  intros s (d0 & evs & Hs & Hr). destruct Hmatch as [H1 H2].
  eapply good_run; [exact H1|exact H2|apply good_init; exact Hs|exact Hr].
Qed.

Lemma reachable_inv : forall s, reachable s -> st_up s = true -> Inv matchf dirsize s.
Proof. intros s Hr Hup. destruct (reachable_good s Hr) as [_ Hi]. apply Hi. exact Hup. Qed.

Lemma reachable_step : forall s e s', reachable s -> step s e = Some s' -> reachable s'.
Proof.
  intros s e s' (d0 & evs & Hs & Hr) Hst. exists d0, (evs ++ [e]). split; [exact Hs|].
  clear Hs. revert Hr. generalize (init d0). induction evs as [|e0 evs IH]; intros s0 Hr; cbn [run app] in *.
  - inversion Hr; subst. rewrite Hst. reflexivity.
  - destruct (step s0 e0) as [s1|]; [|discriminate]. apply IH. exact Hr.
Qed.

(* ---------- C03: conservation ---------- *)

(* when Destroy has completed and the consumers have reported every chunk they took *)
Definition settled (s : state) : Prop := st_up s = true /\ st_fpc s = FStopped /\ st_hold s = [].

Lemma conservation_lemma : forall s, reachable s -> settled s ->
  let g := st_gh s in
  (* the three classes partition the chunks that entered: none twice, none missing, none invented *)
  NoDup (g_confirmed g ++ g_retained g ++ g_dropped g) /\
  (forall x, In x (entered g) <-> In x (g_confirmed g ++ g_retained g ++ g_dropped g)) /\
  NoDup (entered g) /\
  (* confirmed: the file is gone *)
  (forall x, In x (g_confirmed g) -> dir_get (st_dir s) x = None) /\
  (* retained: the file holds the original content *)
  (forall x, In x (g_retained g) -> exists e, dir_get (st_dir s) x = Some e /\ is_orig g x e) /\
  (* dropped: every one is counted, and nothing else is *)
  m_dropped (st_met s) = Z.of_nat (length (g_dropped g)) /\
  m_consumed (st_met s) = Z.of_nat (length (g_confirmed g)).
Proof.
  intros s Hr (Hup & Hf & Hh) g. subst g. pose proof (reachable_inv s Hr Hup) as Hinv.
  destruct (i_empty _ _ _ Hinv) as [Hq Hw]. specialize (Hw Hf).
  assert (Hq' : st_queue s = []) by (apply Hq; rewrite Hf; reflexivity). clear Hq. rename Hq' into Hq.
  assert (Hcnt : forall x, (cnt x (g_confirmed (st_gh s)) + cnt x (g_retained (st_gh s)) + cnt x (g_dropped (st_gh s)) = cnt x (entered (st_gh s)))%nat).
  { intros x. pose proof (i_count _ _ _ Hinv x) as Hx. unfold inflight in Hx. rewrite Hq, Hw, Hh, Hf in Hx.
    cbn [hand app ids map] in Hx. rewrite cnt_nil in Hx. lia. }
  pose proof (proj1 (nodup_cnt _) (i_nodup _ _ _ Hinv)) as Hle.
  repeat split.
  - apply nodup_cnt. intros x. rewrite !cnt_app. specialize (Hcnt x). specialize (Hle x). lia.
  - intros Hx. apply cnt_in. apply cnt_in in Hx. rewrite !cnt_app. specialize (Hcnt x). lia.
  - intros Hx. apply cnt_in. apply cnt_in in Hx. rewrite !cnt_app in Hx. specialize (Hcnt x). lia.
  - apply (i_nodup _ _ _ Hinv).
  - apply (i_conf _ _ _ Hinv).
  - apply (i_ret _ _ _ Hinv).
  - apply (i_dropped _ _ _ Hinv).
  - apply (i_consumed _ _ _ Hinv).
Qed.

(* at every moment, not only at the end: chunks in flight + the three classes = what entered *)
Lemma accounting_lemma : forall s, reachable s -> st_up s = true ->
  let g := st_gh s in
  NoDup (ids (inflight s) ++ g_confirmed g ++ g_retained g ++ g_dropped g) /\
  (forall x, In x (entered g) <-> In x (ids (inflight s) ++ g_confirmed g ++ g_retained g ++ g_dropped g)).
Proof.
  intros s Hr Hup g. subst g. pose proof (reachable_inv s Hr Hup) as Hinv.
  pose proof (proj1 (nodup_cnt _) (i_nodup _ _ _ Hinv)) as Hle.
  pose proof (i_count _ _ _ Hinv) as Hcnt.
  split; [|split].
  - apply nodup_cnt. intros x. rewrite !cnt_app. specialize (Hcnt x). specialize (Hle x). lia.
  - intros Hx. apply cnt_in. apply cnt_in in Hx. rewrite !cnt_app. specialize (Hcnt x). lia.
  - intros Hx. apply cnt_in. apply cnt_in in Hx. rewrite !cnt_app in Hx. specialize (Hcnt x). lia.
Qed.

(* ---------- C03: FIFO ---------- *)
Lemma subseq_refl : forall {A} (l : list A), subseq l l.
Proof. induction l; constructor; assumption. Qed.

Lemma subseq_filter_map : forall {A} (l : list (A * bool)),
  subseq (map fst (filter (fun p => snd p) l)) (map fst l).
Proof.
  induction l as [|[a b] l IH]; cbn [filter map fst snd]; [constructor|].
  destruct b; cbn [map fst]; constructor; exact IH.
Qed.

Lemma subseq_app_r : forall {A} (l1 l2 l3 : list A), subseq l1 l2 -> subseq l1 (l2 ++ l3).
Proof.
  intros A l1 l2 l3 H. induction H; cbn [app].
  - induction l3; constructor; assumption.
  - constructor; assumption.
  - constructor; assumption.
Qed.

Lemma fifo_lemma : forall s, reachable s -> st_up s = true ->
  let g := st_gh s in
  (* the queue was filled with the recovered chunks (sorted by ID), then the accepted, non-dropped ones in order *)
  g_rec g = ids (firstn (st_Q s) (scan matchf (st_dirok s) (g_init g))) /\
  StronglySorted name_lt (g_rec g) /\
  (* the feeder has worked through a prefix of that sequence ... *)
  (exists rest, g_rec g ++ enq_ids g = map fst (g_proc g) ++ rest) /\
  (* ... and offered all of it to the consumer, in the same order, except what it dropped (and counted) *)
  ids (g_offered g) = offered_ids g /\
  (* byte for byte: what is offered under an ID is the content that entered under that ID *)
  (forall c, In c (g_offered g) -> exists d, c_data c = Some d /\ is_orig g (c_id c) (EFile d)) /\
  (* what the consumers received is an order-preserving selection of what was offered *)
  subseq (taken g) (g_offered g).
Proof.
  intros s Hr Hup g. subst g. pose proof (reachable_inv s Hr Hup) as Hinv. repeat split.
  - apply (i_rec_def _ _ _ Hinv).
  - apply (i_recsorted _ _ _ Hinv).
  - destruct (i_fifo _ _ _ Hinv) as (rest & H1 & _). exists rest. exact H1.
  - apply (i_offered_ids _ _ _ Hinv).
  - apply (i_offered_orig _ _ _ Hinv).
  - unfold taken. rewrite (i_win _ _ _ Hinv). apply subseq_app_r. apply subseq_filter_map.
Qed.

(* while the feeder is in its main loop, nothing queued is skipped: the rest is exactly its hand and the queue *)
Lemma fifo_no_gap_lemma : forall s, reachable s -> st_up s = true -> main_loop (st_fpc s) = true ->
  let g := st_gh s in
  g_rec g ++ enq_ids g = map fst (g_proc g) ++ feeder_ids (st_fpc s) ++ ids (st_queue s).
Proof.
  intros s Hr Hup Hml g. subst g. pose proof (reachable_inv s Hr Hup) as Hinv.
  destruct (i_fifo _ _ _ Hinv) as (rest & H1 & H2). rewrite <- (H2 Hml). exact H1.
Qed.

(* ---------- C03: Accept never blocks ---------- *)
Lemma accept_nonblocking_lemma : forall s id data ws,
  st_up s = true -> st_closed s = false -> fresh matchf id s = true ->
  exists s', step s (EAccept id data ws) = Some s'.
Proof.
  intros s id data ws Hup Hcl Hfr. unfold step. rewrite Hup. unfold do_accept. rewrite Hup, Hcl, Hfr.
  cbn [andb negb]. cbv zeta.
  destruct (Nat.leb _ _).
  - destruct (unload _ _ _ _ _ _) as [d m c [|]|d]; eexists; reflexivity.
  - eexists; reflexivity.
Qed.

(* ---------- C03: the window ---------- *)
Lemma window_bound_lemma : forall s, reachable s -> st_up s = true ->
  (length (st_win s) <= st_M s)%nat /\ (length (st_queue s) <= st_Q s)%nat.
Proof.
  intros s Hr Hup. pose proof (reachable_inv s Hr Hup) as Hinv.
  split; [apply (i_winbound _ _ _ Hinv)|apply (i_qbound _ _ _ Hinv)].
Qed.

(* a chunk accepted while at least half of the window is in use is queued unloaded (its bytes are in
   its file, not in memory) or dropped and counted - or the process died in the write *)
Lemma spill_rule_lemma : forall s id data ws s',
  step s (EAccept id data ws) = Some s' ->
  (st_M s / 2 <= length (st_win s))%nat ->
  st_up s' = false \/
  st_queue s' = st_queue s ++ [{| c_id := id; c_data := None; c_saved := true |}] \/
  (st_queue s' = st_queue s /\ g_dropped (st_gh s') = g_dropped (st_gh s) ++ [id]).
Proof.
  intros s id data ws s' H Hhalf. unfold step in H. destruct (st_up s); [|discriminate].
  unfold do_accept in H. destruct (_ && _ && _); [|discriminate]. cbv zeta in H.
  apply Nat.leb_le in Hhalf. simp_state. rewrite Hhalf in H.
  set (c0 := {| c_id := id; c_data := Some data; c_saved := false |}) in *.
  destruct (unload_cases (st_dirok s) (st_max s) ws (st_dir s) (add_in_p 1 (add_pending 1 (st_met s))) c0)
    as [[Hck Hu]|[[Hck Hu]|(dat & Hck & Hu)]]; rewrite Hu in H; clear Hu.
  - apply unload_check_yes in Hck. discriminate.
  - inversion H; subst s'. right. right. simp_state. split; reflexivity.
  - destruct (unload_write ws (st_dir s) (add_in_p 1 (add_pending 1 (st_met s))) c0 dat) as [d m c' ok|d] eqn:Ew.
    + destruct (unload_write_ret _ _ _ _ _ _ _ _ _ Ew) as (_ & _ & Hyes & Hno). destruct ok.
      * destruct (Hyes eq_refl) as (Hc' & _). subst c'. unfold enqueue in H. simp_state.
        destruct (Nat.ltb _ _); inversion H; subst s'; simp_state.
        -- right. left. reflexivity.
        -- right. right. split; reflexivity.
      * inversion H; subst s'. right. right. simp_state. split; reflexivity.
    + inversion H; subst s'. left. reflexivity.
Qed.

(* ---------- C03: memory ---------- *)
Definition loaded (c : chunk) : bool := match c_data c with Some _ => true | None => false end.
Definition loaded_in_buffer (s : state) : nat :=
  length (filter loaded (st_queue s ++ hand (st_fpc s) ++ st_win s)).

Lemma filter_length_le : forall {A} (f : A -> bool) l, (length (filter f l) <= length l)%nat.
Proof. induction l as [|a l IH]; cbn [filter length]; [lia|]. destruct (f a); cbn [length]; lia. Qed.

(* what is bounded: the capacities.  Not bounded by the window alone - see the witness in Props/C03.v *)
Lemma memory_bound_lemma : forall s, reachable s -> st_up s = true ->
  (loaded_in_buffer s <= st_Q s + st_M s + 2)%nat.
Proof.
  intros s Hr Hup. destruct (window_bound_lemma s Hr Hup) as [Hw Hq].
  unfold loaded_in_buffer. etransitivity; [apply filter_length_le|].
  rewrite !app_length.
  assert (length (hand (st_fpc s)) <= 2)%nat by (destruct (st_fpc s) as [| | |[?|]|[?|] ?| | | |]; cbn [hand length]; lia).
  lia.
Qed.

(* ---------- C03: space ---------- *)
Lemma space_bound_lemma : forall s, reachable s -> st_up s = true ->
  let g := st_gh s in
  (* the gauge is exactly the size of the files the queue owns (including dropped chunks whose file stays) *)
  m_pbytes (st_met s) = owned_sum dirsize (st_dir s) (entered g) /\
  (* and stays within the limit (or what was found at start-up), plus at most the largest chunk the feeder
     was writing at shutdown while another save went on *)
  (owned_sum dirsize (st_dir s) (entered g) <= Z.max (g_initbytes g) (st_max s) + g_maxfw g)%Z /\
  (0 <= g_maxfw g)%Z.
Proof.
  intros s Hr Hup g. subst g. pose proof (reachable_inv s Hr Hup) as Hinv.
  pose proof (i_space _ _ _ Hinv) as Hs. pose proof (i_bound _ _ _ Hinv) as [Hb1 Hb2].
  repeat split; [exact Hs|lia|exact Hb2].
Qed.

(* ---------- C04: intact or not at all ---------- *)

(* whatever is offered to a consumer under an ID that was ever given to Accept on this directory - in this or
   in an earlier generation, whatever faults and crashes happened in between - carries exactly the accepted bytes *)
Lemma intact_lemma : forall s, reachable s -> st_up s = true ->
  forall c d, In c (g_offered (st_gh s)) -> In (c_id c, d) (st_ever s) -> c_data c = Some d.
Proof.
  intros s Hr Hup c d Hc Hev. destruct (reachable_good s Hr) as [Hp Hi]. specialize (Hi Hup).
  destruct (i_offered_orig _ _ _ Hi c Hc) as (d' & Hd & Ho). rewrite Hd. f_equal.
  assert (Huniq : forall d1 d2, In (c_id c, d1) (st_ever s) -> In (c_id c, d2) (st_ever s) -> d1 = d2).
  { pose proof (p_ever_nodup _ _ Hp) as Hnd. clear - Hnd. induction (st_ever s) as [|[k v] l IH]; intros d1 d2 H1 H2; [contradiction|].
    cbn [map fst] in Hnd. inversion Hnd as [|? ? Hn Hnd']; subst.
    destruct H1 as [H1|H1]; destruct H2 as [H2|H2].
    - congruence.
    - inversion H1; subst. exfalso. apply Hn. change (c_id c) with (fst (c_id c, d2)). apply in_map. exact H2.
    - inversion H2; subst. exfalso. apply Hn. change (c_id c) with (fst (c_id c, d1)). apply in_map. exact H1.
    - apply IH; assumption. }
  destruct Ho as [(d0 & b & Hin & He)|[Hin Hg]].
  - inversion He; subst d0. apply (Huniq d' d); [|exact Hev]. eapply (i_acc_ever _ _ _ Hi). exact Hin.
  - pose proof (i_rec_ever _ _ _ Hi _ _ _ Hev Hin Hg) as E. inversion E. reflexivity.
Qed.

(* the same for files: under the ID of a chunk ever accepted there is nothing, or the complete chunk *)
Lemma files_intact_lemma : forall s, reachable s ->
  forall x d, In (x, d) (st_ever s) -> dir_get (st_dir s) x = None \/ dir_get (st_dir s) x = Some (EFile d).
Proof. intros s Hr x d Hx. destruct (reachable_good s Hr) as [Hp _]. apply (p_ever_files _ _ Hp). exact Hx. Qed.

(* ---------- C04: a damaged file does not block the others ---------- *)

(* start-up enqueues by name only: contents are not looked at *)
Lemma restart_enqueues_lemma : forall s Q M maxb,
  st_queue (restart matchf dirsize Q M maxb true s) =
  firstn Q (map (fun n => {| c_id := n; c_data := None; c_saved := true |})
                (filter (fun n => negb (name_eqb n id_file_name) && matchf n) (dir_names (st_dir s)))).
Proof. reflexivity. Qed.

(* the feeder is never stuck on the chunk it holds: loading always makes a step, and when the chunk cannot be
   loaded (unreadable, a directory, vanished) or is empty it is dropped and counted, the feeder is back at the
   queue, and queue and window are untouched *)
Lemma damaged_skipped_lemma : forall s c rerr,
  st_up s = true -> st_fpc s = FLoad c ->
  exists s', step s (EFeedLoad rerr) = Some s' /\
    ((exists c', st_fpc s' = FPush c c' /\ c_id c' = c_id c /\ zero_length c' = false) \/
     (st_fpc s' = FRecv /\ st_queue s' = st_queue s /\ st_win s' = st_win s /\
      g_dropped (st_gh s') = g_dropped (st_gh s) ++ [c_id c] /\
      m_dropped (st_met s') = (m_dropped (st_met s) + 1)%Z)).
Proof.
  intros s c rerr Hup Hf. unfold step. rewrite Hup. unfold do_feed_load. rewrite Hf.
  destruct (op_load (st_dirok s) rerr (st_dir s) (st_met s) c) as [[m c'] ok] eqn:El.
  assert (Hm : m_dropped m = m_dropped (st_met s) /\ (ok = true -> c_id c' = c_id c)).
  { unfold op_load in El. destruct (c_data c); [inversion El; subst; split; reflexivity|].
    destruct (negb (c_saved c)); [inversion El; subst; split; [reflexivity|discriminate]|].
    destruct (negb (st_dirok s)); [inversion El; subst; split; [reflexivity|discriminate]|].
    destruct (read_file_at rerr (st_dir s) (c_id c)); inversion El; subst; split; try reflexivity; discriminate. }
  destruct Hm as [Hm Hid]. destruct ok.
  - destruct (zero_length c') eqn:Ez.
    + destruct (op_remove (st_dirok s) (st_dir s) m c') as [d m1] eqn:Er. eexists. split; [reflexivity|]. right.
      assert (m_dropped m1 = m_dropped m).
      { unfold op_remove in Er. destruct (negb (c_saved c')); [inversion Er; reflexivity|].
        destruct (negb (st_dirok s)); [inversion Er; reflexivity|].
        destruct (unlink_file_at (st_dir s) (c_id c')) as [d' [|]]; inversion Er; reflexivity. }
      simp_state. repeat split; try reflexivity. lia.
    + eexists. split; [reflexivity|]. left. exists c'. simp_state. repeat split; [apply Hid; reflexivity|exact Ez].
  - eexists. split; [reflexivity|]. right. simp_state. repeat split; try reflexivity.
    unfold op_on_dropped. destruct (c_saved c); simp_state; lia.
Qed.

Lemma feeder_takes_lemma : forall s c q,
  st_up s = true -> st_fpc s = FRecv -> st_queue s = c :: q ->
  exists s', step s EFeedTake = Some s' /\ st_fpc s' = FLoad c /\ st_queue s' = q /\ st_win s' = st_win s.
Proof.
  intros s c q Hup Hf Hq. unfold step. rewrite Hup. unfold do_feed_take. rewrite Hf, Hq.
  eexists. split; [reflexivity|]. simp_state. repeat split.
Qed.

(* ---------- replayer ---------- *)
Lemma quiesce_sound : forall hold fuel s s', quiesce matchf dirsize hold fuel s = Some s' ->
  exists hidden, Forall (fun e => is_hidden e = true) hidden /\ run s hidden = Some s'.
Proof.
  intros hold. induction fuel as [|fuel IH]; intros s s' H; cbn [quiesce] in H.
  - destruct (stalled hold s); [inversion H; subst; exists []; split; [constructor|reflexivity]|].
    destruct (next_hidden s) as [e|] eqn:En; [discriminate|]. inversion H; subst. exists []. split; [constructor|reflexivity].
  - destruct (stalled hold s); [inversion H; subst; exists []; split; [constructor|reflexivity]|].
    destruct (next_hidden s) as [e|] eqn:En.
    + destruct (step s e) as [s1|] eqn:Es; [|discriminate].
      destruct (IH s1 s' H) as (hid & Hh & Hr). exists (e :: hid). split.
      * constructor; [|exact Hh]. unfold next_hidden in En. destruct (st_up s); [|discriminate].
        destruct (st_fpc s); try discriminate;
          repeat match type of En with
                 | context [match ?x with _ => _ end] => destruct x
                 | context [if ?x then _ else _] => destruct x
                 end; inversion En; reflexivity.
      * cbn [Buffer.run]. rewrite Es. exact Hr.
    + inversion H; subst. exists []. split; [constructor|reflexivity].
Qed.

Lemma run_app : forall e1 e2 s, run s (e1 ++ e2) = match run s e1 with Some s1 => run s1 e2 | None => None end.
Proof.
  induction e1 as [|e e1 IH]; intros e2 s; cbn [app Buffer.run]; [reflexivity|].
  destruct (step s e); [apply IH|reflexivity].
Qed.

Definition visible (evs : list event) : list event := filter (fun e => negb (is_hidden e)) evs.

Lemma visible_hidden : forall l, Forall (fun e => is_hidden e = true) l -> visible l = [].
Proof.
  induction l as [|e l IH]; intros H; [reflexivity|]. inversion H; subst. unfold visible. cbn [filter].
  rewrite H2. cbn [negb]. apply IH. assumption.
Qed.

Lemma visible_app : forall a b, visible (a ++ b) = visible a ++ visible b.
Proof. intros. unfold visible. apply filter_app. Qed.

(* the events the observed operations stand for *)
Definition ops_events (ops : list (rop)) : list event := concat (map events_of ops).

(* what the replayer accepts is a run of the LTS whose visible events are exactly the observed operations *)
Lemma accept_sound_lemma : forall ops i hold s h s' h',
  replay matchf dirsize i ops hold s h = inl (s', h') ->
  exists evs, run s evs = Some s' /\ visible evs = ops_events ops.
Proof.
  induction ops as [|o ops IH]; intros i hold s h s' h' H; cbn [replay] in H.
  - inversion H; subst. exists []. split; reflexivity.
  - unfold ops_events. cbn [map concat]. fold (ops_events ops). destruct o as [e|n Q M maxb| |].
    + destruct (is_hidden e) eqn:Eh; [discriminate|].
      destruct (match hold with Some _ => negb (allowed_while_held matchf e) | None => false end); [discriminate|].
      destruct (step s e) as [s1|] eqn:Es; [|discriminate].
      destruct (quiesce matchf dirsize hold (quiesce_fuel s1) s1) as [s2|] eqn:Eq; [|discriminate].
      destruct (quiesce_sound _ _ _ _ Eq) as (hid & Hh & Hr).
      destruct (IH _ _ _ _ _ _ H) as (evs & Hrun & Hvis).
      exists (e :: hid ++ evs). split.
      * cbn [Buffer.run]. rewrite Es. rewrite run_app, Hr. exact Hrun.
      * change (e :: hid ++ evs) with ([e] ++ hid ++ evs). rewrite !visible_app, (visible_hidden _ Hh), Hvis.
        unfold visible. cbn [filter events_of app]. rewrite Eh. reflexivity.
    + destruct hold; [discriminate|]. destruct (sorts_first matchf n (st_dir s)); [|discriminate].
      destruct (Buffer.run matchf dirsize s (events_of (RHold n Q M maxb))) as [s1|] eqn:Es; [|discriminate].
      destruct (quiesce matchf dirsize (Some n) (quiesce_fuel s1) s1) as [s2|] eqn:Eq; [|discriminate].
      destruct (quiesce_sound _ _ _ _ Eq) as (hid & Hh & Hr).
      destruct (IH _ _ _ _ _ _ H) as (evs & Hrun & Hvis).
      exists (events_of (RHold n Q M maxb) ++ hid ++ evs). split.
      * rewrite run_app, Es, run_app, Hr. exact Hrun.
      * rewrite !visible_app, (visible_hidden _ Hh), Hvis. reflexivity.
    + destruct (stalled hold s); [|discriminate].
      destruct (quiesce matchf dirsize None (quiesce_fuel s) s) as [s2|] eqn:Eq; [|discriminate].
      destruct (quiesce_sound _ _ _ _ Eq) as (hid & Hh & Hr).
      destruct (IH _ _ _ _ _ _ H) as (evs & Hrun & Hvis).
      exists (hid ++ evs). split.
      * rewrite run_app, Hr. exact Hrun.
      * rewrite visible_app, (visible_hidden _ Hh), Hvis. reflexivity.
    + destruct hold; [discriminate|]. destruct (st_win s); [|discriminate].
      destruct (quiesce matchf dirsize None (quiesce_fuel s) s) as [s2|] eqn:Eq; [|discriminate].
      destruct (quiesce_sound _ _ _ _ Eq) as (hid & Hh & Hr).
      destruct (IH _ _ _ _ _ _ H) as (evs & Hrun & Hvis).
      exists (hid ++ evs). split.
      * rewrite run_app, Hr. exact Hrun.
      * rewrite visible_app, (visible_hidden _ Hh), Hvis. reflexivity.
Qed.

End Theorems.

(* ---------- the matcher of the outputs: strings.HasSuffix(id, ".ff") ---------- *)
Lemma has_suffix_spec : forall sfx s, has_suffix sfx s = true -> exists p, s = p ++ sfx.
Proof.
  intros sfx. induction s as [|a s IH]; intros H; cbn [has_suffix] in H.
  - destruct (bytes_eqb sfx []) eqn:E; [|discriminate]. apply bytes_eqb_eq in E. subst. exists []. reflexivity.
  - destruct (bytes_eqb sfx (a :: s)) eqn:E.
    + apply bytes_eqb_eq in E. subst. exists []. reflexivity.
    + destruct (IH H) as (p & Hp). exists (a :: p). subst. reflexivity.
Qed.

Lemma match_ff_ok : matcher_ok match_ff.
Proof.
  split.
  - intros n _. destruct (match_ff (tmp_name n)) eqn:E; [|reflexivity]. exfalso.
    apply has_suffix_spec in E. destruct E as (p & Hp). unfold tmp_name, tmp_suffix, ff_suffix in Hp.
    apply (f_equal (@rev N)) in Hp. rewrite !rev_app_distr in Hp. cbn [rev app] in Hp. discriminate.
  - reflexivity.
Qed.
