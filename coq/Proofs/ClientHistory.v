(* C02 — the history variables of the client model are exactly what the run says happened. *)
From SV Require Import Model.Common Model.Client Spec.ClientSpec Proofs.ClientBase Proofs.ClientSafety.
From Coq Require Import Lia Permutation.

Lemma last_take_app : forall a b acc, last_take acc (a ++ b) = last_take (last_take acc a) b.
Proof. induction a as [|e a IH]; intros; simpl; [reflexivity|]. destruct e; apply IH. Qed.

Ltac snoc_spec f :=
  let tr := fresh "tr" in let e := fresh "e" in
  intros tr e; induction tr as [|? tr IH]; [destruct e; reflexivity|];
  simpl; match goal with |- context [match ?a with _ => _ end] => destruct a end; simpl; rewrite ?IH; try reflexivity.

Lemma offered_of_snoc : forall tr e, offered_of (tr ++ [e]) = offered_of tr ++ match e with EOffer c => [c] | _ => [] end.
Proof. intros tr e. induction tr as [|a tr IH]; [destruct e; reflexivity|]. simpl. destruct a; simpl; rewrite IH; reflexivity. Qed.
Lemma taken_of_snoc : forall tr e, taken_of (tr ++ [e]) = taken_of tr ++ match e with ETake c => [c] | _ => [] end.
Proof. intros tr e. induction tr as [|a tr IH]; [destruct e; reflexivity|]. simpl. destruct a; simpl; rewrite IH; reflexivity. Qed.
Lemma consumed_of_snoc : forall tr e, consumed_of (tr ++ [e]) = consumed_of tr ++ match e with EConsumed c => [c] | _ => [] end.
Proof. intros tr e. induction tr as [|a tr IH]; [destruct e; reflexivity|]. simpl. destruct a; simpl; rewrite IH; reflexivity. Qed.
Lemma handed_of_snoc : forall tr e, handed_of (tr ++ [e]) = handed_of tr ++ match e with ELeftover c => [c] | _ => [] end.
Proof. intros tr e. induction tr as [|a tr IH]; [destruct e; reflexivity|]. simpl. destruct a; simpl; rewrite IH; reflexivity. Qed.
Lemma sent_of_snoc : forall tr e, sent_of (tr ++ [e]) = sent_of tr ++ match e with ESendRet k c ROk => [(k, c)] | _ => [] end.
Proof.
  intros tr e. induction tr as [|a tr IH]; [destruct e; try reflexivity; destruct r; reflexivity|].
  simpl. destruct a; simpl; rewrite ?IH; try reflexivity. destruct r; simpl; rewrite ?IH; reflexivity.
Qed.
Lemma finished_in_snoc : forall tr e, finished_in (tr ++ [e]) = finished_in tr || match e with EFinished => true | _ => false end.
Proof. intros. unfold finished_in. rewrite existsb_app. simpl. rewrite orb_false_r. reflexivity. Qed.

(* the history variables of the model are exactly what the run says *)
Record hist (tr : list event) (s : state) : Prop := {
  hs_offered : h_offered s = rev (offered_of tr);
  hs_taken : h_taken s = rev (taken_of tr);
  hs_consumed : h_consumed s = rev (consumed_of tr);
  hs_handed : h_handed s = rev (handed_of tr);
  hs_sent : h_sent s = rev (sent_of tr);
  hs_finished : h_finished s = finished_in tr;
  hs_acks : forall k a nx, In (k, a, nx) (h_acks s) ->
            exists p1 p2, tr = p1 ++ EAckRet k a :: p2 /\ last_take None p1 = Some nx /\ a <> AErr;
  hs_next : forall ss nx, cur s = Some ss -> s_apc ss = AReading nx -> last_take None tr = Some nx
}.

Lemma last_take_snoc : forall tr e,
  last_take None (tr ++ [e]) = match e with EAckerTake c => Some c | _ => last_take None tr end.
Proof. intros. rewrite last_take_app. destruct e; reflexivity. Qed.

Lemma acks_ext : forall (tr : list event) e k a nx,
  (exists p1 p2, tr = p1 ++ EAckRet k a :: p2 /\ last_take None p1 = Some nx /\ a <> AErr) ->
  exists p1 p2, tr ++ [e] = p1 ++ EAckRet k a :: p2 /\ last_take None p1 = Some nx /\ a <> AErr.
Proof.
  intros tr e k a nx (p1 & p2 & -> & H1 & H2). exists p1, (p2 ++ [e]). rewrite <- app_assoc. simpl. auto.
Qed.

Lemma hist_reach : forall P tr s, reach_by P tr s -> hist tr s.
Proof.
  intros P. apply reach_by_ind.
  - constructor; simpl; intros; try reflexivity; try contradiction; discriminate.
  - intros tr s e s' Hr [Ho Ht Hc Hh Hs Hf Ha Hn] Hst.
    destruct e; step_inv Hst.
    all: boolprep; constructor; st_simpl;
         rewrite ?offered_of_snoc, ?taken_of_snoc, ?consumed_of_snoc, ?handed_of_snoc, ?sent_of_snoc, ?finished_in_snoc,
                 ?rev_app_distr, ?app_nil_r, ?orb_false_r; simpl.
    all: try solve [congruence].
    all: try solve [intros; apply acks_ext; eauto].
    all: try solve [intros ? ? ? [E|H]; [|apply acks_ext; eauto];
                    inversion E; subst; exists tr, []; split; [reflexivity|]; split; [eauto|discriminate]].
    all: rewrite ?last_take_snoc.
    all: try solve [eauto].
    all: try solve [intros ? ? E; inversion E; subst; st_simpl; intros; try discriminate; eauto].
    all: try solve [rewrite orb_true_r; reflexivity].
    all: try solve [intros ? ? E; inversion E; subst; st_simpl; intros E2; inversion E2; reflexivity].
    all: try solve [eauto].
    all: try solve [intros ? ? E; rewrite Heqo in E; eauto].
Qed.

(* the observable events of a run *)
Definition obs_of (tr : list event) : list event := filter is_obs tr.

