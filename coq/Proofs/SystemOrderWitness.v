(* Witnesses for C05: the hypothesis of the order theorems is needed; the hypotheses are satisfiable. *)
From Coq Require Import List Arith Bool Lia PeanoNat NArith ZArith.
From SV Require Import Model.Common Model.System Model.SystemAccept Model.SystemOrderCase
  Proofs.SystemLists Proofs.SystemProofs Proofs.SystemAlo Proofs.SystemAcceptProofs
  Proofs.SystemOrderLists Proofs.SystemOrder Proofs.SystemOrderTok Proofs.SystemOrderThm.
Import ListNotations.
Open Scope nat_scope.

(* queue overflow after a successful spill: chunk 1 is counted dropped but its file stays; chunk 2 is delivered;
   after the restart chunk 1 is recovered and delivered: record 0 arrives at the upstream after record 1 *)
Definition ow_t0 : tok := mkTok 0 0 1 true 5%N.
Definition ow_t1 : tok := mkTok 0 1 1 true 6%N.
Definition ow_run : list event :=
  [EConnOpen 0; EIngest ow_t0; EIngest ow_t1;
   EFrame 0; ESinkSend 0; EKeyFlush 0 1; EWorkerTake 1; EWorkerStep 1; EChunkClose 1 1 ADropFullSaved;
   EFrame 0; ESinkSend 0; EKeyFlush 0 1; EWorkerTake 1; EWorkerStep 1; EChunkClose 1 2 AMem;
   EConnect 1; EFeederTake 1; EFeederPush 1; ESendNew 1; ESrvAck 1 2; EAckRead 1 2; ESessionEnd 1;
   EStopReq; EConnEnd 0; EInputsStopped; EWorkerStop 1 3 AMem; EDestroy 1; EFeederBreak 1; EClientStop 1; EClientDone 1;
   EFeederEnd 1; EStopped; ERestart;
   EConnect 1; EFeederTake 1; EFeederLoad 1 true; EFeederPush 1; ESendNew 1].

Definition ow_check : bool :=
  match steps init ow_run with
  | Some s => negb (order_safe ow_run) && negb (incrb (first_occ (deliveredb 0 1 s)))
  | None => false
  end.

Lemma ow_check_true : ow_check = true.
Proof. vm_compute. reflexivity. Qed.

Lemma overflow_witness : exists es s k p, steps init es = Some s /\ ~ incr (first_occ (delivered k p s)).
Proof.
  pose proof ow_check_true as H. unfold ow_check in H.
  destruct (steps init ow_run) as [s|] eqn:E; [|discriminate H].
  apply andb_true_iff in H. destruct H as [_ H]. apply negb_true_iff in H.
  exists ow_run, s, 0, 1. split; [exact E|]. intros X. rewrite <- deliveredb_eq in X. apply incrb_spec in X. congruence.
Qed.

(* non-vacuity: the example run of C01 (a chunk received twice - never ACKed, then recovered after a restart and
   ACKed -, a second chunk) is order-safe, and both theorems apply to it *)
Definition exo_check : bool :=
  match steps init ex_events with
  | Some s => order_safe ex_events && Nat.eqb (length (received s)) 3 && incrb (first_occ (deliveredb 0 1 s))
              && Nat.eqb (length (first_occ (deliveredb 0 1 s))) 2
  | None => false
  end.

Lemma exo_check_true : exo_check = true.
Proof. vm_compute. reflexivity. Qed.

Lemma order_example : exists es s, steps init es = Some s /\ order_safe es = true /\ length (received s) = 3 /\
  length (first_occ (delivered 0 1 s)) = 2.
Proof.
  pose proof exo_check_true as H. unfold exo_check in H.
  destruct (steps init ex_events) as [s|] eqn:E; [|discriminate H].
  repeat (apply andb_true_iff in H; let X := fresh "X" in destruct H as [H X]).
  exists ex_events, s. split; [exact E|]. split; [exact H|]. split; [apply Nat.eqb_eq; exact X1|].
  rewrite <- deliveredb_eq. apply Nat.eqb_eq. exact X.
Qed.

(* an accepted trace is the projection of an order-safe run: the flag ord=1 printed by the acceptor is a theorem *)
Lemma accepted_order_lemma : forall tr s, accept tr = Some s -> order_check s = true.
Proof.
  intros tr s H. destruct (accept_sound_lemma tr s H) as [es [os [H1 [_ [H3 _]]]]].
  eapply order_check_lemma; eassumption.
Qed.
