(* Proofs about concurrent writers of one queue directory (Model/ConcWrite.v). *)
From SV Require Import Model.Common Model.FileWrite Model.ConcWrite Spec.BufferSpec Proofs.CommonFacts Proofs.FileWriteProofs.
From Coq Require Import Lia.

(* What is required of the jobs and of the temporary-name function: an ID stands for one chunk; the temporary
   name is injective on the IDs; no temporary name is an ID. *)
Definition jobs_ok (tmpf : name -> name) (js : list job) : Prop :=
  (forall n d1 d2, In (n, d1) js -> In (n, d2) js -> d1 = d2) /\
  (forall n m d1 d2, In (n, d1) js -> In (m, d2) js -> tmpf n = tmpf m -> n = m) /\
  (forall n m d1 d2, In (n, d1) js -> In (m, d2) js -> tmpf n <> m).

(* no sub-directory in the way under the IDs and their temporary names *)
Definition no_dirs (tmpf : name -> name) (js : list job) (d : dirT) : Prop :=
  forall n data, In (n, data) js -> is_dir (dir_get d n) = false /\ is_dir (dir_get d (tmpf n)) = false.

(* the invariant of every interleaving *)
Definition cw_inv (tmpf : name -> name) (js : list job) (d0 : dirT) (st : dirT * pcs) : Prop :=
  let (d, p) := st in
  forall n data, In (n, data) js ->
    is_dir (dir_get d n) = false /\ is_dir (dir_get d (tmpf n)) = false /\
    (p n = 0 \/ p n = 1 \/ p n = 2 \/ p n = 3 \/ p n = 4)%nat /\
    (p n = 1%nat -> dir_get d (tmpf n) = Some (EFile [])) /\
    (p n = 2%nat \/ p n = 3%nat -> dir_get d (tmpf n) = Some (EFile data)) /\
    (p n = 4%nat -> dir_get d n = Some (EFile data)) /\
    (dir_get d n = dir_get d0 n \/ dir_get d n = Some (EFile data)).

Lemma overlay_nil : forall data, overlay data [] = data.
Proof. intros data. unfold overlay. rewrite skipn_nil. apply app_nil_r. Qed.

Lemma pc_set_same : forall p n v, pc_set p n v n = v.
Proof. intros. unfold pc_set. rewrite name_eqb_refl. reflexivity. Qed.

Lemma pc_set_other : forall p n v m, m <> n -> pc_set p n v m = p m.
Proof.
  intros p n v m H. unfold pc_set. destruct (name_eqb m n) eqn:E; [|reflexivity].
  apply name_eqb_eq in E. contradiction.
Qed.

Lemma is_dir_file : forall c, is_dir (Some (EFile c)) = false.
Proof. reflexivity. Qed.

Ltac fin :=
  repeat split; auto; try lia; try (intros; try lia; discriminate);
  try (intros [?|?]; try lia; discriminate).

Lemma cw_inv_init : forall tmpf js d0, no_dirs tmpf js d0 -> cw_inv tmpf js d0 (d0, pc0).
Proof.
  intros tmpf js d0 Hnd n data Hin. destruct (Hnd n data Hin) as [A B].
  unfold pc0. fin.
Qed.

(* one system call of the job (m, dm) keeps the invariant *)
Lemma cw_inv_step : forall tmpf js d0, jobs_ok tmpf js ->
  forall st m dm, In (m, dm) js -> cw_inv tmpf js d0 st -> cw_inv tmpf js d0 (cw_step tmpf (m, dm) st).
Proof.
  intros tmpf js d0 (Hfun & Hinj & Hdisj) [d p] m dm Hm Hinv.
  destruct (Hinv m dm Hm) as (Mnd & Mtd & Mpc & M1 & M23 & M4 & Mfin).
  assert (Htm : tmpf m <> m) by (eapply Hdisj; eassumption).
  (* the other jobs: neither their ID nor their temporary name is touched *)
  assert (Hother : forall n data, In (n, data) js -> n <> m ->
            n <> tmpf m /\ tmpf n <> tmpf m /\ tmpf n <> m).
  { intros n data Hin Hne. split; [|split].
    - intros E. eapply (Hdisj m n); eauto.
    - intros E. apply Hne. eapply Hinj; eauto.
    - eapply Hdisj; eauto. }
  unfold cw_step.
  destruct Mpc as [P|[P|[P|[P|P]]]]; rewrite P.
  - (* open *)
    rewrite Mtd. intros n data Hin.
    destruct (Hinv n data Hin) as (Nnd & Ntd & Npc & N1 & N23 & N4 & Nfin).
    destruct (name_eqb n m) eqn:E.
    + apply name_eqb_eq in E. subst n. assert (data = dm) by (eapply Hfun; eauto). subst data.
      rewrite pc_set_same, dir_get_set_same, (dir_get_set_other d (tmpf m) _ m) by auto.
      fin.
    + apply name_eqb_neq in E. destruct (Hother n data Hin E) as (O1 & O2 & O3).
      rewrite pc_set_other by auto. rewrite !dir_get_set_other by auto.
      fin.
  - (* write *)
    rewrite (M1 P). rewrite overlay_nil. intros n data Hin.
    destruct (Hinv n data Hin) as (Nnd & Ntd & Npc & N1 & N23 & N4 & Nfin).
    destruct (name_eqb n m) eqn:E.
    + apply name_eqb_eq in E. subst n. assert (data = dm) by (eapply Hfun; eauto). subst data.
      rewrite pc_set_same, dir_get_set_same, (dir_get_set_other d (tmpf m) _ m) by auto.
      fin.
    + apply name_eqb_neq in E. destruct (Hother n data Hin E) as (O1 & O2 & O3).
      rewrite pc_set_other by auto. rewrite !dir_get_set_other by auto.
      fin.
  - (* close *)
    intros n data Hin.
    destruct (Hinv n data Hin) as (Nnd & Ntd & Npc & N1 & N23 & N4 & Nfin).
    destruct (name_eqb n m) eqn:E.
    + apply name_eqb_eq in E. subst n. assert (data = dm) by (eapply Hfun; eauto). subst data.
      rewrite pc_set_same.
      fin.
    + apply name_eqb_neq in E. rewrite pc_set_other by auto.
      fin.
  - (* rename *)
    rewrite (M23 (or_intror P)). rewrite Mnd. intros n data Hin.
    destruct (Hinv n data Hin) as (Nnd & Ntd & Npc & N1 & N23 & N4 & Nfin).
    destruct (name_eqb n m) eqn:E.
    + apply name_eqb_eq in E. subst n. assert (data = dm) by (eapply Hfun; eauto). subst data.
      rewrite pc_set_same, dir_get_set_same.
      rewrite (dir_get_set_other _ m _ (tmpf m)) by auto. rewrite dir_get_del_same.
      fin.
    + apply name_eqb_neq in E. destruct (Hother n data Hin E) as (O1 & O2 & O3).
      rewrite pc_set_other by auto.
      rewrite !dir_get_set_other by auto. rewrite !dir_get_del_other by auto.
      fin.
  - (* finished: nothing happens *)
    exact Hinv.
Qed.

Lemma cw_inv_run : forall tmpf js d0, jobs_ok tmpf js ->
  forall sched, (forall j, In j sched -> In j js) ->
  forall st, cw_inv tmpf js d0 st -> cw_inv tmpf js d0 (cw_run tmpf sched st).
Proof.
  intros tmpf js d0 Hok sched. induction sched as [|[m dm] rest IH]; intros Hs st Hinv; [exact Hinv|].
  cbn [cw_run]. apply IH.
  - intros j Hj. apply Hs. right. exact Hj.
  - apply cw_inv_step; auto. apply Hs. left. reflexivity.
Qed.

(* MAIN: any number of concurrent writes with distinct IDs, any interleaving of their system calls, at any moment
   (complete or not): under every chunk's ID there is what was there before or exactly that chunk's bytes; a write
   that has finished has succeeded and its file holds exactly its chunk's bytes; no write fails. *)
Lemma conc_writers_intact_lemma :
  forall tmpf js d0, jobs_ok tmpf js -> no_dirs tmpf js d0 ->
  forall sched, (forall j, In j sched -> In j js) ->
  forall d p, cw_run tmpf sched (d0, pc0) = (d, p) ->
  forall n data, In (n, data) js ->
    (dir_get d n = dir_get d0 n \/ dir_get d n = Some (EFile data)) /\
    (p n = 4%nat -> dir_get d n = Some (EFile data)) /\
    p n <> 9%nat.
Proof.
  intros tmpf js d0 Hok Hnd sched Hs d p Hrun n data Hin.
  pose proof (cw_inv_run tmpf js d0 Hok sched Hs (d0, pc0) (cw_inv_init tmpf js d0 Hnd)) as H.
  rewrite Hrun in H. destruct (H n data Hin) as (_ & _ & Hpc & _ & _ & H4 & Hfin).
  split; [exact Hfin|]. split; [exact H4|]. lia.
Qed.

(* how often the job with ID n is scheduled *)
Definition occ (n : name) (sched : list job) : nat :=
  length (filter (fun j : job => name_eqb (fst j) n) sched).

Lemma cw_step_pc : forall tmpf js d0, jobs_ok tmpf js ->
  forall st m dm, In (m, dm) js -> cw_inv tmpf js d0 st ->
  snd (cw_step tmpf (m, dm) st) m = Nat.min 4 (S (snd st m)) /\
  forall n, n <> m -> snd (cw_step tmpf (m, dm) st) n = snd st n.
Proof.
  intros tmpf js d0 Hok [d p] m dm Hm Hinv.
  destruct (Hinv m dm Hm) as (Mnd & Mtd & Mpc & M1 & M23 & M4 & Mfin).
  unfold cw_step. cbn [snd].
  destruct Mpc as [P|[P|[P|[P|P]]]]; rewrite P.
  - rewrite Mtd. cbn [snd]. rewrite pc_set_same. split; [reflexivity|]. intros n Hn. apply pc_set_other; auto.
  - rewrite (M1 P). cbn [snd]. rewrite pc_set_same. split; [reflexivity|]. intros n Hn. apply pc_set_other; auto.
  - cbn [snd]. rewrite pc_set_same. split; [reflexivity|]. intros n Hn. apply pc_set_other; auto.
  - rewrite (M23 (or_intror P)). rewrite Mnd. cbn [snd]. rewrite pc_set_same. split; [reflexivity|]. intros n Hn. apply pc_set_other; auto.
  - cbn [snd]. split; [rewrite P; reflexivity|]. reflexivity.
Qed.

Lemma cw_run_pc : forall tmpf js d0, jobs_ok tmpf js ->
  forall sched, (forall j, In j sched -> In j js) ->
  forall st, cw_inv tmpf js d0 st ->
  forall n data, In (n, data) js ->
  snd (cw_run tmpf sched st) n = Nat.min 4 (snd st n + occ n sched).
Proof.
  intros tmpf js d0 Hok sched. induction sched as [|[m dm] rest IH]; intros Hs st Hinv n data Hin.
  - destruct st as [d p]. destruct (Hinv n data Hin) as (_ & _ & Hpc & _). cbn [cw_run snd]. unfold occ. cbn [filter length].
    destruct Hpc as [P|[P|[P|[P|P]]]]; rewrite P; reflexivity.
  - cbn [cw_run].
    assert (Hm : In (m, dm) js) by (apply Hs; left; reflexivity).
    pose proof (cw_inv_step tmpf js d0 Hok st m dm Hm Hinv) as Hinv'.
    rewrite (IH (fun j Hj => Hs j (or_intror Hj)) _ Hinv' n data Hin).
    destruct (cw_step_pc tmpf js d0 Hok st m dm Hm Hinv) as [Hsame Hoth].
    unfold occ. cbn [filter fst]. destruct (name_eqb m n) eqn:E.
    + apply name_eqb_eq in E. subst m. rewrite Hsame. cbn [length]. lia.
    + apply name_eqb_neq in E. rewrite Hoth by auto. reflexivity.
Qed.

(* every write that was given its four steps is complete, has succeeded, and its file holds its own bytes *)
Lemma conc_writers_complete_lemma :
  forall tmpf js d0, jobs_ok tmpf js -> no_dirs tmpf js d0 ->
  forall sched, (forall j, In j sched -> In j js) ->
  forall d p, cw_run tmpf sched (d0, pc0) = (d, p) ->
  forall n data, In (n, data) js -> (4 <= occ n sched)%nat ->
  p n = 4%nat /\ dir_get d n = Some (EFile data).
Proof.
  intros tmpf js d0 Hok Hnd sched Hs d p Hrun n data Hin Hocc.
  pose proof (cw_run_pc tmpf js d0 Hok sched Hs (d0, pc0) (cw_inv_init tmpf js d0 Hnd) n data Hin) as Hp.
  rewrite Hrun in Hp. cbn [snd] in Hp. unfold pc0 in Hp.
  assert (P4 : p n = 4%nat) by lia. split; [exact P4|].
  destruct (conc_writers_intact_lemma tmpf js d0 Hok Hnd sched Hs d p Hrun n data Hin) as (_ & H4 & _). auto.
Qed.

(* the temporary names of the tree: id ++ ".tmp", for IDs accepted by a matcher that rejects temporary names *)
Lemma tmp_name_jobs_ok : forall matchf js, matcher_ok matchf ->
  NoDup (map fst js) -> (forall n data, In (n, data) js -> matchf n = true) -> jobs_ok tmp_name js.
Proof.
  intros matchf js [Hm _] Hnd Hmatch. split; [|split].
  - induction js as [|[k v] js IH]; intros n d1 d2 H1 H2; [destruct H1|].
    cbn [map fst] in Hnd. inversion Hnd as [|? ? Hnotin Hnd']; subst.
    destruct H1 as [H1|H1]; destruct H2 as [H2|H2].
    + congruence.
    + inversion H1; subst. exfalso. apply Hnotin. apply in_map_iff. exists (n, d2). auto.
    + inversion H2; subst. exfalso. apply Hnotin. apply in_map_iff. exists (n, d1). auto.
    + eapply IH; eauto. intros; eapply Hmatch; right; eauto.
  - intros n m d1 d2 _ _ E. unfold tmp_name in E. eapply app_inv_tail; eauto.
  - intros n m d1 d2 H1 H2 E. pose proof (Hm n (Hmatch n d1 H1)) as F.
    rewrite E in F. rewrite (Hmatch m d2 H2) in F. discriminate.
Qed.

(* ---------- the variant with one temporary name per directory is refuted ---------- *)
Definition wit_a : job := ([97; 46; 102; 102], [65; 65; 65]).      (* "a.ff" -> "AAA" *)
Definition wit_b : job := ([98; 46; 102; 102], [66; 66; 66; 66; 66]). (* "b.ff" -> "BBBBB" *)
(* a opens, b opens (truncates the same file), a writes, b writes over it, a closes and renames: a.ff = b's bytes;
   b closes and renames: ENOENT *)
Definition wit_sched : list job := [wit_a; wit_b; wit_a; wit_b; wit_a; wit_a; wit_b; wit_b].

Lemma shared_tmp_refuted_lemma :
  exists js sched, NoDup (map fst js) /\ (forall j, In j sched -> In j js) /\
  exists n data other, In (n, data) js /\ In other js /\ fst other <> n /\
    let (d, p) := cw_run shared_tmp sched ([], pc0) in
    p n = 4%nat /\ dir_get d n = Some (EFile (snd other)) /\ snd other <> data /\
    p (fst other) = 9%nat /\ dir_get d (fst other) = None.
Proof.
  exists [wit_a; wit_b], wit_sched. split; [|split].
  - cbn. repeat constructor; cbn; intuition discriminate.
  - intros j Hj. cbn in Hj. cbn. intuition.
  - exists (fst wit_a), (snd wit_a), wit_b. split; [left; reflexivity|]. split; [right; left; reflexivity|].
    split; [discriminate|]. vm_compute. repeat split; discriminate.
Qed.

(* with the names of the tree the same jobs and the same schedule end well *)
Lemma own_tmp_witness_lemma :
  let (d, p) := cw_run tmp_name wit_sched ([], pc0) in
  dir_get d (fst wit_a) = Some (EFile (snd wit_a)) /\ dir_get d (fst wit_b) = Some (EFile (snd wit_b)) /\
  p (fst wit_a) = 4%nat /\ p (fst wit_b) = 4%nat.
Proof. vm_compute. repeat split. Qed.
