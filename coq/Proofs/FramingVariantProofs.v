(* Proofs about the emission sites of the multiLineReader (Model/FramingVariants.v) and about the
   byte-exactness of the reference framer (Spec/FramingSpec.v):

   - the variant model with no site trimming IS the model of the theorems (for all scripts);
   - the records of the reference framer, each followed by one newline, are the stream itself:
     no byte other than a separating newline is removed ([segments_cover], [frame_cover]), hence the
     same holds for the reader under every fragmentation ([records_byte_exact_lemma]);
   - trimming a CR at two of the three sites (processBuffer and FlushAll, not Flush) makes the records
     of a stream of single-line records depend on the flush timing ([cr_trim_variant_lemma]); trimming
     at all three sites is timing independent on that witness but removes a byte of the stream
     ([cr_trim_all_not_exact_lemma]). *)
From Coq Require Import Lia ZifyBool ZifyN ZifyNat.
From SV Require Import Model.Common Model.Framing Model.FramingVariants Spec.FramingSpec Proofs.FramingProofs.
Ltac Zify.zify_post_hook ::= Z.div_mod_to_equations.
Open Scope nat_scope.

(* ---------- the variant with no trimming is the model ---------- *)

(* with [no_trim] the bodies of the variant's functions reduce to those of the model: conversion *)
Lemma pb_loop_v_none : forall test fuel buffer rs ss out,
  pb_loop_v test no_trim fuel buffer rs ss out = pb_loop test fuel buffer rs ss out.
Proof. reflexivity. Qed.

Lemma read_frag_v_none : forall test fuel st frag out,
  read_frag_v test no_trim fuel st frag out = read_frag test fuel st frag out.
Proof. reflexivity. Qed.

Lemma run_op_v_none : forall test st o, run_op_v test no_trim st o = run_op test st o.
Proof.
  intros test st [f| |]; cbn [run_op_v run_op].
  - unfold read_v, read. apply read_frag_v_none.
  - reflexivity.
  - unfold flush_all_v, flush_all. destruct (0 <? length (m_buf st)); [|reflexivity].
    destruct (oidx 9 (m_buf st) (length (m_buf st) - 1)) as [l| |]; cbn [bindo]; try reflexivity.
    destruct (N.eqb l NL); [|reflexivity].
    destruct (oslice 10 (m_buf st) 0 (length (m_buf st) - 1)) as [r0| |]; reflexivity.
Qed.

Lemma variant_none_is_model : forall test ops st out,
  run_ops_v test no_trim ops st out = run_ops test ops st out.
Proof.
  intros test ops. induction ops as [|o ops IH]; intros st out; [reflexivity|].
  cbn [run_ops_v run_ops]. rewrite run_op_v_none.
  destruct (run_op test st o) as [[st' o']| |]; cbn [bindo]; try reflexivity. apply IH.
Qed.

(* ---------- the reference framer removes nothing but separating newlines ---------- *)

Definition tail_list (t : bytes) : list bytes := match t with [] => [] | _ :: _ => [t] end.

Lemma unlines_group : forall test ls cur tail, cur <> [] ->
  unlines (group test cur ls tail) = unlines (cur ++ ls ++ tail_list tail).
Proof.
  intros test ls. induction ls as [|l ls IH]; intros cur tail Hc.
  - cbn [group app]. destruct tail as [|c t]; cbn [tail_list].
    + rewrite app_nil_r. rewrite unlines_one. symmetry. apply unlines_join. exact Hc.
    + rewrite unlines_one. symmetry. apply unlines_join. intros H. apply app_eq_nil in H. destruct H; discriminate.
  - cbn [group]. destruct (is_start test l).
    + rewrite unlines_cons, IH by discriminate. rewrite (unlines_app cur).
      rewrite (unlines_join cur Hc). rewrite <- app_assoc. cbn [app]. reflexivity.
    + rewrite IH by (intros H; apply app_eq_nil in H; destruct H; discriminate).
      rewrite <- app_assoc. cbn [app]. reflexivity.
Qed.

(* every segment followed by one newline: that is the stream, plus the newline a missing final
   terminator would have been *)
Lemma segments_cover : forall test s,
  exists pad, (pad = [] \/ pad = [NL]) /\ unlines (segments test s) = s ++ pad.
Proof.
  intros test s. unfold segments. destruct (split_lines s) as [ls t] eqn:Es.
  destruct (split_lines_decomp s ls t Es) as (Hs & _ & _). subst s.
  destruct ls as [|l ls].
  - cbn [unlines flat_map app]. destruct t as [|c t].
    + exists []. split; [left; reflexivity|reflexivity].
    + exists [NL]. split; [right; reflexivity|]. rewrite unlines_one. reflexivity.
  - assert (E : unlines (group test [l] ls t) = unlines (l :: ls) ++ unlines (tail_list t)).
    { rewrite unlines_group by discriminate. rewrite app_assoc. apply unlines_app. }
    destruct t as [|c t]; cbn [tail_list] in E.
    + exists []. split; [left; reflexivity|]. rewrite E. cbn [unlines flat_map]. rewrite !app_nil_r. reflexivity.
    + exists [NL]. split; [right; reflexivity|]. rewrite E. rewrite unlines_one. rewrite <- app_assoc. reflexivity.
Qed.

Lemma close_last_split : forall test segs,
  exists d, (d = [] \/ exists x, d = [x] /\ test x = false) /\ close_last test segs ++ d = segs.
Proof.
  intros test segs. induction segs as [|x segs IH].
  - exists []. split; [left; reflexivity|reflexivity].
  - destruct segs as [|y segs].
    + cbn [close_last]. destruct (test x) eqn:Ex.
      * exists []. split; [left; reflexivity|reflexivity].
      * exists [x]. split; [right; exists x; split; [reflexivity|exact Ex]|reflexivity].
    + destruct IH as (d & Hd & E). exists d. split; [exact Hd|].
      change (close_last test (x :: y :: segs)) with (x :: close_last test (y :: segs)).
      cbn [app]. rewrite E. reflexivity.
Qed.

(* the records of the reference framer plus (possibly) the one trailing segment that is no record *)
Lemma frame_cover : forall test s,
  exists dropped pad,
    (dropped = [] \/ exists x, dropped = [x] /\ test x = false) /\ (pad = [] \/ pad = [NL]) /\
    unlines (frame test s ++ dropped) = s ++ pad.
Proof.
  intros test s. unfold frame. destruct (close_last_split test (segments test s)) as (d & Hd & E).
  destruct (segments_cover test s) as (pad & Hp & Ec).
  exists d, pad. split; [exact Hd|]. split; [exact Hp|]. rewrite E. exact Ec.
Qed.

(* ... hence the reader, under every fragmentation (theorem 1's side conditions) *)
Lemma records_byte_exact_lemma :
  forall (test : bytes -> bool) (min_buf limit b : nat) (fs : list bytes),
  1 <= limit -> 2 * b + 1 + limit <= Nat.max min_buf (limit * 3) ->
  seg_bound test b (concat fs) ->
  exists st' out dropped pad,
    run_ops test (map OpRead fs ++ [OpFlushAll]) (new_mlr min_buf limit) [] = Ok (st', out) /\
    (dropped = [] \/ exists x, dropped = [x] /\ test x = false) /\ (pad = [] \/ pad = [NL]) /\
    unlines (out ++ dropped) = concat fs ++ pad.
Proof.
  intros test min_buf limit b fs Hl Hc Hb.
  destruct (frag_independent_lemma test min_buf limit b fs Hl Hc Hb) as (st' & E).
  destruct (frame_cover test (concat fs)) as (d & pad & Hd & Hp & Ec).
  exists st', (frame test (concat fs)), d, pad. repeat split; assumption.
Qed.

(* ---------- the seeded variant: CR trimmed in processBuffer and FlushAll, not in Flush ---------- *)

Definition cr_line : bytes := [62; 13]%N.                 (* ">\r"  *)
Definition cr_stream : bytes := [62; 13; 10; 62; 13; 10]%N. (* ">\r\n>\r\n" *)

Lemma cr_trim_variant_lemma :
  exists (min_buf limit b : nat) (ls : list bytes) (ops1 ops2 : list op),
    1 <= limit /\ 2 * b + 1 + limit <= Nat.max min_buf (limit * 3) /\
    Forall (valid_line gt_test b) ls /\ no_flush_all ops1 /\ no_flush_all ops2 /\
    ops_text ops1 = unlines ls /\ ops_text ops2 = unlines ls /\
    exists st1 out1 st2 out2,
      run_ops_v gt_test seeded_trim (ops1 ++ [OpFlushAll]) (new_mlr min_buf limit) [] = Ok (st1, out1) /\
      run_ops_v gt_test seeded_trim (ops2 ++ [OpFlushAll]) (new_mlr min_buf limit) [] = Ok (st2, out2) /\
      out1 <> out2 /\ out2 <> ls.
Proof.
  exists 13, 4, 4, [cr_line; cr_line], [OpRead cr_stream], [OpRead [62; 13; 10]%N; OpFlush; OpRead [62; 13; 10]%N].
  split; [lia|]. split; [vm_compute; lia|].
  split.
  { repeat constructor; unfold cr_line, nonl; cbn; try discriminate; try lia.
    all: intros [H|[H|[]]]; discriminate. }
  split; [repeat constructor; discriminate|]. split; [repeat constructor; discriminate|].
  split; [reflexivity|]. split; [reflexivity|].
  eexists _, _, _, _. split; [vm_compute; reflexivity|]. split; [vm_compute; reflexivity|].
  split; discriminate.
Qed.

(* trimming at all three sites: not exact either (a byte of the stream is lost) *)
Lemma cr_trim_all_not_exact_lemma :
  exists (min_buf limit b : nat) (fs : list bytes),
    1 <= limit /\ 2 * b + 1 + limit <= Nat.max min_buf (limit * 3) /\ seg_bound gt_test b (concat fs) /\
    exists st out,
      run_ops_v gt_test all_trim (map OpRead fs ++ [OpFlushAll]) (new_mlr min_buf limit) [] = Ok (st, out) /\
      forall dropped pad, unlines (out ++ dropped) <> concat fs ++ pad.
Proof.
  exists 13, 4, 4, [cr_stream].
  split; [lia|]. split; [vm_compute; lia|].
  split; [vm_compute; repeat constructor; lia|].
  eexists _, _. split; [vm_compute; reflexivity|].
  intros dropped pad. vm_compute. discriminate.
Qed.
