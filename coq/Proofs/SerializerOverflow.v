(* What encodeRecord does when the event does NOT fit the buffer it is given (since fix 413c995 SerializeRecord
   never gives it such a buffer: second half of this file).

   Every writer is followed through by lengths and positions only (contents do not matter here):
     - a writer made of byte stores ([put]) either has room and advances by its size, or panics;
     - a writer that ends in [copy] advances by min(size, room): it saturates at the end of the buffer;
     - from a saturated position every later byte store panics and every later copy copies nothing.
   Hence encodeRecord ends with  position = min(size of the event, len(buffer))  or panics, and
   position == len(buffer) makes it return 0 (the empty stream): a non-empty stream is never
   anything but the complete, correct event. *)
From SV Require Import Model.Common Model.Msgpack Model.Unescape Model.Serializer
     Spec.MsgpackSpec Spec.SerializerSpec Proofs.CommonFacts Proofs.MsgpackProofs Proofs.UnescapeProofs
     Proofs.SerializerProofs.
From Coq Require Import Lia ZifyBool ZifyN ZifyNat.
Ltac Zify.zify_post_hook ::= Z.div_mod_to_equations.
Open Scope N_scope.

(* ------------------------------------------------------------------ *)
(* shapes of results                                                   *)

(* a writer of k bytes made of byte stores: room or panic *)
Definition len_fit (r : outcome (bytes * nat)) (buf : bytes) (pos k : nat) : Prop :=
  match r with
  | Ok (b', p') => length b' = length buf /\ (pos + k <= length buf)%nat /\ p' = (pos + k)%nat
  | Panic _ => (length buf < pos + k)%nat
  | Err _ => False
  end.

(* a writer of k bytes that ends in copies: saturating *)
Definition len_sat (r : outcome (bytes * nat)) (buf : bytes) (pos k : nat) : Prop :=
  match r with
  | Ok (b', p') => length b' = length buf /\ p' = (pos + Nat.min k (length buf - pos))%nat
  | Panic _ => (length buf - pos < k)%nat
  | Err _ => False
  end.

Lemma len_fit_sat : forall r buf pos k, (pos <= length buf)%nat -> len_fit r buf pos k -> len_sat r buf pos k.
Proof.
  intros [[b p]| |] buf pos k Hp H; cbn in *; [|exact H|lia].
  destruct H as (A & B & C). split; [exact A|]. lia.
Qed.

(* ------------------------------------------------------------------ *)
(* primitives                                                          *)

Lemma put_len : forall buf i v,
  match put buf i v with
  | Ok b => length b = length buf /\ (i < length buf)%nat
  | Panic _ => (length buf <= i)%nat
  | Err _ => False
  end.
Proof.
  intros buf i v. destruct (Nat.lt_ge_cases i (length buf)) as [Hlt|Hge].
  - destruct (split_le buf i ltac:(lia)) as (pre & rest & -> & Hpre).
    destruct rest as [|x rest]; [rewrite app_length in Hlt; cbn in Hlt; lia|].
    rewrite (put_at pre x rest v i (eq_sym Hpre)). rewrite !app_length. cbn [length]. lia.
  - rewrite put_out_of_range by lia. exact Hge.
Qed.

Lemma blit_n : forall buf src, snd (blit buf src) = Nat.min (length src) (length buf).
Proof.
  induction buf as [|h t IH]; intros [|s src]; cbn [blit snd length]; try reflexivity.
  - specialize (IH src). destruct (blit t src) as [t' n]. cbn [snd] in *. lia.
Qed.

Lemma copy_at_opt_n : forall buf off src b n,
  copy_at_opt buf off src = Some (b, n) -> n = Nat.min (length src) (length buf - off).
Proof.
  induction buf as [|h t IH]; intros off src b n H.
  - destruct off; cbn [copy_at_opt] in H; [|discriminate].
    pose proof (blit_n [] src) as E. destruct (blit [] src) as [b' n']. inversion H; subst. cbn [snd length] in *. lia.
  - destruct off as [|off]; cbn [copy_at_opt] in H.
    + pose proof (blit_n (h :: t) src) as E. destruct (blit (h :: t) src) as [b' n']. inversion H; subst.
      cbn [snd] in E. lia.
    + destruct (copy_at_opt t off src) as [[t' n']|] eqn:E; [|discriminate]. inversion H; subst.
      apply IH in E. cbn [length]. lia.
Qed.

Lemma copy_at_opt_some : forall buf off src, (off <= length buf)%nat -> exists r, copy_at_opt buf off src = Some r.
Proof.
  induction buf as [|h t IH]; intros off src H.
  - cbn [length] in H. replace off with O by lia. cbn [copy_at_opt]. eexists. reflexivity.
  - destruct off as [|off]; cbn [copy_at_opt]; [eexists; reflexivity|].
    cbn [length] in H. destruct (IH off src ltac:(lia)) as [[t' n] E]. rewrite E. eexists. reflexivity.
Qed.

Lemma copy_at_opt_none : forall buf off src, (length buf < off)%nat -> copy_at_opt buf off src = None.
Proof.
  induction buf as [|h t IH]; intros off src H; destruct off as [|off]; cbn [length] in H; try lia; cbn [copy_at_opt].
  - reflexivity.
  - rewrite IH by lia. reflexivity.
Qed.

(* copy(buf[off:], src) *)
Lemma copy_at_len : forall buf off src,
  match copy_at buf off src with
  | Ok (b, n) => length b = length buf /\ (off <= length buf)%nat /\ n = Nat.min (length src) (length buf - off)
  | Panic _ => (length buf < off)%nat
  | Err _ => False
  end.
Proof.
  intros buf off src. unfold copy_at. destruct (Nat.le_gt_cases off (length buf)) as [Hle|Hgt].
  - destruct (copy_at_opt_some buf off src Hle) as [[b n] E]. rewrite E.
    pose proof (copy_at_opt_n _ _ _ _ _ E). pose proof (copy_at_opt_length _ _ _ _ _ E). lia.
  - rewrite copy_at_opt_none by lia. exact Hgt.
Qed.

(* ------------------------------------------------------------------ *)
(* writers made of byte stores                                         *)

Ltac put_step :=
  match goal with
  | |- context [put ?b ?i ?v] =>
      let P := fresh "P" in
      pose proof (put_len b i v) as P; destruct (put b i v) as [?b| |]; cbn [obind]; [|exact (False_ind _ P)|cbn; lia]
  end.

Lemma write2_fit : forall buf start n, len_fit (write2 buf start n) buf start 2.
Proof. intros. unfold write2. put_step. put_step. cbn. lia. Qed.

Lemma write4_fit : forall buf start n, len_fit (write4 buf start n) buf start 4.
Proof. intros. unfold write4. put_step. put_step. put_step. put_step. cbn. lia. Qed.

Lemma array_len4_fit : forall buf start n, len_fit (encode_array_len4 buf start n) buf start 1.
Proof. intros. unfold encode_array_len4. put_step. cbn. lia. Qed.

Lemma map_len4_fit : forall buf start n, len_fit (encode_map_len4 buf start n) buf start 1.
Proof. intros. unfold encode_map_len4. put_step. cbn. lia. Qed.

Lemma string_len4_fit : forall buf start n, len_fit (encode_string_len4 buf start n) buf start 1.
Proof. intros. unfold encode_string_len4. put_step. cbn. lia. Qed.

Lemma put_then_fit : forall buf start v k (W : bytes -> outcome (bytes * nat)),
  (forall b, len_fit (W b) b (start + 1) k) ->
  len_fit (b <-- put buf start v ;; W b) buf start (1 + k).
Proof.
  intros buf start v k W H. pose proof (put_len buf start v) as P.
  destruct (put buf start v) as [b1| |]; cbn [obind]; [|contradiction|cbn; lia].
  specialize (H b1). destruct (W b1) as [[b' p']| |]; cbn in *; lia.
Qed.

Lemma map_len16_fit : forall buf start n, len_fit (encode_map_len16 buf start n) buf start 3.
Proof. intros. unfold encode_map_len16. apply (put_then_fit buf start _ 2). intros b. apply write2_fit. Qed.

Lemma string_len16_fit : forall buf start n, len_fit (encode_string_len16 buf start n) buf start 3.
Proof. intros. unfold encode_string_len16. apply (put_then_fit buf start _ 2). intros b. apply write2_fit. Qed.

Lemma string_len32_fit : forall buf start n, len_fit (encode_string_len32 buf start n) buf start 5.
Proof. intros. unfold encode_string_len32. apply (put_then_fit buf start _ 4). intros b. apply write4_fit. Qed.

Lemma event_time_fit : forall buf start unix nsec, len_fit (encode_event_time buf start unix nsec) buf start 10.
Proof.
  intros. unfold encode_event_time, encode_ext_header8.
  pose proof (put_len buf start code_fixext8) as P1.
  destruct (put buf start code_fixext8) as [b1| |]; cbn [obind]; [|contradiction|cbn; lia].
  pose proof (put_len b1 (start + 1) 0) as P2.
  destruct (put b1 (start + 1) 0) as [b2| |]; cbn [obind]; [|contradiction|cbn; lia].
  pose proof (write4_fit b2 (start + 2) (Z.to_N (unix mod 4294967296))) as W1.
  destruct (write4 b2 (start + 2) (Z.to_N (unix mod 4294967296))) as [[b3 p3]| |]; cbn [obind len_fit] in *; [|lia|lia].
  destruct W1 as (L1 & F1 & ->).
  pose proof (write4_fit b3 (start + 2 + 4) (Z.to_N (nsec mod 4294967296))) as W2.
  destruct (write4 b3 (start + 2 + 4) (Z.to_N (nsec mod 4294967296))) as [[b4 p4]| |]; cbn in *; lia.
Qed.

(* ------------------------------------------------------------------ *)
(* strings: header, then a copy                                        *)

Lemma encode_string_with_sat : forall hdr k buf start s,
  (forall b st n, len_fit (hdr b st n) b st k) ->
  (start <= length buf)%nat ->
  len_sat (encode_string_with hdr buf start s) buf start (k + length s).
Proof.
  intros hdr k buf start s H Hs. unfold encode_string_with.
  pose proof (H buf start (length s)) as Hh. destruct (hdr buf start (length s)) as [[b p]| |]; cbn [obind len_fit len_sat] in *; [|exact Hh|lia].
  destruct Hh as (L & F & ->).
  pose proof (copy_at_len b (start + k) s) as C. destruct (copy_at b (start + k) s) as [[b' n]| |]; cbn [obind len_sat] in *; lia.
Qed.

Lemma enc_str_len : forall s, length (enc_str s) = (length (str_header (length s)) + length s)%nat.
Proof. intros. unfold enc_str. apply app_length. Qed.

Lemma encode_string_auto_sat : forall buf start s,
  (start <= length buf)%nat -> len_sat (encode_string_auto buf start s) buf start (length (enc_str s)).
Proof.
  intros buf start s Hs. rewrite enc_str_len, str_header_length. unfold encode_string_auto.
  destruct (N.of_nat (length s) <? 16).
  - apply encode_string_with_sat; [apply string_len4_fit | exact Hs].
  - destruct (N.of_nat (length s) <? 65536).
    + apply encode_string_with_sat; [apply string_len16_fit | exact Hs].
    + apply encode_string_with_sat; [apply string_len32_fit | exact Hs].
Qed.

(* ------------------------------------------------------------------ *)
(* RunToBuffer                                                         *)

(* results of a writer into a window [dst] from index [di] *)
Definition win_sat (r : outcome (bytes * nat)) (dst : bytes) (di k : nat) : Prop :=
  match r with
  | Ok (d', n) => length d' = length dst /\ n = (di + Nat.min k (length dst - di))%nat
  | Panic _ => (length dst - di < k)%nat
  | Err _ => False
  end.

Section LoopLen.
  Variable u : unescaper.
  Let esc := u_esc u.
  Let ref := unescape_ref (u_esc u) (tr_of u).

  Lemma unescape_loop_sat : forall fuel done rest dst di,
    (rest = [] \/ exists r, rest = esc :: r) ->
    (length rest <= fuel)%nat ->
    (di <= length dst)%nat ->
    win_sat (unescape_loop fuel u (done ++ rest) (length (done ++ rest)) (length done) dst di)
            dst di (length (ref rest)).
  Proof.
    induction fuel as [|fuel IH]; intros done rest dst di Hrest Hfuel Hdi.
    - assert (rest = []) by (destruct rest; [reflexivity|cbn [length] in Hfuel; lia]). subst rest.
      cbn [unescape_loop]. rewrite app_nil_r.
      replace (length done + 1 <? length done)%nat with false by lia.
      replace (length done <? length done)%nat with false by lia.
      subst ref. cbn. lia.
    - destruct Hrest as [-> | [r ->]].
      + cbn [unescape_loop]. rewrite app_nil_r.
        replace (length done + 1 <? length done)%nat with false by lia.
        replace (length done <? length done)%nat with false by lia.
        subst ref. cbn. lia.
      + destruct r as [|val rest2].
        * cbn [unescape_loop].
          replace (length done + 1 <? length (done ++ [esc]))%nat with false by (rewrite app_length; cbn [length]; lia).
          replace (length done <? length (done ++ [esc]))%nat with true by (rewrite app_length; cbn [length]; lia).
          rewrite <- (app_nil_r (done ++ [esc])) at 1. rewrite <- app_assoc.
          rewrite (src_slice_mid done [esc] []) by (rewrite ?app_length; cbn [length]; lia || reflexivity).
          cbn [obind].
          pose proof (copy_at_len dst di [esc]) as C. destruct (copy_at dst di [esc]) as [[d' n]| |]; cbn [obind win_sat] in *; [|exact C|lia].
          subst ref. cbn [unescape_ref]. subst esc. rewrite N.eqb_refl. cbn [length] in *. lia.
        * destruct (index_byte_split esc rest2) as (chunk & rest3 & -> & Hchunk & Hcase).
          remember (length (done ++ esc :: val :: chunk ++ rest3)) as len eqn:Hlen.
          cbn [unescape_loop].
          replace (length done + 1 <? len)%nat with true by (subst len; rewrite app_length; cbn [length]; lia).
          replace (done ++ esc :: val :: chunk ++ rest3) with ((done ++ [esc]) ++ val :: chunk ++ rest3)
            by (rewrite <- app_assoc; reflexivity).
          replace (length done + 1)%nat with (length (done ++ [esc])) by (rewrite app_length; reflexivity).
          rewrite src_at_app. cbn [obind].
          assert (Href : length (ref (esc :: val :: chunk ++ rest3))
                         = ((if (u_map u val =? 0)%N then 2 else 1) + length chunk + length (ref rest3))%nat).
          { subst ref. cbn [unescape_ref]. subst esc. rewrite N.eqb_refl.
            rewrite unescape_ref_noesc_app by assumption. unfold tr_of.
            destruct (u_map u val =? 0); cbn [length]; rewrite app_length; lia. }
          rewrite Href. clear Href.
          (* the byte stores *)
          assert (Hput : win_sat
            (if u_map u val =? 0
             then d1 <-- put dst di (u_esc u) ;; d2 <-- put d1 (di + 1) val ;; Ok (d2, (di + 2)%nat)
             else d1 <-- put dst di (u_map u val) ;; Ok (d1, (di + 1)%nat))
            dst di (if u_map u val =? 0 then 2%nat else 1%nat)
            /\ match (if u_map u val =? 0
             then d1 <-- put dst di (u_esc u) ;; d2 <-- put d1 (di + 1) val ;; Ok (d2, (di + 2)%nat)
             else d1 <-- put dst di (u_map u val) ;; Ok (d1, (di + 1)%nat)) with
               | Ok (_, n) => (n <= length dst)%nat | _ => True end).
          { destruct (u_map u val =? 0).
            - pose proof (put_len dst di (u_esc u)) as P1. destruct (put dst di (u_esc u)) as [d1| |]; cbn [obind win_sat]; [|contradiction|split; [lia|exact I]].
              pose proof (put_len d1 (di + 1) val) as P2. destruct (put d1 (di + 1) val) as [d2| |]; cbn [obind win_sat]; [|contradiction|split; [lia|exact I]].
              lia.
            - pose proof (put_len dst di (u_map u val)) as P1. destruct (put dst di (u_map u val)) as [d1| |]; cbn [obind win_sat]; [|contradiction|split; [lia|exact I]].
              lia. }
          destruct Hput as [Hput Hput2].
          destruct (if u_map u val =? 0
             then d1 <-- put dst di (u_esc u) ;; d2 <-- put d1 (di + 1) val ;; Ok (d2, (di + 2)%nat)
             else d1 <-- put dst di (u_map u val) ;; Ok (d1, (di + 1)%nat)) as [[d1 di1]| |]; cbn [obind win_sat] in *; [|contradiction|lia].
          destruct Hput as [Ld1 Edi1].
          replace ((done ++ [esc]) ++ val :: chunk ++ rest3) with ((done ++ [esc; val]) ++ (chunk ++ rest3) ++ [])
            by (rewrite <- !app_assoc; rewrite app_nil_r; reflexivity).
          rewrite (src_slice_mid (done ++ [esc; val]) (chunk ++ rest3) [])
            by (subst len; rewrite ?app_length; cbn [length]; rewrite ?app_length; lia).
          cbn [obind].
          assert (Hn : match index_byte (chunk ++ rest3) (u_esc u) with
                       | Some n => n
                       | None => (len - (length done + 2))%nat
                       end = length chunk).
          { destruct Hcase as [[-> E] | [_ E]]; fold esc; rewrite E; [|reflexivity].
            subst len. rewrite !app_length. cbn [length]. rewrite app_nil_r. lia. }
          rewrite Hn. clear Hn.
          replace ((done ++ [esc; val]) ++ (chunk ++ rest3) ++ []) with ((done ++ [esc; val]) ++ chunk ++ rest3)
            by (rewrite app_nil_r; reflexivity).
          rewrite (src_slice_mid (done ++ [esc; val]) chunk rest3) by (rewrite ?app_length; cbn [length]; lia).
          cbn [obind].
          pose proof (copy_at_len d1 di1 chunk) as C. destruct (copy_at d1 di1 chunk) as [[d2 k]| |]; cbn [obind]; [|contradiction|cbn; lia].
          destruct C as (Ld2 & Hdi1 & Ek).
          replace ((done ++ [esc; val]) ++ chunk ++ rest3) with ((done ++ esc :: val :: chunk) ++ rest3)
            by (rewrite <- !app_assoc; reflexivity).
          replace (length done + 2 + length chunk)%nat with (length (done ++ esc :: val :: chunk))
            by (rewrite !app_length; cbn [length]; lia).
          assert (Hlen' : len = length ((done ++ esc :: val :: chunk) ++ rest3))
            by (subst len; rewrite <- !app_assoc; reflexivity).
          rewrite Hlen'.
          assert (Hr3 : rest3 = [] \/ exists r, rest3 = esc :: r)
            by (destruct Hcase as [[-> _] | [Hr _]]; [left; reflexivity | right; exact Hr]).
          assert (Hf3 : (length rest3 <= fuel)%nat) by (cbn [length] in Hfuel; rewrite app_length in Hfuel; lia).
          pose proof (IH (done ++ esc :: val :: chunk) rest3 d2 (di1 + k)%nat Hr3 Hf3 ltac:(lia)) as R.
          destruct (unescape_loop fuel u ((done ++ esc :: val :: chunk) ++ rest3)
                      (length ((done ++ esc :: val :: chunk) ++ rest3)) (length (done ++ esc :: val :: chunk)) d2 (di1 + k))
            as [[d3 n3]| |]; cbn [win_sat] in *; [|exact R|].
          -- destruct (u_map u val =? 0); lia.
          -- destruct (u_map u val =? 0); lia.
  Qed.
End LoopLen.

Lemma run_to_buffer_sat : forall u src first dst,
  find_first u src = Some first ->
  win_sat (run_to_buffer u src first dst) dst 0 (length (unescape_ref (u_esc u) (tr_of u) src)).
Proof.
  intros u src first dst Hf. unfold find_first in Hf.
  destruct (index_byte_split (u_esc u) src) as (chunk & rest & -> & Hchunk & Hcase).
  destruct Hcase as [[_ E] | [Hr E]]; rewrite E in Hf; [discriminate|]. inversion Hf; subst first.
  rewrite unescape_ref_noesc_app by assumption. rewrite app_length.
  unfold run_to_buffer.
  rewrite (src_slice_mid [] chunk rest) by reflexivity. cbn [obind].
  pose proof (copy_at_len dst 0 chunk) as C. destruct (copy_at dst 0 chunk) as [[d1 k]| |]; cbn [obind win_sat]; [|contradiction|lia].
  destruct C as (L1 & _ & Ek).
  pose proof (unescape_loop_sat u (length (chunk ++ rest)) chunk rest d1 k (or_intror Hr)
                ltac:(rewrite app_length; lia) ltac:(lia)) as R.
  destruct (unescape_loop (length (chunk ++ rest)) u (chunk ++ rest) (length (chunk ++ rest)) (length chunk) d1 k)
    as [[d2 n]| |]; cbn [win_sat] in *; lia.
Qed.

(* ------------------------------------------------------------------ *)
(* rewriters                                                           *)

Lemma copy_at_0_sat : forall dst src, win_sat (copy_at dst 0 src) dst 0 (length src).
Proof.
  intros dst src. pose proof (copy_at_len dst 0 src) as C.
  destruct (copy_at dst 0 src) as [[d n]| |]; cbn [win_sat] in *; lia.
Qed.

Section RewritersLen.
  Variable schema : list bytes.

  Definition rewriter_sat (rw : rewriter) (ch : list rewriter_cfg) : Prop :=
    forall rec value dst, (length schema <= length (r_fields rec))%nat ->
      win_sat (write_field_body rw value rec dst) dst 0
              (length (rewrite_spec schema (r_fields rec) (r_unescaped rec) ch value)).

  Lemma verified_rewriters_sat : forall ch,
    ch <> [] -> verify_rewriters schema ch = true ->
    forall rw, new_rewriters schema ch = Ok (Some rw) -> rewriter_sat rw ch.
  Proof.
    induction ch as [|rc rest IH]; intros Hne V rw Hnew; [contradiction|].
    cbn [verify_rewriters] in V. apply andb_true_iff in V. destruct V as [V1 V2].
    destruct rc as [| |f]; cbn [verify_rewriter] in V1.
    - destruct rest as [|? ?]; [|discriminate]. cbn in Hnew. inversion Hnew; subst rw.
      intros rec value dst L. cbn [write_field_body rewrite_spec]. apply copy_at_0_sat.
    - destruct rest as [|? ?]; [|discriminate]. cbn in Hnew. inversion Hnew; subst rw.
      intros rec value dst L. cbn [write_field_body rewrite_spec].
      destruct (r_unescaped rec); [apply copy_at_0_sat|].
      rewrite <- unescape_syslog_eq.
      destruct (find_first syslog_unescaper value) as [first|] eqn:F.
      + apply run_to_buffer_sat. exact F.
      + rewrite find_first_none_ref by assumption. apply copy_at_0_sat.
    - apply andb_true_iff in V1. destruct V1 as [V1 Vf]. apply andb_true_iff in V1. destruct V1 as [Vn Ve].
      assert (Hrest : rest <> []) by (destruct rest; discriminate).
      cbn [new_rewriters] in Hnew.
      destruct (new_rewriters schema rest) as [[nx|]| |] eqn:Enx; cbn [obind] in Hnew; try discriminate.
      destruct (index_of schema f) as [loc|] eqn:Eloc; [|discriminate].
      inversion Hnew; subst rw. clear Hnew.
      specialize (IH Hrest V2 nx eq_refl).
      intros rec value dst L. cbn [write_field_body rewrite_spec].
      rewrite (get_field_value schema (r_fields rec) f loc Eloc L). cbn [obind].
      destruct (is_nil (field_value schema (r_fields rec) f)) eqn:En; [apply IH; exact L|].
      destruct (index_of_nth _ _ _ Eloc) as [Hnth _]. rewrite Hnth.
      set (fv := field_value schema (r_fields rec) f) in *.
      set (out := rewrite_spec schema (r_fields rec) (r_unescaped rec) rest value) in *.
      rewrite !app_length. cbn [length].
      pose proof (copy_at_len dst 0 (f ++ [61])) as C1.
      destruct (copy_at dst 0 (f ++ [61])) as [[d1 e1]| |]; cbn [obind win_sat]; [|contradiction|lia].
      destruct C1 as (L1 & _ & E1). rewrite app_length in E1. cbn [length] in E1.
      pose proof (copy_at_len d1 e1 fv) as C2.
      destruct (copy_at d1 e1 fv) as [[d2 e2]| |]; cbn [obind win_sat]; [|contradiction|lia].
      destruct C2 as (L2 & _ & E2).
      pose proof (copy_at_len d2 (e1 + e2) [32]) as C3.
      destruct (copy_at d2 (e1 + e2) [32]) as [[d3 e3]| |]; cbn [obind win_sat]; [|contradiction|lia].
      destruct C3 as (L3 & _ & E3). cbn [length] in E3.
      unfold window. replace (e1 + e2 + e3 <=? length d3)%nat with true by lia. cbn [obind].
      specialize (IH rec value (skipn (e1 + e2 + e3) d3) L). fold out in IH.
      assert (Lsub : length (skipn (e1 + e2 + e3) d3) = (length dst - (e1 + e2 + e3))%nat) by (rewrite skipn_length; lia).
      destruct (write_field_body nx value rec (skipn (e1 + e2 + e3) d3)) as [[sub n]| |]; cbn [obind win_sat] in *;
        [|contradiction|lia].
      unfold unwindow. rewrite app_length, firstn_length. lia.
  Qed.
End RewritersLen.

(* ------------------------------------------------------------------ *)
(* one rewritten value                                                 *)

Lemma encode_rewritten_sat : forall schema head ch value rec buf pos,
  rewriter_meets schema head ch -> rewriter_sat schema head ch ->
  (length schema <= length (r_fields rec))%nat -> (pos <= length buf)%nat ->
  let out := rewrite_spec schema (r_fields rec) (r_unescaped rec) ch value in
  len_sat (encode_rewritten head value rec buf pos) buf pos
          (length (rw_header (rewrite_max schema (r_fields rec) ch value) (length out) ++ out)).
Proof.
  intros schema head ch value rec buf pos M S L Hp out.
  destruct (M rec value L) as [Mmax _]. specialize (S rec value). fold out in S.
  rewrite app_length, rw_header_length.
  set (maxlen := rewrite_max schema (r_fields rec) ch value) in *.
  unfold encode_rewritten. rewrite Mmax. cbn [obind].
  destruct (N.of_nat maxlen <? 65536) eqn:Esmall.
  - pose proof (string_len16_fit buf pos maxlen) as H1.
    destruct (encode_string_len16 buf pos maxlen) as [[b1 p1]| |]; cbn [obind len_fit len_sat] in *; [|contradiction|lia].
    destruct H1 as (L1 & F1 & ->).
    unfold window. replace (pos + 3 <=? length b1)%nat with true by lia. cbn [obind].
    specialize (S (skipn (pos + 3) b1) L).
    assert (Lw : length (skipn (pos + 3) b1) = (length buf - (pos + 3))%nat) by (rewrite skipn_length; lia).
    destruct (write_field_body head value rec (skipn (pos + 3) b1)) as [[win actual]| |]; cbn [obind win_sat len_sat] in *;
      [|contradiction|lia].
    destruct S as (Lwin & Eact).
    assert (Lu : length (unwindow b1 (pos + 3) win) = length buf)
      by (unfold unwindow; rewrite app_length, firstn_length; lia).
    destruct (actual =? maxlen)%nat; cbn [obind len_sat].
    + lia.
    + pose proof (string_len16_fit (unwindow b1 (pos + 3) win) pos actual) as H2.
      destruct (encode_string_len16 (unwindow b1 (pos + 3) win) pos actual) as [[b2 p2]| |]; cbn [obind len_fit len_sat] in *; lia.
  - pose proof (string_len32_fit buf pos maxlen) as H1.
    destruct (encode_string_len32 buf pos maxlen) as [[b1 p1]| |]; cbn [obind len_fit len_sat] in *; [|contradiction|lia].
    destruct H1 as (L1 & F1 & ->).
    unfold window. replace (pos + 5 <=? length b1)%nat with true by lia. cbn [obind].
    specialize (S (skipn (pos + 5) b1) L).
    assert (Lw : length (skipn (pos + 5) b1) = (length buf - (pos + 5))%nat) by (rewrite skipn_length; lia).
    destruct (write_field_body head value rec (skipn (pos + 5) b1)) as [[win actual]| |]; cbn [obind win_sat len_sat] in *;
      [|contradiction|lia].
    destruct S as (Lwin & Eact).
    assert (Lu : length (unwindow b1 (pos + 5) win) = length buf)
      by (unfold unwindow; rewrite app_length, firstn_length; lia).
    destruct (actual =? maxlen)%nat; cbn [obind len_sat].
    + lia.
    + pose proof (string_len32_fit (unwindow b1 (pos + 5) win) pos actual) as H2.
      destruct (encode_string_len32 (unwindow b1 (pos + 5) win) pos actual) as [[b2 p2]| |]; cbn [obind len_fit len_sat] in *; lia.
Qed.

(* ------------------------------------------------------------------ *)
(* the loops                                                           *)

Definition fields_sat (r : outcome (bytes * nat * nat)) (buf : bytes) (pos k : nat) : Prop :=
  match r with
  | Ok (b', p', _) => length b' = length buf /\ p' = (pos + Nat.min k (length buf - pos))%nat
  | Panic _ => (length buf - pos < k)%nat
  | Err _ => False
  end.

Section LoopsLen.
  Variables (schema : list bytes) (cfg : ser_config) (rec : record).
  Hypothesis Hlen : (length schema <= length (r_fields rec))%nat.
  Hypothesis Hver : forall name ch,
    lookup_rewrite (c_rewrite cfg) name = Some ch -> verify_rewriters schema ch = true.

  Lemma encode_value_sat : forall n v rwopt buf pos,
    match lookup_rewrite (c_rewrite cfg) n with
    | None => Ok None
    | Some chain => new_rewriters schema chain
    end = Ok rwopt ->
    (pos <= length buf)%nat ->
    len_sat match rwopt with
            | Some head => encode_rewritten head v rec buf pos
            | None => encode_string_auto buf pos v
            end buf pos (length (enc_value schema cfg rec n v)).
  Proof.
    intros n v rwopt buf pos Hrw Hp. unfold enc_value. rewrite chain_of_lookup.
    destruct (lookup_rewrite (c_rewrite cfg) n) as [[|rc ch]|] eqn:EL.
    - cbn [new_rewriters] in Hrw. inversion Hrw; subst. apply encode_string_auto_sat. exact Hp.
    - destruct (verified_rewriters_spec schema (rc :: ch) ltac:(discriminate) (Hver _ _ EL)) as (rw & Hnew & M).
      rewrite Hnew in Hrw. inversion Hrw; subst.
      apply (encode_rewritten_sat schema rw (rc :: ch) v rec buf pos M); try assumption.
      apply (verified_rewriters_sat schema (rc :: ch) ltac:(discriminate) (Hver _ _ EL) rw Hnew).
    - inversion Hrw; subst. apply encode_string_auto_sat. exact Hp.
  Qed.

  Lemma encode_fields_sat : forall names fields rws buf pos cnt,
    length fields = length names ->
    build_rewriters schema cfg names = Ok rws ->
    (pos <= length buf)%nat ->
    fields_sat (encode_fields (map (mask_of cfg) names) (map enc_str names) rws fields rec buf pos cnt)
               buf pos (length (flat_map (field_bytes schema cfg rec) (combine names fields))).
  Proof.
    induction names as [|n names IH]; intros fields rws buf pos cnt Hl Hb Hp.
    - destruct fields; [|discriminate]. cbn. lia.
    - destruct fields as [|v fields]; [discriminate|]. cbn [length] in Hl.
      cbn [build_rewriters] in Hb.
      destruct (match lookup_rewrite (c_rewrite cfg) n with
                | Some chain => new_rewriters schema chain
                | None => Ok None
                end) as [rwopt| |] eqn:Erw; cbn [obind] in Hb; try discriminate.
      destruct (build_rewriters schema cfg names) as [rws'| |] eqn:Eb; cbn [obind] in Hb; try discriminate.
      inversion Hb; subst rws. clear Hb.
      cbn [combine flat_map map encode_fields].
      rewrite field_bytes_pair. rewrite mask_of_hidden.
      destruct (is_hidden cfg n || is_nil v) eqn:Emask.
      + cbn [app]. apply IH; (assumption || reflexivity || lia).
      + rewrite !app_length.
        pose proof (copy_at_len buf pos (enc_str n)) as C.
        destruct (copy_at buf pos (enc_str n)) as [[b1 k1]| |]; cbn [obind fields_sat]; [|contradiction|lia].
        destruct C as (L1 & _ & E1).
        pose proof (encode_value_sat n v rwopt b1 (pos + k1) Erw ltac:(lia)) as Vs.
        destruct (match rwopt with
                  | Some head => encode_rewritten head v rec b1 (pos + k1)
                  | None => encode_string_auto b1 (pos + k1) v
                  end) as [[b2 p2]| |]; cbn [obind fields_sat len_sat] in *; [|contradiction|lia].
        destruct Vs as (L2 & E2).
        pose proof (IH fields rws' b2 p2 (S cnt) ltac:(lia) eq_refl ltac:(lia)) as R.
        destruct (encode_fields (map (mask_of cfg) names) (map enc_str names) rws' fields rec b2 p2 (S cnt))
          as [[[b3 p3] c3]| |]; cbn [fields_sat] in *; lia.
  Qed.

  (* a position behind the buffer: the first visible field panics; without one nothing happens *)
  Lemma encode_fields_beyond : forall names fields rws buf pos cnt,
    (length buf < pos)%nat ->
    match encode_fields (map (mask_of cfg) names) (map enc_str names) rws fields rec buf pos cnt with
    | Ok r => r = (buf, pos, cnt)
    | Panic _ => True
    | Err _ => False
    end.
  Proof.
    induction names as [|n names IH]; intros fields rws buf pos cnt Hp.
    - destruct fields; cbn; [reflexivity|exact I].
    - destruct fields as [|v fields]; [cbn; reflexivity|].
      cbn [map encode_fields]. destruct rws as [|rw rws]; [exact I|].
      destruct (mask_of cfg n || is_nil v).
      + apply IH. exact Hp.
      + pose proof (copy_at_len buf pos (enc_str n)) as C.
        destruct (copy_at buf pos (enc_str n)) as [[b1 k1]| |]; cbn [obind]; [lia|contradiction|exact I].
  Qed.

  Lemma encode_env_sat : forall names locs fields buf pos,
    (length schema <= length fields)%nat ->
    locate_all schema names = Ok locs ->
    (pos <= length buf)%nat ->
    len_sat (encode_env locs (map enc_str names) fields buf pos) buf pos
            (length (flat_map (env_bytes schema fields) names)).
  Proof.
    induction names as [|n names IH]; intros locs fields buf pos Hf Hloc Hp.
    - cbn [locate_all] in Hloc. inversion Hloc; subst. cbn. lia.
    - cbn [locate_all] in Hloc. destruct (index_of schema n) as [loc|] eqn:Eloc; [|discriminate].
      destruct (locate_all schema names) as [locs'| |] eqn:El; cbn [obind] in Hloc; try discriminate.
      inversion Hloc; subst locs. clear Hloc.
      cbn [flat_map map encode_env].
      change (env_bytes schema fields n) with (enc_str n ++ enc_str (field_value schema fields n)).
      rewrite !app_length.
      pose proof (copy_at_len buf pos (enc_str n)) as C.
      destruct (copy_at buf pos (enc_str n)) as [[b1 k1]| |]; cbn [obind len_sat]; [|contradiction|lia].
      destruct C as (L1 & _ & E1).
      rewrite (get_field_value schema fields n loc Eloc Hf). cbn [obind].
      pose proof (encode_string_auto_sat b1 (pos + k1) (field_value schema fields n) ltac:(lia)) as Vs.
      destruct (encode_string_auto b1 (pos + k1) (field_value schema fields n)) as [[b2 p2]| |];
        cbn [obind len_sat] in *; [|contradiction|lia].
      destruct Vs as (L2 & E2).
      pose proof (IH locs' fields b2 p2 Hf eq_refl ltac:(lia)) as R.
      destruct (encode_env locs' (map enc_str names) fields b2 p2) as [[b3 p3]| |]; cbn [len_sat] in *; lia.
  Qed.
End LoopsLen.

(* ------------------------------------------------------------------ *)
(* SerializeRecord never emits anything but the complete event          *)

Lemma src_slice_zero : forall buf, src_slice buf 0 0 = Ok [].
Proof. intros. unfold src_slice, slice. cbn. reflexivity. Qed.

(* when the event is at least as long as the buffer: the empty stream or a panic, nothing else *)
Lemma overflow_lemma : forall schema cfg rec B ser buffer,
  chains_ok schema cfg ->
  (length schema <= length (r_fields rec))%nat ->
  new_serializer schema cfg B = Ok ser ->
  (length buffer <= length (encode_spec schema cfg rec))%nat ->
  match serialize_on ser rec buffer with
  | Ok stream => stream = []
  | Panic _ => True
  | Err _ => False
  end.
Proof.
  intros schema cfg rec B ser buffer V L Hnew Hbig.
  destruct (new_serializer_inv _ _ _ _ Hnew) as (Hm & Hk & Hek & Hloc & Hrw & Hb).
  pose proof V as Hver.
  pose proof (locate_all_length _ _ _ Hloc) as Hnloc.
  unfold serialize_on, encode_record_on. rewrite Hm, Hk, Hek, Hnloc. rewrite map_length.
  replace (length schema <=? length (r_fields rec))%nat with true by lia. cbn [obind].
  set (fields := firstn (length schema) (r_fields rec)) in *.
  assert (Hfl : length fields = length schema) by (subst fields; rewrite firstn_length; lia).
  rewrite Hfl.
  (* the size of the event, by pieces *)
  set (F := flat_map (field_bytes schema cfg rec) (combine schema fields)) in *.
  set (E := flat_map (env_bytes schema fields) (c_env cfg)) in *.
  set (mhl := if N.of_nat (length schema + 1) <? 16 then 1%nat else 3%nat).
  set (ehl := if N.of_nat (length (c_env cfg)) <? 16 then 1%nat else 3%nat).
  assert (Hsize : length (encode_spec schema cfg rec) = (1 + 10 + mhl + length F + 12 + ehl + length E)%nat).
  { unfold encode_spec. rewrite enc_fields_as_loop, enc_env_as_loop. fold fields. fold F. fold E.
    rewrite !app_length. rewrite !map_header_length. fold mhl. fold ehl. cbn [length].
    change (length (event_time_bytes rec)) with 8%nat. change (length (enc_str str_environment)) with 12%nat. lia. }
  rewrite Hsize in Hbig. clear Hsize.
  (* root array, event time *)
  pose proof (array_len4_fit buffer 0 2) as H1.
  destruct (encode_array_len4 buffer 0 2) as [[b1 p1]| |]; cbn [obind len_fit] in *; [|contradiction|exact I].
  destruct H1 as (L1 & F1 & ->).
  pose proof (event_time_fit b1 (0 + 1) (r_unix rec) (r_nsec rec)) as H2.
  destruct (encode_event_time b1 (0 + 1) (r_unix rec) (r_nsec rec)) as [[b2 p2]| |]; cbn [obind len_fit] in *;
    [|contradiction|exact I].
  destruct H2 as (L2 & F2 & ->).
  (* the reserved slot *)
  assert (Hres' : (if N.of_nat (length schema + 1) <? 16 then reserve_len4 (0 + 1 + 10) else reserve_len16 (0 + 1 + 10))
                  = (11 + mhl)%nat).
  { subst mhl. destruct (N.of_nat (length schema + 1) <? 16); reflexivity. }
  rewrite Hres'. clear Hres'.
  destruct (Nat.lt_ge_cases (length b2) (11 + mhl)) as [Hbeyond|Hroom].
  - (* the slot itself is behind the buffer: the patch panics *)
    pose proof (encode_fields_beyond schema cfg rec L Hver schema fields (s_rewriters ser) b2 (11 + mhl)%nat 1%nat Hbeyond) as R.
    destruct (encode_fields (map (mask_of cfg) schema) (map enc_str schema) (s_rewriters ser) fields rec b2 (11 + mhl) 1)
      as [[[b3 p3] c3]| |]; cbn [obind]; [|contradiction|exact I]. inversion R; subst b3 p3 c3.
    subst mhl. destruct (N.of_nat (length schema + 1) <? 16).
    + pose proof (map_len4_fit b2 (0 + 1 + 10) 1) as P.
      destruct (encode_map_len4 b2 (0 + 1 + 10) 1) as [[b4 p4]| |]; cbn [obind len_fit] in *; [lia|contradiction|exact I].
    + pose proof (map_len16_fit b2 (0 + 1 + 10) 1) as P.
      destruct (encode_map_len16 b2 (0 + 1 + 10) 1) as [[b4 p4]| |]; cbn [obind len_fit] in *; [lia|contradiction|exact I].
  - (* the fields *)
    pose proof (encode_fields_sat schema cfg rec L Hver schema fields (s_rewriters ser) b2 (11 + mhl)%nat 1%nat Hfl Hrw Hroom) as R.
    fold F in R.
    destruct (encode_fields (map (mask_of cfg) schema) (map enc_str schema) (s_rewriters ser) fields rec b2 (11 + mhl) 1)
      as [[[b3 p3] c3]| |]; cbn [obind fields_sat] in *; [|contradiction|exact I].
    destruct R as (L3 & E3).
    (* the patch of the root map header: inside the buffer *)
    assert (Hpatch : exists b4 q4,
              (if N.of_nat (length schema + 1) <? 16 then encode_map_len4 b3 (0 + 1 + 10) c3 else encode_map_len16 b3 (0 + 1 + 10) c3)
              = Ok (b4, q4) /\ length b4 = length b3).
    { subst mhl. destruct (N.of_nat (length schema + 1) <? 16).
      - pose proof (map_len4_fit b3 (0 + 1 + 10) c3) as P.
        destruct (encode_map_len4 b3 (0 + 1 + 10) c3) as [[b4 q4]| |]; cbn [len_fit] in *; [|contradiction|lia].
        exists b4, q4. split; [reflexivity|lia].
      - pose proof (map_len16_fit b3 (0 + 1 + 10) c3) as P.
        destruct (encode_map_len16 b3 (0 + 1 + 10) c3) as [[b4 q4]| |]; cbn [len_fit] in *; [|contradiction|lia].
        exists b4, q4. split; [reflexivity|lia]. }
    destruct Hpatch as (b4 & q4 & Ep & L4). rewrite Ep. cbn [obind].
    (* "environment" *)
    pose proof (encode_string_with_sat encode_string_len4 1 b4 p3 str_environment string_len4_fit ltac:(lia)) as H5.
    change (encode_string_with encode_string_len4) with encode_string4 in H5.
    destruct (encode_string4 b4 p3 str_environment) as [[b5 p5]| |]; cbn [obind len_sat] in *; [|contradiction|exact I].
    destruct H5 as (L5 & E5). change (length str_environment) with 11%nat in E5.
    (* the nested map header *)
    assert (H6 : len_fit (if N.of_nat (length (c_env cfg)) <? 16 then encode_map_len4 b5 p5 (length (c_env cfg))
                          else encode_map_len16 b5 p5 (length (c_env cfg))) b5 p5 ehl).
    { subst ehl. destruct (N.of_nat (length (c_env cfg)) <? 16); [apply map_len4_fit | apply map_len16_fit]. }
    destruct (if N.of_nat (length (c_env cfg)) <? 16 then encode_map_len4 b5 p5 (length (c_env cfg))
              else encode_map_len16 b5 p5 (length (c_env cfg))) as [[b6 p6]| |]; cbn [obind len_fit] in *;
      [|contradiction|exact I].
    destruct H6 as (L6 & F6 & ->).
    (* the environment fields *)
    pose proof (encode_env_sat schema cfg rec L Hver (c_env cfg) (s_env_locs ser) fields b6 (p5 + ehl)%nat ltac:(lia) Hloc ltac:(lia)) as H7.
    fold E in H7.
    destruct (encode_env (s_env_locs ser) (map enc_str (c_env cfg)) fields b6 (p5 + ehl)) as [[b7 p7]| |];
      cbn [obind len_sat] in *; [|contradiction|exact I].
    destruct H7 as (L7 & E7).
    (* the event is at least as long as the buffer: the position ends at its end *)
    replace (p7 =? length b7)%nat with true by lia.
    cbn [obind]. rewrite src_slice_zero. reflexivity.
Qed.

(* encodeRecord on ANY buffer is total (Ok or panic, the unescape loop never runs out of fuel); a panic happens only
   when the event does not fit; and a stream that is emitted is empty or the complete event - never a truncated one.
   (Before fix 413c995 this was all that could be said of SerializeRecord; it still describes encodeRecord, i.e.
   what would happen if maxEncodedLength were ever too small.) *)
Theorem encode_record_never_garbage_lemma : forall schema cfg rec B ser buffer,
  chains_ok schema cfg ->
  (length schema <= length (r_fields rec))%nat ->
  new_serializer schema cfg B = Ok ser ->
  match serialize_on ser rec buffer with
  | Ok stream => stream = [] \/ stream = encode_spec schema cfg rec
  | Panic _ => (length buffer <= length (encode_spec schema cfg rec))%nat
  | Err _ => False
  end.
Proof.
  intros schema cfg rec B ser buffer V L Hnew.
  destruct (Nat.lt_ge_cases (length (encode_spec schema cfg rec)) (length buffer)) as [Hfit|Hbig].
  - rewrite (serialize_on_spec schema cfg rec B ser buffer V L Hnew Hfit). right. reflexivity.
  - pose proof (overflow_lemma schema cfg rec B ser buffer V L Hnew Hbig) as O.
    destruct (serialize_on ser rec buffer) as [stream| |]; [left; exact O | exact O | exact Hbig].
Qed.

(* two buffers of the same length given to encodeRecord yield the same non-empty streams *)
Theorem encode_record_contents_irrelevant_lemma : forall schema cfg rec B ser buffer1 buffer2 stream,
  chains_ok schema cfg ->
  (length schema <= length (r_fields rec))%nat ->
  new_serializer schema cfg B = Ok ser ->
  length buffer1 = length buffer2 ->
  stream <> [] ->
  serialize_on ser rec buffer1 = Ok stream ->
  serialize_on ser rec buffer2 = Ok stream.
Proof.
  intros schema cfg rec B ser buffer1 buffer2 stream V L Hnew L12 Hne H1.
  destruct (Nat.lt_ge_cases (length (encode_spec schema cfg rec)) (length buffer1)) as [Hfit|Hbig].
  - rewrite (serialize_on_spec schema cfg rec B ser buffer1 V L Hnew Hfit) in H1.
    rewrite (serialize_on_spec schema cfg rec B ser buffer2 V L Hnew ltac:(lia)). exact H1.
  - pose proof (overflow_lemma schema cfg rec B ser buffer1 V L Hnew Hbig) as O1.
    rewrite H1 in O1. contradiction.
Qed.

(* SerializeRecord (after fix 413c995), for EVERY preallocated buffer - any length, any contents - and EVERY record:
   never a panic, never out of fuel, never the empty stream, never anything but the complete event *)
Theorem never_garbage_lemma : forall schema cfg rec B ser buffer,
  chains_ok schema cfg ->
  (length schema <= length (r_fields rec))%nat ->
  new_serializer schema cfg B = Ok ser ->
  match serialize_record_from ser rec buffer with
  | Ok stream => stream = encode_spec schema cfg rec /\ stream <> []
  | Panic _ => False
  | Err _ => False
  end.
Proof.
  intros schema cfg rec B ser buffer V L Hnew.
  rewrite (serialize_record_from_total schema cfg rec B ser buffer V L Hnew).
  split; [reflexivity | unfold encode_spec; discriminate].
Qed.

(* The preallocated buffer is reused from record to record: what is emitted depends neither on what the previous
   records left in it nor on its length.  (The correspondence run evaluates the model on a zeroed buffer.) *)
Theorem buffer_contents_irrelevant_lemma : forall schema cfg rec B ser buffer1 buffer2,
  chains_ok schema cfg ->
  (length schema <= length (r_fields rec))%nat ->
  new_serializer schema cfg B = Ok ser ->
  serialize_record_from ser rec buffer1 = serialize_record_from ser rec buffer2.
Proof.
  intros schema cfg rec B ser buffer1 buffer2 V L Hnew.
  rewrite (serialize_record_from_total schema cfg rec B ser buffer1 V L Hnew).
  rewrite (serialize_record_from_total schema cfg rec B ser buffer2 V L Hnew). reflexivity.
Qed.

(* from VerifyConfig alone: the serializer exists and every record is emitted as an event that decodes to it *)
Theorem accepted_config_serializes_lemma : forall schema cfg B,
  verify_config schema cfg = true ->
  N.of_nat (length schema) < 65535 ->
  N.of_nat (length (c_env cfg)) < 65536 ->
  exists ser, new_serializer schema cfg B = Ok ser /\
    forall rec buffer,
      (length schema <= length (r_fields rec))%nat ->
      strings_small schema cfg rec ->
      exists stream,
        serialize_record_from ser rec buffer = Ok stream /\ stream <> [] /\
        decode_all stream = Some (event_tree schema cfg rec, []).
Proof.
  intros schema cfg B V Hns Hne. destruct (new_serializer_ok schema cfg B V) as [ser Hser].
  exists ser. split; [exact Hser|]. intros rec buffer L Hsm.
  exact (decode_serialized_lemma schema cfg rec B ser buffer (verified_chain schema cfg V) L Hns Hne Hsm Hser).
Qed.

(* a test on literals of the one-off buffer: the package's test schema and record (Proofs/SerializerProofs.v) with
   InputLogMaxRecordBytes = 8, i.e. a 16-byte preallocated buffer.  maxEncodedLength is 95, the event 76 bytes;
   encodeRecord on the preallocated buffer panics (SerializeRecord before the fix), SerializeRecord emits the
   complete event, which decodes to the record. *)
Lemma example_oversize_lemma :
  exists ser, new_serializer ex_schema ex_cfg 16 = Ok ser /\
    max_encoded_length ser ex_rec = Ok 95%nat /\
    length (encode_spec ex_schema ex_cfg ex_rec) = 76%nat /\
    (exists site, serialize_on ser ex_rec (repeat 0 16) = Panic site) /\
    serialize_record ser ex_rec = Ok (encode_spec ex_schema ex_cfg ex_rec) /\
    decode_all (encode_spec ex_schema ex_cfg ex_rec) = Some (event_tree ex_schema ex_cfg ex_rec, []).
Proof.
  destruct (new_serializer ex_schema ex_cfg 16) as [ser| |] eqn:E; try (vm_compute in E; discriminate).
  exists ser. split; [reflexivity|]. vm_compute in E. inversion E; subst.
  split; [vm_compute; reflexivity|]. split; [vm_compute; reflexivity|].
  split; [eexists; vm_compute; reflexivity|]. split; vm_compute; reflexivity.
Qed.

(* a test on literals at the fixmap limit: 15 schema fields "a".."o", no environment field, every field visible:
   the root map has 16 entries (15 + "environment") and is written as map16 *)
Definition ex15_schema : list bytes := map (fun c => [c]) [97;98;99;100;101;102;103;104;105;106;107;108;109;110;111].
Definition ex15_cfg : ser_config := {| c_env := []; c_hidden := []; c_rewrite := [] |}.
Definition ex15_rec : record :=
  {| r_fields := map (fun c => [c; c]) [65;66;67;68;69;70;71;72;73;74;75;76;77;78;79];
     r_unix := 1; r_nsec := 2; r_unescaped := false |}.

Lemma example15_lemma :
  chains_ok ex15_schema ex15_cfg /\
  length (visible ex15_schema ex15_cfg ex15_rec) = 15%nat /\
  (exists ser, new_serializer ex15_schema ex15_cfg 200 = Ok ser /\
               serialize_record ser ex15_rec = Ok (encode_spec ex15_schema ex15_cfg ex15_rec)) /\
  nth_error (encode_spec ex15_schema ex15_cfg ex15_rec) 11 = Some 222 /\
  decode_all (encode_spec ex15_schema ex15_cfg ex15_rec) = Some (event_tree ex15_schema ex15_cfg ex15_rec, []).
Proof.
  split; [intros name ch H; discriminate H|]. split; [reflexivity|]. split.
  - destruct (new_serializer ex15_schema ex15_cfg 200) as [ser| |] eqn:E; try (vm_compute in E; discriminate).
    exists ser. split; [reflexivity|]. vm_compute in E. inversion E; subst. vm_compute. reflexivity.
  - split; vm_compute; reflexivity.
Qed.
