(* C10: the Gallina terms GENERATED from output/fastmsgpack/*.go (Gen/C10Gen.v, regenerated on every check)
   compute the functions of the hand-written model Model/Msgpack.v, for every buffer, position and value:
   the same bytes in the buffer, the same end position, a panic exactly where the model panics (index / slice
   bounds: the model's panic sites 1 and 2 are GoSem's panic kinds).  The Go functions write through their
   buffer argument; the generated functions return the final buffer as an extra component. *)
From SV Require Import Model.Common Model.GoSem Model.Msgpack Spec.SerializerSpec Proofs.GoSemFacts Proofs.MsgpackProofs.
From SV Require Gen.C10Gen.
From Coq Require Import Lia ZifyBool ZifyN ZifyNat.
Open Scope Z_scope.

(* model result (buffer, end) -> generated result (end, buffer) *)
Definition enc_inj (o : outcome (bytes * nat)) : gres (Z * list N) :=
  match o with
  | Ok (b, p) => GOk (Z.of_nat p, b)
  | Panic s => GPanic s
  | Err _ => GOutOfFuel
  end.

Definition buf_inj (o : outcome bytes) : gres (list N) :=
  match o with Ok b => GOk b | Panic s => GPanic s | Err _ => GOutOfFuel end.

Lemma set_nth_update : forall buf i v,
  set_nth buf i v = if (i <? length buf)%nat then Some (list_update buf i v) else None.
Proof.
  induction buf as [|h t IH]; intros i v; [reflexivity|]. destruct i as [|i]; [reflexivity|].
  cbn [set_nth list_update length]. rewrite IH.
  change (S i <? S (length t))%nat with (i <? length t)%nat. destruct (i <? length t)%nat; reflexivity.
Qed.

Lemma go_update_put : forall buf i v, go_update buf (Z.of_nat i) v = buf_inj (put buf i v).
Proof.
  intros buf i v. unfold go_update, put, go_len. rewrite set_nth_update, Nat2Z.id.
  destruct (Nat.ltb_spec i (length buf)).
  - replace ((0 <=? Z.of_nat i) && (Z.of_nat i <? Z.of_nat (length buf)))%bool with true by lia. reflexivity.
  - replace ((0 <=? Z.of_nat i) && (Z.of_nat i <? Z.of_nat (length buf)))%bool with false by lia. reflexivity.
Qed.

(* byte(n >> k) of the generated code = the model's (n / 2^k) mod 256 *)
Lemma shr_byte : forall n k, uint_wrap 8 (N.shiftr n k) = ((n / 2 ^ k) mod 256)%N.
Proof. intros. unfold uint_wrap. rewrite N.shiftr_div_pow2. reflexivity. Qed.
Lemma low_byte : forall n, uint_wrap 8 n = (n mod 256)%N.
Proof. reflexivity. Qed.

Lemma to_uint16_gen : forall len, uint_of_int 16 (Z.of_nat len) = to_uint16 len.
Proof. intros. unfold uint_of_int, to_uint16. change (2 ^ Z.of_N 16) with 65536. lia. Qed.
Lemma to_uint32_gen : forall len, uint_of_int 32 (Z.of_nat len) = to_uint32 len.
Proof. intros. unfold uint_of_int, to_uint32. change (2 ^ Z.of_N 32) with 4294967296. lia. Qed.
Lemma to_byte_gen : forall len, byte_of_int (Z.of_nat len) = to_byte len.
Proof. intros. unfold byte_of_int, to_byte. lia. Qed.

(* one store: rewrite the generated go_update into the model's put and split on it *)
Ltac nat_idx :=
  repeat match goal with
  | |- context [(Z.of_nat ?a + Zpos ?p)%Z] =>
    replace (Z.of_nat a + Zpos p)%Z with (Z.of_nat (a + Pos.to_nat p)) by lia
  end; fix_tonat.
Ltac enc_step :=
  nat_idx; rewrite ?go_update_put;
  match goal with
  | |- context [put ?b ?i ?v] => destruct (put b i v) as [?b|?e|?s]; cbn [buf_inj gbind obind enc_inj]; try reflexivity
  end.

Lemma Write2_gen_eq : forall buf start n,
  C10Gen.Write2 buf (Z.of_nat start) n = enc_inj (write2 buf start n).
Proof.
  intros. unfold C10Gen.Write2, write2. rewrite shr_byte, low_byte. change (2 ^ 8)%N with 256%N.
  do 2 enc_step; try (do 2 f_equal; lia).
Qed.

Lemma Write4_gen_eq : forall buf start n,
  C10Gen.Write4 buf (Z.of_nat start) n = enc_inj (write4 buf start n).
Proof.
  intros. unfold C10Gen.Write4, write4. rewrite !shr_byte, low_byte.
  change (2 ^ 24)%N with 16777216%N. change (2 ^ 16)%N with 65536%N. change (2 ^ 8)%N with 256%N.
  do 4 enc_step; try (do 2 f_equal; lia).
Qed.

(* a header writer that stores a code and calls WriteK: the generated call re-binds the buffer *)
Ltac enc_call lem :=
  nat_idx; rewrite lem;
  match goal with
  | |- context [enc_inj ?o] => destruct o as [[?b ?p]|?e|?s]; cbn [enc_inj gbind]; reflexivity
  end.

Lemma EncodeStringLen4_gen_eq : forall buf start len,
  C10Gen.EncodeStringLen4 buf (Z.of_nat start) (Z.of_nat len) = enc_inj (encode_string_len4 buf start len).
Proof.
  intros. unfold C10Gen.EncodeStringLen4, encode_string_len4. rewrite to_byte_gen.
  change (byte_of_int 160) with code_fixstr. enc_step; try (do 2 f_equal; lia).
Qed.

Lemma EncodeMapLen4_gen_eq : forall buf start len,
  C10Gen.EncodeMapLen4 buf (Z.of_nat start) (Z.of_nat len) = enc_inj (encode_map_len4 buf start len).
Proof.
  intros. unfold C10Gen.EncodeMapLen4, encode_map_len4. rewrite to_byte_gen.
  change (byte_of_int 128) with code_fixmap. enc_step; try (do 2 f_equal; lia).
Qed.

Lemma EncodeArrayLen4_gen_eq : forall buf start len,
  C10Gen.EncodeArrayLen4 buf (Z.of_nat start) (Z.of_nat len) = enc_inj (encode_array_len4 buf start len).
Proof.
  intros. unfold C10Gen.EncodeArrayLen4, encode_array_len4. rewrite to_byte_gen.
  change (byte_of_int 144) with code_fixarray. enc_step; try (do 2 f_equal; lia).
Qed.

Lemma EncodeStringLen16_gen_eq : forall buf start len,
  C10Gen.EncodeStringLen16 buf (Z.of_nat start) (Z.of_nat len) = enc_inj (encode_string_len16 buf start len).
Proof.
  intros. unfold C10Gen.EncodeStringLen16, encode_string_len16. rewrite to_uint16_gen.
  change (byte_of_int 218) with code_str16. enc_step. enc_call Write2_gen_eq.
Qed.

Lemma EncodeMapLen16_gen_eq : forall buf start len,
  C10Gen.EncodeMapLen16 buf (Z.of_nat start) (Z.of_nat len) = enc_inj (encode_map_len16 buf start len).
Proof.
  intros. unfold C10Gen.EncodeMapLen16, encode_map_len16. rewrite to_uint16_gen.
  change (byte_of_int 222) with code_map16. enc_step. enc_call Write2_gen_eq.
Qed.

Lemma EncodeStringLen32_gen_eq : forall buf start len,
  C10Gen.EncodeStringLen32 buf (Z.of_nat start) (Z.of_nat len) = enc_inj (encode_string_len32 buf start len).
Proof.
  intros. unfold C10Gen.EncodeStringLen32, encode_string_len32. rewrite to_uint32_gen.
  change (byte_of_int 219) with code_str32. enc_step. enc_call Write4_gen_eq.
Qed.

Lemma EncodeExtHeader8_gen_eq : forall buf start ty,
  C10Gen.EncodeExtHeader8 buf (Z.of_nat start) ty = enc_inj (encode_ext_header8 buf start ty).
Proof.
  intros. unfold C10Gen.EncodeExtHeader8, encode_ext_header8.
  change (byte_of_int 215) with code_fixext8. do 2 enc_step; try (do 2 f_equal; lia).
Qed.

Lemma ReserveLen_gen_eq : forall start,
  C10Gen.ReserveLen4 (Z.of_nat start) = GOk (Z.of_nat (reserve_len4 start)) /\
  C10Gen.ReserveLen16 (Z.of_nat start) = GOk (Z.of_nat (reserve_len16 start)).
Proof. intros. unfold C10Gen.ReserveLen4, C10Gen.ReserveLen16, reserve_len4, reserve_len16. split; f_equal; lia. Qed.

(* ---------- copy(buffer[pos:], str) ---------- *)
Lemma blit_spec : forall buf src,
  blit buf src = (firstn (Nat.min (length buf) (length src)) src ++ skipn (Nat.min (length buf) (length src)) buf,
                  Nat.min (length buf) (length src)).
Proof.
  induction buf as [|h t IH]; intros src; [reflexivity|]. destruct src as [|s src]; [reflexivity|].
  cbn [blit length Nat.min firstn skipn app]. rewrite IH. reflexivity.
Qed.

Lemma copy_at_opt_spec : forall off buf src,
  copy_at_opt buf off src =
  if (off <=? length buf)%nat
  then Some (firstn off buf ++ fst (blit (skipn off buf) src), snd (blit (skipn off buf) src)) else None.
Proof.
  induction off as [|off IH]; intros buf src.
  - cbn [copy_at_opt firstn skipn app Nat.leb]. destruct (blit buf src). reflexivity.
  - destruct buf as [|h t]; [reflexivity|]. cbn [copy_at_opt length firstn skipn app]. rewrite IH.
    change (S off <=? S (length t))%nat with (off <=? length t)%nat. destruct (off <=? length t)%nat; reflexivity.
Qed.

Lemma skipn_add : forall {A} (l : list A) a b, skipn a (skipn b l) = skipn (a + b) l.
Proof.
  intros A l a b. revert l. induction b as [|b IH]; intros l.
  - rewrite Nat.add_0_r. reflexivity.
  - destruct l as [|x l]; [rewrite !skipn_nil; reflexivity|].
    replace (a + S b)%nat with (S (a + b)) by lia. cbn [skipn]. apply IH.
Qed.

Definition copy_inj (o : outcome (bytes * nat)) : gres (list N * Z) :=
  match o with Ok (b, n) => GOk (b, Z.of_nat n) | Panic s => GPanic s | Err _ => GOutOfFuel end.

Lemma go_copy_copy_at : forall buf off src, go_copy buf (Z.of_nat off) src = copy_inj (copy_at buf off src).
Proof.
  intros buf off src. unfold go_copy, copy_at, go_len. rewrite copy_at_opt_spec.
  destruct (Nat.leb_spec off (length buf)) as [H|H].
  - replace ((0 <=? Z.of_nat off) && (Z.of_nat off <=? Z.of_nat (length buf)))%bool with true by lia.
    rewrite blit_spec. cbn [fst snd copy_inj]. rewrite skipn_length.
    set (n := Nat.min (length buf - off) (length src)).
    replace (Z.min (Z.of_nat (length buf) - Z.of_nat off) (Z.of_nat (length src))) with (Z.of_nat n) by lia.
    rewrite !Nat2Z.id. replace (Z.to_nat (Z.of_nat off + Z.of_nat n)) with (n + off)%nat by lia.
    rewrite skipn_add. reflexivity.
  - replace ((0 <=? Z.of_nat off) && (Z.of_nat off <=? Z.of_nat (length buf)))%bool with false by lia. reflexivity.
Qed.

Section EncodeString.
  Variable hdr : bytes -> nat -> nat -> outcome (bytes * nat).
  Variable ghdr : list N -> Z -> Z -> gres (Z * list N).
  Hypothesis Hhdr : forall buf start len, ghdr buf (Z.of_nat start) (Z.of_nat len) = enc_inj (hdr buf start len).

  Lemma encode_string_gen : forall buf start str,
    (t0 <~ ghdr buf (Z.of_nat start) (go_len str) ;;
     let '(t1, p0) := t0 in
     t3 <~ go_copy p0 t1 str ;;
     let '(p0, t2) := t3 in GOk ((t1 + t2)%Z, p0)) = enc_inj (encode_string_with hdr buf start str).
  Proof.
    intros. unfold encode_string_with, go_len. rewrite Hhdr.
    destruct (hdr buf start (length str)) as [[b pos]|e|s]; cbn [enc_inj gbind obind]; try reflexivity.
    rewrite go_copy_copy_at. destruct (copy_at b pos str) as [[b' n]|e|s]; cbn [copy_inj gbind obind enc_inj]; try reflexivity.
    do 2 f_equal. lia.
  Qed.
End EncodeString.

Lemma EncodeString4_gen_eq : forall buf start str,
  C10Gen.EncodeString4 buf (Z.of_nat start) str = enc_inj (encode_string4 buf start str).
Proof. intros. apply (encode_string_gen _ _ EncodeStringLen4_gen_eq). Qed.
Lemma EncodeString16_gen_eq : forall buf start str,
  C10Gen.EncodeString16 buf (Z.of_nat start) str = enc_inj (encode_string16 buf start str).
Proof. intros. apply (encode_string_gen _ _ EncodeStringLen16_gen_eq). Qed.
Lemma EncodeString32_gen_eq : forall buf start str,
  C10Gen.EncodeString32 buf (Z.of_nat start) str = enc_inj (encode_string32 buf start str).
Proof. intros. apply (encode_string_gen _ _ EncodeStringLen32_gen_eq). Qed.

(* ---------- the headers of every length class, through the generated code ---------- *)
Lemma string_headers_gen : forall pre x a b c d tail len,
  ((N.of_nat len < 16)%N ->
   C10Gen.EncodeStringLen4 (pre ++ x :: tail) (go_len pre) (Z.of_nat len) =
   GOk (go_len pre + 1, pre ++ (160 + N.of_nat len)%N :: tail)) /\
  C10Gen.EncodeStringLen16 (pre ++ x :: a :: b :: tail) (go_len pre) (Z.of_nat len) =
   GOk (go_len pre + 3, pre ++ 218%N :: be16 (N.of_nat len mod 65536) ++ tail) /\
  C10Gen.EncodeStringLen32 (pre ++ x :: a :: b :: c :: d :: tail) (go_len pre) (Z.of_nat len) =
   GOk (go_len pre + 5, pre ++ 219%N :: be32 (N.of_nat len mod 4294967296) ++ tail).
Proof.
  intros. unfold go_len. repeat split; [intros H; rewrite EncodeStringLen4_gen_eq, string_len4_at by assumption
    | rewrite EncodeStringLen16_gen_eq, string_len16_at | rewrite EncodeStringLen32_gen_eq, string_len32_at];
    cbn [enc_inj]; do 2 f_equal; lia.
Qed.
