(* C16 - concrete configurations: a non-trivial accepted one (non-vacuity), and for each defect of
   the original code a configuration on which the property fails when only that defect is
   switched back on.  Everything here is closed computation (vm_compute on literals). *)
From Coq Require Import String Ascii.
From SV Require Import Model.Common Model.ConfigTemplate Model.ConfigExtractor Model.Config Spec.ConfigSpec
  Proofs.CommonFacts Proofs.ConfigTemplateProofs Proofs.ConfigProofs.
Open Scope Z_scope.

Definition bs (s : string) : bytes := map N_of_ascii (list_ascii_of_string s).

Definition w_fields : list bytes :=
  map bs ["facility"; "level"; "time"; "host"; "app"; "pid"; "source"; "extradata"; "log"; "class"; "my-field"]%string.

Definition w_levels : list bytes := map bs ["off"; "fatal"; "crit"; "error"; "warn"; "notice"; "info"; "debug"]%string.

Definition w_fluentd (env hidden : list bytes) : output :=
  OFluentd env hidden [(bs "log", [RwInline (bs "class"); RwUnescape])] mode_compressed (bs "localhost:24224") true (BigOk 500).

Definition w_pair (o : output) : pair :=
  {| p_name := bs "out"; p_buffer := BHybrid (bs "/tmp/b") (BigOk 1000); p_output := o |}.

Definition w_config (tfs : tlist) (orch : orchestration) (mkeys : list bytes) (pairs : list pair) : config :=
  {| c_damage := []; c_fields := w_fields; c_maxfields := NumOk 12;
     c_inputs := [ISyslog (bs "localhost:0") true w_levels (TCons (TDelFields [bs "pid"]) TNil)];
     c_orch := orch; c_metric_keys := mkeys; c_transforms := tfs; c_pairs := pairs |}.

Definition w_orch : orchestration := OrByKeySet [bs "app"] (bs "dev.$app-${app[:3]}").
Definition w_out : list pair := [w_pair (w_fluentd [bs "host"; bs "app"] [bs "class"])].
Definition w_me (k : string) (op : mop) (e : string) : mentry := {| me_key := bs k; me_op := op; me_expr := bs e; me_lib_ok := true |}.

(* a configuration with every kind of nested step, templates with slices, both extractors *)
Definition example_config : config :=
  w_config
    (TCons (TSwitch (CCons [w_me "app" MEq "appServ"]
                       (TCons (TDrop [w_me "level" MNot "fatal"] (NumOk 33) (bs "sampled"))
                       (TCons (TIf [w_me "log" MGt "5"; w_me "class" MAny ""]
                                 (TCons (TTruncate (bs "log") (NumOk 180) (bs " ... (cut)")) TNil)) TNil))
                    (CCons [w_me "host" MEnd ".com"]
                       (TCons (TAddFields [(bs "host", bs "${host[:-4]}"); (bs "class", bs "task=$pid $log")]) TNil) CNil)))
    (TCons (TBlock (TCons (TParseTime (bs "time") (bs "timeError")) (TCons (TDelFields [bs "time"]) TNil)))
    (TCons (TExtractSpecial FromStart (bs "log") (bs "\[*\] - ") (NumOk 100) (bs "class"))
    (TCons (TExtractSpecial FromEnd (bs "source") (bs ":[0-9a-f-]") (NumOk 41) (bs "extradata"))
    (TCons (TExtract (bs "log") (bs "(?P<pid>a+)") (Some [[]; bs "pid"]))
    (TCons (TRedactEmail (bs "log") (bs "redacted")) TNil))))))
    w_orch [bs "host"; bs "source"]
    (w_out ++ [ {| p_name := bs "dd"; p_buffer := BHybrid (bs "/tmp/d") (BigOk 1);
                   p_output := ODatadog [bs "host"] (bs "https://example/api") true (BigOk 30) |} ]).

Lemma example_verified : verify fixed_quirks example_config = Ok tt.
Proof. vm_compute. reflexivity. Qed.

Lemma example_refs_count : length (refs example_config) = 86%nat.
Proof. vm_compute. reflexivity. Qed.

(* an instance of the external functions that satisfies ext_wf *)
Definition x_trivial : externals :=
  {| x_regex_find := fun _ _ _ => None; x_regex_replace := fun _ v _ => v; x_regex_match := fun _ _ => false;
     x_glob_match := fun _ _ => false; x_redact := fun _ => None; x_unescape := fun v => v;
     x_time_ok := fun _ => true; x_clean_len := fun s => length s; x_drop_choice := fun _ _ => false |}.

Lemma x_trivial_wf : ext_wf x_trivial.
Proof. split; [intros; discriminate|intros; simpl; auto]. Qed.

(* exactly one defect of the original code switched on *)
Definition quirk (n : nat) : quirks :=
  {| q_extract_checks_key := Nat.eqb n 0; q_fluentd_fields_unchecked := Nat.eqb n 1; q_template_atoi_panics := Nat.eqb n 2;
     q_special_split_only := Nat.eqb n 3; q_datadog_url_unchecked := Nat.eqb n 4; q_datadog_hidden_unchecked := Nat.eqb n 5;
     q_nil_orchestration := Nat.eqb n 6; q_nil_pair_parts := Nat.eqb n 7; q_labels_unchecked := Nat.eqb n 8;
     q_no_outputs_accepted := Nat.eqb n 9 |}.

Definition w_one (t : transform) : config := w_config (TCons t TNil) w_orch [bs "host"] w_out.

(* a record: the schema's eleven fields and one spare, the message in "log" *)
Definition w_record (log : string) : fields :=
  map bs ["local4"; "info"; "2022-08-15T03:48:20Z"; "h"; "appServ"; "1"; "main.log"; "-"; log; ""; ""; ""]%string.

Ltac vc := vm_compute; reflexivity.
Ltac verr := vm_compute; eexists; reflexivity.
(* construct = Ok p and a panicking record *)
Ltac vrun := eexists; split; [vm_compute; reflexivity|vm_compute; reflexivity].

(* 1. extract: VerifyConfig looked up c.Key instead of the capture name *)
Definition w_extract : config := w_one (TExtract (bs "log") (bs "(?P<nosuch>a+)") (Some [[]; bs "nosuch"])).
Lemma w_extract_refutes : verify (quirk 0) w_extract = Ok tt /\ construct (quirk 0) w_extract = Panic site_must_locator
                          /\ exists e, verify fixed_quirks w_extract = Err e.
Proof.
  split; [vc|]. split; [vc|verr].
Qed.

(* 2. fluentdForward: environmentFields not validated (constructor panics); hiddenFields not validated (site unchecked) *)
Definition w_fluentd_env : config := w_config TNil w_orch [bs "host"] [w_pair (w_fluentd [bs "host"; bs "nosuch"] [])].
Definition w_fluentd_hidden : config := w_config TNil w_orch [bs "host"] [w_pair (w_fluentd [bs "host"] [bs "nosuch"])].
Lemma w_fluentd_refutes :
  verify (quirk 1) w_fluentd_env = Ok tt /\ construct (quirk 1) w_fluentd_env = Panic site_serializer /\
  verify (quirk 1) w_fluentd_hidden = Ok tt /\ In (RefField (bs "nosuch")) (refs w_fluentd_hidden) /\ ~ known (c_fields w_fluentd_hidden) (bs "nosuch") /\
  (exists e, verify fixed_quirks w_fluentd_env = Err e) /\ (exists e, verify fixed_quirks w_fluentd_hidden = Err e).
Proof.
  split; [vc|]. split; [vc|]. split; [vc|]. split; [vm_compute; tauto|].
  split; [vm_compute; intuition discriminate|]. split; verr.
Qed.

(* 3. string template: a slice bound outside int64 panicked during verification *)
Definition w_template : config := w_one (TAddFields [(bs "class", bs "${log[99999999999999999999:]}")]).
Definition w_tag_template : config := w_config TNil (OrByKeySet [bs "app"] (bs "${app[:-99999999999999999999]}")) [bs "host"] w_out.
Lemma w_template_refutes :
  verify (quirk 2) w_template = Panic site_template_atoi /\ verify (quirk 2) w_tag_template = Panic site_template_atoi /\
  (exists e, verify fixed_quirks w_template = Err e) /\ (exists e, verify fixed_quirks w_tag_template = Err e).
Proof.
  split; [vc|]. split; [vc|]. split; verr.
Qed.

(* 4. extractHead/extractTail: only splitPattern was checked *)
Definition w_special_bracket : config := w_one (TExtractSpecial FromStart (bs "log") (bs "x[]") (NumOk 10) (bs "class")).
Definition w_special_hyphen : config := w_one (TExtractSpecial FromEnd (bs "log") (bs "[a--z]") (NumOk 10) (bs "class")).
Definition w_special_head : config := w_one (TExtractSpecial FromStart (bs "log") (bs "abc*") (NumOk 10) (bs "class")).
Definition w_special_tail : config := w_one (TExtractSpecial FromEnd (bs "log") (bs "*abc") (NumOk 10) (bs "class")).
Lemma w_special_refutes :
  verify (quirk 3) w_special_bracket = Ok tt /\ construct (quirk 3) w_special_bracket = Panic site_extractor /\
  verify (quirk 3) w_special_hyphen = Ok tt /\ construct (quirk 3) w_special_hyphen = Panic site_extractor /\
  verify (quirk 3) w_special_head = Ok tt /\
  (exists p, construct (quirk 3) w_special_head = Ok p /\ run_record x_trivial p 0 (w_record "abcdef") = Panic site_nil_table) /\
  verify (quirk 3) w_special_tail = Ok tt /\
  (exists p, construct (quirk 3) w_special_tail = Ok p /\ run_record x_trivial p 0 (w_record "xyzabc") = Panic site_nil_table) /\
  (exists e, verify fixed_quirks w_special_bracket = Err e) /\ (exists e, verify fixed_quirks w_special_hyphen = Err e) /\
  (exists e, verify fixed_quirks w_special_head = Err e) /\ (exists e, verify fixed_quirks w_special_tail = Err e).
Proof.
  split; [vc|]. split; [vc|]. split; [vc|]. split; [vc|]. split; [vc|]. split; [vrun|].
  split; [vc|]. split; [vrun|]. split; [verr|]. split; [verr|]. split; verr.
Qed.

(* 5./6. datadog: address not parsed, hiddenFields not validated *)
Definition w_datadog (hidden : list bytes) (url_ok : bool) : config :=
  w_config TNil w_orch [bs "host"] [w_pair (ODatadog hidden (bs "http://[::1") url_ok (BigOk 30))].
Lemma w_datadog_refutes :
  verify (quirk 4) (w_datadog [] false) = Ok tt /\ construct (quirk 4) (w_datadog [] false) = Panic site_datadog_url /\
  verify (quirk 5) (w_datadog [bs "nosuch"] true) = Ok tt /\ In (RefField (bs "nosuch")) (refs (w_datadog [bs "nosuch"] true)) /\
  (exists e, verify fixed_quirks (w_datadog [] false) = Err e) /\ (exists e, verify fixed_quirks (w_datadog [bs "nosuch"] true) = Err e).
Proof.
  split; [vc|]. split; [vc|]. split; [vc|]. split; [vm_compute; tauto|]. split; verr.
Qed.

(* 7./8. a missing orchestration / buffer / output section crashed the loader *)
Definition w_no_orch : config := w_config TNil OrMissing [bs "host"] w_out.
Definition w_no_buffer : config := w_config TNil w_orch [bs "host"] [{| p_name := bs "o"; p_buffer := BMissing; p_output := w_fluentd [bs "host"] [] |}].
Definition w_no_output : config := w_config TNil w_orch [bs "host"] [{| p_name := bs "o"; p_buffer := BHybrid (bs "/b") (BigOk 1); p_output := OMissing |}].
Lemma w_missing_refutes :
  verify (quirk 6) w_no_orch = Panic site_nil_config /\ verify (quirk 7) w_no_buffer = Panic site_nil_config /\
  verify (quirk 7) w_no_output = Panic site_nil_config /\
  (exists e, verify fixed_quirks w_no_orch = Err e) /\ (exists e, verify fixed_quirks w_no_buffer = Err e) /\
  (exists e, verify fixed_quirks w_no_output = Err e).
Proof.
  split; [vc|]. split; [vc|]. split; [vc|]. split; [verr|]. split; verr.
Qed.

(* 9. key fields that are not metric label names, or repeated *)
Definition w_label_metric : config := w_config TNil w_orch [bs "my-field"] w_out.
Definition w_label_orch : config := w_config TNil (OrByKeySet [bs "app"; bs "app"] (bs "t")) [bs "host"] w_out.
Lemma w_labels_refute :
  verify (quirk 8) w_label_metric = Ok tt /\
  (exists p, construct (quirk 8) w_label_metric = Ok p /\ run_record x_trivial p 0 (w_record "x") = Panic site_metric_label) /\
  verify (quirk 8) w_label_orch = Ok tt /\
  (exists p, construct (quirk 8) w_label_orch = Ok p /\ run_record x_trivial p 0 (w_record "x") = Panic site_metric_label) /\
  (exists e, verify fixed_quirks w_label_metric = Err e) /\ (exists e, verify fixed_quirks w_label_orch = Err e).
Proof.
  split; [vc|]. split; [vrun|]. split; [vc|]. split; [vrun|]. split; verr.
Qed.

(* 10. no output: the first dropped record is released to a negative reference count *)
Definition w_no_outputs : config :=
  w_config (TCons (TDrop [w_me "log" MAny ""] (NumOk 100) (bs "all")) TNil) w_orch [bs "host"] [].
Lemma w_no_outputs_refutes :
  verify (quirk 9) w_no_outputs = Ok tt /\
  (exists p, construct (quirk 9) w_no_outputs = Ok p /\ run_record x_trivial p 0 (w_record "x") = Panic site_no_output_release) /\
  (exists e, verify fixed_quirks w_no_outputs = Err e).
Proof.
  split; [vc|]. split; [vrun|verr].
Qed.

(* with every defect on, as in the original code *)
Lemma original_refuted :
  (exists c s, verify original_quirks c = Ok tt /\ construct original_quirks c = Panic s) /\
  (exists c s, verify original_quirks c = Panic s) /\
  (exists c p f s, verify original_quirks c = Ok tt /\ construct original_quirks c = Ok p /\
                   Z.of_nat (length f) = pl_nfields p /\ run_record x_trivial p 0 f = Panic s).
Proof.
  split; [|split].
  - exists w_extract, site_must_locator. split; vc.
  - exists w_template, site_template_atoi. vc.
  - exists w_special_head. eexists. exists (w_record "abcdef"), site_nil_table.
    split; [vc|]. split; [vc|]. split; vc.
Qed.

(* ---- sites that interact: the constructors do depend on them, and verify rejects them ---- *)
(* a metric key equal to the FIRST orchestration key: the registry gets the label key_app twice *)
Definition w_key_overlap : config := w_config TNil (OrByKeySet [bs "app"; bs "level"] (bs "t")) [bs "host"; bs "app"] w_out.
(* a rewriteFields chain on a HIDDEN field: NewEventSerializer builds it all the same *)
Definition w_hidden_chain (l : list rewriter) : config :=
  w_config TNil w_orch [bs "host"]
    [w_pair (OFluentd [bs "host"] [bs "class"] [(bs "class", l)] mode_compressed (bs "localhost:24224") true (BigOk 500))].

Lemma w_interactions :
  (exists e, verify fixed_quirks w_key_overlap = Err e) /\
  (exists p, construct fixed_quirks w_key_overlap = Ok p /\ pipeline_safe p = false /\
             run_record x_trivial p 0 (w_record "x") = Panic site_metric_label) /\
  (exists e, verify fixed_quirks (w_hidden_chain [RwInline (bs "log")]) = Err e) /\
  construct fixed_quirks (w_hidden_chain [RwInline (bs "log")]) = Panic site_rewriter_order /\
  (exists e, verify fixed_quirks (w_hidden_chain [RwCopy; RwUnescape]) = Err e) /\
  construct fixed_quirks (w_hidden_chain [RwCopy; RwUnescape]) = Panic site_rewriter_order /\
  (exists e, verify fixed_quirks (w_hidden_chain [RwInline (bs "nosuch"); RwCopy]) = Err e) /\
  construct fixed_quirks (w_hidden_chain [RwInline (bs "nosuch"); RwCopy]) = Panic site_must_locator /\
  verify fixed_quirks (w_hidden_chain [RwInline (bs "log"); RwCopy]) = Ok tt.
Proof.
  split; [verr|]. split; [eexists; split; [vc|split; vc]|]. split; [verr|]. split; [vc|]. split; [verr|]. split; [vc|].
  split; [verr|]. split; vc.
Qed.
