(* Proofs about Model/Utf8.v against Spec/Utf8Spec.v. *)
From SV Require Import Model.Common Model.Utf8 Spec.Utf8Spec.
From Coq Require Import Lia ZifyBool ZifyN ZifyNat.
Ltac Zify.zify_post_hook ::= Z.div_mod_to_equations.
Open Scope N_scope.

(* ---------- the table [first] ---------- *)

Ltac split_ifs :=
  repeat (match goal with
          | |- context [if ?c then _ else _] => let E := fresh "E" in destruct c eqn:E
          end; try lia; try discriminate).

Lemma first_ascii : forall b, b < 128 -> first b = FAscii.
Proof. intros b H. unfold first. split_ifs; reflexivity. Qed.

Lemma first_cont : forall b, 128 <= b < 194 -> first b = FInvalid.
Proof. intros b H. unfold first. split_ifs; reflexivity. Qed.

Lemma first_high : forall b, 245 <= b -> first b = FInvalid.
Proof. intros b H. unfold first. split_ifs; reflexivity. Qed.

Lemma first_2 : forall b, 194 <= b < 224 -> first b = FLead 2 128 191.
Proof. intros b H. unfold first. split_ifs; reflexivity. Qed.

Lemma first_e0 : first 224 = FLead 3 160 191.
Proof. reflexivity. Qed.

Lemma first_3 : forall b, (225 <= b < 237 \/ 238 <= b < 240) -> first b = FLead 3 128 191.
Proof. intros b H. unfold first. split_ifs; reflexivity. Qed.

Lemma first_ed : first 237 = FLead 3 128 159.
Proof. reflexivity. Qed.

Lemma first_f0 : first 240 = FLead 4 144 191.
Proof. reflexivity. Qed.

Lemma first_4 : forall b, 241 <= b < 244 -> first b = FLead 4 128 191.
Proof. intros b H. unfold first. split_ifs; reflexivity. Qed.

Lemma first_f4 : first 244 = FLead 4 128 143.
Proof. reflexivity. Qed.

(* every possible value of [first], with the range of the byte *)
Lemma first_cases : forall b,
  (b < 128 /\ first b = FAscii) \/
  ((128 <= b < 194 \/ 245 <= b) /\ first b = FInvalid) \/
  (194 <= b < 224 /\ first b = FLead 2 128 191) \/
  (b = 224 /\ first b = FLead 3 160 191) \/
  ((225 <= b < 237 \/ 238 <= b < 240) /\ first b = FLead 3 128 191) \/
  (b = 237 /\ first b = FLead 3 128 159) \/
  (b = 240 /\ first b = FLead 4 144 191) \/
  (241 <= b < 244 /\ first b = FLead 4 128 191) \/
  (b = 244 /\ first b = FLead 4 128 143).
Proof.
  intros b. unfold first. split_ifs; intuition lia.
Qed.

(* ---------- encode, then decode ---------- *)

Lemma encode_length_cases : forall c,
  (c < 128 /\ utf8_encode c = [c]) \/
  (128 <= c < 2048 /\ utf8_encode c = [192 + c / 64; 128 + c mod 64]) \/
  (2048 <= c < 65536 /\ utf8_encode c = [224 + c / 4096; 128 + (c / 64) mod 64; 128 + c mod 64]) \/
  (65536 <= c /\ utf8_encode c = [240 + c / 262144; 128 + (c / 4096) mod 64; 128 + (c / 64) mod 64; 128 + c mod 64]).
Proof. intros c. unfold utf8_encode. split_ifs; intuition lia. Qed.

(* replace every N comparison in the goal that lia can decide by its value *)
Ltac decide_cmp :=
  repeat match goal with
         | |- context [N.ltb ?a ?b] =>
           first [ replace (N.ltb a b) with true by lia | replace (N.ltb a b) with false by lia ]
         | |- context [N.leb ?a ?b] =>
           first [ replace (N.leb a b) with true by lia | replace (N.leb a b) with false by lia ]
         | |- context [N.eqb ?a ?b] =>
           first [ replace (N.eqb a b) with true by lia | replace (N.eqb a b) with false by lia ]
         end.

Lemma decode_encode : forall c rest, scalar c ->
  decode_rune (utf8_encode c ++ rest) = (c, length (utf8_encode c)).
Proof.
  intros c rest Hs. unfold scalar in Hs.
  destruct (encode_length_cases c) as [[Hr E]|[[Hr E]|[[Hr E]|[Hr E]]]]; rewrite E; cbn [app length decode_rune].
  - rewrite first_ascii by lia. reflexivity.
  - rewrite first_2 by lia. decide_cmp. cbn [orb Nat.leb]. f_equal. lia.
  - assert (Hc : c / 4096 = 0 \/ (1 <= c / 4096 < 13 \/ 14 <= c / 4096 < 16) \/ c / 4096 = 13) by lia.
    unfold is_cont.
    destruct Hc as [Hc|[Hc|Hc]].
    + replace (224 + c / 4096) with 224 by lia. rewrite first_e0. decide_cmp.
      cbn [orb andb negb Nat.leb]. f_equal. lia.
    + rewrite first_3 by lia. decide_cmp.
      cbn [orb andb negb Nat.leb]. f_equal. lia.
    + replace (224 + c / 4096) with 237 by lia. rewrite first_ed. decide_cmp.
      cbn [orb andb negb Nat.leb]. f_equal. lia.
  - assert (Hc : c / 262144 = 0 \/ 1 <= c / 262144 < 4 \/ c / 262144 = 4) by lia.
    unfold is_cont.
    destruct Hc as [Hc|[Hc|Hc]].
    + replace (240 + c / 262144) with 240 by lia. rewrite first_f0. decide_cmp.
      cbn [orb andb negb Nat.leb]. f_equal. lia.
    + rewrite first_4 by lia. decide_cmp.
      cbn [orb andb negb Nat.leb]. f_equal. lia.
    + replace (240 + c / 262144) with 244 by lia. rewrite first_f4. decide_cmp.
      cbn [orb andb negb Nat.leb]. f_equal. lia.
Qed.

(* ---------- decode: only encodings of scalar values are accepted ---------- *)

Lemma utf8_encode_1 : forall c, c < 128 -> utf8_encode c = [c].
Proof. intros c H. unfold utf8_encode. split_ifs. reflexivity. Qed.

Lemma utf8_encode_2 : forall p0 b1, 194 <= p0 < 224 -> 128 <= b1 <= 191 ->
  utf8_encode ((p0 mod 32) * 64 + b1 mod 64) = [p0; b1].
Proof.
  intros p0 b1 H0 H1. unfold utf8_encode. split_ifs. f_equal; [lia|]. f_equal. lia.
Qed.

Lemma utf8_encode_3 : forall p0 b1 b2, 224 <= p0 < 240 -> 128 <= b1 <= 191 -> 128 <= b2 <= 191 ->
  (p0 = 224 -> 160 <= b1) ->
  utf8_encode ((p0 mod 16) * 4096 + (b1 mod 64) * 64 + b2 mod 64) = [p0; b1; b2].
Proof.
  intros p0 b1 b2 H0 H1 H2 H3. unfold utf8_encode. split_ifs.
  f_equal; [lia|]. f_equal; [lia|]. f_equal. lia.
Qed.

Lemma utf8_encode_4 : forall p0 b1 b2 b3, 240 <= p0 < 245 -> 128 <= b1 <= 191 -> 128 <= b2 <= 191 -> 128 <= b3 <= 191 ->
  (p0 = 240 -> 144 <= b1) ->
  utf8_encode ((p0 mod 8) * 262144 + (b1 mod 64) * 4096 + (b2 mod 64) * 64 + b3 mod 64) = [p0; b1; b2; b3].
Proof.
  intros p0 b1 b2 b3 H0 H1 H2 H3 H4. unfold utf8_encode. split_ifs.
  f_equal; [lia|]. f_equal; [lia|]. f_equal; [lia|]. f_equal. lia.
Qed.
Lemma rune_width_inv : forall s k, rune_width s = S k ->
  exists c rest, scalar c /\ s = utf8_encode c ++ rest /\ length (utf8_encode c) = S k.
Proof.
  intros s k H. destruct s as [|p0 t]; [discriminate|].
  unfold rune_width in H.
  destruct (first_cases p0) as [[R F]|[[R F]|[[R F]|[[R F]|[[R F]|[[R F]|[[R F]|[[R F]|[R F]]]]]]]]];
    unfold decode_rune in H; rewrite F in H.
  - cbn [snd] in H. replace (rune_self <=? p0) with false in H by (unfold rune_self; lia).
    cbn [andb] in H. exists p0, t. rewrite utf8_encode_1 by lia. split; [unfold scalar; lia|]. split; [reflexivity|]. cbn [length]. lia.
  - cbn [snd] in H. replace (rune_self <=? p0) with true in H by (unfold rune_self; lia). discriminate.
  - replace (rune_self <=? p0) with true in H by (unfold rune_self; lia).
    destruct t as [|b1 t1]; [discriminate|].
    destruct ((b1 <? 128) || (191 <? b1)) eqn:E1; [discriminate|].
    cbn [Nat.leb snd Nat.eqb andb] in H.
    exists ((p0 mod 32) * 64 + b1 mod 64), t1. rewrite utf8_encode_2 by lia.
    split; [unfold scalar; lia|]. split; [reflexivity|]. cbn [length]. lia.
  - (* E0 *)
    replace (rune_self <=? p0) with true in H by (unfold rune_self; lia).
    destruct t as [|b1 t1]; [discriminate|].
    destruct ((b1 <? 160) || (191 <? b1)) eqn:E1; [discriminate|].
    destruct t1 as [|b2 t2]; [discriminate|].
    unfold is_cont in H. destruct ((128 <=? b2) && (b2 <=? 191)) eqn:E2; [|discriminate].
    cbn [Nat.leb snd Nat.eqb andb negb] in H.
    exists ((p0 mod 16) * 4096 + (b1 mod 64) * 64 + b2 mod 64), t2. rewrite utf8_encode_3 by lia.
    split; [unfold scalar; lia|]. split; [reflexivity|]. cbn [length]. lia.
  - replace (rune_self <=? p0) with true in H by (unfold rune_self; lia).
    destruct t as [|b1 t1]; [discriminate|].
    destruct ((b1 <? 128) || (191 <? b1)) eqn:E1; [discriminate|].
    destruct t1 as [|b2 t2]; [discriminate|].
    unfold is_cont in H. destruct ((128 <=? b2) && (b2 <=? 191)) eqn:E2; [|discriminate].
    cbn [Nat.leb snd Nat.eqb andb negb] in H.
    exists ((p0 mod 16) * 4096 + (b1 mod 64) * 64 + b2 mod 64), t2. rewrite utf8_encode_3 by lia.
    split; [unfold scalar; lia|]. split; [reflexivity|]. cbn [length]. lia.
  - (* ED *)
    replace (rune_self <=? p0) with true in H by (unfold rune_self; lia).
    destruct t as [|b1 t1]; [discriminate|].
    destruct ((b1 <? 128) || (159 <? b1)) eqn:E1; [discriminate|].
    destruct t1 as [|b2 t2]; [discriminate|].
    unfold is_cont in H. destruct ((128 <=? b2) && (b2 <=? 191)) eqn:E2; [|discriminate].
    cbn [Nat.leb snd Nat.eqb andb negb] in H.
    exists ((p0 mod 16) * 4096 + (b1 mod 64) * 64 + b2 mod 64), t2. rewrite utf8_encode_3 by lia.
    split; [unfold scalar; lia|]. split; [reflexivity|]. cbn [length]. lia.
  - (* F0 *)
    replace (rune_self <=? p0) with true in H by (unfold rune_self; lia).
    destruct t as [|b1 t1]; [discriminate|].
    destruct ((b1 <? 144) || (191 <? b1)) eqn:E1; [discriminate|].
    destruct t1 as [|b2 t2]; [discriminate|].
    unfold is_cont in H. destruct ((128 <=? b2) && (b2 <=? 191)) eqn:E2; [|discriminate].
    destruct t2 as [|b3 t3]; [discriminate|].
    destruct ((128 <=? b3) && (b3 <=? 191)) eqn:E3; [|discriminate].
    cbn [Nat.leb snd Nat.eqb andb negb] in H.
    exists ((p0 mod 8) * 262144 + (b1 mod 64) * 4096 + (b2 mod 64) * 64 + b3 mod 64), t3. rewrite utf8_encode_4 by lia.
    split; [unfold scalar; lia|]. split; [reflexivity|]. cbn [length]. lia.
  - replace (rune_self <=? p0) with true in H by (unfold rune_self; lia).
    destruct t as [|b1 t1]; [discriminate|].
    destruct ((b1 <? 128) || (191 <? b1)) eqn:E1; [discriminate|].
    destruct t1 as [|b2 t2]; [discriminate|].
    unfold is_cont in H. destruct ((128 <=? b2) && (b2 <=? 191)) eqn:E2; [|discriminate].
    destruct t2 as [|b3 t3]; [discriminate|].
    destruct ((128 <=? b3) && (b3 <=? 191)) eqn:E3; [|discriminate].
    cbn [Nat.leb snd Nat.eqb andb negb] in H.
    exists ((p0 mod 8) * 262144 + (b1 mod 64) * 4096 + (b2 mod 64) * 64 + b3 mod 64), t3. rewrite utf8_encode_4 by lia.
    split; [unfold scalar; lia|]. split; [reflexivity|]. cbn [length]. lia.
  - (* F4 *)
    replace (rune_self <=? p0) with true in H by (unfold rune_self; lia).
    destruct t as [|b1 t1]; [discriminate|].
    destruct ((b1 <? 128) || (143 <? b1)) eqn:E1; [discriminate|].
    destruct t1 as [|b2 t2]; [discriminate|].
    unfold is_cont in H. destruct ((128 <=? b2) && (b2 <=? 191)) eqn:E2; [|discriminate].
    destruct t2 as [|b3 t3]; [discriminate|].
    destruct ((128 <=? b3) && (b3 <=? 191)) eqn:E3; [|discriminate].
    cbn [Nat.leb snd Nat.eqb andb negb] in H.
    exists ((p0 mod 8) * 262144 + (b1 mod 64) * 4096 + (b2 mod 64) * 64 + b3 mod 64), t3. rewrite utf8_encode_4 by lia.
    split; [unfold scalar; lia|]. split; [reflexivity|]. cbn [length]. lia.
Qed.

Lemma encode_length : forall c, (1 <= length (utf8_encode c) <= 4)%nat.
Proof.
  intros c. destruct (encode_length_cases c) as [[_ E]|[[_ E]|[[_ E]|[_ E]]]]; rewrite E; cbn [length]; lia.
Qed.

Lemma encode_head_ascii : forall c, c < 128 -> utf8_encode c = [c].
Proof. exact utf8_encode_1. Qed.

(* a character above U+007F is encoded with bytes >= 0x80 only *)
Lemma encode_non_ascii : forall c, scalar c -> 128 <= c -> non_ascii (utf8_encode c).
Proof.
  intros c Hs Hc. unfold non_ascii, scalar in *.
  destruct (encode_length_cases c) as [[R E]|[[R E]|[[R E]|[R E]]]]; rewrite E;
    repeat constructor; lia.
Qed.

Lemma rune_width_encode : forall c rest, scalar c ->
  rune_width (utf8_encode c ++ rest) = length (utf8_encode c).
Proof.
  intros c rest Hs. unfold rune_width.
  rewrite (decode_encode c rest Hs). cbn [snd].
  destruct (encode_length_cases c) as [[R E]|[[R E]|[[R E]|[R E]]]]; rewrite E; cbn [app length Nat.eqb andb].
  - replace (rune_self <=? c) with false by (unfold rune_self; lia). reflexivity.
  - rewrite andb_false_r. reflexivity.
  - rewrite andb_false_r. reflexivity.
  - rewrite andb_false_r. reflexivity.
Qed.

(* ---------- the skip counter ---------- *)

Lemma to_valid_aux_skip : forall pre rest,
  to_valid_aux (pre ++ rest) (length pre) = pre ++ to_valid_aux rest 0.
Proof.
  induction pre as [|b pre IH]; intros rest; [reflexivity|].
  cbn [app length to_valid_aux]. rewrite IH. reflexivity.
Qed.

Lemma valid_aux_skip : forall pre rest,
  valid_aux (pre ++ rest) (length pre) = valid_aux rest 0.
Proof.
  induction pre as [|b pre IH]; intros rest; [reflexivity|].
  cbn [app length valid_aux]. apply IH.
Qed.

Lemma to_valid_encode : forall c rest, scalar c ->
  to_valid_utf8 (utf8_encode c ++ rest) = utf8_encode c ++ to_valid_utf8 rest.
Proof.
  intros c rest Hs. unfold to_valid_utf8.
  pose proof (rune_width_encode c rest Hs) as W.
  pose proof (encode_length c) as L.
  destruct (utf8_encode c) as [|b e] eqn:E; [cbn [length] in L; lia|].
  cbn [app] in *. cbn [to_valid_aux]. rewrite W. cbn [length].
  rewrite to_valid_aux_skip. reflexivity.
Qed.

Lemma valid_encode : forall c rest, scalar c ->
  valid (utf8_encode c ++ rest) = valid rest.
Proof.
  intros c rest Hs. unfold valid.
  pose proof (rune_width_encode c rest Hs) as W.
  pose proof (encode_length c) as L.
  destruct (utf8_encode c) as [|b e] eqn:E; [cbn [length] in L; lia|].
  cbn [app] in *. cbn [valid_aux]. rewrite W. cbn [length].
  apply valid_aux_skip.
Qed.

Lemma encode_all_cons : forall c cs, utf8_encode_all (c :: cs) = utf8_encode c ++ utf8_encode_all cs.
Proof. reflexivity. Qed.

Lemma encode_all_app : forall a b, utf8_encode_all (a ++ b) = utf8_encode_all a ++ utf8_encode_all b.
Proof. intros a b. unfold utf8_encode_all. rewrite map_app, concat_app. reflexivity. Qed.

(* valid UTF-8 in front of anything is copied unchanged *)
Lemma to_valid_app_valid : forall w r, valid_utf8 w -> to_valid_utf8 (w ++ r) = w ++ to_valid_utf8 r.
Proof.
  intros w r [cs [Hcs ->]]. induction Hcs as [|c cs Hc Hcs IH]; [reflexivity|].
  rewrite encode_all_cons, <- app_assoc, to_valid_encode by assumption. rewrite IH, app_assoc. reflexivity.
Qed.

Lemma to_valid_nil : to_valid_utf8 [] = [].
Proof. reflexivity. Qed.

Lemma to_valid_id : forall s, valid_utf8 s -> to_valid_utf8 s = s.
Proof.
  intros s H. rewrite <- (app_nil_r s) at 1. rewrite to_valid_app_valid by assumption.
  rewrite to_valid_nil, app_nil_r. reflexivity.
Qed.

Lemma valid_utf8_nil : valid_utf8 [].
Proof. exists []. split; [constructor|reflexivity]. Qed.

Lemma valid_utf8_cons : forall c s, scalar c -> valid_utf8 s -> valid_utf8 (utf8_encode c ++ s).
Proof. intros c s Hc [cs [Hcs ->]]. exists (c :: cs). split; [constructor; assumption|reflexivity]. Qed.

Lemma valid_utf8_app : forall a b, valid_utf8 a -> valid_utf8 b -> valid_utf8 (a ++ b).
Proof.
  intros a b [ca [Ha ->]] [cb [Hb ->]]. exists (ca ++ cb). split; [apply Forall_app; split; assumption|].
  symmetry. apply encode_all_app.
Qed.

(* the result of ToValidUTF8(s, "") is valid UTF-8; stated with the skip counter:
   after the [skip] bytes that are copied blindly comes a valid string *)
Lemma to_valid_aux_valid : forall s skip, (skip <= length s)%nat ->
  exists v, to_valid_aux s skip = firstn skip s ++ v /\ valid_utf8 v.
Proof.
  induction s as [|b s IH]; intros skip Hk.
  - exists []. cbn [length] in Hk. replace skip with 0%nat by lia. split; [reflexivity|apply valid_utf8_nil].
  - destruct skip as [|k].
    + cbn [to_valid_aux firstn app]. destruct (rune_width (b :: s)) as [|k] eqn:W.
      * destruct (IH 0%nat) as [v [E V]]; [lia|]. exists v. rewrite E. split; [reflexivity|assumption].
      * destruct (rune_width_inv _ _ W) as [c [rest [Hc [Es El]]]].
        pose proof (f_equal (@length N) Es) as Hl. rewrite app_length, El in Hl. cbn [length] in Hl.
        destruct (IH k) as [v [E V]]; [lia|]. rewrite E.
        exists (utf8_encode c ++ v). split; [|apply valid_utf8_cons; assumption].
        destruct (utf8_encode c) as [|b' e] eqn:Ee; [discriminate|].
        cbn [app] in Es. injection Es as -> ->. cbn [length] in El. injection El as <-.
        rewrite firstn_app, firstn_all, Nat.sub_diag. cbn [firstn app]. rewrite app_nil_r. reflexivity.
    + cbn [length] in Hk. cbn [to_valid_aux firstn]. destruct (IH k) as [v [E V]]; [lia|].
      exists v. rewrite E. split; [reflexivity|assumption].
Qed.

Theorem to_valid_utf8_valid_lemma : forall s, valid_utf8 (to_valid_utf8 s).
Proof.
  intros s. destruct (to_valid_aux_valid s 0) as [v [E V]]; [lia|].
  unfold to_valid_utf8. rewrite E. exact V.
Qed.

(* utf8.Valid agrees with the specification *)
Lemma valid_aux_sound : forall s skip, (skip <= length s)%nat -> valid_aux s skip = true -> valid_utf8 (skipn skip s).
Proof.
  induction s as [|b s IH]; intros skip Hk H.
  - rewrite skipn_nil. apply valid_utf8_nil.
  - destruct skip as [|k].
    + cbn [valid_aux] in H. cbn [skipn]. destruct (rune_width (b :: s)) as [|k] eqn:W; [discriminate|].
      destruct (rune_width_inv _ _ W) as [c [rest [Hc [Es El]]]].
      pose proof (f_equal (@length N) Es) as Hl. rewrite app_length, El in Hl. cbn [length] in Hl.
      assert (V : valid_utf8 (skipn k s)) by (apply IH; [lia|assumption]).
      rewrite Es. replace rest with (skipn k s); [apply valid_utf8_cons; assumption|].
      destruct (utf8_encode c) as [|b' e] eqn:Ee; [discriminate|].
      cbn [app] in Es. injection Es as -> ->. cbn [length] in El. injection El as <-.
      rewrite skipn_app, skipn_all, Nat.sub_diag. reflexivity.
    + cbn [length] in Hk. cbn [valid_aux] in H. cbn [skipn]. apply IH; [lia|assumption].
Qed.

Theorem valid_iff_lemma : forall s, valid s = true <-> valid_utf8 s.
Proof.
  intros s. split.
  - intros H. apply (valid_aux_sound s 0); [lia|exact H].
  - intros [cs [Hcs ->]]. induction Hcs as [|c cs Hc Hcs IH]; [reflexivity|].
    rewrite encode_all_cons, valid_encode by assumption. exact IH.
Qed.

(* ---------- ToValidUTF8 only removes bytes ---------- *)

Lemma to_valid_aux_length : forall s skip, (length (to_valid_aux s skip) <= length s)%nat.
Proof.
  induction s as [|b s IH]; intros skip; [cbn; lia|].
  cbn [to_valid_aux]. destruct skip as [|k].
  - destruct (rune_width (b :: s)); cbn [length]; [specialize (IH 0%nat)|specialize (IH n)]; lia.
  - cbn [length]. specialize (IH k). lia.
Qed.

Lemma to_valid_aux_Forall : forall (P : N -> Prop) s skip, Forall P s -> Forall P (to_valid_aux s skip).
Proof.
  intros P. induction s as [|b s IH]; intros skip H; [constructor|].
  inversion H as [|? ? Hb Hs]; subst. cbn [to_valid_aux]. destruct skip as [|k].
  - destruct (rune_width (b :: s)); [apply IH; assumption|constructor; [assumption|apply IH; assumption]].
  - constructor; [assumption|apply IH; assumption].
Qed.

(* ---------- findLastEndOfASCII and CleanUTF8 ---------- *)

Lemma last_ascii_scan_non_ascii : forall r r2 n, non_ascii r ->
  last_ascii_scan (r ++ r2) n = last_ascii_scan r2 (n - length r).
Proof.
  induction r as [|b r IH]; intros r2 n H.
  - cbn [app length]. f_equal. lia.
  - inversion H as [|? ? Hb Hr]; subst. cbn [app last_ascii_scan length].
    replace (b <=? 127) with false by lia. rewrite IH by assumption. f_equal. lia.
Qed.

Lemma non_ascii_rev : forall w, non_ascii w -> non_ascii (rev w).
Proof. intros w H. unfold non_ascii in *. apply Forall_rev. exact H. Qed.

(* position found by findLastEndOfASCII *)
Lemma find_last_end_of_ascii_spec : forall a w, ends_with_ascii a -> non_ascii w ->
  find_last_end_of_ascii (a ++ w) = length a.
Proof.
  intros a w Ha Hw. unfold find_last_end_of_ascii.
  rewrite rev_append_rev, app_nil_r, rev_app_distr, app_length.
  rewrite last_ascii_scan_non_ascii by (apply non_ascii_rev; exact Hw).
  rewrite rev_length. replace (length a + length w - length w)%nat with (length a) by lia.
  destruct Ha as [->|[a' [b [-> Hb]]]]; [reflexivity|].
  rewrite rev_app_distr. cbn [rev app last_ascii_scan].
  replace (b <=? 127) with true by lia. reflexivity.
Qed.

(* every byte string splits at its last ASCII byte *)
Lemma split_at_last_ascii : forall s, exists a w, s = a ++ w /\ ends_with_ascii a /\ non_ascii w.
Proof.
  induction s as [|b s [a [w [-> [Ha Hw]]]]].
  - exists [], []. split; [reflexivity|]. split; [left; reflexivity|constructor].
  - destruct Ha as [->|[a' [b' [-> Hb']]]].
    + destruct (b <? 128) eqn:Eb.
      * exists [b], w. split; [reflexivity|]. split; [|assumption]. right. exists [], b. split; [reflexivity|lia].
      * exists [], (b :: w). split; [reflexivity|]. split; [left; reflexivity|]. constructor; [lia|assumption].
    + exists (b :: a' ++ [b']), w. split; [reflexivity|]. split; [|assumption].
      right. exists (b :: a'), b'. split; [reflexivity|assumption].
Qed.

Lemma clean_utf8_split : forall a w, ends_with_ascii a -> non_ascii w ->
  clean_utf8 (a ++ w) = a ++ to_valid_utf8 w.
Proof.
  intros a w Ha Hw. unfold clean_utf8.
  destruct (a ++ w) as [|x y] eqn:E.
  - destruct a; [|discriminate]. destruct w; [|discriminate]. reflexivity.
  - rewrite <- E. rewrite find_last_end_of_ascii_spec by assumption.
    unfold overwrite_n_truncate.
    rewrite skipn_app, skipn_all, Nat.sub_diag. cbn [skipn app].
    rewrite firstn_app, firstn_all, Nat.sub_diag. cbn [firstn]. rewrite app_nil_r.
    rewrite app_length. replace (length a + length w - length a)%nat with (length w) by lia.
    rewrite firstn_all2; [reflexivity|]. apply to_valid_aux_length.
Qed.

(* the result of CleanUTF8 never ends inside a character, and keeps everything up to the last ASCII byte *)
Theorem clean_utf8_boundary_lemma : forall s, ends_on_boundary (clean_utf8 s).
Proof.
  intros s. destruct (split_at_last_ascii s) as [a [w [-> [Ha Hw]]]].
  rewrite clean_utf8_split by assumption.
  exists a, (to_valid_utf8 w). split; [reflexivity|]. split; [assumption|].
  split; [apply to_valid_aux_Forall; exact Hw|apply to_valid_utf8_valid_lemma].
Qed.

Theorem clean_utf8_length_lemma : forall s, (length (clean_utf8 s) <= length s)%nat.
Proof.
  intros s. destruct (split_at_last_ascii s) as [a [w [-> [Ha Hw]]]].
  rewrite clean_utf8_split by assumption. rewrite !app_length.
  pose proof (to_valid_aux_length w 0). unfold to_valid_utf8. lia.
Qed.

(* valid UTF-8 splits at its last ASCII byte into two valid parts *)
Lemma valid_split_at_last_ascii : forall s, valid_utf8 s ->
  exists a w, s = a ++ w /\ ends_with_ascii a /\ non_ascii w /\ valid_utf8 w.
Proof.
  intros s [cs [Hcs ->]]. induction Hcs as [|c cs Hc Hcs [a [w [E [Ha [Hw Vw]]]]]].
  - exists [], []. split; [reflexivity|]. split; [left; reflexivity|]. split; [constructor|apply valid_utf8_nil].
  - rewrite encode_all_cons, E. destruct Ha as [->|[a' [b' [-> Hb']]]].
    + destruct (c <? 128) eqn:Ec.
      * exists [c], w. rewrite utf8_encode_1 by lia. split; [reflexivity|]. split; [|split; assumption].
        right. exists [], c. split; [reflexivity|lia].
      * exists [], (utf8_encode c ++ w). split; [reflexivity|]. split; [left; reflexivity|].
        split; [apply Forall_app; split; [apply encode_non_ascii; [assumption|lia]|assumption]|].
        apply valid_utf8_cons; assumption.
    + exists (utf8_encode c ++ a' ++ [b']), w. split; [rewrite <- !app_assoc; reflexivity|].
      split; [|split; assumption]. right. exists (utf8_encode c ++ a'), b'. split; [rewrite <- app_assoc; reflexivity|assumption].
Qed.

Theorem clean_utf8_valid_id_lemma : forall s, valid_utf8 s -> clean_utf8 s = s.
Proof.
  intros s H. destruct (valid_split_at_last_ascii s H) as [a [w [-> [Ha [Hw Vw]]]]].
  rewrite clean_utf8_split by assumption. rewrite to_valid_id by assumption. reflexivity.
Qed.

(* ---------- a character cut short ---------- *)

(* a non-empty proper prefix of the encoding of a character *)
Definition partial_rune (t : bytes) : Prop :=
  exists c j, scalar c /\ (0 < j < length (utf8_encode c))%nat /\ t = firstn j (utf8_encode c).

Lemma rune_width_cont : forall b s, 128 <= b <= 191 -> rune_width (b :: s) = 0%nat.
Proof.
  intros b s H. unfold rune_width, decode_rune. rewrite first_cont by lia. cbn [snd Nat.eqb].
  replace (rune_self <=? b) with true by (unfold rune_self; lia). reflexivity.
Qed.

Lemma to_valid_conts : forall s, Forall (fun b => 128 <= b <= 191) s -> to_valid_utf8 s = [].
Proof.
  unfold to_valid_utf8. induction s as [|b s IH]; intros H; [reflexivity|].
  inversion H as [|? ? Hb Hs]; subst. cbn [to_valid_aux]. rewrite rune_width_cont by assumption. apply IH. assumption.
Qed.

Lemma Forall_firstn_keep : forall (A : Type) (P : A -> Prop) n (l : list A), Forall P l -> Forall P (firstn n l).
Proof.
  intros A P. induction n as [|n IH]; intros l H; [constructor|].
  destruct l as [|x l]; [constructor|]. inversion H; subst. cbn [firstn]. constructor; [assumption|apply IH; assumption].
Qed.

Lemma partial_rune_non_ascii : forall t, partial_rune t -> non_ascii t.
Proof.
  intros t [c [j [Hc [Hj ->]]]]. unfold non_ascii. apply Forall_firstn_keep.
  apply encode_non_ascii; [assumption|].
  destruct (N.lt_ge_cases c 128) as [Hlt|Hge]; [|exact Hge].
  rewrite utf8_encode_1 in Hj by assumption. cbn [length] in Hj. lia.
Qed.

Lemma partial_rune_to_valid : forall t, partial_rune t -> to_valid_utf8 t = [].
Proof.
  intros t [c [j [Hc [Hj ->]]]]. unfold scalar in Hc.
  destruct (encode_length_cases c) as [[R E]|[[R E]|[[R E]|[R E]]]]; rewrite E in *; cbn [length] in Hj.
  - lia.
  - assert (j = 1%nat) by lia. subst j. cbn [firstn].
    unfold to_valid_utf8. cbn [to_valid_aux]. unfold rune_width, decode_rune.
    rewrite first_2 by lia. cbn [snd Nat.eqb].
    replace (rune_self <=? 192 + c / 64) with true by (unfold rune_self; lia). reflexivity.
  - assert (Hf : exists sz lo hi, first (224 + c / 4096) = FLead sz lo hi /\ (3 <= sz)%nat).
    { destruct (first_cases (224 + c / 4096)) as [[R' F]|[[R' F]|[[R' F]|[[R' F]|[[R' F]|[[R' F]|[[R' F]|[[R' F]|[R' F]]]]]]]]];
        try lia; rewrite F; eauto 6. }
    destruct Hf as [sz [lo [hi [F Hsz]]]].
    assert (Hl : rune_self <=? 224 + c / 4096 = true) by (unfold rune_self; lia).
    assert (j = 1 \/ j = 2)%nat as [->| ->] by lia; cbn [firstn]; unfold to_valid_utf8; cbn [to_valid_aux];
      unfold rune_width at 1, decode_rune; rewrite F, Hl.
    + reflexivity.
    + destruct ((128 + (c / 64) mod 64 <? lo) || (hi <? 128 + (c / 64) mod 64)).
      * cbn [snd Nat.eqb andb]. rewrite rune_width_cont by lia. reflexivity.
      * replace (sz <=? 2)%nat with false by lia. cbn [snd Nat.eqb andb]. rewrite rune_width_cont by lia. reflexivity.
  - assert (Hf : exists lo hi, first (240 + c / 262144) = FLead 4 lo hi).
    { destruct (first_cases (240 + c / 262144)) as [[R' F]|[[R' F]|[[R' F]|[[R' F]|[[R' F]|[[R' F]|[[R' F]|[[R' F]|[R' F]]]]]]]]];
        try lia; rewrite F; eauto. }
    destruct Hf as [lo [hi F]].
    assert (Hl : rune_self <=? 240 + c / 262144 = true) by (unfold rune_self; lia).
    assert (j = 1 \/ j = 2 \/ j = 3)%nat as [->|[->| ->]] by lia; cbn [firstn]; unfold to_valid_utf8; cbn [to_valid_aux];
      unfold rune_width at 1, decode_rune; rewrite F, Hl.
    + reflexivity.
    + destruct ((128 + (c / 4096) mod 64 <? lo) || (hi <? 128 + (c / 4096) mod 64));
        cbn [Nat.leb snd Nat.eqb andb]; rewrite rune_width_cont by lia; reflexivity.
    + destruct ((128 + (c / 4096) mod 64 <? lo) || (hi <? 128 + (c / 4096) mod 64)).
      * cbn [snd Nat.eqb andb]. rewrite rune_width_cont by lia. rewrite rune_width_cont by lia. reflexivity.
      * cbn [Nat.leb]. destruct (negb (is_cont (128 + (c / 64) mod 64)));
          cbn [snd Nat.eqb andb]; rewrite rune_width_cont by lia; rewrite rune_width_cont by lia; reflexivity.
Qed.

(* valid UTF-8 followed by a character cut short: CleanUTF8 removes exactly the partial character *)
Theorem clean_utf8_partial_lemma : forall v t, valid_utf8 v -> partial_rune t -> clean_utf8 (v ++ t) = v.
Proof.
  intros v t Hv Ht. destruct (valid_split_at_last_ascii v Hv) as [a [w [-> [Ha [Hw Vw]]]]].
  rewrite <- app_assoc. rewrite clean_utf8_split; [|assumption|apply Forall_app; split; [assumption|apply partial_rune_non_ascii; assumption]].
  rewrite to_valid_app_valid by assumption. rewrite partial_rune_to_valid by assumption. rewrite app_nil_r. reflexivity.
Qed.

(* ---------- cutting valid UTF-8 at a byte position ---------- *)

Lemma firstn_encode_all : forall cs n, Forall scalar cs -> (n < length (utf8_encode_all cs))%nat ->
  exists cs1 c cs2 t,
    cs = cs1 ++ c :: cs2 /\
    firstn n (utf8_encode_all cs) = utf8_encode_all cs1 ++ t /\
    (t = [] \/ partial_rune t) /\
    (length (utf8_encode_all cs1) <= n < length (utf8_encode_all cs1) + length (utf8_encode c))%nat.
Proof.
  induction cs as [|c cs IH]; intros n Hs Hn; [cbn in Hn; lia|].
  inversion Hs as [|? ? Hc Hcs]; subst.
  rewrite encode_all_cons in *. rewrite app_length in Hn.
  destruct (Nat.lt_ge_cases n (length (utf8_encode c))) as [Hlt|Hge].
  - exists [], c, cs, (firstn n (utf8_encode c)). split; [reflexivity|].
    split; [rewrite firstn_app; replace (n - length (utf8_encode c))%nat with 0%nat by lia; cbn [firstn]; rewrite app_nil_r; reflexivity|].
    split; [|cbn [utf8_encode_all map concat length]; lia].
    destruct n as [|n]; [left; reflexivity|]. right. exists c, (S n). split; [assumption|]. split; [lia|reflexivity].
  - destruct (IH (n - length (utf8_encode c))%nat Hcs) as [cs1 [c' [cs2 [t [E [F [T L]]]]]]]; [lia|].
    exists (c :: cs1), c', cs2, t. split; [rewrite E; reflexivity|].
    split; [rewrite firstn_app, firstn_all2 by lia; rewrite F, encode_all_cons, app_assoc; reflexivity|].
    split; [assumption|]. rewrite encode_all_cons, app_length. lia.
Qed.

(* Valid UTF-8 cut after n bytes and cleaned: exactly the whole characters that fit into n bytes *)
Theorem clean_cut_valid_lemma : forall cs n, Forall scalar cs -> (n < length (utf8_encode_all cs))%nat ->
  exists cs1 c cs2,
    cs = cs1 ++ c :: cs2 /\
    clean_utf8 (firstn n (utf8_encode_all cs)) = utf8_encode_all cs1 /\
    (length (utf8_encode_all cs1) <= n < length (utf8_encode_all cs1) + length (utf8_encode c))%nat.
Proof.
  intros cs n Hs Hn. destruct (firstn_encode_all cs n Hs Hn) as [cs1 [c [cs2 [t [E [F [T L]]]]]]].
  exists cs1, c, cs2. split; [assumption|]. split; [|assumption].
  assert (V : valid_utf8 (utf8_encode_all cs1)).
  { exists cs1. split; [|reflexivity]. rewrite E in Hs. apply Forall_app in Hs. apply Hs. }
  rewrite F. destruct T as [->|T].
  - rewrite app_nil_r. apply clean_utf8_valid_id_lemma. exact V.
  - apply clean_utf8_partial_lemma; assumption.
Qed.

(* ---------- the encoding is uniquely decodable ---------- *)

Lemma encode_all_injective : forall cs cs', Forall scalar cs -> Forall scalar cs' ->
  utf8_encode_all cs = utf8_encode_all cs' -> cs = cs'.
Proof.
  induction cs as [|c cs IH]; intros cs' H H' E.
  - destruct cs' as [|c' cs']; [reflexivity|]. exfalso.
    rewrite encode_all_cons in E. pose proof (encode_length c') as L.
    destruct (utf8_encode c'); [cbn [length] in L; lia|discriminate E].
  - destruct cs' as [|c' cs'].
    + exfalso. rewrite encode_all_cons in E. pose proof (encode_length c) as L.
      destruct (utf8_encode c); [cbn [length] in L; lia|discriminate E].
    + inversion H as [|? ? Hc Hcs]; subst. inversion H' as [|? ? Hc' Hcs']; subst.
      rewrite !encode_all_cons in E.
      pose proof (decode_encode c (utf8_encode_all cs) Hc) as D. rewrite E in D.
      rewrite (decode_encode c' (utf8_encode_all cs') Hc') in D. injection D as -> _.
      apply app_inv_head in E. f_equal. apply IH; assumption.
Qed.
