(* Record-level order invariants of Model/System.v (C05): along the pipeline of a stream (connection k, pipeline p)
   the sequence numbers increase; chunk ids order the records of a stream. *)
From Coq Require Import List Arith Bool Lia PeanoNat NArith Permutation.
From SV Require Import Model.Common Model.System Proofs.SystemLists Proofs.SystemProofs Proofs.SystemAlo
  Proofs.SystemOrderLists Proofs.SystemOrder.
Import ListNotations.
Open Scope nat_scope.

Section Stream.
Variables k p : nat.

Definition sq (l : list tok) : list nat := map t_seq (filter (on_cp k p) l).

(* the records of the stream that are still in front of the chunk maker, oldest first *)
Definition upath (s : state) : list tok :=
  cur s ++ hand s ++ toks_of_batches (chans s) ++ key_buf s ++ sink_batch s ++ conn_buf s.

Lemma sq_app : forall a b, sq (a ++ b) = sq a ++ sq b.
Proof. intros. unfold sq. rewrite filter_app, map_app. reflexivity. Qed.

Lemma sq_in : forall l x, In x (sq l) <-> exists t, In t l /\ on_cp k p t = true /\ t_seq t = x.
Proof.
  intros. unfold sq. rewrite in_map_iff. split.
  - intros [t [E H]]. apply filter_In in H. exists t. tauto.
  - intros [t [H1 [H2 H3]]]. exists t. split; [assumption|]. apply filter_In. tauto.
Qed.

Lemma sq_sublist : forall a b, sublist a b -> sublist (sq a) (sq b).
Proof. intros. unfold sq. apply sublist_map. apply sublist_filter_mono. assumption. Qed.

Lemma on_cp_spec : forall t, on_cp k p t = true <-> t_conn t = k /\ t_pipe t = p.
Proof. intros. unfold on_cp, on_conn, on_pipe. rewrite andb_true_iff, !Nat.eqb_eq. tauto. Qed.

Lemma sq_none : forall l, (forall t, In t l -> on_cp k p t = false) -> sq l = [].
Proof.
  intros l H. unfold sq. induction l as [|x l IH]; cbn; [reflexivity|].
  rewrite (H x (or_introl eq_refl)). apply IH. intros y Hy. apply H. right. assumption.
Qed.

Record ordt (s : state) : Prop := mkOrdt {
  T1 : incr (sq (upath s));
  T2 : forall c, In c (all_chunks s) -> c_pipe c = p ->
         incr (sq (c_toks c)) /\ (forall x y, In x (sq (c_toks c)) -> In y (sq (upath s)) -> x < y);
  T3 : forall c c', In c (all_chunks s) -> In c' (all_chunks s) -> c_pipe c = p -> c_pipe c' = p -> c_id c < c_id c' ->
         forall x y, In x (sq (c_toks c)) -> In y (sq (c_toks c')) -> x < y;
  T5 : forall c t, In c (all_chunks s) -> In t (c_toks c) -> In t (ingested s)
}.

End Stream.


Section StreamLemmas.
Variables k p : nat.
Notation sq := (sq k p).

Lemma sq_single : forall t, sq [t] = if on_cp k p t then [t_seq t] else [].
Proof. intros. unfold Proofs.SystemOrderTok.sq. cbn. destruct (on_cp k p t); reflexivity. Qed.

Lemma sq_take : forall (f : tok -> bool) l t r, take_first f l = Some (t, r) ->
  (forall y, on_cp k p y = true -> f y = true) \/ on_cp k p t = false ->
  sq l = sq [t] ++ sq r.
Proof.
  intros f l t r H Hc. rewrite sq_single. unfold Proofs.SystemOrderTok.sq.
  destruct (on_cp k p t) eqn:E.
  - destruct Hc as [Hc|Hc]; [|discriminate].
    rewrite (take_first_filter_hit _ f (on_cp k p) l t r H Hc E). reflexivity.
  - rewrite (take_first_filter_miss _ f (on_cp k p) l t r H E). reflexivity.
Qed.

Lemma sq_part_in : forall (f : tok -> bool) l a b, partition f l = (a, b) ->
  (forall y, on_cp k p y = true -> f y = true) -> sq l = sq a /\ sq b = [].
Proof.
  intros f l a b H Hc. unfold Proofs.SystemOrderTok.sq.
  destruct (partition_filter_in _ f (on_cp k p) l a b H Hc) as [E1 E2]. rewrite E1, E2. split; reflexivity.
Qed.

Lemma sq_part_out : forall (f : tok -> bool) l a b, partition f l = (a, b) ->
  (forall y, on_cp k p y = true -> f y = false) -> sq l = sq b /\ sq a = [].
Proof.
  intros f l a b H Hc. unfold Proofs.SystemOrderTok.sq.
  destruct (partition_filter_out _ f (on_cp k p) l a b H Hc) as [E1 E2]. rewrite E1, E2. split; reflexivity.
Qed.

Lemma sq_part_any : forall (f : tok -> bool) l a b, partition f l = (a, b) ->
  (forall y, on_cp k p y = true -> f y = true) \/ (forall y, on_cp k p y = true -> f y = false) ->
  sq l = sq a ++ sq b.
Proof.
  intros f l a b H [Hc|Hc].
  - destruct (sq_part_in _ _ _ _ H Hc) as [E1 E2]. rewrite E1, E2, app_nil_r. reflexivity.
  - destruct (sq_part_out _ _ _ _ H Hc) as [E1 E2]. rewrite E1, E2. reflexivity.
Qed.

Lemma conn_const : forall k0, (forall y, on_cp k p y = true -> on_conn k0 y = true) \/ (forall y, on_cp k p y = true -> on_conn k0 y = false).
Proof.
  intros k0. destruct (Nat.eq_dec k0 k) as [->|N]; [left|right]; intros y Hy; apply on_cp_spec in Hy; unfold on_conn.
  - apply Nat.eqb_eq. tauto.
  - apply Nat.eqb_neq. destruct Hy. congruence.
Qed.
Lemma pipe_const : forall p0, (forall y, on_cp k p y = true -> on_pipe p0 y = true) \/ (forall y, on_cp k p y = true -> on_pipe p0 y = false).
Proof.
  intros p0. destruct (Nat.eq_dec p0 p) as [->|N]; [left|right]; intros y Hy; apply on_cp_spec in Hy; unfold on_pipe.
  - apply Nat.eqb_eq. tauto.
  - apply Nat.eqb_neq. destruct Hy. congruence.
Qed.
Lemma cp_const : forall k0 p0, (forall y, on_cp k p y = true -> on_cp k0 p0 y = true) \/ (forall y, on_cp k p y = true -> on_cp k0 p0 y = false).
Proof.
  intros k0 p0. destruct (Nat.eq_dec k0 k) as [->|N]; [destruct (Nat.eq_dec p0 p) as [->|N]|]; [left; auto|right|right];
    intros y Hy; apply on_cp_spec in Hy; destruct Hy as [H1 H2]; unfold on_cp, on_conn, on_pipe; apply andb_false_iff.
  - right. apply Nat.eqb_neq. congruence.
  - left. apply Nat.eqb_neq. congruence.
Qed.

Lemma take_conn_hit : forall k0 t, on_conn k0 t = true ->
  (forall y, on_cp k p y = true -> on_conn k0 y = true) \/ on_cp k p t = false.
Proof.
  intros k0 t Ht. destruct (on_cp k p t) eqn:E; [left|right; reflexivity].
  apply on_cp_spec in E. unfold on_conn in Ht. apply Nat.eqb_eq in Ht. intros y Hy. apply on_cp_spec in Hy.
  unfold on_conn. apply Nat.eqb_eq. destruct E, Hy. congruence.
Qed.
Lemma take_pipe_hit : forall p0 t, on_pipe p0 t = true ->
  (forall y, on_cp k p y = true -> on_pipe p0 y = true) \/ on_cp k p t = false.
Proof.
  intros p0 t Ht. destruct (on_cp k p t) eqn:E; [left|right; reflexivity].
  apply on_cp_spec in E. unfold on_pipe in Ht. apply Nat.eqb_eq in Ht. intros y Hy. apply on_cp_spec in Hy.
  unfold on_pipe. apply Nat.eqb_eq. destruct E, Hy. congruence.
Qed.

(* the batches in front of the first batch of pipeline p0 hold no record of that pipeline *)
Lemma sq_take_batch : forall s p0 b rest, aux s -> take_first (batch_on p0) (chans s) = Some (b, rest) ->
  sq (toks_of_batches (chans s)) = sq (snd b) ++ sq (toks_of_batches rest).
Proof.
  intros s p0 b rest Ha H. destruct (take_first_spec _ _ _ _ _ H) as [Fb [a [c [E1 [E2 Hpre]]]]].
  assert (B0 : forall b' t, In b' (chans s) -> In t (snd b') -> t_pipe t = fst b') by (apply (aB0 _ Ha)).
  rewrite E1 in *. subst rest. unfold toks_of_batches. rewrite !flat_map_app. cbn. rewrite !sq_app.
  apply batch_on_true in Fb.
  destruct (Nat.eq_dec p0 p) as [->|N].
  - assert (X : sq (flat_map snd a) = []).
    { apply sq_none. intros t Ht. apply in_flat_map in Ht. destruct Ht as [b' [Hb' Ht]].
      assert (P : t_pipe t = fst b') by (apply B0; [apply in_or_app; tauto|assumption]).
      specialize (Hpre b' Hb'). apply batch_on_false in Hpre.
      destruct (on_cp k p t) eqn:E; [|reflexivity]. apply on_cp_spec in E. destruct E. congruence. }
    rewrite X. reflexivity.
  - assert (X : sq (snd b) = []).
    { apply sq_none. intros t Ht. assert (P : t_pipe t = fst b) by (apply B0; [apply in_or_app; right; left; reflexivity|assumption]).
      destruct (on_cp k p t) eqn:E; [|reflexivity]. apply on_cp_spec in E. destruct E. congruence. }
    rewrite X. cbn. reflexivity.
Qed.
End StreamLemmas.

Lemma singleton_toks : forall l, toks_of_batches (singleton_batches l) = l.
Proof. exact singleton_batches_toks. Qed.

Lemma sq_step_sub : forall k p s e s', aux s -> step s e = Some s' -> (forall t, e <> EIngest t) ->
  sublist (sq k p (upath s')) (sq k p (upath s)).
Proof.
  intros k p s e s' Ha H Hn. unfold upath.
  destruct e; step_inv H; guards; unfold_ord; try (apply sublist_refl).
  all: try (exfalso; eapply Hn; reflexivity).
  all: rewrite ?toks_of_batches_app, ?singleton_toks; rewrite !sq_app.
  all: try (apply sublist_app; [|apply sublist_refl]; apply sq_sublist;
            match goal with E : partition _ (cur _) = _ |- _ => apply (proj2 (partition_sublists _ _ _ _ _ E)) end; fail).
  all: try (cbn; apply sublist_nil_l; fail).
  - (* Frame *)
    rewrite (sq_take k p _ _ _ _ E (take_conn_hit k p _ _ (proj1 (take_first_spec _ _ _ _ _ E)))).
    rewrite <- ?app_assoc. cbn [app]. rewrite <- ?app_assoc. apply sublist_refl.
  - (* SinkSend *)
    rewrite (sq_part_any k p _ _ _ _ E (conn_const k p k0)). rewrite <- ?app_assoc. cbn [app]. rewrite <- ?app_assoc. apply sublist_refl.
  - (* KeyFlush *)
    rewrite (sq_part_any k p _ _ _ _ E (cp_const k p k0 p0)). unfold toks_of_batches at 2. cbn [flat_map snd]. rewrite app_nil_r.
    rewrite <- ?app_assoc. cbn [app]. rewrite <- ?app_assoc. apply sublist_refl.
  - (* FlushTimeout *)
    repeat (apply sublist_app; [apply sublist_refl|]). apply sublist_app; [|apply sublist_refl].
    apply sq_sublist. apply (proj2 (partition_sublists _ _ _ _ _ E)).
  - (* ConnEnd *)
    rewrite (sq_part_any k p _ _ _ _ E0 (conn_const k p k0)), (sq_part_any k p _ _ _ _ E1 (conn_const k p k0)),
            (sq_part_any k p _ _ _ _ E2 (conn_const k p k0)).
    destruct (conn_const k p k0) as [C|C].
    + rewrite (proj2 (sq_part_in k p _ _ _ _ E0 C)), (proj2 (sq_part_in k p _ _ _ _ E1 C)), (proj2 (sq_part_in k p _ _ _ _ E2 C)).
      rewrite !app_nil_r. rewrite <- ?app_assoc. cbn [app]. rewrite <- ?app_assoc. apply sublist_refl.
    + rewrite (proj2 (sq_part_out k p _ _ _ _ E0 C)), (proj2 (sq_part_out k p _ _ _ _ E1 C)), (proj2 (sq_part_out k p _ _ _ _ E2 C)).
      cbn [app]. rewrite <- ?app_assoc. cbn [app]. rewrite <- ?app_assoc. apply sublist_refl.
  - (* WorkerTake *)
    rewrite (sq_take_batch k p s p0 _ _ Ha E0). rewrite <- ?app_assoc. cbn [app]. rewrite <- ?app_assoc. apply sublist_refl.
  - (* WorkerStep, kept *)
    rewrite (sq_take k p _ _ _ _ E (take_pipe_hit k p _ _ (proj1 (take_first_spec _ _ _ _ _ E)))).
    rewrite <- ?app_assoc. cbn [app]. rewrite <- ?app_assoc. apply sublist_refl.
  - (* WorkerStep, filtered *)
    apply sublist_app; [apply sublist_refl|]. apply sublist_app; [|apply sublist_refl].
    apply sq_sublist. eapply take_first_sublist; eassumption.
Qed.

Lemma sq_step_ingest : forall k p s t s', step s (EIngest t) = Some s' ->
  sq k p (upath s') = sq k p (upath s) ++ sq k p [t].
Proof.
  intros k p s t s' H. unfold upath. step_inv H. unfold_ord. rewrite !sq_app. rewrite <- !app_assoc. reflexivity.
Qed.

Lemma new_chunk_sq : forall k p (cur0 mine others R : list tok),
  partition (on_pipe p) cur0 = (mine, others) -> sq k p (cur0 ++ R) = sq k p mine ++ sq k p (others ++ R).
Proof.
  intros k p cur0 mine others R H. rewrite !sq_app.
  assert (C : forall y, on_cp k p y = true -> on_pipe p y = true).
  { intros y Hy. apply on_cp_spec in Hy. unfold on_pipe. apply Nat.eqb_eq. tauto. }
  destruct (sq_part_in k p _ _ _ _ H C) as [E1 E2]. rewrite E1, E2. reflexivity.
Qed.

Lemma all_chunks_step : forall k p s e s', aux s -> step s e = Some s' ->
  forall c, In c (all_chunks s') ->
  In c (all_chunks s) \/
  (lastid s < c_id c /\ lastid s' = c_id c /\ (forall t, In t (c_toks c) -> In t (cur s)) /\
   (c_pipe c = p -> sq k p (upath s) = sq k p (c_toks c) ++ sq k p (upath s'))).
Proof.
  intros k p s e s' Ha H c Hc.
  destruct e; step_inv H; guards; unfold_ord; try (left; exact Hc).
  all: ltb_facts.
  all: chunk_facts c; norm_chunks; rewrite ?in_map_chunk_sort in *; norm_chunks.
  all: try (left; tauto).
  all: try (persist_cases; norm_chunks; left; tauto).
  all: try (match goal with Hc : context [mkChunk ?id ?pp ?ts] |- _ =>
         destruct (chunk_eq_dec (mkChunk id pp ts) c) as [<-|Nc]; [right|left; tauto] end;
       cbn [c_id c_pipe c_toks lastid]; split; [assumption|]; split; [reflexivity|]; split;
       [intros t0 Ht0; eapply part_fst_in; eassumption|];
       intros Ep; subst; unfold upath; cbn [cur hand chans key_buf sink_batch conn_buf]; eapply new_chunk_sq; eassumption).
  - left. destruct (q_saved q); [rewrite remove_file_in in Hc|]; tauto.
  - left. unfold recovered_queue in Hc. rewrite in_map_chunk_sort, map_map in Hc. cbn in Hc. rewrite map_id in Hc. tauto.
Qed.

Lemma upath_anywhere : forall s t, In t (upath s) -> In t (anywhere s).
Proof.
  intros s t H. unfold upath in H. unfold anywhere, live, transit. rewrite !in_app_iff in *. tauto.
Qed.

Lemma fresh_lt : forall t l u, stamp_fresh t l = true -> In u l -> t_conn u = t_conn t -> t_seq u < t_seq t.
Proof.
  intros t l u H Hu Ec. unfold stamp_fresh in H. rewrite none_of_spec in H. specialize (H u Hu).
  apply andb_false_iff in H. destruct H as [H|H].
  - apply Nat.eqb_neq in H. congruence.
  - apply Nat.leb_gt in H. exact H.
Qed.

Lemma ingest_guard : forall s t s', step s (EIngest t) = Some s' -> stamp_fresh t (ingested s) = true /\ ingested s' = t :: ingested s.
Proof.
  intros s t s' H. cbn [step] in H. destruct (mem_nat (t_conn t) (open_conns s)); [|discriminate].
  destruct (stamp_fresh t (ingested s)) eqn:F; [|discriminate]. cbn in H. inversion H; subst. cbn. auto.
Qed.

Lemma ingested_mono : forall s e s' t, step s e = Some s' -> In t (ingested s) -> In t (ingested s').
Proof.
  intros s e s' t H Ht. destruct (step_ingested _ _ _ H) as [E|[t0 [_ E]]]; rewrite E; [assumption|right; assumption].
Qed.

Lemma event_ingest_dec : forall e, (exists t, e = EIngest t) \/ (forall t, e <> EIngest t).
Proof. intros e. destruct e; try (right; intros t0 Ht0; discriminate Ht0). left. eauto. Qed.

Lemma ordt_step : forall k p s e s', aux s -> cons_inv s -> (forall c, In c (all_chunks s) -> c_id c <= lastid s) ->
  ordt k p s -> step s e = Some s' -> ordt k p s'.
Proof.
  intros k p s e s' Ha Hc Hid [I1 I2 I3 I5] H.
  assert (N5 : forall c t, In c (all_chunks s') -> In t (c_toks c) -> In t (ingested s')).
  { intros c t Hin Ht. destruct (all_chunks_step k p s e s' Ha H c Hin) as [Old|[_ [_ [Hcur _]]]].
    - eapply ingested_mono; [exact H|]. eapply I5; eassumption.
    - eapply ingested_mono; [exact H|]. apply (cI2 _ Hc). apply upath_anywhere. unfold upath. apply in_or_app. left. auto. }
  destruct (event_ingest_dec e) as [[t0 ->]|Hn].
  - (* a record is read *)
    destruct (ingest_guard _ _ _ H) as [F Ei]. pose proof (sq_step_ingest k p s t0 s' H) as EU.
    assert (Hlt : forall u, In u (ingested s) -> on_cp k p u = true -> on_cp k p t0 = true -> t_seq u < t_seq t0).
    { intros u Hu Eu Et. apply (fresh_lt t0 (ingested s)); [exact F|exact Hu|]. apply on_cp_spec in Eu. apply on_cp_spec in Et. destruct Eu, Et. congruence. }
    assert (HU : forall y, In y (sq k p (upath s')) -> In y (sq k p (upath s)) \/ (on_cp k p t0 = true /\ y = t_seq t0)).
    { intros y Hy. rewrite EU in Hy. apply in_app_or in Hy. destruct Hy as [Hy|Hy]; [left; assumption|right].
      unfold sq in Hy. cbn in Hy. destruct (on_cp k p t0); [destruct Hy as [<-|[]]; auto|destruct Hy]. }
    assert (Old : forall c, In c (all_chunks s') -> In c (all_chunks s)).
    { intros c Hin. destruct (all_chunks_step k p s _ s' Ha H c Hin) as [O|[Hl [El _]]]; [exact O|].
      exfalso. step_inv H. cbn in El. lia. }
    constructor.
    + rewrite EU. apply incr_app. split; [exact I1|]. split.
      * unfold sq. cbn. destruct (on_cp k p t0); [apply incr_single|exact I].
      * intros x y Hx Hy. unfold sq in Hy. cbn in Hy. destruct (on_cp k p t0) eqn:Et; [|destruct Hy].
        destruct Hy as [<-|[]]. apply sq_in in Hx. destruct Hx as [u [Hu [Eu <-]]].
        apply Hlt; auto. apply (cI2 _ Hc). apply upath_anywhere. exact Hu.
    + intros c Hin Ep. destruct (I2 c (Old c Hin) Ep) as [A B]. split; [exact A|].
      intros x y Hx Hy. destruct (HU y Hy) as [Hy'|[Et ->]]; [apply B; assumption|].
      apply sq_in in Hx. destruct Hx as [u [Hu [Eu <-]]]. apply Hlt; auto. eapply I5; [exact (Old c Hin)|exact Hu].
    + intros c c' Hin Hin' Ep Ep' Hl x y Hx Hy. exact (I3 c c' (Old c Hin) (Old c' Hin') Ep Ep' Hl x y Hx Hy).
    + exact N5.
  - (* every other event *)
    pose proof (sq_step_sub k p s e s' Ha H Hn) as SU.
    constructor.
    + eapply incr_sublist; [exact SU|exact I1].
    + intros c Hin Ep. destruct (all_chunks_step k p s e s' Ha H c Hin) as [O|[Hl [_ [_ Hs]]]].
      * destruct (I2 c O Ep) as [A B]. split; [exact A|]. intros x y Hx Hy. apply B; [exact Hx|]. eapply sublist_in; eassumption.
      * specialize (Hs Ep). rewrite Hs in I1. apply incr_app in I1. tauto.
    + intros c c' Hin Hin' Ep Ep' Hlt x y Hx Hy.
      destruct (all_chunks_step k p s e s' Ha H c Hin) as [O|[Hl [El _]]];
      destruct (all_chunks_step k p s e s' Ha H c' Hin') as [O'|[Hl' [El' [_ Hs']]]].
      * exact (I3 c c' O O' Ep Ep' Hlt x y Hx Hy).
      * specialize (Hs' Ep'). destruct (I2 c O Ep) as [_ B]. apply B; [exact Hx|]. rewrite Hs'. apply in_or_app. left. exact Hy.
      * exfalso. specialize (Hid c' O'). lia.
      * exfalso. lia.
    + exact N5.
Qed.

Lemma ordt_init : forall k p, ordt k p init.
Proof. intros. constructor; cbn; try (intros; contradiction); exact I. Qed.
