(* C15: the template language — slices are Python slices, expansion never panics, the
   tokenizer reads back what a template of well-formed parts renders to. *)
From SV Require Import Model.Common Model.TfUnescape Model.Template Spec.TransformsSpec Proofs.CommonFacts.
From Coq Require Import Lia ZifyBool ZifyN ZifyNat.
Ltac Zify.zify_post_hook ::= Z.div_mod_to_equations.
Open Scope Z_scope.

(* parameters createVariableExpressionSolver derives from the optional bounds *)
Definition start_param (a : option Z) : Z := match a with Some x => x | None => 0 end.
Definition end_param (b : option Z) : Z := match b with Some x => x | None => max_int32 end.

Lemma py_empty : forall (v : bytes) lo hi,
  0 <= lo -> (hi <= lo \/ Z.of_nat (length v) <= lo) ->
  firstn (Z.to_nat (hi - lo)) (skipn (Z.to_nat lo) v) = [].
Proof.
  intros v lo hi Hlo [H|H].
  - replace (Z.to_nat (hi - lo)) with O by lia. reflexivity.
  - rewrite skipn_all2 by lia. apply firstn_nil.
Qed.

Lemma slice_python_lemma : forall v a b,
  Z.of_nat (length v) <= max_int32 ->
  solve_slice v (start_param a) (end_param b) = Ok (py_slice v a b).
Proof.
  intros v a b Hlen. unfold solve_slice, py_slice, go_slice. cbv zeta.
  set (len := Z.of_nat (length v)) in *.
  assert (Hl0 : 0 <= len) by lia.
  set (lo := py_index len a 0). set (hi := py_index len b len).
  set (s1 := if start_param a <? 0 then start_param a + len else start_param a).
  set (s2 := if s1 <? 0 then 0 else s1).
  set (e1 := if end_param b <? 0 then end_param b + len else end_param b).
  assert (Hlo : lo = Z.min s2 len /\ 0 <= s2).
  { unfold lo, s2, s1, py_index, start_param. destruct a as [x|]; [|cbn; lia].
    destruct (x <? 0) eqn:E1; [destruct (x + len <? 0) eqn:E2|destruct (x <? 0) eqn:E2]; lia. }
  assert (Hhi : (e1 < 0 -> hi = 0) /\ (0 <= e1 -> hi = Z.min e1 len)).
  { unfold hi, e1, py_index, end_param, max_int32 in *. destruct b as [x|].
    - destruct (x <? 0) eqn:E1; lia.
    - cbn. lia. }
  destruct Hlo as [Hlo Hs2]. destruct Hhi as [Hhi1 Hhi2].
  clearbody lo hi s2 e1. clear s1.
  destruct (s2 >=? len) eqn:E3.
  { f_equal. symmetry. apply py_empty; lia. }
  destruct (e1 <? 0) eqn:E4.
  { f_equal. symmetry. apply py_empty; lia. }
  assert (Hhi : hi = Z.min e1 len) by (apply Hhi2; lia).
  destruct (e1 >? len) eqn:E5.
  - destruct (s2 <? len) eqn:E6; [|lia].
    replace ((0 <=? s2) && (s2 <=? len) && (len <=? len))%bool with true by lia.
    f_equal. f_equal; [f_equal; lia|f_equal; lia].
  - destruct (s2 <? e1) eqn:E6.
    + replace ((0 <=? s2) && (s2 <=? e1) && (e1 <=? len))%bool with true by lia.
      f_equal. f_equal; [f_equal; lia|f_equal; lia].
    + f_equal. symmetry. apply py_empty; lia.
Qed.

(* the solver never panics, whatever the parameters *)
Lemma solve_slice_no_panic : forall v ps pe, exists r, solve_slice v ps pe = Ok r.
Proof.
  intros v ps pe. unfold solve_slice, go_slice. cbv zeta.
  set (len := Z.of_nat (length v)). assert (Hl0 : 0 <= len) by lia.
  set (s1 := if ps <? 0 then ps + len else ps).
  set (s2 := if s1 <? 0 then 0 else s1).
  set (e1 := if pe <? 0 then pe + len else pe).
  assert (Hs2 : 0 <= s2) by (unfold s2; destruct (s1 <? 0) eqn:E; lia).
  clearbody s2 e1 len.
  destruct (s2 >=? len) eqn:E3; [eexists; reflexivity|].
  destruct (e1 <? 0) eqn:E4; [eexists; reflexivity|].
  destruct (e1 >? len) eqn:E5.
  - destruct (s2 <? len) eqn:E6; [|eexists; reflexivity].
    replace ((0 <=? s2) && (s2 <=? len) && (len <=? len))%bool with true by lia. eexists; reflexivity.
  - destruct (s2 <? e1) eqn:E6; [|eexists; reflexivity].
    replace ((0 <=? s2) && (s2 <=? e1) && (e1 <=? len))%bool with true by lia. eexists; reflexivity.
Qed.

(* ---------- the tokenizer reads back the documented syntax ---------- *)
Open Scope N_scope.

Lemma is_word_iff : forall c, is_word c = true <-> word_char c.
Proof. intros c. unfold is_word, word_char. lia. Qed.

Lemma is_digit_iff : forall c, is_digit c = true <-> digit_byte c.
Proof. intros c. unfold is_digit, digit_byte. lia. Qed.

Definition stops (p : N -> bool) (rest : bytes) : Prop :=
  match rest with [] => True | c :: _ => p c = false end.

Lemma span_app_stop : forall p a rest, Forall (fun c => p c = true) a -> stops p rest ->
  span p (a ++ rest) = (a, rest).
Proof.
  intros p a rest Ha Hs. induction Ha as [|c a Hc Ha IH]; cbn [app].
  - destruct rest as [|c r]; [reflexivity|]. cbn in *. rewrite Hs. reflexivity.
  - cbn [span]. rewrite Hc, IH. reflexivity.
Qed.

Lemma index_byte_app_first : forall a c r, Forall (fun b => b <> c) a ->
  index_byte (a ++ c :: r) c = Some (length a).
Proof.
  intros a c r Ha. induction Ha as [|b a Hb Ha IH]; cbn [app index_byte length].
  - rewrite N.eqb_refl. reflexivity.
  - destruct (b =? c) eqn:E; [lia|]. rewrite IH. reflexivity.
Qed.

Definition raw_of (i : item) : rawpart :=
  match i with
  | ILit s => RLit s
  | IVar n => RVar n
  | IBrace n None => RBraced n
  | IBrace n (Some (a, b)) => RBraced (n ++ 91 :: a ++ 58 :: b ++ [93])
  end.

Definition brace_inner (n : bytes) (sl : option (bytes * bytes)) : bytes :=
  match sl with None => n | Some (a, b) => n ++ 91 :: a ++ 58 :: b ++ [93] end.

Lemma render_brace : forall n sl, render_item (IBrace n sl) = 36 :: 123 :: brace_inner n sl ++ [125].
Proof.
  intros n [[a b]|]; cbn [render_item brace_inner]; [|reflexivity].
  do 2 f_equal. rewrite <- !app_assoc. cbn [app]. do 2 f_equal. rewrite <- !app_assoc. cbn [app]. do 2 f_equal. rewrite <- !app_assoc. reflexivity.
Qed.

Lemma bound_text_chars : forall t, bound_text t -> Forall (fun c => digit_byte c \/ c = 45) t.
Proof.
  intros t H. destruct H as [|d ds H|d ds H]; [constructor| |constructor; [right; reflexivity|]];
    (eapply Forall_impl; [|exact H]); intros; left; assumption.
Qed.

(* the text between "${" and "}" contains neither '$' nor '}' and starts with a word character *)
Lemma brace_inner_chars : forall n sl, item_ok (IBrace n sl) ->
  Forall (fun c => c <> 36 /\ c <> 125) (brace_inner n sl) /\
  exists d r, brace_inner n sl = d :: r /\ word_char d.
Proof.
  intros n sl H.
  assert (Hn : name_ok n) by (destruct sl as [[a b]|]; cbn in H; tauto).
  destruct Hn as [Hne Hw].
  assert (Hnw : Forall (fun c => c <> 36 /\ c <> 125) n).
  { eapply Forall_impl; [|exact Hw]. intros c Hc. unfold word_char in Hc. lia. }
  split.
  - destruct sl as [[a b]|]; cbn [brace_inner]; [|assumption].
    cbn in H. destruct H as (_ & Ha & Hb).
    assert (Hb' : forall t, bound_text t -> Forall (fun c => c <> 36 /\ c <> 125) t).
    { intros t Ht. eapply Forall_impl; [|apply bound_text_chars; exact Ht].
      intros c [Hc|Hc]; unfold digit_byte in *; lia. }
    apply Forall_app; split; [assumption|]. constructor; [lia|].
    apply Forall_app; split; [apply Hb'; assumption|]. constructor; [lia|].
    apply Forall_app; split; [apply Hb'; assumption|]. constructor; [lia|constructor].
  - destruct n as [|d r]; [congruence|]. inversion Hw; subst.
    destruct sl as [[a b]|]; cbn [brace_inner app]; eexists; eexists; split; try reflexivity; assumption.
Qed.

Definition head_is_dollar_or_empty (s : bytes) : Prop := match s with [] => True | c :: _ => c = 36 end.

Lemma render_head : forall i l, items_ok (i :: l) ->
  match i with
  | ILit _ => True
  | _ => exists r, render_items (i :: l) = 36 :: r
  end.
Proof.
  intros i l H. destruct i as [s|n|n sl]; [exact I| |].
  - eexists. reflexivity.
  - unfold render_items. cbn [flat_map]. rewrite render_brace. eexists. reflexivity.
Qed.

Lemma tokenize_render : forall l fuel, items_ok l -> (length (render_items l) < fuel)%nat ->
  tokenize fuel (render_items l) = Some (map raw_of l, false).
Proof.
  induction l as [|i l IH]; intros fuel Hok Hf.
  - destruct fuel; [lia|]. reflexivity.
  - destruct fuel as [|f]; [lia|].
    destruct Hok as (Hi & Hfol & Hl).
    unfold render_items in *. cbn [flat_map map] in *. fold (render_items l) in *.
    set (R := render_items l) in *.
    assert (HR : forall f', (length R < f')%nat -> tokenize f' R = Some (map raw_of l, false)) by (intros; apply IH; assumption).
    destruct i as [s|n|n sl].
    + (* literal *)
      destruct Hi as [Hne Hnd]. destruct s as [|c0 s']; [congruence|].
      cbn [render_item app] in *. cbn [tokenize].
      inversion Hnd as [|? ? Hc0 Hs']; subst.
      destruct (c0 =? 36) eqn:E0; [lia|].
      change (c0 :: s' ++ R) with ((c0 :: s') ++ R).
      rewrite span_app_stop.
      * rewrite HR by (cbn [length] in Hf; rewrite app_length in Hf; lia). reflexivity.
      * eapply Forall_impl; [|exact Hnd]. intros c Hc. cbv beta in Hc. unfold not_dollar. destruct (c =? 36) eqn:Ec; [lia|reflexivity].
      * destruct l as [|j l']; [exact I|].
        destruct j as [t|m|m sl']; try (cbn in Hfol; tauto).
        -- unfold R, render_items. cbn [flat_map render_item app stops]. reflexivity.
        -- unfold R, render_items. cbn [flat_map]. rewrite render_brace. cbn [app stops]. reflexivity.
    + (* $name *)
      destruct Hi as [Hne Hw]. destruct n as [|c n']; [congruence|].
      cbn [render_item app] in *. cbn [tokenize].
      rewrite N.eqb_refl.
      inversion Hw as [|? ? Hc Hn']; subst.
      assert (Ec : is_word c = true) by (apply is_word_iff; assumption). rewrite Ec.
      change (c :: n' ++ R) with ((c :: n') ++ R).
      rewrite span_app_stop.
      * rewrite HR by (cbn [length] in Hf; rewrite app_length in Hf; cbn [length] in Hf; lia). reflexivity.
      * eapply Forall_impl; [|exact Hw]. intros x Hx. apply is_word_iff. assumption.
      * destruct l as [|j l']; [exact I|].
        destruct j as [t|m|m sl'].
        -- destruct Hl as ((Htne & _) & _). destruct t as [|c' t']; [congruence|].
           cbn in Hfol. unfold R, render_items. cbn [flat_map render_item app stops].
           destruct (is_word c') eqn:E; [|reflexivity]. exfalso. apply Hfol. apply is_word_iff. assumption.
        -- unfold R, render_items. cbn [flat_map render_item app stops]. reflexivity.
        -- unfold R, render_items. cbn [flat_map]. rewrite render_brace. cbn [app stops]. reflexivity.
    + (* ${...} *)
      destruct (brace_inner_chars n sl Hi) as (Hch & d & r & Hd & Hwd).
      rewrite render_brace in *. cbn [app] in *. rewrite <- app_assoc in *. cbn [app] in *.
      cbn [tokenize]. rewrite N.eqb_refl.
      change (is_word 123) with false. cbn [N.eqb Pos.eqb]. cbv iota.
      assert (HfR : (length R < f)%nat) by (cbn [length] in Hf; rewrite app_length in Hf; cbn [length] in Hf; lia).
      remember (brace_inner n sl ++ 125 :: R) as X eqn:HX.
      assert (HX' : X = d :: (r ++ 125 :: R)) by (rewrite HX, Hd; reflexivity).
      destruct X as [|d0 X0]; [discriminate|]. inversion HX'; subst d0.
      assert (Ed : is_word d = true) by (apply is_word_iff; assumption). rewrite Ed.
      change (d :: r ++ 125 :: R) with ((d :: r) ++ 125 :: R). rewrite <- Hd.
      rewrite index_byte_app_first by (eapply Forall_impl; [|exact Hch]; cbv beta; intros; tauto).
      rewrite firstn_app, Nat.sub_diag, firstn_all, firstn_O, app_nil_r.
      replace (skipn (S (length (brace_inner n sl))) (brace_inner n sl ++ 125 :: R)) with R.
      * rewrite HR by exact HfR.
        destruct sl as [[a b]|]; reflexivity.
      * rewrite skipn_app, skipn_all2 by lia.
        replace (S (length (brace_inner n sl)) - length (brace_inner n sl))%nat with 1%nat by lia. reflexivity.
Qed.

Definition has_dd := has_double_dollar.

Lemma has_dd_cons : forall c s, c <> 36 -> has_double_dollar (c :: s) = has_double_dollar s.
Proof.
  intros c s H. unfold has_double_dollar at 1.
  destruct c as [|p]; [reflexivity|].
  do 6 (destruct p as [p|p|]; try reflexivity). all: try (exfalso; apply H; reflexivity).
Qed.

Lemma has_dd_dollar : forall c s, c <> 36 -> has_double_dollar (36 :: c :: s) = has_double_dollar (c :: s).
Proof.
  intros c s H. unfold has_double_dollar at 1. cbn.
  destruct c as [|p]; [reflexivity|].
  do 6 (destruct p as [p|p|]; try reflexivity). all: try (exfalso; apply H; reflexivity).
Qed.

Lemma has_dd_app : forall a s, Forall (fun c => c <> 36) a -> has_double_dollar (a ++ s) = has_double_dollar s.
Proof.
  intros a s H. induction H as [|c a Hc Ha IH]; [reflexivity|].
  cbn [app]. rewrite has_dd_cons by assumption. exact IH.
Qed.

Lemma no_double_dollar : forall l, items_ok l -> has_double_dollar (render_items l) = false.
Proof.
  induction l as [|i l IH]; intros Hok; [reflexivity|].
  destruct Hok as (Hi & Hfol & Hl). unfold render_items. cbn [flat_map]. fold (render_items l).
  specialize (IH Hl). destruct i as [s|n|n sl].
  - destruct Hi as [_ Hnd]. cbn [render_item]. rewrite has_dd_app by assumption. exact IH.
  - destruct Hi as [Hne Hw]. destruct n as [|c n']; [congruence|]. cbn [render_item app].
    assert (Hnw : Forall (fun c => c <> 36) (c :: n')).
    { eapply Forall_impl; [|exact Hw]. intros x Hx. unfold word_char in Hx. lia. }
    inversion Hnw; subst.
    rewrite has_dd_dollar by assumption.
    change (c :: n' ++ render_items l) with ((c :: n') ++ render_items l).
    rewrite has_dd_app by assumption. exact IH.
  - destruct (brace_inner_chars n sl Hi) as (Hch & _).
    rewrite render_brace. cbn [app]. rewrite has_dd_dollar by lia. rewrite has_dd_cons by lia.
    rewrite <- app_assoc. rewrite has_dd_app by (eapply Forall_impl; [|exact Hch]; cbv beta; intros; tauto).
    cbn [app]. rewrite has_dd_cons by lia. exact IH.
Qed.

(* the bounds as the regexp groups deliver them *)
Definition not_minus_head (s : bytes) : Prop := match s with 45 :: _ => False | _ => True end.

Lemma parse_optint_other : forall s, not_minus_head s ->
  parse_optint s = (let (d, r) := span is_digit s in match d with [] => (None, s) | _ => (Some d, r) end).
Proof.
  intros s H. destruct s as [|c t]; [reflexivity|]. destruct c as [|p]; [reflexivity|].
  do 6 (destruct p as [p|p|]; try reflexivity). cbn in H. contradiction.
Qed.

Lemma not_minus_head_intro : forall c t, c <> 45 -> not_minus_head (c :: t).
Proof.
  intros c t H. destruct c as [|p]; [exact I|].
  do 6 (destruct p as [p|p|]; try exact I). exfalso. apply H. reflexivity.
Qed.

Lemma parse_optint_bound : forall t rest, bound_text t -> stops is_digit rest -> stops (fun c => c =? 45) rest ->
  parse_optint (t ++ rest) = (match t with [] => None | _ => Some t end, rest).
Proof.
  intros t rest Ht Hs Hm. destruct Ht as [|d ds Hd|d ds Hd].
  - cbn [app]. rewrite parse_optint_other.
    + destruct rest as [|c r]; [reflexivity|]. cbn in Hs. cbn [span]. rewrite Hs. reflexivity.
    + destruct rest as [|c r]; [exact I|]. cbn in Hm. apply not_minus_head_intro. lia.
  - assert (Hall : Forall (fun c => is_digit c = true) (d :: ds)).
    { eapply Forall_impl; [|exact Hd]. intros c Hc. apply is_digit_iff. assumption. }
    inversion Hd as [|? ? Hd0 _]; subst. unfold digit_byte in Hd0.
    rewrite parse_optint_other by (apply not_minus_head_intro; lia).
    rewrite span_app_stop by assumption. reflexivity.
  - assert (Hall : Forall (fun c => is_digit c = true) (d :: ds)).
    { eapply Forall_impl; [|exact Hd]. intros c Hc. apply is_digit_iff. assumption. }
    cbn [app]. unfold parse_optint.
    change (d :: ds ++ rest) with ((d :: ds) ++ rest). rewrite span_app_stop by assumption. reflexivity.
Qed.

Lemma parse_varexpr_inner : forall n sl, item_ok (IBrace n sl) ->
  parse_varexpr (brace_inner n sl) =
  Some (n, match sl with Some (a, _) => a | None => [] end, match sl with Some (_, b) => b | None => [] end).
Proof.
  intros n sl H.
  assert (Hn : name_ok n) by (destruct sl as [[a b]|]; cbn in H; tauto).
  destruct Hn as [Hne Hw].
  assert (Hww : Forall (fun c => is_word c = true) n).
  { eapply Forall_impl; [|exact Hw]. intros c Hc. apply is_word_iff. assumption. }
  unfold parse_varexpr. destruct sl as [[a b]|]; cbn [brace_inner].
  - cbn in H. destruct H as (_ & Ha & Hb).
    rewrite span_app_stop; [|assumption|reflexivity].
    destruct n as [|c n']; [congruence|].
    rewrite (parse_optint_bound a (58 :: b ++ [93]) Ha); [|reflexivity|reflexivity].
    rewrite (parse_optint_bound b [93] Hb); [|reflexivity|reflexivity].
    destruct a, b; reflexivity.
  - rewrite <- (app_nil_r n) at 1. rewrite span_app_stop; [|assumption|exact I].
    destruct n; [congruence|reflexivity].
Qed.

(* what each item compiles to *)
Definition bound_val (t : bytes) (dflt : Z) : option Z := match t with [] => Some dflt | _ => atoi t end.

Definition item_part (schema : list bytes) (i : item) : option part :=
  match i with
  | ILit s => Some (PLit s)
  | IVar n => option_map PVar (find_index schema n)
  | IBrace n sl =>
    match find_index schema n with
    | None => None
    | Some loc =>
      match bound_val (match sl with Some (a, _) => a | None => [] end) 0%Z,
            bound_val (match sl with Some (_, b) => b | None => [] end) max_int32 with
      | Some x, Some y => Some (PSlice loc x y)
      | _, _ => None
      end
    end
  end.

Lemma compile_item : forall schema i p, item_ok i -> item_part schema i = Some p ->
  compile_part schema (raw_of i) = Ok p.
Proof.
  intros schema i p Hok H. destruct i as [s|n|n sl].
  - inversion H; reflexivity.
  - cbn in *. destruct (find_index schema n); inversion H; reflexivity.
  - assert (Hraw : raw_of (IBrace n sl) = RBraced (brace_inner n sl)) by (destruct sl as [[a b]|]; reflexivity).
    rewrite Hraw. cbn [compile_part]. rewrite (parse_varexpr_inner n sl Hok).
    cbn [item_part] in H. destruct (find_index schema n) as [loc|]; [|discriminate].
    unfold bound_val in H.
    destruct sl as [[a b]|].
    + destruct (match a with [] => Some 0%Z | _ :: _ => atoi a end) as [x|]; [|discriminate].
      destruct (match b with [] => Some max_int32 | _ :: _ => atoi b end) as [y|]; [|discriminate].
      inversion H; reflexivity.
    + inversion H; reflexivity.
Qed.

Lemma compile_items : forall schema l ps, items_ok l -> all_some (map (item_part schema) l) = Some ps ->
  compile_parts schema (map raw_of l) = Ok ps.
Proof.
  induction l as [|i l IH]; intros ps Hok H.
  - inversion H; reflexivity.
  - destruct Hok as (Hi & _ & Hl). cbn [map all_some] in H.
    destruct (item_part schema i) as [p|] eqn:Ep; [|discriminate].
    destruct (all_some (map (item_part schema) l)) as [ps'|] eqn:El; [|discriminate].
    inversion H; subst. cbn [map compile_parts].
    rewrite (compile_item schema i p Hi Ep). rewrite (IH ps' Hl eq_refl). reflexivity.
Qed.

(* NewExpander on the rendering of well-formed items gives their parts *)
Lemma new_expander_render : forall schema l ps, items_ok l ->
  all_some (map (item_part schema) l) = Some ps ->
  new_expander schema (render_items l) = Ok ps.
Proof.
  intros schema l ps Hok H. unfold new_expander.
  rewrite no_double_dollar by assumption.
  rewrite tokenize_render by (assumption || lia).
  rewrite (compile_items schema l ps Hok H). reflexivity.
Qed.

(* ---------- the value of a template ---------- *)
Open Scope Z_scope.

Lemma expand_eq_all : forall fields ps, expand fields ps = expand_all fields ps.
Proof.
  intros fields ps. destruct ps as [|p [|q ps]]; try reflexivity.
  cbn [expand expand_all]. destruct (part_value fields p); try reflexivity. rewrite app_nil_r. reflexivity.
Qed.

Lemma part_value_no_panic : forall fields p, exists v, part_value fields p = Ok v.
Proof.
  intros fields p. destruct p as [s|loc|loc a b]; cbn [part_value]; try (eexists; reflexivity).
  apply solve_slice_no_panic.
Qed.

Lemma expand_all_no_panic : forall fields ps, exists v, expand_all fields ps = Ok v.
Proof.
  intros fields ps. induction ps as [|p ps [v IH]]; [eexists; reflexivity|].
  cbn [expand_all]. destruct (part_value_no_panic fields p) as [x Hx]. rewrite Hx, IH. eexists; reflexivity.
Qed.

Lemma expand_no_panic : forall fields ps, exists v, expand fields ps = Ok v.
Proof. intros. rewrite expand_eq_all. apply expand_all_no_panic. Qed.

(* the documented value of an item: the field, or its Python slice *)
Definition bound_opt (t : bytes) : option (option Z) :=
  match t with [] => Some None | _ => option_map Some (atoi t) end.

Definition item_value (schema : list bytes) (fields : list bytes) (i : item) : option bytes :=
  match i with
  | ILit s => Some s
  | IVar n => option_map (get_field fields) (find_index schema n)
  | IBrace n None => option_map (get_field fields) (find_index schema n)
  | IBrace n (Some (a, b)) =>
    match find_index schema n, bound_opt a, bound_opt b with
    | Some loc, Some x, Some y => Some (py_slice (get_field fields loc) x y)
    | _, _, _ => None
    end
  end.

Definition fields_fit (fields : list bytes) : Prop :=
  forall loc, Z.of_nat (length (get_field fields loc)) <= max_int32.

Lemma py_slice_full : forall v, py_slice v None None = v.
Proof.
  intros v. unfold py_slice, py_index. cbn [Z.to_nat skipn]. rewrite Z.sub_0_r, Nat2Z.id. apply firstn_all.
Qed.

Lemma item_part_value : forall schema fields i p v, fields_fit fields ->
  item_part schema i = Some p -> item_value schema fields i = Some v -> part_value fields p = Ok v.
Proof.
  intros schema fields i p v Hfit Hp Hv. destruct i as [s|n|n sl].
  - inversion Hp; inversion Hv; subst. reflexivity.
  - cbn in Hp, Hv. destruct (find_index schema n); inversion Hp; inversion Hv; subst. reflexivity.
  - cbn [item_part] in Hp. destruct (find_index schema n) as [loc|] eqn:En; [|discriminate].
    destruct sl as [[a b]|].
    + cbn [item_value] in Hv. rewrite En in Hv. unfold bound_val in Hp. unfold bound_opt in Hv.
      destruct a as [|a0 a']; destruct b as [|b0 b'];
        repeat match type of Hp with context [atoi ?t] => destruct (atoi t) eqn:?; [|discriminate] end;
        cbn [option_map] in Hv; inversion Hp; inversion Hv; subst; cbn [part_value].
      * apply (slice_python_lemma _ None None). apply Hfit.
      * apply (slice_python_lemma _ None (Some _)). apply Hfit.
      * apply (slice_python_lemma _ (Some _) None). apply Hfit.
      * apply (slice_python_lemma _ (Some _) (Some _)). apply Hfit.
    + cbn [item_value] in Hv. rewrite En in Hv. cbn in Hp, Hv. inversion Hp; inversion Hv; subst.
      cbn [part_value]. rewrite (slice_python_lemma _ None None) by apply Hfit. rewrite py_slice_full. reflexivity.
Qed.

(* expansion of a compiled template = concatenation of the documented item values *)
Lemma expand_items : forall schema fields l ps vs, fields_fit fields ->
  all_some (map (item_part schema) l) = Some ps ->
  all_some (map (item_value schema fields) l) = Some vs ->
  expand fields ps = Ok (concat vs).
Proof.
  intros schema fields l ps vs Hfit. rewrite expand_eq_all. revert ps vs.
  induction l as [|i l IH]; intros ps vs Hp Hv.
  - inversion Hp; inversion Hv; reflexivity.
  - cbn [map all_some] in Hp, Hv.
    destruct (item_part schema i) as [p|] eqn:Ep; [|discriminate].
    destruct (all_some (map (item_part schema) l)) as [ps'|]; [|discriminate].
    destruct (item_value schema fields i) as [v|] eqn:Ev; [|discriminate].
    destruct (all_some (map (item_value schema fields) l)) as [vs'|]; [|discriminate].
    inversion Hp; inversion Hv; subst. cbn [expand_all concat].
    rewrite (item_part_value schema fields i p v Hfit Ep Ev). rewrite (IH ps' vs' eq_refl eq_refl). reflexivity.
Qed.
