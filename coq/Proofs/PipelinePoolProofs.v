(* C07, wave-4 follow-up: the pooled LogRecord (Model/PipelinePool.v) cannot carry anything from one record to the
   next - for every pool content, every allocation schedule, every flag history. *)
From SV Require Import Model.Common.
From SV Require Model.Parser Model.Composite Model.Transforms.
From SV Require Import Model.Pipeline Model.PipelinePool Proofs.PipelineProofs Proofs.PipelineWitnesses.
From Coq Require Import Lia.

(* Parse overwrites every field and flag of the record it is given: the result does not depend on the cell *)
Lemma write_record_assign : forall cell r, write_record FlagAssign cell r = r.
Proof. intros [] []. reflexivity. Qed.

(* the seeded variant overwrites the fields, not the flag *)
Lemma write_record_set_only : forall cell r,
  write_record FlagSetOnly cell r = set_flag r (Parser.unescaped r || Parser.unescaped cell).
Proof. intros [] [? ? ? ? ? ? ? ? ? ? []]; reflexivity. Qed.

(* the pool after one record (no part of the result depends on it) *)
Definition pool_after (m : flag_mode) (cfg : config) (c : cstate) (p : pool) (sch : sched_item) (input : bytes) : pool :=
  match pool_get p (fst sch) with
  | (cell, p1) =>
    match Parser.parse (c_parser cfg) (cs_input c) input with
    | (Ok None, _) => Composite.cleared cell :: p1
    | (Ok (Some r), _) => released (write_record m cell r) (snd sch) :: p1
    | _ => p
    end
  end.

Lemma process_record_pooled_step : forall O cfg g c p now clk sch input,
  process_record_pooled O FlagAssign cfg g c p now clk sch input =
  ('(g', c', res) <~ process_record O cfg g c now clk input ;;
   Ok (g', c', pool_after FlagAssign cfg c p sch input, res)).
Proof.
  intros. unfold process_record_pooled, process_record, pool_after.
  destruct (pool_get p (fst sch)) as [cell p1].
  destruct (Parser.parse (c_parser cfg) (cs_input c) input) as [[[r|]|e|s] cnt]; cbn [pbind]; try reflexivity.
  all: rewrite ?write_record_assign.
  all: destruct (process_parsed O cfg g (with_input c cnt) now clk r) as [[[g' c'] res]|e|s]; reflexivity.
Qed.

Lemma process_record_pooled_independent : forall O cfg g c p now clk sch input,
  drop_pool (process_record_pooled O FlagAssign cfg g c p now clk sch input) = process_record O cfg g c now clk input.
Proof.
  intros. rewrite process_record_pooled_step.
  destruct (process_record O cfg g c now clk input) as [[[g' c'] res]|e|s]; reflexivity.
Qed.

(* for every sequence of records, every initial pool (objects with ANY content), every schedule *)
Lemma process_records_pooled_independent : forall O cfg inputs g c p now clk sch,
  drop_pool (process_records_pooled O FlagAssign cfg g c p now clk sch inputs) = process_records O cfg g c now clk inputs.
Proof.
  induction inputs as [|x xs IH]; intros; [reflexivity|].
  cbn [process_records_pooled process_records].
  rewrite process_record_pooled_step.
  destruct (process_record O cfg g c now clk x) as [[[g1 c1] res]|e|s]; cbn [pbind]; try reflexivity.
  specialize (IH g1 c1 (pool_after FlagAssign cfg c p (hd sched_default sch) x) now clk (tl sch)).
  destruct (process_records_pooled O FlagAssign cfg g1 c1 _ now clk (tl sch) xs) as [[[[g2 c2] p2] rs]|e|s];
    cbn [drop_pool] in IH; rewrite <- IH; reflexivity.
Qed.

(* with the totality theorem: the pooled pipeline never panics and keeps the invariants *)
Lemma process_records_pooled_total : forall (O : Transforms.oracles) cfg (inputs : list bytes) g c p now clk sch,
  config_ok O cfg -> ginv O cfg g -> cinv O cfg g c ->
  exists g' c' p' rs,
    process_records_pooled O FlagAssign cfg g c p now clk sch inputs = Ok (g', c', p', rs) /\
    process_records O cfg g c now clk inputs = Ok (g', c', rs) /\
    ginv O cfg g' /\ cinv O cfg g' c' /\ length rs = length inputs.
Proof.
  intros O cfg inputs g c p now clk sch Hc Hg Hci.
  destruct (process_records_total O cfg inputs g c now clk Hc Hg Hci) as (g' & c' & rs & Hrun & Hg' & Hc' & Hlen & _).
  pose proof (process_records_pooled_independent O cfg inputs g c p now clk sch) as Hind.
  rewrite Hrun in Hind.
  destruct (process_records_pooled O FlagAssign cfg g c p now clk sch inputs) as [[[[g2 c2] p2] rs2]|e|s];
    cbn [drop_pool] in Hind; try discriminate.
  inversion Hind; subst. exists g', c', p2, rs.
  split; [reflexivity|]. split; [exact Hrun|]. split; [assumption|]. split; assumption.
Qed.

(* neighbour independence: what is delivered for record i of a sequence that passes through recycled objects is what
   the functional pipeline (a new record each time) delivers *)
Lemma delivered_pooled : forall O cfg inputs g c p now clk sch i,
  delivered (drop_pool (process_records_pooled O FlagAssign cfg g c p now clk sch inputs)) i =
  delivered (process_records O cfg g c now clk inputs) i.
Proof. intros. rewrite process_records_pooled_independent. reflexivity. Qed.

(* ---------- the seeded variant: a multi-line record, then an escaped single-line record in the same object ---------- *)
(* "<13>1 2020-01-02T03:04:05Z hostA appB 77 src - first" LF "second" *)
(* "<13>1 2020-01-02T03:04:05Z hostA appB 77 src - boom\n\tat Foo"  (backslash n, backslash t) *)
Definition rec_multi : bytes :=
  [60;49;51;62;49;32;50;48;50;48;45;48;49;45;48;50;84;48;51;58;48;52;58;48;53;90;32;104;111;115;116;65;32;97;112;112;66;32;55;55;32;115;114;99;32;45;32;102;105;114;115;116;10;115;101;99;111;110;100]%N.
Definition rec_escaped : bytes :=
  [60;49;51;62;49;32;50;48;50;48;45;48;49;45;48;50;84;48;51;58;48;52;58;48;53;90;32;104;111;115;116;65;32;97;112;112;66;32;55;55;32;115;114;99;32;45;32;98;111;111;109;92;110;92;116;97;116;32;70;111;111]%N.

Definition pool_run (m : flag_mode) (p : pool) (sch : list sched_item) (inputs : list bytes) :=
  drop_pool (process_records_pooled O m (ex_cfg true true) g_init (new_conn (ex_cfg true true)) p (1600000000, 0)%Z 0%Z sch inputs).

Definition alone_run (input : bytes) :=
  process_records O (ex_cfg true true) g_init (new_conn (ex_cfg true true)) (1600000000, 0)%Z 0%Z [input].

Definition streams_eqb (a b : list bytes) : bool := bytes_eqb (concat a) (concat b) && (length a =? length b)%nat.

(* the flag left behind by the first record makes the serializer skip the unescape rewrite of the second:
   with the real assignment both orders and both allocation choices deliver the escaped record as it is delivered alone *)
Lemma flag_set_only_variant_refuted :
  (* the variant: second record in the recycled object of the first -> delivered differently than alone *)
  streams_eqb (delivered (pool_run FlagSetOnly [] [(None, false); (Some 0%nat, false)] [rec_multi; rec_escaped]) 1)
              (delivered (alone_run rec_escaped) 0) = false /\
  (* ... and it IS delivered (one event), only with other content; the multi-line record itself is unaffected *)
  length (delivered (pool_run FlagSetOnly [] [(None, false); (Some 0%nat, false)] [rec_multi; rec_escaped]) 1) = 1%nat /\
  streams_eqb (delivered (pool_run FlagSetOnly [] [(None, false); (Some 0%nat, false)] [rec_multi; rec_escaped]) 0)
              (delivered (alone_run rec_multi) 0) = true /\
  (* the variant with a NEW object for the second record (what every single-record test sees): no difference *)
  streams_eqb (delivered (pool_run FlagSetOnly [] [(None, false); (None, false)] [rec_multi; rec_escaped]) 1)
              (delivered (alone_run rec_escaped) 0) = true /\
  (* the variant, flag set by a transform/rewriter of an earlier single-line record (schedule), object reused *)
  streams_eqb (delivered (pool_run FlagSetOnly [] [(None, true); (Some 0%nat, false)] [rec_escaped; rec_escaped]) 1)
              (delivered (alone_run rec_escaped) 0) = false /\
  (* the code: same schedule, same records - as alone *)
  streams_eqb (delivered (pool_run FlagAssign [] [(None, false); (Some 0%nat, false)] [rec_multi; rec_escaped]) 1)
              (delivered (alone_run rec_escaped) 0) = true /\
  length (delivered (alone_run rec_escaped) 0) = 1%nat.
Proof. repeat split; vm_compute; reflexivity. Qed.
