(* C06 - pipeline ids (strings.Join / strings.Split with ","), queue directory names, the .id round trip
   and listBufferQueueIDs. *)
From SV Require Import Model.Common Model.Md5 Model.Routing Proofs.CommonFacts Proofs.MergedKeyProofs.
From Coq Require Import Lia ZifyBool ZifyN ZifyNat.
Ltac Zify.zify_post_hook ::= Z.div_mod_to_equations.
Open Scope N_scope.

(* ---------- join / split_on ---------- *)

Definition no_sep (sep : N) (k : bytes) : Prop := ~ In sep k.

Fixpoint count_sep (sep : N) (s : bytes) : nat :=
  match s with
  | [] => O
  | c :: r => Nat.add (if c =? sep then 1%nat else 0%nat) (count_sep sep r)
  end.

Lemma count_sep_app : forall sep a b, count_sep sep (a ++ b) = (count_sep sep a + count_sep sep b)%nat.
Proof. induction a as [|c a IH]; intros b; cbn [count_sep app]; [reflexivity|]. rewrite IH. lia. Qed.

Lemma count_sep_0 : forall sep k, count_sep sep k = O <-> no_sep sep k.
Proof.
  unfold no_sep. induction k as [|c k IH]; cbn [count_sep In].
  - split; [intros _ []|reflexivity].
  - destruct (c =? sep) eqn:E.
    + apply N.eqb_eq in E. split; [intros H; lia|intros H; exfalso; apply H; left; exact E].
    + apply N.eqb_neq in E. cbn. rewrite IH. split.
      * intros H [Hc|Hin]; [contradiction|exact (H Hin)].
      * intros H Hin. apply H. right. exact Hin.
Qed.

Lemma split_on_acc_sep : forall sep k r cur, no_sep sep k ->
  split_on_acc sep (k ++ sep :: r) cur = (rev cur ++ k) :: split_on_acc sep r [].
Proof.
  unfold no_sep. induction k as [|c k IH]; intros r cur Hk; cbn [app split_on_acc].
  - rewrite N.eqb_refl. rewrite rev_append_rev. rewrite !app_nil_r. reflexivity.
  - destruct (c =? sep) eqn:E.
    + apply N.eqb_eq in E. exfalso. apply Hk. left. exact E.
    + rewrite IH by (intros Hin; apply Hk; right; exact Hin). cbn [rev]. rewrite <- app_assoc. reflexivity.
Qed.

Lemma split_on_acc_last : forall sep k cur, no_sep sep k -> split_on_acc sep k cur = [rev cur ++ k].
Proof.
  unfold no_sep. induction k as [|c k IH]; intros cur Hk; cbn [split_on_acc].
  - rewrite rev_append_rev. rewrite !app_nil_r. reflexivity.
  - destruct (c =? sep) eqn:E.
    + apply N.eqb_eq in E. exfalso. apply Hk. left. exact E.
    + rewrite IH by (intros Hin; apply Hk; right; exact Hin). cbn [rev]. rewrite <- app_assoc. reflexivity.
Qed.

(* strings.Split(strings.Join(ks, sep), sep) = ks when no key contains the separator *)
Lemma split_on_join : forall sep ks, ks <> [] -> Forall (no_sep sep) ks -> split_on sep (join sep ks) = ks.
Proof.
  intros sep ks. unfold split_on. induction ks as [|k ks IH]; intros Hne Hall; [contradiction|].
  inversion Hall as [|? ? Hk Hks]; subst. destruct ks as [|k2 ks].
  - cbn [join]. rewrite split_on_acc_last by exact Hk. reflexivity.
  - change (join sep (k :: k2 :: ks)) with (k ++ sep :: join sep (k2 :: ks)).
    rewrite split_on_acc_sep by exact Hk. cbn [rev app]. f_equal. apply IH; [discriminate|exact Hks].
Qed.

Lemma split_on_acc_length : forall sep s cur, length (split_on_acc sep s cur) = S (count_sep sep s).
Proof.
  induction s as [|c s IH]; intros cur; cbn [split_on_acc count_sep]; [reflexivity|].
  destruct (c =? sep); cbn [length]; rewrite IH; reflexivity.
Qed.

Lemma split_on_length : forall sep s, length (split_on sep s) = S (count_sep sep s).
Proof. intros. apply split_on_acc_length. Qed.

Fixpoint total_sep (sep : N) (ks : list bytes) : nat :=
  match ks with [] => O | k :: r => (count_sep sep k + total_sep sep r)%nat end.

Lemma count_sep_join : forall sep ks, ks <> [] ->
  S (count_sep sep (join sep ks)) = (length ks + total_sep sep ks)%nat.
Proof.
  induction ks as [|k ks IH]; intros Hne; [contradiction|]. destruct ks as [|k2 ks].
  - cbn. lia.
  - change (join sep (k :: k2 :: ks)) with (k ++ sep :: join sep (k2 :: ks)).
    rewrite count_sep_app. cbn [count_sep]. rewrite N.eqb_refl.
    assert (H := IH ltac:(discriminate)). cbn [length total_sep] in *. lia.
Qed.

Lemma total_sep_0 : forall sep ks, total_sep sep ks = O -> Forall (no_sep sep) ks.
Proof.
  induction ks as [|k ks IH]; intros H; constructor; cbn [total_sep] in H.
  - apply count_sep_0. lia.
  - apply IH. lia.
Qed.

(* ---------- pipeline ids and recovery ---------- *)

Definition no_comma (ks : list bytes) : Prop := Forall (no_sep comma) ks.

Lemma recover_keys_roundtrip : forall ks, ks <> [] -> no_comma ks ->
  recover_keys (length ks) (pipeline_id ks) = Some ks.
Proof.
  intros ks Hne Hnc. unfold recover_keys, pipeline_id. rewrite split_on_join by assumption.
  rewrite Nat.eqb_refl. reflexivity.
Qed.

(* recovery never attaches a queue to a foreign key set: whatever the key values contain, if the id
   written by the key tuple ks passes the arity filter then it splits back into exactly ks *)
Lemma recover_keys_never_foreign : forall ks ks',
  recover_keys (length ks) (pipeline_id ks) = Some ks' -> ks' = ks.
Proof.
  intros ks ks' H. unfold recover_keys, pipeline_id in H.
  destruct (Nat.eqb (length (split_on comma (join comma ks))) (length ks)) eqn:E; [|discriminate].
  inversion H; subst ks'; clear H. apply Nat.eqb_eq in E. rewrite split_on_length in E.
  destruct ks as [|k ks]; [cbn in E; discriminate|].
  assert (Hne : k :: ks <> []) by discriminate.
  pose proof (count_sep_join comma _ Hne) as Hc.
  apply split_on_join; [exact Hne|]. apply total_sep_0. lia.
Qed.

(* an id with a comma inside a key value never passes the filter *)
Lemma recover_keys_comma_dropped : forall ks, ks <> [] -> ~ no_comma ks ->
  recover_keys (length ks) (pipeline_id ks) = None.
Proof.
  intros ks Hne Hc. destruct (recover_keys (length ks) (pipeline_id ks)) as [ks'|] eqn:H; [|reflexivity].
  exfalso. apply Hc. unfold recover_keys, pipeline_id in H.
  destruct (Nat.eqb (length (split_on comma (join comma ks))) (length ks)) eqn:E; [|discriminate].
  apply Nat.eqb_eq in E. rewrite split_on_length in E.
  pose proof (count_sep_join comma _ Hne) as Hcnt. apply total_sep_0. lia.
Qed.

Lemma pipeline_id_injective_no_comma : forall ks ks',
  length ks = length ks' -> no_comma ks -> no_comma ks' -> pipeline_id ks = pipeline_id ks' -> ks = ks'.
Proof.
  intros ks ks' Hlen H1 H2 Heq. destruct ks as [|k ks]; destruct ks' as [|k' ks']; try discriminate; [reflexivity|].
  unfold pipeline_id in Heq.
  rewrite <- (split_on_join comma (k :: ks)) by (try discriminate; assumption).
  rewrite <- (split_on_join comma (k' :: ks')) by (try discriminate; assumption).
  rewrite Heq. reflexivity.
Qed.

(* the id is empty only for the single empty key (or no key at all) *)
Lemma pipeline_id_nonempty : forall ks, ks <> [] -> ks <> [[]] -> pipeline_id ks <> [].
Proof.
  intros ks H1 H2 H. unfold pipeline_id in H. destruct ks as [|k [|k2 ks]]; try contradiction.
  - cbn in H. subst. contradiction.
  - change (join comma (k :: k2 :: ks)) with (k ++ comma :: join comma (k2 :: ks)) in H.
    apply app_eq_nil in H. destruct H as [_ H]. discriminate.
Qed.

(* ---------- queue directory names ---------- *)

Section Dirs.
  Variable md5hex : bytes -> bytes.
  Hypothesis md5hex_len : forall s, length (md5hex s) = 32%nat.

  Lemma tail8_length : forall s, length (tail8 (md5hex s)) = 8%nat.
  Proof. intros s. unfold tail8. rewrite skipn_length, md5hex_len. reflexivity. Qed.

  Lemma sanitize_length : forall s, length (sanitize s) = length s.
  Proof. intros. unfold sanitize. apply map_length. Qed.

  Lemma queue_dir_name_some : forall id, id <> [] ->
    queue_dir_name md5hex id = Some (sanitize id ++ [46] ++ tail8 (md5hex id)).
  Proof. intros [|c id] H; [contradiction|reflexivity]. Qed.

  Lemma queue_dir_name_some_inv : forall id nm, queue_dir_name md5hex id = Some nm ->
    id <> [] /\ nm = sanitize id ++ [46] ++ tail8 (md5hex id).
  Proof.
    intros id nm H. destruct id as [|c id]; [discriminate|].
    rewrite queue_dir_name_some in H by discriminate. inversion H. split; [discriminate|reflexivity].
  Qed.

  (* equal directory names: equal sanitised ids and equal hash tails *)
  Lemma queue_dir_name_eq : forall id id' nm,
    queue_dir_name md5hex id = Some nm -> queue_dir_name md5hex id' = Some nm ->
    sanitize id = sanitize id' /\ tail8 (md5hex id) = tail8 (md5hex id').
  Proof.
    intros id id' nm H1 H2.
    apply queue_dir_name_some_inv in H1. apply queue_dir_name_some_inv in H2.
    destruct H1 as [_ E1]. destruct H2 as [_ E2]. rewrite E2 in E1. clear E2.
    assert (Hl : length (sanitize id') = length (sanitize id)).
    { apply (f_equal (@length N)) in E1. rewrite !app_length, !tail8_length in E1. cbn [length] in E1. lia. }
    apply app_eq_same_length in E1; [|exact Hl]. destruct E1 as [Ha Hb].
    split; [symmetry; exact Ha|]. cbn [app] in Hb. apply cons_eq in Hb. destruct Hb as [_ Hb]. symmetry. exact Hb.
  Qed.

  (* different non-empty ids get different directories, the md5 tail being needed only where
     sanitisation maps both ids to the same name *)
  Lemma queue_dir_injective : forall id id',
    id <> [] -> id' <> [] ->
    (sanitize id = sanitize id' -> tail8 (md5hex id) <> tail8 (md5hex id')) ->
    queue_dir_name md5hex id <> queue_dir_name md5hex id'.
  Proof.
    intros id id' H1 H2 Hh Heq.
    destruct (queue_dir_name md5hex id) as [nm|] eqn:E1.
    - symmetry in Heq. destruct (queue_dir_name_eq _ _ _ E1 Heq) as [Hs Ht]. exact (Hh Hs Ht).
    - unfold queue_dir_name in E1. destruct id; [contradiction|discriminate].
  Qed.

  Lemma queue_dir_root_iff : forall id, queue_dir_name md5hex id = None <-> id = [].
  Proof. intros [|c id]; cbn; split; intros H; try reflexivity; discriminate. Qed.
End Dirs.

Lemma hex_length : forall s, length (hex s) = (2 * length s)%nat.
Proof. induction s as [|b s IH]; cbn [hex length]; [reflexivity|]. rewrite IH. lia. Qed.

(* the hypothesis of the Section holds for the md5 of the correspondence run *)
Lemma md5_hex_length : forall s, length (md5_hex s) = 32%nat.
Proof. intros s. unfold md5_hex, md5_digest. rewrite hex_length, !app_length. reflexivity. Qed.

(* ---------- sorting keeps the elements ---------- *)

Lemma In_insert_by : forall (A : Type) (key : A -> bytes) x y l, In y (insert_by key x l) <-> y = x \/ In y l.
Proof.
  induction l as [|z l IH]; cbn [insert_by].
  - cbn. intuition.
  - destruct (bytes_leb (key x) (key z)); cbn [In]; [intuition|]. rewrite IH. intuition.
Qed.

Lemma In_sort_by : forall (A : Type) (key : A -> bytes) y l, In y (sort_by key l) <-> In y l.
Proof.
  induction l as [|z l IH]; cbn [sort_by]; [reflexivity|].
  rewrite In_insert_by, IH. cbn. intuition.
Qed.

(* ---------- listBufferQueueIDs ---------- *)

(* a queue directory that must be found at startup *)
Definition live_queue (e : fsentry) (id : bytes) : Prop :=
  is_dir_mode (fe_mode e) = true /\ fe_id e = Some id /\ id <> [] /\ (0 < fe_chunks e)%nat.

Lemma list_ids_spec : forall es id, In id (list_ids es) <-> exists e, In e es /\ live_queue e id.
Proof.
  unfold live_queue. induction es as [|e es IH]; intros id; cbn [list_ids].
  - split; [intros []|intros [e [[] _]]].
  - destruct (is_dir_mode (fe_mode e)) eqn:Hd; cbn [negb].
    + destruct (fe_id e) as [[|c i]|] eqn:Hi.
      * rewrite IH. split; intros [e' [Hin H]]; exists e'; (split; [|exact H]).
        -- right. exact Hin.
        -- destruct Hin as [<-|Hin]; [|exact Hin]. destruct H as [_ [H2 [H3 _]]]. rewrite Hi in H2. inversion H2; subst. contradiction.
      * destruct (Nat.ltb 0 (fe_chunks e)) eqn:Hc.
        -- cbn [In]. rewrite IH. split.
           ++ intros [<-|[e' [Hin H]]].
              ** exists e. split; [left; reflexivity|]. apply Nat.ltb_lt in Hc. repeat split; try assumption. discriminate.
              ** exists e'. split; [right; exact Hin|exact H].
           ++ intros [e' [[<-|Hin] H]].
              ** left. destruct H as [_ [H2 _]]. rewrite Hi in H2. inversion H2. reflexivity.
              ** right. exists e'. split; assumption.
        -- rewrite IH. split; intros [e' [Hin H]]; exists e'; (split; [|exact H]).
           ++ right. exact Hin.
           ++ destruct Hin as [<-|Hin]; [|exact Hin]. destruct H as [_ [_ [_ H4]]]. apply Nat.ltb_ge in Hc. lia.
      * rewrite IH. split; intros [e' [Hin H]]; exists e'; (split; [|exact H]).
        -- right. exact Hin.
        -- destruct Hin as [<-|Hin]; [|exact Hin]. destruct H as [_ [H2 _]]. rewrite Hi in H2. discriminate.
    + rewrite IH. split; intros [e' [Hin H]]; exists e'; (split; [|exact H]).
      * right. exact Hin.
      * destruct Hin as [<-|Hin]; [|exact Hin]. destruct H as [H1 _]. rewrite Hd in H1. discriminate.
Qed.

(* ListBufferIDs returns exactly the ids of the directories that have an id and chunks *)
Lemma list_buffer_ids_spec : forall es id, In id (list_buffer_ids es) <-> exists e, In e es /\ live_queue e id.
Proof.
  intros es id. unfold list_buffer_ids. rewrite list_ids_spec.
  split; intros [e [Hin H]]; exists e; (split; [|exact H]); apply In_sort_by in Hin || apply In_sort_by; exact Hin.
Qed.

(* a directory is recognised whatever its permission bits (and set-id / sticky bits) are; a regular file never is *)
Lemma dir_mode_any_perm : forall perm, perm < 4096 -> is_dir_mode (S_IFDIR + perm) = true.
Proof.
  assert (H : forallb (fun p => is_dir_mode (S_IFDIR + N.of_nat p)) (seq 0 (N.to_nat 4096)) = true) by (vm_compute; reflexivity).
  intros perm Hp. rewrite forallb_forall in H. specialize (H (N.to_nat perm)).
  rewrite N2Nat.id in H. apply H. apply in_seq. lia.
Qed.

Lemma file_mode_any_perm : forall perm, perm < 4096 -> is_dir_mode (S_IFREG + perm) = false.
Proof.
  assert (H : forallb (fun p => negb (is_dir_mode (S_IFREG + N.of_nat p))) (seq 0 (N.to_nat 4096)) = true) by (vm_compute; reflexivity).
  intros perm Hp. rewrite forallb_forall in H. specialize (H (N.to_nat perm)).
  rewrite N2Nat.id in H. apply negb_true_iff. apply H. apply in_seq. lia.
Qed.

(* the test of the original code, stat.Mode & DT_DIR with DT_DIR = 4, looks at the others-read bit:
   it rejects a directory of mode 0750 and accepts a regular file of mode 0644 *)
Lemma original_dir_test_wrong :
  N.land (S_IFDIR + 488) 4 = 0 /\ N.land (S_IFREG + 420) 4 <> 0.
Proof. split; vm_compute; [reflexivity|discriminate]. Qed.
