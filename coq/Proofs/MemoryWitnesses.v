(* C12: concrete configurations and histories: witnesses of the refuted statements (the code before the
   repair of truncate) and a non-trivial instance of the hypotheses of the theorems.  Everything here is
   evaluated by vm_compute. *)
From SV Require Import Model.Common Model.Memory Proofs.MemoryProofs.
Open Scope N_scope.

Definition wit_levels : list bytes :=
  [ [111;102;102]; [102;97;116;97;108]; [99;114;105;116]; [101;114;114;111;114]; [119;97;114;110];
    [110;111;116;105;99;101]; [105;110;102;111]; [100;101;98;117;103] ].

(* "abc" ++ EURO SIGN ++ "defghijk" *)
Definition wit_literal : bytes := [97;98;99;226;130;172;100;101;102;103;104;105;106;107].

Definition wit_params : mem_params := {| p_min_pool := 48; p_max_msg := 200; p_max_rec := 456 |}.

Definition wit_out : mem_outcfg := {| oc_env := [3%nat]; oc_hidden := []; oc_rewrite := [] |}.

(* transformations:  addFields x1: "abc(euro)defghijk"   then   truncate key: x1, maxLen: 5, suffix: ".." *)
Definition wit_cfg (mode : mem_trunc_mode) : mem_config :=
  {| c_params := wit_params; c_nfields := 12; c_maxfields := 14; c_level_sites := Some 0%nat;
     c_cfg_init := wit_levels ++ [wit_literal];
     c_extract := [TSimple (TDelFields [7%nat])];
     c_transforms := [TSimple (TAddLit 9 8); TSimple (TTruncate 9 5 [46;46])];
     c_outputs := [wit_out]; c_trunc_mode := mode; c_rw_sets_flag := false |}.

(* "<163>1 2019-08-15T15:50:46Z host1 app 123 src - hello world, this is a message" (longer than 48 bytes: pooled) *)
Definition wit_input : bytes :=
  [60;49;54;51;62;49;32;50;48;49;57;45;48;56;45;49;53;84;49;53;58;53;48;58;52;54;90;32;104;111;115;116;49;32;97;112;112;32;
   49;50;51;32;115;114;99;32;45;32;104;101;108;108;111;32;119;111;114;108;100;44;32;116;104;105;115;32;105;115;32;97;32;109;
   101;115;115;97;103;101].

(* the same record twice; the second time the pool hands back the struct and the buffer of the first *)
Definition wit_events : list mem_event :=
  [EvParse None None wit_input 1000; EvTransform 0; EvOutput 0;
   EvParse (Some 0%nat) (Some 0%nat) wit_input 1000; EvTransform 0; EvOutput 0].

Definition wit_x1_of (g : mem_gstate) (rid : nat) : list bytes :=
  map (fun e => match find (fun kv => Nat.eqb (fst kv) 9) (d_fields (snd e)) with Some kv => snd kv | None => [] end)
      (filter (fun e => Nat.eqb (fst (fst e)) rid) (g_out g)).

(* before the repair (truncate in place): the first record gets "abc..", the second - the same bytes, after the
   first - gets "abc....", and the configuration string has been modified *)
Lemma wit_inplace_run :
  exists g, mem_run (wit_cfg TruncInPlace) (mem_init (wit_cfg TruncInPlace)) wit_events = StepOk g /\
            wit_x1_of g 0 = [[97;98;99;46;46]] /\ wit_x1_of g 1 = [[97;98;99;46;46;46;46]] /\
            g_cfg g <> c_cfg_init (wit_cfg TruncInPlace) /\ g_dirty g = true.
Proof.
  eexists. split; [vm_compute; reflexivity|]. split; [vm_compute; reflexivity|]. split; [vm_compute; reflexivity|].
  split; [vm_compute; discriminate|vm_compute; reflexivity].
Qed.

(* after the repair both get "abc.." and the configuration memory is untouched *)
Lemma wit_copy_run :
  exists g, mem_run (wit_cfg TruncCopy) (mem_init (wit_cfg TruncCopy)) wit_events = StepOk g /\
            wit_x1_of g 0 = [[97;98;99;46;46]] /\ wit_x1_of g 1 = [[97;98;99;46;46]] /\
            g_cfg g = c_cfg_init (wit_cfg TruncCopy) /\
            (* the second record really reused struct 0 and buffer 0 *)
            length (g_slots g) = 1%nat /\ length (g_bufs g) = 1%nat /\ g_next_rid g = 2%nat.
Proof.
  eexists. split; [vm_compute; reflexivity|]. repeat split; vm_compute; reflexivity.
Qed.

(* truncate on "facility" (a Go string constant) before the repair: a write to read-only memory *)
Definition wit_cfg_facility (mode : mem_trunc_mode) : mem_config :=
  {| c_params := wit_params; c_nfields := 12; c_maxfields := 14; c_level_sites := Some 0%nat;
     c_cfg_init := wit_levels;
     c_extract := [TSimple (TDelFields [7%nat])];
     c_transforms := [TSimple (TTruncate 0 2 [126])];
     c_outputs := [wit_out]; c_trunc_mode := mode; c_rw_sets_flag := false |}.

Lemma wit_facility_fault :
  mem_run (wit_cfg_facility TruncInPlace) (mem_init (wit_cfg_facility TruncInPlace))
          [EvParse None None wit_input 1000; EvTransform 0] = StepStop Fault.
Proof. vm_compute. reflexivity. Qed.

Lemma wit_facility_copy_ok :
  exists g, mem_run (wit_cfg_facility TruncCopy) (mem_init (wit_cfg_facility TruncCopy))
                    [EvParse None None wit_input 1000; EvTransform 0; EvOutput 0] = StepOk g /\
            map (fun e => d_fields (snd e)) (g_out g) <> [].
Proof. eexists. split; [vm_compute; reflexivity|vm_compute; discriminate]. Qed.

(* BEFORE the repair a539f2f (property C10) the unescape rewriter set the flag on the shared record (c_rw_sets_flag = true):
   with two outputs that both rewrite "log" with unescape, the second output was not unescaped *)
Definition wit_rw : mem_outcfg := {| oc_env := [3%nat]; oc_hidden := []; oc_rewrite := [(8%nat, {| rw_inline := []; rw_unescape := true |})] |}.
Definition wit_cfg_flag (flag : bool) : mem_config :=
  {| c_params := wit_params; c_nfields := 12; c_maxfields := 14; c_level_sites := Some 0%nat;
     c_cfg_init := wit_levels; c_extract := [TSimple (TDelFields [7%nat])]; c_transforms := [];
     c_outputs := [wit_rw; wit_rw]; c_trunc_mode := TruncCopy; c_rw_sets_flag := flag |}.
(* "<163>1 2019-08-15T15:50:46Z host1 app 123 src - a\nb ........................" *)
Definition wit_escaped : bytes :=
  [60;49;54;51;62;49;32;50;48;49;57;45;48;56;45;49;53;84;49;53;58;53;48;58;52;54;90;32;104;111;115;116;49;32;97;112;112;32;
   49;50;51;32;115;114;99;32;45;32;97;92;110;98;32;46;46;46;46;46;46;46;46;46;46;46;46;46;46;46;46;46;46;46;46;46;46;46;46].
Definition wit_log_of (g : mem_gstate) (k : nat) : list bytes :=
  map (fun e => match find (fun kv => Nat.eqb (fst kv) 8) (d_fields (snd e)) with Some kv => firstn 4 (snd kv) | None => [] end)
      (filter (fun e => Nat.eqb (snd (fst e)) k) (g_out g)).

Lemma wit_flag_shared :
  exists g, mem_run (wit_cfg_flag true) (mem_init (wit_cfg_flag true))
                    [EvParse None None wit_escaped 1000; EvTransform 0; EvOutput 0; EvOutput 0] = StepOk g /\
            wit_log_of g 0 = [[97;10;98;32]] /\ wit_log_of g 1 = [[97;92;110;98]].
Proof. eexists. split; [vm_compute; reflexivity|]. split; vm_compute; reflexivity. Qed.

Lemma wit_flag_not_shared :
  exists g, mem_run (wit_cfg_flag false) (mem_init (wit_cfg_flag false))
                    [EvParse None None wit_escaped 1000; EvTransform 0; EvOutput 0; EvOutput 0] = StepOk g /\
            wit_log_of g 0 = [[97;10;98;32]] /\ wit_log_of g 1 = [[97;10;98;32]].
Proof. eexists. split; [vm_compute; reflexivity|]. split; vm_compute; reflexivity. Qed.

(* a dropped or malformed record with several outputs is released once only: it never returns to the pool *)
Definition wit_cfg_drop (nout : nat) : mem_config :=
  {| c_params := wit_params; c_nfields := 12; c_maxfields := 14; c_level_sites := Some 0%nat;
     c_cfg_init := wit_levels; c_extract := [TSimple (TDelFields [7%nat])];
     c_transforms := [TDrop [CAny 3]];
     c_outputs := repeat wit_out nout; c_trunc_mode := TruncCopy; c_rw_sets_flag := false |}.

Definition wit_slot_states (g : mem_gstate) : list (nat * Z) :=
  map (fun s => (match sl_state s with SInPool => 0 | SLive _ => 1 | SAbandoned => 2 end, r_refc (sl_rec s)))%nat (g_slots g).

Lemma wit_drop_one_output :
  exists g, mem_run (wit_cfg_drop 1) (mem_init (wit_cfg_drop 1)) [EvParse None None wit_input 1000; EvTransform 0] = StepOk g /\
            wit_slot_states g = [(0%nat, 0%Z)] /\ map b_free (g_bufs g) = [true].
Proof. eexists. split; [vm_compute; reflexivity|]. split; vm_compute; reflexivity. Qed.

Lemma wit_drop_two_outputs :
  exists g, mem_run (wit_cfg_drop 2) (mem_init (wit_cfg_drop 2)) [EvParse None None wit_input 1000; EvTransform 0] = StepOk g /\
            wit_slot_states g = [(2%nat, 1%Z)] /\ map b_free (g_bufs g) = [false].
Proof. eexists. split; [vm_compute; reflexivity|]. split; vm_compute; reflexivity. Qed.

(* a configuration for which the hypothesis about in-place targets holds even with the unrepaired (in place)
   truncate: the truncated field is "log", which only ever holds bytes of the record's own buffer or fresh copies *)
From SV Require Import Proofs.MemoryStatic.
Definition wit_cfg_own (mode : mem_trunc_mode) : mem_config :=
  {| c_params := wit_params; c_nfields := 12; c_maxfields := 14; c_level_sites := Some 0%nat;
     c_cfg_init := wit_levels ++ [wit_literal];
     c_extract := [TSimple (TDelFields [7%nat])];
     c_transforms := [TSimple (TAddLit 9 8); TSimple (TUnescape 8%nat); TIf [CAny 4%nat] [TTruncate 8 10 [46%N;46%N]]];
     c_outputs := [wit_out; wit_rw]; c_trunc_mode := mode; c_rw_sets_flag := false |}.

Lemma wit_static_own : mem_static_targets_own (wit_cfg_own TruncInPlace) = true.
Proof. vm_compute. reflexivity. Qed.

Lemma wit_static_shared : mem_static_targets_own (wit_cfg TruncInPlace) = false.
Proof. vm_compute. reflexivity. Qed.

(* a history with two records in flight at once, reuse of struct and buffer, two outputs *)
Definition wit_events2 : list mem_event :=
  [EvParse None None wit_input 1000; EvParse None None wit_escaped 2000; EvTransform 1; EvTransform 0;
   EvOutput 0; EvOutput 1; EvOutput 1; EvOutput 0;
   EvParse (Some 1%nat) (Some 1%nat) wit_input 1000; EvTransform 1; EvOutput 1; EvOutput 1].

Lemma wit_own_run :
  exists g, mem_run (wit_cfg_own TruncInPlace) (mem_init (wit_cfg_own TruncInPlace)) wit_events2 = StepOk g /\
            length (g_out g) = 6%nat /\ g_next_rid g = 3%nat /\ length (g_slots g) = 2%nat /\
            (* record 0 and record 2 are the same bytes; record 2 ran on recycled memory *)
            map snd (filter (fun e => Nat.eqb (fst (fst e)) 0) (g_out g)) = map snd (filter (fun e => Nat.eqb (fst (fst e)) 2) (g_out g)).
Proof. eexists. split; [vm_compute; reflexivity|]. repeat split; vm_compute; reflexivity. Qed.
