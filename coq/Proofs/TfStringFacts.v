(* C15: the byte-string helpers of Model/Extractor.v (HasPrefix, HasSuffix, Index, LastIndex,
   the scanning loops) against their abstract meaning in Spec/TransformsSpec.v. *)
From SV Require Import Model.Common Model.Extractor Spec.TransformsSpec Proofs.CommonFacts.
From Coq Require Import Lia ZifyBool ZifyN ZifyNat.
Ltac Zify.zify_post_hook ::= Z.div_mod_to_equations.
Open Scope N_scope.

Lemma is_prefix_iff : forall p s, is_prefix p s = true <-> exists x, s = p ++ x.
Proof.
  induction p as [|a p IH]; intros s; cbn [is_prefix].
  - split; [intros _; exists s; reflexivity|reflexivity].
  - destruct s as [|b s].
    + split; [discriminate|intros [x Hx]; discriminate].
    + rewrite andb_true_iff, IH. split.
      * intros [Hab [x Hx]]. exists x. cbn. f_equal; [lia|assumption].
      * intros [x Hx]. inversion Hx; subst. split; [lia|exists x; reflexivity].
Qed.

Lemma is_prefix_app : forall p x, is_prefix p (p ++ x) = true.
Proof. intros. apply is_prefix_iff. exists x. reflexivity. Qed.

Lemma is_prefix_length : forall p s, is_prefix p s = true -> (length p <= length s)%nat.
Proof. intros p s H. apply is_prefix_iff in H. destruct H as [x ->]. rewrite app_length. lia. Qed.

Lemma is_suffix_iff : forall p s, is_suffix p s = true <-> exists x, s = x ++ p.
Proof.
  intros p s. unfold is_suffix. rewrite andb_true_iff, bytes_eqb_eq. split.
  - intros [Hl He]. exists (firstn (length s - length p) s). rewrite <- He at 2. symmetry. apply firstn_skipn.
  - intros [x ->]. rewrite app_length. split; [lia|].
    replace (length x + length p - length p)%nat with (length x) by lia.
    rewrite skipn_app, Nat.sub_diag, skipn_all. reflexivity.
Qed.

(* ---------- Index ---------- *)

Lemma index_of_some : forall needle hay i, index_of needle hay = Some i ->
  is_prefix needle (skipn i hay) = true /\ (i <= length hay)%nat /\
  forall j, (j < i)%nat -> is_prefix needle (skipn j hay) = false.
Proof.
  intros needle. induction hay as [|c t IH]; intros i H; cbn [index_of] in H.
  - destruct needle; [|discriminate]. inversion H; subst. cbn. split; [reflexivity|]. split; [lia|]. intros; lia.
  - destruct (is_prefix needle (c :: t)) eqn:E.
    + inversion H; subst. cbn [skipn]. split; [assumption|]. split; [lia|]. intros; lia.
    + destruct (index_of needle t) as [k|] eqn:Ek; [|discriminate]. inversion H; subst.
      destruct (IH k eq_refl) as (Hp & Hl & Hmin). cbn [skipn length]. split; [assumption|]. split; [lia|].
      intros [|j] Hj; [assumption|]. cbn [skipn]. apply Hmin. lia.
Qed.

Lemma index_of_none : forall needle hay, index_of needle hay = None ->
  forall j, is_prefix needle (skipn j hay) = false.
Proof.
  intros needle. induction hay as [|c t IH]; intros H j; cbn [index_of] in H.
  - destruct needle; [discriminate|]. rewrite skipn_nil. reflexivity.
  - destruct (is_prefix needle (c :: t)) eqn:E; [discriminate|].
    destruct (index_of needle t) eqn:Ek; [discriminate|].
    destruct j as [|j]; [assumption|]. cbn [skipn]. apply IH. reflexivity.
Qed.

Lemma occurrence_prefix : forall needle a b, is_prefix needle (skipn (length a) (a ++ needle ++ b)) = true.
Proof. intros. rewrite skipn_app, Nat.sub_diag, skipn_all. cbn [app skipn]. apply is_prefix_app. Qed.

Lemma prefix_at_split : forall needle hay i, is_prefix needle (skipn i hay) = true -> (i <= length hay)%nat ->
  exists b, hay = firstn i hay ++ needle ++ b.
Proof.
  intros needle hay i H Hl. apply is_prefix_iff in H. destruct H as [x Hx]. exists x.
  rewrite <- Hx. symmetry. apply firstn_skipn.
Qed.

Lemma index_of_first : forall needle hay i, needle <> [] -> index_of needle hay = Some i ->
  first_occurrence needle hay i.
Proof.
  intros needle hay i Hne H. destruct (index_of_some _ _ _ H) as (Hp & Hl & Hmin).
  split; [apply prefix_at_split; assumption|]. split.
  - apply is_prefix_length in Hp. rewrite skipn_length in Hp. lia.
  - intros a' b' Heq. destruct (Nat.le_gt_cases i (length a')) as [|Hlt]; [assumption|].
    specialize (Hmin (length a') Hlt). rewrite Heq in Hmin. rewrite occurrence_prefix in Hmin. discriminate.
Qed.

Lemma first_occurrence_index : forall needle hay i, first_occurrence needle hay i -> index_of needle hay = Some i.
Proof.
  intros needle hay i ((b & Hb) & Hl & Hmin).
  destruct (index_of needle hay) as [k|] eqn:E.
  - destruct (index_of_some _ _ _ E) as (Hp & Hkl & Hkmin). f_equal.
    destruct (prefix_at_split _ _ _ Hp Hkl) as [b' Hb'].
    pose proof (Hmin _ _ Hb') as H1. rewrite firstn_length in H1.
    destruct (Nat.le_gt_cases k i) as [|Hlt]; [lia|].
    specialize (Hkmin i Hlt). rewrite Hb in Hkmin.
    assert (Hli : length (firstn i hay) = i) by (rewrite firstn_length; lia).
    rewrite <- Hli in Hkmin at 1. rewrite occurrence_prefix in Hkmin. discriminate.
  - pose proof (index_of_none _ _ E i) as Hn. rewrite Hb in Hn.
    assert (Hli : length (firstn i hay) = i) by (rewrite firstn_length; lia).
    rewrite <- Hli in Hn at 1. rewrite occurrence_prefix in Hn. discriminate.
Qed.

Lemma index_of_none_occurs : forall needle hay, index_of needle hay = None -> ~ occurs needle hay.
Proof.
  intros needle hay H (a & b & Heq). pose proof (index_of_none _ _ H (length a)) as Hn.
  rewrite Heq, occurrence_prefix in Hn. discriminate.
Qed.

(* searching in the first n bytes = the first occurrence, provided it ends within them *)
Lemma first_occurrence_firstn : forall needle hay n i, needle <> [] ->
  (first_occurrence needle (firstn n hay) i <->
   first_occurrence needle hay i /\ (i + length needle <= n)%nat).
Proof.
  intros needle hay n i Hne. split.
  - intros ((b & Hb) & Hl & Hmin). rewrite firstn_length in Hl.
    assert (Hin : (i + length needle <= n)%nat) by lia. split; [|assumption].
    assert (Hfi : firstn i (firstn n hay) = firstn i hay) by (rewrite firstn_firstn; f_equal; lia).
    rewrite Hfi in Hb. split; [|split; [lia|]].
    + exists (b ++ skipn n hay). rewrite <- (firstn_skipn n hay) at 1. rewrite Hb. rewrite <- !app_assoc. reflexivity.
    + intros a' b' Heq. destruct (Nat.le_gt_cases i (length a')) as [|Hlt]; [assumption|].
      (* an earlier occurrence in hay lies inside the window as well *)
      assert (Hw : firstn n hay = a' ++ needle ++ firstn (n - length a' - length needle) b').
      { rewrite Heq. rewrite firstn_app. rewrite firstn_all2 by lia. f_equal.
        rewrite firstn_app. rewrite firstn_all2 by lia. reflexivity. }
      specialize (Hmin _ _ Hw). lia.
  - intros (((b & Hb) & Hl & Hmin) & Hin).
    assert (Hfi : firstn i (firstn n hay) = firstn i hay) by (rewrite firstn_firstn; f_equal; lia).
    split; [|split].
    + rewrite Hfi. exists (firstn (n - i - length needle) b). rewrite Hb at 1.
      rewrite firstn_app. rewrite firstn_length. rewrite firstn_all2 by (rewrite firstn_length; lia).
      f_equal. rewrite firstn_app. rewrite firstn_all2 by lia. f_equal. f_equal. lia.
    + rewrite firstn_length. lia.
    + intros a' b' Heq. apply (Hmin a' (b' ++ skipn n hay)).
      rewrite <- (firstn_skipn n hay) at 1. rewrite Heq. rewrite <- !app_assoc. reflexivity.
Qed.

Lemma first_occurrence_unique : forall needle hay i j,
  first_occurrence needle hay i -> first_occurrence needle hay j -> i = j.
Proof.
  intros needle hay i j ((b & Hb) & Hl & Hmin) ((b' & Hb') & Hl' & Hmin').
  pose proof (Hmin _ _ Hb') as H1. pose proof (Hmin' _ _ Hb) as H2. rewrite firstn_length in *. lia.
Qed.

(* ---------- LastIndex ---------- *)

Lemma last_index_of_some : forall needle hay i, last_index_of needle hay = Some i ->
  is_prefix needle (skipn i hay) = true /\ (i <= length hay)%nat /\
  forall j, (i < j)%nat -> (j <= length hay)%nat -> is_prefix needle (skipn j hay) = false.
Proof.
  intros needle. induction hay as [|c t IH]; intros i H; cbn [last_index_of] in H.
  - destruct needle; [|discriminate]. inversion H; subst. cbn. split; [reflexivity|]. split; [lia|]. intros; lia.
  - destruct (last_index_of needle t) as [k|] eqn:Ek.
    + inversion H; subst. destruct (IH k eq_refl) as (Hp & Hl & Hmax). cbn [skipn length].
      split; [assumption|]. split; [lia|]. intros [|j] Hj Hjl; [lia|]. cbn [skipn]. apply Hmax; lia.
    + destruct (is_prefix needle (c :: t)) eqn:E; [|discriminate]. inversion H; subst.
      cbn [skipn length]. split; [assumption|]. split; [lia|].
      intros [|j] Hj Hjl; [lia|]. cbn [skipn].
      clear -Ek. revert j. induction t as [|d t IHt]; intros j; cbn [last_index_of] in Ek.
      * destruct needle; [discriminate|]. rewrite skipn_nil. reflexivity.
      * destruct (last_index_of needle t) eqn:Et; [discriminate|].
        destruct (is_prefix needle (d :: t)) eqn:Ed; [discriminate|].
        destruct j as [|j]; [assumption|]. cbn [skipn]. apply IHt. reflexivity.
Qed.

Lemma last_index_of_none : forall needle hay, last_index_of needle hay = None ->
  forall j, is_prefix needle (skipn j hay) = false.
Proof.
  intros needle. induction hay as [|c t IH]; intros H j; cbn [last_index_of] in H.
  - destruct needle; [discriminate|]. rewrite skipn_nil. reflexivity.
  - destruct (last_index_of needle t) eqn:Ek; [discriminate|].
    destruct (is_prefix needle (c :: t)) eqn:E; [discriminate|].
    destruct j as [|j]; [assumption|]. cbn [skipn]. apply IH. reflexivity.
Qed.

Lemma last_index_of_last : forall needle hay i, needle <> [] -> last_index_of needle hay = Some i ->
  last_occurrence needle hay i.
Proof.
  intros needle hay i Hne H. destruct (last_index_of_some _ _ _ H) as (Hp & Hl & Hmax).
  split; [apply prefix_at_split; assumption|]. split.
  - apply is_prefix_length in Hp. rewrite skipn_length in Hp. lia.
  - intros a' b' Heq. destruct (Nat.le_gt_cases (length a') i) as [|Hlt]; [assumption|].
    assert (Hla : (length a' <= length hay)%nat) by (rewrite Heq, app_length; lia).
    specialize (Hmax (length a') Hlt Hla). rewrite Heq in Hmax. rewrite occurrence_prefix in Hmax. discriminate.
Qed.

Lemma last_occurrence_index : forall needle hay i, last_occurrence needle hay i -> last_index_of needle hay = Some i.
Proof.
  intros needle hay i ((b & Hb) & Hl & Hmax).
  assert (Hli : length (firstn i hay) = i) by (rewrite firstn_length; lia).
  destruct (last_index_of needle hay) as [k|] eqn:E.
  - destruct (last_index_of_some _ _ _ E) as (Hp & Hkl & Hkmax). f_equal.
    destruct (prefix_at_split _ _ _ Hp Hkl) as [b' Hb'].
    pose proof (Hmax _ _ Hb') as H1. rewrite firstn_length in H1.
    destruct (Nat.le_gt_cases i k) as [|Hlt]; [lia|].
    assert (Hil : (i <= length hay)%nat) by lia.
    specialize (Hkmax i Hlt Hil). rewrite Hb in Hkmax.
    rewrite <- Hli in Hkmax at 1. rewrite occurrence_prefix in Hkmax. discriminate.
  - pose proof (last_index_of_none _ _ E i) as Hn. rewrite Hb in Hn.
    rewrite <- Hli in Hn at 1. rewrite occurrence_prefix in Hn. discriminate.
Qed.

Lemma last_occurrence_unique : forall needle hay i j,
  last_occurrence needle hay i -> last_occurrence needle hay j -> i = j.
Proof.
  intros needle hay i j ((b & Hb) & Hl & Hmax) ((b' & Hb') & Hl' & Hmax').
  pose proof (Hmax _ _ Hb') as H1. pose proof (Hmax' _ _ Hb) as H2. rewrite firstn_length in *. lia.
Qed.

(* searching in the last bytes (from offset off) = the last occurrence, provided it starts there *)
Lemma last_occurrence_skipn : forall needle hay off i, needle <> [] -> (off <= length hay)%nat ->
  (last_occurrence needle (skipn off hay) i <->
   last_occurrence needle hay (i + off)).
Proof.
  intros needle hay off i Hne Hoff. split.
  - intros ((b & Hb) & Hl & Hmax). rewrite skipn_length in Hl. split; [|split; [lia|]].
    + exists b. rewrite <- (firstn_skipn off hay) at 1.
      assert (Hf : firstn (i + off) hay = firstn off hay ++ firstn i (skipn off hay)).
      { rewrite <- (firstn_skipn off hay) at 1. rewrite firstn_app. rewrite firstn_length.
        rewrite firstn_all2 by (rewrite firstn_length; lia). f_equal. f_equal. lia. }
      rewrite Hf. rewrite <- app_assoc. f_equal. exact Hb.
    + intros a' b' Heq. destruct (Nat.le_gt_cases (length a') (i + off)) as [|Hlt]; [assumption|].
      (* a later occurrence in hay lies inside the tail as well *)
      assert (Hw : skipn off hay = skipn off a' ++ needle ++ b').
      { rewrite Heq. rewrite skipn_app. replace (off - length a')%nat with O by lia. reflexivity. }
      specialize (Hmax _ _ Hw). rewrite skipn_length in Hmax. lia.
  - intros ((b & Hb) & Hl & Hmax).
    assert (Hf : firstn (i + off) hay = firstn off hay ++ firstn i (skipn off hay)).
    { rewrite <- (firstn_skipn off hay) at 1. rewrite firstn_app. rewrite firstn_length.
      rewrite firstn_all2 by (rewrite firstn_length; lia). f_equal. f_equal. lia. }
    split; [|split].
    + exists b. rewrite Hb at 1. rewrite Hf. rewrite <- app_assoc. rewrite skipn_app.
      rewrite skipn_all2 by (rewrite firstn_length; lia). rewrite firstn_length.
      replace (off - Nat.min off (length hay))%nat with O by lia. reflexivity.
    + rewrite skipn_length. lia.
    + intros a' b' Heq.
      assert (Hw : hay = (firstn off hay ++ a') ++ needle ++ b').
      { rewrite <- (firstn_skipn off hay) at 1. rewrite Heq. rewrite <- app_assoc. reflexivity. }
      specialize (Hmax _ _ Hw). rewrite app_length, firstn_length in Hmax. lia.
Qed.

(* ---------- the scanning loops ---------- *)

Lemma count_while_le : forall p s, (count_while p s <= length s)%nat.
Proof. induction s as [|c t IH]; cbn [count_while length]; [lia|]. destruct (p c); lia. Qed.

Lemma count_while_prefix : forall p s, Forall (fun c => p c = true) (firstn (count_while p s) s).
Proof.
  induction s as [|c t IH]; cbn [count_while]; [constructor|].
  destruct (p c) eqn:E; cbn [firstn]; [constructor; assumption|constructor].
Qed.

Lemma count_while_stop : forall p s,
  match skipn (count_while p s) s with [] => True | c :: _ => p c = false end.
Proof.
  induction s as [|c t IH]; cbn [count_while]; [exact I|].
  destruct (p c) eqn:E; cbn [skipn]; assumption.
Qed.

Lemma count_while_all : forall p s, count_while p s = length s <-> Forall (fun c => p c = true) s.
Proof.
  induction s as [|c t IH]; cbn [count_while length].
  - split; [constructor|reflexivity].
  - destruct (p c) eqn:E.
    + split; [intros H; constructor; [assumption|apply IH; lia]|intros H; inversion H; subst; f_equal; apply IH; assumption].
    + split; [lia|intros H; inversion H; congruence].
Qed.

Lemma count_while_app : forall p a b, Forall (fun c => p c = true) a ->
  count_while p (a ++ b) = (length a + count_while p b)%nat.
Proof.
  intros p a b H. induction H as [|c a Hc Ha IH]; [reflexivity|].
  cbn [app count_while length]. rewrite Hc, IH. reflexivity.
Qed.

Lemma count_while_stop_at : forall p a b, Forall (fun c => p c = true) a ->
  match b with [] => True | c :: _ => p c = false end -> count_while p (a ++ b) = length a.
Proof.
  intros p a b Ha Hb. rewrite count_while_app by assumption.
  destruct b as [|c b]; cbn [count_while]; [lia|]. rewrite Hb. lia.
Qed.

(* ---------- trimming ---------- *)

Lemma drop_blank_count : forall s, drop_blank s = skipn (count_while blank s) s.
Proof.
  induction s as [|c t IH]; [reflexivity|]. cbn [drop_blank count_while]. unfold blank at 1.
  destruct (c <=? 32); [exact IH|reflexivity].
Qed.

Lemma trim_blank_spec : forall s, trim_blank s = Ok (trim_ref s).
Proof.
  intros s. unfold trim_blank, trim_ref. rewrite !drop_blank_count.
  set (i := count_while blank s). set (m := skipn i s).
  set (k := count_while blank (rev m)).
  assert (Hi : (i <= length s)%nat) by apply count_while_le.
  assert (Hk : (k <= length m)%nat) by (unfold k; rewrite <- rev_length; apply count_while_le).
  assert (Hm : length m = (length s - i)%nat) by (unfold m; apply skipn_length).
  unfold slice. replace (Nat.leb i (length s - k) && Nat.leb (length s - k) (length s))%bool with true by lia.
  f_equal.
  fold m. fold k. rewrite skipn_rev, rev_involutive. f_equal. lia.
Qed.

(* the reference is what "trimmed" means: blanks removed at both ends, nothing else *)
Lemma drop_blank_split : forall s, exists a, s = a ++ drop_blank s /\ all_blank a /\
  match drop_blank s with [] => True | c :: _ => 32 < c end.
Proof.
  induction s as [|c t (a & Ha & Hb & Hh)]; [exists []; repeat split; constructor|].
  cbn [drop_blank]. destruct (c <=? 32) eqn:E.
  - exists (c :: a). split; [cbn; f_equal; assumption|]. split; [constructor; [lia|assumption]|assumption].
  - exists []. split; [reflexivity|]. split; [constructor|lia].
Qed.

Lemma trim_ref_spec : forall s, exists a b, s = a ++ trim_ref s ++ b /\ all_blank a /\ all_blank b /\
  match trim_ref s with [] => True | c :: _ => 32 < c end /\
  match rev (trim_ref s) with [] => True | c :: _ => 32 < c end.
Proof.
  intros s. unfold trim_ref.
  destruct (drop_blank_split s) as (a & Ha & Hba & Hha).
  destruct (drop_blank_split (rev (drop_blank s))) as (b & Hb & Hbb & Hhb).
  set (m := drop_blank s) in *. set (x := drop_blank (rev m)) in *.
  exists a, (rev b). split; [|split; [assumption|split]].
  - rewrite Ha at 1. f_equal. rewrite <- (rev_involutive m). rewrite Hb. rewrite rev_app_distr. reflexivity.
  - unfold all_blank in *. apply Forall_rev. assumption.
  - split; [|rewrite rev_involutive; assumption].
    (* the first byte of the result is the first byte of m unless everything was blank *)
    assert (Hm : m = rev x ++ rev b) by (rewrite <- rev_app_distr, <- Hb, rev_involutive; reflexivity).
    destruct (rev x) as [|c r] eqn:Er; [exact I|].
    rewrite Hm in Hha. cbn in Hha. assumption.
Qed.
