(* C15, wave-4 follow-up: (1) a capture group that takes part in the match overrides its field, even
   with the empty string; (2) the deficit counters of the sampled drop keep the dropped count within
   one record of the rate at every prefix of a stream of ANY length (N.iter, no bound), and the
   variant that halves both counters at 2^16 does not. *)
From SV Require Import Model.Common Model.TfUtf8 Model.Template Model.Extractor Model.Transforms
     Model.TfDropLong Model.TfExtractCap Proofs.TransformsProofs.
From Coq Require Import Lia ZifyBool ZifyN ZifyNat.
Ltac Zify.zify_post_hook ::= Z.div_mod_to_equations.
Open Scope Z_scope.

(* ---------------------------------------------------------------- extract *)

Lemma extract_loop_by_go : forall locs idx v r,
  run_extractre_loop_by skip_go locs idx v r = run_extractre_loop locs idx v r.
Proof.
  induction locs as [|l locs IH]; intros idx v r; [reflexivity|].
  cbn [run_extractre_loop_by run_extractre_loop]. destruct l as [loc|]; [|apply IH].
  destruct idx as [|[a b] idx']; [reflexivity|]. unfold skip_go.
  destruct ((a <? 0) || (b <? 0))%bool; [apply IH|].
  destruct (go_slice v a b); cbn; try reflexivity. apply IH.
Qed.

Definition cap_apply (c : capture) (l : nat) (r : rec) : rec :=
  match c with
  | CapNone => r
  | CapEmpty _ => set_field r l []
  | CapText _ s => set_field r l s
  end.

(* one named group, whatever it did: not part of the match -> the field is untouched; part of the match ->
   the field becomes the capture, ALSO when the capture is empty *)
Lemma extract_capture_step : forall l locs' c idx (v : bytes) r0, cap_in v c ->
  run_extractre_loop (Some l :: locs') (cap_pair c :: idx) v r0 =
  run_extractre_loop locs' idx v (cap_apply c l r0).
Proof.
  intros l locs' c idx v r0 Hin.
  destruct c as [|p|p s]; cbn [cap_pair cap_apply cap_in] in *.
  - reflexivity.
  - cbn [run_extractre_loop].
    replace ((Z.of_nat p <? 0) || (Z.of_nat p <? 0))%bool with false by lia.
    unfold go_slice.
    replace ((0 <=? Z.of_nat p) && (Z.of_nat p <=? Z.of_nat p) && (Z.of_nat p <=? Z.of_nat (length v)))%bool with true by lia.
    replace (Z.to_nat (Z.of_nat p - Z.of_nat p)) with 0%nat by lia. reflexivity.
  - destruct Hin as (Hne & Hs & Hlen). cbn [run_extractre_loop].
    replace ((Z.of_nat p <? 0) || (Z.of_nat (p + length s) <? 0))%bool with false by lia.
    unfold go_slice.
    replace ((0 <=? Z.of_nat p) && (Z.of_nat p <=? Z.of_nat (p + length s)) && (Z.of_nat (p + length s) <=? Z.of_nat (length v)))%bool with true by lia.
    replace (Z.to_nat (Z.of_nat (p + length s) - Z.of_nat p)) with (length s) by lia.
    rewrite Nat2Z.id, Hs. reflexivity.
Qed.

(* the whole transform with one named group: after it the destination field IS the capture whenever the
   group took part, and is what it was when the group did not *)
Lemma extract_single_group_field : forall O loc pat l r a0 b0 c,
  o_re_find O pat (getf r loc) = Some [(a0, b0); cap_pair c] -> cap_in (getf r loc) c ->
  (l < nfields r)%nat ->
  exists r', run_extractre O loc pat [None; Some l] r = Ok r' /\
    getf r' l = match c with CapNone => getf r l | CapEmpty _ => [] | CapText _ s => s end /\
    (forall l', l' <> l -> getf r' l' = getf r l').
Proof.
  intros O loc pat l r a0 b0 c Hf Hin Hl.
  exists (cap_apply c l r). split.
  - unfold run_extractre. fold (getf r loc). rewrite Hf.
    change (run_extractre_loop [None; Some l] [(a0, b0); cap_pair c] (getf r loc) r)
      with (run_extractre_loop (Some l :: []) (cap_pair c :: []) (getf r loc) r).
    rewrite extract_capture_step by assumption. reflexivity.
  - destruct c; cbn [cap_apply]; split; try reflexivity;
      try (apply getf_set_same; assumption); intros l' Hne; apply getf_set_other; congruence.
Qed.

(* the variant "skip when end <= start" is not the documented transform: witness value "-42", pattern
   (?P<app>[0-9]STAR)- (the group takes part with the empty capture (0,0)), field app = "main" before *)
Definition w4_rec : rec := {| r_fields := [[45;50;52]; [109;97;105;110]]%N; r_rawlen := 10; r_unesc := false |}.

Lemma extract_empty_skip_variant_refuted :
  exists l idx v r0 c, cap_in v c /\ c = CapEmpty 0 /\ idx = [cap_pair c] /\
    run_extractre_loop [Some l] idx v r0 = Ok (set_field r0 l []) /\
    run_extractre_loop_by skip_empty [Some l] idx v r0 = Ok r0 /\
    getf r0 l <> [].
Proof.
  exists 1%nat, [(0, 0)], [45;50;52]%N, w4_rec, (CapEmpty 0).
  repeat split; try reflexivity; cbn; try lia. discriminate.
Qed.

(* ---------------------------------------------------------------- drop: long streams *)

(* the counter step IS the drop node of the interpreter *)
Lemma drop_counters_step_is_model : forall m rate label matched dropped cs rawlen,
  run_drop_matched m rate label matched dropped cs rawlen =
  (let '(st', b) := drop_counters_step no_scale rate (matched, dropped) in
   (TDrop m rate label (fst st') (snd st'),
    cnt_add cs (if b then label else (33%N :: label)) 1 rawlen, negb b)).
Proof.
  intros. unfold run_drop_matched, drop_counters_step, no_scale, drop_decide. cbn [fst snd].
  destruct (rate =? 100); [reflexivity|].
  destruct ((matched >? 0) && (100 * dropped / matched <? rate))%bool; reflexivity.
Qed.

Definition dinv (rate : Z) (st : Z * Z) : Prop :=
  0 <= snd st <= fst st /\ -100 < 100 * snd st - rate * fst st < 100.

Lemma drop_counters_step_inv : forall rate st, 1 <= rate <= 99 -> dinv rate st ->
  let '(st', b) := drop_counters_step no_scale rate st in
  dinv rate st' /\ fst st' = fst st + 1 /\ snd st' = snd st + (if b then 1 else 0).
Proof.
  intros rate [m d] Hr [Hd Hv]. cbn [fst snd] in *.
  unfold drop_counters_step, no_scale, drop_decide. cbn [fst snd].
  destruct (rate =? 100) eqn:E100; [lia|].
  destruct ((m >? 0) && (100 * d / m <? rate))%bool eqn:E; unfold dinv; cbn [fst snd].
  - assert (Hlt : 100 * d < rate * m).
    { apply andb_true_iff in E. destruct E as [E1 E2].
      assert (Hpos : 0 < m) by lia.
      apply Z.ltb_lt in E2.
      pose proof (Z.mul_div_le (100 * d) m Hpos).
      pose proof (Z.mod_pos_bound (100 * d) m Hpos).
      pose proof (Z.div_mod (100 * d) m ltac:(lia)). nia. }
    lia.
  - assert (Hge : m = 0 \/ rate * m <= 100 * d).
    { destruct (m >? 0) eqn:E1; [|left; lia]. right. cbn [andb] in E.
      assert (Hpos : 0 < m) by lia.
      apply Z.ltb_ge in E.
      pose proof (Z.mul_div_le (100 * d) m Hpos). nia. }
    destruct Hge as [->|Hge]; lia.
Qed.

(* n matched records in a row, ANY n: the node's counters are the true counts and the dropped count is
   within one record of rate % *)
Lemma sample_run_within_one : forall rate n, 1 <= rate <= 99 ->
  let s := sample_run no_scale rate n in
  fst s = snd s /\ fst (snd s) = Z.of_N n /\
  0 <= snd (snd s) <= fst (snd s) /\ Z.abs (100 * snd (snd s) - rate * fst (snd s)) <= 100.
Proof.
  intros rate n Hr. cbv zeta.
  assert (H : fst (sample_run no_scale rate n) = snd (sample_run no_scale rate n) /\
              fst (snd (sample_run no_scale rate n)) = Z.of_N n /\ dinv rate (fst (sample_run no_scale rate n))).
  { induction n as [|n IH] using N.peano_ind.
    - unfold sample_run, dinv. cbn. repeat split; try reflexivity; lia.
    - unfold sample_run in *. rewrite N.iter_succ.
      destruct (N.iter n (sample_step no_scale rate) (0, 0, (0, 0))) as [st [M D]].
      cbn [fst snd] in IH. destruct IH as (Heq & HM & Hinv). subst st.
      unfold sample_step. cbn [fst snd].
      pose proof (drop_counters_step_inv rate (M, D) Hr Hinv) as Hs.
      destruct (drop_counters_step no_scale rate (M, D)) as [[m' d'] b]. cbn [fst snd] in *.
      destruct Hs as (Hi & Hm & Hd). subst m' d'. repeat split; try apply Hi; try lia. }
  destruct H as (Heq & HM & Hinv). rewrite <- Heq. unfold dinv in Hinv. repeat split; try lia.
  rewrite <- Heq in HM. exact HM.
Qed.

(* the rule-defined stream of case kind 3 (matched and unmatched records interleaved, any rule, any length) *)
Definition linv (rate : Z) (s : lstate) : Prop :=
  (rate = 100 /\ l_D s = l_M s /\ 0 <= l_M s) \/
  (1 <= rate <= 99 /\ l_st s = (l_M s, l_D s) /\ dinv rate (l_st s)).

Lemma long_step_inv : forall rate a b q u every s, linv rate s -> linv rate (long_step no_scale rate a b q u every s).
Proof.
  intros rate a b q u every s H. unfold long_step.
  set (s1 := if long_unmatched a b q u (l_i s) then _ else _).
  assert (H1 : linv rate s1).
  { subst s1. destruct (long_unmatched a b q u (l_i s)).
    - destruct H as [H|H]; [left|right]; cbn; exact H.
    - destruct H as [(H100 & HD & HM)|(Hr & Hst & Hinv)].
      + subst rate. unfold drop_counters_step. cbn. left. cbn. lia.
      + pose proof (drop_counters_step_inv rate (l_st s) Hr Hinv) as Hs.
        destruct (drop_counters_step no_scale rate (l_st s)) as [[m' d'] dr]. cbn [fst snd] in Hs.
        destruct Hs as (Hi & Hm & Hd). rewrite Hst in Hm, Hd. cbn [fst snd] in Hm, Hd.
        destruct dr; cbn iota in Hd; right; cbn; (split; [exact Hr|]); (split; [f_equal|exact Hi]). all: try assumption. all: simpl in Hd; rewrite ?Z.add_0_r in Hd; try assumption. }
  destruct ((every >? 0) && ((l_i s + 1) mod every =? 0))%bool; [|exact H1].
  destruct H1 as [H1|H1]; [left|right]; cbn; exact H1.
Qed.

Lemma long_run_within_one : forall rate n a b q u every, 1 <= rate <= 100 ->
  let s := long_run no_scale rate n a b q u every in
  0 <= l_D s <= l_M s /\ Z.abs (100 * l_D s - rate * l_M s) <= 100.
Proof.
  intros rate n a b q u every Hr. cbv zeta. unfold long_run.
  assert (H : linv rate (N.iter (Z.to_N n) (long_step no_scale rate a b q u every)
     {| l_i := 0; l_st := (0, 0); l_M := 0; l_D := 0; l_dl := 0; l_rl := 0; l_out := [] |})).
  { induction (Z.to_N n) as [|k IH] using N.peano_ind.
    - cbn. destruct (Z.eq_dec rate 100); [left|right]; cbn; unfold dinv; cbn; repeat split; try reflexivity; lia.
    - rewrite N.iter_succ. apply long_step_inv. exact IH. }
  destruct H as [(H100 & HD & HM)|(Hr' & Hst & Hinv)].
  - subst rate. lia.
  - rewrite Hst in Hinv. unfold dinv in Hinv. cbn [fst snd] in Hinv. lia.
Qed.

(* the variant with samplingWindow = 2^16 (both counters halved when totalMatched reaches it) leaves the band:
   33 %, 65539 matched records in a row *)
Lemma drop_window_halving_variant_refuted :
  exists rate n, 1 <= rate <= 99 /\
    let s := sample_run (halve_at 65536) rate n in
    Z.abs (100 * snd (snd s) - rate * fst (snd s)) > 100.
Proof.
  exists 33, 65539%N. split; [lia|]. vm_compute. reflexivity.
Qed.
