(* C12: a decidable sufficient condition for the hypothesis [mem_targets_own] that also covers the code
   BEFORE the repair (truncate in place): no truncate key is a field into which the parser or a transform may
   put a configuration string, a string constant, or an alias of another field. *)
From SV Require Import Model.Common Model.Memory Proofs.MemoryProofs.
From Coq Require Import Lia.
Open Scope nat_scope.

Definition mem_stx_shared_dsts (t : mem_stx) : list nat :=
  match t with
  | TAddLit dst _ => [dst]
  | TAddRef dst _ _ => [dst]
  | TMapValue key _ _ => [key]
  | _ => []
  end.

Definition mem_stx_trunc_keys (t : mem_stx) : list nat :=
  match t with TTruncate key _ _ => [key] | _ => [] end.

Definition mem_tx_stxs (t : mem_tx) : list mem_stx :=
  match t with TSimple s => [s] | TIf _ body => body | TDrop _ => [] end.

Definition mem_cfg_stxs (c : mem_config) : list mem_stx :=
  flat_map mem_tx_stxs (c_extract c) ++ flat_map mem_tx_stxs (c_transforms c).

(* facility (0) and level (1) are set by the parser to string constants / configuration strings *)
Definition mem_static_targets_own (c : mem_config) : bool :=
  let all := mem_cfg_stxs c in
  let shared := 0 :: 1 :: flat_map mem_stx_shared_dsts all in
  forallb (fun k => negb (mem_nat_in k shared)) (flat_map mem_stx_trunc_keys all).

Definition mem_private_str (s : mem_estr) : Prop :=
  match s with EEmpty => True | EStr p _ _ => mem_private p = true end.

(* the fields in K hold only strings private to the record *)
Definition mem_priv_inv (K : list nat) (r : mem_lrec) : Prop := forall k, In k K -> mem_private_str (mem_get_field r k).

Lemma mem_get_set_field : forall r i j v, mem_get_field (mem_set_field r i v) j =
  if Nat.eqb i j then (if Nat.ltb i (length (lr_fields r)) then v else EEmpty) else mem_get_field r j.
Proof.
  intros r i j v. unfold mem_get_field, mem_set_field. cbn [lr_fields].
  destruct (Nat.eqb i j) eqn:E.
  - apply Nat.eqb_eq in E. subst j. destruct (Nat.ltb i (length (lr_fields r))) eqn:El.
    + apply Nat.ltb_lt in El. apply mem_list_set_nth_default_eq. exact El.
    + apply Nat.ltb_ge in El. apply nth_overflow. rewrite mem_list_set_length. exact El.
  - apply Nat.eqb_neq in E. apply mem_list_set_nth_default_neq. exact E.
Qed.

Lemma mem_priv_set_private : forall K r i v, mem_priv_inv K r -> mem_private_str v -> mem_priv_inv K (mem_set_field r i v).
Proof.
  intros K r i v H Hv k Hk. rewrite mem_get_set_field. destruct (Nat.eqb i k); [destruct (Nat.ltb _ _); [exact Hv|exact I]|apply H; exact Hk].
Qed.

Lemma mem_priv_set_outside : forall K r i v, mem_priv_inv K r -> ~ In i K -> mem_priv_inv K (mem_set_field r i v).
Proof.
  intros K r i v H Hi k Hk. rewrite mem_get_set_field. destruct (Nat.eqb i k) eqn:E; [apply Nat.eqb_eq in E; subst; contradiction|apply H; exact Hk].
Qed.

Lemma mem_priv_unesc : forall K r u, mem_priv_inv K r -> mem_priv_inv K (mem_with_unesc r u).
Proof. intros K r u H k Hk. apply (H k Hk). Qed.

(* ---- the parser ---- *)
Lemma mem_parse_rest_priv : forall K own count r idx off len r' o l,
  mem_priv_inv K r -> mem_parse_rest own r idx count off len = Some (r', o, l) -> mem_priv_inv K r'.
Proof.
  induction count as [|cnt IH]; intros r idx off len r' o l H Hp; cbn in Hp.
  - inversion Hp; subst. exact H.
  - destruct (mem_next_field own off len) as [e|]; [|discriminate].
    eapply IH; [|exact Hp]. apply mem_priv_set_private; [exact H|reflexivity].
Qed.

Lemma mem_parse_head_priv : forall K ls m r, ~ In 0 K -> ~ In 1 K -> mem_priv_inv K r ->
  match mem_parse_head ls m r with
  | HdBad r' => mem_priv_inv K r'
  | HdPanic _ => True
  | HdOk r' _ _ => mem_priv_inv K r'
  end.
Proof.
  intros K ls m r H0 H1 H. unfold mem_parse_head.
  destruct (Nat.ltb (length (m_own m)) 32); [exact H|].
  destruct (negb (mem_first_is 60 (m_own m))); [exact H|].
  destruct (mem_next_field (m_own m) 0 (length (m_own m))) as [e|]; [|exact H].
  destruct (Nat.ltb e 2); [exact H|].
  destruct (negb _); [exact H|].
  destruct (mem_atoi _) as [pri|]; [|exact H].
  destruct (_ || _)%bool; [exact H|].
  assert (H2 : mem_priv_inv K (mem_set_field (mem_set_field r F_facility
                  (EStr (EStatic (Z.to_nat (Z.shiftr pri 3))) 0 (length (nth (Z.to_nat (Z.shiftr pri 3)) mem_static_tbl []))))
                  F_level (mem_level_str ls m (Z.to_nat (Z.land pri 7))))).
  { apply mem_priv_set_outside; [apply mem_priv_set_outside; assumption|exact H1]. }
  destruct (mem_parse_rest _ _ _ _ _ _) as [[[r3 off] len]|] eqn:E; [|exact H2].
  eapply mem_parse_rest_priv; eauto.
Qed.

Lemma mem_parse_priv : forall K pa ls m r m' r' st ov, ~ In 0 K -> ~ In 1 K -> mem_priv_inv K r ->
  mem_parse pa ls m r = ROk (m', r', st, ov) -> mem_priv_inv K r'.
Proof.
  intros K pa ls m r m' r' st ov H0 H1 H Hp. unfold mem_parse in Hp.
  pose proof (mem_parse_head_priv K ls m r H0 H1 H) as Hh.
  destruct (mem_parse_head ls m r) as [rb|s|r3 off len]; try discriminate.
  - inversion Hp; subst. exact Hh.
  - destruct (mem_parse_msg pa m r3 off len) as [[[m1 r1] o1]| |s] eqn:E; cbn in Hp; try discriminate.
    inversion Hp; subst. unfold mem_parse_msg in E.
    match type of E with mem_rbind ?c _ = _ => destruct c as [[m2 l2]| |s] eqn:E2 end; cbn in E; try discriminate.
    inversion E; subst. intros k Hk.
    change (mem_private_str (mem_get_field (mem_with_unesc (mem_set_field r3 F_log (EStr EOwn off l2))
                                               match mem_index_byte 10 (firstn l2 (skipn off (m_own m')))
                                               with Some _ => true | None => false end) k)).
    exact (mem_priv_unesc K _ _ (mem_priv_set_private K r3 F_log (EStr EOwn off l2) Hh eq_refl) k Hk).
Qed.

(* ---- transforms ---- *)
Lemma mem_priv_delfields : forall K keys r, mem_priv_inv K r ->
  mem_priv_inv K (fold_left (fun acc k => mem_set_field acc k EEmpty) keys r).
Proof.
  induction keys as [|k ks IH]; intros r H; cbn; [exact H|]. apply IH. apply mem_priv_set_private; [exact H|exact I].
Qed.

Lemma mem_substr_private : forall s a b, mem_private_str s -> mem_private_str (mem_substr s a b).
Proof. intros [|p off len] a b H; cbn in *; auto. Qed.

Lemma mem_run_stx_static : forall K mode m r t m' r',
  (forall d, In d (mem_stx_shared_dsts t) -> ~ In d K) -> (forall k, In k (mem_stx_trunc_keys t) -> In k K) ->
  mem_priv_inv K r -> mem_run_stx mode m r t = ROk (m', r') ->
  mem_priv_inv K r' /\ mem_keeps_cfg m m'.
Proof.
  intros K mode m r t m' r' Hd Hk Hp H. destruct t; cbn [mem_run_stx] in H; cbn in Hd, Hk.
  - inversion H; subst. split; [|apply mem_keeps_cfg_refl].
    destruct (Nat.ltb _ _); [apply mem_priv_set_outside; [exact Hp|apply Hd; left; reflexivity]|exact Hp].
  - inversion H; subst. split; [|apply mem_keeps_cfg_refl].
    destruct (Nat.ltb _ _); [apply mem_priv_set_outside; [exact Hp|apply Hd; left; reflexivity]|exact Hp].
  - destruct (concat _) as [|d0 data]; [inversion H; subst; split; [exact Hp|apply mem_keeps_cfg_refl]|].
    destruct (mem_alloc m (d0 :: data)) as [m1 v] eqn:Ea. inversion H; subst.
    split; [|eapply mem_alloc_keeps; eauto].
    apply mem_priv_set_private; [exact Hp|]. unfold mem_alloc in Ea. inversion Ea; subst. reflexivity.
  - destruct (Nat.eqb _ 0); inversion H; subst; (split; [|apply mem_keeps_cfg_refl]); [exact Hp|].
    apply mem_priv_set_outside; [exact Hp|apply Hd; left; reflexivity].
  - pose proof (Hp key (Hk key (or_introl eq_refl))) as Hpk.
    destruct (mem_get_field r key) as [|p off len] eqn:Ef; [inversion H; subst; split; [exact Hp|apply mem_keeps_cfg_refl]|].
    cbn in Hpk.
    destruct (Nat.ltb (maxlen + length suffix) len); [|inversion H; subst; split; [exact Hp|apply mem_keeps_cfg_refl]].
    destruct mode.
    + destruct (mem_clean_utf8 m p off maxlen) as [[m1 tl]| |s] eqn:E1; cbn in H; try discriminate.
      destruct (mem_overwrite_n_truncate m1 p off len tl suffix) as [[m2 nl]| |s] eqn:E2; cbn in H; try discriminate.
      inversion H; subst. split.
      * apply mem_priv_set_private; [exact Hp|exact Hpk].
      * eapply mem_keeps_cfg_trans; [eapply mem_clean_private; eauto|eapply mem_overwrite_private; eauto].
    + destruct (mem_alloc m (firstn maxlen (mem_read m (EStr p off len)))) as [m1 v] eqn:Ea.
      assert (Hv : exists kk ll, v = EStr (EFresh kk) 0 ll) by (unfold mem_alloc in Ea; inversion Ea; subst; eauto).
      destruct Hv as (kk & ll & ->).
      destruct (mem_clean_utf8 m1 (EFresh kk) 0 maxlen) as [[m2 tl]| |s] eqn:E1; cbn in H; try discriminate.
      inversion H; subst. split.
      * apply mem_priv_set_private; [exact Hp|reflexivity].
      * apply mem_alloc_keeps in Ea. apply mem_clean_private in E1; [|reflexivity].
        destruct Ea, E1. split; cbn; congruence.
  - destruct (lr_unesc r) eqn:Eu; [inversion H; subst; split; [exact Hp|apply mem_keeps_cfg_refl]|].
    destruct (mem_index_byte 92 _).
    + destruct (mem_alloc m _) as [m1 v] eqn:Ea. inversion H; subst. split; [|eapply mem_alloc_keeps; eauto].
      assert (Hv : mem_private_str v) by (unfold mem_alloc in Ea; inversion Ea; subst; reflexivity).
      intros k Hk0.
      change (mem_private_str (mem_get_field (mem_set_field (mem_with_unesc r true) key (mem_substr v 0 (length (mem_unescape (mem_read m (mem_get_field r key)))))) k)).
      exact (mem_priv_set_private K _ key _ (mem_priv_unesc K r true Hp) (mem_substr_private v 0 _ Hv) k Hk0).
    + inversion H; subst. split; [|apply mem_keeps_cfg_refl]. intros k Hk0. apply (Hp k Hk0).
  - inversion H; subst. split; [apply mem_priv_delfields; exact Hp|apply mem_keeps_cfg_refl].
Qed.

Lemma mem_run_stxs_static : forall K mode ts m r m' r',
  (forall t, In t ts -> (forall d, In d (mem_stx_shared_dsts t) -> ~ In d K) /\ (forall k, In k (mem_stx_trunc_keys t) -> In k K)) ->
  mem_priv_inv K r -> mem_run_stxs mode m r ts = ROk (m', r') -> mem_priv_inv K r' /\ mem_keeps_cfg m m'.
Proof.
  induction ts as [|t ts IH]; intros m r m' r' Hall Hp H; cbn in H.
  - inversion H; subst. split; [exact Hp|apply mem_keeps_cfg_refl].
  - destruct (mem_run_stx mode m r t) as [[m1 r1]| |s] eqn:E; cbn in H; try discriminate.
    destruct (Hall t (or_introl eq_refl)) as [Hd Hk].
    destruct (mem_run_stx_static K mode m r t m1 r1 Hd Hk Hp E) as [Hp1 Hk1].
    destruct (IH m1 r1 m' r' (fun t0 Hin => Hall t0 (or_intror Hin)) Hp1 H) as [Hp2 Hk2].
    split; [exact Hp2|eapply mem_keeps_cfg_trans; eauto].
Qed.

Lemma mem_run_txs_static : forall K mode ts m r m' r' b,
  (forall t, In t (flat_map mem_tx_stxs ts) ->
     (forall d, In d (mem_stx_shared_dsts t) -> ~ In d K) /\ (forall k, In k (mem_stx_trunc_keys t) -> In k K)) ->
  mem_priv_inv K r -> mem_run_txs mode m r ts = ROk (m', r', b) -> mem_priv_inv K r' /\ mem_keeps_cfg m m'.
Proof.
  induction ts as [|t ts IH]; intros m r m' r' b Hall Hp H; cbn in H.
  - inversion H; subst. split; [exact Hp|apply mem_keeps_cfg_refl].
  - assert (Hrest : forall t0, In t0 (flat_map mem_tx_stxs ts) ->
       (forall d, In d (mem_stx_shared_dsts t0) -> ~ In d K) /\ (forall k, In k (mem_stx_trunc_keys t0) -> In k K)).
    { intros t0 Hin. apply Hall. cbn. apply in_or_app. right. exact Hin. }
    destruct t as [t|conds body|conds].
    + destruct (mem_run_stx mode m r t) as [[m1 r1]| |s] eqn:E; cbn in H; try discriminate.
      destruct (Hall t ltac:(cbn; left; reflexivity)) as [Hd Hk].
      destruct (mem_run_stx_static K mode m r t m1 r1 Hd Hk Hp E) as [Hp1 Hk1].
      destruct (IH m1 r1 m' r' b Hrest Hp1 H) as [Hp2 Hk2]. split; [exact Hp2|eapply mem_keeps_cfg_trans; eauto].
    + destruct (forallb _ conds).
      * destruct (mem_run_stxs mode m r body) as [[m1 r1]| |s] eqn:E; cbn in H; try discriminate.
        destruct (mem_run_stxs_static K mode body m r m1 r1) as [Hp1 Hk1]; auto.
        { intros t0 Hin. apply Hall. cbn. apply in_or_app. left. exact Hin. }
        destruct (IH m1 r1 m' r' b Hrest Hp1 H) as [Hp2 Hk2]. split; [exact Hp2|eapply mem_keeps_cfg_trans; eauto].
      * eapply IH; eauto.
    + destruct (forallb _ conds); [inversion H; subst; split; [exact Hp|apply mem_keeps_cfg_refl]|eapply IH; eauto].
Qed.

(* soundness of the static condition: it implies the hypothesis of the isolation theorem, for both truncate modes *)
Lemma mem_static_targets_own_sound : forall c, mem_static_targets_own c = true -> mem_targets_own c.
Proof.
  intros c Hst. unfold mem_static_targets_own in Hst. rewrite forallb_forall in Hst.
  set (K := flat_map mem_stx_trunc_keys (mem_cfg_stxs c)) in *.
  assert (H0 : ~ In 0 K) by (intros Hin; specialize (Hst 0 Hin); cbn in Hst; discriminate).
  assert (H1 : ~ In 1 K) by (intros Hin; specialize (Hst 1 Hin); cbn in Hst; discriminate).
  assert (Hall : forall t, In t (mem_cfg_stxs c) ->
            (forall d, In d (mem_stx_shared_dsts t) -> ~ In d K) /\ (forall k, In k (mem_stx_trunc_keys t) -> In k K)).
  { intros t Hin. split.
    - intros d Hd Hk. specialize (Hst d Hk). apply negb_true_iff in Hst.
      assert (Hx : mem_nat_in d (0 :: 1 :: flat_map mem_stx_shared_dsts (mem_cfg_stxs c)) = true).
      { unfold mem_nat_in. apply existsb_exists. exists d. split; [|apply Nat.eqb_refl].
        right. right. apply in_flat_map. exists t. split; assumption. }
      congruence.
    - intros k Hk. unfold K. apply in_flat_map. exists t. split; assumption. }
  assert (Hall1 : forall t, In t (flat_map mem_tx_stxs (c_extract c)) ->
            (forall d, In d (mem_stx_shared_dsts t) -> ~ In d K) /\ (forall k, In k (mem_stx_trunc_keys t) -> In k K)).
  { intros t Hin. apply Hall. unfold mem_cfg_stxs. apply in_or_app. left. exact Hin. }
  assert (Hall2 : forall t, In t (flat_map mem_tx_stxs (c_transforms c)) ->
            (forall d, In d (mem_stx_shared_dsts t) -> ~ In d K) /\ (forall k, In k (mem_stx_trunc_keys t) -> In k K)).
  { intros t Hin. apply Hall. unfold mem_cfg_stxs. apply in_or_app. right. exact Hin. }
  assert (Hr0 : forall input ts u, mem_priv_inv K (mem_spec_r0 c input ts u)).
  { intros input ts u k _. unfold mem_get_field, mem_spec_r0; cbn.
    destruct (Nat.lt_ge_cases k (c_maxfields c)) as [Hl|Hg].
    - assert (Hn : nth k (repeat EEmpty (c_maxfields c)) EEmpty = EEmpty).
      { destruct (nth_in_or_default k (repeat EEmpty (c_maxfields c)) EEmpty) as [Hi|Hd]; [apply repeat_spec in Hi; exact Hi|exact Hd]. }
      rewrite Hn. exact I.
    - rewrite nth_overflow by (rewrite repeat_length; exact Hg). exact I. }
  (* the stage after parsing + extractions: clean memory and private fields *)
  assert (Hparsed : forall input ts u,
            mem_stage_clean c (mem_spec_parsed c input ts u) /\
            match mem_spec_parsed c input ts u with SgLive m r => mem_priv_inv K r | _ => True end).
  { intros input ts u. unfold mem_spec_parsed.
    destruct (mem_parse _ _ _ _) as [[[[m1 r1] st] ov]| |s] eqn:E; cbn; auto.
    pose proof (mem_parse_keeps_cfg _ _ _ _ _ _ _ _ E) as [Ek1 Ek2].
    pose proof (mem_parse_priv K _ _ _ _ _ _ _ _ H0 H1 (Hr0 input ts u) E) as Hp1.
    assert (Hc1 : mem_cfg_clean c m1) by (split; [rewrite Ek1|rewrite Ek2]; reflexivity).
    destruct st; [|split; [exact Hc1|exact I]].
    unfold mem_after_txs. destruct (mem_run_txs _ m1 r1 (c_extract c)) as [[[m2 r2] b]| |s] eqn:Etx; cbn; auto.
    destruct (mem_run_txs_static K _ _ _ _ _ _ _ Hall1 Hp1 Etx) as [Hp2 [Hk1 Hk2]]. destruct Hc1 as [C1 C2].
    destruct b; cbn; (split; [split; congruence|auto]). }
  intros input ts u. split; [apply Hparsed|].
  unfold mem_spec_transformed. destruct (Hparsed input ts false) as [Hcl Hpr].
  destruct (mem_spec_parsed c input ts false) as [s|st m r|m r]; cbn in *; auto.
  unfold mem_after_txs. destruct (mem_run_txs _ m r (c_transforms c)) as [[[m2 r2] b]| |s] eqn:Etx; cbn; auto.
  destruct (mem_run_txs_static K _ _ _ _ _ _ _ Hall2 Hpr Etx) as [_ [Hk1 Hk2]]. destruct Hcl as [C1 C2].
  destruct b; cbn; split; congruence.
Qed.
