From SV Require Import Model.Common Model.Memory Model.MemoryRun.
From Coq Require Import ExtrOcamlBasic.
Definition run_line_model := run_line run_case_C12.
Extraction "model.ml" run_line_model.
