From SV Require Import Model.Common Model.ChunkId Model.Packer.
From Coq Require Import ExtrOcamlBasic.
Definition run_line_model := run_line run_case_C11.
Extraction "model.ml" run_line_model.
