From SV Require Import Model.Common Model.Md5 Model.Routing Model.RoutingMem Model.RoutingConc.
From Coq Require Import ExtrOcamlBasic.
Definition run_line_model := run_line run_case_C06.
Extraction "model.ml" run_line_model.
