From SV Require Import Model.Common Model.Reload Model.ReloadReplay.
From Coq Require Import ExtrOcamlBasic.
Definition run_line_model := run_line run_case_C17.
Extraction "model.ml" run_line_model.
