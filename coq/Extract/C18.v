From SV Require Import Model.Common Model.Shutdown.
From Coq Require Import ExtrOcamlBasic.
Definition run_line_model := run_line run_case_C18.
Extraction "model.ml" run_line_model.
