From SV Require Import Model.Common Model.FileWrite Model.Buffer Model.BufferStart.
From Coq Require Import ExtrOcamlBasic.
Definition run_line_model := run_line run_case_C03.
Extraction "model.ml" run_line_model.
