From SV Require Import Model.Common Model.Transforms.
From Coq Require Import ExtrOcamlBasic.
Definition run_line_model := run_line run_case_C15.
Extraction "model.ml" run_line_model.
