From SV Require Import Model.Common Model.Metrics Model.MetricsMem.
From Coq Require Import ExtrOcamlBasic.
Definition run_line_model := run_line run_case_C19.
Extraction "model.ml" run_line_model.
