From SV Require Import Model.Common Model.Redact.
From Coq Require Import ExtrOcamlBasic.
Definition run_line_model := run_line run_case_C14.
Extraction "model.ml" run_line_model.
