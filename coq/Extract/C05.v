From SV Require Import Model.Common Model.System Model.SystemAccept Model.RecoveryOrder Model.FeederLoad Model.SystemOrderCase.
From Coq Require Import ExtrOcamlBasic.
Definition run_line_model := run_line run_case_C05.
Extraction "model.ml" run_line_model.
