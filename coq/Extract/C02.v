From SV Require Import Model.Common Model.Client Model.ClientAccept Model.Datadog.
From Coq Require Import ExtrOcamlBasic.
Definition run_line_model := run_line run_case_C02.
Extraction "model.ml" run_line_model.
