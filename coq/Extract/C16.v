From SV Require Import Model.Common Model.ConfigTemplate Model.ConfigExtractor Model.Config Model.ConfigHolder Model.ConfigCases.
From Coq Require Import ExtrOcamlBasic.
Definition run_line_model := run_line run_case_C16.
Extraction "model.ml" run_line_model.
