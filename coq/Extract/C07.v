From SV Require Import Model.Common Model.Pipeline Model.PipelineCases.
From Coq Require Import ExtrOcamlBasic.
Definition run_line_model := run_line run_case_C07.
Extraction "model.ml" run_line_model.
