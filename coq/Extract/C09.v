From SV Require Import Model.Common Model.Utf8 Model.Parser Model.Composite.
From Coq Require Import ExtrOcamlBasic.
Definition run_line_model := run_line run_case_C09.
Extraction "model.ml" run_line_model.
