From SV Require Import Model.Common Model.FileWrite Model.Buffer Model.SpillFaults.
From Coq Require Import ExtrOcamlBasic.
Definition run_line_model := run_line run_case_C04.
Extraction "model.ml" run_line_model.
