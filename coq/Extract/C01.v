From SV Require Import Model.Common Model.System Model.SystemAccept Model.SystemConnEnd Model.SystemQuota Model.C01Case.
From Coq Require Import ExtrOcamlBasic.
Definition run_line_model := run_line run_case_C01.
Extraction "model.ml" run_line_model.
