From SV Require Import Model.Common Model.Msgpack Model.Unescape Model.Serializer Model.C10Cases.
From Coq Require Import ExtrOcamlBasic.
Definition run_line_model := run_line run_case_C10.
Extraction "model.ml" run_line_model.
