(* C15: independent reference definitions for the transform language: Python slicing,
   trimming, first/last occurrence of a boundary, byte-wise string predicates.  Nothing here
   mentions the functions of Model/. *)
From SV Require Import Model.Common.
Open Scope Z_scope.

(* ---------- Python's v[a:b] (PySlice_AdjustIndices with step 1) ---------- *)

Definition py_index (len : Z) (x : option Z) (dflt : Z) : Z :=
  match x with
  | None => dflt
  | Some i => Z.min (if i <? 0 then Z.max 0 (i + len) else i) len
  end.

Definition py_slice (v : bytes) (a b : option Z) : bytes :=
  let len := Z.of_nat (length v) in
  let lo := py_index len a 0 in
  let hi := py_index len b len in
  firstn (Z.to_nat (hi - lo)) (skipn (Z.to_nat lo) v).

(* ---------- "always trimmed": control characters and spaces at both ends ---------- *)

Fixpoint drop_blank (s : bytes) : bytes :=
  match s with
  | c :: t => if (c <=? 32)%N then drop_blank t else s
  | [] => []
  end.

Definition trim_ref (s : bytes) : bytes := rev (drop_blank (rev (drop_blank s))).

Definition all_blank (s : bytes) : Prop := Forall (fun c => (c <= 32)%N) s.

(* ---------- occurrences ---------- *)

(* needle occurs in hay at offset i, and at no smaller offset *)
Definition first_occurrence (needle hay : bytes) (i : nat) : Prop :=
  (exists b, hay = firstn i hay ++ needle ++ b) /\ (i + length needle <= length hay)%nat /\
  forall a' b', hay = a' ++ needle ++ b' -> (i <= length a')%nat.

(* ... and at no larger offset *)
Definition last_occurrence (needle hay : bytes) (i : nat) : Prop :=
  (exists b, hay = firstn i hay ++ needle ++ b) /\ (i + length needle <= length hay)%nat /\
  forall a' b', hay = a' ++ needle ++ b' -> (length a' <= i)%nat.

Definition occurs (needle hay : bytes) : Prop := exists a b, hay = a ++ needle ++ b.

Definition lastn (n : nat) (s : bytes) : bytes := skipn (length s - n) s.

(* ---------- templates: the documented syntax, as a grammar with a renderer ---------- *)

Definition word_char (c : N) : Prop :=
  (48 <= c <= 57)%N \/ (65 <= c <= 90)%N \/ (97 <= c <= 122)%N \/ c = 95%N.

Definition digit_byte (c : N) : Prop := (48 <= c <= 57)%N.

(* the text of an optional slice bound: nothing, or an optionally negative decimal number *)
Inductive bound_text : bytes -> Prop :=
| BT_none : bound_text []
| BT_pos d ds : Forall digit_byte (d :: ds) -> bound_text (d :: ds)
| BT_neg d ds : Forall digit_byte (d :: ds) -> bound_text (45%N :: d :: ds).

Inductive item :=
| ILit (s : bytes)                                   (* literal text without '$' *)
| IVar (name : bytes)                                (* $name *)
| IBrace (name : bytes) (sl : option (bytes * bytes)). (* ${name} or ${name[a:b]} *)

Definition render_item (i : item) : bytes :=
  match i with
  | ILit s => s
  | IVar n => 36%N :: n
  | IBrace n None => 36%N :: 123%N :: n ++ [125%N]
  | IBrace n (Some (a, b)) => 36%N :: 123%N :: n ++ 91%N :: a ++ 58%N :: b ++ [93%N; 125%N]
  end.

Definition render_items (l : list item) : bytes := flat_map render_item l.

Definition name_ok (n : bytes) : Prop := n <> [] /\ Forall word_char n.

Definition item_ok (i : item) : Prop :=
  match i with
  | ILit s => s <> [] /\ Forall (fun c => c <> 36%N) s
  | IVar n => name_ok n
  | IBrace n None => name_ok n
  | IBrace n (Some (a, b)) => name_ok n /\ bound_text a /\ bound_text b
  end.

(* what may follow an item so that the text reads back as the same items *)
Definition follows_ok (i : item) (next : list item) : Prop :=
  match i, next with
  | ILit _, ILit _ :: _ => False                         (* two literals are one literal *)
  | IVar _, ILit (c :: _) :: _ => ~ word_char c          (* a word character would extend the name *)
  | _, _ => True
  end.

Fixpoint items_ok (l : list item) : Prop :=
  match l with
  | [] => True
  | i :: l' => item_ok i /\ follows_ok i l' /\ items_ok l'
  end.
