(* C15: independent reference definitions for the transform language: Python slicing,
   trimming, first/last occurrence of a boundary, byte-wise string predicates.  Nothing here
   mentions the functions of Model/. *)
From SV Require Import Model.Common.
Open Scope Z_scope.

(* ---------- Python's v[a:b] (PySlice_AdjustIndices with step 1) ---------- *)

Definition py_index (len : Z) (x : option Z) (dflt : Z) : Z :=
  match x with
  | None => dflt
  | Some i => Z.min (if i <? 0 then Z.max 0 (i + len) else i) len
  end.

Definition py_slice (v : bytes) (a b : option Z) : bytes :=
  let len := Z.of_nat (length v) in
  let lo := py_index len a 0 in
  let hi := py_index len b len in
  firstn (Z.to_nat (hi - lo)) (skipn (Z.to_nat lo) v).

(* ---------- "always trimmed": control characters and spaces at both ends ---------- *)

Fixpoint drop_blank (s : bytes) : bytes :=
  match s with
  | c :: t => if (c <=? 32)%N then drop_blank t else s
  | [] => []
  end.

Definition trim_ref (s : bytes) : bytes := rev (drop_blank (rev (drop_blank s))).

Definition all_blank (s : bytes) : Prop := Forall (fun c => (c <= 32)%N) s.

(* ---------- occurrences ---------- *)

(* needle occurs in hay at offset i, and at no smaller offset *)
Definition first_occurrence (needle hay : bytes) (i : nat) : Prop :=
  (exists b, hay = firstn i hay ++ needle ++ b) /\ (i + length needle <= length hay)%nat /\
  forall a' b', hay = a' ++ needle ++ b' -> (i <= length a')%nat.

(* ... and at no larger offset *)
Definition last_occurrence (needle hay : bytes) (i : nat) : Prop :=
  (exists b, hay = firstn i hay ++ needle ++ b) /\ (i + length needle <= length hay)%nat /\
  forall a' b', hay = a' ++ needle ++ b' -> (length a' <= i)%nat.

Definition occurs (needle hay : bytes) : Prop := exists a b, hay = a ++ needle ++ b.

Definition lastn (n : nat) (s : bytes) : bytes := skipn (length s - n) s.

(* ---------- templates: the documented syntax, as a grammar with a renderer ---------- *)

Definition word_char (c : N) : Prop :=
  (48 <= c <= 57)%N \/ (65 <= c <= 90)%N \/ (97 <= c <= 122)%N \/ c = 95%N.

Definition digit_byte (c : N) : Prop := (48 <= c <= 57)%N.

(* the text of an optional slice bound: nothing, or an optionally negative decimal number *)
Inductive bound_text : bytes -> Prop :=
| BT_none : bound_text []
| BT_pos d ds : Forall digit_byte (d :: ds) -> bound_text (d :: ds)
| BT_neg d ds : Forall digit_byte (d :: ds) -> bound_text (45%N :: d :: ds).

Inductive item :=
| ILit (s : bytes)                                   (* literal text without '$' *)
| IVar (name : bytes)                                (* $name *)
| IBrace (name : bytes) (sl : option (bytes * bytes)). (* ${name} or ${name[a:b]} *)

Definition render_item (i : item) : bytes :=
  match i with
  | ILit s => s
  | IVar n => 36%N :: n
  | IBrace n None => 36%N :: 123%N :: n ++ [125%N]
  | IBrace n (Some (a, b)) => 36%N :: 123%N :: n ++ 91%N :: a ++ 58%N :: b ++ [93%N; 125%N]
  end.

Definition render_items (l : list item) : bytes := flat_map render_item l.

Definition name_ok (n : bytes) : Prop := n <> [] /\ Forall word_char n.

Definition item_ok (i : item) : Prop :=
  match i with
  | ILit s => s <> [] /\ Forall (fun c => c <> 36%N) s
  | IVar n => name_ok n
  | IBrace n None => name_ok n
  | IBrace n (Some (a, b)) => name_ok n /\ bound_text a /\ bound_text b
  end.

(* what may follow an item so that the text reads back as the same items *)
Definition follows_ok (i : item) (next : list item) : Prop :=
  match i, next with
  | ILit _, ILit _ :: _ => False                         (* two literals are one literal *)
  | IVar _, ILit (c :: _) :: _ => ~ word_char c          (* a word character would extend the name *)
  | _, _ => True
  end.

Fixpoint items_ok (l : list item) : Prop :=
  match l with
  | [] => True
  | i :: l' => item_ok i /\ follows_ok i l' /\ items_ok l'
  end.

(* ---------- extractHead / extractTail: what a successful extraction is ---------- *)

Definition tbl := N -> bool.

Definition allowed (t : option tbl) (lab : bytes) : Prop :=
  match t with Some tb => Forall (fun c => tb c = true) lab | None => True end.

(* the byte next to the fixed boundary must be acceptable as a label byte when a class is given *)
Definition edge_ok (t : option tbl) (c : option N) : Prop :=
  match t, c with Some tb, Some c => tb c = true | _, _ => True end.

(* text = left ++ label ++ right ++ rest: the right boundary is the first occurrence of [r]
   after the left boundary and ends within the first [maxr] bytes after it (or the whole
   remainder is not longer than [maxr]); every label byte is in the class.
   Without a right boundary the label is the longest non-empty run of class bytes. *)
Inductive head_match (l r : bytes) (maxr : Z) (t : option tbl) (text : bytes) : bytes -> bytes -> Prop :=
| HM_bounded lab rest :
    r <> [] ->
    text = l ++ lab ++ r ++ rest ->
    first_occurrence r (lab ++ r ++ rest) (length lab) ->
    (Z.of_nat (length lab + length r) <= maxr \/ Z.of_nat (length (lab ++ r ++ rest)) <= maxr) ->
    allowed t lab ->
    edge_ok t (hd_error (lab ++ r ++ rest)) ->
    head_match l r maxr t text lab rest
| HM_open tb lab rest :
    r = [] -> t = Some tb ->
    text = l ++ lab ++ rest ->
    lab <> [] -> Forall (fun c => tb c = true) lab ->
    match rest with [] => True | c :: _ => tb c = false end ->
    head_match l r maxr t text lab rest.

(* text = rest ++ left ++ label ++ right, mirrored *)
Inductive tail_match (l r : bytes) (maxr : Z) (t : option tbl) (text : bytes) : bytes -> bytes -> Prop :=
| TM_bounded lab rest :
    l <> [] ->
    text = rest ++ l ++ lab ++ r ->
    last_occurrence l (rest ++ l ++ lab) (length rest) ->
    (Z.of_nat (length l + length lab) <= maxr \/ Z.of_nat (length (rest ++ l ++ lab)) <= maxr) ->
    allowed t lab ->
    edge_ok t (hd_error (rev (rest ++ l ++ lab))) ->
    tail_match l r maxr t text lab rest
| TM_open tb lab rest :
    l = [] -> t = Some tb ->
    text = rest ++ lab ++ r ->
    lab <> [] -> Forall (fun c => tb c = true) lab ->
    match rev rest with [] => True | c :: _ => tb c = false end ->
    tail_match l r maxr t text lab rest.

(* ---------- extractHead / extractTail patterns: the documented syntax ---------- *)

(* "brackets and asterisks need to be escaped" (and the backslash itself) *)
Definition pat_special (c : N) : bool := ((c =? 92) || (c =? 91) || (c =? 93) || (c =? 42))%N.
Definition pat_escape (s : bytes) : bytes := flat_map (fun c => if pat_special c then [92%N; c] else [c]) s.

(* the body of a character class: single bytes and ranges, '-' itself only first or last *)
Inductive class_item := CChar (c : N) | CRange (lo hi : N).

Definition item_ok_class (i : class_item) : Prop :=
  match i with
  | CChar c => c <> 45%N
  | CRange lo hi => lo <> 45%N /\ hi <> 45%N /\ (lo <= hi)%N
  end.

Definition render_class_item (i : class_item) : bytes :=
  match i with CChar c => [c] | CRange lo hi => [lo; 45%N; hi] end.

Definition class_body (lead : bool) (items : list class_item) (trail : bool) : bytes :=
  (if lead then [45%N] else []) ++ flat_map render_class_item items ++ (if trail then [45%N] else []).

Definition in_class_item (c : N) (i : class_item) : bool :=
  match i with CChar x => (c =? x)%N | CRange lo hi => ((lo <=? c) && (c <=? hi))%N end.

(* the bytes a class body denotes *)
Definition in_class (lead : bool) (items : list class_item) (trail : bool) (c : N) : bool :=
  ((lead || trail) && (c =? 45)%N) || existsb (in_class_item c) items.
