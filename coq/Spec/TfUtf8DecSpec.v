(* C15: reference notions for the rune-level view of the UTF-8 clean-up (Model/TfUtf8Dec.v),
   independent of the decoder: "only deletes bytes" and "Unicode scalar value in shortest form". *)
From SV Require Import Model.Common.
Open Scope N_scope.

(* r is s with some bytes deleted *)
Inductive subseq : bytes -> bytes -> Prop :=
| SS_nil : subseq [] []
| SS_keep b r s : subseq r s -> subseq (b :: r) (b :: s)
| SS_drop b r s : subseq r s -> subseq r (b :: s).

(* a Unicode scalar value (RFC 3629 section 3): at most U+10FFFF and not a surrogate *)
Definition scalar_value (r : N) : Prop := r <= 1114111 /\ ~ (55296 <= r <= 57343).

(* the shortest encoding of r has n bytes (no overlong forms) *)
Definition shortest_form (r : N) (n : nat) : Prop :=
  match n with
  | 1%nat => r <= 127
  | 2%nat => 128 <= r <= 2047
  | 3%nat => 2048 <= r <= 65535
  | 4%nat => 65536 <= r
  | _ => False
  end.

(* a byte that cannot continue a sequence: the clean-up resynchronises there *)
Definition starts_fresh (y : bytes) : Prop := forall c y', y = c :: y' -> ~ (128 <= c <= 191).
