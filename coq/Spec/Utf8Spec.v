(* Specification of well-formed UTF-8, independent of any decoder: RFC 3629
   section 3.  A byte string is valid UTF-8 iff it is the concatenation of the
   encodings of Unicode scalar values (U+0000..U+10FFFF without the surrogates
   U+D800..U+DFFF), each encoded in the one form the RFC's table assigns to its
   range (so no over-long forms). *)
From SV Require Import Model.Common.
Open Scope N_scope.

Definition scalar (c : N) : Prop := c < 55296 \/ (57344 <= c /\ c <= 1114111).
(*                                      0xD800      0xE000         0x10FFFF *)

(*  0000 0000-0000 007F | 0xxxxxxx
    0000 0080-0000 07FF | 110xxxxx 10xxxxxx
    0000 0800-0000 FFFF | 1110xxxx 10xxxxxx 10xxxxxx
    0001 0000-0010 FFFF | 11110xxx 10xxxxxx 10xxxxxx 10xxxxxx *)
Definition utf8_encode (c : N) : bytes :=
  if c <? 128 then [c]
  else if c <? 2048 then [192 + c / 64; 128 + c mod 64]
  else if c <? 65536 then [224 + c / 4096; 128 + (c / 64) mod 64; 128 + c mod 64]
  else [240 + c / 262144; 128 + (c / 4096) mod 64; 128 + (c / 64) mod 64; 128 + c mod 64].

Definition utf8_encode_all (cs : list N) : bytes := concat (map utf8_encode cs).

Definition valid_utf8 (s : bytes) : Prop :=
  exists cs, Forall scalar cs /\ s = utf8_encode_all cs.

(* [s] does not end inside a character: the bytes after its last ASCII byte
   (all of [s] when there is none) are valid UTF-8.  This is what a clean-up
   that only looks behind the last ASCII byte can promise for arbitrary input;
   for valid UTF-8 input cut at some byte it means the cut is moved back to a
   character boundary. *)
Definition ends_with_ascii (a : bytes) : Prop := a = [] \/ exists a' b, a = a' ++ [b] /\ b < 128.

Definition non_ascii (w : bytes) : Prop := Forall (fun b => 128 <= b) w.

Definition ends_on_boundary (s : bytes) : Prop :=
  exists a w, s = a ++ w /\ ends_with_ascii a /\ non_ascii w /\ valid_utf8 w.
