(* Specification side of C10: an independent MessagePack DECODER for the part of the format a Fluentd
   forward event can contain (and a little more): positive fixint, nil, bool, uint8-64, fixstr/str8/str16/str32,
   bin8/16/32, fixarray/array16, fixmap/map16, fixext1-16.  It follows the MessagePack specification
   (first byte -> format, big-endian lengths), not the encoder under test. *)
From SV Require Import Model.Common.
Open Scope N_scope.

Inductive value :=
| VNil
| VBool (b : bool)
| VUint (n : N)
| VStr (s : bytes)
| VBin (s : bytes)
| VExt (ty : N) (data : bytes)
| VArr (l : list value)
| VMap (l : list (value * value)).

(* big-endian number *)
Fixpoint be_val (bs : bytes) (acc : N) : N :=
  match bs with
  | [] => acc
  | b :: r => be_val r (acc * 256 + b)
  end.

(* the first n bytes and the rest; None when fewer than n are left *)
Fixpoint take (l : bytes) (n : N) : option (bytes * bytes) :=
  if n =? 0 then Some ([], l)
  else match l with
       | [] => None
       | x :: l' =>
         match take l' (N.pred n) with
         | Some (a, r) => Some (x :: a, r)
         | None => None
         end
       end.

Definition read_uint (k : N) (bs : bytes) : option (N * bytes) :=
  match take bs k with
  | Some (h, r) => Some (be_val h 0, r)
  | None => None
  end.

Definition read_body (mk : bytes -> value) (n : N) (bs : bytes) : option (value * bytes) :=
  match take bs n with
  | Some (s, r) => Some (mk s, r)
  | None => None
  end.

(* a length prefix of k bytes followed by that many bytes *)
Definition read_sized (mk : bytes -> value) (k : N) (bs : bytes) : option (value * bytes) :=
  match read_uint k bs with
  | Some (n, r) => read_body mk n r
  | None => None
  end.

(* fixextN: one type byte, then n data bytes *)
Definition read_ext (n : N) (bs : bytes) : option (value * bytes) :=
  match bs with
  | [] => None
  | ty :: r => read_body (VExt ty) n r
  end.

Section Sequences.
  Variable dec : bytes -> option (value * bytes).

  Fixpoint dec_seq (n : nat) (bs : bytes) : option (list value * bytes) :=
    match n with
    | O => Some ([], bs)
    | S n' =>
      match dec bs with
      | Some (v, r) =>
        match dec_seq n' r with
        | Some (vs, r') => Some (v :: vs, r')
        | None => None
        end
      | None => None
      end
    end.

  Fixpoint dec_pairs (n : nat) (bs : bytes) : option (list (value * value) * bytes) :=
    match n with
    | O => Some ([], bs)
    | S n' =>
      match dec bs with
      | Some (k, r) =>
        match dec r with
        | Some (v, r1) =>
          match dec_pairs n' r1 with
          | Some (kvs, r2) => Some ((k, v) :: kvs, r2)
          | None => None
          end
        | None => None
        end
      | None => None
      end
    end.
End Sequences.

Definition wrap_arr (o : option (list value * bytes)) : option (value * bytes) :=
  match o with Some (l, r) => Some (VArr l, r) | None => None end.
Definition wrap_map (o : option (list (value * value) * bytes)) : option (value * bytes) :=
  match o with Some (l, r) => Some (VMap l, r) | None => None end.

(* one value; fuel bounds the nesting depth *)
Fixpoint decode (fuel : nat) (bs : bytes) : option (value * bytes) :=
  match fuel with
  | O => None
  | S f =>
    match bs with
    | [] => None
    | b :: r =>
      if b <? 128 then Some (VUint b, r)                                          (* positive fixint *)
      else if b <? 144 then wrap_map (dec_pairs (decode f) (N.to_nat (b - 128)) r) (* fixmap *)
      else if b <? 160 then wrap_arr (dec_seq (decode f) (N.to_nat (b - 144)) r)   (* fixarray *)
      else if b <? 192 then read_body VStr (b - 160) r                             (* fixstr *)
      else if b =? 192 then Some (VNil, r)
      else if b =? 194 then Some (VBool false, r)
      else if b =? 195 then Some (VBool true, r)
      else if b =? 196 then read_sized VBin 1 r                                    (* bin8 *)
      else if b =? 197 then read_sized VBin 2 r
      else if b =? 198 then read_sized VBin 4 r
      else if b =? 204 then option_map (fun p => (VUint (fst p), snd p)) (read_uint 1 r)
      else if b =? 205 then option_map (fun p => (VUint (fst p), snd p)) (read_uint 2 r)
      else if b =? 206 then option_map (fun p => (VUint (fst p), snd p)) (read_uint 4 r)
      else if b =? 207 then option_map (fun p => (VUint (fst p), snd p)) (read_uint 8 r)
      else if b =? 212 then read_ext 1 r                                           (* fixext1 *)
      else if b =? 213 then read_ext 2 r
      else if b =? 214 then read_ext 4 r
      else if b =? 215 then read_ext 8 r                                           (* fixext8 *)
      else if b =? 216 then read_ext 16 r
      else if b =? 217 then read_sized VStr 1 r                                    (* str8 *)
      else if b =? 218 then read_sized VStr 2 r                                    (* str16 *)
      else if b =? 219 then read_sized VStr 4 r                                    (* str32 *)
      else if b =? 220 then                                                        (* array16 *)
        match read_uint 2 r with
        | Some (n, r') => wrap_arr (dec_seq (decode f) (N.to_nat n) r')
        | None => None
        end
      else if b =? 222 then                                                        (* map16 *)
        match read_uint 2 r with
        | Some (n, r') => wrap_map (dec_pairs (decode f) (N.to_nat n) r')
        | None => None
        end
      else None
    end
  end.

(* decoding a whole message: the nesting depth can never exceed the number of bytes *)
Definition decode_all (bs : bytes) : option (value * bytes) := decode (length bs) bs.

(* Fluentd EventTime: ext type 0 with 8 bytes = seconds and nanoseconds, 32 bits each, big-endian *)
Definition event_time_of (v : value) : option (N * N) :=
  match v with
  | VExt 0 d =>
    match take d 4 with
    | Some (a, b) => if (length b =? 4)%nat then Some (be_val a 0, be_val b 0) else None
    | None => None
    end
  | _ => None
  end.
