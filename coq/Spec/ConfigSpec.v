(* C16 - what it means for each reference / expression site of a configuration to be valid.
   Written independently of the checks of [verify]: membership in the schema, a grammar for
   templates, "extraction can never panic" for extractHead/Tail patterns, the shape of a
   rewriter chain, plain ranges for numbers. *)
From SV Require Import Model.Common Model.ConfigTemplate Model.ConfigExtractor Model.Config.
Open Scope Z_scope.

(* ---------- schema fields ---------- *)
Definition known (sch : list bytes) (name : bytes) : Prop := In name sch.

(* usable as the metric label key_<name> *)
Definition label_chars (name : bytes) : Prop := Forall (fun c => is_word c = true) name.

(* ---------- templates: $name, ${name}, ${name[a:b]} and text without '$' ---------- *)
Inductive tsyntax :=
| SLit (s : bytes)
| SVar (name : bytes)
| SBrace (name : bytes) (bounds : option (option Z * option Z)).

Definition word (s : bytes) : Prop := s <> [] /\ Forall (fun c => is_word c = true) s.

(* the text of an optional bound: nothing, or an optional '-' and decimal digits denoting z, z an int64 *)
Definition bound_text (b : option Z) (s : bytes) : Prop :=
  match b with
  | None => s = []
  | Some z => exists (neg : bool) (ds : bytes) (n : N),
      ds <> [] /\ N_of_dec_acc ds 0%N = Some n /\
      s = (if neg then ch_minus :: ds else ds) /\
      z = (if neg then - Z.of_N n else Z.of_N n) /\
      int64_min <= z <= int64_max
  end.

Definition part_text (p : tsyntax) (s : bytes) : Prop :=
  match p with
  | SLit l => s = l /\ l <> [] /\ Forall (fun c => c <> ch_dollar) l
  | SVar name => s = ch_dollar :: name /\ word name
  | SBrace name None => s = ch_dollar :: ch_lbrace :: name ++ [ch_rbrace] /\ word name
  | SBrace name (Some (a, b)) =>
    word name /\ exists sa sb, bound_text a sa /\ bound_text b sb /\
      s = ch_dollar :: ch_lbrace :: name ++ ch_lbracket :: sa ++ ch_colon :: sb ++ [ch_rbracket; ch_rbrace]
  end.

Definition part_var (p : tsyntax) : option bytes :=
  match p with SLit _ => None | SVar n => Some n | SBrace n _ => Some n end.

(* the template is a sequence of well-formed parts and every variable is in scope *)
Definition template_valid (scope : list bytes) (t : bytes) : Prop :=
  exists ps texts, t = concat texts /\ Forall2 part_text ps texts /\
    Forall (fun p => match part_var p with Some n => In n scope | None => True end) ps.

(* ---------- extractHead / extractTail patterns ---------- *)
(* the pattern yields an extractor, and extraction from any text whatsoever does not panic *)
Definition special_pattern_valid (pos : position) (pattern : bytes) : Prop :=
  forall maxr, 0 <= maxr ->
  exists ex, new_string_extractor_simple true pos pattern maxr = Ok ex /\
             forall text, is_panic (extract ex text) = false.

(* ---------- rewriter chains ---------- *)
(* nothing, or any number of inline steps (on known fields) closed by copy or unescape *)
Definition rewriters_valid (sch : list bytes) (l : list rewriter) : Prop :=
  l = [] \/
  exists inl last, l = map RwInline inl ++ [last] /\ (last = RwCopy \/ last = RwUnescape) /\
                   Forall (fun f => f <> [] /\ known sch f) inl.

Definition ref_valid (sch : list bytes) (r : reference) : Prop :=
  match r with
  | RefField name => known sch name
  | RefKeyField name => known sch name /\ label_chars name
  | RefTemplate scope t => template_valid scope t
  | RefCapture name => known sch name
  | RefRegex compiles => compiles = true
  | RefSpecialPattern pos pattern => special_pattern_valid pos pattern
  | RefPercent n => exists z, n = NumOk z /\ 1 <= z <= 100
  | RefPositive n => exists z, n = NumOk z /\ 0 < z
  | RefNonEmpty _ is_empty => is_empty = false
  | RefMatchValue op => op <> MNull /\ op <> MUnknownTag
  | RefRewriters l => rewriters_valid sch l
  | RefMode m => m = mode_forward \/ m = mode_packed \/ m = mode_compressed
  | RefAddress ok => ok = true
  | RefQuantity b => exists n, b = BigOk n /\ (0 < n)%N
  | RefLevels n => n = 8%nat
  | RefPresent present => present = true
  end.

(* ---------- what is assumed of the libraries at run time ---------- *)
(* regexp: FindStringSubmatchIndex returns one pair per group; a pair is (-1,-1) for a group that did
   not take part, else a valid range of the value.  CleanUTF8 returns a prefix of its argument. *)
Definition submatch_ok (len : nat) (idxs : list Z) (i : nat) : Prop :=
  exists a b, nth_error idxs (2 * i) = Some a /\ nth_error idxs (2 * i + 1) = Some b /\
              (a < 0 \/ b < 0 \/ (0 <= a <= b /\ b <= Z.of_nat len)).

Definition ext_wf (x : externals) : Prop :=
  (forall pat n v idxs, x_regex_find x pat n v = Some idxs -> forall i, (i < n)%nat -> submatch_ok (length v) idxs i)
  /\ (forall s, (x_clean_len x s <= length s)%nat).

(* no record reaches a panic site *)
Definition records_safe (p : pipeline) : Prop :=
  forall x, ext_wf x -> forall i f, Z.of_nat (length f) = pl_nfields p -> is_panic (run_record x p i f) = false.
