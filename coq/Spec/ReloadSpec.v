(* C17 - what "reload is safe" means, stated on what the downstream objects observe
   (the log of hand-overs and deliveries) and on the events of a run; independent of how
   reloadable.go organises its table and lock. *)
From SV Require Import Model.Common Model.Reload.
From Coq Require Import Arith Permutation.
Local Open Scope nat_scope.

(* a single observation is acceptable: the record went to a sink that was open and to pipelines
   that had not been shut down at that moment; no goroutine panicked *)
Definition obs_ok (o : obs) : Prop :=
  match o with
  | OHand _ _ _ _ alive => alive = true
  | ODeliver _ _ _ alive => alive = true
  | OPanic _ _ _ => False
  end.

Definition log_ok (lg : list obs) : Prop := Forall obs_ok lg.

(* records that reached the pipelines of some generation (with multiplicity) *)
Definition delivered_recs (lg : list obs) : list rec :=
  flat_map (fun o => match o with ODeliver r _ _ _ => [r] | _ => [] end) lg.

(* records passed to ReloadableSink.Accept by the connections, read off the events of the run *)
Definition acc_of_event (e : event) : list rec :=
  match e with EAccBegin _ rs => rs | _ => [] end.
Definition acc_of_events (evs : list event) : list rec := flat_map acc_of_event evs.

(* records buffered in downstream sinks, and records of Accept calls that are still in progress *)
Definition buffered (st : state) : list rec := flat_map ds_pending (st_sinks st).
Definition inflight_of (c : cthread) : list rec :=
  match ct_pc c with PAccIn _ rs => rs | _ => [] end.
Definition inflight (st : state) : list rec := flat_map inflight_of (st_thr st).

(* a downstream sink that is open, belongs to pipelines that are not shut down, and is the one the
   table holds for its client number (so the connection's Close or the next reload will flush it) *)
Definition live_tracked (st : state) (s : nat) (d : dsink) : Prop :=
  ds_closed d = false /\ gen_shut st (ds_gen d) = false /\ ds_gen d = st_cur st /\
  nth_error (st_table st) (ds_num d) = Some (Some s).

(* no connection has an open sink or a call in progress, no reload in progress *)
Definition quiescent (st : state) : Prop :=
  st_rl st = RIdle /\
  forall t c, nth_error (st_thr st) t = Some c -> ct_pc c = PIdle /\ ct_h c <> HOpen.

(* reload events *)
Definition is_reload_event (e : event) : bool :=
  match e with ERlBegin | ERlInit _ | ERlLock | ERlStep => true | _ => false end.
