(* Specification for C14 (email redaction), independent of the scanning code: what an address of the
   supported shape IS - as a decomposition of the text into context, local part, '@', domain, context -
   and what "the spans were replaced and nothing else was touched" means.  Nothing here refers to
   Model/Redact.v. *)
From SV Require Import Model.Common.
Local Open Scope nat_scope.

(* ---------- character classes (as propositions on byte values) ---------- *)
Definition digit_ch (c : N) : Prop := (48 <= c <= 57)%N.                               (* 0-9 *)
Definition word_ch (c : N) : Prop := (65 <= c <= 90)%N \/ (97 <= c <= 122)%N \/ digit_ch c.   (* letters and digits *)
Definition addr_ch (c : N) : Prop := word_ch c \/ c = 46%N \/ c = 45%N \/ c = 95%N.    (* plus . - _ *)

(* ---------- the shape of an address ---------- *)

(* the local part: letters, digits and . - _ ; the character next to the '@' is a letter or digit *)
Definition local_part (l : bytes) : Prop :=
  exists r w, l = r ++ [w] /\ Forall addr_ch r /\ word_ch w.

(* to the left: the local part is not the tail of a longer run of such characters, and it is not
   directly preceded by '/' *)
Definition left_context (pre : bytes) : Prop :=
  pre = [] \/ exists p c, pre = p ++ [c] /\ ~ addr_ch c /\ c <> 47%N.

(* the first label of the domain: starts (next to the '@') with a letter or digit; no dot *)
Definition label (l : bytes) : Prop :=
  exists w r, l = w :: r /\ word_ch w /\ Forall (fun c => addr_ch c /\ c <> 46%N) r.

(* to the right: nothing that could still belong to the domain follows *)
Definition right_context (post : bytes) : Prop :=
  match post with
  | [] => True
  | c :: _ => ~ addr_ch c
  end.

(* [domain_shape dom post]: the domain and what follows it in the text *)
Inductive domain_shape : bytes -> bytes -> Prop :=
| dom_dotted (l : bytes) (w : N) (r post : bytes) :          (* label '.' letter-or-digit more... *)
    label l -> word_ch w -> Forall addr_ch r -> right_context post ->
    domain_shape (l ++ 46%N :: w :: r) post
| dom_cut_in_label (l : bytes) :                             (* the text ends inside the first label *)
    label l -> domain_shape l []
| dom_cut_after_dot (l : bytes) :                            (* the text ends right after the first dot *)
    label l -> domain_shape (l ++ [46%N]) [].

(* a number: at least two characters, digits and dots only, a digit at both ends (123.456, 10.0.0.1, 163) *)
Definition numeric (d : bytes) : Prop :=
  2 <= length d /\ Forall (fun c => digit_ch c \/ c = 46%N) d /\
  (exists c r, d = c :: r /\ digit_ch c) /\ (exists r c, d = r ++ [c] /\ digit_ch c).

(* the most literal reading of "purely numeric": nothing but digits and dots (also "1", "12.", "1.2.") *)
Definition digits_and_dots (d : bytes) : Prop := Forall (fun c => digit_ch c \/ c = 46%N) d.

(* An address of the supported shape occupies [s,e) of the text, its '@' at position a. *)
Definition email_shape (nonnumeric : bytes -> Prop) (t : bytes) (s a e : nat) : Prop :=
  exists pre loc dom post,
    t = pre ++ loc ++ 64%N :: dom ++ post /\
    s = length pre /\ a = s + length loc /\ e = a + 1 + length dom /\
    left_context pre /\ local_part loc /\ domain_shape dom post /\ nonnumeric dom.

Definition email_at : bytes -> nat -> nat -> nat -> Prop := email_shape (fun d => ~ numeric d).

(* the same with the literal reading of "not purely numeric": some character of the domain is
   neither a digit nor a dot.  Every such address is an [email_at] address (Proofs: literal_is_email_at). *)
Definition email_at_literal : bytes -> nat -> nat -> nat -> Prop := email_shape (fun d => ~ digits_and_dots d).

Definition no_email (t : bytes) : Prop := forall s a e, ~ email_at t s a e.

(* ---------- redaction by spans ---------- *)

Definition marker : bytes := [82;69;68;65;67;84;69;68]%N.   (* "REDACTED" *)

(* the text from position [pos] on, with the spans (given in increasing order) replaced by the marker *)
Fixpoint splice (t : bytes) (pos : nat) (spans : list (nat * nat)) : bytes :=
  match spans with
  | [] => skipn pos t
  | (s, e) :: r => firstn (s - pos) (skipn pos t) ++ marker ++ splice t e r
  end.

(* spans are non-empty, increasing and disjoint, inside [lo, hi] *)
Fixpoint spans_ordered (lo : nat) (spans : list (nat * nat)) (hi : nat) : Prop :=
  match spans with
  | [] => lo <= hi
  | (s, e) :: r => lo <= s /\ s < e /\ spans_ordered e r hi
  end.

(* position i of the text lies in one of the spans *)
Definition covered (spans : list (nat * nat)) (i : nat) : Prop :=
  exists s e, In (s, e) spans /\ s <= i < e.

(* where position i of the source (not inside a span, i >= lo) ends up in [splice t lo spans] *)
Fixpoint out_index (lo : nat) (spans : list (nat * nat)) (i : nat) : nat :=
  match spans with
  | [] => i - lo
  | (s, e) :: r => if i <? s then i - lo else (s - lo) + length marker + out_index e r i
  end.

(* total number of bytes inside the spans *)
Fixpoint span_bytes (spans : list (nat * nat)) : nat :=
  match spans with
  | [] => 0
  | (s, e) :: r => (e - s) + span_bytes r
  end.
