(* Specification for C08: a line-based reference framer.  It knows nothing about buffers,
   offsets, capacities or reads: the stream is split at newlines and the lines are grouped.

     - the first line opens a segment (untested);
     - a later NON-EMPTY line accepted by the tester closes the open segment and opens the next;
     - every other line - and an unterminated tail - continues the open segment;
     - every closed segment is a record; the segment open at the end of the stream is a record
       iff the tester accepts it.

   [spec_ops] extends it to scripts with flushes: a flush cuts the text received since the
   last cut at its last newline, frames the part before the cut on its own and carries the
   unterminated rest over.  Reads only concatenate: fragmentation does not exist in the spec. *)
From SV Require Import Model.Common Model.Framing.
Open Scope nat_scope.

(* complete lines (without their newline) and the unterminated tail *)
Fixpoint split_lines (s : bytes) : list bytes * bytes :=
  match s with
  | [] => ([], [])
  | c :: s' =>
    let (ls, t) := split_lines s' in
    if N.eqb c NL then ([] :: ls, t)
    else match ls with
         | [] => ([], c :: t)
         | l :: ls' => ((c :: l) :: ls', t)
         end
  end.

(* the inverse: every line followed by a newline *)
Definition unlines (ls : list bytes) : bytes := flat_map (fun l => l ++ [NL]) ls.

(* a string without newline *)
Definition nonl (l : bytes) : Prop := ~ In NL l.

Section Spec.
Variable test : bytes -> bool.

Definition is_start (l : bytes) : bool :=
  match l with
  | [] => false
  | _ :: _ => test l
  end.

(* [cur]: lines of the open segment, oldest first *)
Fixpoint group (cur : list bytes) (ls : list bytes) (tail : bytes) : list bytes :=
  match ls with
  | [] => [join NL (match tail with [] => cur | _ :: _ => cur ++ [tail] end)]
  | l :: ls' =>
    if is_start l then join NL cur :: group [l] ls' tail
    else group (cur ++ [l]) ls' tail
  end.

(* all segments of a stream, the last one being the segment still open at the end *)
Definition segments (s : bytes) : list bytes :=
  let (ls, t) := split_lines s in
  match ls with
  | [] => match t with [] => [] | _ :: _ => [t] end
  | l :: ls' => group [l] ls' t
  end.

(* closed segments are records; the open one is a record iff the tester accepts it *)
Fixpoint close_last (segs : list bytes) : list bytes :=
  match segs with
  | [] => []
  | [x] => if test x then [x] else []
  | x :: segs' => x :: close_last segs'
  end.

Definition frame (s : bytes) : list bytes := close_last (segments s).

(* the segments already closed by a later start line (what has been delivered before any flush) *)
Definition closed_segments (s : bytes) : list bytes := removelast (segments s).

(* side condition of the theorems: no segment (record or garbage block) longer than b *)
Definition seg_bound (b : nat) (s : bytes) : Prop :=
  Forall (fun r => length r <= b) (segments s).

(* scripts: [carry] = the text received since the last cut *)
Fixpoint spec_ops (carry : bytes) (ops : list op) : list bytes :=
  match ops with
  | [] => closed_segments carry
  | OpRead f :: ops' => spec_ops (carry ++ f) ops'
  | OpFlush :: ops' =>
    let (ls, t) := split_lines carry in frame (unlines ls) ++ spec_ops t ops'
  | OpFlushAll :: ops' => frame carry ++ spec_ops [] ops'
  end.

(* the text received so far can be completed to a stream within the bound (a prefix of a
   bounded stream need not be bounded itself: its unterminated tail counts as a continuation) *)
Definition prefix_bounded (b : nat) (x : bytes) : Prop := exists z, seg_bound b (x ++ z).

Fixpoint bounded_ops (b : nat) (carry : bytes) (ops : list op) : Prop :=
  match ops with
  | [] => prefix_bounded b carry
  | OpRead f :: ops' => bounded_ops b (carry ++ f) ops'
  | OpFlush :: ops' => prefix_bounded b carry /\ bounded_ops b (snd (split_lines carry)) ops'
  | OpFlushAll :: ops' => prefix_bounded b carry /\ bounded_ops b [] ops'
  end.

End Spec.

Definition no_flush_all (ops : list op) : Prop := Forall (fun o => o <> OpFlushAll) ops.
Definition no_flush (ops : list op) : Prop := Forall (fun o => o <> OpFlush) ops.

(* the tester's verdict on the empty string only matters when Flush is used (Flush skips an
   empty record before testing it, FlushAll tests it) *)
Definition flush_ok (test : bytes -> bool) (ops : list op) : Prop := test [] = false \/ no_flush ops.

(* a line that is a complete single-line record of at most b bytes *)
Definition valid_line (test : bytes -> bool) (b : nat) (l : bytes) : Prop :=
  l <> [] /\ nonl l /\ test l = true /\ length l <= b.

(* dropping the per-operation trace of [run_ops_tr] *)
Definition forget_trace {A B C} (r : outcome (A * B * C)) : outcome (A * B) :=
  match r with
  | Ok (a, b, _) => Ok (a, b)
  | Err e => Err e
  | Panic s => Panic s
  end.

(* the text of a script: everything read, in order *)
Fixpoint ops_text (ops : list op) : bytes :=
  match ops with
  | [] => []
  | OpRead f :: ops' => f ++ ops_text ops'
  | _ :: ops' => ops_text ops'
  end.



(* a connection script given as the runs of reads between consecutive flush ticks *)
Definition script_of (fss : list (list bytes)) : list op :=
  flat_map (fun fs => map OpRead fs ++ [OpFlush]) fss.

(* ---------- the documented shape of a record start line (recordtest.go) ----------
   "<" 1 to 3 decimal digits ">1 " and at least 32 bytes in all *)
Definition start_shape (s : bytes) : Prop :=
  32 <= length s /\
  exists ds rest, s = 60%N :: ds ++ 62%N :: 49%N :: 32%N :: rest /\
                  1 <= length ds <= 3 /\ Forall (fun d => is_digit d = true) ds.
