(* C17 - what the property demands of the history of pipeline starts / stops / Shutdown returns of the pipeline sets
   (generations) and of the set of running pipelines.  Independent of the step function of Model/ReloadRecover.v. *)
From SV Require Import Model.Common Model.ReloadRecover.
From Coq Require Import List.
Import ListNotations.

(* history newest first: no pipeline of generation g is started after Shutdown of g returned *)
Fixpoint starts_ok (log : list pev) : Prop :=
  match log with
  | [] => True
  | PStart g _ :: l => ~ In (ShutRet g) l /\ starts_ok l
  | _ :: l => starts_ok l
  end.

(* every queue dir has at most one running pipeline *)
Definition one_owner (live : list (nat * nat)) : Prop :=
  NoDup live /\ forall g1 g2 id, In (g1, id) live -> In (g2, id) live -> g1 = g2.
