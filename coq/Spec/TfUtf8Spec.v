(* C15: what "valid UTF-8" means (RFC 3629, Table 3-7 of Unicode: well-formed byte sequences),
   stated as a grammar, independently of the decoder in Model/TfUtf8.v. *)
From SV Require Import Model.Common.
Open Scope N_scope.

Definition cont (b : N) : Prop := 128 <= b <= 191.

(* one well-formed encoded scalar value *)
Inductive utf8_seq : bytes -> Prop :=
| U1 b : b <= 127 -> utf8_seq [b]
| U2 b0 b1 : 194 <= b0 <= 223 -> cont b1 -> utf8_seq [b0; b1]
| U3a b1 b2 : 160 <= b1 <= 191 -> cont b2 -> utf8_seq [224; b1; b2]
| U3b b0 b1 b2 : (225 <= b0 <= 236 \/ 238 <= b0 <= 239) -> cont b1 -> cont b2 -> utf8_seq [b0; b1; b2]
| U3c b1 b2 : 128 <= b1 <= 159 -> cont b2 -> utf8_seq [237; b1; b2]
| U4a b1 b2 b3 : 144 <= b1 <= 191 -> cont b2 -> cont b3 -> utf8_seq [240; b1; b2; b3]
| U4b b0 b1 b2 b3 : 241 <= b0 <= 243 -> cont b1 -> cont b2 -> cont b3 -> utf8_seq [b0; b1; b2; b3]
| U4c b1 b2 b3 : 128 <= b1 <= 143 -> cont b2 -> cont b3 -> utf8_seq [244; b1; b2; b3].

Inductive valid_utf8 : bytes -> Prop :=
| V_nil : valid_utf8 []
| V_app s t : utf8_seq s -> valid_utf8 t -> valid_utf8 (s ++ t).

Definition is_prefix_of (p s : bytes) : Prop := exists x, s = p ++ x.

(* r is a non-empty, incomplete beginning of a well-formed sequence *)
Definition incomplete_seq (r : bytes) : Prop :=
  r <> [] /\ exists s x, utf8_seq s /\ s = r ++ x /\ x <> [].
