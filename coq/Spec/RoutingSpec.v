(* C06 - independent reference definitions the model is compared with.
   (1) the documented meaning of a tag-template substring ${name[s:e]} : the Python slice v[s:e];
   (2) the abstract router: a record belongs to the pipeline named by its own key tuple, whose id, tag
       and metric labels are functions of that tuple alone. *)
From SV Require Import Model.Common.
Open Scope Z_scope.

(* Python's clamping of one slice bound for a sequence of length len *)
Definition clamp (len x : Z) : Z :=
  let x := if x <? 0 then x + len else x in
  Z.max 0 (Z.min len x).

Definition ref_slice (v : bytes) (s e : option Z) : bytes :=
  let len := Z.of_nat (length v) in
  let s' := match s with Some x => clamp len x | None => 0 end in
  let e' := match e with Some x => clamp len x | None => len end in
  firstn (Z.to_nat (e' - s')) (skipn (Z.to_nat s') v).

(* the key tuple of a record is the only thing routing may depend on: an abstract pipeline is
   identified by the tuple itself *)
Record abstract_pipeline := { ap_keys : list bytes }.

Definition pipeline_of (ks : list bytes) : abstract_pipeline := {| ap_keys := ks |}.

Lemma pipeline_of_injective : forall ks ks', pipeline_of ks = pipeline_of ks' -> ks = ks'.
Proof. intros ks ks' H. inversion H. reflexivity. Qed.

(* (3) metric label values are a rendering of the key values that may only LOSE bytes: [subseq a b] = a is b with
       some elements left out (order kept).  Together with Spec/Utf8Spec.v valid_utf8 (RFC 3629) this is what the
       label theorems are stated against. *)
Inductive subseq {A : Type} : list A -> list A -> Prop :=
| subseq_nil : subseq [] []
| subseq_keep : forall x a b, subseq a b -> subseq (x :: a) (x :: b)
| subseq_drop : forall x a b, subseq a b -> subseq a (x :: b).
