(* Specification side of C09: how an RFC 5424 line is written from its parts
   (HEADER = PRI VERSION SP TIMESTAMP SP HOSTNAME SP APP-NAME SP PROCID SP MSGID,
   then SP STRUCTURED-DATA SP MSG; structured data without spaces), what PRI
   means (facility = PRI div 8, severity = PRI mod 8, RFC 5424 section 6.2.1)
   and what "counted" means.  Nothing here refers to the parsing code; only the
   record / counters types of the model are used to state results. *)
From SV Require Import Model.Common Model.Parser.
Open Scope N_scope.

Definition no_space (t : bytes) : Prop := ~ In 32 t.

(* ---------- PRI ---------- *)

(* RFC 5424 numerical facility code -> the name slog-agent documents for it *)
Definition facility_keyword (code : N) : bytes :=
  match code with
  | 0 => [107;101;114;110]                  (* kern *)
  | 1 => [117;115;101;114]                  (* user *)
  | 2 => [109;97;105;108]                   (* mail *)
  | 3 => [100;97;101;109;111;110]           (* daemon *)
  | 4 => [97;117;116;104]                   (* auth *)
  | 5 => [115;121;115;108;111;103]          (* syslog *)
  | 6 => [108;112;114]                      (* lpr *)
  | 7 => [110;101;119;115]                  (* news *)
  | 8 => [117;117;99;112]                   (* uucp *)
  | 9 => [99;114;111;110]                   (* cron *)
  | 10 => [97;117;116;104;112;114;105;118]  (* authpriv *)
  | 11 => [102;116;112]                     (* ftp *)
  | 12 => [110;116;112]                     (* ntp *)
  | 13 => [97;117;100;105;116]              (* audit *)
  | 14 => [97;108;101;114;116]              (* alert *)
  | 15 => [99;108;111;99;107]               (* clock *)
  | 16 => [108;111;99;97;108;48]            (* local0 *)
  | 17 => [108;111;99;97;108;49]
  | 18 => [108;111;99;97;108;50]
  | 19 => [108;111;99;97;108;51]
  | 20 => [108;111;99;97;108;52]
  | 21 => [108;111;99;97;108;53]
  | 22 => [108;111;99;97;108;54]
  | 23 => [108;111;99;97;108;55]            (* local7 *)
  | _ => []
  end.

(* PRIVAL = 1*3DIGIT, no leading zero *)
Definition pri_digits (p : N) : bytes :=
  if p <? 10 then [48 + p]
  else if p <? 100 then [48 + p / 10; 48 + p mod 10]
  else [48 + p / 100; 48 + (p / 10) mod 10; 48 + p mod 10].

(* What a liberal reader accepts as an integer: optional sign, one or more decimal digits. *)
Definition digit (c : N) : Prop := 48 <= c <= 57.

Definition digits_value (ds : bytes) : Z :=
  fold_left (fun a d => (a * 10 + (Z.of_N d - 48))%Z) ds 0%Z.

Inductive int_literal : bytes -> Z -> Prop :=
| IL_plain : forall ds, ds <> [] -> Forall digit ds -> int_literal ds (digits_value ds)
| IL_plus : forall ds, ds <> [] -> Forall digit ds -> int_literal (43 :: ds) (digits_value ds)
| IL_minus : forall ds, ds <> [] -> Forall digit ds -> int_literal (45 :: ds) (- digits_value ds)%Z.

(* the first token "<PRI>1" with PRI an integer literal denoting 0..191 *)
Definition pri_token_ok (tok : bytes) : Prop :=
  exists lit n, tok = 60 :: lit ++ [62; 49] /\ int_literal lit n /\ (0 <= n <= 191)%Z.

(* ---------- the line ---------- *)

Record header := {
  h_time : bytes; h_host : bytes; h_app : bytes; h_pid : bytes; h_msgid : bytes; h_sd : bytes }.

Definition header_ok (h : header) : Prop :=
  no_space (h_time h) /\ no_space (h_host h) /\ no_space (h_app h) /\
  no_space (h_pid h) /\ no_space (h_msgid h) /\ no_space (h_sd h).

(* "<" lit ">1" SP time SP host SP app SP pid SP msgid SP sd SP msg *)
Definition render_with (lit : bytes) (h : header) (msg : bytes) : bytes :=
  (60 :: lit ++ [62; 49]) ++ 32 :: h_time h ++ 32 :: h_host h ++ 32 :: h_app h ++ 32 :: h_pid h ++
  32 :: h_msgid h ++ 32 :: h_sd h ++ 32 :: msg.

Definition render (pri : N) (h : header) (msg : bytes) : bytes := render_with (pri_digits pri) h msg.

(* ---------- the record a line denotes ---------- *)

Definition has_newline (s : bytes) : bool := existsb (N.eqb 10) s.

(* [levels]: the configured names of the eight severities; [log]: the message as delivered *)
Definition record_of (levels : list bytes) (pri : Z) (h : header) (log : bytes) (linelen : nat) : record :=
  {| f_facility := facility_keyword (Z.to_N (pri / 8));
     f_level := nth (Z.to_nat (pri mod 8)) levels [];
     f_time := h_time h; f_host := h_host h; f_app := h_app h; f_pid := h_pid h;
     f_source := h_msgid h; f_extradata := h_sd h;
     f_log := log;
     raw_length := linelen;
     unescaped := has_newline log |}.

(* ---------- accounting ---------- *)

Definition same_overflow (c c' : counters) : Prop :=
  overflow_n c' = overflow_n c /\ overflow_bytes c' = overflow_bytes c.

Definition one_overflow (c c' : counters) (len : nat) : Prop :=
  overflow_n c' = overflow_n c + 1 /\ overflow_bytes c' = overflow_bytes c + N.of_nat len.

(* counted once as passed, with the byte length *)
Definition counted_passed (c c' : counters) (len : nat) : Prop :=
  passed_n c' = passed_n c + 1 /\ passed_bytes c' = passed_bytes c + N.of_nat len /\
  dropped_n c' = dropped_n c /\ dropped_bytes c' = dropped_bytes c.

(* counted once as dropped, with the byte length; never an overflow *)
Definition counted_dropped (c c' : counters) (len : nat) : Prop :=
  passed_n c' = passed_n c /\ passed_bytes c' = passed_bytes c /\
  dropped_n c' = dropped_n c + 1 /\ dropped_bytes c' = dropped_bytes c + N.of_nat len /\
  same_overflow c c'.

(* counted once as dropped, with the byte length, whatever the overflow counter did: a message that an
   extraction transform of the input drops has been through the parser, which may have cut it and counted
   the overflow *)
Definition counted_dropped_any (c c' : counters) (len : nat) : Prop :=
  passed_n c' = passed_n c /\ passed_bytes c' = passed_bytes c /\
  dropped_n c' = dropped_n c + 1 /\ dropped_bytes c' = dropped_bytes c + N.of_nat len.

(* what a receiver behind the parser sees of a sequence of messages: [outs] are the results for [msgs], in
   order; delivered = a record was returned, refused = nil was returned *)
Fixpoint delivered_n (msgs : list bytes) (outs : list (outcome (option record))) : N :=
  match msgs, outs with
  | _ :: ms, Ok (Some _) :: os => 1 + delivered_n ms os
  | _ :: ms, _ :: os => delivered_n ms os
  | _, _ => 0
  end.
Fixpoint delivered_bytes (msgs : list bytes) (outs : list (outcome (option record))) : N :=
  match msgs, outs with
  | m :: ms, Ok (Some _) :: os => N.of_nat (length m) + delivered_bytes ms os
  | _ :: ms, _ :: os => delivered_bytes ms os
  | _, _ => 0
  end.
Fixpoint refused_n (msgs : list bytes) (outs : list (outcome (option record))) : N :=
  match msgs, outs with
  | _ :: ms, Ok None :: os => 1 + refused_n ms os
  | _ :: ms, _ :: os => refused_n ms os
  | _, _ => 0
  end.
Fixpoint refused_bytes (msgs : list bytes) (outs : list (outcome (option record))) : N :=
  match msgs, outs with
  | m :: ms, Ok None :: os => N.of_nat (length m) + refused_bytes ms os
  | _ :: ms, _ :: os => refused_bytes ms os
  | _, _ => 0
  end.

Definition total_n (c : counters) : N := passed_n c + dropped_n c.
Definition total_bytes (c : counters) : N := passed_bytes c + dropped_bytes c.

Definition sum_lengths (msgs : list bytes) : N := fold_right (fun m a => N.of_nat (length m) + a) 0 msgs.
