(* Specification vocabulary for the hybrid buffer (properties C03 and C04): what the history
   variables of Model/Buffer.v mean, independent of how the buffer works.  No proofs here.

   g_acc      every chunk given to Accept in this generation: (ID, bytes, enqueued?) in order
   g_rec      the IDs recovered at start-up, in the order they were enqueued
   g_init     the directory as it was at start-up
   g_proc     the IDs the feeder has dealt with in its main loop, in order, with the flag
              "offered to the consumer" (false: dropped because unreadable or empty)
   g_offered  the chunks sent to the in-memory window, in order
   g_out      the chunks received from the window, in order, with the flag "by a consumer"
              (false: by saveEverything at shutdown)
   g_confirmed / g_dropped / g_retained   the IDs confirmed by a consumer (OnChunkConsumed) /
              counted in dropped_chunks_total / kept as a file (saved at shutdown or handed back) *)
From SV Require Import Model.Common Model.FileWrite Model.Buffer.
From Coq Require Import Sorting.Sorted.

Definition acc_ids (g : ghost) : list name := map (fun t => fst (fst t)) (g_acc g).
Definition entered (g : ghost) : list name := g_rec g ++ acc_ids g.
Definition enq_ids (g : ghost) : list name := map (fun t => fst (fst t)) (filter (fun t => snd t) (g_acc g)).
Definition offered_ids (g : ghost) : list name := map fst (filter (fun p => snd p) (g_proc g)).
Definition taken (g : ghost) : list chunk := map fst (filter (fun p => snd p) (g_out g)).


(* every chunk that entered the queue in this generation *)
(* the original content of a chunk of this generation: the bytes given to Accept, or the entry found at start-up *)
Definition is_orig (g : ghost) (x : name) (e : entry) : Prop :=
  (exists d b, In (x, d, b) (g_acc g) /\ e = EFile d) \/
  (In x (g_rec g) /\ dir_get (g_init g) x = Some e).


(* order-preserving selection *)
Inductive subseq {A} : list A -> list A -> Prop :=
| subseq_nil : subseq [] []
| subseq_skip : forall x l1 l2, subseq l1 l2 -> subseq l1 (x :: l2)
| subseq_take : forall x l1 l2, subseq l1 l2 -> subseq (x :: l1) (x :: l2).

(* Go string order of file names *)
Definition name_lt (a b : name) : Prop := name_ltb a b = true.
Definition dir_sorted (d : dirT) : Prop := StronglySorted name_lt (dir_names d).

(* what is required of the output's chunk-ID matcher: it rejects the empty name and the temporary
   names used by util.WriteFileAt.  True of strings.HasSuffix(id, ".ff") (fluentd-forward) and ".dd" (datadog). *)
Definition matcher_ok (matchf : name -> bool) : Prop :=
  (forall n, matchf n = true -> matchf (tmp_name n) = false) /\ matchf [] = false.

(* every state the system can be in: any directory to begin with, any sequence of events *)
Definition reachable (matchf : name -> bool) (dirsize : Z) (s : state) : Prop :=
  exists d0 evs, dir_sorted d0 /\ run matchf dirsize (init d0) evs = Some s.

(* bytes of all files the queue owns (the entries under the IDs that entered in this generation) *)
Definition esize (dirsize : Z) (e : option entry) : Z :=
  match e with
  | Some (EFile c) => Z.of_nat (length c)
  | Some EDir => dirsize
  | None => 0%Z
  end.

Fixpoint owned_sum (dirsize : Z) (d : dirT) (l : list name) : Z :=
  match l with
  | [] => 0%Z
  | x :: l' => (esize dirsize (dir_get d x) + owned_sum dirsize d l')%Z
  end.
