(* Specification side of C10 (continued).

   1. [unescape_ref]: the documented unescaping as a plain recursive function.
   2. [event_tree]: what a record must decode to, defined from NAMES only (no locators, masks, positions):
        [ EventTime ; { visible fields ..., "environment": { environment fields ... } } ].
   3. [encode_spec]: an append-style encoder, the bridge between the buffer model and the decoder.  It is
      NOT trusted: the theorems say buffer model = encode_spec and decode (encode_spec) = event_tree. *)
From SV Require Import Model.Common Model.Msgpack Model.Unescape Model.Serializer Spec.MsgpackSpec.
Open Scope N_scope.

(* ---------- unescaping ---------- *)

(* [tr v] = the byte an escaped [v] stands for, None if [esc v] is not an escape sequence *)
Fixpoint unescape_ref (esc : N) (tr : N -> option N) (s : bytes) : bytes :=
  match s with
  | [] => []
  | c :: rest =>
    if c =? esc then
      match rest with
      | [] => [esc]                                   (* a trailing escape byte stays *)
      | v :: rest' =>
        match tr v with
        | Some x => x :: unescape_ref esc tr rest'
        | None => esc :: v :: unescape_ref esc tr rest'   (* unknown sequence: kept as it is *)
        end
      end
    else c :: unescape_ref esc tr rest
  end.

(* syslog values: \b \f \n \r \t \\ *)
Definition syslog_tr (v : N) : option N :=
  if v =? 98 then Some 8          (* b *)
  else if v =? 102 then Some 12   (* f *)
  else if v =? 110 then Some 10   (* n *)
  else if v =? 114 then Some 13   (* r *)
  else if v =? 116 then Some 9    (* t *)
  else if v =? 92 then Some 92    (* backslash *)
  else None.

Definition unescape_syslog (s : bytes) : bytes := unescape_ref 92 syslog_tr s.

(* the table of an Unescaper seen as a partial function *)
Definition tr_of (u : unescaper) (v : N) : option N :=
  if u_map u v =? 0 then None else Some (u_map u v).

(* ---------- names ---------- *)

Definition mem (name : bytes) (l : list bytes) : bool := existsb (bytes_eqb name) l.

(* the value of the field called [name]: first schema entry of that name *)
Definition field_value (schema fields : list bytes) (name : bytes) : bytes :=
  match find (fun kv => bytes_eqb (fst kv) name) (combine schema fields) with
  | Some kv => snd kv
  | None => []
  end.

(* the rewriter chain configured for a field; an empty chain is no chain *)
Definition chain_of (cfg : ser_config) (name : bytes) : option (list rewriter_cfg) :=
  match find (fun kv => bytes_eqb (fst kv) name) (c_rewrite cfg) with
  | Some (_, []) => None
  | Some (_, ch) => Some ch
  | None => None
  end.

(* the documented result of a rewriter chain *)
Fixpoint rewrite_spec (schema fields : list bytes) (unescaped : bool) (chain : list rewriter_cfg)
         (value : bytes) : bytes :=
  match chain with
  | [] => value
  | RcCopy :: _ => value
  | RcUnescape :: _ => if unescaped then value else unescape_syslog value
  | RcInline f :: rest =>
    let fv := field_value schema fields f in
    if is_nil fv then rewrite_spec schema fields unescaped rest value
    else f ++ [61] ++ fv ++ [32] ++ rewrite_spec schema fields unescaped rest value   (* name=value<space>... *)
  end.

(* the length the serializer reserves: as above with the value not shortened by unescaping *)
Fixpoint rewrite_max (schema fields : list bytes) (chain : list rewriter_cfg) (value : bytes) : nat :=
  match chain with
  | [] => length value
  | RcCopy :: _ => length value
  | RcUnescape :: _ => length value
  | RcInline f :: rest =>
    let fv := field_value schema fields f in
    if is_nil fv then rewrite_max schema fields rest value
    else (length f + 1 + length fv + 1 + rewrite_max schema fields rest value)%nat
  end.

Definition is_hidden (cfg : ser_config) (name : bytes) : bool :=
  mem name (c_env cfg) || mem name (c_hidden cfg).

Definition out_value (schema : list bytes) (cfg : ser_config) (rec : record) (name v : bytes) : bytes :=
  match chain_of cfg name with
  | None => v
  | Some ch => rewrite_spec schema (r_fields rec) (r_unescaped rec) ch v
  end.

(* the visible fields: non-empty, not an environment field, not hidden; in schema order *)
Definition visible (schema : list bytes) (cfg : ser_config) (rec : record) : list (bytes * bytes) :=
  flat_map (fun kv => if is_hidden cfg (fst kv) || is_nil (snd kv) then []
                      else [(fst kv, out_value schema cfg rec (fst kv) (snd kv))])
           (combine schema (r_fields rec)).

(* every environment field, empty or not, in configuration order *)
Definition env_pairs (schema : list bytes) (cfg : ser_config) (rec : record) : list (bytes * bytes) :=
  map (fun name => (name, field_value schema (r_fields rec) name)) (c_env cfg).

Definition be32 (n : N) : bytes :=
  [(n / 16777216) mod 256; (n / 65536) mod 256; (n / 256) mod 256; n mod 256].
Definition be16 (n : N) : bytes := [(n / 256) mod 256; n mod 256].

Definition str_pair (kv : bytes * bytes) : value * value := (VStr (fst kv), VStr (snd kv)).

Definition event_time_bytes (rec : record) : bytes :=
  be32 (Z.to_N (r_unix rec mod 4294967296)%Z) ++ be32 (Z.to_N (r_nsec rec mod 4294967296)%Z).

Definition event_tree (schema : list bytes) (cfg : ser_config) (rec : record) : value :=
  VArr [ VExt 0 (event_time_bytes rec);
         VMap (map str_pair (visible schema cfg rec)
               ++ [(VStr str_environment, VMap (map str_pair (env_pairs schema cfg rec)))]) ].

(* ---------- the append-style encoder (bridge, not trusted) ---------- *)

Definition str_header (len : nat) : bytes :=
  let n := N.of_nat len in
  if n <? 16 then [160 + n]
  else if n <? 65536 then 218 :: be16 n
  else 219 :: be32 (n mod 4294967296).

Definition enc_str (s : bytes) : bytes := str_header (length s) ++ s.

(* header of a rewritten value: the class is chosen by the reserved maximum *)
Definition rw_header (maxlen actual : nat) : bytes :=
  if N.of_nat maxlen <? 65536 then 218 :: be16 (N.of_nat actual mod 65536)
  else 219 :: be32 (N.of_nat actual mod 4294967296).

(* header of a map: the class is chosen by [class_n], the count written is [count] *)
Definition map_header (class_n count : nat) : bytes :=
  if N.of_nat class_n <? 16 then [128 + N.of_nat count mod 256]
  else 222 :: be16 (N.of_nat count mod 65536).

Definition enc_value (schema : list bytes) (cfg : ser_config) (rec : record) (name v : bytes) : bytes :=
  match chain_of cfg name with
  | None => enc_str v
  | Some ch =>
    let out := rewrite_spec schema (r_fields rec) (r_unescaped rec) ch v in
    rw_header (rewrite_max schema (r_fields rec) ch v) (length out) ++ out
  end.

Definition enc_fields (schema : list bytes) (cfg : ser_config) (rec : record) : bytes :=
  flat_map (fun kv => if is_hidden cfg (fst kv) || is_nil (snd kv) then []
                      else enc_str (fst kv) ++ enc_value schema cfg rec (fst kv) (snd kv))
           (combine schema (r_fields rec)).

Definition enc_env (schema : list bytes) (cfg : ser_config) (rec : record) : bytes :=
  flat_map (fun name => enc_str name ++ enc_str (field_value schema (r_fields rec) name)) (c_env cfg).

Definition encode_spec (schema : list bytes) (cfg : ser_config) (rec : record) : bytes :=
  [146] ++ [215; 0] ++ event_time_bytes rec
  ++ map_header (length schema + 1) (1 + length (visible schema cfg rec))
  ++ enc_fields schema cfg rec
  ++ enc_str str_environment
  ++ map_header (length (c_env cfg)) (length (c_env cfg))
  ++ enc_env schema cfg rec.

(* ---------- side conditions of the theorems ---------- *)

(* every string of the event is shorter than 2^32 bytes (the largest length MessagePack can express) *)
Definition strings_small (schema : list bytes) (cfg : ser_config) (rec : record) : Prop :=
  Forall (fun kv => N.of_nat (length (fst kv)) < 4294967296 /\ N.of_nat (length (snd kv)) < 4294967296)
         (visible schema cfg rec ++ env_pairs schema cfg rec).

(* what base.NewLogSchema guarantees, and that the record has a value slot for every schema field *)
Definition schema_ok (schema : list bytes) : Prop :=
  NoDup schema /\ Forall (fun n => n <> []) schema.

(* a configuration the serializer is built from: accepted by VerifyConfig (which checks the environment, hidden
   and rewritten fields against the schema and the rewriter chains) *)
Definition config_ok (schema : list bytes) (cfg : ser_config) : Prop :=
  verify_config schema cfg = true.

(* every configured rewriter chain passes VerifyRewriterConfigs.  This is the part of VerifyConfig the serializer's
   correctness rests on (VerifyConfig implies it); it does not ask for a non-empty environment list, so
   serializers built directly with NewEventSerializer from a configuration without environment fields are covered *)
Definition chains_ok (schema : list bytes) (cfg : ser_config) : Prop :=
  forall name ch, lookup_rewrite (c_rewrite cfg) name = Some ch -> verify_rewriters schema ch = true.
