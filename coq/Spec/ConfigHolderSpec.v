(* C16 - what "the node names a typed component" means, independent of the order of checks and of the index
   arithmetic in ConfigHolder.UnmarshalYAML: the node has at least two children, the first is the scalar "type",
   the value of the second is a registered type name and the node decodes into that type's config struct. *)
From SV Require Import Model.Common Model.ConfigHolder.

Definition holder_accepts (table : list bytes) (dec : bytes -> ynode -> bool) (n : ynode) (ty : bytes) : Prop :=
  exists k v rest,
    y_content n = k :: v :: rest /\
    y_kind k = KScalar /\ y_value k = s_type /\
    y_value v = ty /\ In ty table /\ dec ty n = true.

(* a guard in front of value.Content[0] / value.Content[1] is safe when every node it lets through has a first
   child and, if that child is the scalar "type", a second one *)
Definition guard_safe (guard : ynode -> bool) : Prop :=
  forall n, guard n = true ->
    match y_content n with
    | [] => False
    | [k] => is_type_key k = false
    | _ :: _ :: _ => True
    end.
