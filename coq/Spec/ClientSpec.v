(* C02 — specification vocabulary: what a run (event list, oldest first) says happened, read off
   the events only; independent of the state of the model and of its history variables. *)
From SV Require Import Model.Common Model.Client.

Fixpoint offered_of (tr : list event) : list chunk :=
  match tr with [] => [] | EOffer c :: r => c :: offered_of r | _ :: r => offered_of r end.
(* chunks received from the input channel *)
Fixpoint taken_of (tr : list event) : list chunk :=
  match tr with [] => [] | ETake c :: r => c :: taken_of r | _ :: r => taken_of r end.
(* chunks reported delivered (OnChunkConsumed) *)
Fixpoint consumed_of (tr : list event) : list chunk :=
  match tr with [] => [] | EConsumed c :: r => c :: consumed_of r | _ :: r => consumed_of r end.
(* chunks handed back (OnChunkLeftover) *)
Fixpoint handed_of (tr : list event) : list chunk :=
  match tr with [] => [] | ELeftover c :: r => c :: handed_of r | _ :: r => handed_of r end.
(* completed transmissions: (connection, chunk) *)
Fixpoint sent_of (tr : list event) : list (nat * chunk) :=
  match tr with [] => [] | ESendRet k c ROk :: r => (k, c) :: sent_of r | _ :: r => sent_of r end.
Definition sent_on (k : nat) (tr : list event) : list chunk :=
  map snd (filter (fun x => Nat.eqb (fst x) k) (sent_of tr)).
Definition finished_in (tr : list event) : bool :=
  existsb (fun e => match e with EFinished => true | _ => false end) tr.

(* the chunk most recently handed to an acknowledger (its nextChunk) *)
Fixpoint last_take (acc : option chunk) (tr : list event) : option chunk :=
  match tr with
  | [] => acc
  | EAckerTake c :: r => last_take (Some c) r
  | _ :: r => last_take acc r
  end.

(* [pre] contains a successful ack read on connection k that designates chunk c: it carries c's id, or
   the empty id while c is the chunk most recently passed to the acknowledger *)
Definition designated (pre : list event) (k : nat) (c : chunk) : Prop :=
  exists p1 p2 a, pre = p1 ++ EAckRet k a :: p2 /\
                  (a = AId c \/ (a = AEmpty /\ last_take None p1 = Some c)).

(* pairwise distinct ids in the input *)
Definition distinct_input (tr : list event) : Prop := NoDup (offered_of tr).

(* the connection contract (and "callbacks return"): the acknowledger ends within the wait of
   collectLeftovers, so its "BUG: timeout waiting for acknowledger to hard stop" branch is not taken *)
Definition in_contract (tr : list event) : Prop := ~ In EBugTimeout tr.

Definition strictly_increasing (l : list chunk) : Prop :=
  forall i j a b, nth_error l i = Some a -> nth_error l j = Some b -> (i < j)%nat -> (a < b)%N.
