(* C15: reference unescaper — the meaning of "unescape" read off the documentation:
   scanning left to right, an escape byte followed by an escapable byte is replaced by the mapped
   byte, an escape byte followed by anything else is kept together with that byte, a trailing
   lone escape byte is kept.  Written by plain recursion on the string (no positions, no chunks). *)
From SV Require Import Model.Common.
Open Scope N_scope.

Fixpoint unesc_ref (esc : N) (m : N -> N) (s : bytes) : bytes :=
  match s with
  | [] => []
  | c :: t =>
    if c =? esc then
      match t with
      | [] => [c]
      | v :: t' => if m v =? 0 then c :: v :: unesc_ref esc m t' else m v :: unesc_ref esc m t'
      end
    else c :: unesc_ref esc m t
  end.
