(* Independent specification for C11: what a chunk must look like given the records it
   holds, what "fits" means, byte-wise string order, and the shape of a valid id.
   Nothing here refers to the packer's transition functions. *)
From SV Require Import Model.Common Model.ChunkId Model.Packer.
From Coq Require Import Sorted.
Open Scope Z_scope.

(* ---------- byte-wise (lexicographic) string order, as an inductive relation ---------- *)
Inductive lex_lt : bytes -> bytes -> Prop :=
| lex_nil : forall y b, lex_lt [] (y :: b)
| lex_head : forall x y a b, (x < y)%N -> lex_lt (x :: a) (y :: b)
| lex_tail : forall x a b, lex_lt a b -> lex_lt (x :: a) (x :: b).

(* lexicographic order on (timestamp, sequence) *)
Definition pair_lt (p q : Z * Z) : Prop :=
  fst p < fst q \/ (fst p = fst q /\ snd p < snd q).

(* a clock that never goes back: every reading >= the previous one (>= lo for the first) *)
Fixpoint nondecreasing (lo : Z) (l : list Z) : Prop :=
  match l with
  | [] => True
  | x :: l' => lo <= x /\ nondecreasing x l'
  end.

(* value of a string of decimal digits *)
Definition dec_value (s : bytes) : option N := N_of_dec_acc s 0.

Section Spec.
Variable R : Type.
Variable rlen : R -> Z.

(* the records in a sequence of writes *)
Fixpoint recs_of (l : list (piece R)) : list R :=
  match l with
  | [] => []
  | PRec r :: l' => r :: recs_of l'
  | _ :: l' => recs_of l'
  end.

(* Forward / PackedForward / CompressedPackedForward: the entries are the records back to back *)
Definition forward_body (g : list R) : list (piece R) := map PRec g.

(* Datadog: a JSON array  [ r1 , r2 , ... ]  *)
Fixpoint dd_items (g : list R) : list (piece R) :=
  match g with
  | [] => []
  | r :: g' => match g' with
               | [] => [PRec r]
               | _ :: _ => PRec r :: PComma :: dd_items g'
               end
  end.

Definition datadog_body (g : list R) : list (piece R) := POpen :: dd_items g ++ [PClose].

Definition body_spec (k : okind) (g : list R) : list (piece R) :=
  match k with KForward => forward_body g | KDatadog => datadog_body g end.

Fixpoint sum_len (g : list R) : Z :=
  match g with [] => 0 | r :: g' => rlen r + sum_len g' end.

(* uncompressed size of a chunk body holding the records g *)
Definition body_size (k : okind) (g : list R) : Z :=
  match k with
  | KForward => sum_len g
  | KDatadog => sum_len g + Z.max 1 (Z.of_nat (length g)) + 1     (* "[" , commas, "]" *)
  end.

(* the configured limits (0 = unlimited) *)
Definition fits_records (cfg : config) (g : list R) : Prop :=
  cf_max_records cfg > 0 -> Z.of_nat (length g) <= cf_max_records cfg.

Definition fits_bytes (cfg : config) (g : list R) : Prop :=
  cf_max_bytes cfg > 0 -> body_size (cf_kind cfg) g <= cf_max_bytes cfg.

Definition fits (cfg : config) (g : list R) : Prop := fits_records cfg g /\ fits_bytes cfg g.

(* Datadog bodies are always gzipped, Fluentd ones in CompressedPackedForward mode *)
Definition expected_compressed (cfg : config) : bool :=
  match cf_kind cfg with KForward => cf_compress cfg | KDatadog => true end.

(* an emitted chunk that holds exactly the records g: not empty, body = the canonical rendering of g,
   count field = number of records, chunk id in the option = storage name, mode flags and tag as configured *)
Definition chunk_holds (cfg : config) (e : echunk R) (g : list R) : Prop :=
  g <> [] /\
  e_body e = body_spec (cf_kind cfg) g /\
  e_size e = Z.of_nat (length g) /\
  e_opt_chunk e = e_id e /\
  e_compressed e = expected_compressed cfg /\
  (cf_kind cfg = KForward -> e_tag e = cf_tag cfg /\ e_as_array e = cf_as_array cfg).

(* the records of an emitted chunk, read off its body *)
Definition e_records (e : echunk R) : list R := recs_of (e_body e).

(* inputs of a run *)
Fixpoint written_of (ops : list (op R)) : list R :=
  match ops with
  | [] => []
  | OWrite _ r :: ops' => r :: written_of ops'
  | OFlush :: ops' => written_of ops'
  end.

Fixpoint nows_of (ops : list (op R)) : list Z :=
  match ops with
  | [] => []
  | OWrite now _ :: ops' => now :: nows_of ops'
  | OFlush :: ops' => nows_of ops'
  end.

(* records still buffered *)
Definition cur_records (st : pstate R) : list R :=
  match pk_cur st with Some ck => recs_of (ck_written ck) | None => [] end.

Definition cur_ids (st : pstate R) : list bytes :=
  match pk_cur st with Some ck => [ck_id ck] | None => [] end.
End Spec.

Arguments recs_of {R} l.
Arguments chunk_holds {R} cfg e g.
Arguments e_records {R} e.
Arguments forward_body {R} g.
Arguments dd_items {R} g.
Arguments datadog_body {R} g.
Arguments body_spec {R} k g.
Arguments written_of {R} ops.
Arguments nows_of {R} ops.
Arguments cur_records {R} st.
Arguments cur_ids {R} st.

(* the bytes of a JSON array of already serialized values *)
Definition json_array_bytes (l : list bytes) : bytes := [91%N] ++ join 44%N l ++ [93%N].

(* consecutive chunks, all ways of looking at "the ids are ordered and distinct" *)
Definition ids_ordered (ids : list bytes) : Prop := StronglySorted lex_lt ids.

(* the receiving side of a chunk: unwrap the msgpack message, gunzip if flagged, split the payload into records
   (Forward modes) / gunzip and parse the JSON array (Datadog).  All four decoders are parameters. *)
Section Receiver.
Variable R : Type.
Variable gunz : bytes -> bytes.
Variable mp_unwrap : bytes -> option (bytes * bool * Z * bytes * bool * bytes).
Variable parse_forward : bytes -> option (list R).
Variable parse_json_array : bytes -> option (list R).

Definition receive (cfg : config) (data : bytes) : option (list R) :=
  match cf_kind cfg with
  | KForward =>
      match mp_unwrap data with
      | Some (_, _, _, _, compressed, payload) => parse_forward (if compressed then gunz payload else payload)
      | None => None
      end
  | KDatadog => parse_json_array (gunz data)
  end.

(* all records received from a sequence of chunks, in order; None if one of them does not decode *)
Fixpoint all_received (l : list (option (list R))) : option (list R) :=
  match l with
  | [] => Some []
  | Some g :: l' => match all_received l' with Some r => Some (g ++ r) | None => None end
  | None :: _ => None
  end.
End Receiver.
