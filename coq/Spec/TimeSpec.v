(* Specification side of C13: how a civil date-time with fraction and numeric
   offset is written (RFC 3339) and which instant it denotes.  Independent of
   the parsing code: the day count is a plain sum over years and months. *)
From SV Require Import Model.Common.
Open Scope N_scope.

Inductive tzone := TzZ | TzOff (neg : bool) (oh om : N) (colon : bool).

Record civil := {
  yr : N; mo : N; dy : N; hh : N; mi : N; ss : N;
  frac : list N;      (* fractional digits, each 0..9, at most nine *)
  zone : tzone }.

Definition leap (y : N) : bool := (y mod 4 =? 0) && (negb (y mod 100 =? 0) || (y mod 400 =? 0)).

Definition days_in_month (y m : N) : N :=
  match m with
  | 1 => 31 | 2 => if leap y then 29 else 28 | 3 => 31 | 4 => 30 | 5 => 31 | 6 => 30
  | 7 => 31 | 8 => 31 | 9 => 30 | 10 => 31 | 11 => 30 | 12 => 31 | _ => 0
  end.

Definition zone_ok (z : tzone) : Prop :=
  match z with TzZ => True | TzOff _ oh om _ => oh <= 23 /\ om <= 59 end.

Definition valid (c : civil) : Prop :=
  yr c <= 9999 /\ 1 <= mo c <= 12 /\ 1 <= dy c <= days_in_month (yr c) (mo c) /\
  hh c <= 23 /\ mi c <= 59 /\ ss c <= 59 /\
  Forall (fun d => d < 10) (frac c) /\ (length (frac c) <= 9)%nat /\ zone_ok (zone c).

(* ---- rendering ---- *)
Definition d2 (x : N) : bytes := [48 + x / 10; 48 + x mod 10].
Definition d4 (x : N) : bytes := [48 + x / 1000; 48 + (x / 100) mod 10; 48 + (x / 10) mod 10; 48 + x mod 10].

Definition render_zone (z : tzone) : bytes :=
  match z with
  | TzZ => [90]
  | TzOff neg oh om colon => (if neg then 45 else 43) :: d2 oh ++ (if colon then [58] else []) ++ d2 om
  end.

Definition render_frac (f : list N) : bytes :=
  match f with [] => [] | _ => 46 :: map digit_char f end.

Definition render (c : civil) : bytes :=
  d4 (yr c) ++ [45] ++ d2 (mo c) ++ [45] ++ d2 (dy c) ++ [84] ++
  d2 (hh c) ++ [58] ++ d2 (mi c) ++ [58] ++ d2 (ss c) ++ render_frac (frac c) ++ render_zone (zone c).

(* ---- the instant denoted ---- *)
Definition year_len (y : N) : Z := if leap y then 366%Z else 365%Z.

Fixpoint days_before_year (n : nat) : Z :=      (* days from 0000-01-01 to n-01-01 *)
  match n with O => 0%Z | S k => (days_before_year k + year_len (N.of_nat k))%Z end.

Fixpoint days_first_months (y : N) (k : nat) : Z :=   (* days in months 1..k of year y *)
  match k with O => 0%Z | S j => (days_first_months y j + Z.of_N (days_in_month y (N.of_nat (S j))))%Z end.

Definition epoch_days (y m d : N) : Z :=
  (days_before_year (N.to_nat y) + days_first_months y (N.to_nat m - 1) + (Z.of_N d - 1)
   - days_before_year 1970)%Z.

Definition zone_offset (z : tzone) : Z :=
  match z with
  | TzZ => 0%Z
  | TzOff neg oh om _ =>
    let s := ((Z.of_N oh * 60 + Z.of_N om) * 60)%Z in if neg then (- s)%Z else s
  end.

Definition digits_value (f : list N) : Z := fold_left (fun a d => (a * 10 + Z.of_N d)%Z) f 0%Z.

Definition frac_nanos (f : list N) : Z := (digits_value f * 10 ^ (9 - Z.of_nat (length f)))%Z.

(* (unix seconds, nanoseconds) *)
Definition instant (c : civil) : Z * Z :=
  ((epoch_days (yr c) (mo c) (dy c) * 86400 + Z.of_N (hh c) * 3600 + Z.of_N (mi c) * 60 + Z.of_N (ss c)
    - zone_offset (zone c))%Z,
   frac_nanos (frac c)).
