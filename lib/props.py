# Per-property configuration of the shared check driver (lib/vcheck.py).
TRUSTED_COMMON = [
    "Coq 8.16.1 kernel (coqc, full .vo build) and its vm_compute evaluator; no native_compute",
    "hand-written Gallina model of the anchored Go code; tied to /repo's working tree only by the correspondence run (differential, bounded by generator quality)",
    "extraction with ExtrOcamlBasic only (list/bool/option/prod/unit mapped to OCaml natives; N/Z/positive stay extracted datatypes; no Extract Constant / Extract Inductive of our own); OCaml 4.13.1; ocaml/driver.ml",
    "a sample of every run's cases is re-evaluated inside Coq with vm_compute (cases.v) and must agree with the extracted model",
    "the Go toolchain, runtime and standard library; harness/*.go (generators, canonicalisation, oracles)",
]

PROPS = {
    "C13": {
        "trivial_classes": ["skip", "badcase"],
        "coq_sample": 300,
        "trusted": [
            "time.Date / time.Parse(\"Z07:00\"|\"Z0700\") of the Go standard library are modelled (go_date_unix, parse_tz), compared on every case, not verified",
            "the harness sets time.Local = UTC; the model takes the local offset as a parameter (0 in the correspondence)",
        ],
        "modelled": ["transform/tparsetime/rfc3339.go", "transform/tparsetime/atoi.go", "transform/tparsetime/tparsetime.go (Transform)"],
        "assumptions": ["Print Assumptions: closed under the global context (no axioms)"],
    },
}
