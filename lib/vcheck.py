#!/usr/bin/env python3
"""Shared driver of every property check (see DESIGN.md section 1 for the decision rule).

   bin/check <ID> [--tier quick|thorough] [--replay <file>]

Steps: (1) Coq: build Props/<ID>.vo and everything it depends on, capture
Print Assumptions; forbidden-vernacular grep.  (2) build the Go harness from
/repo's working tree (-tags verif) and run the property's generator: the real
implementation's canonical output per case + the property's own oracle.
(3) run the extracted model on the same cases (OCaml), and a sample of them
inside Coq (vm_compute) to tie the extraction to the checked definitions.
(4) decide, write evidence.
"""
import fcntl, hashlib, json, os, re, subprocess, sys, time, glob, shutil

VERIF = os.path.dirname(os.path.dirname(os.path.abspath(__file__)))
REPO = os.environ.get("VERIF_REPO", "/repo")
COQ = os.path.join(VERIF, "coq")
BUILD = os.path.join(VERIF, "build")
GOENV = dict(os.environ, GOFLAGS="-mod=mod", GOPROXY="off", GOSUMDB="off", GOTOOLCHAIN="local",
             CGO_ENABLED="0")

FORBIDDEN = re.compile(r"\b(Admitted|admit|Axiom|Axioms|Parameter|Parameters|Conjecture|Conjectures|Admit Obligations|"
                       r"Unset Guard Checking|Unset Positivity Checking|Unset Universe Checking|bypass_check|"
                       r"type-in-type|impredicative-set|native_compute)\b")
# axioms of the standard library that may appear under Print Assumptions (named in the trusted base)
ALLOWED_AXIOMS = {
    "FunctionalExtensionality.functional_extensionality_dep",
    "functional_extensionality_dep",
    "Eqdep.Eq_rect_eq.eq_rect_eq", "eq_rect_eq",
    "JMeq.JMeq_eq", "JMeq_eq",
    "ProofIrrelevance.proof_irrelevance", "proof_irrelevance",
    "Classical_Prop.classic", "classic",
}


def sh(cmd, cwd=None, env=None, timeout=None, inp=None, stack_mb=None, extra_env=None):
    if extra_env:
        env = dict(env if env is not None else os.environ, **extra_env)
    pre = None
    if stack_mb:
        # the extracted model recurses once per list element (non-tail-recursive stdlib functions):
        # properties with very long inputs ask for a larger stack via "driver_stack_mb" in props.d
        import resource

        def pre():
            soft, hard = resource.getrlimit(resource.RLIMIT_STACK)
            lim = stack_mb * 1024 * 1024
            if hard != resource.RLIM_INFINITY:
                lim = min(lim, hard)
            resource.setrlimit(resource.RLIMIT_STACK, (lim, hard))
    p = subprocess.run(cmd, cwd=cwd, env=env, timeout=timeout, input=inp, shell=isinstance(cmd, str),
                       stdout=subprocess.PIPE, stderr=subprocess.STDOUT, text=True, errors="replace", preexec_fn=pre)
    return p.returncode, p.stdout


class Lock:
    def __init__(self, name):
        os.makedirs(BUILD, exist_ok=True)
        self.path = os.path.join(BUILD, name + ".lock")

    def __enter__(self):
        self.f = open(self.path, "w")
        fcntl.flock(self.f, fcntl.LOCK_EX)

    def __exit__(self, *a):
        fcntl.flock(self.f, fcntl.LOCK_UN)
        self.f.close()


def coq_files():
    out = []
    for l in open(os.path.join(COQ, "_CoqProject")):
        l = l.strip()
        if l.endswith(".v"):
            out.append(l)
    return out


def write_coqproject():
    """_CoqProject lists every .v under Model/ Gen/ Spec/ Proofs/ Props/ (Extract/*.v are compiled
       separately, in the directory where the extracted OCaml must land); Gen/ = models generated from the Go
       sources by tools/go2coq (regen_models)"""
    files = []
    for d in ("Model", "Gen", "Spec", "Proofs", "Props"):
        files += sorted(os.path.relpath(f, COQ) for f in glob.glob(os.path.join(COQ, d, "*.v")))
    txt = "-Q . SV\n" + "\n".join(files) + "\n"
    cp = os.path.join(COQ, "_CoqProject")
    if not os.path.exists(cp) or open(cp).read() != txt:
        open(cp, "w").write(txt)


def ensure_makefile():
    write_coqproject()
    mk = os.path.join(COQ, "Makefile")
    cp = os.path.join(COQ, "_CoqProject")
    if not os.path.exists(mk) or os.path.getmtime(mk) < os.path.getmtime(cp):
        rc, out = sh(["coq_makefile", "-f", "_CoqProject", "-o", "Makefile"], cwd=COQ)
        if rc != 0:
            raise RuntimeError("coq_makefile failed: " + out)


def coq_build(targets, timeout=3000):
    """full .vo build (never -vos) of the given targets under a lock"""
    with Lock("coq"):
        ensure_makefile()
        rc, out = sh(["timeout", str(timeout), "make", "-j16"] + targets, cwd=COQ)
    return rc, out


def build_go2coq():
    """tools/go2coq (Go -> Gallina translator, stdlib only) -> build/go2coq; rebuilt when a source is newer"""
    src = os.path.join(VERIF, "tools", "go2coq")
    out = os.path.join(BUILD, "go2coq")
    deps = glob.glob(os.path.join(src, "*.go")) + [os.path.join(src, "go.mod")]
    if os.path.exists(out) and all(os.path.getmtime(out) >= os.path.getmtime(x) for x in deps):
        return 0, "up to date"
    os.makedirs(BUILD, exist_ok=True)
    rc, o = sh(["timeout", "600", "go", "build", "-o", out + ".new", "."], cwd=src, env=GOENV)
    if rc == 0:
        os.replace(out + ".new", out)
    return rc, o


def regen_models(pid):
    """If lib/go2coq.d/<pid>.json exists: regenerate coq/Gen/<pid>Gen.v from REPO's working tree (the file is
       rewritten only when its text changes, so make recompiles exactly then). The caller holds Lock("coq").
       Returns (info for the evidence or None, problem text or None)."""
    spec = os.path.join(VERIF, "lib", "go2coq.d", pid + ".json")
    if not os.path.exists(spec):
        return None, None
    t0 = time.time()
    info = {"translator": "tools/go2coq", "spec": os.path.relpath(spec, VERIF), "source_tree": REPO}
    rc, out = build_go2coq()
    if rc != 0:
        info["error"] = "tools/go2coq does not build"
        return info, "translator: tools/go2coq does not build: " + out[-300:]
    rc, out = sh([os.path.join(BUILD, "go2coq"), "-repo", REPO, "-verif", VERIF, "-spec", spec], env=GOENV, timeout=600)
    res = {}
    for l in out.splitlines():
        if l.startswith("{"):
            try:
                res = json.loads(l)
            except ValueError:
                pass
    info["wall_s"] = round(time.time() - t0, 2)
    if rc != 0 or res.get("error"):
        msg = res.get("error") or out.strip()[-300:]
        info["error"] = msg
        return info, "translator: " + msg
    gen = res.get("out", "")
    info.update({"generated_file": gen, "functions": res.get("functions", []),
                 "rewritten_this_run": bool(res.get("written"))})
    # does the text generated from the current tree differ from the committed one?
    rc, committed = sh(["git", "-C", VERIF, "show", "HEAD:" + gen])
    try:
        now = open(os.path.join(VERIF, gen), errors="replace").read()
        info["differs_from_committed"] = (rc != 0) or committed != now
    except OSError:
        info["differs_from_committed"] = True
    return info, None


def go2coq_selftest(pid):
    """translator + GoSem.v against the real Go compiler (bin/go2coq-selftest): the source text of the spec's
       functions runs on boundary-biased inputs, the generated Gallina functions are evaluated by coqc on the same
       inputs. Returns (summary dict, problem text or None). Gen/<pid>Gen.vo must be up to date."""
    spec = os.path.join(VERIF, "lib", "go2coq.d", pid + ".json")
    d = os.path.join(BUILD, "go2coq-selftest", pid)
    t0 = time.time()
    shutil.rmtree(d, ignore_errors=True)
    rc, out = sh([os.path.join(BUILD, "go2coq"), "-repo", REPO, "-verif", VERIF, "-spec", spec, "-selftest", d], env=GOENV, timeout=600)
    if rc != 0:
        return {"error": out[-300:]}, "translator self-test: cannot emit the test program: " + out[-300:]
    rc, out = sh("timeout 600 go build -o selftest . && ./selftest > selftest.v", cwd=d, env=GOENV)
    if rc != 0:
        return {"error": out[-300:]}, "translator self-test: the test program does not build/run: " + out[-300:]
    txt = open(os.path.join(d, "selftest.v")).read()
    ncases = sum(int(n) for n in re.findall(r"^\(\* \w+: (\d+) cases \*\)", txt, re.M))
    with Lock("coq"):
        rc, out = sh(["timeout", "1200", "coqc", "-Q", COQ, "SV", "selftest.v"], cwd=d)
    res = {"functions": len(re.findall(r"^Goal ", txt, re.M)), "cases": ncases, "agree": rc == 0, "wall_s": round(time.time() - t0, 2)}
    if rc != 0:
        return res, "translator self-test: a generated function disagrees with the Go function it was generated from: " + out.strip()[-400:]
    return res, None


def regen_all_models():
    """bin/setup: regenerate every generated model before the Coq build"""
    ok = True
    for f in sorted(glob.glob(os.path.join(VERIF, "lib", "go2coq.d", "C*.json"))):
        info, problem = regen_models(os.path.basename(f)[:-5])
        if problem:
            print(problem)
            ok = False
    return ok


def forbidden_scan():
    hits = []
    for f in glob.glob(os.path.join(COQ, "**", "*.v"), recursive=True):
        txt = open(f, errors="replace").read()
        # strip comments (non-nested is enough for our sources, nested handled by loop)
        prev = None
        while prev != txt:
            prev = txt
            txt = re.sub(r"\(\*[^*(]*(?:\*(?!\))[^*(]*|\((?!\*)[^*(]*)*\*\)", " ", txt)
        for m in FORBIDDEN.finditer(txt):
            hits.append("%s: %s" % (os.path.relpath(f, VERIF), m.group(0)))
    return hits


def props_assumptions(pid):
    """recompile Props/<pid>.v alone to capture the Print Assumptions output"""
    with Lock("coq"):
        rc, out = sh(["timeout", "600", "coqc", "-Q", ".", "SV", "Props/%s.v" % pid], cwd=COQ)
    closed = len(re.findall(r"Closed under the global context", out))
    axioms = []
    if "Axioms:" in out:
        for blk in out.split("Axioms:")[1:]:
            for l in blk.splitlines():
                m = re.match(r"^([A-Za-z_][\w.']*)\s*:", l)
                if m:
                    axioms.append(m.group(1))
    return rc, out, closed, sorted(set(axioms))


def theorem_names(pid):
    src = open(os.path.join(COQ, "Props", pid + ".v")).read()
    return re.findall(r"^\s*(?:Theorem|Corollary)\s+([\w']+)", src, re.M)


def build_ocaml(pid):
    d = os.path.join(BUILD, "ocaml", pid)
    with Lock("ocaml_" + pid):
        os.makedirs(d, exist_ok=True)
        ext = os.path.join(COQ, "Extract", pid + ".v")
        drv_src = os.path.join(VERIF, "ocaml", "driver.ml")
        drv = os.path.join(d, "driver")
        deps = [ext, drv_src] + [os.path.join(COQ, f) for f in coq_files() if f.startswith("Model/")]
        if os.path.exists(drv) and all(os.path.getmtime(drv) >= os.path.getmtime(x) for x in deps):
            return 0, "up to date"
        rc, out = sh(["timeout", "900", "coqc", "-Q", COQ, "SV", ext], cwd=d)
        if rc != 0:
            return rc, out
        shutil.copy(drv_src, os.path.join(d, "driver.ml"))
        rc, out2 = sh("ocamlfind ocamlopt -w -a model.mli model.ml driver.ml -o driver.tmp && mv driver.tmp driver", cwd=d)
        return rc, out + out2


def _go_decls(src):
    """top-level identifiers declared in a Go file (functions, types, vars, consts; grouped blocks included)"""
    names = set()
    block = False
    for line in src.splitlines():
        if block:
            if line.startswith(")"):
                block = False
                continue
            m = re.match(r"^\t([A-Za-z_]\w*)(?:\s*,\s*([A-Za-z_]\w*))*\b", line)
            if m:
                for part in re.split(r"\s*,\s*", line.strip().split("=")[0].split(" ")[0]):
                    if re.fullmatch(r"[A-Za-z_]\w*", part):
                        names.add(part)
            continue
        m = re.match(r"^(?:var|const|type)\s*\($", line)
        if m:
            block = True
            continue
        m = re.match(r"^func\s+([A-Za-z_]\w*)\s*[(\[]", line) or re.match(r"^(?:type|var|const)\s+([A-Za-z_]\w*)", line)
        if m:
            names.add(m.group(1))
    return names


def harness_subset(pid):
    """the harness files a property needs: its own files + main.go + rng.go + watchdog.go, closed under use of identifiers
       declared at top level in other harness files (an over-approximation by token)"""
    h = os.path.join(VERIF, "harness")
    files = sorted(f for f in os.listdir(h) if f.endswith(".go"))
    src = {f: open(os.path.join(h, f), errors="replace").read() for f in files}
    decl = {f: _go_decls(src[f]) for f in files}
    toks = {f: set(re.findall(r"[A-Za-z_]\w*", src[f])) for f in files}
    owner = {}
    for f in files:
        for n in decl[f]:
            owner.setdefault(n, f)
    need = {f for f in files if f in ("main.go", "rng.go", "watchdog.go") or f == pid.lower() + ".go" or f.startswith(pid.lower() + "_")}
    changed = True
    while changed:
        changed = False
        for f in list(need):
            for t in toks[f]:
                o = owner.get(t)
                if o and o not in need and t not in decl[f]:
                    need.add(o)
                    changed = True
    return sorted(need)


def harness_subset_build(h, pid, spath):
    """smallest file set first: the property's own files, then add the file that declares each identifier the
       compiler reports as undefined, until it builds (falls back to the token closure of harness_subset)"""
    all_files = sorted(f for f in os.listdir(h) if f.endswith(".go"))
    decl = {f: _go_decls(open(os.path.join(h, f), errors="replace").read()) for f in all_files}
    owner = {}
    for f in all_files:
        for n in decl[f]:
            owner.setdefault(n, f)
    need = [f for f in all_files if f in ("main.go", "rng.go", "watchdog.go") or f == pid.lower() + ".go" or f.startswith(pid.lower() + "_")]
    for _ in range(40):
        rc, out = _go_build(h, "verif", spath, need)
        if rc == 0:
            return need, rc, out
        missing = {owner[n] for n in re.findall(r"undefined: ([A-Za-z_]\w*)", out) if n in owner and owner[n] not in need}
        if not missing:
            break
        need = sorted(set(need) | missing)
    files = harness_subset(pid)
    rc, out = _go_build(h, "verif", spath, files)
    return files, rc, out


def _go_build(h, tags, outpath, files=None):
    tmp = outpath + ".new"
    cmd = ["timeout", "1800", "go", "build", "-tags", tags, "-o", tmp] + (files if files else ["."])
    rc, out = sh(cmd, cwd=h, env=GOENV)
    if rc == 0:
        os.replace(tmp, outpath)
    return rc, out


def build_harness(pid=None):
    """Builds the harness against REPO with hooks on. Normally one binary (build/harness) serves every property.
       If that does not build - e.g. an edit of slog-agent changed an API that SOME property's harness uses - and a
       property is given, only the files that property needs are built (build/harness.<ID>), so that an
       incompatibility confined to other properties' harness code does not take this check down with it.
       Returns (rc, output, path of the binary to run)."""
    h = os.path.join(VERIF, "harness")
    with Lock("harness"):
        shutil.copy(os.path.join(REPO, "go.sum"), os.path.join(h, "go.sum"))
        gm = open(os.path.join(h, "go.mod.tmpl")).read().replace("@REPO@", REPO)
        if not os.path.exists(os.path.join(h, "go.mod")) or open(os.path.join(h, "go.mod")).read() != gm:
            open(os.path.join(h, "go.mod"), "w").write(gm)
        path = os.path.join(BUILD, "harness")
        rc, out = _go_build(h, "verif", path)
        # optional extra builds of the same harness with more build tags, requested by a property through
        # "harness_variants": [{"name": "faketime", "tags": "verif faketime"}] in lib/props.d/<ID>.json;
        # the binary is <harness binary>.<name> (started by that property's Run as a child process)
        for name, tags in sorted(harness_variants().items()):
            if rc != 0:
                break
            rc, out = _go_build(h, tags, path + "." + name)
        if rc != 0 and pid:
            spath = os.path.join(BUILD, "harness." + pid)
            files, rc2, out2 = harness_subset_build(h, pid, spath)
            if rc2 == 0:
                for name, tags in sorted(harness_variants(pid).items()):
                    rc2, out2 = _go_build(h, tags, spath + "." + name, files)
                    if rc2 != 0:
                        break
            if rc2 == 0:
                return 0, out + "\n(the complete harness does not build; %s uses the subset %s)" % (pid, " ".join(files)), spath
    return rc, out, path


def harness_variants(pid=None):
    vs = {}
    for f in sorted(glob.glob(os.path.join(VERIF, "lib", "props.d", (pid or "C*") + ".json"))):
        try:
            for v in json.load(open(f)).get("harness_variants", []):
                vs[v["name"]] = v["tags"]
        except (ValueError, KeyError, TypeError):
            pass
    return vs


def bytes_lit(s):
    return "[" + ";".join(str(b) for b in s.encode("latin-1")) + "]%N"


def coq_sample_check(pid, lines, rundir):
    """evaluate the model inside Coq (vm_compute) on a sample of the cases: the expected
       outputs are the ones the implementation produced (= the extracted model's when no mismatch)"""
    runcase = "run_case_" + pid
    ext = open(os.path.join(COQ, "Extract", pid + ".v")).read()
    imports = re.search(r"From SV Require Import (.*?)\.\s", ext, re.S).group(1)
    src = ["From SV Require Import %s." % imports,
           "Definition cases : list (bytes * bytes) := ["]
    items = []
    for l in lines:
        parts = l.split("|", 3)
        if len(parts) < 4:
            continue
        items.append("  (%s, %s)" % (bytes_lit("|".join(parts[:3])), bytes_lit(parts[3])))
    src.append(";\n".join(items))
    src.append("].")
    src.append("Definition M := Eval vm_compute in List.length (mismatches %s cases)." % runcase)
    src.append("Print M.")
    p = os.path.join(rundir, "cases.v")
    open(p, "w").write("\n".join(src) + "\n")
    rc, out = sh(["timeout", "900", "coqc", "-Q", COQ, "SV", "cases.v"], cwd=rundir)
    ok = rc == 0 and re.search(r"M\s*=\s*0(%nat)?\s*:\s*nat", out.replace("\n", " ")) is not None
    return ok, len(items), out[-2000:]


def _norm_go(src):
    """comment- and whitespace-insensitive text of a Go file (approximation by regexps: good enough for a
       fingerprint whose only use is to decide how many cases to run)"""
    src = re.sub(r"/\*.*?\*/", " ", src, flags=re.S)
    src = re.sub(r"(?m)^\s*//.*$", "", src)
    src = re.sub(r"(?m)\s+//[^\"`\n]*$", "", src)
    return re.sub(r"\s+", " ", src).strip()


def prop_source_files(pid, P):
    """the slog-agent sources a property is anchored in (properties.jsonl) or models (lib/props.d 'modelled')"""
    files = []
    try:
        for l in open(os.path.join(VERIF, "properties.jsonl")):
            pr = json.loads(l)
            if pr.get("id") == pid:
                files += pr.get("anchors", {}).get("files", [])
    except (OSError, ValueError):
        pass
    for m in P.get("modelled", []):
        files += re.findall(r"[\w./-]+\.go", m)
    seen, out = set(), []
    for f in files:
        f = f.lstrip("./")
        if f not in seen and os.path.isfile(os.path.join(REPO, f)):
            seen.add(f)
            out.append(f)
    return sorted(out)


def source_fingerprint(pid, P):
    fp = {}
    for f in prop_source_files(pid, P):
        try:
            fp[f] = hashlib.sha256(_norm_go(open(os.path.join(REPO, f), errors="replace").read()).encode()).hexdigest()[:16]
        except OSError:
            pass
    return fp


def fingerprint_baseline(pid):
    p = os.path.join(VERIF, "lib", "fingerprints", pid + ".json")
    try:
        return json.load(open(p))
    except (OSError, ValueError):
        return None


def load_known(pid):
    p = os.path.join(VERIF, "KNOWN_FINDINGS.json")
    if not os.path.exists(p):
        return []
    return [e for e in json.load(open(p)).get("findings", []) if e.get("property") == pid]


def write_evidence(pid, ev):
    os.makedirs(os.path.join(VERIF, "evidence"), exist_ok=True)
    tmp = os.path.join(VERIF, "evidence", pid + ".json.tmp")
    json.dump(ev, open(tmp, "w"), indent=1)
    os.replace(tmp, os.path.join(VERIF, "evidence", pid + ".json"))


class _Props:
    pass


def load_props():
    """lib/props.d/<ID>.json: per-property settings of this driver; lib/props.d/_common.json: shared trusted base"""
    pr = _Props()
    pr.PROPS = {}
    d = os.path.join(VERIF, "lib", "props.d")
    pr.TRUSTED_COMMON = json.load(open(os.path.join(d, "_common.json")))["trusted_common"]
    for f in sorted(glob.glob(os.path.join(d, "C*.json"))):
        pr.PROPS[os.path.basename(f)[:-5]] = json.load(open(f))
    return pr


def main(argv):
    props = load_props()

    pid = argv[2]
    tier = os.environ.get("VERIF_TIER", "quick")
    replay = None
    i = 3
    while i < len(argv):
        if argv[i] == "--tier":
            tier = argv[i + 1]; i += 2
        elif argv[i] == "--replay":
            replay = argv[i + 1]; i += 2
        else:
            i += 1
    seed = int(os.environ.get("VERIF_SEED", "1") or 1)
    P = props.PROPS[pid]
    t0 = time.time()
    rundir = os.path.join(BUILD, "run", pid)
    os.makedirs(rundir, exist_ok=True)
    repdir = os.path.join(VERIF, "build", "replay")
    os.makedirs(repdir, exist_ok=True)

    if replay:
        rc, out, hbin = build_harness(pid)
        if rc != 0:
            print(out); return 2
        rc, out = build_ocaml(pid)
        data = [l for l in open(replay).read().splitlines() if l and not l.startswith("#")]
        cf = os.path.join(rundir, "replay_cases.txt")
        open(cf, "w").write("\n".join(data) + "\n")
        rc1, out1 = sh([hbin, pid, "replay", cf], env=GOENV, timeout=3000)
        print(out1)
        rc2, out2 = sh([os.path.join(BUILD, "ocaml", pid, "driver"), "print", cf], stack_mb=P.get("driver_stack_mb"),
                        extra_env=P.get("driver_env"))
        for l in out2.splitlines():
            print("MODEL " + l)
        return 1 if rc1 != 0 else 0

    problems = []   # things that no longer check (theorem / correspondence names)
    notes = []

    # ---------- (1) Coq ----------
    with Lock("coq"):
        gen_info, gen_problem = regen_models(pid)
    if gen_problem:
        problems.append(gen_problem)
    targets = ["Props/%s.vo" % pid]
    rc, out = coq_build(targets)
    coq_ok = rc == 0
    coq_log = out[-4000:]
    names = theorem_names(pid)
    closed = 0
    axioms = []
    if coq_ok:
        rc, pout, closed, axioms = props_assumptions(pid)
        if rc != 0:
            coq_ok = False
            coq_log = pout[-4000:]
    if not coq_ok:
        m_ = re.search(r'File "\./([^"]+)", line (\d+)', coq_log)
        problems.append("coq: Props/%s.v or a dependency does not compile" % pid
                        + (" (first error: coq/%s line %s)" % (m_.group(1), m_.group(2)) if m_ else "")
                        + ("; the model generated from the source, %s, differs from the committed one" % gen_info.get("generated_file")
                           if gen_info and gen_info.get("differs_from_committed") else ""))
    bad_ax = [a for a in axioms if a not in ALLOWED_AXIOMS]
    if bad_ax:
        problems.append("coq: theorem depends on non-stdlib axioms: " + ", ".join(bad_ax))
    if coq_ok and closed + (1 if axioms else 0) * 0 < 1 and not axioms:
        problems.append("coq: no Print Assumptions output under Props/%s.v" % pid)
    coqchk = None
    if tier == "thorough" and coq_ok and os.environ.get("VERIF_NO_COQCHK") != "1":
        # independent re-check of the compiled theorems and everything they depend on
        with Lock("coq"):
            rc, cout = sh(["timeout", "3000", "coqchk", "-silent", "-o", "-Q", ".", "SV", "SV.Props.%s" % pid], cwd=COQ)
        m = re.search(r"\* Axioms:(.*?)\n\s*\n\* Constants", cout, re.S)
        chk_axioms = [a.strip() for a in (m.group(1) if m else "").splitlines() if a.strip() and a.strip() != "<none>"]
        coqchk = {"exit": rc, "axioms": chk_axioms, "timed_out": rc == 124}
        if rc not in (0, 124):
            problems.append("coqchk rejects Props/%s.vo: %s" % (pid, cout[-300:]))
        bad_chk = [a for a in chk_axioms if a.split(".")[-1] not in {x.split(".")[-1] for x in ALLOWED_AXIOMS}]
        if bad_chk:
            problems.append("coqchk: axioms outside the standard library: " + ", ".join(bad_chk))
    if gen_info and not gen_problem and coq_ok and (tier == "thorough" or os.environ.get("VERIF_GO2COQ_SELFTEST") == "1"):
        st_res, st_problem = go2coq_selftest(pid)
        gen_info["selftest"] = st_res
        if st_problem:
            problems.append(st_problem)
    forb = forbidden_scan()
    if forb:
        problems.append("coq: forbidden vernacular: " + "; ".join(forb[:5]))
    obligations = len(names)
    discharged = obligations if coq_ok and not bad_ax and not forb else 0

    # ---------- (2) implementation ----------
    rc, out, hbin = build_harness(pid)
    if rc != 0:
        # the tree does not build with hooks on: nothing can be concluded about the property
        print(out[-3000:])
        print("ERROR: harness does not build against %s" % REPO)
        rep = os.path.join(repdir, "%s_build_failure.txt" % pid)
        open(rep, "w").write("harness build failed against the working tree; correspondence %s cannot be run\n%s" % (pid, out[-3000:]))
        print("VIOLATION property=%s replay=%s no-failing-input-found" % (pid, rep))
        return 1
    rc, out = build_ocaml(pid)
    if rc != 0:
        problems.append("ocaml: extraction/driver build failed")
        notes.append(out[-2000:])
    corpus = os.path.join(VERIF, "corpus", pid)

    def run_round(outdir, seed_, with_corpus):
        """one generator run of the implementation + the extracted model on the same cases.
           Returns (error text or None, cases, mismatches [(index into cases, model output)], fails, stats, classes)"""
        os.makedirs(outdir, exist_ok=True)
        cmd = [hbin, pid, "gen", outdir, "-tier", tier, "-seed", str(seed_)]
        if with_corpus and os.path.isdir(corpus):
            cmd += ["-corpus", corpus]
        for f in ("cases.txt", "fails.txt", "stats.json"):
            try:
                os.remove(os.path.join(outdir, f))
            except FileNotFoundError:
                pass
        rc_, gout = sh(cmd, env=GOENV, timeout=P.get("gen_timeout", 3000), cwd=outdir)
        if rc_ != 0 or not os.path.exists(os.path.join(outdir, "stats.json")):
            return "exit %s; output tail:\n%s" % (rc_, gout[-6000:]), [], [], [], {}, {}
        stats_ = json.load(open(os.path.join(outdir, "stats.json")))
        cases_ = open(os.path.join(outdir, "cases.txt"), errors="replace").read().splitlines()
        mism_, classes_ = [], {}
        if os.path.exists(os.path.join(BUILD, "ocaml", pid, "driver")):
            rc_, mout = sh([os.path.join(BUILD, "ocaml", pid, "driver"), "check", os.path.join(outdir, "cases.txt")], timeout=3000,
                           stack_mb=P.get("driver_stack_mb"), extra_env=P.get("driver_env"))
            summ = None
            for l in mout.splitlines():
                f = l.split("\t")
                if f[0] == "MISMATCH":
                    mism_.append((int(f[1]) - 1, f[2] if len(f) > 2 else ""))
                elif f[0] == "CLASS":
                    classes_[f[1]] = int(f[2])
                elif f[0] == "SUMMARY":
                    summ = l
            if summ is None:
                problems.append("model driver crashed: " + mout[-500:])
        fails_ = []
        fp_ = os.path.join(outdir, "fails.txt")
        if os.path.exists(fp_):
            for l in open(fp_, errors="replace").read().splitlines():
                f = l.split("\t")
                if len(f) >= 3:
                    fails_.append({"sig": f[0], "desc": f[1], "case": f[2]})
        return None, cases_, mism_, fails_, stats_, classes_

    err, cases, mism, fails, stats, classes = run_round(rundir, seed, True)
    if err is not None:
        print(err[-3000:])
        rep = os.path.join(repdir, "%s_harness_crash.txt" % pid)
        open(rep, "w").write("the implementation harness for %s did not complete (%s)" % (pid, err))
        print("VIOLATION property=%s replay=%s no-failing-input-found" % (pid, rep))
        return 1

    # ---------- (3) model ----------
    if mism:
        problems.append("correspondence %s: implementation and model differ on %d of %d cases" % (pid, len(mism), len(cases)))
    # kernel-evaluated sample
    nsample = P.get("coq_sample", 200)
    step = max(1, len(cases) // nsample)
    # "coq_sample_maxlen" (optional, per property): very long case lines make coqc overflow its stack while
    # parsing cases.v; they stay in the extracted-model comparison and are only left out of the kernel sample
    maxlen = P.get("coq_sample_maxlen", 0)
    sample = [l for l in cases[::step] if not maxlen or len(l) <= maxlen][:nsample]
    if not mism and coq_ok:
        ok, ns, sout = coq_sample_check(pid, sample, rundir)
        if not ok:
            problems.append("extraction tie: vm_compute of the model disagrees with the extracted model on the sample")
            notes.append(sout)
    else:
        ns = 0

    # ---------- (4) oracle failures and decision ----------
    known = load_known(pid)
    known_hits = {}
    new_fails = []

    def classify(fs):
        for f in fs:
            hit = None
            for k in known:
                if k.get("status") == "known" and re.fullmatch(k["signature"], f["sig"]):
                    hit = k
                    break
            if hit:
                known_hits.setdefault(hit["id"], [hit, 0, f])
                known_hits[hit["id"]][1] += 1
            else:
                new_fails.append(f)

    classify(fails)

    # ---------- change amplification (DESIGN.md 3.3): the sources this property is anchored in differ from the
    # fingerprint recorded at the last green state of the unchanged tree -> more generator rounds (other seeds)
    # in the quick tier. A changed fingerprint alone is never a violation; it only buys more cases.
    fp_now = source_fingerprint(pid, P)
    fp_base = fingerprint_baseline(pid)
    changed_files = sorted(f for f in set(fp_now) | set(fp_base or {}) if (fp_base or {}).get(f) != fp_now.get(f)) if fp_base is not None else []
    amp_rounds = 0
    # (also when the correspondence already disagrees but no failing input has been found yet: the extra rounds are
    # the search for a concrete input on which the property itself fails)
    if tier == "quick" and (changed_files or mism) and not new_fails and os.environ.get("VERIF_NO_AMPLIFY") != "1":
        for k_ in range(1, int(P.get("amplify_rounds", 2)) + 1):
            err, c2, m2, f2, st2, cl2 = run_round(os.path.join(rundir, "amp%d" % k_), seed + 1000 * k_, False)
            if err is not None:
                notes.append("amplification round %d did not complete: %s" % (k_, err[-300:]))
                break
            amp_rounds += 1
            base_ = len(cases)
            cases += c2
            mism += [(i + base_, mo) for (i, mo) in m2]
            fails += f2
            for kk, vv in cl2.items():
                classes[kk] = classes.get(kk, 0) + vv
            classify(f2)
            if m2:
                problems.append("correspondence %s: implementation and model differ on %d of %d cases (amplification round %d, seed %d)" % (pid, len(m2), len(c2), k_, seed + 1000 * k_))
            if new_fails:
                break
    for kid, (k, n, f) in sorted(known_hits.items()):
        print("KNOWN-FINDING: property=%s %s (%d cases this run, e.g. %s)" % (pid, k["what"], n, f["desc"][:160]))

    violations = 0
    replay_path = None
    if new_fails:
        violations = len(new_fails)
        new_fails.sort(key=lambda f: len(f["case"]))
        replay_path = os.path.join(repdir, "%s_fail.txt" % pid)
        with open(replay_path, "w") as fh:
            fh.write("# property %s fails on the implementation; replay: bin/check %s --replay %s\n" % (pid, pid, replay_path))
            for f in new_fails[:20]:
                fh.write("# %s: %s\n%s\n" % (f["sig"], f["desc"], f["case"]))
        print("VIOLATION property=%s replay=%s" % (pid, replay_path))
        for f in new_fails[:3]:
            print("  failing input: %s: %s" % (f["sig"], f["desc"][:300]))
    elif problems:
        violations = 1
        replay_path = os.path.join(repdir, "%s_unproved.txt" % pid)
        with open(replay_path, "w") as fh:
            fh.write("# property %s is no longer shown to hold; no input was found on which the property itself fails\n" % pid)
            for p_ in problems:
                fh.write("# no longer checks: %s\n" % p_)
            fh.write("# theorems: coq/Props/%s.v (%s)\n" % (pid, ", ".join(names)))
            for (ln, mo) in mism[:20]:
                fh.write("# model output: %s\n%s\n" % (mo, cases[ln]))
            if not coq_ok:
                fh.write("# coq log tail:\n" + "\n".join("# " + l for l in coq_log.splitlines()[-30:]) + "\n")
            for n_ in notes:
                fh.write("\n".join("# " + l for l in n_.splitlines()[-30:]) + "\n")
        print("VIOLATION property=%s replay=%s no-failing-input-found" % (pid, replay_path))
        for p_ in problems:
            print("  no longer checks: " + p_)

    trivial = set(P.get("trivial_classes", []))
    def cls(line):
        o = line.split("|", 3)[3] if line.count("|") >= 3 else ""
        return o.split(":", 1)[0] if ":" in o else o[:24]
    nontrivial = sum(1 for l in cases if cls(l) not in trivial)
    ev = {
        "property_id": pid, "tier": tier, "seed": seed, "level": "proof",
        "coverage": {
            "obligations": obligations, "discharged": discharged,
            "checker_cmd": "cd /verif/coq && make -j16 Props/%s.vo  (coqc 8.16.1, full .vo build; Print Assumptions under every theorem)" % pid,
            "theorems": names,
            "print_assumptions": {"closed_under_global_context": closed, "axioms": axioms},
            "coqchk": coqchk,
            "trusted_base": props.TRUSTED_COMMON + P.get("trusted", []),
            "evaluations": len(cases),
            "distinct_nontrivial": nontrivial,
            "rule": P.get("rule", "distinct case lines (duplicates are discarded by the generator) whose output class is not in %s" % sorted(trivial)),
            "samples": stats.get("samples", [])[:10],
            "correspondence": {
                "cases": len(cases), "corpus_cases": stats.get("corpus_cases", 0),
                "disagreements": len(mism), "kernel_evaluated_sample": ns,
                "impl_oracle_failures": len(fails), "known_finding_hits": {k: v[1] for k, v in known_hits.items()},
                "input_distribution": stats.get("distribution", {}),
                "model_output_classes": classes,
                "change_amplification": {"fingerprint_files": len(fp_now), "baseline_recorded": fp_base is not None,
                                         "changed_files": changed_files, "extra_rounds": amp_rounds},
                **({"generated_models": gen_info} if gen_info else {}),
            },
            "modelled_not_verified": P.get("modelled", []),
        },
        "assumptions": P.get("assumptions", []),
        "wall_s": round(time.time() - t0, 2),
        "violations": violations,
    }
    write_evidence(pid, ev)
    print("%s %s: theorems %d/%d, cases %d, disagreements %d, oracle failures %d (known %d), %.1fs" % (
        pid, tier, discharged, obligations, len(cases), len(mism), len(fails), len(fails) - len(new_fails), time.time() - t0))
    return 1 if violations else 0


def update_fingerprints():
    """bin/fingerprint-update: record the fingerprints of the sources each property is anchored in, for the
       committed state of REPO (refuses a dirty tree). Run by hand (bin/mkmanifest does it) - never by a check."""
    rc, out = sh(["git", "-C", REPO, "status", "--porcelain"])
    if out.strip():
        print("fingerprints NOT updated: %s has uncommitted changes" % REPO)
        return 1
    props = load_props()
    d = os.path.join(VERIF, "lib", "fingerprints")
    os.makedirs(d, exist_ok=True)
    for pid, P in sorted(props.PROPS.items()):
        json.dump(source_fingerprint(pid, P), open(os.path.join(d, pid + ".json"), "w"), indent=1, sort_keys=True)
    print("fingerprints of %d properties recorded for %s" % (len(props.PROPS), REPO))
    return 0


if __name__ == "__main__":
    if len(sys.argv) > 1 and sys.argv[1] == "fingerprints":
        sys.exit(update_fingerprints())
    sys.exit(main(sys.argv))
