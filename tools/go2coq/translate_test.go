package main

import (
	"os"
	"strings"
	"testing"
)

func run(t *testing.T, file, fn string) (string, error) {
	t.Helper()
	sp := &spec{Out: "coq/Gen/TGen.v", Module: "TGen", Functions: []specFunc{{File: "testdata/" + file, Func: fn}}}
	wd, _ := os.Getwd()
	text, _, err := translate(wd, sp)
	return text, err
}

// the supported subset translates, deterministically
func TestOK(t *testing.T) {
	a, err := run(t, "ok.go", "sum")
	if err != nil {
		t.Fatal(err)
	}
	b, _ := run(t, "ok.go", "sum")
	if a != b {
		t.Fatal("translation is not deterministic")
	}
	for _, want := range []string{"Definition sum_fuel (fuel : nat) (p0 : list N) (p1 : Z) : gres (Z * bool)", "go_loop (S := Z * Z)", "CBrk", "CNext", "byte_sub", "Z.rem"} {
		if !strings.Contains(a, want) {
			t.Errorf("missing %q in\n%s", want, a)
		}
	}
	if golden, err := os.ReadFile("testdata/ok.v.golden"); err == nil {
		if string(golden) != a {
			t.Errorf("output differs from testdata/ok.v.golden:\n%s", a)
		}
	} else {
		os.WriteFile("testdata/ok.v.golden", []byte(a), 0o644)
	}
}

// anything outside the subset is an error naming the construct and its position - never a guess
func TestUnsupported(t *testing.T) {
	for _, c := range []struct{ file, fn, want string }{
		{"bad_range.go", "count", "bad_range.go:5:2: in count: unsupported: statement *ast.RangeStmt"},
		{"bad_map.go", "get", "bad_map.go:3:12: in get: unsupported: type map[string]int"},
		{"bad_goto.go", "f", "bad_goto.go:5:1: in f: unsupported: statement *ast.LabeledStmt"},
	} {
		_, err := run(t, c.file, c.fn)
		if err == nil || !strings.Contains(err.Error(), c.want) {
			t.Errorf("%s: got %v, want an error containing %q", c.file, err, c.want)
		}
	}
}
