package main

import (
	"fmt"
	"go/ast"
	"go/token"
	"go/types"
	"sort"
	"strings"
)

var dead = cont{gen: func() string { return "GPanic 0%N (* unreachable *)" }, atomic: true}

// does control never reach the end of this statement list?
func terminates(list []ast.Stmt) bool {
	if len(list) == 0 {
		return false
	}
	switch s := list[len(list)-1].(type) {
	case *ast.ReturnStmt:
		return true
	case *ast.BranchStmt:
		return s.Label == nil && (s.Tok == token.BREAK || s.Tok == token.CONTINUE)
	case *ast.BlockStmt:
		return terminates(s.List)
	case *ast.IfStmt:
		if s.Else == nil {
			return false
		}
		return terminates(s.Body.List) && terminates(elseList(s))
	case *ast.ExprStmt:
		if c, ok := s.X.(*ast.CallExpr); ok {
			if id, ok := c.Fun.(*ast.Ident); ok && id.Name == "panic" {
				return true
			}
		}
	}
	return false
}

func elseList(s *ast.IfStmt) []ast.Stmt {
	switch e := s.Else.(type) {
	case nil:
		return nil
	case *ast.BlockStmt:
		return e.List
	default:
		return []ast.Stmt{e}
	}
}

// the variables assigned in the statements that are declared outside [lo, hi)
func (t *ftr) assignedOutside(nodes []ast.Node, lo, hi token.Pos) []types.Object {
	seen := map[types.Object]bool{}
	var out []types.Object
	add := func(e ast.Expr) {
		for {
			switch x := e.(type) {
			case *ast.ParenExpr:
				e = x.X
				continue
			case *ast.IndexExpr: // s[i] = x assigns s
				e = x.X
				continue
			}
			break
		}
		id, ok := e.(*ast.Ident)
		if !ok || id.Name == "_" {
			return
		}
		o := t.p.info.Uses[id]
		if o == nil {
			return // a definition (:=) of a new variable
		}
		if _, isVar := o.(*types.Var); !isVar {
			return
		}
		if o.Pos() >= lo && o.Pos() < hi {
			return
		}
		if !seen[o] {
			seen[o] = true
			out = append(out, o)
		}
	}
	for _, n := range nodes {
		if n == nil {
			continue
		}
		ast.Inspect(n, func(n ast.Node) bool {
			switch s := n.(type) {
			case *ast.AssignStmt:
				for _, l := range s.Lhs {
					add(l)
				}
			case *ast.IncDecStmt:
				add(s.X)
			case *ast.CallExpr:
				if id, ok := s.Fun.(*ast.Ident); ok {
					if callee, ok := t.T.byObj[t.p.info.Uses[id]]; ok {
						for _, oi := range callee.outParams {
							if oi < len(s.Args) {
								add(s.Args[oi])
							}
						}
					}
				}
				if id, ok := s.Fun.(*ast.Ident); ok && id.Name == "copy" && len(s.Args) == 2 {
					if sl, ok := s.Args[0].(*ast.SliceExpr); ok {
						add(sl.X)
					} else {
						add(s.Args[0])
					}
				}
			case *ast.FuncLit:
				t.fail(s, "function literal")
			}
			return true
		})
	}
	// deterministic order: by Coq name (positional, so by declaration order)
	sort.Slice(out, func(i, j int) bool { return t.nameKey(out[i]) < t.nameKey(out[j]) })
	return out
}

func (t *ftr) nameKey(o types.Object) string {
	n, ok := t.names[o]
	if !ok {
		if g, ok := t.T.globals[o]; ok {
			return "g" + g
		}
		panic(unsupported{fmt.Sprintf("%s: assignment to %s, which is not a local variable", t.p.fset.Position(o.Pos()), o.Name())})
	}
	// p3 < v10: letter, then number padded
	return fmt.Sprintf("%c%08s", n[0], n[1:])
}

func (t *ftr) statePattern(vars []types.Object, n ast.Node) (pat, tup, ty string) {
	var names, tys []string
	for _, o := range vars {
		names = append(names, t.names[o])
		tys = append(tys, t.gtypeOf(n, o.Type()).coqAtom())
	}
	switch len(vars) {
	case 0:
		return "(_ : unit)", "tt", "unit"
	case 1:
		return "(" + names[0] + " : " + tys[0] + ")", names[0], tys[0]
	}
	ty = strings.Join(tys, " * ")
	tup = "(" + strings.Join(names, ", ") + ")"
	return "'(" + tup + " : " + ty + ")", tup, ty
}

func (t *ftr) stmts(list []ast.Stmt, c *cctx, k cont) string {
	if len(list) == 0 {
		return k.gen()
	}
	s, rest := list[0], list[1:]
	next := func() string { return t.stmts(rest, c, k) }
	switch x := s.(type) {
	case *ast.EmptyStmt:
		return next()
	case *ast.BlockStmt:
		return t.stmts(append(append([]ast.Stmt{}, x.List...), rest...), c, k)
	case *ast.ReturnStmt:
		return t.returnStmt(x, c)
	case *ast.BranchStmt:
		if x.Label != nil {
			t.fail(x, "labelled %s", x.Tok)
		}
		switch x.Tok {
		case token.BREAK:
			if c.brk == nil {
				t.fail(x, "break outside a for loop (break inside switch is not supported)")
			}
			return c.brk()
		case token.CONTINUE:
			if c.cnt == nil {
				t.fail(x, "continue outside a for loop")
			}
			return c.cnt()
		}
		t.fail(x, "%s", x.Tok)
	case *ast.ExprStmt:
		if call, ok := x.X.(*ast.CallExpr); ok {
			if id, ok := call.Fun.(*ast.Ident); ok && id.Name == "panic" {
				if _, isB := t.p.info.Uses[id].(*types.Builtin); isB {
					return "GPanic PExplicit"
				}
			}
		}
		if call, ok := x.X.(*ast.CallExpr); ok {
			if t.ignoredCall(call) {
				return next()
			}
			if txt, ok := t.copyCall(call, "_"); ok {
				return txt + next()
			}
		}
		t.fail(x, "expression statement %s", types.ExprString(x.X))
	case *ast.DeclStmt:
		return t.declStmt(x) + next()
	case *ast.AssignStmt:
		return t.assignStmt(x) + next()
	case *ast.IncDecStmt:
		bs, a, g := t.eval(x.X)
		id, ok := x.X.(*ast.Ident)
		if !ok {
			t.fail(x, "%s of %s", x.Tok, types.ExprString(x.X))
		}
		name, _ := t.varOf(id)
		op := token.ADD
		if x.Tok == token.DEC {
			op = token.SUB
		}
		one := "1%Z"
		if g.k == kByte {
			one = "1%N"
		}
		return renderBinds(bs) + fmt.Sprintf("let %s := %s in\n", name, t.arith(x, op, a, one, g, nil)) + next()
	case *ast.IfStmt:
		return t.ifStmt(x, rest, c, k)
	case *ast.ForStmt:
		return t.forStmt(x, rest, c, k)
	case *ast.SwitchStmt:
		return t.switchStmt(x, rest, c, k)
	}
	t.fail(s, "statement %T", s)
	return ""
}

func (t *ftr) valueFor(e ast.Expr, want gtype) string {
	if t.isNil(e) {
		if want.k != kErr {
			t.fail(e, "nil where a %s is expected", want.coq())
		}
		return "ErrNil"
	}
	s, g := t.expr(e)
	if g.k != want.k {
		t.fail(e, "value of type %s where %s is expected", g.coq(), want.coq())
	}
	return s
}

func (t *ftr) returnStmt(x *ast.ReturnStmt, c *cctx) string {
	if t.fi.isTables {
		t.fail(x, "return inside a table initialiser")
	}
	want := []gtype{t.fi.origRes}
	if t.fi.origRes.k == kTuple {
		want = t.fi.origRes.elems
	}
	var bs []bind
	saved := t.pre
	t.pre = &bs
	var vals []string
	if len(x.Results) == 1 && len(want) > 1 {
		// return f(x) with a multi-valued f
		s, g := t.expr(x.Results[0])
		if g.k != kTuple || len(g.elems) != len(want) {
			t.fail(x, "return of a %s where %s is expected", g.coq(), t.fi.result.coq())
		}
		if len(t.fi.outParams) > 0 {
			t.fail(x, "return of a multi-valued call from a function with out-parameters")
		}
		vals = []string{s}
	} else {
		if len(x.Results) != len(want) {
			t.fail(x, "return with %d values (bare return / named results are not supported)", len(x.Results))
		}
		for i, r := range x.Results {
			vals = append(vals, t.valueFor(r, want[i]))
		}
	}
	t.pre = saved
	for _, i := range t.fi.outParams {
		vals = append(vals, fmt.Sprintf("p%d", i))
	}
	return renderBinds(bs) + c.ret(tuple(vals))
}

func zeroValue(g gtype) string {
	switch g.k {
	case kInt:
		return "0%Z"
	case kByte:
		return "0%N"
	case kBool:
		return "false"
	case kBytes:
		return "(@nil N)"
	case kBools:
		return "(@nil bool)"
	case kErr:
		return "ErrNil"
	}
	return ""
}

func (t *ftr) declStmt(x *ast.DeclStmt) string {
	gd, ok := x.Decl.(*ast.GenDecl)
	if !ok || gd.Tok != token.VAR {
		if ok && gd.Tok == token.CONST {
			return "" // constants are folded by the type checker wherever they are used
		}
		t.fail(x, "declaration")
	}
	var b strings.Builder
	for _, sp := range gd.Specs {
		vs := sp.(*ast.ValueSpec)
		if len(vs.Values) != 0 && len(vs.Values) != len(vs.Names) {
			t.fail(vs, "var with a multi-valued initialiser")
		}
		for i, id := range vs.Names {
			o := t.p.info.Defs[id]
			if o == nil {
				t.fail(id, "variable without type information")
			}
			g := t.gtypeOf(id, o.Type())
			if len(vs.Values) == 0 {
				z := zeroValue(g)
				if z == "" {
					t.fail(vs, "zero value of %s", g.coq())
				}
				name := t.declare(id, g)
				fmt.Fprintf(&b, "let %s := %s in\n", name, z)
			} else {
				var bs2 []bind
				saved := t.pre
				t.pre = &bs2
				v := t.valueFor(vs.Values[i], g)
				t.pre = saved
				name := t.declare(id, g)
				b.WriteString(renderBinds(bs2))
				fmt.Fprintf(&b, "let %s := %s in\n", name, v)
			}
		}
	}
	return b.String()
}

// a call named in the spec's ignore_calls (logging): <import path>.<Name>
func (t *ftr) ignoredCall(call *ast.CallExpr) bool {
	sel, ok := call.Fun.(*ast.SelectorExpr)
	if !ok {
		return false
	}
	id, ok := sel.X.(*ast.Ident)
	if !ok {
		return false
	}
	pn, ok := t.p.info.Uses[id].(*types.PkgName)
	if !ok {
		return false
	}
	for _, ic := range t.T.sp.IgnoreCalls {
		if ic == pn.Imported().Path()+"."+sel.Sel.Name {
			return true
		}
	}
	return false
}

// n := copy(x[a:], src)  /  copy(x, src)  with x a local or parameter: functional update of x (go_copy);
// Go's copy is a memmove, so a source that aliases x is read before the update, as here
func (t *ftr) copyCall(call *ast.CallExpr, nName string) (string, bool) {
	id, ok := call.Fun.(*ast.Ident)
	if !ok || id.Name != "copy" || len(call.Args) != 2 {
		return "", false
	}
	if _, isB := t.p.info.Uses[id].(*types.Builtin); !isB {
		return "", false
	}
	var bs []bind
	saved := t.pre
	t.pre = &bs
	defer func() { t.pre = saved }()
	var base *ast.Ident
	off := "0%Z"
	switch d := call.Args[0].(type) {
	case *ast.Ident:
		base = d
	case *ast.SliceExpr:
		b, ok := d.X.(*ast.Ident)
		if !ok || d.High != nil || d.Slice3 {
			t.fail(call, "copy into %s (supported: copy(x, src), copy(x[a:], src))", types.ExprString(call.Args[0]))
		}
		base = b
		if d.Low != nil {
			o, g := t.expr(d.Low)
			off = t.asIndex(d.Low, o, g)
		}
	default:
		t.fail(call, "copy into %s (supported: copy(x, src), copy(x[a:], src))", types.ExprString(call.Args[0]))
	}
	name, o := t.varOf(base)
	g := t.gtypeOf(base, o.Type())
	src, gs := t.expr(call.Args[1])
	if g.k != kBytes || gs.k != kBytes {
		t.fail(call, "copy between %s and %s", g.coq(), gs.coq())
	}
	tmp := t.temp()
	return renderBinds(bs) + fmt.Sprintf("%s <~ go_copy %s %s %s ;;\nlet '(%s, %s) := %s in\n", tmp, name, off, src, name, nName, tmp), true
}

func (t *ftr) assignStmt(x *ast.AssignStmt) string {
	if len(x.Lhs) == 1 && len(x.Rhs) == 1 && x.Tok == token.ADD_ASSIGN {
		// pos += copy(buf[pos:], s)
		if call, ok := x.Rhs[0].(*ast.CallExpr); ok {
			if id, ok := call.Fun.(*ast.Ident); ok && id.Name == "copy" {
				if lid, ok := x.Lhs[0].(*ast.Ident); ok {
					name, o := t.varOf(lid)
					if t.gtypeOf(lid, o.Type()).k == kInt {
						n := t.temp()
						if txt, ok := t.copyCall(call, n); ok {
							return txt + fmt.Sprintf("let %s := (%s + %s)%%Z in\n", name, name, n)
						}
					}
				}
			}
		}
	}
	if len(x.Lhs) == 1 && len(x.Rhs) == 1 && (x.Tok == token.DEFINE || x.Tok == token.ASSIGN) {
		if call, ok := x.Rhs[0].(*ast.CallExpr); ok {
			if id, ok := call.Fun.(*ast.Ident); ok && id.Name == "copy" {
				if lid, ok := x.Lhs[0].(*ast.Ident); ok {
					var n string
					if lid.Name == "_" {
						n = "_"
					} else if x.Tok == token.DEFINE && t.p.info.Defs[lid] != nil {
						n = t.declare(lid, gtype{k: kInt})
					} else {
						n, _ = t.varOf(lid)
					}
					if txt, ok := t.copyCall(call, n); ok {
						return txt
					}
				}
			}
		}
	}
	var b strings.Builder
	var bs []bind
	saved := t.pre
	t.pre = &bs
	defer func() { t.pre = saved }()

	// the name a left-hand side is bound to (declaring it for :=), and for s[i] = v the update
	type target struct {
		name  string
		g     gtype
		index string // non-empty: element assignment name[index] = v
		elem  gtype
		id    *ast.Ident
		isNew bool
	}
	lhs := func(e ast.Expr, g gtype) target {
		switch l := e.(type) {
		case *ast.Ident:
			if l.Name == "_" {
				return target{name: "_", g: g}
			}
			if x.Tok == token.DEFINE {
				if t.p.info.Defs[l] != nil {
					return target{g: g, id: l, isNew: true}
				}
			}
			n, o := t.varOf(l)
			return target{name: n, g: t.gtypeOf(l, o.Type())}
		case *ast.IndexExpr:
			id, ok := l.X.(*ast.Ident)
			if !ok {
				t.fail(e, "assignment to %s", types.ExprString(e))
			}
			n, o := t.varOf(id)
			gs := t.gtypeOf(id, o.Type())
			i, gi := t.expr(l.Index)
			el := gtype{k: kByte}
			if gs.k == kBools {
				el = gtype{k: kBool}
			} else if gs.k != kBytes {
				t.fail(e, "element assignment on %s", gs.coq())
			}
			return target{name: n, g: gs, index: t.asIndex(l.Index, i, gi), elem: el}
		}
		t.fail(e, "assignment to %s", types.ExprString(e))
		return target{}
	}
	finish := func(tg target, val string) {
		if tg.isNew {
			tg.name = t.declare(tg.id, tg.g)
		}
		b.WriteString(renderBinds(bs))
		bs = bs[:0]
		if tg.index != "" {
			fmt.Fprintf(&b, "%s <~ go_update %s %s %s ;;\n", tg.name, tg.name, tg.index, atom(val))
			return
		}
		if tg.name == "_" {
			return
		}
		fmt.Fprintf(&b, "let %s := %s in\n", tg.name, val)
	}

	switch x.Tok {
	case token.ASSIGN, token.DEFINE:
		if len(x.Lhs) == len(x.Rhs) {
			if len(x.Lhs) == 1 {
				var want gtype
				if id, ok := x.Lhs[0].(*ast.Ident); ok && x.Tok == token.DEFINE && t.p.info.Defs[id] != nil {
					want = t.gtypeOf(id, t.p.info.Defs[id].Type())
				} else if id, ok := x.Lhs[0].(*ast.Ident); ok && id.Name == "_" {
					t.expr(x.Rhs[0])
					b.WriteString(renderBinds(bs))
					return b.String()
				} else {
					want = t.typeOf(x.Lhs[0])
				}
				// Go evaluates the index operands of the left side first, then the right side
				tg := lhs(x.Lhs[0], want)
				val := t.valueFor(x.Rhs[0], want)
				finish(tg, val)
				return b.String()
			}
			// parallel assignment: all right sides are evaluated before any variable changes
			var tgs []target
			var vals []string
			for i := range x.Lhs {
				var want gtype
				if id, ok := x.Lhs[i].(*ast.Ident); ok && id.Name == "_" {
					want = t.typeOf(x.Rhs[i])
				} else if id, ok := x.Lhs[i].(*ast.Ident); ok && x.Tok == token.DEFINE && t.p.info.Defs[id] != nil {
					want = t.gtypeOf(id, t.p.info.Defs[id].Type())
				} else {
					want = t.typeOf(x.Lhs[i])
				}
				tg := lhs(x.Lhs[i], want)
				if tg.index != "" {
					t.fail(x, "element assignment in a parallel assignment")
				}
				tgs = append(tgs, tg)
			}
			for i := range x.Rhs {
				vals = append(vals, t.valueFor(x.Rhs[i], tgs[i].g))
			}
			var names []string
			for i := range tgs {
				if tgs[i].isNew {
					tgs[i].name = t.declare(tgs[i].id, tgs[i].g)
				}
				names = append(names, tgs[i].name)
			}
			b.WriteString(renderBinds(bs))
			fmt.Fprintf(&b, "let '%s := %s in\n", tuple(names), tuple(vals))
			return b.String()
		}
		if len(x.Rhs) == 1 {
			// a, b := f(x)
			s, g := t.expr(x.Rhs[0])
			if g.k != kTuple || len(g.elems) != len(x.Lhs) {
				t.fail(x, "assignment of %s to %d variables", g.coq(), len(x.Lhs))
			}
			var names []string
			for i, l := range x.Lhs {
				tg := lhs(l, g.elems[i])
				if tg.index != "" {
					t.fail(x, "element assignment from a multi-valued call")
				}
				if tg.isNew {
					tg.name = t.declare(tg.id, tg.g)
				}
				names = append(names, tg.name)
			}
			b.WriteString(renderBinds(bs))
			fmt.Fprintf(&b, "let '%s := %s in\n", tuple(names), s)
			return b.String()
		}
		t.fail(x, "assignment with %d left and %d right sides", len(x.Lhs), len(x.Rhs))
	default:
		// op=
		ops := map[token.Token]token.Token{
			token.ADD_ASSIGN: token.ADD, token.SUB_ASSIGN: token.SUB, token.MUL_ASSIGN: token.MUL,
			token.QUO_ASSIGN: token.QUO, token.REM_ASSIGN: token.REM, token.AND_ASSIGN: token.AND,
			token.OR_ASSIGN: token.OR, token.XOR_ASSIGN: token.XOR, token.SHL_ASSIGN: token.SHL, token.SHR_ASSIGN: token.SHR,
		}
		op, ok := ops[x.Tok]
		if !ok || len(x.Lhs) != 1 || len(x.Rhs) != 1 {
			t.fail(x, "assignment operator %s", x.Tok)
		}
		id, ok := x.Lhs[0].(*ast.Ident)
		if !ok {
			t.fail(x, "%s on %s", x.Tok, types.ExprString(x.Lhs[0]))
		}
		name, o := t.varOf(id)
		g := t.gtypeOf(id, o.Type())
		var rv string
		if op == token.SHL || op == token.SHR {
			rv, _ = t.expr(x.Rhs[0])
		} else {
			rv = t.valueFor(x.Rhs[0], g)
		}
		val := t.arith(x, op, name, rv, g, x.Rhs[0])
		b.WriteString(renderBinds(bs))
		fmt.Fprintf(&b, "let %s := %s in\n", name, val)
		return b.String()
	}
	return ""
}

func (t *ftr) ifStmt(s *ast.IfStmt, rest []ast.Stmt, c *cctx, k cont) string {
	if s.Init != nil {
		cp := *s
		cp.Init = nil
		return t.stmts(append([]ast.Stmt{s.Init, &cp}, rest...), c, k)
	}
	bs, cond, g := t.eval(s.Cond)
	if g.k != kBool {
		t.fail(s.Cond, "condition of type %s", g.coq())
	}
	thenL, elseL := s.Body.List, elseList(s)
	head := renderBinds(bs)
	cat := func(a, b []ast.Stmt) []ast.Stmt { return append(append([]ast.Stmt{}, a...), b...) }
	switch {
	case terminates(thenL):
		th := t.stmts(thenL, c, dead)
		el := t.stmts(cat(elseL, rest), c, k)
		return head + "if " + cond + " then\n" + indent(th, 2) + "\nelse\n" + el
	case terminates(elseL):
		el := t.stmts(elseL, c, dead)
		th := t.stmts(cat(thenL, rest), c, k)
		return head + "if negb " + atom(cond) + " then\n" + indent(el, 2) + "\nelse\n" + th
	case len(rest) == 0 && k.atomic:
		th := t.stmts(thenL, c, k)
		el := t.stmts(elseL, c, k)
		return head + "if " + cond + " then\n" + indent(th, 2) + "\nelse\n" + indent(el, 2)
	}
	// both branches can fall through to the rest: a join point over the variables they assign
	vars := t.assignedOutside([]ast.Node{s.Body, s.Else}, s.Pos(), s.End())
	pat, tup, _ := t.statePattern(vars, s)
	j := fmt.Sprintf("j%d", t.njoin)
	t.njoin++
	kj := cont{gen: func() string { return j + " " + tup }, atomic: true}
	th := t.stmts(thenL, c, kj)
	el := t.stmts(elseL, c, kj)
	body := t.stmts(rest, c, k)
	return head + "let " + j + " := (fun " + pat + " =>\n" + indent(body, 2) + ") in\n" +
		"if " + cond + " then\n" + indent(th, 2) + "\nelse\n" + indent(el, 2)
}

func (t *ftr) forStmt(s *ast.ForStmt, rest []ast.Stmt, c *cctx, k cont) string {
	if s.Init != nil {
		cp := *s
		cp.Init = nil
		// the variables of the init statement stay declared for the rest (harmless: Go forbids their use there)
		return t.stmts(append([]ast.Stmt{s.Init, &cp}, rest...), c, k)
	}
	t.fi.hasLoop = true
	var postNode ast.Node
	if s.Post != nil {
		postNode = s.Post
	}
	vars := t.assignedOutside([]ast.Node{s.Body, postNode}, s.Body.Pos(), s.Body.End())
	pat, tup, sty := t.statePattern(vars, s)
	n := t.nloop
	t.nloop++

	condF := "GOk true"
	if s.Cond != nil {
		bs, cond, g := t.eval(s.Cond)
		if g.k != kBool {
			t.fail(s.Cond, "loop condition of type %s", g.coq())
		}
		condF = renderBinds(bs) + "GOk " + atom(cond)
	}
	lc := &cctx{
		ret: func(v string) string { return "GOk (CRet " + atom(v) + ")" },
		brk: func() string { return "GOk (CBrk " + tup + ")" },
		cnt: func() string { return "GOk (CNext " + tup + ")" },
	}
	bodyF := t.stmts(s.Body.List, lc, cont{gen: lc.cnt, atomic: true})
	postF := "GOk " + tup
	if s.Post != nil {
		pc := &cctx{ret: func(string) string { t.fail(s.Post, "return in a post statement"); return "" }}
		postF = t.stmts([]ast.Stmt{s.Post}, pc, cont{gen: func() string { return "GOk " + tup }, atomic: true})
	}
	after := t.stmts(rest, c, k)
	r := fmt.Sprintf("r%d", n)
	rv := fmt.Sprintf("rv%d", n)
	inl := tup
	if len(vars) == 0 {
		inl = "_"
	}
	var b strings.Builder
	fmt.Fprintf(&b, "%s <~ go_loop (S := %s) (R := %s) fuel\n", r, sty, t.fi.result.coq())
	fmt.Fprintf(&b, "  (fun %s =>\n%s)\n", pat, indent(condF, 4))
	fmt.Fprintf(&b, "  (fun %s =>\n%s)\n", pat, indent(bodyF, 4))
	fmt.Fprintf(&b, "  (fun %s =>\n%s)\n", pat, indent(postF, 4))
	fmt.Fprintf(&b, "  %s ;;\n", tup)
	fmt.Fprintf(&b, "match %s with\n| inl %s =>\n%s\n| inr %s => %s\nend", r, inl, indent(after, 2), rv, c.ret(rv))
	return b.String()
}

// switch { case c1: ... case c2, c3: ... default: ... }  ==  if c1 {...} else if c2 || c3 {...} else {...}
func (t *ftr) switchStmt(s *ast.SwitchStmt, rest []ast.Stmt, c *cctx, k cont) string {
	if s.Init != nil || s.Tag != nil {
		t.fail(s, "switch with an init statement or a tag (only the tagless form is supported)")
	}
	var def *ast.CaseClause
	var cases []*ast.CaseClause
	for _, st := range s.Body.List {
		cc := st.(*ast.CaseClause)
		ast.Inspect(cc, func(n ast.Node) bool {
			switch b := n.(type) {
			case *ast.ForStmt, *ast.RangeStmt, *ast.SwitchStmt, *ast.SelectStmt, *ast.TypeSwitchStmt:
				if n != ast.Node(cc) {
					return false // break/continue inside belong to the inner statement (checked there)
				}
			case *ast.BranchStmt:
				if b.Tok == token.BREAK || b.Tok == token.FALLTHROUGH {
					t.fail(b, "%s inside a switch", b.Tok)
				}
			}
			return true
		})
		if cc.List == nil {
			if def != nil {
				t.fail(cc, "two default clauses")
			}
			def = cc
			if st != s.Body.List[len(s.Body.List)-1] {
				t.fail(cc, "default clause that is not the last one")
			}
			continue
		}
		cases = append(cases, cc)
	}
	var build func(i int) ast.Stmt
	build = func(i int) ast.Stmt {
		if i == len(cases) {
			if def == nil {
				return nil
			}
			return &ast.BlockStmt{Lbrace: def.Pos(), List: def.Body, Rbrace: def.End()}
		}
		cc := cases[i]
		cond := cc.List[0]
		for _, e := range cc.List[1:] {
			cond = &ast.BinaryExpr{X: cond, OpPos: e.Pos(), Op: token.LOR, Y: e}
		}
		ifs := &ast.IfStmt{If: cc.Pos(), Cond: cond, Body: &ast.BlockStmt{Lbrace: cc.Colon, List: cc.Body, Rbrace: cc.End()}}
		if e := build(i + 1); e != nil {
			ifs.Else = e
		}
		return ifs
	}
	st := build(0)
	if st == nil {
		return t.stmts(rest, c, k)
	}
	return t.stmts(append([]ast.Stmt{st}, rest...), c, k)
}
