module go2coq

go 1.22
