// go2coq translates a SUBSET of Go (pure functions over []byte/string, int, byte, bool) to Gallina
// terms over the semantics library coq/Model/GoSem.v.  See design_notes/XLT.md.
//
//	go2coq -repo <slog-agent root> -verif <verif root> -spec lib/go2coq.d/<ID>.json [-n]
//
// The spec names the functions; the output file is rewritten only if its content changed.  Anything
// outside the subset makes the translator fail with the construct and its position (it never guesses).
// A one-line JSON summary is printed on stdout.
package main

import (
	"encoding/json"
	"flag"
	"fmt"
	"os"
	"path/filepath"
	"strings"
)

type specFunc struct {
	File  string   `json:"file"`
	Func  string   `json:"func"`
	Seeds []string `json:"seeds,omitempty"` // self-test: typical inputs (for the first string parameter) to mutate
	Fuel  string   `json:"fuel,omitempty"`  // Coq nat expression over p0, p1, ... (default: sum of the lengths of the slice/string parameters + 2)
}

// specTable declares a package-level lookup table ([]bool indexed by a byte) whose content is built by the
// package's init() function; init is translated too and the table is its result (see tables.go)
type specTable struct {
	File string   `json:"file"`
	Init string   `json:"init"`           // name of the function that fills the tables (normally "init")
	Vars []string `json:"vars"`           // the package-level variables, in the order of the result tuple
	Fuel string   `json:"fuel,omitempty"` // fuel of the initialiser's loops (default 300)
}

type spec struct {
	Out       string      `json:"out"`
	Module    string      `json:"module"`
	Functions []specFunc  `json:"functions"`
	Tables    []specTable `json:"tables,omitempty"`
	// library functions that stay named external functions: calls become applications of a hand-written Gallina
	// function of type args -> gres result (e.g. strings.ToValidUTF8 -> GoExt.strings_ToValidUTF8)
	Externals []specExternal `json:"externals,omitempty"`
	// calls made for their effect on the outside world only (logging): dropped, arguments not evaluated
	IgnoreCalls []string `json:"ignore_calls,omitempty"`
	// integer constants of packages outside the standard library (their source is not type-checked):
	// "<import path>.<Name>": value
	Constants map[string]int64 `json:"constants,omitempty"`
	Require   []string         `json:"require,omitempty"` // extra Coq modules the generated file imports (for the externals)
}

type specExternal struct {
	Func   string   `json:"func"`   // "<import path>.<Name>"
	Coq    string   `json:"coq"`    // Gallina function
	Params []string `json:"params"` // "bytes" | "int" | "byte" | "bool"
	Result string   `json:"result"`
}

type summary struct {
	Spec      string   `json:"spec"`
	Out       string   `json:"out"`
	Functions []string `json:"functions"`
	Changed   bool     `json:"differs_from_committed"`
	Written   bool     `json:"written"`
	Error     string   `json:"error,omitempty"`
}

func main() {
	repo := flag.String("repo", "/repo", "root of the Go project")
	verif := flag.String("verif", ".", "root of the verification framework (the spec's \"out\" is relative to it)")
	specPath := flag.String("spec", "", "spec file")
	dry := flag.Bool("n", false, "do not write the output file")
	stdout := flag.Bool("stdout", false, "print the generated Coq source instead of writing it")
	selftest := flag.String("selftest", "", "write the differential self-test program (Go) for this spec into the directory")
	flag.Parse()
	sum := summary{Spec: *specPath}
	fail := func(msg string) {
		sum.Error = msg
		b, _ := json.Marshal(sum)
		fmt.Println(string(b))
		fmt.Fprintln(os.Stderr, "go2coq: "+msg)
		os.Exit(1)
	}
	raw, err := os.ReadFile(*specPath)
	if err != nil {
		fail(err.Error())
	}
	var sp spec
	if err := json.Unmarshal(raw, &sp); err != nil {
		fail("spec " + *specPath + ": " + err.Error())
	}
	sum.Out = sp.Out
	if sp.Module == "" || filepath.Base(sp.Out) != sp.Module+".v" {
		fail(fmt.Sprintf("spec %s: \"out\" must be <dir>/<module>.v", *specPath))
	}
	if *selftest != "" {
		if err := emitSelftest(*repo, &sp, *selftest); err != nil {
			fail(err.Error())
		}
		return
	}
	text, names, err := translate(*repo, &sp)
	if err != nil {
		fail(err.Error())
	}
	sum.Functions = names
	if *stdout {
		fmt.Print(text)
		return
	}
	outPath := filepath.Join(*verif, sp.Out)
	old, rerr := os.ReadFile(outPath)
	sum.Changed = rerr != nil || string(old) != text
	if sum.Changed && !*dry {
		if err := os.MkdirAll(filepath.Dir(outPath), 0o755); err != nil {
			fail(err.Error())
		}
		if err := os.WriteFile(outPath, []byte(text), 0o644); err != nil {
			fail(err.Error())
		}
		sum.Written = true
	}
	b, _ := json.Marshal(sum)
	fmt.Println(strings.TrimSpace(string(b)))
}
