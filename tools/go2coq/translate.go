package main

import (
	"fmt"
	"go/ast"
	"go/build"
	"go/constant"
	"go/importer"
	"go/parser"
	"go/token"
	"go/types"
	"os"
	"path/filepath"
	"sort"
	"strings"
)

// ---------------------------------------------------------------- types of the target language

type kind int

const (
	kInt   kind = iota // Go int            -> Z
	kByte              // Go byte / uint8   -> N (wraps mod 256)
	kBool              // bool              -> bool
	kBytes             // []byte, string    -> list N
	kErr               // error             -> goerror
	kBools             // []bool            -> list bool
	kUint              // uint16/uint32/uint64 -> N, wraps mod 2^w
	kInt32             // int32 -> Z (only conversions are supported)
	kTuple
)

type gtype struct {
	k     kind
	elems []gtype
	w     int  // kUint: width in bits
	isStr bool // kBytes: a Go string (immutable), not a []byte
}

func (g gtype) coq() string {
	switch g.k {
	case kInt:
		return "Z"
	case kByte, kUint:
		return "N"
	case kInt32:
		return "Z"
	case kBool:
		return "bool"
	case kBytes:
		return "list N"
	case kErr:
		return "goerror"
	case kBools:
		return "list bool"
	case kTuple:
		parts := make([]string, len(g.elems))
		for i, e := range g.elems {
			parts[i] = e.coq()
			if e.k == kBytes || e.k == kBools || e.k == kTuple {
				parts[i] = "(" + parts[i] + ")"
			}
		}
		return strings.Join(parts, " * ")
	}
	return "?"
}

func (g gtype) coqAtom() string {
	s := g.coq()
	if strings.Contains(s, " ") {
		return "(" + s + ")"
	}
	return s
}

// ---------------------------------------------------------------- errors

type unsupported struct{ msg string }

func (u unsupported) Error() string { return u.msg }

// ---------------------------------------------------------------- package loading

type pkgInfo struct {
	dir   string
	fset  *token.FileSet
	files map[string]*ast.File // by path relative to the repo root
	info  *types.Info
	pkg   *types.Package
}

type hybridImporter struct {
	src types.Importer
}

func (h hybridImporter) Import(path string) (*types.Package, error) {
	first := strings.Split(path, "/")[0]
	if !strings.Contains(first, ".") {
		if p, err := h.src.Import(path); err == nil {
			return p, nil
		}
	}
	// a package outside the standard library: an empty stub; uses of its members make the expression
	// untyped, which the translator reports as unsupported where it matters
	name := path[strings.LastIndex(path, "/")+1:]
	p := types.NewPackage(path, name)
	p.MarkComplete()
	return p, nil
}

func loadPackage(repo, dir string) (*pkgInfo, error) {
	fset := token.NewFileSet()
	abs := filepath.Join(repo, dir)
	ents, err := os.ReadDir(abs)
	if err != nil {
		return nil, err
	}
	ctx := build.Default
	ctx.BuildTags = nil
	pi := &pkgInfo{dir: dir, fset: fset, files: map[string]*ast.File{}}
	var list []*ast.File
	for _, e := range ents {
		n := e.Name()
		if e.IsDir() || !strings.HasSuffix(n, ".go") || strings.HasSuffix(n, "_test.go") {
			continue
		}
		if ok, err := ctx.MatchFile(abs, n); err != nil || !ok {
			continue
		}
		f, err := parser.ParseFile(fset, filepath.Join(abs, n), nil, parser.SkipObjectResolution)
		if err != nil {
			return nil, fmt.Errorf("parse error: %v", err)
		}
		pi.files[filepath.ToSlash(filepath.Join(dir, n))] = f
		list = append(list, f)
	}
	pi.info = &types.Info{
		Types: map[ast.Expr]types.TypeAndValue{},
		Defs:  map[*ast.Ident]types.Object{},
		Uses:  map[*ast.Ident]types.Object{},
	}
	conf := types.Config{
		Importer: hybridImporter{importer.ForCompiler(fset, "source", nil)},
		Error:    func(error) {}, // type errors elsewhere in the package are not our business
	}
	pi.pkg, _ = conf.Check(dir, fset, list, pi.info)
	return pi, nil
}

// ---------------------------------------------------------------- translation driver

type funcInfo struct {
	sf       specFunc
	pkg      *pkgInfo
	decl     *ast.FuncDecl
	obj      types.Object
	name     string // Coq name
	params   []gtype
	result   gtype
	hasLoop  bool
	calls    []*funcInfo
	text     string
	isTables bool
	tblVars  []types.Object
	// out-parameters: []byte parameters whose elements the function (or a callee) assigns; their final value is
	// returned as extra components of the result and re-bound by the callers
	outParams []int
	origRes   gtype
	paramObjs []types.Object
}

type translator struct {
	repo    string
	pkgs    map[string]*pkgInfo
	funcs   []*funcInfo
	byObj   map[types.Object]*funcInfo
	globals map[types.Object]string // package-level tables -> Coq name
	sp      *spec
}

func translate(repo string, sp *spec) (text string, names []string, err error) {
	defer func() {
		if r := recover(); r != nil {
			if u, ok := r.(unsupported); ok {
				err = u
				return
			}
			panic(r)
		}
	}()
	T := &translator{repo: repo, pkgs: map[string]*pkgInfo{}, byObj: map[types.Object]*funcInfo{}, globals: map[types.Object]string{}, sp: sp}
	find := func(file, fn string) (*pkgInfo, *ast.FuncDecl) {
		dir := filepath.ToSlash(filepath.Dir(file))
		p := T.pkgs[dir]
		if p == nil {
			var e error
			p, e = loadPackage(repo, dir)
			if e != nil {
				panic(unsupported{fmt.Sprintf("%s: %v", file, e)})
			}
			T.pkgs[dir] = p
		}
		f := p.files[filepath.ToSlash(file)]
		if f == nil {
			panic(unsupported{fmt.Sprintf("%s: no such file in the package (or excluded by build constraints)", file)})
		}
		for _, d := range f.Decls {
			if fd, ok := d.(*ast.FuncDecl); ok && fd.Name.Name == fn && fd.Recv == nil {
				return p, fd
			}
		}
		panic(unsupported{fmt.Sprintf("%s: function %s not found", file, fn)})
	}
	var srcFiles []string
	seenFile := map[string]bool{}
	noteFile := func(f string) {
		if !seenFile[f] {
			seenFile[f] = true
			srcFiles = append(srcFiles, f)
		}
	}
	for _, tb := range sp.Tables {
		p, fd := find(tb.File, tb.Init)
		noteFile(tb.File)
		fuel := tb.Fuel
		if fuel == "" {
			fuel = "300"
		}
		fi := &funcInfo{sf: specFunc{File: tb.File, Func: tb.Init, Fuel: fuel}, pkg: p, decl: fd, isTables: true}
		fi.name = "tables_" + tb.Init
		for _, v := range tb.Vars {
			o := p.pkg.Scope().Lookup(v)
			if o == nil {
				panic(unsupported{fmt.Sprintf("%s: package-level variable %s not found", tb.File, v)})
			}
			if _, ok := o.(*types.Var); !ok {
				panic(unsupported{fmt.Sprintf("%s: %s is not a variable", tb.File, v)})
			}
			fi.tblVars = append(fi.tblVars, o)
			T.globals[o] = v
		}
		T.funcs = append(T.funcs, fi)
	}
	for _, sf := range sp.Functions {
		p, fd := find(sf.File, sf.Func)
		noteFile(sf.File)
		fi := &funcInfo{sf: sf, pkg: p, decl: fd, name: sf.Func}
		fi.obj = p.info.Defs[fd.Name]
		if fi.obj == nil {
			panic(unsupported{fmt.Sprintf("%s: %s: no type information", sf.File, sf.Func)})
		}
		T.byObj[fi.obj] = fi
		T.funcs = append(T.funcs, fi)
	}
	// signatures first (calls need them), then bodies
	for _, fi := range T.funcs {
		T.signature(fi)
	}
	T.computeOutParams()
	for _, fi := range T.funcs {
		T.body(fi)
	}
	// callees before callers
	var order []*funcInfo
	state := map[*funcInfo]int{}
	var visit func(fi *funcInfo)
	visit = func(fi *funcInfo) {
		switch state[fi] {
		case 2:
			return
		case 1:
			panic(unsupported{fmt.Sprintf("%s: recursion (through %s) is not supported", fi.sf.File, fi.sf.Func)})
		}
		state[fi] = 1
		for _, c := range fi.calls {
			visit(c)
		}
		state[fi] = 2
		order = append(order, fi)
	}
	for _, fi := range T.funcs {
		visit(fi)
	}
	var b strings.Builder
	fmt.Fprintf(&b, "(* GENERATED by tools/go2coq from the Go sources below - DO NOT EDIT.\n")
	fmt.Fprintf(&b, "   Regenerated from the working tree of slog-agent by bin/setup and by every bin/check;\n")
	fmt.Fprintf(&b, "   the equivalence with the hand-written models is proved in Proofs/*GenEquiv.v.\n")
	for _, f := range srcFiles {
		fmt.Fprintf(&b, "     %s\n", f)
	}
	fmt.Fprintf(&b, "   Semantics of every operation: Model/GoSem.v.  int is Z (no overflow), byte is N with\n")
	fmt.Fprintf(&b, "   wrap-around, []byte/string are list N, panics and running out of fuel are explicit. *)\n")
	fmt.Fprintf(&b, "From SV Require Import Model.Common Model.GoSem.\n")
	for _, r := range sp.Require {
		fmt.Fprintf(&b, "From SV Require %s.\n", r)
	}
	for _, fi := range order {
		b.WriteString("\n")
		b.WriteString(fi.text)
		names = append(names, fi.sf.File+":"+fi.sf.Func)
	}
	sort.Strings(names)
	return b.String(), names, nil
}

// ---------------------------------------------------------------- per-function state

type bind struct {
	name string
	rhs  string // a term of type gres _
	let  string // optional: "let '<pattern> := name in" after the bind (results + re-bound out-parameters)
}

type cont struct {
	gen    func() string
	atomic bool
}

type cctx struct {
	ret func(v string) string
	brk func() string
	cnt func() string
}

type ftr struct {
	T       *translator
	fi      *funcInfo
	p       *pkgInfo
	names   map[types.Object]string
	nlocal  int
	ntemp   int
	njoin   int
	nloop   int
	pre     *[]bind
	rebinds int
	locals  []string // "v0=i" for the header comment
}

func (t *ftr) pos(n ast.Node) string {
	p := t.p.fset.Position(n.Pos())
	rel, err := filepath.Rel(t.T.repo, p.Filename)
	if err != nil {
		rel = p.Filename
	}
	return fmt.Sprintf("%s:%d:%d", filepath.ToSlash(rel), p.Line, p.Column)
}

func (t *ftr) fail(n ast.Node, format string, a ...interface{}) {
	panic(unsupported{fmt.Sprintf("%s: in %s: unsupported: %s", t.pos(n), t.fi.sf.Func, fmt.Sprintf(format, a...))})
}

func (t *ftr) gtypeOf(n ast.Node, ty types.Type) gtype {
	if ty == nil {
		t.fail(n, "expression without a type (unresolved import or type error)")
	}
	ty = types.Unalias(ty)
	switch u := ty.(type) {
	case *types.Basic:
		switch u.Kind() {
		case types.Int, types.UntypedInt, types.UntypedRune:
			return gtype{k: kInt}
		case types.Uint8:
			return gtype{k: kByte}
		case types.Uint16:
			return gtype{k: kUint, w: 16}
		case types.Uint32:
			return gtype{k: kUint, w: 32}
		case types.Uint64:
			return gtype{k: kUint, w: 64}
		case types.Int32:
			return gtype{k: kInt32}
		case types.Bool, types.UntypedBool:
			return gtype{k: kBool}
		case types.String, types.UntypedString:
			return gtype{k: kBytes, isStr: true}
		}
	case *types.Slice:
		if b, ok := u.Elem().(*types.Basic); ok {
			if b.Kind() == types.Uint8 {
				return gtype{k: kBytes}
			}
			if b.Kind() == types.Bool {
				return gtype{k: kBools}
			}
		}
	case *types.Named:
		if u.Obj().Pkg() == nil && u.Obj().Name() == "error" {
			return gtype{k: kErr}
		}
		if _, ok := u.Underlying().(*types.Basic); ok {
			return t.gtypeOf(n, u.Underlying()) // e.g. type MutableString string
		}
	case *types.Tuple:
		g := gtype{k: kTuple}
		for i := 0; i < u.Len(); i++ {
			g.elems = append(g.elems, t.gtypeOf(n, u.At(i).Type()))
		}
		if len(g.elems) == 1 {
			return g.elems[0]
		}
		return g
	}
	t.fail(n, "type %s (supported: int, byte/uint8, bool, string, []byte, []bool, error)", ty.String())
	return gtype{}
}

func (T *translator) signature(fi *funcInfo) {
	t := &ftr{T: T, fi: fi, p: fi.pkg}
	ft := fi.decl.Type
	if ft.TypeParams != nil {
		t.fail(ft, "type parameters")
	}
	if fi.isTables {
		if len(ft.Params.List) > 0 || ft.Results != nil {
			t.fail(ft, "table initialiser with parameters or results")
		}
		g := gtype{k: kTuple}
		for _, o := range fi.tblVars {
			g.elems = append(g.elems, t.gtypeOf(ft, o.Type()))
		}
		if len(g.elems) == 1 {
			g = g.elems[0]
		}
		fi.result = g
		return
	}
	for _, f := range ft.Params.List {
		ty := fi.pkg.info.Types[f.Type].Type
		if _, ok := f.Type.(*ast.Ellipsis); ok {
			t.fail(f, "variadic parameter")
		}
		g := t.gtypeOf(f.Type, ty)
		n := len(f.Names)
		if n == 0 {
			n = 1
		}
		for i := 0; i < n; i++ {
			fi.params = append(fi.params, g)
			if i < len(f.Names) {
				fi.paramObjs = append(fi.paramObjs, fi.pkg.info.Defs[f.Names[i]])
			} else {
				fi.paramObjs = append(fi.paramObjs, nil)
			}
		}
	}
	if ft.Results == nil || len(ft.Results.List) == 0 {
		t.fail(ft, "function without a result")
	}
	res := gtype{k: kTuple}
	for _, f := range ft.Results.List {
		if len(f.Names) > 0 {
			t.fail(f, "named results")
		}
		res.elems = append(res.elems, t.gtypeOf(f.Type, fi.pkg.info.Types[f.Type].Type))
	}
	if len(res.elems) == 1 {
		res = res.elems[0]
	}
	fi.result = res
	fi.origRes = res
}

// which []byte parameters are written through (element assignment, copy destination, or passed on to an
// out-parameter of another function of the spec); fixpoint over the call graph
func (T *translator) computeOutParams() {
	isOut := func(fi *funcInfo, i int) bool {
		for _, o := range fi.outParams {
			if o == i {
				return true
			}
		}
		return false
	}
	for changed := true; changed; {
		changed = false
		for _, fi := range T.funcs {
			if fi.isTables || fi.decl.Body == nil {
				continue
			}
			mark := func(e ast.Expr) {
				for {
					switch x := e.(type) {
					case *ast.ParenExpr:
						e = x.X
						continue
					case *ast.IndexExpr:
						e = x.X
						continue
					case *ast.SliceExpr:
						e = x.X
						continue
					}
					break
				}
				id, ok := e.(*ast.Ident)
				if !ok {
					return
				}
				o := fi.pkg.info.Uses[id]
				for i, po := range fi.paramObjs {
					if po != nil && po == o && fi.params[i].k == kBytes && !fi.params[i].isStr && !isOut(fi, i) {
						fi.outParams = append(fi.outParams, i)
						sort.Ints(fi.outParams)
						changed = true
					}
				}
			}
			ast.Inspect(fi.decl.Body, func(n ast.Node) bool {
				switch x := n.(type) {
				case *ast.AssignStmt:
					for _, l := range x.Lhs {
						if ie, ok := l.(*ast.IndexExpr); ok {
							mark(ie)
						}
					}
				case *ast.CallExpr:
					if id, ok := x.Fun.(*ast.Ident); ok {
						if id.Name == "copy" && len(x.Args) == 2 {
							if _, isB := fi.pkg.info.Uses[id].(*types.Builtin); isB {
								mark(x.Args[0])
							}
						}
						if callee, ok := T.byObj[fi.pkg.info.Uses[id]]; ok {
							for _, oi := range callee.outParams {
								if oi < len(x.Args) {
									mark(x.Args[oi])
								}
							}
						}
					}
				}
				return true
			})
		}
	}
	for _, fi := range T.funcs {
		if len(fi.outParams) == 0 {
			continue
		}
		res := gtype{k: kTuple}
		if fi.origRes.k == kTuple {
			res.elems = append(res.elems, fi.origRes.elems...)
		} else {
			res.elems = append(res.elems, fi.origRes)
		}
		for _, i := range fi.outParams {
			res.elems = append(res.elems, fi.params[i])
		}
		fi.result = res
	}
}

func (T *translator) body(fi *funcInfo) {
	t := &ftr{T: T, fi: fi, p: fi.pkg, names: map[types.Object]string{}}
	var params []string
	var plist []string
	idx := 0
	var fuelTerms []string
	if !fi.isTables {
		for _, f := range fi.decl.Type.Params.List {
			names := f.Names
			if len(names) == 0 {
				names = []*ast.Ident{nil}
			}
			for _, id := range names {
				pn := fmt.Sprintf("p%d", idx)
				if id != nil && id.Name != "_" {
					t.names[fi.pkg.info.Defs[id]] = pn
					t.locals = append(t.locals, pn+"="+id.Name)
				}
				params = append(params, fmt.Sprintf("(%s : %s)", pn, fi.params[idx].coq()))
				plist = append(plist, pn)
				if fi.params[idx].k == kBytes || fi.params[idx].k == kBools {
					fuelTerms = append(fuelTerms, "length "+pn)
				}
				idx++
			}
		}
	}
	if fi.decl.Body == nil {
		t.fail(fi.decl, "function without a body")
	}
	c := &cctx{ret: func(v string) string { return "GOk " + atom(v) }}
	k := cont{gen: func() string {
		t.fail(fi.decl.Body, "control reaches the end of the function without a return")
		return ""
	}}
	var bodyText string
	if fi.isTables {
		// the package-level tables are the locals of the initialiser; its result is their final value
		var tup []string
		var pre strings.Builder
		for _, o := range fi.tblVars {
			name := T.globals[o]
			t.names[o] = name
			tup = append(tup, name)
			pre.WriteString(fmt.Sprintf("let %s := %s in\n", name, t.globalInit(o)))
		}
		k = cont{gen: func() string { return "GOk " + tuple(tup) }, atomic: true}
		bodyText = pre.String() + t.stmts(fi.decl.Body.List, c, k)
		// outside the initialiser the tables are constants
		for _, o := range fi.tblVars {
			delete(t.names, o)
		}
	} else {
		bodyText = t.stmts(fi.decl.Body.List, c, k)
	}
	var b strings.Builder
	sig := types.ExprString(fi.decl.Type)
	fmt.Fprintf(&b, "(* %s: %s%s\n", fi.sf.File, fi.sf.Func, strings.TrimPrefix(sig, "func"))
	if len(fi.outParams) > 0 {
		var ops []string
		for _, i := range fi.outParams {
			ops = append(ops, fmt.Sprintf("p%d", i))
		}
		fmt.Fprintf(&b, "   the function writes through %s: its final value is returned as an extra component\n", strings.Join(ops, ", "))
	}
	if len(t.locals) > 0 {
		fmt.Fprintf(&b, "   names: %s *)\n", strings.Join(t.locals, " "))
	} else {
		fmt.Fprintf(&b, "   *)\n")
	}
	ps := strings.Join(params, " ")
	if ps != "" {
		ps = " " + ps
	}
	if fi.hasLoop {
		fmt.Fprintf(&b, "Definition %s_fuel (fuel : nat)%s : gres %s :=\n%s.\n\n", fi.name, ps, fi.result.coqAtom(), indent(bodyText, 2))
		fuel := fi.sf.Fuel
		if fuel == "" {
			fuel = strings.Join(append(fuelTerms, "2"), " + ")
		}
		args := strings.Join(plist, " ")
		if args != "" {
			args = " " + args
		}
		fmt.Fprintf(&b, "Definition %s%s : gres %s :=\n  %s_fuel (%s)%%nat%s.\n", fi.name, ps, fi.result.coqAtom(), fi.name, fuel, args)
	} else {
		fmt.Fprintf(&b, "Definition %s%s : gres %s :=\n%s.\n", fi.name, ps, fi.result.coqAtom(), indent(bodyText, 2))
	}
	if fi.isTables {
		// the tables as constants (the kernel evaluates the initialiser once)
		fmt.Fprintf(&b, "\nDefinition %s_value : gres %s := Eval vm_compute in %s.\n", fi.name, fi.result.coqAtom(), fi.name)
		for i, o := range fi.tblVars {
			proj := "x"
			if len(fi.tblVars) > 1 {
				pat := make([]string, len(fi.tblVars))
				for j := range pat {
					pat[j] = "_"
				}
				pat[i] = "x"
				proj = "let '" + tuple(pat) + " := r in x"
				fmt.Fprintf(&b, "Definition %s : %s :=\n  match %s_value with GOk r => %s | _ => [] end.\n", T.globals[o], t.gtypeOf(fi.decl, o.Type()).coq(), fi.name, proj)
			} else {
				fmt.Fprintf(&b, "Definition %s : %s :=\n  match %s_value with GOk x => x | _ => [] end.\n", T.globals[o], t.gtypeOf(fi.decl, o.Type()).coq(), fi.name)
			}
		}
	}
	fi.text = b.String()
}

// initial value of a package-level table: make([]T, n) with constant n
func (t *ftr) globalInit(o types.Object) string {
	for _, f := range t.p.files {
		for _, d := range f.Decls {
			gd, ok := d.(*ast.GenDecl)
			if !ok || gd.Tok != token.VAR {
				continue
			}
			for _, s := range gd.Specs {
				vs := s.(*ast.ValueSpec)
				for i, id := range vs.Names {
					if t.p.info.Defs[id] != o {
						continue
					}
					if i >= len(vs.Values) {
						t.fail(vs, "package-level table %s without an initialiser", id.Name)
					}
					return t.makeExpr(vs.Values[i])
				}
			}
		}
	}
	t.fail(t.fi.decl, "declaration of package-level variable %s not found", o.Name())
	return ""
}

// make([]T, n) with a constant n
func (t *ftr) makeExpr(e ast.Expr) string {
	call, ok := e.(*ast.CallExpr)
	if ok {
		if id, ok := call.Fun.(*ast.Ident); ok && id.Name == "make" && len(call.Args) == 2 {
			if _, isB := t.p.info.Uses[id].(*types.Builtin); isB {
				g := t.gtypeOf(e, t.p.info.Types[call.Args[0]].Type)
				tv := t.p.info.Types[call.Args[1]]
				if tv.Value != nil && tv.Value.Kind() == constant.Int {
					n, _ := constant.Int64Val(tv.Value)
					if n >= 0 && n <= 65536 {
						switch g.k {
						case kBools:
							return fmt.Sprintf("(repeat false %d)", n)
						case kBytes:
							return fmt.Sprintf("(repeat 0%%N %d)", n)
						}
					}
				}
			}
		}
	}
	t.fail(e, "initialiser %s (supported: make([]bool|[]byte, <constant>))", types.ExprString(e))
	return ""
}

// ---------------------------------------------------------------- text helpers

func indent(s string, n int) string {
	pad := strings.Repeat(" ", n)
	lines := strings.Split(s, "\n")
	for i, l := range lines {
		if l != "" {
			lines[i] = pad + l
		}
	}
	return strings.Join(lines, "\n")
}

func isAtom(s string) bool {
	depth := 0
	for _, r := range s {
		switch r {
		case '(', '[':
			depth++
		case ')', ']':
			depth--
		case ' ', '\n':
			if depth == 0 {
				return false
			}
		}
	}
	return true
}

func atom(s string) string {
	if isAtom(s) {
		return s
	}
	return "(" + s + ")"
}

func tuple(names []string) string {
	switch len(names) {
	case 0:
		return "tt"
	case 1:
		return names[0]
	}
	return "(" + strings.Join(names, ", ") + ")"
}

func renderBinds(bs []bind) string {
	var b strings.Builder
	for _, x := range bs {
		if strings.Contains(x.rhs, "\n") {
			fmt.Fprintf(&b, "%s <~ (\n%s) ;;\n", x.name, indent(x.rhs, 2))
		} else {
			fmt.Fprintf(&b, "%s <~ %s ;;\n", x.name, x.rhs)
		}
		if x.let != "" {
			fmt.Fprintf(&b, "let '%s := %s in\n", x.let, x.name)
		}
	}
	return b.String()
}

// ---------------------------------------------------------------- variables

func (t *ftr) declare(id *ast.Ident, g gtype) string {
	if id.Name == "_" {
		return "_"
	}
	o := t.p.info.Defs[id]
	if o == nil {
		t.fail(id, "identifier %s is not a new variable here", id.Name)
	}
	n := fmt.Sprintf("v%d", t.nlocal)
	t.nlocal++
	t.names[o] = n
	t.locals = append(t.locals, n+"="+id.Name)
	return n
}

func (t *ftr) temp() string {
	n := fmt.Sprintf("t%d", t.ntemp)
	t.ntemp++
	return n
}

func (t *ftr) varOf(id *ast.Ident) (string, types.Object) {
	o := t.p.info.Uses[id]
	if o == nil {
		o = t.p.info.Defs[id]
	}
	if o == nil {
		t.fail(id, "unresolved identifier %s", id.Name)
	}
	if n, ok := t.names[o]; ok {
		return n, o
	}
	if n, ok := t.T.globals[o]; ok && !t.fi.isTables {
		// a package-level table: a constant here (its initialiser is translated separately)
		for _, f := range t.T.funcs {
			if f.isTables {
				for _, v := range f.tblVars {
					if v == o {
						t.addCall(f)
					}
				}
			}
		}
		return n, o
	}
	t.fail(id, "identifier %s (not a parameter, a local variable or a declared table)", id.Name)
	return "", nil
}

func (t *ftr) addCall(f *funcInfo) {
	for _, c := range t.fi.calls {
		if c == f {
			return
		}
	}
	t.fi.calls = append(t.fi.calls, f)
}
