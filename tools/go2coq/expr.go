package main

import (
	"fmt"
	"go/ast"
	"go/constant"
	"go/token"
	"go/types"
	"strings"
)

// eval translates an expression in a fresh binding context: the operations that can panic (and calls)
// are bound to temporaries, left to right, and the value is a pure term over them.
func (t *ftr) eval(e ast.Expr) ([]bind, string, gtype) {
	saved := t.pre
	var bs []bind
	t.pre = &bs
	term, g := t.expr(e)
	t.pre = saved
	return bs, term, g
}

func (t *ftr) emit(rhs string) string {
	n := t.temp()
	*t.pre = append(*t.pre, bind{name: n, rhs: rhs})
	return n
}

func (t *ftr) constTerm(e ast.Expr, tv types.TypeAndValue) (string, gtype, bool) {
	if tv.Value == nil {
		return "", gtype{}, false
	}
	g := t.gtypeOf(e, tv.Type)
	switch g.k {
	case kInt, kByte, kUint, kInt32:
		v := constant.ToInt(tv.Value)
		if v.Kind() != constant.Int {
			t.fail(e, "non-integer constant %s", tv.Value.String())
		}
		s := v.ExactString()
		if g.k == kByte || g.k == kUint {
			return s + "%N", g, true
		}
		if strings.HasPrefix(s, "-") {
			return "(" + s + ")%Z", g, true
		}
		return s + "%Z", g, true
	case kBool:
		if constant.BoolVal(tv.Value) {
			return "true", g, true
		}
		return "false", g, true
	case kBytes:
		if tv.Value.Kind() != constant.String {
			t.fail(e, "constant %s", tv.Value.String())
		}
		return bytesLit(constant.StringVal(tv.Value)), g, true
	}
	t.fail(e, "constant of type %s", tv.Type.String())
	return "", g, false
}

func bytesLit(s string) string {
	if len(s) == 0 {
		return "(@nil N)"
	}
	parts := make([]string, len(s))
	for i := 0; i < len(s); i++ {
		parts[i] = fmt.Sprintf("%d", s[i])
	}
	return "[" + strings.Join(parts, "; ") + "]%N"
}

func (t *ftr) typeOf(e ast.Expr) gtype {
	tv, ok := t.p.info.Types[e]
	if !ok || tv.Type == nil || tv.Type == types.Typ[types.Invalid] {
		t.fail(e, "expression %s has no type (unresolved import or type error)", types.ExprString(e))
	}
	return t.gtypeOf(e, tv.Type)
}

func (t *ftr) expr(e ast.Expr) (string, gtype) {
	if tv, ok := t.p.info.Types[e]; ok && tv.Value != nil {
		if s, g, ok := t.constTerm(e, tv); ok {
			return s, g
		}
	}
	switch x := e.(type) {
	case *ast.ParenExpr:
		return t.expr(x.X)
	case *ast.Ident:
		if tv, ok := t.p.info.Types[e]; ok && tv.IsNil() {
			t.fail(e, "nil outside a comparison with / return of an error")
		}
		n, o := t.varOf(x)
		return n, t.gtypeOf(e, o.Type())
	case *ast.SelectorExpr:
		if id, ok := x.X.(*ast.Ident); ok {
			if pn, ok := t.p.info.Uses[id].(*types.PkgName); ok {
				if v, ok := t.T.sp.Constants[pn.Imported().Path()+"."+x.Sel.Name]; ok {
					if v < 0 {
						return fmt.Sprintf("(%d)%%Z", v), gtype{k: kInt}
					}
					return fmt.Sprintf("%d%%Z", v), gtype{k: kInt}
				}
				t.fail(e, "%s.%s (a constant of a package outside the standard library must be listed under \"constants\" in the spec)", pn.Imported().Path(), x.Sel.Name)
			}
		}
	case *ast.UnaryExpr:
		a, g := t.expr(x.X)
		switch {
		case x.Op == token.NOT && g.k == kBool:
			return "(negb " + a + ")", g
		case x.Op == token.SUB && g.k == kInt:
			return "(- " + a + ")%Z", g
		case x.Op == token.SUB && g.k == kByte:
			return "(byte_neg " + a + ")", g
		case x.Op == token.ADD && (g.k == kInt || g.k == kByte):
			return a, g
		}
		t.fail(e, "unary operator %s on %s", x.Op, g.coq())
	case *ast.BinaryExpr:
		return t.binary(x)
	case *ast.CallExpr:
		return t.call(x)
	case *ast.IndexExpr:
		s, gs := t.expr(x.X)
		i, gi := t.expr(x.Index)
		i = t.asIndex(x.Index, i, gi)
		switch gs.k {
		case kBytes:
			return t.emit("go_index " + s + " " + i), gtype{k: kByte}
		case kBools:
			return t.emit("go_index " + s + " " + i), gtype{k: kBool}
		}
		t.fail(e, "indexing a value of type %s", gs.coq())
	case *ast.SliceExpr:
		if x.Slice3 {
			t.fail(e, "3-index slice")
		}
		s, gs := t.expr(x.X)
		if gs.k != kBytes && gs.k != kBools {
			t.fail(e, "slicing a value of type %s", gs.coq())
		}
		var lo, hi string
		if x.Low != nil {
			l, g := t.expr(x.Low)
			lo = t.asIndex(x.Low, l, g)
		}
		if x.High != nil {
			h, g := t.expr(x.High)
			hi = t.asIndex(x.High, h, g)
		}
		switch {
		case x.Low != nil && x.High != nil:
			return t.emit("go_slice " + s + " " + lo + " " + hi), gs
		case x.Low != nil:
			return t.emit("go_slice_from " + s + " " + lo), gs
		case x.High != nil:
			return t.emit("go_slice_to " + s + " " + hi), gs
		}
		return s, gs
	}
	t.fail(e, "expression %s (%T)", types.ExprString(e), e)
	return "", gtype{}
}

func (t *ftr) asIndex(n ast.Node, term string, g gtype) string {
	switch g.k {
	case kInt:
		return term
	case kByte:
		return "(int_of_byte " + term + ")"
	}
	t.fail(n, "index of type %s", g.coq())
	return ""
}

// operand type of a comparison / arithmetic operation: the typed side decides
func (t *ftr) operandType(x *ast.BinaryExpr) gtype {
	tx, okx := t.p.info.Types[x.X]
	ty, oky := t.p.info.Types[x.Y]
	isUntyped := func(tv types.TypeAndValue) bool {
		b, ok := tv.Type.(*types.Basic)
		return ok && (b.Info()&types.IsUntyped != 0 || b.Kind() == types.Invalid)
	}
	if okx && tx.Type != nil && !isUntyped(tx) {
		return t.gtypeOf(x.X, tx.Type)
	}
	if oky && ty.Type != nil && !isUntyped(ty) {
		return t.gtypeOf(x.Y, ty.Type)
	}
	if okx && tx.Type != nil {
		return t.gtypeOf(x.X, tx.Type)
	}
	t.fail(x, "cannot type the operands of %s", types.ExprString(x))
	return gtype{}
}

func (t *ftr) isNil(e ast.Expr) bool {
	tv, ok := t.p.info.Types[e]
	return ok && tv.IsNil()
}

func (t *ftr) binary(x *ast.BinaryExpr) (string, gtype) {
	gb := gtype{k: kBool}
	switch x.Op {
	case token.LAND, token.LOR:
		a, ga := t.expr(x.X)
		if ga.k != kBool {
			t.fail(x.X, "operand of %s is not a bool", x.Op)
		}
		// the right operand is evaluated only if the left one does not decide
		before := t.rebinds
		bs, b, gbb := t.eval(x.Y)
		if t.rebinds != before {
			t.fail(x.Y, "call that writes through an argument in the right operand of %s", x.Op)
		}
		if gbb.k != kBool {
			t.fail(x.Y, "operand of %s is not a bool", x.Op)
		}
		if len(bs) == 0 {
			if x.Op == token.LAND {
				return "(" + a + " && " + b + ")%bool", gb
			}
			return "(" + a + " || " + b + ")%bool", gb
		}
		inner := renderBinds(bs) + "GOk " + atom(b)
		var rhs string
		if x.Op == token.LAND {
			rhs = "if " + a + " then\n" + indent(inner, 2) + "\nelse GOk false"
		} else {
			rhs = "if " + a + " then GOk true else\n" + indent(inner, 2)
		}
		return t.emit(rhs), gb
	}
	// comparisons with nil (errors)
	if (x.Op == token.EQL || x.Op == token.NEQ) && (t.isNil(x.X) || t.isNil(x.Y)) {
		other := x.X
		if t.isNil(x.X) {
			other = x.Y
		}
		a, g := t.expr(other)
		if g.k != kErr {
			t.fail(x, "comparison of a %s with nil", g.coq())
		}
		if x.Op == token.EQL {
			return "(goerror_is_nil " + a + ")", gb
		}
		return "(negb (goerror_is_nil " + a + "))", gb
	}
	a, _ := t.expr(x.X)
	b, _ := t.expr(x.Y)
	g := t.operandType(x)
	sc := map[kind]string{kInt: "%Z", kByte: "%N", kUint: "%N", kInt32: "%Z"}[g.k]
	switch x.Op {
	case token.EQL, token.NEQ:
		var s string
		switch g.k {
		case kInt, kByte, kUint, kInt32:
			s = "(" + a + " =? " + b + ")" + sc
		case kBool:
			s = "(Bool.eqb " + a + " " + b + ")"
		case kBytes:
			s = "(go_str_eqb " + a + " " + b + ")"
		default:
			t.fail(x, "== on %s", g.coq())
		}
		if x.Op == token.NEQ {
			return "(negb " + s + ")", gb
		}
		return s, gb
	case token.LSS, token.LEQ, token.GTR, token.GEQ:
		if g.k != kInt && g.k != kByte && g.k != kUint && g.k != kInt32 {
			t.fail(x, "ordering on %s", g.coq())
		}
		switch x.Op {
		case token.LSS:
			return "(" + a + " <? " + b + ")" + sc, gb
		case token.LEQ:
			return "(" + a + " <=? " + b + ")" + sc, gb
		case token.GTR:
			return "(" + b + " <? " + a + ")" + sc, gb
		default:
			return "(" + b + " <=? " + a + ")" + sc, gb
		}
	}
	return t.arith(x, x.Op, a, b, g, x.Y), g
}

// arithmetic a op b on operands of type g (y: the right operand's syntax, for constant shift counts/divisors)
func (t *ftr) arith(n ast.Node, op token.Token, a, b string, g gtype, y ast.Expr) string {
	constY := func() (int64, bool) {
		if y == nil {
			return 0, false
		}
		tv, ok := t.p.info.Types[y]
		if !ok || tv.Value == nil {
			return 0, false
		}
		v := constant.ToInt(tv.Value)
		if v.Kind() != constant.Int {
			return 0, false
		}
		return constant.Int64Val(v)
	}
	switch g.k {
	case kInt:
		switch op {
		case token.ADD:
			return "(" + a + " + " + b + ")%Z"
		case token.SUB:
			return "(" + a + " - " + b + ")%Z"
		case token.MUL:
			return "(" + a + " * " + b + ")%Z"
		case token.QUO:
			if c, ok := constY(); ok && c != 0 {
				return "(Z.quot " + a + " " + b + ")"
			}
			return t.emit("go_div " + a + " " + b)
		case token.REM:
			if c, ok := constY(); ok && c != 0 {
				return "(Z.rem " + a + " " + b + ")"
			}
			return t.emit("go_rem " + a + " " + b)
		case token.AND:
			return "(Z.land " + a + " " + b + ")"
		case token.OR:
			return "(Z.lor " + a + " " + b + ")"
		case token.XOR:
			return "(Z.lxor " + a + " " + b + ")"
		case token.SHL, token.SHR:
			c, ok := constY()
			if !ok || c < 0 {
				t.fail(n, "shift by a non-constant count")
			}
			if op == token.SHL {
				return fmt.Sprintf("(Z.shiftl %s %d%%Z)", a, c)
			}
			return fmt.Sprintf("(Z.shiftr %s %d%%Z)", a, c)
		}
	case kByte:
		switch op {
		case token.ADD:
			return "(byte_add " + a + " " + b + ")"
		case token.SUB:
			return "(byte_sub " + a + " " + b + ")"
		case token.MUL:
			return "(byte_mul " + a + " " + b + ")"
		case token.AND:
			return "(N.land " + a + " " + b + ")"
		case token.OR:
			return "(N.lor " + a + " " + b + ")"
		case token.XOR:
			return "(N.lxor " + a + " " + b + ")"
		case token.SHL, token.SHR:
			c, ok := constY()
			if !ok || c < 0 {
				t.fail(n, "shift by a non-constant count")
			}
			if op == token.SHL {
				return fmt.Sprintf("((N.shiftl %s %d%%N) mod 256)%%N", a, c)
			}
			return fmt.Sprintf("(N.shiftr %s %d%%N)", a, c)
		}
	case kUint:
		w := fmt.Sprintf("%d%%N", g.w)
		switch op {
		case token.ADD:
			return "(uint_wrap " + w + " (" + a + " + " + b + ")%N)"
		case token.SUB:
			return "(uint_wrap " + w + " (" + a + " + 2 ^ " + w + " - " + b + ")%N)"
		case token.MUL:
			return "(uint_wrap " + w + " (" + a + " * " + b + ")%N)"
		case token.AND:
			return "(N.land " + a + " " + b + ")"
		case token.OR:
			return "(N.lor " + a + " " + b + ")"
		case token.XOR:
			return "(N.lxor " + a + " " + b + ")"
		case token.SHL, token.SHR:
			c, ok := constY()
			if !ok || c < 0 {
				t.fail(n, "shift by a non-constant count")
			}
			if op == token.SHL {
				return fmt.Sprintf("(uint_wrap %s (N.shiftl %s %d%%N))", w, a, c)
			}
			return fmt.Sprintf("(N.shiftr %s %d%%N)", a, c)
		}
	case kBytes:
		if op == token.ADD {
			return "(go_append " + a + " " + b + ")"
		}
	}
	t.fail(n, "operator %s on %s", op, g.coq())
	return ""
}

func (t *ftr) call(x *ast.CallExpr) (string, gtype) {
	info := t.p.info
	// conversions
	if tv, ok := info.Types[x.Fun]; ok && tv.IsType() {
		if len(x.Args) != 1 {
			t.fail(x, "conversion with %d arguments", len(x.Args))
		}
		to := t.gtypeOf(x.Fun, tv.Type)
		a, from := t.expr(x.Args[0])
		switch {
		case to.k == from.k && to.w == from.w:
			return a, to
		case to.k == kInt && from.k == kByte:
			return "(int_of_byte " + a + ")", to
		case to.k == kByte && from.k == kInt:
			return "(byte_of_int " + a + ")", to
		case to.k == kUint && (from.k == kInt || from.k == kInt32):
			return fmt.Sprintf("(uint_of_int %d%%N %s)", to.w, a), to
		case to.k == kUint && (from.k == kByte || from.k == kUint):
			return fmt.Sprintf("(uint_wrap %d%%N %s)", to.w, a), to
		case to.k == kByte && from.k == kUint:
			return "(uint_wrap 8%N " + a + ")", to
		case to.k == kInt && from.k == kUint && from.w < 64:
			return "(Z.of_N " + a + ")", to
		}
		t.fail(x, "conversion from %s to %s", from.coq(), to.coq())
	}
	switch f := x.Fun.(type) {
	case *ast.Ident:
		o := info.Uses[f]
		if b, ok := o.(*types.Builtin); ok {
			switch b.Name() {
			case "len":
				a, g := t.expr(x.Args[0])
				if g.k != kBytes && g.k != kBools {
					t.fail(x, "len of %s", g.coq())
				}
				return "(go_len " + a + ")", gtype{k: kInt}
			case "append":
				if len(x.Args) == 2 && x.Ellipsis.IsValid() {
					a, ga := t.expr(x.Args[0])
					b2, g2 := t.expr(x.Args[1])
					if ga.k == kBytes && g2.k == kBytes {
						return "(go_append " + a + " " + b2 + ")", ga
					}
				} else if len(x.Args) >= 2 && !x.Ellipsis.IsValid() {
					a, ga := t.expr(x.Args[0])
					if ga.k == kBytes {
						var els []string
						for _, e := range x.Args[1:] {
							s, g := t.expr(e)
							if g.k != kByte {
								t.fail(e, "append of a %s to a []byte", g.coq())
							}
							els = append(els, s)
						}
						return "(go_append " + a + " [" + strings.Join(els, "; ") + "])", ga
					}
				}
				t.fail(x, "this form of append (supported: append([]byte, x...), append([]byte, b1, b2, ...))")
			case "make":
				return t.makeCall(x)
			}
			t.fail(x, "builtin %s", b.Name())
		}
		if fn, ok := o.(*types.Func); ok && fn.Pkg() != nil && strings.HasSuffix(fn.Pkg().Path(), "util") &&
			(fn.Name() == "StringFromBytes" || fn.Name() == "BytesFromString") && t.T.byObj[o] == nil && len(x.Args) == 1 {
			// zero-copy casts between []byte and string (called inside package util): identity on list N
			return t.expr(x.Args[0])
		}
		if fi, ok := t.T.byObj[o]; ok {
			t.addCall(fi)
			if len(x.Args) != len(fi.params) {
				t.fail(x, "call of %s with %d arguments", f.Name, len(x.Args))
			}
			if x.Ellipsis.IsValid() {
				t.fail(x, "variadic call")
			}
			parts := []string{fi.name}
			var outNames []string
			for i, a := range x.Args {
				s, g := t.expr(a)
				if g.k != fi.params[i].k {
					t.fail(a, "argument %d of %s has type %s, expected %s", i, f.Name, g.coq(), fi.params[i].coq())
				}
				for _, oi := range fi.outParams {
					if oi == i {
						aid, ok := a.(*ast.Ident)
						if !ok {
							t.fail(a, "argument %d of %s is written through by the callee: it must be a variable (not %s)", i, f.Name, types.ExprString(a))
						}
						n, _ := t.varOf(aid)
						outNames = append(outNames, n)
					}
				}
				parts = append(parts, s)
			}
			if len(fi.outParams) == 0 {
				return t.emit(strings.Join(parts, " ")), fi.result
			}
			// results first, then the written-through arguments, re-bound under their own names
			tmp := t.temp()
			var resNames []string
			nres := 1
			if fi.origRes.k == kTuple {
				nres = len(fi.origRes.elems)
			}
			for i := 0; i < nres; i++ {
				resNames = append(resNames, t.temp())
			}
			*t.pre = append(*t.pre, bind{name: tmp, rhs: strings.Join(parts, " "), let: tuple(append(append([]string{}, resNames...), outNames...))})
			t.rebinds++
			return tuple(resNames), fi.origRes
		}
		t.fail(x, "call of %s (not a function of this spec)", f.Name)
	case *ast.SelectorExpr:
		if id, ok := f.X.(*ast.Ident); ok {
			if pn, ok := info.Uses[id].(*types.PkgName); ok {
				path := pn.Imported().Path()
				switch path + "." + f.Sel.Name {
				case "fmt.Errorf", "errors.New":
					// the arguments are evaluated (they may panic) and dropped: only nil / non-nil is represented
					for _, a := range x.Args {
						t.expr(a)
					}
					return "ErrSome", gtype{k: kErr}
				case "strings.IndexByte", "bytes.IndexByte":
					s, gs := t.expr(x.Args[0])
					c, gc := t.expr(x.Args[1])
					if gs.k != kBytes || gc.k != kByte {
						t.fail(x, "arguments of %s.%s", path, f.Sel.Name)
					}
					return "(go_index_byte " + s + " " + c + ")", gtype{k: kInt}
				case "github.com/relex/slog-agent/util.StringFromBytes", "github.com/relex/slog-agent/util.BytesFromString":
					// zero-copy casts between []byte and string: identity on list N (aliasing is not represented)
					return t.expr(x.Args[0])
				}
				for _, ex := range t.T.sp.Externals {
					if ex.Func != path+"."+f.Sel.Name {
						continue
					}
					if len(ex.Params) != len(x.Args) {
						t.fail(x, "external %s declared with %d parameters, called with %d", ex.Func, len(ex.Params), len(x.Args))
					}
					parts := []string{ex.Coq}
					for i, a := range x.Args {
						s, g := t.expr(a)
						if kindName(g) != ex.Params[i] {
							t.fail(a, "argument %d of external %s has type %s, declared %s", i, ex.Func, g.coq(), ex.Params[i])
						}
						parts = append(parts, s)
					}
					for _, k := range []kind{kInt, kByte, kBool, kBytes, kErr, kBools} {
						if kindName(gtype{k: k}) == ex.Result {
							return t.emit(strings.Join(parts, " ")), gtype{k: k}
						}
					}
					t.fail(x, "external %s: unknown result kind %q", ex.Func, ex.Result)
				}
				t.fail(x, "call of %s.%s (no model of this library function)", path, f.Sel.Name)
			}
		}
	}
	t.fail(x, "call %s", types.ExprString(x.Fun))
	return "", gtype{}
}

// make([]byte, n) / make([]byte, 0, cap) : capacity is not represented
func (t *ftr) makeCall(x *ast.CallExpr) (string, gtype) {
	if len(x.Args) < 2 {
		t.fail(x, "make with %d arguments", len(x.Args))
	}
	g := t.gtypeOf(x, t.p.info.Types[x.Args[0]].Type)
	tv := t.p.info.Types[x.Args[1]]
	if tv.Value != nil {
		if n, ok := constant.Int64Val(constant.ToInt(tv.Value)); ok && n >= 0 && n <= 65536 {
			if len(x.Args) == 3 {
				// the capacity expression is evaluated for its panics only
				t.expr(x.Args[2])
			}
			switch g.k {
			case kBytes:
				if n == 0 {
					return "(@nil N)", g
				}
				return fmt.Sprintf("(repeat 0%%N %d)", n), g
			case kBools:
				if n == 0 {
					return "(@nil bool)", g
				}
				return fmt.Sprintf("(repeat false %d)", n), g
			}
		}
	}
	t.fail(x, "make with a non-constant length")
	return "", g
}
