package main

// Differential self-test of the translator + GoSem.v (the trusted part) against the real Go compiler:
// go2coq -selftest <dir> writes into <dir> a Go program made of the SOURCE TEXT of the spec's functions
// (printed from the same syntax trees the translation starts from) and a driver that runs each of them on
// boundary-biased inputs (under recover) and prints a Coq file in which the GENERATED Gallina function is
// evaluated on the same inputs by vm_compute and must give the same results (values, panics by kind).

import (
	"bytes"
	"fmt"
	"go/ast"
	"go/constant"
	"go/printer"
	"go/token"
	"go/types"
	"os"
	"path/filepath"
	"sort"
	"strings"
)

func kindName(g gtype) string {
	switch g.k {
	case kInt:
		return "int"
	case kByte:
		return "byte"
	case kBool:
		return "bool"
	case kBytes:
		return "bytes"
	case kErr:
		return "err"
	case kBools:
		return "bools"
	case kUint:
		return fmt.Sprintf("u%d", g.w)
	case kInt32:
		return "i32"
	}
	return "?"
}

func emitSelftest(repo string, sp *spec, dir string) (err error) {
	defer func() {
		if r := recover(); r != nil {
			if u, ok := r.(unsupported); ok {
				err = u
				return
			}
			panic(r)
		}
	}()
	// reuse the front end: load and type-check exactly as for the translation
	T := &translator{repo: repo, pkgs: map[string]*pkgInfo{}, byObj: map[types.Object]*funcInfo{}, globals: map[types.Object]string{}, sp: sp}
	var subj bytes.Buffer
	imports := map[string]string{} // path -> name
	var drv bytes.Buffer
	var mainCalls []string
	emitted := map[string]bool{}
	skipped := []string{}

	load := func(file string) *pkgInfo {
		d := filepath.ToSlash(filepath.Dir(file))
		p := T.pkgs[d]
		if p == nil {
			var e error
			p, e = loadPackage(repo, d)
			if e != nil {
				panic(unsupported{e.Error()})
			}
			T.pkgs[d] = p
		}
		return p
	}
	findDecl := func(p *pkgInfo, file, fn string) *ast.FuncDecl {
		f := p.files[filepath.ToSlash(file)]
		if f == nil {
			panic(unsupported{file + ": not found"})
		}
		for _, d := range f.Decls {
			if fd, ok := d.(*ast.FuncDecl); ok && fd.Name.Name == fn && fd.Recv == nil {
				return fd
			}
		}
		panic(unsupported{file + ": " + fn + " not found"})
	}
	// imports used by a declaration; false if one is outside the standard library
	usesOnlyStd := func(p *pkgInfo, n ast.Node) bool {
		ok := true
		// the zero-copy casts of slog-agent/util are ordinary conversions here (the translation treats them as the
		// identity on list N; aliasing is not represented on either side)
		// constants listed in the spec (packages outside the standard library) become literals
		lit := func(e ast.Expr) ast.Expr {
			if sel, isSel := e.(*ast.SelectorExpr); isSel {
				if id, isId := sel.X.(*ast.Ident); isId {
					if pn, isPkg := p.info.Uses[id].(*types.PkgName); isPkg {
						if v, has := sp.Constants[pn.Imported().Path()+"."+sel.Sel.Name]; has {
							return &ast.BasicLit{ValuePos: e.Pos(), Kind: token.INT, Value: fmt.Sprint(v)}
						}
					}
				}
			}
			return e
		}
		ast.Inspect(n, func(n ast.Node) bool {
			switch x := n.(type) {
			case *ast.CallExpr:
				for i := range x.Args {
					x.Args[i] = lit(x.Args[i])
				}
			case *ast.BinaryExpr:
				x.X, x.Y = lit(x.X), lit(x.Y)
			case *ast.AssignStmt:
				for i := range x.Rhs {
					x.Rhs[i] = lit(x.Rhs[i])
				}
			case *ast.ReturnStmt:
				for i := range x.Results {
					x.Results[i] = lit(x.Results[i])
				}
			}
			return true
		})
		ast.Inspect(n, func(n ast.Node) bool {
			// calls listed in ignore_calls (logging) are dropped, as in the translation
			if blk, isBlk := n.(*ast.BlockStmt); isBlk {
				for i, st := range blk.List {
					if es, isEs := st.(*ast.ExprStmt); isEs {
						if call, isCall := es.X.(*ast.CallExpr); isCall {
							if sel, isSel := call.Fun.(*ast.SelectorExpr); isSel {
								if id, isId := sel.X.(*ast.Ident); isId {
									if pn, isPkg := p.info.Uses[id].(*types.PkgName); isPkg {
										for _, ic := range sp.IgnoreCalls {
											if ic == pn.Imported().Path()+"."+sel.Sel.Name {
												blk.List[i] = &ast.EmptyStmt{Semicolon: st.Pos(), Implicit: false}
											}
										}
									}
								}
							}
						}
					}
				}
			}
			if call, isCall := n.(*ast.CallExpr); isCall {
				if id, isId := call.Fun.(*ast.Ident); isId && len(call.Args) == 1 {
					if fn, isFn := p.info.Uses[id].(*types.Func); isFn && fn.Pkg() != nil && strings.HasSuffix(fn.Pkg().Path(), "util") {
						switch fn.Name() {
						case "StringFromBytes":
							call.Fun = &ast.Ident{Name: "string", NamePos: call.Pos()}
						case "BytesFromString":
							call.Fun = &ast.ArrayType{Lbrack: call.Pos(), Elt: &ast.Ident{Name: "byte"}}
						}
					}
				}
				if sel, isSel := call.Fun.(*ast.SelectorExpr); isSel {
					if id, isId := sel.X.(*ast.Ident); isId {
						if pn, isPkg := p.info.Uses[id].(*types.PkgName); isPkg && pn.Imported().Path() == "github.com/relex/slog-agent/util" {
							switch sel.Sel.Name {
							case "StringFromBytes":
								call.Fun = &ast.Ident{Name: "string", NamePos: call.Pos()}
							case "BytesFromString":
								call.Fun = &ast.ArrayType{Lbrack: call.Pos(), Elt: &ast.Ident{Name: "byte"}}
							}
						}
					}
				}
			}
			return true
		})
		ast.Inspect(n, func(n ast.Node) bool {
			if id, isId := n.(*ast.Ident); isId {
				if pn, isPkg := p.info.Uses[id].(*types.PkgName); isPkg {
					path := pn.Imported().Path()
					if strings.Contains(strings.Split(path, "/")[0], ".") {
						ok = false
					} else {
						imports[path] = pn.Name()
					}
				}
			}
			return true
		})
		return ok
	}
	printNode := func(p *pkgInfo, n ast.Node) {
		printer.Fprint(&subj, p.fset, n)
		subj.WriteString("\n\n")
	}
	for _, tb := range sp.Tables {
		p := load(tb.File)
		fd := findDecl(p, tb.File, tb.Init)
		usesOnlyStd(p, fd)
		// the var declarations of the tables
		for _, f := range p.files {
			for _, d := range f.Decls {
				gd, ok := d.(*ast.GenDecl)
				if !ok || gd.Tok != token.VAR {
					continue
				}
				for _, s := range gd.Specs {
					vs := s.(*ast.ValueSpec)
					for i, id := range vs.Names {
						for _, v := range tb.Vars {
							if id.Name == v && i < len(vs.Values) {
								fmt.Fprintf(&subj, "var %s = ", v)
								printer.Fprint(&subj, p.fset, vs.Values[i])
								subj.WriteString("\n")
							}
						}
					}
				}
			}
		}
		printNode(p, fd)
	}
	fis := map[string]*funcInfo{}
	for _, sf := range sp.Functions {
		p := load(sf.File)
		fd := findDecl(p, sf.File, sf.Func)
		fi := &funcInfo{sf: sf, pkg: p, decl: fd, name: sf.Func}
		fi.obj = p.info.Defs[fd.Name]
		T.signature(fi)
		T.funcs = append(T.funcs, fi)
		T.byObj[fi.obj] = fi
		fis[sf.File+":"+sf.Func] = fi
	}
	T.computeOutParams()
	for _, sf := range sp.Functions {
		p := load(sf.File)
		fd := findDecl(p, sf.File, sf.Func)
		fi := fis[sf.File+":"+sf.Func]
		if !usesOnlyStd(p, fd) {
			skipped = append(skipped, sf.Func)
			// still part of the program if others call it? a non-std import cannot be compiled here: leave it out
			continue
		}
		printNode(p, fd)
		emitted[sf.Func] = true

		// constants of the function: the alphabet / interesting integers of the generator
		consts := map[int64]bool{}
		ast.Inspect(fd, func(n ast.Node) bool {
			if e, ok := n.(ast.Expr); ok {
				if tv, ok := p.info.Types[e]; ok && tv.Value != nil && (tv.Value.Kind() == constant.Int) {
					if v, ok := constant.Int64Val(tv.Value); ok && v >= -1024 && v <= 1024 {
						consts[v] = true
					}
				}
			}
			return true
		})
		var cl []int64
		for v := range consts {
			cl = append(cl, v)
		}
		sort.Slice(cl, func(i, j int) bool { return cl[i] < cl[j] })

		// wrapper: run under recover, print the result as a Coq term
		var params, args, kinds, pre []string
		idx := 0
		for _, f := range fd.Type.Params.List {
			n := len(f.Names)
			if n == 0 {
				n = 1
			}
			for i := 0; i < n; i++ {
				g := fi.params[idx]
				var conv string
				switch g.k {
				case kBytes:
					if b, ok := p.info.Types[f.Type].Type.Underlying().(*types.Basic); ok && b.Kind() == types.String {
						conv = fmt.Sprintf("string(a[%d].b)", idx)
					} else {
						conv = fmt.Sprintf("append([]byte(nil), a[%d].b...)", idx)
						for _, oi := range fi.outParams {
							if oi == idx {
								pre = append(pre, fmt.Sprintf("\tb%d := append([]byte(nil), a[%d].b...)\n", idx, idx))
								conv = fmt.Sprintf("b%d", idx)
							}
						}
					}
				case kInt:
					conv = fmt.Sprintf("int(a[%d].i)", idx)
				case kByte:
					conv = fmt.Sprintf("byte(a[%d].i)", idx)
				case kBool:
					conv = fmt.Sprintf("a[%d].i != 0", idx)
				case kUint:
					conv = fmt.Sprintf("uint%d(a[%d].i)", g.w, idx)
				case kInt32:
					conv = fmt.Sprintf("int32(a[%d].i)", idx)
				default:
					panic(unsupported{sf.Func + ": self-test of a parameter of type " + g.coq()})
				}
				args = append(args, conv)
				kinds = append(kinds, fmt.Sprintf("%q", kindName(g)))
				params = append(params, g.coq())
				idx++
			}
		}
		res := []gtype{fi.origRes}
		if fi.origRes.k == kTuple {
			res = fi.origRes.elems
		}
		var rv, show []string
		for i, g := range res {
			rv = append(rv, fmt.Sprintf("r%d", i))
			switch g.k {
			case kInt:
				show = append(show, fmt.Sprintf("coqInt(int64(r%d))", i))
			case kByte:
				show = append(show, fmt.Sprintf("coqByte(r%d)", i))
			case kBool:
				show = append(show, fmt.Sprintf("coqBool(r%d)", i))
			case kBytes:
				show = append(show, fmt.Sprintf("coqBytes([]byte(r%d))", i))
			case kErr:
				show = append(show, fmt.Sprintf("coqErr(r%d)", i))
			default:
				panic(unsupported{sf.Func + ": self-test of a result of type " + g.coq()})
			}
		}
		for _, oi := range fi.outParams {
			show = append(show, fmt.Sprintf("coqBytes(b%d)", oi))
		}
		showExpr := show[0]
		if len(show) > 1 {
			showExpr = `"(" + ` + strings.Join(show, ` + ", " + `) + ` + ")"`
		}
		fmt.Fprintf(&drv, "func run_%s(a []arg) (res string) {\n\tdefer func() {\n\t\tif r := recover(); r != nil {\n\t\t\tres = panicTerm(r)\n\t\t}\n\t}()\n", sf.Func)
		drv.WriteString(strings.Join(pre, ""))
		fmt.Fprintf(&drv, "\t%s := %s(%s)\n\treturn \"GOk \" + paren(%s)\n}\n\n", strings.Join(rv, ", "), sf.Func, strings.Join(args, ", "), showExpr)
		var cs []string
		for _, v := range cl {
			cs = append(cs, fmt.Sprint(v))
		}
		var seeds []string
		for _, s := range sf.Seeds {
			seeds = append(seeds, fmt.Sprintf("%q", s))
		}
		fmt.Fprintf(&drv, "func test_%s(w *bufio.Writer) {\n\temitCases(w, %q, %q, []string{%s}, []string{%s}, %q, []int64{%s}, []string{%s}, run_%s)\n}\n\n",
			sf.Func, sp.Module, sf.Func, strings.Join(kinds, ", "), quoteAll(params), fi.result.coq(), strings.Join(cs, ", "), strings.Join(seeds, ", "), sf.Func)
		mainCalls = append(mainCalls, "test_"+sf.Func)
	}
	// a function that calls a skipped one cannot be compiled either
	for _, s := range skipped {
		fmt.Fprintf(os.Stderr, "go2coq selftest: %s is left out (it needs a package outside the standard library)\n", s)
	}

	if err := os.MkdirAll(dir, 0o755); err != nil {
		return err
	}
	var head bytes.Buffer
	head.WriteString("// GENERATED by go2coq -selftest: the source text of the functions under translation\npackage main\n\n")
	var paths []string
	for p := range imports {
		paths = append(paths, p)
	}
	sort.Strings(paths)
	if len(paths) > 0 {
		head.WriteString("import (\n")
		for _, p := range paths {
			fmt.Fprintf(&head, "\t%s %q\n", imports[p], p)
		}
		head.WriteString(")\n\n")
	}
	if err := os.WriteFile(filepath.Join(dir, "subject.go"), append(head.Bytes(), subj.Bytes()...), 0o644); err != nil {
		return err
	}
	var m bytes.Buffer
	m.WriteString(selftestRuntime)
	m.Write(drv.Bytes())
	m.WriteString("func main() {\n\tw := bufio.NewWriter(os.Stdout)\n\tdefer w.Flush()\n")
	fmt.Fprintf(&m, "\tfmt.Fprintln(w, \"From SV Require Import Model.Common Model.GoSem Gen.%s.\")\n", sp.Module)
	for _, c := range mainCalls {
		fmt.Fprintf(&m, "\t%s(w)\n", c)
	}
	m.WriteString("}\n")
	if err := os.WriteFile(filepath.Join(dir, "main.go"), m.Bytes(), 0o644); err != nil {
		return err
	}
	return os.WriteFile(filepath.Join(dir, "go.mod"), []byte("module selftest\n\ngo 1.21\n"), 0o644)
}

func quoteAll(l []string) string {
	var o []string
	for _, s := range l {
		o = append(o, fmt.Sprintf("%q", s))
	}
	return strings.Join(o, ", ")
}

const selftestRuntime = `// GENERATED by go2coq -selftest: driver
package main

import (
	"bufio"
	"fmt"
	"os"
	"strings"
)

type arg struct {
	b []byte
	i int64
}

func paren(s string) string {
	if strings.ContainsAny(s, " ") && !strings.HasPrefix(s, "(") && !strings.HasPrefix(s, "[") {
		return "(" + s + ")"
	}
	return s
}
func coqInt(v int64) string  { return fmt.Sprintf("(%d)%%Z", v) }
func coqByte(v byte) string  { return fmt.Sprintf("%d%%N", v) }
func coqBool(v bool) string  { return fmt.Sprint(v) }
func coqErr(e error) string {
	if e == nil {
		return "ErrNil"
	}
	return "ErrSome"
}
func coqBytes(b []byte) string {
	if len(b) == 0 {
		return "(@nil N)"
	}
	p := make([]string, len(b))
	for i, c := range b {
		p[i] = fmt.Sprint(c)
	}
	return "[" + strings.Join(p, ";") + "]%N"
}
func panicTerm(r interface{}) string {
	msg := fmt.Sprint(r)
	if e, ok := r.(error); ok {
		msg = e.Error()
	}
	switch {
	case strings.Contains(msg, "index out of range"):
		return "GPanic 1%N"
	case strings.Contains(msg, "slice bounds out of range"):
		return "GPanic 2%N"
	case strings.Contains(msg, "divide by zero"):
		return "GPanic 3%N"
	}
	return "GPanic 4%N"
}

type rng struct{ s uint64 }

func (r *rng) next() uint64 {
	r.s += 0x9e3779b97f4a7c15
	z := r.s
	z = (z ^ (z >> 30)) * 0xbf58476d1ce4e5b9
	z = (z ^ (z >> 27)) * 0x94d049bb133111eb
	return z ^ (z >> 31)
}
func (r *rng) n(k int) int { return int(r.next() % uint64(k)) }

// boundary-biased inputs: the alphabet is made of the constants of the function and their neighbours
func emitCases(w *bufio.Writer, module, fn string, kinds, ptypes []string, rtype string, consts []int64, seeds []string, run func([]arg) string) {
	r := &rng{s: 12345}
	var alpha []byte
	seen := map[byte]bool{}
	addb := func(v int64) {
		if v >= 0 && v <= 255 && !seen[byte(v)] {
			seen[byte(v)] = true
			alpha = append(alpha, byte(v))
		}
	}
	ints := []int64{-2, -1, 0, 1, 2, 3, 7, 15, 16, 31, 32, 255, 256, 65535, 65536, 1<<31 - 1, 1 << 31, 1<<32 - 1, 1 << 32, 0x0102030405060708}
	for _, c := range consts {
		addb(c - 1)
		addb(c)
		addb(c + 1)
		ints = append(ints, c-1, c, c+1)
	}
	for _, c := range []int64{0, 'a', 'Z', '5', 127, 128, 255} {
		addb(c)
	}
	lens := []int{0, 1, 2, 3, 4, 5, 6, 8, 9, 10, 11, 12, 20}
	for _, c := range consts {
		if c >= 0 && c <= 64 {
			lens = append(lens, int(c)-1, int(c), int(c)+1, int(c)+2)
		}
	}
	randBytes := func() []byte {
		n := lens[r.n(len(lens))]
		if n < 0 {
			n = 0
		}
		b := make([]byte, n)
		for i := range b {
			b[i] = alpha[r.n(len(alpha))]
		}
		return b
	}
	var cases [][]arg
	dedup := map[string]bool{}
	add := func(c []arg) {
		k := fmt.Sprint(c)
		if !dedup[k] {
			dedup[k] = true
			cases = append(cases, c)
		}
	}
	gen := func(seed []byte) []arg {
		c := make([]arg, len(kinds))
		usedSeed := false
		var lastLen int
		for i, k := range kinds {
			switch k {
			case "bytes":
				if seed != nil && !usedSeed {
					c[i].b = seed
					usedSeed = true
				} else {
					c[i].b = randBytes()
				}
				lastLen = len(c[i].b)
			case "int":
				switch r.n(3) {
				case 0:
					c[i].i = ints[r.n(len(ints))]
				case 1:
					c[i].i = int64(lastLen + r.n(5) - 2)
				default:
					c[i].i = int64(r.n(lastLen + 1))
				}
			case "byte":
				c[i].i = int64(alpha[r.n(len(alpha))])
			case "bool":
				c[i].i = int64(r.n(2))
			case "u16", "u32", "u64", "i32":
				c[i].i = ints[r.n(len(ints))]
			}
		}
		return c
	}
	for i := 0; i < 250; i++ {
		add(gen(nil))
	}
	// around the seeds: every single-byte change of the first bytes and of the last ones, every truncation
	for _, s := range seeds {
		sb := []byte(s)
		add(gen(sb))
		for pos := 0; pos < len(sb); pos++ {
			if pos >= 12 && pos < len(sb)-3 {
				continue
			}
			for _, a := range alpha {
				m := append([]byte(nil), sb...)
				m[pos] = a
				add(gen(m))
			}
		}
		for n := 0; n < len(sb); n++ {
			add(gen(append([]byte(nil), sb[:n]...)))
		}
	}
	item := func(a arg, k string) string {
		switch k {
		case "bytes":
			return coqBytes(a.b)
		case "int":
			return coqInt(a.i)
		case "byte":
			return coqByte(byte(a.i))
		case "u16":
			return fmt.Sprintf("%d%%N", uint16(a.i))
		case "u32":
			return fmt.Sprintf("%d%%N", uint32(a.i))
		case "u64":
			return fmt.Sprintf("%d%%N", uint64(a.i))
		case "i32":
			return coqInt(int64(int32(a.i)))
		default:
			return coqBool(a.i != 0)
		}
	}
	var ins, outs []string
	for _, c := range cases {
		parts := make([]string, len(c))
		for i := range c {
			parts[i] = item(c[i], kinds[i])
		}
		if len(parts) == 1 {
			ins = append(ins, parts[0])
		} else {
			ins = append(ins, "("+strings.Join(parts, ", ")+")")
		}
		outs = append(outs, run(c))
	}
	for i, p := range ptypes {
		if strings.Contains(p, " ") {
			ptypes[i] = "(" + p + ")"
		}
	}
	vars := make([]string, len(kinds))
	for i := range vars {
		vars[i] = fmt.Sprintf("x%d", i)
	}
	pat := vars[0]
	if len(vars) > 1 {
		pat = "'(" + strings.Join(vars, ", ") + ")"
	}
	fmt.Fprintf(w, "\n(* %s: %d cases *)\n", fn, len(cases))
	fmt.Fprintf(w, "Definition in_%s : list (%s) := [\n  %s].\n", fn, strings.Join(ptypes, " * "), strings.Join(ins, ";\n  "))
	fmt.Fprintf(w, "Definition out_%s : list (gres (%s)) := [\n  %s].\n", fn, rtype, strings.Join(outs, ";\n  "))
	fmt.Fprintf(w, "Goal map (fun %s => %s.%s %s) in_%s = out_%s.\nProof. vm_compute. reflexivity. Qed.\n", pat, module, fn, strings.Join(vars, " "), fn, fn)
}

`
