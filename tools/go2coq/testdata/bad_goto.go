package testdata

func f(s []byte) int {
	i := 0
loop:
	for i < len(s) {
		i++
		if s[i] == 0 {
			break loop
		}
	}
	return i
}
