package testdata

func sum(s []byte, n int) (int, bool) {
	t := 0
	for i := 0; i < len(s) && i < n; i++ {
		if s[i] == ' ' {
			continue
		}
		if s[i] > '9' {
			break
		}
		t += int(s[i] - '0')
	}
	switch {
	case t > 100:
		return 100, false
	case t == 0:
		return 0, true
	}
	return t, t%2 == 0
}
