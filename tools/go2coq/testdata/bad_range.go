package testdata

func count(s string) int {
	n := 0
	for range s {
		n++
	}
	return n
}
