package testdata

func get(m map[string]int, k string) int {
	return m[k]
}
