(* Generic correspondence driver.  Linked with the extracted model (model.ml,
   produced by coq/Extract/Cxx.v with ExtrOcamlBasic only), whose single entry
   point is  run_line_model : n list -> n list  (bytes of a case line ->
   bytes of the canonical output).

   usage: driver check <cases.txt>   -- each line "kind|sargs|zargs|expected";
                                        prints MISMATCH lines and a SUMMARY
          driver print <cases.txt>   -- prints the model output per line *)
open Model

let rec pos_of_int i =
  if i = 1 then XH
  else if i land 1 = 1 then XI (pos_of_int (i lsr 1))
  else XO (pos_of_int (i lsr 1))

let n_of_int i = if i = 0 then N0 else Npos (pos_of_int i)

let rec int_of_pos = function
  | XH -> 1
  | XO p -> 2 * int_of_pos p
  | XI p -> 2 * int_of_pos p + 1

let int_of_n = function N0 -> 0 | Npos p -> int_of_pos p

let table = Array.init 256 n_of_int

let bytes_of_string (s : string) : n list =
  let r = ref [] in
  for i = String.length s - 1 downto 0 do
    r := table.(Char.code s.[i]) :: !r
  done;
  !r

let string_of_bytes (l : n list) : string =
  let b = Buffer.create 64 in
  List.iter (fun x -> Buffer.add_char b (Char.chr ((int_of_n x) land 255))) l;
  Buffer.contents b

(* position of the third '|' *)
let third_bar (s : string) : int option =
  let n = ref 0 and res = ref None in
  (try
     String.iteri (fun i c -> if c = '|' then (incr n; if !n = 3 then (res := Some i; raise Exit))) s
   with Exit -> ());
  !res

let class_of (out : string) : string =
  match String.index_opt out ':' with
  | Some i -> String.sub out 0 i
  | None -> if String.length out > 24 then String.sub out 0 24 else out

let () =
  let mode = Sys.argv.(1) and file = Sys.argv.(2) in
  let ic = open_in_bin file in
  let total = ref 0 and mism = ref 0 in
  let hist : (string, int) Hashtbl.t = Hashtbl.create 16 in
  (try
     while true do
       let line = input_line ic in
       if String.length line > 0 then begin
         incr total;
         let input, expected =
           match third_bar line with
           | Some i -> (String.sub line 0 i, String.sub line (i + 1) (String.length line - i - 1))
           | None -> (line, "")
         in
         let out = string_of_bytes (run_line_model (bytes_of_string input)) in
         let c = class_of out in
         Hashtbl.replace hist c (1 + (try Hashtbl.find hist c with Not_found -> 0));
         if mode = "print" then print_endline out
         else if out <> expected then begin
           incr mism;
           Printf.printf "MISMATCH\t%d\t%s\n" !total out
         end
       end
     done
   with End_of_file -> ());
  close_in ic;
  if mode <> "print" then begin
    Hashtbl.iter (fun k v -> Printf.printf "CLASS\t%s\t%d\n" k v) hist;
    Printf.printf "SUMMARY\ttotal=%d\tmismatches=%d\n" !total !mism
  end
