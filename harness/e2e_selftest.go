package main

// e2e_selftest.go — a smoke test of the end-to-end harness itself, registered as pseudo-property "E2E":
//
//	build/harness E2E gen /tmp/e2e-out          (prints one line per scenario on stderr, fails loudly)
//
// It is not a property check (no Coq side); it shows how the pieces are used together.

import (
	"fmt"
	"os"
	"time"
)

func init() {
	register(&Prop{ID: "E2E", Gen: e2eSelfTestGen, Run: func(c *Case) (string, []Fail) { return "skip", nil }})
}

func e2eSelfTestScenario(mode string, script []ffStep, restart bool, twoOutputs bool) error {
	dir, err := os.MkdirTemp("", "e2e-self-")
	if err != nil {
		return err
	}
	defer os.RemoveAll(dir)
	e2eApplyParams(e2eDefaultParams())
	tr := newE2ETrace()
	srv, err := newFakeFluentd("out1", tr)
	if err != nil {
		return err
	}
	defer srv.Close()
	srv.SetScript(script, ffStep{Mode: ffHealthy})
	outs := []e2eOutput{{Name: "out1", Addr: srv.Addr(), Mode: mode, MaxBufSize: "1GB"}}
	var srv2 *fakeFluentd
	if twoOutputs {
		if srv2, err = newFakeFluentd("out2", tr); err != nil {
			return err
		}
		defer srv2.Close()
		outs = append(outs, e2eOutput{Name: "out2", Addr: srv2.Addr(), Mode: "PackedForward", MaxBufSize: "1GB"})
	}
	ag, err := e2eNewAgent(e2eConfig{Dir: dir, Keys: []string{"app", "source"}, Outputs: outs}, tr)
	if err != nil {
		return err
	}
	if err := ag.Start(); err != nil {
		return err
	}
	want := map[e2eStamp]bool{}
	var recs []e2eRecord
	for i := 0; i < 20; i++ {
		sp := e2eRecordSpec{Class: rcGood, Pri: 8 + i%8, App: []string{"ka", "kb"}[i%2], Source: "x1", Host: "h1", Payload: fmt.Sprintf("payload %d", i), TimeIdx: i}
		if i%7 == 3 {
			sp.Class = rcFiltered
		}
		if i%9 == 4 {
			sp.Class = rcMalformed
		}
		r := e2eMakeRecord(e2eStamp{Conn: 0, Seq: i}, sp)
		recs = append(recs, r)
		if r.Delivered() {
			want[r.Stamp] = true
		}
	}
	cl, err := e2eDial(ag.Addr(), 0, tr)
	if err != nil {
		return err
	}
	if err := cl.Send(recs, []int{7, 1, 40, 3}); err != nil {
		return err
	}
	if !ag.WaitInputSeen(len(recs), 10*time.Second) {
		return fmt.Errorf("input not consumed:\n%s", tr.Dump(0))
	}
	cl.Close(false)
	if restart {
		if err := ag.Restart(); err != nil {
			return err
		}
	}
	if !srv.WaitAckedStamps(want, 15*time.Second) {
		return fmt.Errorf("not all records acknowledged, missing %v\n%s", srv.MissingAcked(want), tr.Dump(0))
	}
	if srv2 != nil && !srv2.WaitAckedStamps(want, 15*time.Second) {
		return fmt.Errorf("second output: not all records acknowledged, missing %v", srv2.MissingAcked(want))
	}
	if err := ag.Stop(); err != nil {
		return err
	}
	// a client may have received ACKs it has not processed before the stop; whatever is left on disk must decode
	for _, qf := range ag.QueueFiles("out1") {
		if qf.Err != "" {
			return fmt.Errorf("queue file %s/%s: %s", qf.Dir, qf.ChunkID, qf.Err)
		}
	}
	for _, c := range srv.Chunks() {
		for _, ev := range c.Events {
			if !ev.HasStamp {
				return fmt.Errorf("event without stamp: %v", ev.Fields)
			}
			exp := recs[ev.Stamp.Seq].ExpectedFields()
			if fmt.Sprint(exp) != fmt.Sprint(ev.Fields) {
				return fmt.Errorf("fields differ for %s: got %v want %v", ev.Stamp, ev.Fields, exp)
			}
			if ev.Sec != recs[ev.Stamp.Seq].Sec || ev.Nsec != recs[ev.Stamp.Seq].Nsec {
				return fmt.Errorf("time differs for %s", ev.Stamp)
			}
		}
	}
	fmt.Fprintf(os.Stderr, "e2e selftest %s script=%v restart=%v outputs=%d: ok, %d chunks, %d attempts, %d trace events, stop %s\n",
		mode, script, restart, len(outs), len(srv.Chunks()), srv.Attempts(), len(tr.Events()), ag.StopDur)
	return nil
}

func e2eSelfTestGen(g *Gen) {
	t0 := time.Now()
	cases := []struct {
		mode    string
		script  []ffStep
		restart bool
		two     bool
	}{
		{"Forward", nil, false, false},
		{"PackedForward", []ffStep{{Mode: ffRefuse}, {Mode: ffResetAfter, K: 2, AckN: 1}}, false, false},
		{"CompressedPackedForward", []ffStep{{Mode: ffNeverAck}, {Mode: ffAckLate, DelayMs: 20}}, true, false},
		{"Forward", []ffStep{{Mode: ffWrongAck, K: 1}, {Mode: ffRefuse}, {Mode: ffRefuse}}, true, false},
		{"CompressedPackedForward", []ffStep{{Mode: ffResetAfter, K: 1, AckN: 1}}, true, true},
	}
	for _, c := range cases {
		if err := e2eSelfTestScenario(c.mode, c.script, c.restart, c.two); err != nil {
			fmt.Fprintln(os.Stderr, "e2e selftest FAILED:", err)
			os.Exit(1)
		}
	}
	fmt.Fprintf(os.Stderr, "e2e selftest done in %s\n", time.Since(t0))
}
