package main

// C02, family I (case kind 6): the REAL datadog connection's reading of the HTTP response.  For the Datadog output the
// response to the POST that carries a chunk IS the acknowledgement (ReadChunkAck returns "" at once), so the
// status-code decision in SendChunk decides whether a chunk may be reported delivered.  The fake intake answers the
// i-th POST by the scenario's http script (every status class, with and without a Location header); the decorated
// connection pairs every SendChunk call with the exchange the intake saw.  The case carries the exchanges and the
// trace; the Coq side (Model/Datadog.v) replaces the result of every SendChunk by the model's decision on the
// response and runs the trace acceptor of the client LTS on that.
//
// Oracle (independent of the model): a chunk is reported delivered only if the intake answered a POST carrying
// that very chunk with a 2xx status before, and the client received that answer.

import (
	"errors"
	"fmt"
	"io"
	"net/http"
	"net/url"
	"strings"
	"time"

	"github.com/relex/slog-agent/base"
)

// c02DDTimeout is the HTTP timeout of the family-I connections: never reached (the intake answers at once).
const c02DDTimeout = 3 * time.Second

// c02Exch is one exchange: the chunk in the body of the POST and the status answered (0: no response reached the client).
type c02Exch struct{ Chunk, Status int64 }

// c02DDStatuses: the status classes of the family.  1xx: only 101 can be a final answer (net/http treats the others
// as interim responses on both sides).
var c02DDStatuses = []int{
	200, 201, 202, 204, 206, 226, 299,
	101,
	300, 301, 302, 303, 304, 305, 307, 308, 399,
	400, 401, 403, 404, 408, 413, 429, 499,
	500, 502, 503, 504, 599,
}

// serveStatus is the fake intake of family I.
func (f *c02Fluentd) serveStatus(rw http.ResponseWriter, rq *http.Request) {
	body, _ := io.ReadAll(rq.Body)
	w := f.w
	w.mu.Lock()
	if rq.Method != http.MethodPost {
		// a followed redirect (the client re-issues it as a GET without the chunk): answered 200, never an acceptance
		w.ddGets++
		w.mu.Unlock()
		rw.WriteHeader(http.StatusOK)
		return
	}
	v := c02At(w.scn.Http, len(w.ddReq))
	status, loc := v%1000, v/1000
	if status == 0 {
		status = http.StatusAccepted
	}
	w.ddReq = append(w.ddReq, c02Exch{c02IDNum(string(body)), int64(status)})
	w.mu.Unlock()
	if loc != 0 {
		rw.Header().Set("Location", "/redirected")
	}
	rw.WriteHeader(status)
	if status >= 400 {
		_, _ = rw.Write([]byte("scripted refusal"))
	}
}

// ddBefore / ddAfter bracket one SendChunk call of the real connection: exactly one POST must have arrived in between.
func (w *c02World) ddBefore() int {
	if len(w.scn.Http) == 0 {
		return 0
	}
	w.mu.Lock()
	defer w.mu.Unlock()
	return len(w.ddReq)
}

// ddAfter: w.mu is held.
func (w *c02World) ddAfter(r0 int, chunk base.LogChunk, err error) {
	if len(w.scn.Http) == 0 || w.done {
		return
	}
	var ue *url.Error
	transport := err != nil && errors.As(err, &ue) // client.Do failed: no response was handed to SendChunk
	switch len(w.ddReq) - r0 {
	case 1:
		x := w.ddReq[r0]
		if transport {
			x.Status = 0
		}
		w.dd = append(w.dd, x)
	case 0:
		if !transport {
			w.ddBad = true
		}
		w.dd = append(w.dd, c02Exch{c02IDNum(chunk.ID), 0})
	default:
		w.ddBad = true
	}
}

// case layout of kind 6: sargs as for the trace kinds; zargs = cap, maxage, bug, n, n x (chunk, status), then the trace.
func c02EncodeDDCase(scn *c02Scn, res *c02Result) ([][]byte, []int64) {
	s, z := c02EncodeCase(scn, res)
	out := append([]int64(nil), z[:3]...)
	out = append(out, int64(len(res.DD)))
	for _, x := range res.DD {
		out = append(out, x.Chunk, x.Status)
	}
	return s, append(out, z[3:]...)
}

func c02DecodeDDCase(c *Case) (scn *c02Scn, dd []c02Exch, trace []c02Ev, remaining []int64, finished bool, err error) {
	if len(c.Z) < 4 || c.Z[3] < 0 || int64(len(c.Z)) < 4+2*c.Z[3] {
		return nil, nil, nil, nil, false, fmt.Errorf("malformed C02 datadog case")
	}
	n := int(c.Z[3])
	for i := 0; i < n; i++ {
		dd = append(dd, c02Exch{c.Z[4+2*i], c.Z[5+2*i]})
	}
	z := append(append([]int64(nil), c.Z[:3]...), c.Z[4+2*n:]...)
	scn, trace, remaining, finished, err = c02DecodeCase(&Case{Kind: c.Kind, S: c.S, Z: z})
	return
}

func c02DDString(dd []c02Exch) string {
	p := make([]string, len(dd))
	for i, x := range dd {
		if x.Status == 0 {
			p[i] = fmt.Sprintf("POST(%d)->no response", x.Chunk)
		} else {
			p[i] = fmt.Sprintf("POST(%d)->%d", x.Chunk, x.Status)
		}
	}
	return strings.Join(p, " ")
}

// c02DDOracle: the i-th SendChunk that returned belongs to the i-th exchange.
func c02DDOracle(scn *c02Scn, trace []c02Ev, dd []c02Exch) []Fail {
	var fails []Fail
	accepted := map[int64]bool{}
	i := 0
	for at, e := range trace {
		switch e.code {
		case c02SendRet:
			if i < len(dd) {
				if x := dd[i]; x.Chunk == e.b && x.Status >= 200 && x.Status <= 299 {
					accepted[x.Chunk] = true
				}
			}
			i++
		case c02Consumed:
			if !accepted[e.a] {
				var got []string
				for j := 0; j < i && j < len(dd); j++ {
					if dd[j].Chunk == e.a {
						if dd[j].Status == 0 {
							got = append(got, "no response")
						} else {
							got = append(got, fmt.Sprint(dd[j].Status))
						}
					}
				}
				fails = append(fails, Fail{"c02:datadog:confirm-without-2xx",
					fmt.Sprintf("event %d: chunk %d reported delivered although the intake has not answered any POST carrying it with a 2xx status (answers so far: %s) | exchanges: %s | scenario: %s | trace: %s",
						at, e.a, strings.Join(got, ","), c02DDString(dd), scn.String(), c02TraceString(trace))})
			}
		}
	}
	return fails
}

// c02DDOut: the Go-side output of kind 6: the projection, then what the real SendChunk returned per call.
func c02DDOut(trace []c02Ev, remaining []int64, finished bool) string {
	_, _, _, out := c02Projection(trace, remaining, finished)
	var b strings.Builder
	for _, e := range trace {
		if e.code == c02SendRet {
			if e.c == 1 {
				b.WriteByte('o')
			} else {
				b.WriteByte('e')
			}
		}
	}
	return out + ";dd=" + b.String()
}

// c02GenDD adds the scenarios of family I.
func c02GenDD(g *Gen, add func(kind int, tag string, s *c02Scn)) {
	r := g.R
	bad := func() int { // a non-2xx answer, with or without Location
		for {
			st := r.PickInt(c02DDStatuses)
			if st < 200 || st > 299 {
				return st + 1000*r.Intn(2)
			}
		}
	}
	// every status, with and without a Location header, as the answer to the first POST of a single chunk ...
	for _, st := range c02DDStatuses {
		for loc := 0; loc < 2; loc++ {
			add(6, fmt.Sprintf("I:datadog-status:single:%dxx", st/100), &c02Scn{N: 1, Cap: 2, Flavor: 3, Http: []int{st + 1000*loc}, Stop: -1})
		}
		// ... and to the second chunk of three, the client being stopped right after (non-2xx: handed back, not confirmed)
		add(6, fmt.Sprintf("I:datadog-status:stop-after:%dxx", st/100), &c02Scn{N: 3, Cap: r.PickInt([]int{1, 2, 10}), Flavor: 3,
			Http: []int{202, st + 1000*r.Intn(2)}, Stop: 8 + r.Intn(3), StopRev: r.Intn(2), StopGap: r.Intn(2)})
	}
	// sequences: every chunk is refused k times (k = 0..3, any non-2xx class) before it is accepted
	for i := 0; i < g.Pick(60, 1500); i++ {
		n := r.Range(1, 5)
		s := &c02Scn{N: n, Cap: r.PickInt([]int{1, 2, 10}), Flavor: 3, Stop: -1, StopRev: r.Intn(2), StopGap: r.Intn(3)}
		for j := 0; j < n; j++ {
			for k := r.Intn(4); k > 0; k-- {
				s.Http = append(s.Http, bad())
			}
			s.Http = append(s.Http, r.PickInt([]int{200, 201, 202, 202, 204, 299})+1000*r.Intn(2))
		}
		at := 0
		for j := 0; j < n; j++ {
			at += r.Range(0, 5)
			s.Push = append(s.Push, at)
		}
		add(6, "I:datadog-status:refused-then-accepted", s)
	}
	// random scripts with a random stop: chunks whose last answer was not 2xx are handed back
	for i := 0; i < g.Pick(60, 1500); i++ {
		n := r.Range(1, 8)
		s := &c02Scn{N: n, Cap: r.PickInt([]int{1, 2, 10}), Flavor: 3, Stop: -1, StopRev: r.Intn(2), StopGap: r.Intn(3)}
		for j := 0; j < 3*n; j++ {
			if r.Chance(1, 2) {
				s.Http = append(s.Http, r.PickInt(c02DDStatuses)+1000*r.Intn(2))
			} else {
				s.Http = append(s.Http, 202)
			}
		}
		if r.Chance(1, 2) {
			s.Stop = r.Range(0, 8*n+8)
		}
		at := 0
		for j := 0; j < n; j++ {
			at += r.Range(0, 4)
			s.Push = append(s.Push, at)
		}
		add(6, "I:datadog-status:random", s)
	}
}
