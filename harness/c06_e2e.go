package main

// C06 kind 5: the whole pipeline behind the orchestrator, from the outermost API:
// a YAML configuration is loaded by run.NewLoaderFromConfigFile; obykeyset.Config.StartOrchestrator builds real
// pipelines with obase.PrepareSequentialPipeline (transform worker, fluentd serializer and chunk maker, hybrid
// buffer); records are fed through a real sink. The chunks are observed at the consumer (NewConsumerOverride):
// tag inside the chunk, key fields of every record in it, the pipeline that delivers it (the consumer object itself is
// the handle: one consumer per pipeline and output) and the key_* labels of that pipeline's metric creator.
//   mode 0: live delivery
//   mode 1: the consumers are stalled, the agent shuts down (chunks spilled to the queue directories), a second
//           agent is started from the same configuration (ListBufferIDs -> initial pipelines) and must deliver
//           the recovered chunks through pipelines of the key sets that wrote them.

import (
	"bytes"
	"encoding/json"
	"fmt"
	"io"
	"os"
	"os/exec"
	"path/filepath"
	"strconv"
	"strings"
	"sync"
	"syscall"
	"time"

	"github.com/relex/fluentlib/protocol/forwardprotocol"
	"github.com/relex/gotils/channels"
	"github.com/relex/gotils/logger"
	"github.com/relex/gotils/promexporter/promreg"
	"github.com/relex/slog-agent/base"
	"github.com/relex/slog-agent/run"
	"github.com/vmihailenco/msgpack/v4"
)

type c06Delivery struct {
	output   string       // name of the output whose consumer got the chunk
	consumer *c06Consumer // the delivering pipeline's consumer (exact identity of the pipeline)
	pipeKeys []string     // key_* label values of the pipeline whose consumer got the chunk (lossy since b1856f7)
	tag      string       // tag inside the chunk
	keys     []string     // key fields of the record
	msg      int
}

type c06E2E struct {
	mu         sync.Mutex
	names      []string
	current    []string // key labels of the pipeline being started (under the orchestrator's mutex)
	deliveries []c06Delivery
	broken     []string
}

type c06Consumer struct {
	env     *c06E2E
	output  string
	keys    []string
	args    base.ChunkConsumerArgs
	stalled bool
	stopped *channels.SignalAwaitable
}

func (w *c06Consumer) Start()                      { go w.run() }
func (w *c06Consumer) Stopped() channels.Awaitable { return w.stopped }

func (w *c06Consumer) run() {
	defer w.args.OnFinished()
	defer w.stopped.Signal()
	if w.stalled {
		<-w.args.InputClosed.Channel()
		return
	}
	for {
		select {
		case chunk, ok := <-w.args.InputChannel:
			if !ok {
				return
			}
			w.env.record(w, chunk)
			w.args.OnChunkConsumed(chunk)
		case <-w.args.InputClosed.Channel():
			return
		}
	}
}

func (env *c06E2E) record(w *c06Consumer, chunk base.LogChunk) {
	output, pipeKeys := w.output, w.keys
	env.mu.Lock()
	defer env.mu.Unlock()
	var message forwardprotocol.Message
	if err := msgpack.NewDecoder(bytes.NewReader(chunk.Data)).Decode(&message); err != nil {
		env.broken = append(env.broken, fmt.Sprintf("chunk %s: %v", chunk.ID, err))
		return
	}
	for _, e := range message.Entries {
		d := c06Delivery{output: output, consumer: w, pipeKeys: pipeKeys, tag: message.Tag, msg: -1}
		for _, n := range env.names {
			v, _ := e.Record[n].(string)
			d.keys = append(d.keys, v)
		}
		if m, ok := e.Record["msg"].(string); ok {
			d.msg, _ = strconv.Atoi(m)
		}
		env.deliveries = append(env.deliveries, d)
	}
}

// c06DecodeForward decodes a fluentd "Forward" message: tag and the records
func c06DecodeForward(data []byte) (string, []map[string]interface{}, error) {
	var message forwardprotocol.Message
	if err := msgpack.NewDecoder(bytes.NewReader(data)).Decode(&message); err != nil {
		return "", nil, err
	}
	recs := make([]map[string]interface{}, len(message.Entries))
	for i, e := range message.Entries {
		recs[i] = e.Record
	}
	return message.Tag, recs, nil
}

func c06YAMLQuote(s string) string { return "'" + strings.ReplaceAll(s, "'", "''") + "'" }

func c06WriteConfig(path, qroot, tmpl string, names []string, outputs []string) error {
	var sb strings.Builder
	fmt.Fprintf(&sb, "schema:\n  fields: [%s, mk, msg]\n  maxFields: 12\n", strings.Join(names, ", "))
	sb.WriteString("inputs: []\n")
	fmt.Fprintf(&sb, "orchestration:\n  type: byKeySet\n  keys: [%s]\n  tag: %s\n", strings.Join(names, ", "), c06YAMLQuote(tmpl))
	sb.WriteString("metricKeys: [mk]\ntransformations: []\noutputBufferPairs:\n")
	for _, o := range outputs {
		fmt.Fprintf(&sb, `  - name: %s
    buffer:
      type: hybridBuffer
      rootPath: %s
      maxBufSize: 1GB
    output:
      type: fluentdForward
      serialization:
        environmentFields: [mk]
        hiddenFields: []
        rewriteFields: {}
      messageMode: Forward
      upstream:
        address: localhost:1
        tls: false
        secret: x
        maxDuration: 30m
`, o, c06YAMLQuote(qroot+"-"+o))
	}
	return os.WriteFile(path, []byte(sb.String()), 0o644)
}

// one agent life: start the orchestrator from the config, feed the records, shut down
func c06Agent(cfgPath string, env *c06E2E, stalled func(output string) bool, sendAllAtEnd bool, tuples [][]string) (err string) {
	defer func() {
		if r := recover(); r != nil {
			err = fmt.Sprintf("panic: %v", r)
		}
	}()
	loader, lerr := run.NewLoaderFromConfigFile(cfgPath, "c06e_")
	if lerr != nil {
		return "config: " + lerr.Error()
	}
	mc := &c06MC{MetricCreator: promreg.NewMetricFactory("c06e_", nil, nil)}
	mc.onNew = func(prefix string, m *c06MC) {
		if prefix == "process_" {
			env.mu.Lock()
			env.current = m.keyLabels()
			env.mu.Unlock()
		}
	}
	args := loader.PipelineArgs
	args.SendAllAtEnd = sendAllAtEnd
	args.NewConsumerOverride = func(parentLogger logger.Logger, name string, decoder base.ChunkDecoder, cargs base.ChunkConsumerArgs) base.ChunkConsumer {
		env.mu.Lock()
		keys := append([]string{}, env.current...)
		env.mu.Unlock()
		return &c06Consumer{env: env, output: name, keys: keys, args: cargs, stalled: stalled(name), stopped: channels.NewSignalAwaitable()}
	}
	orch := loader.Orchestration.Value.StartOrchestrator(logger.Root(), args, mc)
	if len(tuples) > 0 {
		schema := args.Schema
		locs := schema.MustCreateFieldLocators(append(append([]string{}, env.names...), "mk", "msg"))
		sink := orch.NewSink("conn", 1)
		for i, t := range tuples {
			rec, _ := args.Deallocator.NewRecord(nil)
			for j, k := range t {
				locs[j].Set(rec.Fields, string(append([]byte{}, k...)))
			}
			locs[len(t)].Set(rec.Fields, "m")
			locs[len(t)+1].Set(rec.Fields, strconv.Itoa(i))
			rec.Timestamp = time.Unix(int64(1000+i), 0)
			rec.RawLength = 10
			sink.Accept([]*base.LogRecord{rec})
		}
		sink.Close()
	}
	orch.Shutdown()
	return ""
}

// c06E2EChildTuples: a kind-5 case with more records than this runs in a process of its own (see c06RunE2EChild)
const c06E2EChildTuples = 40

func c06RunE2E(c *Case) (out string, fails []Fail) {
	if len(c.Z) == 2 && c.Z[0] >= 1 && (int64(len(c.S))-1-c.Z[0])/c.Z[0] > c06E2EChildTuples && os.Getenv("C06_E2E_CHILD") == "" {
		return c06RunE2EChild(c)
	}
	return c06RunE2EInProc(c)
}

// c06RunE2EChild runs the case in a fresh process (harness C06 child; the case line on stdin, the output and the oracle
// failures as JSON on stdout).  Every real pipeline allocates about 4 MB of encoder and chunk buffers, twice per case
// (two agent lives): 512 key sets are 2 x 2 GB.  In a fresh process that memory comes zeroed from the kernel and is
// never touched (85 MB resident); in the long-running generator it is recycled heap, which the runtime clears first -
// gigabytes of page touching per case (2.4 GB resident), seconds here and minutes on a machine whose memory is slow to
// touch, where the case then looked like a hang.  What the case does and what is compared is the same in both forms.
func c06RunE2EChild(c *Case) (out string, fails []Fail) {
	exe, err := os.Executable()
	if err != nil {
		return c06RunE2EInProc(c)
	}
	cmd := exec.Command(exe, "C06", "child")
	cmd.Env = append(os.Environ(), "C06_E2E_CHILD=1")
	cmd.Stdin = strings.NewReader(c.Line() + "\n")
	var stdout, stderr bytes.Buffer
	cmd.Stdout, cmd.Stderr = &stdout, &stderr
	werr := runChild(cmd)
	var res struct {
		Out   string
		Fails []Fail
	}
	if werr == nil {
		if jerr := json.Unmarshal(stdout.Bytes(), &res); jerr == nil && res.Out != "" {
			return res.Out, res.Fails
		}
	}
	// the child died: a panic or a fatal error in one of the implementation's goroutines (in-process it would have
	// taken the generator down), or the watchdog ended it; the end of its stderr says which
	tail := stderr.String()
	if d := os.Getenv("VERIF_OUTDIR"); d != "" { // gen: beside cases.txt
		os.WriteFile(filepath.Join(d, "c06_child_stderr.txt"), []byte("case "+c.Line()+"\n\n"+tail), 0o644)
	} else {
		os.Stderr.WriteString(tail)
	}
	if i := strings.Index(tail, "\ngoroutine "); i >= 0 {
		tail = tail[:i]
	}
	if len(tail) > 600 {
		tail = tail[len(tail)-600:]
	}
	tail = strings.NewReplacer("\n", " ", "\t", " ", "|", "/").Replace(tail)
	return "panic", []Fail{{"c06:panic", fmt.Sprintf("the process running the case ended abnormally (%v): %s", werr, tail)}}
}

// c06Child: harness C06 child
func c06Child(args []string) {
	data, _ := io.ReadAll(os.Stdin)
	c, err := parseCaseLine(strings.TrimSpace(string(data)))
	if err != nil {
		fmt.Fprintln(os.Stderr, "bad case line:", err)
		os.Exit(2)
	}
	out, fails := c06Run(c)
	b, _ := json.Marshal(struct {
		Out   string
		Fails []Fail
	}{out, fails})
	os.Stdout.Write(b)
}

func c06RunE2EInProc(c *Case) (out string, fails []Fail) {
	if len(c.Z) != 2 || len(c.S) < 1 {
		return "badcase", nil
	}
	n, mode := int(c.Z[0]), int(c.Z[1])
	if n < 1 || n > 8 || 1+n > len(c.S) || mode < 0 || mode > 2 {
		return "badcase", nil
	}
	tmpl := string(c.S[0])
	names, _ := c06Names(n, c, 1)
	tuples, ok := c06Tuples(n, c.S[1+n:])
	if !ok && len(c.S) > 1+n {
		return "badcase", nil
	}
	for _, nm := range names {
		for i := 0; i < len(nm); i++ {
			if !c06IsWord(nm[i]) {
				return "badcase", nil
			}
		}
		if nm == "" || nm == "mk" || nm == "msg" {
			return "badcase", nil
		}
	}
	for i := 0; i < len(tmpl); i++ {
		if tmpl[i] < 0x20 || tmpl[i] > 0x7e {
			return "badcase", nil
		}
	}
	old := syscall.Umask(0o022)
	defer syscall.Umask(old)
	root, err := os.MkdirTemp("", "c06e")
	if err != nil {
		panic(err)
	}
	defer os.RemoveAll(root)
	cfgPath := filepath.Join(root, "config.yml")
	qroot := filepath.Join(root, "q")
	outputs := []string{"out"}
	if mode == 2 {
		outputs = []string{"outA", "outB"} // two queue roots; only the one of outB still holds chunks at the restart
	}
	if err := c06WriteConfig(cfgPath, qroot, tmpl, names, outputs); err != nil {
		panic(err)
	}
	env := &c06E2E{names: names}
	never := func(string) bool { return false }
	var aerr string
	switch mode {
	case 0:
		aerr = c06Agent(cfgPath, env, never, true, tuples)
	case 1:
		aerr = c06Agent(cfgPath, env, func(string) bool { return true }, false, tuples)
		if aerr == "" {
			if len(env.deliveries) != 0 {
				fails = append(fails, Fail{"c06:e2e:stalled-delivery", "a stalled consumer received chunks"})
			}
			aerr = c06Agent(cfgPath, env, never, true, nil)
		}
	case 2:
		aerr = c06Agent(cfgPath, env, func(string) bool { return true }, false, tuples)
		if aerr == "" {
			// as if outA had delivered everything before the shutdown: its queue directories stay, without chunks;
			// the queues to recover are known from the root of outB only
			filepath.Walk(qroot+"-outA", func(p string, info os.FileInfo, err error) error {
				if err == nil && !info.IsDir() && strings.HasSuffix(p, ".ff") {
					os.Remove(p)
				}
				return nil
			})
			aerr = c06Agent(cfgPath, env, never, true, nil)
		}
	}
	if strings.HasPrefix(aerr, "config: ") {
		if _, refOK := c06RefParse(tmpl, names); refOK && tmpl != "" && strings.Contains(aerr, "orchestration") {
			fails = append(fails, Fail{"c06:tmpl:rejected", fmt.Sprintf("template %q over %q rejected: %s", tmpl, names, aerr)})
		}
		return "err:config", fails
	}
	if aerr != "" {
		return "panic", append(fails, Fail{"c06:panic", fmt.Sprintf("agent fails: %s; template %q tuples %q", aerr, tmpl, tuples)})
	}
	for _, b := range env.broken {
		fails = append(fails, Fail{"c06:e2e:undecodable-chunk", b})
	}
	// canonical output: per record (by message number) and output, the tag it was delivered under and the key set
	// of the delivering pipeline, "-" if it was not delivered
	tparts, refOK := c06RefParse(tmpl, names)
	parts := make([]string, len(tuples))
	if mode == 2 {
		for _, d := range env.deliveries {
			if d.output == "outA" {
				fails = append(fails, Fail{"c06:e2e:ghost-delivery", fmt.Sprintf("output outA delivers a record (tag %q) although its queues were emptied", d.tag)})
				break
			}
		}
		outputs = []string{"outB"}
	}
	for oi, oname := range outputs {
		restarted := mode >= 1
		got := make([][]c06Delivery, len(tuples))
		served := map[*c06Consumer]int{} // pipeline (by its consumer) -> first record it delivered
		for _, d := range env.deliveries {
			if d.output != oname {
				continue
			}
			if d.msg < 0 || d.msg >= len(tuples) {
				fails = append(fails, Fail{"c06:e2e:phantom-record", fmt.Sprintf("delivered record without a valid message number (tag %q)", d.tag)})
				continue
			}
			got[d.msg] = append(got[d.msg], d)
			// one pipeline never delivers records of two key sets (decided by the pipeline's own handle, not by its labels)
			if j, seen := served[d.consumer]; !seen {
				served[d.consumer] = d.msg
			} else if !c06EqTuple(tuples[j], tuples[d.msg]) {
				fails = append(fails, Fail{"c06:pipeline-shared:" + c06PairClass(tuples[j], tuples[d.msg]),
					fmt.Sprintf("records with keys %s and %s are delivered by the same pipeline (labels %s, tag %q)", c06Q(tuples[j]), c06Q(tuples[d.msg]), c06Q(d.pipeKeys), d.tag)})
			}
		}
		for i, t := range tuples {
			part := ""
			switch len(got[i]) {
			case 0:
				part = "-"
				class := "other"
				switch {
				case restarted && strings.Join(t, ",") == "":
					class = "empty-id"
				case restarted && strings.Contains(strings.Join(t, ""), ","):
					class = "comma"
				}
				if !(restarted && len(strings.Join(t, ","))+9 > 255) { // else: the queue directory could not be created, nothing was stored
					fails = append(fails, Fail{"c06:recovery-dropped:" + class, fmt.Sprintf("record with keys %s is not delivered (mode %d, output %s)", c06Q(t), mode, oname)})
				}
			case 1:
				d := got[i][0]
				part = c06Hex(d.tag) + "/" + c06HexTuple(d.pipeKeys)
				if !c06EqTuple(d.keys, t) {
					fails = append(fails, Fail{"c06:e2e:record-changed", fmt.Sprintf("record %d: key fields %s delivered as %s", i, c06Q(t), c06Q(d.keys))})
				}
				if want := c06RefLabels(t); !c06EqTuple(d.pipeKeys, want) {
					// the labels are the rendering of another key set (for valid UTF-8 values: another key set)
					fails = append(fails, Fail{"c06:pipeline-shared:" + c06PairClass(d.pipeKeys, want),
						fmt.Sprintf("record with keys %s is delivered by a pipeline with key labels %s, its own values give %s (tag %q)", c06Q(t), c06Q(d.pipeKeys), c06Q(want), d.tag)})
				}
				if refOK {
					if want := c06RefExpand(tparts, t); want != d.tag {
						fails = append(fails, Fail{"c06:tag:wrong", fmt.Sprintf("record with keys %s is delivered under tag %q, its own tag is %q (template %q)", c06Q(t), d.tag, want, tmpl)})
					}
				}
			default:
				part = "dup"
				fails = append(fails, Fail{"c06:e2e:duplicate", fmt.Sprintf("record %d delivered %d times by %s", i, len(got[i]), oname)})
			}
			if oi > 0 {
				parts[i] += "+"
			}
			parts[i] += part
		}
	}
	return "ok:" + strings.Join(parts, ";"), fails
}
