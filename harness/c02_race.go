package main

// C02, thorough tier only, supporting evidence: the harness is rebuilt with the Go race detector and a batch of
// random scenarios is run on the real client under it.  A reported data race does not fail the check (it is
// recorded in the distribution of the evidence file and in build/run/C02/race_report.txt).

import (
	"fmt"
	"os"
	"os/exec"
	"path/filepath"
	"strconv"
	"strings"
	"time"
)

func init() {
	props["C02"].Child = c02Child
}

// c02Child: "race <n> <seed>": run n random scenarios, judge them with the oracle, print a summary line.
func c02Child(args []string) {
	if len(args) < 3 || args[0] != "race" {
		os.Exit(2)
	}
	n, _ := strconv.Atoi(args[1])
	seed, _ := strconv.ParseUint(args[2], 10, 64)
	r := NewRng(seed)
	var jobs []*c02Job
	for i := 0; i < n; i++ {
		var s *c02Scn
		switch i % 4 {
		case 0:
			s, _ = c02SoftScn(r, true)
		default:
			s = c02RandomScn(r, 20)
		}
		jobs = append(jobs, &c02Job{kind: 1, scn: s})
	}
	bad := 0
	c02RunJobs(jobs)
	for _, j := range jobs {
		fails := c02Oracle(j.scn, j.res.Trace, j.res.Remaining, j.res.Finished)
		bad += len(fails)
		for _, f := range fails {
			fmt.Println("RACE-CHILD-ORACLE", f.Sig, f.Desc)
		}
	}
	fmt.Printf("RACE-CHILD done scenarios=%d oraclefails=%d\n", len(jobs), bad)
}

// c02RaceEvidence builds and runs the race-enabled harness; returns a class for the histogram.
func c02RaceEvidence(g *Gen, outdir string) string {
	exe, err := os.Executable()
	if err != nil {
		return "race:unavailable"
	}
	src := filepath.Join(filepath.Dir(filepath.Dir(exe)), "harness")
	if _, err := os.Stat(filepath.Join(src, "c02.go")); err != nil {
		return "race:unavailable"
	}
	bin := filepath.Join(filepath.Dir(exe), "harness.race")
	build := exec.Command("go", "build", "-race", "-tags", "verif", "-o", bin, ".")
	build.Dir = src
	build.Env = append(os.Environ(), "CGO_ENABLED=1", "GOFLAGS=-mod=mod", "GOPROXY=off", "GOSUMDB=off", "GOTOOLCHAIN=local")
	if out, err := build.CombinedOutput(); err != nil {
		os.WriteFile(filepath.Join(outdir, "race_report.txt"), append([]byte("race build failed:\n"), out...), 0o644)
		return "race:build-failed"
	}
	run := exec.Command(bin, "C02", "child", "race", strconv.Itoa(g.Pick(100, 1200)), strconv.FormatUint(g.Seed, 10))
	run.Env = append(os.Environ(), "GORACE=halt_on_error=0")
	done := make(chan struct{})
	var out []byte
	go func() { out, _ = run.CombinedOutput(); close(done) }()
	select {
	case <-done:
	case <-time.After(15 * time.Minute):
		_ = run.Process.Kill()
		<-done
	}
	os.WriteFile(filepath.Join(outdir, "race_report.txt"), out, 0o644)
	txt := string(out)
	switch {
	case strings.Contains(txt, "WARNING: DATA RACE"):
		return "race:DATA-RACE-reported(see race_report.txt)"
	case strings.Contains(txt, "RACE-CHILD done") && strings.Contains(txt, "oraclefails=0"):
		return "race:clean"
	case strings.Contains(txt, "RACE-CHILD done"):
		return "race:clean-but-oracle-failures"
	default:
		return "race:child-did-not-complete"
	}
}
