package main

// c18_stopwait.go — C18, waits of the shutdown path whose wake-up must not depend on the waiter itself.
//
// Kind 3, "queue full at the stop": the REAL hybridbuffer bufferer wired as obase.PrepareSequentialPipeline wires it:
// one goroutine (the LogProcessingWorker) calls bufferer.Accept for every chunk it produces, ends, and only THEN is
// bufferer.Destroy() called (procWorker.Stopped().Next(...)).  The upstream refuses every connection (real
// baseoutput.ClientWorker in its retry loop: it never takes a chunk), so the feeder blocks with a full window and
// the persistent queue (defs.BufferMaxNumChunksInQueue, scaled down to Q) fills up.  The worker produces P chunks
// (below, at and beyond the capacity Q + W + 1), then the pipeline is stopped.
// ORACLE (independent of Coq): worker end + Destroy complete within the bound (0 ticks + slack; nothing in this path
// may wait for the stop signal that only Destroy raises), and every produced chunk is a file in the queue directory
// or counted in dropped_chunks_total.
//
// Kind 4, "connection registers after the stop": the REAL tcpLineListener with a scripted receiver whose NewSink
// blocks (a pipeline being started, a reload holding the orchestrator's lock).  E connections are established
// before, L connections are accepted and still inside NewSink when the stop request is signalled; NewSink is
// released D ms later; the clients stay connected (idle or sending).
// ORACLE: the input reports Stopped() within the bound (0 ticks + slack) and every client connection was closed by
// the listener.
//
// CORRESPONDENCE: Model/ShutdownWaits.v replays the scenario (event lists built from Q, W, P and the observed number
// of drops; from E, L) and prints done/kept/dropped resp. stopped/closed; Go prints the same from the OBSERVED values.

import (
	"errors"
	"fmt"
	"net"
	"os"
	"strings"
	"sync"
	"sync/atomic"
	"time"

	"github.com/c2h5oh/datasize"
	"github.com/relex/gotils/channels"
	"github.com/relex/gotils/logger"
	"github.com/relex/gotils/promexporter/promreg"
	"github.com/relex/slog-agent/base"
	"github.com/relex/slog-agent/buffer/hybridbuffer"
	"github.com/relex/slog-agent/input/tcplistener"
	"github.com/relex/slog-agent/output/baseoutput"
)

const (
	c18WaitSlackMs    = 1200 // as c18SlackMs
	c18WaitDeadlineMs = 4500 // harness deadline: "did not complete" (Destroy's own fallback deadline is 3.5 s)
	c18WaitMaxHangs   = 4    // after that many runs that did not complete the rest of a family is skipped (each costs the deadline)
)

// ---------------------------------------------------------------------------------------------------------------
// kind 3: queue full at the stop

type c18QFullObs struct {
	Q, W, P        int64
	Done           bool
	Files, Dropped int64
	ElapsedMs      int64
	Fails          []Fail
	Note           string
}

func (o *c18QFullObs) z(seed uint64, idx int) []int64 {
	return []int64{int64(seed), int64(idx), o.Q, o.W, o.P, b2i(o.Done), o.Files, o.Dropped}
}

// c18QFullOut: what the Coq replay prints, from the observation, with Go's own arithmetic.
func c18QFullOut(z []int64) string {
	if len(z) < 8 {
		return "badcase"
	}
	q, w, p, done, dropped := z[2], z[3], z[4], z[5], z[7]
	if q < 1 || w < 0 || p < 0 || dropped < 0 || q > 100000 || w > 100000 || p > 100000 {
		return "badcase"
	}
	// the feeder can have made room for at most w + 1 chunks (window + the chunk in its hand)
	over := p - q
	if over < 0 {
		over = 0
	}
	minDrop := over - (w + 1)
	if minDrop < 0 {
		minDrop = 0
	}
	if dropped > over || dropped < minDrop {
		return "reject"
	}
	d := 0
	if done != 0 {
		d = 1
	}
	return fmt.Sprintf("ok:done=%d;kept=%d;dropped=%d", d, p-dropped, dropped)
}

func c18RunQFull(q, w, p int) *c18QFullObs {
	o := &c18QFullObs{Q: int64(q), W: int64(w), P: int64(p)}
	desc := fmt.Sprintf("pipeline stop with a full chunk queue: BufferMaxNumChunksInQueue=%d, BufferMaxNumChunksInMemory=%d, upstream refusing, the worker hands over %d chunks by bufferer.Accept, ends, then bufferer.Destroy()", q, w, p)
	fail := func(sig, format string, a ...interface{}) {
		o.Fails = append(o.Fails, Fail{Sig: sig, Desc: desc + ": " + fmt.Sprintf(format, a...)})
	}
	e2eQuietLogs()
	root, err := os.MkdirTemp("", "c18qfull-")
	if err != nil {
		o.Note = "not-staged:tempdir"
		return o
	}
	defer os.RemoveAll(root)
	ep := e2eDefaultParams()
	ep.QueueLen = q
	ep.MemLen = w
	ep.RetryMs = 20
	ep.BufferShutdownMs, ep.ChannelTimeoutMs = 2000, 1500
	e2eApplyParams(ep)
	cfg := &hybridbuffer.Config{RootPath: root, MaxBufSize: datasize.GB}
	match := func(id string) bool { return strings.HasSuffix(id, ".qf") }
	factory := promreg.NewMetricFactory("c18qfull_", nil, nil)
	buf := cfg.NewBufferer(logger.Root(), "p1", match, factory, false)
	qdir := buf.(interface{ QueueDirPath() string }).QueueDirPath()
	buf.Start()
	consumer := baseoutput.NewClientWorker(logger.Root(), buf.RegisterNewConsumer(), promreg.NewMetricFactory("c18qfull_out_", nil, nil),
		func() (baseoutput.ClosableClientConnection, error) {
			return nil, errors.New("dial tcp: connection refused")
		}, 0)
	consumer.Start()
	ids := make([]string, p)
	for i := range ids {
		ids[i] = fmt.Sprintf("%019d-%08d.qf", 1000+i, 0)
	}
	var accepted int64
	stopped := make(chan struct{})
	t0 := time.Now()
	go func() { // the processing worker, then the chain procWorker.Stopped().Next(Destroy)
		for i := 0; i < p; i++ {
			buf.Accept(base.LogChunk{ID: ids[i], Data: []byte(fmt.Sprintf("content-of-chunk-%04d", i)), Saved: false})
			atomic.AddInt64(&accepted, 1)
			if i%3 == 2 {
				time.Sleep(200 * time.Microsecond) // let the feeder move chunks into the window now and then
			}
		}
		buf.Destroy()
		close(stopped)
	}()
	select {
	case <-stopped:
		o.Done = true
	case <-time.After(c18WaitDeadlineMs * time.Millisecond):
	}
	o.ElapsedMs = time.Since(t0).Milliseconds()
	readDropped := func() int64 {
		var d int64
		if mfs, gerr := factory.Gather(); gerr == nil {
			for _, mf := range mfs {
				if strings.HasSuffix(mf.GetName(), "dropped_chunks_total") {
					for _, m := range mf.Metric {
						d += int64(e2eMetricValue(m))
					}
				}
			}
		}
		return d
	}
	if !o.Done {
		qn, wn, closed := hybridbuffer.VerifPeek(buf)
		o.Dropped = readDropped()
		fail("c18:queue-full:did-not-complete", "the pipeline did not stop within %d ms: the worker returned from %d of %d Accept calls (queue %d/%d, window %d/%d, inputClosed=%t): Accept waits on a full queue for a signal that is raised only by Destroy(), which runs only after the worker has ended - Orchestrator.Shutdown() never returns and the chunks in memory are never saved",
			c18WaitDeadlineMs, atomic.LoadInt64(&accepted), p, qn, q, wn, w, closed)
		return o
	}
	if !consumer.Stopped().Wait(5 * time.Second) {
		o.Note = "consumer-not-stopped"
	}
	o.Dropped = readDropped()
	for _, id := range ids {
		if _, serr := os.Stat(qdir + "/" + id); serr == nil {
			o.Files++
		}
	}
	if o.ElapsedMs > c18WaitSlackMs {
		fail("c18:queue-full:too-slow", "worker end + Destroy took %d ms (bound: 0 ticks + %d ms slack)", o.ElapsedMs, c18WaitSlackMs)
	}
	if !buf.Stopped().Peek() {
		fail("c18:queue-full:destroy-deadline", "Destroy returned after %d ms with the feeder still running", o.ElapsedMs)
	} else if o.Files+o.Dropped < o.P {
		fail("c18:queue-full:chunk-only-in-memory", "%d chunks produced, %d are files in the queue directory, %d counted dropped: %d chunks neither saved nor counted",
			o.P, o.Files, o.Dropped, o.P-o.Files-o.Dropped)
	}
	return o
}

// ---------------------------------------------------------------------------------------------------------------
// kind 4: a connection that registers after the stop request

type c18LsnrReceiver struct {
	mu      sync.Mutex
	gated   bool
	release chan struct{}
	entered chan struct{}
}

type c18LsnrSink struct{}

func (*c18LsnrSink) Accept([]byte) {}
func (*c18LsnrSink) Flush()        {}
func (*c18LsnrSink) Close()        {}

func (r *c18LsnrReceiver) NewSink(string, base.ClientNumber) base.MessageReceiverSink {
	r.mu.Lock()
	gated, rel := r.gated, r.release
	r.mu.Unlock()
	r.entered <- struct{}{}
	if gated {
		<-rel
	}
	return &c18LsnrSink{}
}

type c18LsnrObs struct {
	E, L, D, Sending int64
	Stopped          bool
	Closed           int64
	ElapsedMs        int64
	Fails            []Fail
	Note             string
}

func (o *c18LsnrObs) z(seed uint64, idx int) []int64 {
	return []int64{int64(seed), int64(idx), o.E, o.L, o.D, o.Sending, b2i(o.Stopped), o.Closed}
}

func c18LsnrOut(z []int64) string {
	if len(z) < 8 {
		return "badcase"
	}
	e, l, st, closed := z[2], z[3], z[6], z[7]
	if e < 0 || l < 0 || e > 10000 || l > 10000 || closed < 0 {
		return "badcase"
	}
	s := 0
	if st != 0 {
		s = 1
	}
	return fmt.Sprintf("ok:stopped=%d;closed=%d;conns=%d", s, closed, e+l)
}

func c18RunLsnr(e, l, d int, sending bool) *c18LsnrObs {
	o := &c18LsnrObs{E: int64(e), L: int64(l), D: int64(d), Sending: b2i(sending)}
	mode := "idle"
	if sending {
		mode = "sending"
	}
	desc := fmt.Sprintf("tcpLineListener: %d connections established, %d more accepted and still inside receiver.NewSink() when the stop request is signalled, NewSink released %d ms later, clients stay connected (%s)", e, l, d, mode)
	fail := func(sig, format string, a ...interface{}) {
		o.Fails = append(o.Fails, Fail{Sig: sig, Desc: desc + ": " + fmt.Sprintf(format, a...)})
	}
	e2eQuietLogs()
	e2eApplyParams(e2eDefaultParams())
	stop := channels.NewSignalAwaitable()
	recv := &c18LsnrReceiver{release: make(chan struct{}), entered: make(chan struct{}, e+l+4)}
	lsnr, addr, err := tcplistener.NewTCPLineListener(logger.Root(), "localhost:0", func([]byte) bool { return true }, recv, stop)
	if err != nil {
		o.Note = "not-staged:listen"
		return o
	}
	lsnr.Start()
	var conns []net.Conn
	var closedCount int64
	var wg sync.WaitGroup
	quit := make(chan struct{})
	staged := true
	dial := func(n int) {
		for i := 0; i < n && staged; i++ {
			c, derr := net.DialTimeout("tcp", addr, 3*time.Second)
			if derr != nil {
				staged = false
				return
			}
			conns = append(conns, c)
			select {
			case <-recv.entered:
			case <-time.After(5 * time.Second):
				staged = false
			}
		}
	}
	dial(e)
	recv.mu.Lock()
	recv.gated = true
	recv.mu.Unlock()
	dial(l)
	cleanup := func() {
		close(quit)
		for _, c := range conns {
			_ = c.Close()
		}
		wg.Wait()
	}
	if !staged {
		o.Note = "not-staged:connect"
		stop.Signal()
		close(recv.release)
		cleanup()
		lsnr.Stopped().Wait(5 * time.Second)
		return o
	}
	// the clients: stay connected; a reader notices the close by the listener (EOF / reset)
	for i, c := range conns {
		wg.Add(1)
		go func(i int, c net.Conn) {
			defer wg.Done()
			b := make([]byte, 64)
			_, rerr := c.Read(b)
			select {
			case <-quit: // closed by the harness
			default:
				if rerr != nil {
					atomic.AddInt64(&closedCount, 1)
				}
			}
		}(i, c)
		if sending {
			wg.Add(1)
			go func(i int, c net.Conn) {
				defer wg.Done()
				for k := 0; ; k++ {
					select {
					case <-quit:
						return
					default:
					}
					if _, werr := c.Write([]byte(fmt.Sprintf("<6>1 2020-01-01T00:00:00Z h a p - - line %d of client %d\n", k, i))); werr != nil {
						return
					}
					time.Sleep(5 * time.Millisecond)
				}
			}(i, c)
		}
	}
	t0 := time.Now()
	stop.Signal()
	if d > 0 {
		time.Sleep(time.Duration(d) * time.Millisecond)
	}
	t1 := time.Now()
	close(recv.release)
	o.Stopped = lsnr.Stopped().Wait(c18WaitDeadlineMs * time.Millisecond)
	o.ElapsedMs = time.Since(t1).Milliseconds()
	if o.Stopped {
		// the closes are visible to the clients shortly after
		dl := time.Now().Add(2 * time.Second)
		for atomic.LoadInt64(&closedCount) < int64(e+l) && time.Now().Before(dl) {
			time.Sleep(2 * time.Millisecond)
		}
	}
	o.Closed = atomic.LoadInt64(&closedCount)
	cleanup()
	if !o.Stopped {
		fail("c18:listener:did-not-stop", "the input did not report Stopped() within %d ms after NewSink returned (stop request %d ms before that); %d of %d client connections were closed by the listener: a connection whose sink was still being set up when the stop request fired is never closed, its reader loops on the flush timeouts while the client stays connected, and shutdownInputs() (WaitForever) blocks for ever",
			c18WaitDeadlineMs, t1.Sub(t0).Milliseconds(), o.Closed, e+l)
		lsnr.Stopped().Wait(5 * time.Second) // the harness closed the clients: the listener ends now
		return o
	}
	if o.ElapsedMs > c18WaitSlackMs {
		fail("c18:listener:too-slow", "Stopped() came %d ms after NewSink returned (bound: 0 ticks + %d ms slack)", o.ElapsedMs, c18WaitSlackMs)
	}
	if o.Closed < int64(e+l) {
		fail("c18:listener:connection-not-closed", "Stopped() was signalled but only %d of %d client connections were closed", o.Closed, e+l)
	}
	return o
}

// ---------------------------------------------------------------------------------------------------------------

var c18QFullCache = map[string]*c18QFullObs{}
var c18LsnrCache = map[string]*c18LsnrObs{}

func c18GenStopWaits(g *Gen) {
	only := os.Getenv("C18_ONLY")
	verbose := os.Getenv("C18_VERBOSE") != ""
	rounds := g.Pick(1, 4)
	idx := 3000
	if only == "" || only == "qfull" {
		type scen struct{ q, w, p int }
		var scens []scen
		qs, ws := []int{1, 4}, []int{1, 2}
		if g.Thorough() {
			qs, ws = []int{1, 2, 4, 16, 64}, []int{1, 2, 4, 8}
		}
		for _, q := range qs {
			for _, w := range ws {
				for _, p := range []int{q, q + w + 1, q + w + 2, q + w + 9, 3*q + 40} {
					scens = append(scens, scen{q, w, p})
				}
			}
		}
		scens = append(scens, scen{4, 2, 12}, scen{8, 4, 0}, scen{8, 4, 1}) // the demonstration's sizes; nothing / one chunk
		var maxMs int64
		hangs := 0
		for round := 0; round < rounds; round++ {
			for _, sc := range scens {
				if hangs >= c18WaitMaxHangs {
					g.Count("queue-full-skipped-after-hangs")
					continue
				}
				o := c18RunQFull(sc.q, sc.w, sc.p)
				if !o.Done && o.Note == "" {
					hangs++
				}
				z := o.z(g.Seed, idx)
				idx++
				cs := &Case{Kind: 3, Z: z}
				c18QFullCache[cs.Line()] = o
				g.Case(3, nil, z)
				g.Count(fmt.Sprintf("queue-full-q%d-w%d", sc.q, sc.w))
				if o.Dropped > 0 {
					g.Count("queue-full-overflowed")
				}
				if o.Note != "" {
					g.Count(o.Note)
				}
				if o.ElapsedMs > maxMs && o.Done {
					maxMs = o.ElapsedMs
				}
				if verbose {
					fmt.Fprintf(os.Stderr, "c18 qfull q=%-3d w=%-2d p=%-4d done %v files %d dropped %d %d ms fails %d %s\n", sc.q, sc.w, sc.p, o.Done, o.Files, o.Dropped, o.ElapsedMs, len(o.Fails), o.Note)
				}
			}
		}
		g.dist["max-stop-ms queue-full"] = int(maxMs)
	}
	if only == "" || only == "lsnr" {
		type scen struct {
			e, l, d int
			s       bool
		}
		scens := []scen{{0, 1, 0, false}, {0, 1, 300, false}, {1, 1, 30, true}, {2, 0, 0, false}, {3, 2, 100, false}, {0, 5, 30, true}, {1, 3, 1, false}}
		if g.Thorough() {
			for _, e := range []int{0, 1, 4} {
				for _, l := range []int{1, 2, 8} {
					for _, d := range []int{0, 5, 60, 400} {
						scens = append(scens, scen{e, l, d, (e+l+d)%2 == 0})
					}
				}
			}
		}
		idx = 4000
		var maxMs int64
		hangs := 0
		for round := 0; round < rounds; round++ {
			for _, sc := range scens {
				if hangs >= c18WaitMaxHangs {
					g.Count("listener-skipped-after-hangs")
					continue
				}
				o := c18RunLsnr(sc.e, sc.l, sc.d, sc.s)
				if !o.Stopped && o.Note == "" {
					hangs++
				}
				z := o.z(g.Seed, idx)
				idx++
				cs := &Case{Kind: 4, Z: z}
				c18LsnrCache[cs.Line()] = o
				g.Case(4, nil, z)
				g.Count(fmt.Sprintf("listener-late-register-e%d-l%d", sc.e, sc.l))
				if o.Note != "" {
					g.Count(o.Note)
				}
				if o.ElapsedMs > maxMs && o.Stopped {
					maxMs = o.ElapsedMs
				}
				if verbose {
					fmt.Fprintf(os.Stderr, "c18 lsnr e=%d l=%d d=%d sending=%v stopped %v closed %d %d ms fails %d %s\n", sc.e, sc.l, sc.d, sc.s, o.Stopped, o.Closed, o.ElapsedMs, len(o.Fails), o.Note)
				}
			}
		}
		g.dist["max-stop-ms listener-late-register"] = int(maxMs)
	}
	// ---- sweep of the replays (no run: z[0] = -1) ----
	r := g.R
	m := g.Pick(200, 3000)
	for i := 0; i < m; i++ {
		q, w, p := int64(r.Intn(9)), int64(r.Intn(5)), int64(r.Intn(30))
		over := p - q
		if over < 0 {
			over = 0
		}
		dropped := int64(0)
		if over > 0 {
			dropped = int64(r.Intn(int(over) + 1))
		}
		if r.Intn(10) == 0 {
			dropped += int64(r.Intn(3))
		}
		out := g.Case(3, nil, []int64{-1, int64(i), q, w, p, 1, p - dropped, dropped})
		if j := strings.IndexByte(out, ':'); j > 0 {
			g.Count("queue-full-sweep-" + out[:j])
		} else if out != "" {
			g.Count("queue-full-sweep-" + out)
		}
		e, l := int64(r.Intn(6)), int64(r.Intn(6))
		g.Case(4, nil, []int64{-1, int64(i), e, l, int64(r.Intn(100)), int64(r.Intn(2)), 1, e + l})
		g.Count("listener-sweep")
	}
}

func c18RunStopWaitCase(c *Case) (string, []Fail) {
	if c.Kind == 3 {
		out := c18QFullOut(c.Z)
		if len(c.Z) < 8 || c.Z[0] < 0 || out == "badcase" {
			return out, nil
		}
		if o, ok := c18QFullCache[c.Line()]; ok {
			return out, o.Fails
		}
		if c.Z[2] < 1 || c.Z[3] < 1 || c.Z[2] > 10000 || c.Z[3] > 10000 || c.Z[4] > 50000 {
			return out, nil
		}
		return out, c18RunQFull(int(c.Z[2]), int(c.Z[3]), int(c.Z[4])).Fails
	}
	out := c18LsnrOut(c.Z)
	if len(c.Z) < 8 || c.Z[0] < 0 || out == "badcase" {
		return out, nil
	}
	if o, ok := c18LsnrCache[c.Line()]; ok {
		return out, o.Fails
	}
	if c.Z[2] > 200 || c.Z[3] > 200 || c.Z[4] < 0 || c.Z[4] > 2000 {
		return out, nil
	}
	return out, c18RunLsnr(int(c.Z[2]), int(c.Z[3]), int(c.Z[4]), c.Z[5] != 0).Fails
}
