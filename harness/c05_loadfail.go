package main

// C05 — transient load failures of spilled chunks (follow-up to the missed seed C05/8: a chunk whose file cannot be
// read is put aside by the feeder and retried BEHIND the chunks queued after it).
//
// kind 9 "load failure" (component level): the REAL hybrid buffer (hybridbuffer.Config.NewBufferer: bufferer,
//   outputFeeder, chunkManager, chunkOperator).  n chunks of one pipeline are on disk and queued in creation order -
//   mode 0: spilled by Accept (window 0 or 1: NumOutput() >= window/2 always holds) with a consumer that does not read
//   yet; mode 1: a backlog written by a first life and recovered by Start().  The feeder can hold at most window+1
//   chunks (window in outputChannel, one in its hand) before the consumer reads, so every chunk of rank > window is
//   still an unloaded entry of inputChannel: the files of the chunks in the fault set (ranks > window, never the last
//   one) are moved out of the queue directory - the read fails when the feeder reaches them (ENOENT standing in for
//   EMFILE/EIO).  The consumer then reads; the file of rank j is moved back the moment the consumer has received
//   `delay` + 1 chunks NEWER than j (the feeder has passed j by then: it takes the queue in order), or never (delay -1).
//   After everything expected has arrived two newer chunks are accepted one after the other, each awaited (the queue is
//   empty in between: the moment a deferred retry would happen), then the buffer is destroyed; the consumer records the
//   order in which the window hands the chunks out (= transmission order on the upstream connection) until the channel
//   is closed.
//   Z = seed, n, window, mode, then pairs (rank, delay).
//   Output "ok:load:<ranges>;lost=<count>" = creation ranks in transmission order as maximal runs and the number of
//   chunks never handed out; predicted by Model/FeederLoad.v (run_loadfail_case).
//   Oracle (independent of the model): chunk ids strictly increasing in transmission order.  A chunk that is never
//   delivered is a loss (permitted here: the read failed; counted), a chunk delivered AFTER a newer one is the
//   violation - c05:late-after-load-failure.

import (
	"fmt"
	"os"
	"path/filepath"
	"sort"
	"strings"
	"sync"
	"sync/atomic"
	"time"

	"github.com/c2h5oh/datasize"
	"github.com/relex/gotils/logger"
	"github.com/relex/gotils/promexporter/promreg"
	"github.com/relex/slog-agent/base"
	"github.com/relex/slog-agent/buffer/hybridbuffer"
	"github.com/relex/slog-agent/defs"
)

var c05LoadCounter int64

func c05LoadFailCase(z []int64) (string, []Fail) {
	if len(z) < 4 || (len(z)-4)%2 != 0 || z[1] < 1 || z[1] > 5000 || z[2] < 0 || z[2] > 4096 || z[3] < 0 || z[3] > 1 {
		return "badcase", nil
	}
	seed, n, w, mode := int(z[0]), int(z[1]), int(z[2]), int(z[3])
	if mode == 0 && w > 1 {
		return "badcase", nil
	}
	delayOf := map[int]int{}
	var hidden []int
	for i := 4; i < len(z); i += 2 {
		j, d := int(z[i]), int(z[i+1])
		// strictly increasing ranks, beyond the reach of the feeder before the consumer reads, never the last chunk
		if j <= w || j >= n-1 || d < -1 || d > 64 || (len(hidden) > 0 && j <= hidden[len(hidden)-1]) {
			return "badcase", nil
		}
		hidden = append(hidden, j)
		delayOf[j] = d
	}
	harness := func(err error) (string, []Fail) { return "err:harness", []Fail{{"c05:harness", err.Error()}} }
	e2eQuietLogs()
	root, err := os.MkdirTemp("", "c05f-")
	if err != nil {
		return harness(err)
	}
	defer os.RemoveAll(root)
	ep := e2eDefaultParams()
	ep.QueueLen = n + 64
	ep.MemLen = w
	e2eApplyParams(ep)
	defs.BufferMaxNumChunksInMemory = w // 0 is a legal value here (unbuffered window), e2eApplyParams reads 0 as default
	cfg := &hybridbuffer.Config{RootPath: root, MaxBufSize: datasize.GB}
	match := func(id string) bool { return strings.HasSuffix(id, ".ff") }
	var faults []string
	for _, j := range hidden {
		if delayOf[j] < 0 {
			faults = append(faults, fmt.Sprintf("#%d never readable again", j))
		} else {
			faults = append(faults, fmt.Sprintf("#%d readable again after %d newer chunks were delivered", j, delayOf[j]+1))
		}
	}
	what := fmt.Sprintf("load failure seed %d (%d spilled chunks #0..#%d of one pipeline, %s, window %d; file unreadable when the feeder reaches it: %s)",
		seed, n, n-1, []string{"spilled by Accept", "recovered backlog"}[mode], w, strings.Join(faults, "; "))

	stamp0 := time.Now().UnixNano()
	rankOf := map[string]int{}
	var ids []string
	newChunk := func() base.LogChunk {
		r := len(ids)
		id := fmt.Sprintf("%019d-%08d.ff", stamp0+int64(r)*1000, 0)
		rankOf[id] = r
		ids = append(ids, id)
		return base.LogChunk{ID: id, Data: []byte(fmt.Sprintf("c05 chunk of record 0.%d", r)), Saved: false}
	}
	newBuf := func() base.ChunkBufferer {
		factory := promreg.NewMetricFactory(fmt.Sprintf("c05load%d_", atomic.AddInt64(&c05LoadCounter, 1)), nil, nil)
		return cfg.NewBufferer(logger.Root(), "ka", match, factory, false)
	}
	destroy := func(buf base.ChunkBufferer) bool {
		done := make(chan struct{})
		go func() { buf.Destroy(); close(done) }()
		select {
		case <-done:
		case <-time.After(40 * time.Second):
			return false
		}
		return buf.Stopped().Wait(20 * time.Second)
	}

	if mode == 1 {
		buf := newBuf()
		buf.Start()
		for i := 0; i < n; i++ {
			buf.Accept(newChunk())
		}
		if !destroy(buf) {
			return "err:stop-hang", []Fail{{"c05:stop-hang", what + ": the first buffer did not stop"}}
		}
	}
	buf := newBuf()
	buf.Start()
	args := buf.RegisterNewConsumer()
	if mode == 0 {
		for i := 0; i < n; i++ {
			buf.Accept(newChunk())
		}
	}
	// locate the queue directory through the file of the last chunk (it is always on disk and still queued)
	var qdir string
	_ = filepath.Walk(root, func(p string, info os.FileInfo, err error) error {
		if err == nil && !info.IsDir() && filepath.Base(p) == ids[n-1] {
			qdir = filepath.Dir(p)
		}
		return nil
	})
	if qdir == "" {
		destroy(buf)
		return harness(fmt.Errorf("%s: chunk file %s not found under %s", what, ids[n-1], root))
	}
	away := filepath.Join(root, "away")
	if err := os.MkdirAll(away, 0o755); err != nil {
		return harness(err)
	}
	for _, j := range hidden {
		if err := os.Rename(filepath.Join(qdir, ids[j]), filepath.Join(away, ids[j])); err != nil {
			destroy(buf)
			return harness(fmt.Errorf("%s: chunk #%d is not a file in the queue directory: %v", what, j, err))
		}
	}

	// the consumer: records the order, acknowledges everything, restores files at the moments of the script
	var mu sync.Mutex
	var got []base.LogChunk
	progress := make(chan struct{}, 1)
	consDone := make(chan struct{})
	var restoreErr error
	go func() {
		defer close(consDone)
		newerSeen := map[int]int{}
		restored := map[int]bool{}
		deadline := time.After(40 * time.Second)
		for {
			select {
			case c, ok := <-args.InputChannel:
				if !ok {
					args.OnFinished()
					return
				}
				r, known := rankOf[c.ID]
				if known {
					for _, j := range hidden {
						if r > j && delayOf[j] >= 0 && !restored[j] {
							newerSeen[j]++
							if newerSeen[j] > delayOf[j] {
								restored[j] = true
								if err := os.Rename(filepath.Join(away, ids[j]), filepath.Join(qdir, ids[j])); err != nil && restoreErr == nil {
									restoreErr = err
								}
							}
						}
					}
				}
				mu.Lock()
				got = append(got, c)
				mu.Unlock()
				args.OnChunkConsumed(c)
				select {
				case progress <- struct{}{}:
				default:
				}
			case <-deadline:
				args.OnFinished()
				return
			}
		}
	}()
	// wait (event: a delivery) until `cond` holds on the deliveries so far
	waitFor := func(cond func(l []base.LogChunk) bool) bool {
		deadline := time.After(30 * time.Second)
		for {
			mu.Lock()
			ok := cond(got)
			mu.Unlock()
			if ok {
				return true
			}
			select {
			case <-progress:
			case <-consDone:
				return false
			case <-deadline:
				return false
			}
		}
	}
	has := func(id string) func(l []base.LogChunk) bool {
		return func(l []base.LogChunk) bool {
			for _, c := range l {
				if c.ID == id {
					return true
				}
			}
			return false
		}
	}
	complete := waitFor(has(ids[n-1])) // the last chunk is never in the fault set
	for s := 0; s < 2 && complete; s++ {
		// the queue is empty now; give a feeder that has something put aside the moment to come back to it
		time.Sleep(2 * time.Millisecond)
		c := newChunk()
		buf.Accept(c)
		complete = waitFor(has(c.ID))
	}
	if complete {
		time.Sleep(30 * time.Millisecond) // affects detection only: nothing may arrive any more on a correct feeder
	}
	if !destroy(buf) {
		return "err:stop-hang", []Fail{{"c05:stop-hang", what + ": the buffer did not stop"}}
	}
	select {
	case <-consDone:
	case <-time.After(20 * time.Second):
		return "err:stop-hang", []Fail{{"c05:stop-hang", what + ": the consumer did not see its channel closed"}}
	}
	if restoreErr != nil {
		return harness(fmt.Errorf("%s: cannot move a chunk file back: %v", what, restoreErr))
	}

	var fails []Fail
	ranks := make([]int, len(got))
	delivered := map[int]bool{}
	for i, c := range got {
		r, ok := rankOf[c.ID]
		if !ok {
			r = -1
		}
		ranks[i] = r
		delivered[r] = true
	}
	lost := 0
	for r := range ids {
		if !delivered[r] {
			lost++
		}
	}
	if !complete {
		fails = append(fails, Fail{"c05:stuck", fmt.Sprintf("%s: the chunks queued behind the failed ones did not reach the consumer within 30 s; transmission order %s", what, c05Ranges(ranks))})
		return "err:stuck", fails
	}
	for i := 1; i < len(got); i++ {
		if got[i-1].ID >= got[i].ID {
			// name the oldest chunk that came late
			sorted := append([]int(nil), ranks[:i]...)
			sort.Ints(sorted)
			fails = append(fails, Fail{"c05:late-after-load-failure", fmt.Sprintf("%s: chunk #%d (id %s) is handed to the consumer, i.e. transmitted, as %d-th chunk AFTER the newer chunk #%d (id %s) of the same pipeline (newest before it: #%d); transmission order %s",
				what, ranks[i], got[i].ID, i+1, ranks[i-1], got[i-1].ID, sorted[len(sorted)-1], c05Ranges(ranks))})
			break
		}
	}
	return fmt.Sprintf("ok:load:%s;lost=%d", c05Ranges(ranks), lost), fails
}
