package main

// C06 generators: exhaustive tuples over a small alphabet with the separators, all pairs that the code could
// confuse (equal concatenation, equal ","-join, equal sanitised id), random byte-string tuples, shuffled
// arrival orders over several sinks, restart with arbitrary initial IDs, constructed queue roots.

import (
	"strings"
)

// c06AlphabetU: key values around well-formed / ill-formed UTF-8. Since b1856f7 the metric label values are the key
// values without their ill-formed bytes, so different tuples over this alphabet have equal label values
// ("a\xff" / "a\xfe" / "a"; "\xff" / "\xc3" / ""), while pipelines, ids, tags and queue directories must stay apart.
var c06AlphabetU = []string{"", "a", "\xff", "a\xff", "a\xfe", "\xffa", "\xc3\xa9", "\xc3", "\xef\xbf\xbd", "a\xef\xbf\xbd\x80",
	"\xed\xa0\x80", "\xc0\x80", "\xe2\x82", "\xf0\x9f\x98\x80", "\xf4\x90\x80\x80"}

var c06Alphabet = []string{"", "a", "b", "ab", ",", "a,b", "/", "\x00"}

var c06DefaultNames = []string{"k0", "k1", "k2"}

func c06Templates(n int) []string {
	switch n {
	case 1:
		return []string{"$k0", "t.${k0}", "${k0[:1]}-$k0", "${k0[-1:]}x${k0[1:]}", "fixed"}
	case 2:
		return []string{"$k0-$k1", "$k0$k1", "$k1.$k0", "${k0[:1]}.$k1", "$k0"}
	default:
		return []string{"$k0.$k1.$k2", "$k0$k1$k2", "x-${k2}-${k0[1:]}_${k1[:-1]}"}
	}
}

func c06AllTuples(n int, alpha []string) [][]string {
	if n == 0 {
		return [][]string{{}}
	}
	var out [][]string
	for _, rest := range c06AllTuples(n-1, alpha) {
		for _, a := range alpha {
			out = append(out, append(append([]string{}, rest...), a))
		}
	}
	return out
}

func c06B(xs ...string) [][]byte {
	out := make([][]byte, len(xs))
	for i, x := range xs {
		out[i] = []byte(x)
	}
	return out
}

func c06Flat(tuples [][]string) []string {
	var out []string
	for _, t := range tuples {
		out = append(out, t...)
	}
	return out
}

func (g *Gen) c06Route(cls, tmpl string, names []string, inits []string, tuples [][]string, nsinks int, sinks []int) {
	g.Count("route:" + cls)
	n := len(names)
	s := []string{tmpl}
	s = append(s, names...)
	s = append(s, inits...)
	s = append(s, c06Flat(tuples)...)
	z := []int64{int64(n), int64(nsinks), int64(len(inits))}
	for i := range tuples {
		si := 0
		if i < len(sinks) {
			si = sinks[i]
		}
		z = append(z, int64(si))
	}
	g.Case(1, c06B(s...), z)
}

func (g *Gen) c06Disk(cls, tmpl string, names []string, tuples [][]string, umask int) {
	g.Count("disk:" + cls)
	s := []string{tmpl}
	s = append(s, names...)
	s = append(s, c06Flat(tuples)...)
	g.Case(2, c06B(s...), []int64{int64(len(names)), int64(umask)})
}

func (g *Gen) c06E2E(cls, tmpl string, names []string, tuples [][]string, mode int) {
	g.Count("e2e:" + cls)
	s := []string{tmpl}
	s = append(s, names...)
	s = append(s, c06Flat(tuples)...)
	g.Case(5, c06B(s...), []int64{int64(len(names)), int64(mode)})
}

func (g *Gen) c06Key(cls string, n int, tuples [][]string) {
	g.Count("key:" + cls)
	withCounter := 1 // (was 0 for ill-formed UTF-8 until b1856f7: SelectMetricKeySet does not break the registry any more)
	g.Case(6, c06B(c06Flat(tuples)...), []int64{int64(n), int64(withCounter)})
}

// c06Pooled: records built as syslog lines of the given sizes, parsed by the real parser with the pooled allocator
func (g *Gen) c06Pooled(cls, tmpl string, names []string, tuples [][]string, sizes []int, mode int) {
	g.Count("pooled:" + cls)
	s := []string{tmpl}
	s = append(s, names...)
	s = append(s, c06Flat(tuples)...)
	z := []int64{int64(len(names)), int64(mode)}
	for i := range tuples {
		sz := 1500
		if i < len(sizes) {
			sz = sizes[i]
		}
		z = append(z, int64(sz))
	}
	if g.Case(7, c06B(s...), z) != "" && mode == 0 {
		for i := 0; i < c06PoolStats.records; i++ {
			g.Count("pooled:records-over-1024-bytes")
		}
		for i := 0; i < c06PoolStats.reused; i++ {
			g.Count("pooled:records-parsed-into-a-recycled-buffer")
		}
	}
}

func (g *Gen) c06Metric(cls string, names []string, tuples [][]string) {
	g.Count("metric:" + cls)
	s := append([]string{}, names...)
	s = append(s, c06Flat(tuples)...)
	g.Case(4, c06B(s...), []int64{int64(len(names))})
}

// candidate pairs: distinct tuples with equal concatenation, equal ","-join or equal sanitised join
func c06CandidatePairs(tuples [][]string) [][2][]string {
	var out [][2][]string
	groups := func(key func([]string) string) {
		m := map[string][][]string{}
		var order []string
		for _, t := range tuples {
			k := key(t)
			if _, ok := m[k]; !ok {
				order = append(order, k)
			}
			m[k] = append(m[k], t)
		}
		for _, k := range order {
			ts := m[k]
			for i := 0; i < len(ts); i++ {
				for j := 0; j < len(ts); j++ {
					if i != j {
						out = append(out, [2][]string{ts[i], ts[j]})
					}
				}
			}
		}
	}
	groups(func(t []string) string { return strings.Join(t, "") })
	groups(func(t []string) string { return strings.Join(t, ",") })
	groups(func(t []string) string {
		return strings.NewReplacer("/", "_", "\x00", "_").Replace(strings.Join(t, ","))
	})
	return out
}

func (g *Gen) c06RandKey() string {
	r := g.R
	switch r.Intn(10) {
	case 0:
		return ""
	case 1, 2:
		return r.PickStr(c06Alphabet)
	case 3, 4, 5:
		return string(r.Bytes(r.Range(1, 4), []byte("ab,")))
	case 6:
		return string(r.Bytes(r.Range(1, 6), []byte("ab,/\x00_.$\\ ")))
	case 7:
		n := r.PickInt([]int{1, 2, 15, 16, 17, 31, 32, 33, 64})
		b := make([]byte, n)
		for i := range b {
			b[i] = byte(r.Intn(256))
		}
		return string(b)
	default:
		n := r.Range(1, 10)
		b := make([]byte, n)
		for i := range b {
			b[i] = byte(r.Intn(256))
		}
		return string(b)
	}
}

func (g *Gen) c06RandTupleNoSpace(n int) []string {
	t := g.c06RandTuple(n)
	for j := range t {
		t[j] = strings.NewReplacer(" ", "_", "\n", "_").Replace(t[j])
		if len(t[j]) > 100 {
			t[j] = t[j][:100]
		}
	}
	return t
}

func (g *Gen) c06RandTuple(n int) []string {
	t := make([]string, n)
	for i := range t {
		t[i] = g.c06RandKey()
	}
	return t
}

// c06Resplit: cut one string at n-1 random points: tuples with equal concatenation
func (g *Gen) c06Resplit(s string, n int) []string {
	cuts := make([]int, n-1)
	for i := range cuts {
		cuts[i] = g.R.Intn(len(s) + 1)
	}
	for i := 0; i < len(cuts); i++ {
		for j := i + 1; j < len(cuts); j++ {
			if cuts[j] < cuts[i] {
				cuts[i], cuts[j] = cuts[j], cuts[i]
			}
		}
	}
	t := make([]string, 0, n)
	prev := 0
	for _, c := range cuts {
		t = append(t, s[prev:c])
		prev = c
	}
	return append(t, s[prev:])
}

// a related group of tuples: random ones, re-splits of one string, and comma re-splits
func (g *Gen) c06RandGroup(n, size int, utf8Only bool) [][]string {
	r := g.R
	var out [][]string
	for len(out) < size {
		switch {
		case n > 1 && r.Chance(1, 3):
			base := g.c06RandKey() + g.c06RandKey()
			if base == "" {
				base = "ab"
			}
			out = append(out, g.c06Resplit(base, n), g.c06Resplit(base, n))
		case n > 1 && r.Chance(1, 4):
			// "a,b"+"c" against "a"+"b,c": same join
			t := g.c06RandTuple(n)
			joined := strings.Join(t, ",") + "," + g.c06RandKey()
			parts := strings.Split(joined, ",")
			for k := 0; k < 2 && len(parts) >= n; k++ {
				// merge random adjacent parts until n remain
				p := append([]string{}, parts...)
				for len(p) > n {
					i := r.Intn(len(p) - 1)
					p = append(append(append([]string{}, p[:i]...), p[i]+","+p[i+1]), p[i+2:]...)
				}
				out = append(out, p)
			}
		default:
			out = append(out, g.c06RandTuple(n))
		}
	}
	if utf8Only {
		for _, t := range out {
			for i, k := range t {
				t[i] = strings.ToValidUTF8(k, "é")
			}
		}
	}
	return out
}

func (g *Gen) c06Shuffle(ts [][]string) [][]string {
	out := append([][]string{}, ts...)
	for i := len(out) - 1; i > 0; i-- {
		j := g.R.Intn(i + 1)
		out[i], out[j] = out[j], out[i]
	}
	return out
}

func (g *Gen) c06RandSinks(n, nsinks int) []int {
	s := make([]int, n)
	for i := range s {
		s[i] = g.R.Intn(nsinks)
	}
	return s
}

func c06Gen(g *Gen) {
	r := g.R
	// ------------------------------------------------------------------ fixed probes (the design's witnesses)
	n2 := c06DefaultNames[:2]
	n1 := c06DefaultNames[:1]
	g.c06Route("probe", "$k0-$k1", n2, nil, [][]string{{"ab", "c"}, {"a", "bc"}}, 1, nil)
	g.c06Route("probe", "$k0-$k1", n2, nil, [][]string{{"", "x"}, {"x", ""}}, 1, nil)
	g.c06Route("probe", "$k0-$k1", n2, nil, [][]string{{"a,b", "c"}, {"a", "b,c"}}, 1, nil)
	g.c06Route("probe", "$k0", n1, nil, [][]string{{""}, {"a"}}, 1, nil)
	g.c06Disk("probe", "$k0-$k1", n2, [][]string{{"ab", "c"}, {"a", "bc"}}, 0o022)
	g.c06Disk("probe", "$k0-$k1", n2, [][]string{{"a,b", "c"}, {"a", "b,c"}}, 0o022)
	g.c06Disk("probe", "$k0", n1, [][]string{{""}}, 0o022)
	g.c06Disk("probe", "$k0", n1, [][]string{{"a"}, {"b"}}, 0o027)
	g.c06Disk("probe", "$k0", n1, [][]string{{"a/b"}, {"a_b"}, {"a\x00b"}}, 0o022)
	g.c06Metric("probe", n2, [][]string{{"ab", "c"}, {"a", "bc"}, {"ab", "c"}})
	g.c06Metric("probe", n2, [][]string{{"", "x"}, {"x", ""}})
	// the witnesses of the label limit: different key sets, equal label values
	g.c06Route("probe-utf8", "$k0", n1, nil, [][]string{{"\xff"}, {"\xfe"}, {"\xff"}}, 1, nil)
	g.c06Route("probe-utf8", "t.$k0", n1, []string{"a\xfe", "a"}, [][]string{{"a\xff"}, {"a\xfe"}, {"a"}, {"a\xff"}}, 2, []int{0, 1, 0, 1})
	g.c06Disk("probe-utf8", "$k0", n1, [][]string{{"a\xff"}, {"a\xfe"}, {"a"}, {"a\xff"}}, 0o022)
	g.c06Metric("probe-utf8", n1, [][]string{{"a\xff"}, {"a\xfe"}, {"a"}, {"a\xff"}, {"\xef\xbf\xbd\xff"}})
	g.c06Metric("probe-utf8", n2, [][]string{{"a\xff", "b"}, {"a", "\xc3b"}, {"a", "b"}, {"a\xff", "b"}})
	g.c06E2E("probe-utf8", "$k0", n1, [][]string{{"a\xff"}, {"a\xfe"}, {"a"}, {"a\xff"}}, 0)
	g.c06E2E("probe-utf8", "$k0", n1, [][]string{{"a\xff"}, {"a\xfe"}, {"a"}, {"a\xff"}}, 1)

	// ------------------------------------------------------------------ concurrent connections (kind 8)
	c06ConcGen(g)

	// ------------------------------------------------------------------ exhaustive over the alphabet
	for n := 1; n <= 3; n++ {
		names := c06DefaultNames[:n]
		all := c06AllTuples(n, c06Alphabet)
		tmpls := c06Templates(n)
		for ti, tmpl := range tmpls {
			if n == 3 && ti > 0 && !g.Thorough() {
				break
			}
			// every tuple in one run (first arrival of each), in enumeration order and shuffled, 1 and 3 sinks
			g.c06Route("all-tuples", tmpl, names, nil, all, 1, nil)
			sh := g.c06Shuffle(append(append([][]string{}, all...), all...))
			g.c06Route("all-tuples-shuffled", tmpl, names, nil, sh, 3, g.c06RandSinks(len(sh), 3))
			if n < 3 || ti == 0 || g.Thorough() {
				g.c06Disk("all-tuples", tmpl, names, all, 0o022)
			}
		}
		g.c06Metric("all-tuples", names, all)
		g.c06Metric("all-tuples-shuffled", names, g.c06Shuffle(append(append([][]string{}, all...), all...)))
		// every ordered pair as its own small case (n = 3: only in the thorough tier; candidates always)
		if n < 3 || g.Thorough() {
			for _, a := range all {
				for _, b := range all {
					for ti, tmpl := range tmpls {
						if ti > 1 || (n == 3 && ti > 0) {
							break
						}
						g.c06Route("all-pairs", tmpl, names, nil, [][]string{a, b, a}, 1, nil)
					}
					if n == 1 || (n == 2 && g.Thorough()) {
						g.c06Disk("all-pairs", tmpls[0], names, [][]string{a, b}, 0o022)
						g.c06Metric("all-pairs", names, [][]string{a, b, a})
					}
				}
			}
		}
		cands := c06CandidatePairs(all)
		for i, p := range cands {
			tmpl := tmpls[i%len(tmpls)]
			g.c06Route("candidate-pairs", tmpl, names, nil, [][]string{p[0], p[1], p[0], p[1]}, 2, []int{0, 0, 1, 1})
			if n < 3 || i%7 == 0 || g.Thorough() {
				g.c06Disk("candidate-pairs", tmpls[0], names, [][]string{p[0], p[1]}, 0o022)
				g.c06Metric("candidate-pairs", names, [][]string{p[0], p[1], p[1]})
			}
		}
	}
	// other key names: "$ab" is the variable ab, not $a followed by "b"
	{
		names := []string{"a", "ab", "b"}
		all := c06AllTuples(3, []string{"", "a", "b", "ab"})
		for _, tmpl := range []string{"$a.$ab.$b", "${a}b$ab", "$b$a", "${ab[1:]}${b[:1]}$a"} {
			g.c06Route("names", tmpl, names, nil, all, 1, nil)
		}
		g.c06Disk("names", "$a.$ab.$b", names, all, 0o022)
	}
	// templates that must be rejected, or that are unusual but legal
	for _, tmpl := range []string{"", "$", "$$k0", "${k0", "$k9", "${k9}", "${k0[1]}", "${k0[a:]}", "x$k0$", "${k0[:]}", "${k0[0:0]}",
		"${k0[-100:100]}", "${k0[3:1]}", "}{", "$k0}", "${k0}}", "${k0[1:2]x}", "${k0 }", "$k0x", "$k0-", "\xff$k0\x00", "$_"} {
		g.c06Route("template", tmpl, n1, nil, [][]string{{"abcdef"}, {""}, {"a"}}, 1, nil)
	}
	g.c06Route("template", "$_", []string{"_"}, nil, [][]string{{"abcdef"}, {""}}, 1, nil)
	g.c06Route("template", "$9", []string{"9"}, nil, [][]string{{"abcdef"}, {""}}, 1, nil)

	// ------------------------------------------------------------------ a second alphabet: bytes that look like length prefixes
	{
		alphaB := []string{"", "\x00", "\x01", "\x01a", "a", "\x02", "\x80", "\x02a"}
		for n := 2; n <= 3; n++ {
			names := c06DefaultNames[:n]
			all := c06AllTuples(n, alphaB)
			g.c06Route("alphabet-b", c06Templates(n)[0], names, nil, all, 1, nil)
			sh := g.c06Shuffle(append(append([][]string{}, all...), all...))
			g.c06Route("alphabet-b", c06Templates(n)[0], names, nil, sh, 2, g.c06RandSinks(len(sh), 2))
			g.c06Metric("alphabet-b", names, all) // with "\x80": ill-formed key bytes are removed from the label values
			g.c06Metric("alphabet-b", names, c06AllTuples(n, []string{"", "\x00", "\x01", "\x01a", "a", "\x02", "\x7f", "\x02a"}))
			for i, p := range c06CandidatePairs(all) {
				if n == 3 && i%5 != 0 && !g.Thorough() {
					continue
				}
				g.c06Route("alphabet-b-pairs", c06Templates(n)[0], names, nil, [][]string{p[0], p[1], p[0]}, 1, nil)
				g.c06Metric("alphabet-b-pairs", names, [][]string{p[0], p[1], p[1]})
			}
		}
	}
	// ------------------------------------------------------------------ a third alphabet: well-formed and ill-formed UTF-8 (label values collide)
	for n := 1; n <= 2; n++ {
		names := c06DefaultNames[:n]
		all := c06AllTuples(n, c06AlphabetU)
		tmpl := c06Templates(n)[0]
		g.c06Route("alphabet-utf8", tmpl, names, nil, all, 1, nil)
		sh := g.c06Shuffle(append(append([][]string{}, all...), all...))
		g.c06Route("alphabet-utf8", tmpl, names, nil, sh, 3, g.c06RandSinks(len(sh), 3))
		g.c06Disk("alphabet-utf8", tmpl, names, all, 0o022)
		g.c06Metric("alphabet-utf8", names, all)
		g.c06Metric("alphabet-utf8", names, g.c06Shuffle(append(append([][]string{}, all...), all...)))
		g.c06Key("alphabet-utf8", n, all)
		if n == 1 || g.Thorough() {
			g.c06E2E("alphabet-utf8", tmpl, names, all, 0)
			g.c06E2E("alphabet-utf8", tmpl, names, g.c06Shuffle(append(append([][]string{}, all...), all...)), 1)
		}
		if n == 1 {
			for _, a := range all {
				for _, b := range all {
					g.c06Route("alphabet-utf8-pairs", tmpl, names, []string{a[0]}, [][]string{a, b, a}, 1, nil)
					g.c06Metric("alphabet-utf8-pairs", names, [][]string{a, b, a})
					if g.Thorough() || len(a[0])+len(b[0]) <= 4 {
						g.c06Disk("alphabet-utf8-pairs", tmpl, names, [][]string{a, b}, 0o022)
					}
				}
			}
			for mode := 0; mode <= 1; mode++ {
				g.c06Pooled("alphabet-utf8", "t.$app", []string{"app"}, append(append([][]string{}, all...), g.c06Shuffle(all)...), nil, mode)
			}
		}
	}
	// ------------------------------------------------------------------ key lengths around the 1/2/3-byte length prefixes
	{
		lens := []int{126, 127, 128, 129, 130, 255, 256, 257} // (the 3-byte prefix starts at 16384: too slow for the list-based model)
		for _, l := range lens {
			long := strings.Repeat("x", l+2)
			var group [][]string
			for d := -2; d <= 2; d++ {
				if l+d >= 0 && l+d <= len(long) {
					group = append(group, []string{long[:l+d], long[l+d:]}) // all with the same concatenation
				}
			}
			group = append(group, []string{long, ""}, []string{"", long})
			g.c06Route("length-boundary", "$k0-$k1", n2, nil, append(append([][]string{}, group...), group...), 2, g.c06RandSinks(2*len(group), 2))
			g.c06Metric("length-boundary", n2, append(append([][]string{}, group...), group[0]))
			g.c06Route("length-boundary", "${k0[:3]}", n1, nil, [][]string{{long[:l]}, {long[:l+1]}, {long[:l]}}, 1, nil)
		}
	}
	// ------------------------------------------------------------------ pairs that collide if the length prefix were cut to one byte / two bytes
	{
		x255 := strings.Repeat("x", 255)
		a := []string{"\x00" + x255, ""}
		b := []string{"", x255 + "\x00"}
		g.c06Route("prefix-truncation", "${k0[:2]}-${k1[:2]}", n2, nil, [][]string{a, b, a, b}, 1, nil)
		g.c06Metric("prefix-truncation", n2, [][]string{a, b, b})
		// a length prefix placed after the value instead of before it
		g.c06Route("prefix-truncation", "$k0-$k1", n2, nil, [][]string{{"a\x01", ""}, {"a", "\x00"}, {"", "a\x01"}, {"\x00", "a"}}, 1, nil)
		g.c06Metric("prefix-truncation", n2, [][]string{{"a\x01", ""}, {"a", "\x00"}, {"", "a\x01"}, {"\x00", "a"}})
	}
	// ------------------------------------------------------------------ random templates over the template alphabet, names that are prefixes of each other
	for i := 0; i < g.Pick(400, 20000); i++ {
		names := [][]string{{"k0"}, {"k", "k0"}, {"k0", "k00", "k"}, {"a", "ab", "b"}, {"_", "_1"}}[r.Intn(5)]
		var sb strings.Builder
		for k := r.Range(1, 5); k > 0; k-- {
			nm := names[r.Intn(len(names))]
			if r.Chance(1, 10) {
				nm = r.PickStr([]string{"k9", "", "K0", "k0k"})
			}
			num := func() string {
				return r.PickStr([]string{"", "", "0", "1", "2", "3", "-1", "-2", "-3", "9", "-9", "01", "-0", "1 ", "+1", "--1", "a"})
			}
			switch r.Intn(12) {
			case 0, 1, 2:
				sb.WriteString("$" + nm)
			case 3, 4:
				sb.WriteString("${" + nm + "}")
			case 5, 6, 7:
				sb.WriteString("${" + nm + "[" + num() + ":" + num() + "]}")
			case 8:
				sb.WriteString(r.PickStr([]string{".", "-", "x", "}", "{", "[", "]", ":", " ", "\xc3\xa9", "lit_"}))
			case 9:
				sb.WriteString(r.PickStr([]string{"$", "$$", "${", "${}", "${" + nm, "${" + nm + "[1:2]", "${" + nm + "[1]}", "${" + nm + "[1:2:3]}", "${" + nm + " }", "${" + nm + "[1:2]x}", "$-"}))
			default:
				sb.WriteString(string(r.Bytes(r.Range(1, 3), []byte("$k0{}[]:-1 ._"))))
			}
		}
		var recs [][]string
		for k := 0; k < 3; k++ {
			t := make([]string, len(names))
			for j := range t {
				t[j] = "abcdef"[:r.Intn(5)] + r.PickStr([]string{"", "", ",", "\x00"})
			}
			recs = append(recs, t)
		}
		g.c06Route("random-template", sb.String(), names, nil, recs, 1, nil)
	}
	// ------------------------------------------------------------------ the merged keys themselves (kind 6)
	{
		for n := 1; n <= 3; n++ {
			g.c06Key("all-tuples", n, c06AllTuples(n, c06Alphabet))
			g.c06Key("alphabet-b", n, c06AllTuples(n, []string{"", "\x00", "\x01", "\x01a", "a", "\x02", "\x7f", "\x02a"}))
		}
		for _, l := range []int{0, 1, 2, 126, 127, 128, 129, 130, 255, 256, 257, 300, 1000} {
			long := strings.Repeat("x", l)
			g.c06Key("length-boundary", 1, [][]string{{long}, {long + "y"}})
			g.c06Key("length-boundary", 2, [][]string{{long, ""}, {"", long}, {long, long}})
		}
		// a prefix cut to one byte; a length suffix instead of a prefix (both collide only on long values)
		x255 := strings.Repeat("x", 255)
		g.c06Key("adversarial", 2, [][]string{{"\x00" + x255, ""}, {"", x255 + "\x00"}})
		x127 := strings.Repeat("x", 127)
		g.c06Key("adversarial", 2, [][]string{{"\x00" + x127, "\x81"}, {"", x127 + "\x80\x01"}})
		g.c06Key("adversarial", 2, [][]string{{"\x00" + x127, "\xc2\x81"}, {"", x127 + "\x80\x01"}})
		g.c06Metric("adversarial", n2, [][]string{{"\x00" + x127, "\x01"}, {"", x127 + "\x01\x01"}, {"\x00" + x127, "\x01"}})
		g.c06Route("adversarial", "${k0[:1]}${k1[:1]}", n2, nil, [][]string{{"\x00" + x127, "\x81"}, {"", x127 + "\x80\x01"}, {"\x00" + x127, "\x81"}}, 1, nil)
		for i := 0; i < g.Pick(500, 20000); i++ {
			n := r.Range(1, 4)
			g.c06Key("random", n, g.c06RandGroup(n, r.Range(2, 8), r.Bool()))
		}
	}
	// ------------------------------------------------------------------ substring expressions: every start/end around the key length
	{
		recs := [][]string{{""}, {"a"}, {"ab"}, {"abc"}, {"abcd"}}
		bound := []string{"", "-5", "-4", "-3", "-2", "-1", "-0", "0", "1", "2", "3", "4", "5", "007"}
		for _, s := range bound {
			for _, e := range bound {
				g.c06Route("substring", "${k0["+s+":"+e+"]}", n1, nil, recs, 1, nil)
				if g.Thorough() || (len(s)+len(e))%2 == 0 {
					g.c06Route("substring", "p${k0["+s+":"+e+"]}-$k0", n1, nil, recs, 1, nil)
				}
			}
		}
	}
	// ------------------------------------------------------------------ long sequences through one orchestrator (more than one flush per sink)
	{
		a, b, c := []string{"ab", "c"}, []string{"a", "bc"}, []string{"abc", ""}
		var seq [][]string
		for i := 0; i < 40; i++ {
			seq = append(seq, a, a, b, a, b, b, c, a, c, c, c, c, c, b)
		}
		g.c06Route("long-sequence", "$k0.$k1", n2, nil, seq, 1, nil)
		g.c06Route("long-sequence", "$k0.$k1", n2, []string{"a,bc", "zz", "ab,c"}, seq, 4, g.c06RandSinks(len(seq), 4))
		g.c06Metric("long-sequence", n2, seq)
		g.c06Disk("long-sequence", "$k0.$k1", n2, seq[:60], 0o022)
	}
	// ------------------------------------------------------------------ smallest inputs; initial ids of every arity
	{
		g.c06Route("smallest", "$k0", n1, nil, nil, 1, nil)
		g.c06Route("smallest", "$k0", n1, nil, [][]string{{""}}, 1, nil)
		g.c06Route("smallest", "x", n1, nil, [][]string{{""}, {""}}, 1, nil)
		g.c06Metric("smallest", n1, nil)
		g.c06Metric("smallest", n1, [][]string{{""}})
		g.c06Disk("smallest", "$k0", n1, nil, 0o022)
		idAlpha := []string{"", "a", ",", "a,", ",a", "a,b", ",,", "a,b,c", "a,,b", ",a,"}
		for n := 1; n <= 3; n++ {
			names := c06DefaultNames[:n]
			tmpl := c06Templates(n)[0]
			recs := [][]string{make([]string, n), strings.Split("a,b,c", ",")[:n]}
			for _, id := range idAlpha {
				g.c06Route("initial-ids-exhaustive", tmpl, names, []string{id}, recs, 1, nil)
				g.c06Route("initial-ids-exhaustive", tmpl, names, []string{id, id}, nil, 1, nil)
			}
			g.c06Route("initial-ids-exhaustive", tmpl, names, idAlpha, recs, 2, []int{1, 0})
		}
	}
	// ------------------------------------------------------------------ the whole pipeline, observed at the consumer
	{
		g.c06E2E("probe", "$k0-$k1", n2, [][]string{{"ab", "c"}, {"a", "bc"}, {"ab", "c"}}, 0)
		g.c06E2E("probe", "$k0-$k1", n2, [][]string{{"ab", "c"}, {"a", "bc"}, {"ab", "c"}}, 1)
		g.c06E2E("probe", "$k0-$k1", n2, [][]string{{"a,b", "c"}, {"a", "b,c"}, {"x", "y"}}, 1)
		g.c06E2E("probe", "$k0", n1, [][]string{{""}, {"a"}}, 1)
		g.c06E2E("probe", "$k0", n1, nil, 1)
		g.c06E2E("probe", "", n1, [][]string{{"a"}}, 0)
		g.c06E2E("probe", "$k1", n1, [][]string{{"a"}}, 0)
		for n := 1; n <= 3; n++ {
			names := c06DefaultNames[:n]
			all := c06AllTuples(n, c06Alphabet)
			for ti, tmpl := range c06Templates(n) {
				if (ti > 1 || (n == 3 && ti > 0)) && !g.Thorough() {
					break
				}
				for mode := 0; mode <= 1; mode++ {
					g.c06E2E("all-tuples", tmpl, names, all, mode)
					if n < 3 || g.Thorough() {
						g.c06E2E("all-tuples-shuffled", tmpl, names, g.c06Shuffle(append(append([][]string{}, all...), all...)), mode)
					}
				}
			}
			for i, p := range c06CandidatePairs(all) {
				if n == 3 && i%11 != 0 && !g.Thorough() {
					continue
				}
				g.c06E2E("candidate-pairs", c06Templates(n)[0], names, [][]string{p[0], p[1], p[0]}, i%2)
			}
		}
		g.c06E2E("names", "$a.$ab.$b", []string{"a", "ab", "b"}, c06AllTuples(3, []string{"", "a", "b", "ab"}), 1)
		// two outputs with their own queue roots: the first is delivered live, the second only after the restart
		g.c06E2E("two-outputs", "$k0-$k1", n2, [][]string{{"ab", "c"}, {"a", "bc"}, {"ab", "c"}, {"a,b", "c"}}, 2)
		g.c06E2E("two-outputs", "$k0", n1, c06AllTuples(1, c06Alphabet), 2)
		g.c06E2E("two-outputs", "$k0-$k1", n2, c06AllTuples(2, c06Alphabet), 2)
		for i := 0; i < g.Pick(30, 1500); i++ {
			n := r.Range(1, 3)
			group := g.c06RandGroup(n, r.Range(2, 6), false)
			g.c06E2E("two-outputs", c06Templates(n)[0], c06DefaultNames[:n], g.c06Shuffle(append(append([][]string{}, group...), group[:r.Intn(len(group))]...)), 2)
		}
		for i := 0; i < g.Pick(150, 5000); i++ {
			n := r.Range(1, 3)
			group := g.c06RandGroup(n, r.Range(2, 6), false)
			recs := g.c06Shuffle(append(append([][]string{}, group...), group[:r.Intn(len(group))]...))
			g.c06E2E("random", r.PickStr(c06Templates(n)), c06DefaultNames[:n], recs, r.Intn(3))
		}
	}
	// ------------------------------------------------------------------ records from the real parser with the pooled allocator (kind 7)
	{
		pnames := [][]string{{"app"}, {"host", "app"}, {"app", "host"}, {"host", "app", "source"}, {"source", "pid", "app", "host"}}
		ptmpl := func(names []string) []string {
			first, last := names[0], names[len(names)-1]
			return []string{"$" + first, "${" + last + "}", "${" + first + "[:2]}", "${" + last + "[-3:]}", "t.$" + first, "$" + first + "-$" + last, "fixed"}
		}
		palpha := []string{"", "a", "b", "ab", ",", "a,b", "/", "\x00", "sshd", "cron"}
		for mode := 0; mode <= 1; mode++ {
			// the demonstration of the seeded change, with the real parser
			g.c06Pooled("probe", "$app", pnames[0], [][]string{{"sshd"}, {"cron"}, {"sshd"}, {"ntpd"}, {"cron"}, {"sshd"}}, nil, mode)
			g.c06Pooled("probe", "$app", pnames[1], [][]string{{"h1", "sshd"}, {"host2", "cron"}, {"h1", "sshd"}, {"h", "ntpd"}}, []int{1100, 1200, 1300, 1400}, mode)
			g.c06Pooled("probe", "$app", pnames[0], [][]string{{"sshd"}, {"cron"}, {"sshd"}}, []int{200, 300, 400}, mode) // below the pooling threshold
			for _, names := range pnames {
				n := len(names)
				for ti, tmpl := range ptmpl(names) {
					if !g.Thorough() && ((mode == 1 && (ti%3 != 0 || len(names) > 2)) || (mode == 0 && len(names) > 2 && ti > 2)) {
						continue
					}
					// every key set over the alphabet first (n <= 2), then again in another order: every pipeline's
					// first record has been overwritten many times when the pipelines are looked at
					alpha := palpha
					if n > 1 {
						alpha = palpha[:6]
					}
					if n > 2 {
						alpha = []string{"", "a", "ab", ","}
					}
					all := c06AllTuples(n, alpha)
					if len(all) > 64 {
						all = g.c06Shuffle(all)[:64]
					}
					recs := append(append([][]string{}, all...), g.c06Shuffle(all)...)
					sizes := make([]int, len(recs))
					for i := range sizes {
						sizes[i] = r.PickInt([]int{1025, 1100, 1500, 2000, 2047, 2048, 3000, 1500, 1500})
					}
					g.c06Pooled("all-tuples", tmpl, names, recs, sizes, mode)
				}
			}
		}
		for i := 0; i < g.Pick(150, 3000); i++ {
			names := pnames[r.Intn(len(pnames))]
			n := len(names)
			tmpl := r.PickStr(ptmpl(names))
			var group [][]string
			for _, t := range g.c06RandGroup(n, r.Range(2, 6), false) {
				ok := true
				for j := range t {
					t[j] = strings.NewReplacer(" ", "_", "\n", "_").Replace(t[j])
					if len(t[j]) > 100 {
						ok = false
					}
				}
				if ok {
					group = append(group, t)
				}
			}
			if len(group) == 0 {
				continue
			}
			// first records of the key sets, then unrelated large records, then the key sets again
			recs := append([][]string{}, group...)
			for k := r.Range(1, 6); k > 0; k-- {
				recs = append(recs, g.c06RandTupleNoSpace(n))
			}
			recs = append(recs, g.c06Shuffle(group)...)
			sizes := make([]int, len(recs))
			class := r.PickInt([]int{1500, 3000, 5000})
			for j := range sizes {
				sizes[j] = class + r.Intn(400)
				if r.Chance(1, 8) {
					sizes[j] = r.PickInt([]int{100, 500, 1023, 1024, 1025})
				}
			}
			g.c06Pooled("random", tmpl, names, recs, sizes, r.Intn(2))
		}
	}
	// ------------------------------------------------------------------ umask / directory mode
	for _, um := range []int{0, 0o002, 0o007, 0o027, 0o077, 0o026, 0o004} {
		g.c06Disk("umask", "$k0-$k1", n2, [][]string{{"a", "b"}, {"b", "a"}, {"a", "b"}}, um)
	}
	// directory-name length limit of the file system (255 bytes): id + "." + 8 hex digits
	for _, l := range []int{200, 244, 245, 246, 247, 248, 249, 255, 256, 300} {
		g.c06Disk("long-id", "$k0", n1, [][]string{{strings.Repeat("x", l)}, {strings.Repeat("x", l-1) + "y"}}, 0o022)
	}

	// ------------------------------------------------------------------ restart with arbitrary initial ids
	for i := 0; i < g.Pick(300, 6000); i++ {
		n := r.Range(1, 3)
		names := c06DefaultNames[:n]
		tmpl := r.PickStr(c06Templates(n))
		group := g.c06RandGroup(n, r.Range(1, 5), false)
		var inits []string
		for k := r.Range(0, 5); k > 0; k-- {
			switch r.Intn(5) {
			case 0:
				inits = append(inits, g.c06RandKey())
			case 1:
				inits = append(inits, strings.Join(g.c06RandTuple(r.Range(1, 4)), ","))
			default:
				inits = append(inits, strings.Join(group[r.Intn(len(group))], ","))
			}
		}
		recs := g.c06Shuffle(append(append([][]string{}, group...), group...))
		ns := r.Range(1, 3)
		g.c06Route("initial-ids", tmpl, names, inits, recs, ns, g.c06RandSinks(len(recs), ns))
	}

	// ------------------------------------------------------------------ random byte-string tuples
	for i := 0; i < g.Pick(1500, 60000); i++ {
		n := r.Range(1, 3)
		if r.Chance(1, 10) {
			n = r.Range(4, 6)
		}
		names := []string{"k0", "k1", "k2", "k3", "k4", "k5"}[:n]
		tmpl := "$k0"
		if n <= 3 {
			tmpl = r.PickStr(c06Templates(n))
		}
		group := g.c06RandGroup(n, r.Range(2, 8), false)
		recs := g.c06Shuffle(append(append([][]string{}, group...), group[:r.Intn(len(group))]...))
		ns := r.Range(1, 4)
		g.c06Route("random", tmpl, names, nil, recs, ns, g.c06RandSinks(len(recs), ns))
	}
	for i := 0; i < g.Pick(400, 12000); i++ {
		n := r.Range(1, 3)
		names := c06DefaultNames[:n]
		group := g.c06RandGroup(n, r.Range(2, 6), false)
		um := 0o022
		if r.Chance(1, 8) {
			um = r.PickInt([]int{0, 0o027, 0o077, 0o007})
		}
		g.c06Disk("random", c06Templates(n)[0], names, group, um)
	}
	for i := 0; i < g.Pick(600, 20000); i++ {
		n := r.Range(1, 3)
		names := c06DefaultNames[:n]
		group := g.c06RandGroup(n, r.Range(2, 8), r.Bool()) // half of the groups with arbitrary bytes (ill-formed UTF-8)
		recs := g.c06Shuffle(append(append([][]string{}, group...), group[:r.Intn(len(group))]...))
		g.c06Metric("random", names, recs)
	}

	// ------------------------------------------------------------------ every permission value on a queue directory / a file
	for base := 0; base < 512; base += 8 {
		var s []string
		var z []int64
		for k := 0; k < 8; k++ {
			perm := base + k
			s = append(s, "q"+string(rune('a'+k))+".0123abcd", "id"+string(rune('a'+k)))
			typ := 1
			if (perm/8)%5 == 4 {
				typ = 0
			}
			z = append(z, int64(typ), int64(perm), 1, 1, 0)
		}
		g.Count("list:all-perms")
		g.Case(3, c06B(s...), z)
	}
	for _, hasID := range []int{0, 1} {
		for _, id := range []string{"", "x", "a,b"} {
			for nc := 0; nc <= 2; nc++ {
				for no := 0; no <= 1; no++ {
					g.Count("list:small")
					g.Case(3, c06B("d.00000000", id, "e.11111111", "e"), []int64{1, 0o755, int64(hasID), int64(nc), int64(no), 1, 0o700, 1, 1, 0})
				}
			}
		}
	}
	// ------------------------------------------------------------------ constructed queue roots
	perms := []int{0o755, 0o755, 0o755, 0o750, 0o700, 0o000, 0o644, 0o604, 0o004, 0o777, 0o711, 0o751, 0o040, 0o773}
	namesPool := []string{"a.0cc175b9", "b.92eb5ffe", ".id", "x", "a", "a,b.deadbeef", "_.aaaaaaaa", "zz.0", "q", "..x", "\xff\xfe", " "}
	for i := 0; i < g.Pick(300, 6000); i++ {
		ne := r.Range(0, 5)
		used := map[string]bool{}
		var s []string
		var z []int64
		for k := 0; k < ne; k++ {
			nm := r.PickStr(namesPool)
			if r.Chance(1, 4) {
				nm = strings.NewReplacer("/", "-", "\x00", "-").Replace(g.c06RandKey()) + "." + string(r.Bytes(8, []byte("0123456789abcdef")))
			}
			if used[nm] || nm == "." || nm == ".." || nm == "" {
				continue
			}
			used[nm] = true
			typ := 1
			if r.Chance(1, 4) {
				typ = 0
			}
			id := strings.Join(g.c06RandTuple(r.Range(1, 2)), ",")
			if r.Chance(1, 6) {
				id = ""
			}
			hasID := 1
			if r.Chance(1, 5) {
				hasID = 0
			}
			s = append(s, nm, id)
			z = append(z, int64(typ), int64(r.PickInt(perms)), int64(hasID), int64(r.PickInt([]int{0, 1, 1, 2})), int64(r.Intn(2)))
		}
		g.Count("list:random")
		g.Case(3, c06B(s...), z)
	}
}
