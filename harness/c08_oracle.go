package main

// C08 oracle: a line-based reference framer written independently of multilinereader.go and
// of the Coq model (no buffer, no offsets: split at '\n', group lines), its own notion of a
// record start line (the documented header shape), and the three claims of the property:
//
//  (A) no flush tick: the records are those of the reference framer, whatever the fragmentation
//      (and any two fragmentations of one stream give the same records);
//  (B) every line a valid single-line record: the records are the lines, whatever the flush ticks;
//  (C) a valid record (start line + continuation lines) comes out whole, once and in order
//      whenever no flush tick falls between the arrival of its first and of its last line.
//
// Side conditions (the stated domain of the property): softRecordLimit >= 1, every reference
// segment (record or dropped garbage block) at most softRecordLimit bytes, buffer of at least
// 3*softRecordLimit+1 bytes (production: 4*softRecordLimit).

import (
	"bytes"
	"fmt"
)

// c08RefStart: "<" 1-3 digits ">1 " and at least 32 bytes (shortest possible RFC 5424 header
// accepted by the parser), see recordtest.go's examples.
func c08RefStart(s []byte) bool {
	if len(s) < 32 || s[0] != '<' {
		return false
	}
	i := 1
	for i < len(s) && i <= 3 && s[i] >= '0' && s[i] <= '9' {
		i++
	}
	if i == 1 {
		return false
	}
	return bytes.HasPrefix(s[i:], []byte(">1 "))
}

func c08RefTester(tester int) func([]byte) bool {
	if tester == 0 {
		return c08RefStart
	}
	return func(s []byte) bool { return len(s) > 0 && s[0] == '>' }
}

type c08Seg struct {
	text         []byte
	start        int  // offset of the first byte in the stream
	firstLineEnd int  // offset just after the newline of the first line
	lastLineEnd  int  // offset just after the newline of the last line (len+1 if unterminated)
	valid        bool // first line is a record start
	nlines       int
}

// c08RefSegments splits the stream into lines and groups them: the first line opens a segment,
// a later non-empty line that is a record start opens the next one, every other line (and an
// unterminated tail) continues the open segment.
func c08RefSegments(s []byte, isStart func([]byte) bool) []c08Seg {
	var segs []c08Seg
	pieces := bytes.Split(s, []byte{'\n'})
	tail := pieces[len(pieces)-1]
	lines := pieces[:len(pieces)-1]
	if len(lines) == 0 && len(tail) == 0 {
		return nil
	}
	var cur [][]byte
	curStart, curFirstEnd, off := 0, 0, 0
	closeSeg := func(lastEnd int) {
		first := cur[0]
		segs = append(segs, c08Seg{text: bytes.Join(cur, []byte{'\n'}), start: curStart, firstLineEnd: curFirstEnd,
			lastLineEnd: lastEnd, valid: len(first) > 0 && isStart(first), nlines: len(cur)})
	}
	for i, l := range lines {
		end := off + len(l) + 1
		if i == 0 {
			cur, curStart, curFirstEnd = [][]byte{l}, off, end
		} else if len(l) > 0 && isStart(l) {
			closeSeg(off)
			cur, curStart, curFirstEnd = [][]byte{l}, off, end
		} else {
			cur = append(cur, l)
		}
		off = end
	}
	if len(tail) > 0 {
		if cur == nil {
			cur, curStart, curFirstEnd = [][]byte{tail}, off, off+len(tail)+1
		} else {
			cur = append(cur, tail)
		}
		closeSeg(off + len(tail) + 1)
	} else {
		closeSeg(off)
	}
	return segs
}

// c08RefFrame: every closed segment is a record; the segment open at the end of the stream
// is a record iff it passes the tester.
func c08RefFrame(segs []c08Seg, test func([]byte) bool) [][]byte {
	var out [][]byte
	for i, sg := range segs {
		if i < len(segs)-1 || test(sg.text) {
			out = append(out, sg.text)
		}
	}
	return out
}

func c08EqualRecords(a, b [][]byte) bool {
	if len(a) != len(b) {
		return false
	}
	for i := range a {
		if !bytes.Equal(a[i], b[i]) {
			return false
		}
	}
	return true
}

func c08Quote(rs [][]byte) string {
	s := "["
	for i, r := range rs {
		if i > 0 {
			s += " "
		}
		s += fmt.Sprintf("%q", r)
	}
	return s + "]"
}

func c08DescribeScript(sc *c08Script) string {
	s := fmt.Sprintf("minBuf=%d limit=%d tester=%d script:", sc.minBuf, sc.limit, sc.tester)
	for _, ev := range sc.events {
		switch ev.code {
		case c08Data:
			s += fmt.Sprintf(" read%q", ev.frag)
		case c08DataRen:
			s += fmt.Sprintf(" read%q+flush", ev.frag)
		case c08Timeout:
			s += " flush"
		default:
			s += " close"
		}
	}
	if len(s) > 1500 {
		s = s[:1500] + "..."
	}
	return s
}

// first output seen per (configuration, stream) among the tick-free scripts of this run
var c08Seen = map[string]string{}

func c08Oracle(sc *c08Script, conn bool, res *c08Result) (fails []Fail) {
	if res.status == "panic" {
		return []Fail{{"c08:panic", "multiLineReader panics (" + res.panicMsg + "): " + c08DescribeScript(sc)}}
	}
	if res.status == "wedge" {
		if sc.limit >= 1 {
			return []Fail{{"c08:wedge", "Read() called with a full buffer (busy loop): " + c08DescribeScript(sc)}}
		}
		return nil
	}
	if sc.limit >= 1 && res.appendTo != 0 && res.capacity-res.appendTo < sc.limit {
		fails = append(fails, Fail{"c08:buffer-full", fmt.Sprintf("less than softRecordLimit bytes of room left (%d of %d used): %s",
			res.appendTo, res.capacity, c08DescribeScript(sc))})
	}
	if !conn {
		return fails
	}
	// the stream and the flush ticks (offsets in the stream) up to the close
	var stream []byte
	var ticks []int
	for _, ev := range sc.events {
		if ev.code == c08Close {
			break
		}
		switch ev.code {
		case c08Data:
			stream = append(stream, ev.frag...)
		case c08DataRen:
			stream = append(stream, ev.frag...)
			ticks = append(ticks, len(stream))
		case c08Timeout:
			ticks = append(ticks, len(stream))
		}
	}
	capacity := sc.minBuf
	if 3*sc.limit > capacity {
		capacity = 3 * sc.limit
	}
	if sc.limit < 1 || capacity < 3*sc.limit+1 {
		return fails
	}
	isStart := c08RefTester(sc.tester)
	segs := c08RefSegments(stream, isStart)
	for _, sg := range segs {
		if len(sg.text) > sc.limit {
			return fails // outside the stated domain: a record (or garbage block) above the limit
		}
	}
	if len(ticks) == 0 {
		want := c08RefFrame(segs, isStart)
		if !c08EqualRecords(res.records, want) {
			fails = append(fails, Fail{"c08:framing", fmt.Sprintf("records %s, reference framer %s; %s",
				c08Quote(res.records), c08Quote(want), c08DescribeScript(sc))})
		}
		key := fmt.Sprintf("%d/%d/%d/%x", sc.minBuf, sc.limit, sc.tester, stream)
		got := c08Quote(res.records)
		if prev, ok := c08Seen[key]; !ok {
			if len(c08Seen) < 200000 {
				c08Seen[key] = got
			}
		} else if prev != got {
			fails = append(fails, Fail{"c08:frag-dependent", fmt.Sprintf("records %s, another fragmentation of the same stream gave %s; %s",
				got, prev, c08DescribeScript(sc))})
		}
		return fails
	}
	// (B) all lines valid single-line records
	if len(stream) > 0 && stream[len(stream)-1] == '\n' {
		lines := bytes.Split(stream[:len(stream)-1], []byte{'\n'})
		all := true
		for _, l := range lines {
			if len(l) == 0 || !isStart(l) {
				all = false
				break
			}
		}
		if all && !c08EqualRecords(res.records, lines) {
			fails = append(fails, Fail{"c08:flush-dependent", fmt.Sprintf("stream of single-line records: records %s, lines %s; %s",
				c08Quote(res.records), c08Quote(lines), c08DescribeScript(sc))})
		}
	}
	// (C) valid records with no tick between the arrival of their first and last line
	var intact [][]byte
	for _, sg := range segs {
		if !sg.valid {
			continue
		}
		whole := true
		for _, q := range ticks {
			if q >= sg.firstLineEnd && q < sg.lastLineEnd {
				whole = false
				break
			}
		}
		if whole {
			intact = append(intact, sg.text)
		}
	}
	j := 0
	for _, r := range res.records {
		if j < len(intact) && bytes.Equal(r, intact[j]) {
			j++
		}
	}
	if j < len(intact) {
		fails = append(fails, Fail{"c08:continuation-detached", fmt.Sprintf("record %q has no flush tick inside but is missing (or out of order) in %s; %s",
			intact[j], c08Quote(res.records), c08DescribeScript(sc))})
	} else {
		for _, sg := range segs {
			if !sg.valid {
				continue
			}
			first := sg.text
			if k := bytes.IndexByte(first, '\n'); k >= 0 {
				first = first[:k]
			}
			if bytes.Count(stream, first) != 1 {
				continue
			}
			n := 0
			for _, r := range res.records {
				if bytes.HasPrefix(r, first) {
					n++
				}
			}
			if n > 1 {
				fails = append(fails, Fail{"c08:duplicate", fmt.Sprintf("start line %q occurs once in the stream but opens %d records in %s; %s",
					first, n, c08Quote(res.records), c08DescribeScript(sc))})
				break
			}
		}
	}
	return fails
}
