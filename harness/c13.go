package main

// C13: timestamps parsed exactly, parsing total.
// Implementation under test: the parseTime transform built through its Config
// (tparsetime.Config.NewTransform), i.e. parseRFC3339Timestamp + Transform.

import (
	"fmt"
	"regexp"
	"strings"
	"time"

	"github.com/relex/gotils/logger"
	"github.com/relex/slog-agent/base"
	"github.com/relex/slog-agent/base/btest"
	"github.com/relex/slog-agent/transform/tparsetime"
)

var c13Strict = regexp.MustCompile(`^\d{4}-\d\d-\d\dT\d\d:\d\d:\d\d(\.\d{1,9})?(Z|[+-]\d\d:?\d\d)$`)

type c13Env struct {
	schema base.LogSchema
	tf     base.LogTransform
	lookup btest.LookupStubCustomerCounterFunc
}

var c13env *c13Env

func c13Setup() *c13Env {
	if c13env != nil {
		return c13env
	}
	time.Local = time.UTC // the model takes the offset of time.Local as 0
	schema := base.MustNewLogSchema([]string{"time", "log"})
	cfg := &tparsetime.Config{Key: "time", ErrorLabel: "timeError"}
	if err := cfg.VerifyConfig(schema); err != nil {
		panic(err)
	}
	reg, lookup := btest.NewStubLogCustomCounterRegistry()
	lg := logger.Root()
	logger.SetLogLevel(logger.ErrorLevel)
	c13env = &c13Env{schema: schema, tf: cfg.NewTransform(schema, lg, reg), lookup: lookup}
	return c13env
}

var c13Sentinel = time.Unix(1234567, 891)

// kind 1: a sequence of time values through ONE fresh transform instance (the transform keeps state:
// the time-zone cache and the error counter); the output lists the per-record results in order.
func c13RunSeq(c *Case) (out string, fails []Fail) {
	c13Setup()
	c13env = nil
	env := c13Setup()
	defer func() { c13env = nil }()
	outs := make([]string, 0, len(c.S))
	for i, v := range c.S {
		o, f := c13RunOne(env, string(v))
		outs = append(outs, o)
		for _, x := range f {
			x.Desc = fmt.Sprintf("record %d of sequence %q: %s", i, c.S, x.Desc)
			x.Sig += ":seq"
			fails = append(fails, x)
		}
	}
	return "seq:" + strings.Join(outs, ";"), fails
}

func c13Run(c *Case) (out string, fails []Fail) {
	if c.Kind == 1 {
		return c13RunSeq(c)
	}
	return c13RunOne(c13Setup(), string(c.S[0]))
}

func c13RunOne(env *c13Env, value string) (out string, fails []Fail) {
	record := env.schema.NewTestRecord2(c13Sentinel, base.LogFields{value, "x"})
	record.RawLength = 77
	cnt0, len0 := env.lookup("timeError")
	panicked := func() (p bool) {
		defer func() {
			if r := recover(); r != nil {
				p = true
			}
		}()
		env.tf.Transform(record)
		return false
	}()
	cnt1, len1 := env.lookup("timeError")
	unchanged := record.Timestamp.Equal(c13Sentinel)
	switch {
	case panicked:
		out = "panic"
		fails = append(fails, Fail{"c13:panic", fmt.Sprintf("parseTime panics on %q", value)})
	case cnt1 == cnt0+1:
		out = "err"
		if !unchanged {
			out = "err-ts-changed"
			fails = append(fails, Fail{"c13:err-ts-changed", fmt.Sprintf("error counted but timestamp replaced for %q", value)})
		}
		if len1 != len0+77 {
			fails = append(fails, Fail{"c13:err-length", "error counter not advanced by the record length"})
		}
	case cnt1 != cnt0:
		out = "err-count-wrong"
		fails = append(fails, Fail{"c13:err-count", "error counted more than once"})
	case len(value) == 0:
		out = "skip"
		if !unchanged {
			fails = append(fails, Fail{"c13:skip-ts-changed", "empty time value changed the timestamp"})
		}
	default:
		out = fmt.Sprintf("ok:%d,%d", record.Timestamp.Unix(), record.Timestamp.Nanosecond())
	}
	// --- the property's own oracle, independent of the model ---
	if !panicked {
		if c13Strict.MatchString(value) {
			layout := "2006-01-02T15:04:05.999999999Z07:00"
			if value[len(value)-1] != 'Z' && value[len(value)-3] != ':' {
				layout = "2006-01-02T15:04:05.999999999Z0700"
			}
			if ref, err := time.Parse(layout, value); err == nil {
				want := fmt.Sprintf("ok:%d,%d", ref.Unix(), ref.Nanosecond())
				if out != want {
					fails = append(fails, Fail{"c13:inexact", fmt.Sprintf("%q: parseTime gives %s, time.Parse gives %s", value, out, want)})
				}
			}
		}
		shaped := len(value) >= 19 && value[4] == '-' && value[7] == '-' && value[10] == 'T' && value[13] == ':' && value[16] == ':'
		if !shaped && len(value) > 0 && out != "err" {
			fails = append(fails, Fail{"c13:unshaped-accepted", fmt.Sprintf("%q is not shaped like a date-time but gives %s", value, out)})
		}
	}
	return out, fails
}

func c13Civil(r *Rng) (y, mo, d, h, mi, s int) {
	switch r.Intn(4) {
	case 0:
		y = r.Range(0, 9999)
	case 1:
		y = r.PickInt([]int{0, 1, 1600, 1900, 1969, 1970, 1999, 2000, 2004, 2038, 2100, 2400, 9999})
	default:
		y = r.Range(1970, 2100)
	}
	mo = r.Range(1, 12)
	dim := []int{31, 28, 31, 30, 31, 30, 31, 31, 30, 31, 30, 31}[mo-1]
	if mo == 2 && (y%4 == 0 && (y%100 != 0 || y%400 == 0)) {
		dim = 29
	}
	if r.Chance(1, 3) {
		d = r.PickInt([]int{1, dim})
	} else {
		d = r.Range(1, dim)
	}
	h, mi, s = r.Range(0, 23), r.Range(0, 59), r.Range(0, 59)
	if r.Chance(1, 8) {
		h, mi, s = r.PickInt([]int{0, 23}), r.PickInt([]int{0, 59}), r.PickInt([]int{0, 59})
	}
	return
}

func c13Frac(r *Rng) string {
	n := r.Range(0, 9)
	if n == 0 {
		return ""
	}
	switch r.Intn(5) {
	case 0:
		return "." + string(r.Bytes(n, []byte("09")))
	case 1:
		return "." + "000129000"[:n]
	default:
		return "." + string(r.Bytes(n, []byte("0123456789")))
	}
}

func c13Zone(r *Rng) string {
	if r.Chance(1, 5) {
		return "Z"
	}
	sign := r.PickStr([]string{"+", "-"})
	h, m := r.Range(0, 23), r.Range(0, 59)
	if r.Chance(1, 3) {
		h, m = r.PickInt([]int{0, 12, 14, 23}), r.PickInt([]int{0, 30, 45, 59})
	}
	if r.Bool() {
		return fmt.Sprintf("%s%02d:%02d", sign, h, m)
	}
	return fmt.Sprintf("%s%02d%02d", sign, h, m)
}

func c13Valid(r *Rng) string {
	y, mo, d, h, mi, s := c13Civil(r)
	return fmt.Sprintf("%04d-%02d-%02dT%02d:%02d:%02d%s%s", y, mo, d, h, mi, s, c13Frac(r), c13Zone(r))
}

func c13Gen(g *Gen) {
	r := g.R
	one := func(cls, v string) {
		g.Count(cls)
		g.Case(0, [][]byte{[]byte(v)}, nil)
	}
	// fixed probes
	for _, v := range []string{"", "-", "x", "2019-08-15T15:50:46", "2019-08-15T15:50:4", "2019-08-15T15:50:",
		"2019-08-15T15:50:46.", "2019-08-15T15:50:46.Z", "2019-08-15T15:50:46.000129Z", "2019-08-15T15:50:46.1234567891Z",
		"2019-08-15T15:50:46.12345678919+01:00", "2019-08-15T15:50:46Zx", "2019-08-15T15:50:46Z:", "2019-08-15T15:50:46+25:00",
		"2019-08-15T15:50:46+24:60", "2019-08-15T15:50:46+2400", "2019-08-15T15:50:46 03:00", "2019-13-32T25:61:61Z",
		"2019-00-00T00:00:00Z", "2019-08-15 15:50:46Z", "2019/08/15T15:50:46Z", "2019-08-15T15.50.46Z", "2019-08-15t15:50:46z",
		"2019-08-15T15:50:46+1:00", "2019-08-15T15:50:46+01:0", "2019-08-15T15:50:46+01:00:00", "2019-08-15T15:50:46-00:00",
		"2019-08-15T15:50:46.5", "2019-08-15T15:50:46.5 ", "2016-12-31T23:59:60Z", "\xff\xff\xff\xff-\xff\xff-\xff\xffT\xff\xff:\xff\xff:\xff\xffZ"} {
		one("probe", v)
	}
	// valid timestamps
	for i := 0; i < g.Pick(6000, 200000); i++ {
		one("valid", c13Valid(r))
	}
	// exhaustive fractions: all of 1..3 digits; six digits sampled (quick) or complete (thorough)
	for n := 1; n <= 3; n++ {
		lim := []int{0, 10, 100, 1000}[n]
		for f := 0; f < lim; f++ {
			one("frac-exhaustive-small", fmt.Sprintf("2019-08-15T15:50:46.%0*dZ", n, f))
		}
	}
	if g.Thorough() {
		for f := 0; f < 1000000; f++ {
			one("frac6-exhaustive", fmt.Sprintf("2019-08-15T15:50:46.%06d+03:00", f))
		}
	} else {
		for i := 0; i < 8000; i++ {
			one("frac6-sample", fmt.Sprintf("2019-08-15T15:50:46.%06d+03:00", r.Intn(1000000)))
		}
	}
	for i := 0; i < g.Pick(2000, 100000); i++ {
		n := r.Range(4, 9)
		one("frac-4to9", fmt.Sprintf("2021-02-28T23:59:59.%s%s", r.Bytes(n, []byte("0123456789")), c13Zone(r)))
	}
	// offsets: every hour, minutes complete in thorough
	for h := 0; h <= 25; h++ {
		for m := 0; m <= 61; m++ {
			if !g.Thorough() && !(m <= 1 || m == 30 || m >= 59) {
				continue
			}
			for _, sign := range []string{"+", "-"} {
				one("offset-sweep", fmt.Sprintf("2000-02-29T12:00:00%s%02d:%02d", sign, h, m))
				one("offset-sweep", fmt.Sprintf("2000-02-29T12:00:00.25%s%02d%02d", sign, h, m))
			}
		}
	}
	// every day of some leap / non-leap years, and month ends of all years in thorough
	for _, y := range []int{1900, 1972, 2000, 2023, 2024, 2100} {
		for t := time.Date(y, 1, 1, 0, 0, 0, 0, time.UTC); t.Year() == y; t = t.AddDate(0, 0, 1) {
			one("calendar", t.Format("2006-01-02T15:04:05Z"))
		}
	}
	if g.Thorough() {
		for y := 0; y <= 9999; y++ {
			for mo := 1; mo <= 12; mo++ {
				one("calendar-all-months", fmt.Sprintf("%04d-%02d-01T00:00:00Z", y, mo))
			}
		}
	}
	// every prefix of valid strings, and every suffix-truncation
	for i := 0; i < g.Pick(60, 2000); i++ {
		v := c13Valid(r)
		for n := 0; n <= len(v); n++ {
			one("prefix", v[:n])
		}
	}
	// single-byte mutations at every position
	muts := []byte("-T:.Z+ 09a\x00\xff/;")
	for i := 0; i < g.Pick(60, 2000); i++ {
		v := []byte(c13Valid(r))
		for pos := 0; pos < len(v); pos++ {
			w := append([]byte{}, v...)
			w[pos] = muts[r.Intn(len(muts))]
			one("mutate1", string(w))
		}
		// insertion / deletion
		pos := r.Intn(len(v))
		one("delete1", string(append(append([]byte{}, v[:pos]...), v[pos+1:]...)))
		one("insert1", string(append(append(append([]byte{}, v[:pos]...), muts[r.Intn(len(muts))]), v[pos:]...)))
	}
	// shaped but out-of-range components (Go's time.Date normalises them)
	for i := 0; i < g.Pick(1500, 30000); i++ {
		one("out-of-range", fmt.Sprintf("%04d-%02d-%02dT%02d:%02d:%02d%s%s", r.Range(0, 9999), r.Range(0, 99), r.Range(0, 99),
			r.Range(0, 99), r.Range(0, 99), r.Range(0, 99), c13Frac(r), c13Zone(r)))
	}
	// sequences through one transform instance: repeated invalid values, repeated zones (cache), mixes
	for i := 0; i < g.Pick(1500, 40000); i++ {
		n := r.Range(2, 8)
		pool := []string{"-", "", "x", "2019-08-15T15:50:4", c13Valid(r), c13Valid(r), "2019-08-15T15:50:46.5+03:00", "2019-08-15T15:50:46+03:0", "2019-08-15T15:50:46+0300"}
		seq := make([][]byte, n)
		for j := range seq {
			if j > 0 && r.Chance(1, 3) {
				seq[j] = seq[r.Intn(j)] // repeat an earlier value
			} else if r.Chance(1, 4) {
				seq[j] = []byte(c13Valid(r))
			} else {
				seq[j] = []byte(pool[r.Intn(len(pool))])
			}
		}
		g.Count("sequence")
		g.Case(1, seq, nil)
	}
	// garbage
	for i := 0; i < g.Pick(1500, 30000); i++ {
		n := r.PickInt([]int{1, 2, 5, 17, 18, 19, 20, 25, 30, 40})
		if r.Bool() {
			one("garbage", string(r.Bytes(n, []byte("0123456789-T:.Z+ "))))
		} else {
			b := make([]byte, n)
			for j := range b {
				b[j] = byte(r.Intn(256))
			}
			one("garbage-binary", string(b))
		}
	}
}

func init() { register(&Prop{ID: "C13", Gen: c13Gen, Run: c13Run}) }
